/- C04 part K: `switchKey_phase` — the end-to-end phase theorem of hybrid key switching (MODEL `switchKey`), and its corollaries for
   `relinearize` (size 3 → 2) and `applyGalois`.  Builds on C04T (T1 `ksAccumulate_spec`, T2 `moddown_spec` / `moddown_spec_bgv`).
   Helper names carry the prefix `c04k_`.

   Contents: negacyclic algebra over any commutative ring (bilinear form, commutativity, ASSOCIATIVITY `c04k_assoc`, the automorphism
   σ_g and its multiplicativity `c04k_sigma_mul`); the ring-level core `c04k_core`; integer views of the model data, the key equation
   bundle `c04k_KeyEq`; the noise polynomial ν (`c04k_nuStd`, `c04k_nuBgv`) with exactness and bounds; CRT merge (`c04k_crt_merge`,
   `c04k_merge`, `c04k_merge_spec` against `Spec.phase`); `galoisApplyNtt` = `galoisApply` conjugated by the NTT (`c04k_gal_ntt`);
   a concrete world with a genuine key (non-vacuity).  User-facing theorems: section "Property theorems" at the end.

   Phases are stated with integer coefficient functions `Nat → Int` and the negacyclic product `negMulR` over ℤ
   (`c05u_phase2 n c0 c1 s = c0 + c1 ⋆ s`), per level modulus q_j, with ONE integer noise polynomial ν independent of j; the merged
   forms modulo Q_level (`…_crt` for arbitrary integer lifts, `…_spec` for `Spec.phase` / `Spec.crtPoly`) follow by CRT. -/
import Heathcliff.Proofs.C04T
import Heathcliff.Proofs.C05U
import Heathcliff.Proofs.C01P
import Mathlib.Algebra.BigOperators.ModEq
import Mathlib.Tactic.Ring
import Mathlib.Tactic.Linarith
import Mathlib.Tactic.LinearCombination
namespace HC
open Finset

/-! ## negacyclic algebra in a commutative ring: bilinear form, commutativity, associativity -/

section negalg
variable {R : Type} [CommRing R]

/-- sign of the monomial X^t in coefficient c modulo X^n + 1, for t < 2n -/
def c04k_sg (n t c : Nat) : R := if t = c then 1 else if t = c + n then -1 else 0

/-- the same for t < 3n -/
def c04k_tau (n t c : Nat) : R := if t = c then 1 else if t = c + n then -1 else if t = c + 2 * n then 1 else 0

theorem c04k_row (n : Nat) (x : R) (b : Nat → R) {i c : Nat} (hi : i < n) (hc : c < n) :
    ∑ j ∈ range n, c04k_sg n (i + j) c * (x * b j) = if i ≤ c then x * b (c - i) else -(x * b (n + c - i)) := by
  by_cases hic : i ≤ c
  · rw [if_pos hic, Finset.sum_eq_single (c - i)]
    · unfold c04k_sg; rw [if_pos (by omega), one_mul]
    · intro j hj hne
      have := mem_range.mp hj
      unfold c04k_sg; rw [if_neg (by omega), if_neg (by omega), zero_mul]
    · intro h; exact absurd (mem_range.mpr (by omega)) h
  · rw [if_neg hic, Finset.sum_eq_single (n + c - i)]
    · unfold c04k_sg; rw [if_neg (by omega), if_pos (by omega)]; ring
    · intro j hj hne
      have := mem_range.mp hj
      unfold c04k_sg; rw [if_neg (by omega), if_neg (by omega), zero_mul]
    · intro h; exact absurd (mem_range.mpr (by omega)) h

/-- bilinear form of the negacyclic product -/
theorem c04k_form (n : Nat) (a b : Nat → R) {c : Nat} (hc : c < n) :
    negMulR n a b c = ∑ i ∈ range n, ∑ j ∈ range n, c04k_sg n (i + j) c * (a i * b j) := by
  unfold negMulR
  apply Finset.sum_congr rfl
  intro i hi
  rw [c04k_row n (a i) b (mem_range.mp hi) hc]

theorem c04k_comm (n : Nat) (a b : Nat → R) {c : Nat} (hc : c < n) : negMulR n a b c = negMulR n b a c := by
  rw [c04k_form n a b hc, c04k_form n b a hc, Finset.sum_comm]
  apply Finset.sum_congr rfl; intro i _
  apply Finset.sum_congr rfl; intro j _
  rw [Nat.add_comm, mul_comm (a j)]

theorem c04k_tau_eq (n : Nat) {i j l c : Nat} (hi : i < n) (hj : j < n) (hl : l < n) (hc : c < n) :
    ∑ m ∈ range n, (c04k_sg n (m + l) c : R) * c04k_sg n (i + j) m = c04k_tau n (i + j + l) c := by
  by_cases h : i + j < n
  · rw [Finset.sum_eq_single (i + j)]
    · unfold c04k_sg c04k_tau
      rw [if_pos rfl, mul_one]
      split
      · rfl
      · split
        · rfl
        · rw [if_neg (by omega)]
    · intro m hm hne
      have := mem_range.mp hm
      have : (c04k_sg n (i + j) m : R) = 0 := by unfold c04k_sg; rw [if_neg (by omega), if_neg (by omega)]
      rw [this, mul_zero]
    · intro h'; exact absurd (mem_range.mpr h) h'
  · obtain ⟨d, hd⟩ : ∃ d, i + j = d + n := ⟨i + j - n, by omega⟩
    rw [Finset.sum_eq_single d]
    · have e : (c04k_sg n (i + j) d : R) = -1 := by
        unfold c04k_sg; rw [if_neg (by omega), if_pos (by omega)]
      rw [e]
      unfold c04k_sg c04k_tau
      rw [if_neg (show ¬ i + j + l = c by omega)]
      by_cases h1 : d + l = c
      · rw [if_pos h1, if_pos (show i + j + l = c + n by omega)]; ring
      · rw [if_neg h1, if_neg (show ¬ i + j + l = c + n by omega)]
        by_cases h2 : d + l = c + n
        · rw [if_pos h2, if_pos (show i + j + l = c + 2 * n by omega)]; ring
        · rw [if_neg h2, if_neg (show ¬ i + j + l = c + 2 * n by omega)]; ring
    · intro m hm hne
      have := mem_range.mp hm
      have : (c04k_sg n (i + j) m : R) = 0 := by unfold c04k_sg; rw [if_neg (by omega), if_neg (by omega)]
      rw [this, mul_zero]
    · intro h'; exact absurd (mem_range.mpr (by omega)) h'

/-- trilinear form of (a ⋆ b) ⋆ s -/
theorem c04k_triple (n : Nat) (a b s : Nat → R) {c : Nat} (hc : c < n) :
    negMulR n (negMulR n a b) s c =
      ∑ i ∈ range n, ∑ j ∈ range n, ∑ l ∈ range n, c04k_tau n (i + j + l) c * (a i * b j * s l) := by
  have hR : ∀ i ∈ range n, ∀ j ∈ range n, ∀ l ∈ range n,
      (c04k_tau n (i + j + l) c : R) * (a i * b j * s l) =
        ∑ m ∈ range n, c04k_sg n (m + l) c * c04k_sg n (i + j) m * (a i * b j * s l) := by
    intro i hi j hj l hl
    rw [← c04k_tau_eq n (mem_range.mp hi) (mem_range.mp hj) (mem_range.mp hl) hc, Finset.sum_mul]
  have hL : negMulR n (negMulR n a b) s c =
      ∑ m ∈ range n, ∑ l ∈ range n, ∑ i ∈ range n, ∑ j ∈ range n,
        c04k_sg n (m + l) c * c04k_sg n (i + j) m * (a i * b j * s l) := by
    rw [c04k_form n _ s hc]
    apply Finset.sum_congr rfl; intro m hm
    apply Finset.sum_congr rfl; intro l _
    rw [c04k_form n a b (mem_range.mp hm), Finset.sum_mul, Finset.mul_sum]
    apply Finset.sum_congr rfl; intro i _
    rw [Finset.sum_mul, Finset.mul_sum]
    apply Finset.sum_congr rfl; intro j _
    ring
  rw [hL]
  -- m l i j → i j l m
  calc ∑ m ∈ range n, ∑ l ∈ range n, ∑ i ∈ range n, ∑ j ∈ range n,
          c04k_sg n (m + l) c * c04k_sg n (i + j) m * (a i * b j * s l)
      = ∑ m ∈ range n, ∑ i ∈ range n, ∑ l ∈ range n, ∑ j ∈ range n,
          c04k_sg n (m + l) c * c04k_sg n (i + j) m * (a i * b j * s l) :=
        Finset.sum_congr rfl (fun _ _ => Finset.sum_comm)
    _ = ∑ i ∈ range n, ∑ m ∈ range n, ∑ l ∈ range n, ∑ j ∈ range n,
          c04k_sg n (m + l) c * c04k_sg n (i + j) m * (a i * b j * s l) := Finset.sum_comm
    _ = ∑ i ∈ range n, ∑ m ∈ range n, ∑ j ∈ range n, ∑ l ∈ range n,
          c04k_sg n (m + l) c * c04k_sg n (i + j) m * (a i * b j * s l) :=
        Finset.sum_congr rfl (fun _ _ => Finset.sum_congr rfl (fun _ _ => Finset.sum_comm))
    _ = ∑ i ∈ range n, ∑ j ∈ range n, ∑ m ∈ range n, ∑ l ∈ range n,
          c04k_sg n (m + l) c * c04k_sg n (i + j) m * (a i * b j * s l) :=
        Finset.sum_congr rfl (fun _ _ => Finset.sum_comm)
    _ = ∑ i ∈ range n, ∑ j ∈ range n, ∑ l ∈ range n, ∑ m ∈ range n,
          c04k_sg n (m + l) c * c04k_sg n (i + j) m * (a i * b j * s l) :=
        Finset.sum_congr rfl (fun _ _ => Finset.sum_congr rfl (fun _ _ => Finset.sum_comm))
    _ = _ := by
        apply Finset.sum_congr rfl; intro i hi
        apply Finset.sum_congr rfl; intro j hj
        apply Finset.sum_congr rfl; intro l hl
        exact (hR i hi j hj l hl).symm

theorem c04k_congr_right (n : Nat) (a b b' : Nat → R) {c : Nat} (hc : c < n) (h : ∀ i, i < n → b i = b' i) :
    negMulR n a b c = negMulR n a b' c := by
  rw [c04k_comm n a b hc, c04k_comm n a b' hc]
  exact c05u_negMul_congr n b b' a c h

/-- associativity of the negacyclic product -/
theorem c04k_assoc (n : Nat) (a b s : Nat → R) {c : Nat} (hc : c < n) :
    negMulR n (negMulR n a b) s c = negMulR n a (negMulR n b s) c := by
  have h2 : negMulR n a (negMulR n b s) c = negMulR n (negMulR n b s) a c := c04k_comm n _ _ hc
  rw [h2, c04k_triple n a b s hc, c04k_triple n b s a hc]
  -- i j l  vs  j l i
  calc ∑ i ∈ range n, ∑ j ∈ range n, ∑ l ∈ range n, c04k_tau n (i + j + l) c * (a i * b j * s l)
      = ∑ j ∈ range n, ∑ i ∈ range n, ∑ l ∈ range n, c04k_tau n (i + j + l) c * (a i * b j * s l) := Finset.sum_comm
    _ = ∑ j ∈ range n, ∑ l ∈ range n, ∑ i ∈ range n, c04k_tau n (i + j + l) c * (a i * b j * s l) :=
        Finset.sum_congr rfl (fun _ _ => Finset.sum_comm)
    _ = _ := by
        apply Finset.sum_congr rfl; intro j _
        apply Finset.sum_congr rfl; intro l _
        apply Finset.sum_congr rfl; intro i _
        rw [show j + l + i = i + j + l by omega]; ring

theorem c04k_add_right (n : Nat) (a b b' : Nat → R) {c : Nat} (hc : c < n) :
    negMulR n a (fun i => b i + b' i) c = negMulR n a b c + negMulR n a b' c := by
  rw [c04k_comm n a _ hc, c05u_negMul_add, c04k_comm n b a hc, c04k_comm n b' a hc]

theorem c04k_smul_right (n : Nat) (k : R) (a b : Nat → R) {c : Nat} (hc : c < n) :
    negMulR n a (fun i => k * b i) c = k * negMulR n a b c := by
  rw [c04k_comm n a _ hc, c05u_negMul_smul, c04k_comm n b a hc]

theorem c04k_sub_left (n : Nat) (a a' b : Nat → R) (c : Nat) :
    negMulR n (fun i => a i - a' i) b c = negMulR n a b c - negMulR n a' b c := by
  have := c05u_negMul_add n (fun i => a i - a' i) a' b c
  simp only [sub_add_cancel] at this
  rw [this]; ring

theorem c04k_sum_left (n m : Nat) (a : Nat → Nat → R) (b : Nat → R) (c : Nat) :
    negMulR n (fun p => ∑ i ∈ range m, a i p) b c = ∑ i ∈ range m, negMulR n (a i) b c := by
  induction m with
  | zero =>
    simp only [Finset.range_zero, Finset.sum_empty]
    unfold negMulR
    apply Finset.sum_eq_zero; intro i _; split <;> ring
  | succ m ih =>
    simp only [Finset.sum_range_succ]
    rw [c05u_negMul_add n (fun p => ∑ i ∈ range m, a i p) (a m) b c, ih]

/-- ring homomorphisms commute with the negacyclic product -/
theorem c04k_map {S : Type} [CommRing S] (f : R →+* S) (n : Nat) (a b : Nat → R) (c : Nat) :
    f (negMulR n a b c) = negMulR n (fun i => f (a i)) (fun i => f (b i)) c := by
  unfold negMulR
  rw [map_sum]
  apply Finset.sum_congr rfl
  intro i _
  split
  · rw [map_mul]
  · rw [map_neg, map_mul]

end negalg

/-! ## the automorphism σ_g : X ↦ X^g of R[X]/(X^n+1) on coefficient functions; it is multiplicative -/

section sigma
variable {R : Type} [CommRing R]

/-- coefficient of X^c in X^t modulo X^n + 1 (any t) -/
def c04k_chi (n t c : Nat) : R := if t % n = c then (-1) ^ (t / n) else 0

/-- σ_g(a) = a(X^g) modulo X^n + 1 -/
def c04k_sigma (n g : Nat) (a : Nat → R) (c : Nat) : R := ∑ i ∈ range n, c04k_chi n (i * g) c * a i

theorem c04k_chi_sg {n t c : Nat} (ht : t < 2 * n) (hc : c < n) : (c04k_chi n t c : R) = c04k_sg n t c := by
  unfold c04k_chi c04k_sg
  by_cases h : t < n
  · rw [Nat.mod_eq_of_lt h, Nat.div_eq_of_lt h, pow_zero]
    by_cases h1 : t = c
    · rw [if_pos h1, if_pos h1]
    · rw [if_neg h1, if_neg h1, if_neg (by omega)]
  · obtain ⟨d, rfl⟩ : ∃ d, t = n + d := ⟨t - n, by omega⟩
    have hd : d < n := by omega
    rw [Nat.add_mod_left, Nat.mod_eq_of_lt hd, Nat.add_div_left _ (by omega), Nat.div_eq_of_lt hd, zero_add, pow_one,
      if_neg (show ¬ n + d = c by omega)]
    by_cases h1 : d = c
    · rw [if_pos h1, if_pos (by omega)]
    · rw [if_neg h1, if_neg (by omega)]

theorem c04k_chi_add {n : Nat} (hn : 0 < n) (v u c : Nat) : (c04k_chi n (v + n * u) c : R) = (-1) ^ u * c04k_chi n v c := by
  unfold c04k_chi
  rw [Nat.add_mul_mod_self_left, Nat.add_mul_div_left _ _ hn]
  split
  · rw [pow_add]; ring
  · rw [mul_zero]

theorem c04k_chi_sum {n : Nat} (hn : 0 < n) (t1 t2 : Nat) {c : Nat} (hc : c < n) :
    (c04k_chi n (t1 + t2) c : R) = (-1) ^ (t1 / n) * (-1) ^ (t2 / n) * c04k_sg n (t1 % n + t2 % n) c := by
  have h1 := Nat.mod_add_div t1 n
  have h2 := Nat.mod_add_div t2 n
  have e : t1 + t2 = (t1 % n + t2 % n) + n * (t1 / n + t2 / n) := by rw [Nat.mul_add]; linarith
  have l1 := Nat.mod_lt t1 hn
  have l2 := Nat.mod_lt t2 hn
  rw [e, c04k_chi_add hn, c04k_chi_sg (by omega) hc, pow_add]

theorem c04k_chi_single {n : Nat} (hn : 0 < n) (t : Nat) (f : Nat → R) :
    ∑ p ∈ range n, f p * c04k_chi n t p = f (t % n) * (-1) ^ (t / n) := by
  rw [Finset.sum_eq_single (t % n)]
  · unfold c04k_chi; rw [if_pos rfl]
  · intro p _ hne
    unfold c04k_chi; rw [if_neg (Ne.symm hne), mul_zero]
  · intro h; exact absurd (mem_range.mpr (Nat.mod_lt _ hn)) h

theorem c04k_chi_F3 {n g : Nat} (hg : g % 2 = 1) {i j : Nat} (hi : i < n) (hj : j < n) (c : Nat) :
    ∑ m ∈ range n, (c04k_sg n (i + j) m : R) * c04k_chi n (m * g) c = c04k_chi n ((i + j) * g) c := by
  by_cases h : i + j < n
  · rw [Finset.sum_eq_single (i + j)]
    · unfold c04k_sg; rw [if_pos rfl, one_mul]
    · intro m hm hne
      have := mem_range.mp hm
      unfold c04k_sg; rw [if_neg (by omega), if_neg (by omega), zero_mul]
    · intro h'; exact absurd (mem_range.mpr h) h'
  · obtain ⟨d, hd⟩ : ∃ d, i + j = d + n := ⟨i + j - n, by omega⟩
    rw [Finset.sum_eq_single d]
    · have e : (c04k_sg n (i + j) d : R) = -1 := by unfold c04k_sg; rw [if_neg (by omega), if_pos (by omega)]
      rw [e, hd, Nat.add_mul, c04k_chi_add (by omega), Odd.neg_one_pow (Nat.odd_iff.mpr hg)]
    · intro m hm hne
      have := mem_range.mp hm
      unfold c04k_sg; rw [if_neg (by omega), if_neg (by omega), zero_mul]
    · intro h'; exact absurd (mem_range.mpr (by omega)) h'

theorem c04k_chi_F4 {n : Nat} (hn : 0 < n) (g i j : Nat) {c : Nat} (hc : c < n) :
    ∑ p ∈ range n, ∑ q ∈ range n, (c04k_sg n (p + q) c : R) * (c04k_chi n (i * g) p * c04k_chi n (j * g) q)
      = c04k_chi n ((i + j) * g) c := by
  have h1 : ∀ p ∈ range n, ∑ q ∈ range n, (c04k_sg n (p + q) c : R) * (c04k_chi n (i * g) p * c04k_chi n (j * g) q)
      = (c04k_sg n (p + (j * g) % n) c * (-1) ^ (j * g / n)) * c04k_chi n (i * g) p := by
    intro p _
    have := c04k_chi_single hn (j * g) (fun q => (c04k_sg n (p + q) c : R) * c04k_chi n (i * g) p)
    rw [← mul_right_comm, ← this]
    apply Finset.sum_congr rfl; intro q _; ring
  rw [Finset.sum_congr rfl h1,
    c04k_chi_single hn (i * g) (fun p => (c04k_sg n (p + (j * g) % n) c : R) * (-1) ^ (j * g / n)),
    Nat.add_mul, c04k_chi_sum hn _ _ hc]
  ring

theorem c04k_sigma_add (n g : Nat) (a b : Nat → R) (c : Nat) :
    c04k_sigma n g (fun i => a i + b i) c = c04k_sigma n g a c + c04k_sigma n g b c := by
  unfold c04k_sigma
  rw [← Finset.sum_add_distrib]
  apply Finset.sum_congr rfl; intro i _; ring

theorem c04k_sigma_congr (n g : Nat) (a b : Nat → R) (c : Nat) (h : ∀ i, i < n → a i = b i) :
    c04k_sigma n g a c = c04k_sigma n g b c := by
  unfold c04k_sigma
  apply Finset.sum_congr rfl; intro i hi; rw [h i (mem_range.mp hi)]

/-- σ_g is multiplicative for the negacyclic product -/
theorem c04k_sigma_mul {n g : Nat} (hg : g % 2 = 1) (a b : Nat → R) {c : Nat} (hc : c < n) :
    c04k_sigma n g (negMulR n a b) c = negMulR n (c04k_sigma n g a) (c04k_sigma n g b) c := by
  have hn : 0 < n := by omega
  have hL : c04k_sigma n g (negMulR n a b) c = ∑ i ∈ range n, ∑ j ∈ range n, c04k_chi n ((i + j) * g) c * (a i * b j) := by
    unfold c04k_sigma
    calc ∑ m ∈ range n, c04k_chi n (m * g) c * negMulR n a b m
        = ∑ m ∈ range n, ∑ i ∈ range n, ∑ j ∈ range n,
            c04k_sg n (i + j) m * c04k_chi n (m * g) c * (a i * b j) := by
          apply Finset.sum_congr rfl; intro m hm
          rw [c04k_form n a b (mem_range.mp hm), Finset.mul_sum]
          apply Finset.sum_congr rfl; intro i _
          rw [Finset.mul_sum]
          apply Finset.sum_congr rfl; intro j _
          ring
      _ = ∑ i ∈ range n, ∑ m ∈ range n, ∑ j ∈ range n,
            c04k_sg n (i + j) m * c04k_chi n (m * g) c * (a i * b j) := Finset.sum_comm
      _ = ∑ i ∈ range n, ∑ j ∈ range n, ∑ m ∈ range n,
            c04k_sg n (i + j) m * c04k_chi n (m * g) c * (a i * b j) :=
          Finset.sum_congr rfl (fun _ _ => Finset.sum_comm)
      _ = _ := by
          apply Finset.sum_congr rfl; intro i hi
          apply Finset.sum_congr rfl; intro j hj
          rw [← Finset.sum_mul, c04k_chi_F3 hg (mem_range.mp hi) (mem_range.mp hj)]
  have hRr : negMulR n (c04k_sigma n g a) (c04k_sigma n g b) c
      = ∑ i ∈ range n, ∑ j ∈ range n, c04k_chi n ((i + j) * g) c * (a i * b j) := by
    rw [c04k_form n _ _ hc]
    unfold c04k_sigma
    calc ∑ p ∈ range n, ∑ q ∈ range n, c04k_sg n (p + q) c *
            ((∑ i ∈ range n, c04k_chi n (i * g) p * a i) * (∑ j ∈ range n, c04k_chi n (j * g) q * b j))
        = ∑ p ∈ range n, ∑ q ∈ range n, ∑ i ∈ range n, ∑ j ∈ range n,
            c04k_sg n (p + q) c * (c04k_chi n (i * g) p * c04k_chi n (j * g) q) * (a i * b j) := by
          apply Finset.sum_congr rfl; intro p _
          apply Finset.sum_congr rfl; intro q _
          rw [Finset.sum_mul, Finset.mul_sum]
          apply Finset.sum_congr rfl; intro i _
          rw [Finset.mul_sum, Finset.mul_sum]
          apply Finset.sum_congr rfl; intro j _
          ring
      _ = ∑ p ∈ range n, ∑ i ∈ range n, ∑ q ∈ range n, ∑ j ∈ range n,
            c04k_sg n (p + q) c * (c04k_chi n (i * g) p * c04k_chi n (j * g) q) * (a i * b j) :=
          Finset.sum_congr rfl (fun _ _ => Finset.sum_comm)
      _ = ∑ i ∈ range n, ∑ p ∈ range n, ∑ q ∈ range n, ∑ j ∈ range n,
            c04k_sg n (p + q) c * (c04k_chi n (i * g) p * c04k_chi n (j * g) q) * (a i * b j) := Finset.sum_comm
      _ = ∑ i ∈ range n, ∑ p ∈ range n, ∑ j ∈ range n, ∑ q ∈ range n,
            c04k_sg n (p + q) c * (c04k_chi n (i * g) p * c04k_chi n (j * g) q) * (a i * b j) :=
          Finset.sum_congr rfl (fun _ _ => Finset.sum_congr rfl (fun _ _ => Finset.sum_comm))
      _ = ∑ i ∈ range n, ∑ j ∈ range n, ∑ p ∈ range n, ∑ q ∈ range n,
            c04k_sg n (p + q) c * (c04k_chi n (i * g) p * c04k_chi n (j * g) q) * (a i * b j) :=
          Finset.sum_congr rfl (fun _ _ => Finset.sum_comm)
      _ = _ := by
          apply Finset.sum_congr rfl; intro i _
          apply Finset.sum_congr rfl; intro j _
          rw [← c04k_chi_F4 hn g i j hc, Finset.sum_mul]
          apply Finset.sum_congr rfl; intro p _
          rw [Finset.sum_mul]
  rw [hL, hRr]

/-- σ_g commutes with ring homomorphisms -/
theorem c04k_sigma_map {S : Type} [CommRing S] (f : R →+* S) (n g : Nat) (a : Nat → R) (c : Nat) :
    f (c04k_sigma n g a c) = c04k_sigma n g (fun i => f (a i)) c := by
  unfold c04k_sigma
  rw [map_sum]
  apply Finset.sum_congr rfl; intro i _
  rw [map_mul]
  congr 1
  unfold c04k_chi
  split
  · rw [map_pow, map_neg, map_one]
  · rw [map_zero]

/-- σ_g of a vector whose image under i ↦ i·g mod n (with sign) is `r`: σ_g(a) = r -/
theorem c04k_sigma_of_perm {k g : Nat} (hg : g % 2 = 1) (a r : Nat → R)
    (hr : ∀ i, i < 2^k → r ((i * g) % 2^k) = (if ((i * g) / 2^k) % 2 = 1 then - a i else a i)) :
    ∀ c, c < 2^k → c04k_sigma (2^k) g a c = r c := by
  intro c hc
  have hc' : c ∈ range (2^k) := mem_range.mpr hc
  rw [← c04m_image_eq (k := k) hg, Finset.mem_image] at hc'
  obtain ⟨i0, hi0, rfl⟩ := hc'
  have hi0' := mem_range.mp hi0
  unfold c04k_sigma
  rw [Finset.sum_eq_single i0]
  · rw [hr i0 hi0']
    unfold c04k_chi
    rw [if_pos rfl]
    by_cases h : ((i0 * g) / 2^k) % 2 = 1
    · rw [if_pos h, Odd.neg_one_pow (Nat.odd_iff.mpr h)]; ring
    · rw [if_neg h, Even.neg_one_pow (Nat.even_iff.mpr (by omega))]; ring
  · intro i hi hne
    unfold c04k_chi
    rw [if_neg, zero_mul]
    intro h
    exact hne (odd_mul_injective hg (mem_range.mp hi) hi0' h)
  · intro h; exact absurd hi0 h

end sigma

/-! ## ring-level core: accumulate + mod-down + key equation ⇒ phase of the added pair -/

/-- the sum Σ_i D_i ⋆ (K0_i + K1_i ⋆ s) under the key equation (digit `j` carries the gadget element) -/
theorem c04k_acc_phase {R : Type} [CommRing R] (n dsz j : Nat) (hj : j < dsz) (P : R)
    (D K0 K1 e : Nat → Nat → R) (G : Nat → R) (s s' : Nat → R)
    (hkey : ∀ i, i < dsz → ∀ c, c < n → K0 i c + negMulR n (K1 i) s c = e i c + P * G i * s' c)
    (hG : ∀ i, i < dsz → G i = if i = j then 1 else 0) {c : Nat} (hc : c < n) :
    (∑ i ∈ range dsz, negMulR n (D i) (K0 i) c) +
      negMulR n (fun p => ∑ i ∈ range dsz, negMulR n (D i) (K1 i) p) s c
      = ∑ i ∈ range dsz, negMulR n (D i) (e i) c + P * negMulR n (D j) s' c := by
  rw [c04k_sum_left, ← Finset.sum_add_distrib]
  have hterm : ∀ i ∈ range dsz, negMulR n (D i) (K0 i) c + negMulR n (negMulR n (D i) (K1 i)) s c
      = negMulR n (D i) (e i) c + (if i = j then P * negMulR n (D j) s' c else 0) := by
    intro i hi
    have hi' := mem_range.mp hi
    rw [c04k_assoc n _ _ _ hc, ← c04k_add_right n _ _ _ hc,
      c04k_congr_right n (D i) _ (fun p => e i p + P * G i * s' p) hc (fun p hp => hkey i hi' p hp),
      c04k_add_right n _ _ _ hc, c04k_smul_right n _ _ _ hc, hG i hi']
    by_cases hij : i = j
    · subst hij; rw [if_pos rfl, if_pos rfl, mul_one]
    · rw [if_neg hij, if_neg hij, mul_zero, zero_mul]
  rw [Finset.sum_congr rfl hterm, Finset.sum_add_distrib, Finset.sum_ite_eq' (range dsz) j, if_pos (mem_range.mpr hj)]

theorem c04k_core {R : Type} [CommRing R] (n dsz j : Nat) (hj : j < dsz) (P y : R) (hy : y * P = 1)
    (D K0 K1 e : Nat → Nat → R) (G : Nat → R) (s s' r0 r1 A0 A1 δ0 δ1 ν : Nat → R)
    (hkey : ∀ i, i < dsz → ∀ c, c < n → K0 i c + negMulR n (K1 i) s c = e i c + P * G i * s' c)
    (hG : ∀ i, i < dsz → G i = if i = j then 1 else 0)
    (hA0 : ∀ c, c < n → A0 c = ∑ i ∈ range dsz, negMulR n (D i) (K0 i) c)
    (hA1 : ∀ c, c < n → A1 c = ∑ i ∈ range dsz, negMulR n (D i) (K1 i) c)
    (hδ0 : ∀ c, c < n → P * δ0 c = A0 c - r0 c) (hδ1 : ∀ c, c < n → P * δ1 c = A1 c - r1 c)
    (hν : ∀ c, c < n → P * ν c = ∑ i ∈ range dsz, negMulR n (D i) (e i) c - r0 c - negMulR n r1 s c) :
    ∀ c, c < n → δ0 c + negMulR n δ1 s c = negMulR n (D j) s' c + ν c := by
  intro c hc
  have h1 : P * negMulR n δ1 s c
      = negMulR n (fun p => ∑ i ∈ range dsz, negMulR n (D i) (K1 i) p) s c - negMulR n r1 s c := by
    rw [← c05u_negMul_smul, c05u_negMul_congr n (fun i => P * δ1 i) (fun i => A1 i - r1 i) s c hδ1, c04k_sub_left,
      c05u_negMul_congr n A1 (fun p => ∑ i ∈ range dsz, negMulR n (D i) (K1 i) p) s c hA1]
  have h2 := c04k_acc_phase n dsz j hj P D K0 K1 e G s s' hkey hG hc
  have hP : P * (δ0 c + negMulR n δ1 s c) = P * (negMulR n (D j) s' c + ν c) := by
    rw [mul_add, mul_add, hδ0 c hc, h1, hν c hc, hA0 c hc]
    linear_combination h2
  calc δ0 c + negMulR n δ1 s c = y * (P * (δ0 c + negMulR n δ1 s c)) := by rw [← mul_assoc, hy, one_mul]
    _ = y * (P * (negMulR n (D j) s' c + ν c)) := by rw [hP]
    _ = _ := by rw [← mul_assoc, hy, one_mul]

/-! ## integer views of the model data and the key equation -/

/-- coefficient form of key row (digit i, component k) at key-level modulus `idx` (key rows are stored in NTT form) -/
def c04k_keyCoef (kl : KeyLevel) (key : KSKey) (idx i k : Nat) : Poly := intt (kl.tb idx) (c04t_K key i k idx)

/-- digit polynomial i of a coefficient-form RNS polynomial, as an integer coefficient function -/
def c04k_digit (tc : RnsPoly) (i : Nat) : Nat → Int := fun p => (((tc.getD i #[]).getD p 0 : Nat) : Int)

def c04k_keyI (kl : KeyLevel) (key : KSKey) (idx i k : Nat) : Nat → Int :=
  fun p => (((c04k_keyCoef kl key idx i k).getD p 0 : Nat) : Int)

/-- coefficient function of an RNS component given in the working representation (through `intt` when in NTT form) -/
def c04k_polyI (t : NTTTables) (isNtt : Bool) (p : Poly) : Nat → Int :=
  fun c => (((c04t_coefOf t isNtt p).getD c 0 : Nat) : Int)

/-- the key-level modulus indices used with `dsz` digits: the first `dsz` and the special prime -/
def c04k_Used (kl : KeyLevel) (dsz idx : Nat) : Prop := idx < dsz ∨ idx = kl.ms.size - 1

/-- KEY EQUATION of a key-switching key from s' to s, over ℤ[X]/(X^n+1), modulo every used key-level modulus (equivalently, by CRT,
    modulo Q_level·P):  k0_i + k1_i ⋆ s ≡ e_i + P·g_i·s'  with g_i the gadget element of digit i (≡ 1 mod q_i, ≡ 0 mod the other q_j). -/
structure c04k_KeyEq (kl : KeyLevel) (dsz : Nat) (key : KSKey) (s s' : Nat → Int) (e : Nat → Nat → Int) (G : Nat → Int) : Prop where
  hG : ∀ j, j < dsz → ∀ i, i < dsz → G i ≡ (if i = j then 1 else 0) [ZMOD ((kl.m j).value : Int)]
  hkey : ∀ idx, c04k_Used kl dsz idx → ∀ i, i < dsz → ∀ c, c < kl.n →
    c04k_keyI kl key idx i 0 c + negMulR kl.n (c04k_keyI kl key idx i 1) s c
      ≡ e i c + (kl.c04t_P : Int) * G i * s' c [ZMOD ((kl.m idx).value : Int)]

/-- E = Σ_i D_i ⋆ e_i : the key errors weighted by the digits -/
def c04k_E (n dsz : Nat) (tc : RnsPoly) (e : Nat → Nat → Int) (c : Nat) : Int :=
  ∑ i ∈ range dsz, negMulR n (c04k_digit tc i) (e i) c

/-- the key-switching noise polynomial: ν = (E − r0 − r1 ⋆ s) / P (the division is exact) -/
def c04k_nu (n dsz P : Nat) (tc : RnsPoly) (e : Nat → Nat → Int) (r : Nat → Nat → Int) (s : Nat → Int) (c : Nat) : Int :=
  (c04k_E n dsz tc e c - r 0 c - negMulR n (r 1) s c) / (P : Int)

theorem c04k_cast (q n : Nat) (a b : Nat → Int) (c : Nat) :
    ((negMulR n a b c : Int) : ZMod q) = negMulR n (fun i => ((a i : Int) : ZMod q)) (fun i => ((b i : Int) : ZMod q)) c :=
  c04k_map (Int.castRingHom (ZMod q)) n a b c

theorem c04k_accCoef_cast (kl : KeyLevel) (dsz : Nat) (tc : RnsPoly) (key : KSKey) (idx k c : Nat)
    (hq : 0 < (kl.m idx).value) :
    ((c04t_accCoef kl dsz tc key idx k c : Nat) : ZMod (kl.m idx).value) =
      ∑ i ∈ range dsz, negMulR kl.n (fun p => ((c04k_digit tc i p : Int) : ZMod (kl.m idx).value))
        (fun p => ((c04k_keyI kl key idx i k p : Int) : ZMod (kl.m idx).value)) c := by
  unfold c04t_accCoef
  rw [ZMod.natCast_mod, Nat.cast_sum]
  apply Finset.sum_congr rfl
  intro i _
  rw [(negMulNat_cast hq _ _ _ _).2]
  simp only [c04k_digit, c04k_keyI, c04k_keyCoef, Int.cast_natCast]

theorem c04k_E_cast (q n dsz : Nat) (tc : RnsPoly) (e : Nat → Nat → Int) (c : Nat) :
    ((c04k_E n dsz tc e c : Int) : ZMod q) =
      ∑ i ∈ range dsz, negMulR n (fun p => ((c04k_digit tc i p : Int) : ZMod q)) (fun p => ((e i p : Int) : ZMod q)) c := by
  unfold c04k_E
  rw [Int.cast_sum]
  apply Finset.sum_congr rfl
  intro i _
  exact c04k_cast q n _ _ c

/-- the key equation seen in `ZMod q_idx` -/
theorem c04k_keyEq_cast {kl : KeyLevel} {dsz : Nat} {key : KSKey} {s s' : Nat → Int} {e : Nat → Nat → Int} {G : Nat → Int}
    (hke : c04k_KeyEq kl dsz key s s' e G) {idx : Nat} (hu : c04k_Used kl dsz idx) {i : Nat} (hi : i < dsz) {c : Nat}
    (hc : c < kl.n) :
    ((c04k_keyI kl key idx i 0 c : Int) : ZMod (kl.m idx).value) +
      negMulR kl.n (fun p => ((c04k_keyI kl key idx i 1 p : Int) : ZMod (kl.m idx).value))
        (fun p => ((s p : Int) : ZMod (kl.m idx).value)) c
      = ((e i c : Int) : ZMod (kl.m idx).value) + ((kl.c04t_P : Nat) : ZMod (kl.m idx).value)
          * ((G i : Int) : ZMod (kl.m idx).value) * ((s' c : Int) : ZMod (kl.m idx).value) := by
  have h := (ZMod.intCast_eq_intCast_iff _ _ _).mpr (hke.hkey idx hu i hi c hc)
  rw [Int.cast_add, c04k_cast, Int.cast_add, Int.cast_mul, Int.cast_mul, Int.cast_natCast] at h
  exact h

/-- exactness of the division in `c04k_nu`: modulo the special prime the accumulated pair has phase E -/
theorem c04k_nu_dvd_pos {kl : KeyLevel} {dsz : Nat} {key : KSKey} {s s' : Nat → Int} {e : Nat → Nat → Int} {G : Nat → Int}
    (hke : c04k_KeyEq kl dsz key s s' e G) (h0 : 0 < dsz) (hP : 0 < kl.c04t_P) (tc : RnsPoly) (r : Nat → Nat → Int)
    (hr : ∀ k, k < 2 → ∀ c, c < kl.n →
      r k c ≡ ((c04t_accCoef kl dsz tc key (kl.ms.size - 1) k c : Nat) : Int) [ZMOD (kl.c04t_P : Int)])
    {c : Nat} (hc : c < kl.n) :
    (kl.c04t_P : Int) ∣ c04k_E kl.n dsz tc e c - r 0 c - negMulR kl.n (r 1) s c := by
  apply (ZMod.intCast_zmod_eq_zero_iff_dvd _ _).mp
  show ((c04k_E kl.n dsz tc e c - r 0 c - negMulR kl.n (r 1) s c : Int) : ZMod (kl.m (kl.ms.size - 1)).value) = 0
  have hPz : ((kl.c04t_P : Nat) : ZMod (kl.m (kl.ms.size - 1)).value) = 0 := ZMod.natCast_self _
  have hrz : ∀ k, k < 2 → ∀ p, p < kl.n → ((r k p : Int) : ZMod (kl.m (kl.ms.size - 1)).value) =
      ∑ i ∈ range dsz, negMulR kl.n (fun p => ((c04k_digit tc i p : Int) : ZMod (kl.m (kl.ms.size - 1)).value))
        (fun p => ((c04k_keyI kl key (kl.ms.size - 1) i k p : Int) : ZMod (kl.m (kl.ms.size - 1)).value)) p := by
    intro k hk p hp
    have := (ZMod.intCast_eq_intCast_iff _ _ _).mpr (hr k hk p hp)
    rw [Int.cast_natCast] at this
    rw [← c04k_accCoef_cast kl dsz tc key (kl.ms.size - 1) k p hP]
    exact this
  have h2 := c04k_acc_phase (R := ZMod (kl.m (kl.ms.size - 1)).value) kl.n dsz 0 h0 0
    (fun i p => ((c04k_digit tc i p : Int) : ZMod (kl.m (kl.ms.size - 1)).value))
    (fun i p => ((c04k_keyI kl key (kl.ms.size - 1) i 0 p : Int) : ZMod (kl.m (kl.ms.size - 1)).value))
    (fun i p => ((c04k_keyI kl key (kl.ms.size - 1) i 1 p : Int) : ZMod (kl.m (kl.ms.size - 1)).value))
    (fun i p => ((e i p : Int) : ZMod (kl.m (kl.ms.size - 1)).value)) (fun i => if i = 0 then 1 else 0)
    (fun p => ((s p : Int) : ZMod (kl.m (kl.ms.size - 1)).value))
    (fun p => ((s' p : Int) : ZMod (kl.m (kl.ms.size - 1)).value))
    (fun i hi c hc => by
      have := c04k_keyEq_cast hke (Or.inr rfl) hi hc
      rw [hPz, zero_mul, zero_mul, add_zero] at this
      rw [zero_mul, zero_mul, add_zero]; exact this)
    (fun _ _ => rfl) hc
  rw [zero_mul, add_zero] at h2
  rw [Int.cast_sub, Int.cast_sub, c04k_E_cast, c04k_cast, hrz 0 (by omega) c hc,
    c05u_negMul_congr kl.n _ _ _ c (hrz 1 (by omega)), ← h2]
  ring

theorem c04k_nu_dvd {kl : KeyLevel} {dsz : Nat} {key : KSKey} {s s' : Nat → Int} {e : Nat → Nat → Int} {G : Nat → Int}
    (hke : c04k_KeyEq kl dsz key s s' e G) (hP : 0 < kl.c04t_P) (tc : RnsPoly) (r : Nat → Nat → Int)
    (hr : ∀ k, k < 2 → ∀ c, c < kl.n →
      r k c ≡ ((c04t_accCoef kl dsz tc key (kl.ms.size - 1) k c : Nat) : Int) [ZMOD (kl.c04t_P : Int)])
    {c : Nat} (hc : c < kl.n) :
    (kl.c04t_P : Int) ∣ c04k_E kl.n dsz tc e c - r 0 c - negMulR kl.n (r 1) s c := by
  rcases Nat.eq_zero_or_pos dsz with h0 | h0
  · subst h0
    have hz : ∀ k, k < 2 → ∀ p, p < kl.n → (kl.c04t_P : Int) ∣ r k p := by
      intro k hk p hp
      have := hr k hk p hp
      have e0 : c04t_accCoef kl 0 tc key (kl.ms.size - 1) k p = 0 := by simp [c04t_accCoef]
      rw [e0] at this
      exact Int.modEq_zero_iff_dvd.mp this
    have hE : c04k_E kl.n 0 tc e c = 0 := by simp [c04k_E]
    rw [hE, zero_sub]
    exact dvd_sub ((Int.dvd_neg).mpr (hz 0 (by omega) c hc)) (c05u_negMul_dvd kl.n _ (r 1) s c (hz 1 (by omega)))
  · exact c04k_nu_dvd_pos hke h0 hP tc r hr hc

/-- per-modulus conclusion: if the two new components are the old ones plus `dz` with P·dz ≡ (accumulated) − r, the phase changes
    by (digit j) ⋆ s' + ν -/
theorem c04k_finish {kl : KeyLevel} {dsz : Nat} {key : KSKey} {s s' : Nat → Int} {e : Nat → Nat → Int} {G : Nat → Int}
    (hke : c04k_KeyEq kl dsz key s s' e G) (hP : 0 < kl.c04t_P) (tc : RnsPoly) (r : Nat → Nat → Int)
    (hr : ∀ k, k < 2 → ∀ c, c < kl.n →
      r k c ≡ ((c04t_accCoef kl dsz tc key (kl.ms.size - 1) k c : Nat) : Int) [ZMOD (kl.c04t_P : Int)])
    {j : Nat} (hj : j < dsz) (hq : 0 < (kl.m j).value) {y : Nat}
    (hy : (y * kl.c04t_P) % (kl.m j).value = 1 % (kl.m j).value)
    (a a' dz : Nat → Nat → Int)
    (ha : ∀ k, k < 2 → ∀ c, c < kl.n → a' k c ≡ a k c + dz k c [ZMOD ((kl.m j).value : Int)])
    (hdz : ∀ k, k < 2 → ∀ c, c < kl.n →
      (kl.c04t_P : Int) * dz k c ≡ ((c04t_accCoef kl dsz tc key j k c : Nat) : Int) - r k c [ZMOD ((kl.m j).value : Int)]) :
    ∀ c, c < kl.n → c05u_phase2 kl.n (a' 0) (a' 1) s c ≡
      c05u_phase2 kl.n (a 0) (a 1) s c + negMulR kl.n (c04k_digit tc j) s' c
        + c04k_nu kl.n dsz kl.c04t_P tc e r s c [ZMOD ((kl.m j).value : Int)] := by
  intro c hc
  have hνeq : ∀ p, p < kl.n → (kl.c04t_P : Int) * c04k_nu kl.n dsz kl.c04t_P tc e r s p
      = c04k_E kl.n dsz tc e p - r 0 p - negMulR kl.n (r 1) s p := fun p hp => by
    unfold c04k_nu; exact Int.mul_ediv_cancel' (c04k_nu_dvd hke hP tc r hr hp)
  have haz : ∀ k, k < 2 → ∀ p, p < kl.n → ((a' k p : Int) : ZMod (kl.m j).value) =
      ((a k p : Int) : ZMod (kl.m j).value) + ((dz k p : Int) : ZMod (kl.m j).value) := fun k hk p hp => by
    have := (ZMod.intCast_eq_intCast_iff _ _ _).mpr (ha k hk p hp)
    rw [Int.cast_add] at this; exact this
  have hδz : ∀ k, k < 2 → ∀ p, p < kl.n →
      ((kl.c04t_P : Nat) : ZMod (kl.m j).value) * ((dz k p : Int) : ZMod (kl.m j).value) =
      ((c04t_accCoef kl dsz tc key j k p : Nat) : ZMod (kl.m j).value) - ((r k p : Int) : ZMod (kl.m j).value) :=
    fun k hk p hp => by
      have := (ZMod.intCast_eq_intCast_iff _ _ _).mpr (hdz k hk p hp)
      rw [Int.cast_mul, Int.cast_natCast, Int.cast_sub, Int.cast_natCast] at this; exact this
  have hcore := c04k_core (R := ZMod (kl.m j).value) kl.n dsz j hj ((kl.c04t_P : Nat) : ZMod (kl.m j).value)
    ((y : Nat) : ZMod (kl.m j).value) (c04t_inv_cast hy)
    (fun i p => ((c04k_digit tc i p : Int) : ZMod (kl.m j).value))
    (fun i p => ((c04k_keyI kl key j i 0 p : Int) : ZMod (kl.m j).value))
    (fun i p => ((c04k_keyI kl key j i 1 p : Int) : ZMod (kl.m j).value))
    (fun i p => ((e i p : Int) : ZMod (kl.m j).value)) (fun i => ((G i : Int) : ZMod (kl.m j).value))
    (fun p => ((s p : Int) : ZMod (kl.m j).value)) (fun p => ((s' p : Int) : ZMod (kl.m j).value))
    (fun p => ((r 0 p : Int) : ZMod (kl.m j).value)) (fun p => ((r 1 p : Int) : ZMod (kl.m j).value))
    (fun p => ((c04t_accCoef kl dsz tc key j 0 p : Nat) : ZMod (kl.m j).value))
    (fun p => ((c04t_accCoef kl dsz tc key j 1 p : Nat) : ZMod (kl.m j).value))
    (fun p => ((dz 0 p : Int) : ZMod (kl.m j).value)) (fun p => ((dz 1 p : Int) : ZMod (kl.m j).value))
    (fun p => ((c04k_nu kl.n dsz kl.c04t_P tc e r s p : Int) : ZMod (kl.m j).value))
    (fun i hi p hp => c04k_keyEq_cast hke (Or.inl hj) hi hp)
    (fun i hi => by
      have := (ZMod.intCast_eq_intCast_iff _ _ _).mpr (hke.hG j hj i hi)
      rw [this]; split <;> simp)
    (fun p _ => c04k_accCoef_cast kl dsz tc key j 0 p hq)
    (fun p _ => c04k_accCoef_cast kl dsz tc key j 1 p hq)
    (hδz 0 (by omega)) (hδz 1 (by omega))
    (fun p hp => by
      have := congrArg (Int.cast : Int → ZMod (kl.m j).value) (hνeq p hp)
      rw [Int.cast_mul, Int.cast_natCast, Int.cast_sub, Int.cast_sub, c04k_E_cast, c04k_cast] at this
      exact this) c hc
  apply (ZMod.intCast_eq_intCast_iff _ _ _).mp
  unfold c05u_phase2
  rw [Int.cast_add, Int.cast_add, Int.cast_add, Int.cast_add, c04k_cast, c04k_cast, c04k_cast, haz 0 (by omega) c hc,
    c05u_negMul_congr kl.n _ _ _ c (haz 1 (by omega)), c05u_negMul_add]
  linear_combination hcore

/-! ## from T2 (`moddown_spec`, `moddown_spec_bgv`) to the hypotheses of `c04k_finish` -/

/-- the new component = old + δ slot-wise ⇒ the same on coefficient functions modulo q_j -/
theorem c04k_coef_add {kl : KeyLevel} (hkl : kl.WF) {j : Nat} (hj : j < kl.ms.size) (isNtt : Bool) {x δ z : Poly}
    (hx : x.size = kl.n) (hxl : ∀ l, l < kl.n → x.getD l 0 < (kl.m j).value)
    (hδ : δ.size = kl.n) (hδl : ∀ l, l < kl.n → δ.getD l 0 < (kl.m j).value)
    (hz : z.size = kl.n) (hzv : ∀ l, l < kl.n → z.getD l 0 = (x.getD l 0 + δ.getD l 0) % (kl.m j).value) :
    ∀ c, c < kl.n → c04k_polyI (kl.tb j) isNtt z c ≡
      c04k_polyI (kl.tb j) isNtt x c + c04k_polyI (kl.tb j) isNtt δ c [ZMOD ((kl.m j).value : Int)] := by
  obtain ⟨htw, htm, htn, hmw⟩ := c04t_kl_comp hkl hj
  intro c hc
  unfold c04k_polyI c04t_coefOf
  cases isNtt with
  | false =>
    simp only [Bool.false_eq_true, if_false]
    rw [hzv c hc]
    push_cast
    exact Int.mod_modEq _ _
  | true =>
    simp only [if_true]
    have := c01o_intt_add htw (x := x) (y := δ) (z := z) (by rw [hx, htn]) (by rw [hδ, htn]) (by rw [hz, htn])
      (fun l hl => by rw [htm]; exact hxl l (by rw [← htn]; exact hl))
      (fun l hl => by rw [htm]; exact hδl l (by rw [← htn]; exact hl))
      (fun l hl => by rw [htm]; exact hzv l (by rw [← htn]; exact hl)) c (by rw [htn]; exact hc)
    rw [this, htm]
    push_cast
    exact Int.mod_modEq _ _

/-- an integer with prescribed residues modulo q and P (P invertible modulo q) -/
theorem c04k_lift {q P y a b : Nat} (hy : (y * P) % q = 1) (ha : a < q) (hb : b < P) :
    ∃ X : Int, X % (q : Int) = (a : Int) ∧ X % (P : Int) = (b : Int) := by
  refine ⟨(b : Int) + (P : Int) * ((y : Int) * ((a : Int) - b)), ?_, ?_⟩
  · have hdvd : (q : Int) ∣ ((y * P : Nat) : Int) - 1 := by
      have h1 := Nat.div_add_mod (y * P) q
      rw [hy] at h1
      refine ⟨((y * P / q : Nat) : Int), ?_⟩
      have : ((q * (y * P / q) + 1 : Nat) : Int) = ((y * P : Nat) : Int) := by rw [h1]
      push_cast at this ⊢
      linarith
    have hm : (b : Int) + (P : Int) * ((y : Int) * ((a : Int) - b)) ≡ (a : Int) [ZMOD (q : Int)] := by
      apply Int.ModEq.symm
      apply (Int.modEq_iff_dvd).mpr
      obtain ⟨w, hw⟩ := hdvd
      refine ⟨w * ((a : Int) - b), ?_⟩
      push_cast at hw
      have : (b : Int) + (P : Int) * ((y : Int) * ((a : Int) - b)) - a = ((y : Int) * P - 1) * ((a : Int) - b) := by ring
      rw [this, hw]; ring
    have := hm
    unfold Int.ModEq at this
    rw [this]
    exact Int.emod_eq_of_lt (by omega) (by exact_mod_cast ha)
  · rw [Int.add_mul_emod_self_left]
    exact Int.emod_eq_of_lt (by omega) (by exact_mod_cast hb)

/-- rounding branch: P·δ ≡ a − centre(b) -/
theorem c04k_std_dz {q P y a b : Nat} (hP : 0 < P) (hy : (y * P) % q = 1) (ha : a < q) (hb : b < P) {d : Int}
    (h : ∀ X : Int, X % (q : Int) = (a : Int) → X % (P : Int) = (b : Int) → d % (q : Int) = Spec.roundDiv X P % (q : Int)) :
    (P : Int) * d ≡ (a : Int) - c04t_center P b [ZMOD (q : Int)] := by
  obtain ⟨X, hXa, hXb⟩ := c04k_lift hy ha hb
  have h1 : d ≡ Spec.roundDiv X P [ZMOD (q : Int)] := h X hXa hXb
  obtain ⟨h2, _, _⟩ := c04t_center_round hP b X hXb
  have h3 : X ≡ (a : Int) [ZMOD (q : Int)] := by
    unfold Int.ModEq; rw [hXa]; exact (Int.emod_eq_of_lt (by omega) (by exact_mod_cast ha)).symm
  have h4 : (P : Int) * Spec.roundDiv X P = X - c04t_center P b := by linarith
  calc (P : Int) * d ≡ (P : Int) * Spec.roundDiv X P [ZMOD (q : Int)] := h1.mul_left _
    _ = X - c04t_center P b := h4
    _ ≡ (a : Int) - c04t_center P b [ZMOD (q : Int)] := h3.sub_right _

theorem c04k_center_mod {P : Nat} (hP : 0 < P) {b : Nat} (hb : b < P) :
    c04t_center P b ≡ (b : Int) [ZMOD (P : Int)] ∧ (c04t_center P b).natAbs ≤ P / 2 := by
  obtain ⟨h1, h2, h3⟩ := c04t_center_round hP b (b : Int) (Int.emod_eq_of_lt (by omega) (by exact_mod_cast hb))
  constructor
  · apply Int.ModEq.symm
    apply (Int.modEq_iff_dvd).mpr
    exact ⟨-Spec.roundDiv (b : Int) P, by linarith⟩
  · omega

/-! ## the noise bound -/

theorem c04k_E_bound (n dsz : Nat) (tc : RnsPoly) (e : Nat → Nat → Int) (A Be : Nat)
    (hD : ∀ i, i < dsz → ∀ p, p < n → (c04k_digit tc i p).natAbs ≤ A)
    (he : ∀ i, i < dsz → ∀ p, p < n → (e i p).natAbs ≤ Be) {c : Nat} (hc : c < n) :
    (c04k_E n dsz tc e c).natAbs ≤ dsz * (A * (n * Be)) := by
  unfold c04k_E
  refine le_trans (Int.natAbs_sum_le _ _) ?_
  have : ∀ i ∈ range dsz, (negMulR n (c04k_digit tc i) (e i) c).natAbs ≤ A * (n * Be) := by
    intro i hi
    have hi' := mem_range.mp hi
    refine le_trans (c05u_negMul_bound n _ _ A c hc (hD i hi')) (Nat.mul_le_mul_left _ ?_)
    have h2 : ∑ p ∈ range n, (e i p).natAbs ≤ ∑ _p ∈ range n, Be :=
      Finset.sum_le_sum (fun p hp => he i hi' p (mem_range.mp hp))
    rw [Finset.sum_const, Finset.card_range, smul_eq_mul] at h2
    exact h2
  have h3 := Finset.sum_le_sum this
  rw [Finset.sum_const, Finset.card_range, smul_eq_mul] at h3
  exact h3

theorem c04k_nu_bound (n dsz P : Nat) (tc : RnsPoly) (e r : Nat → Nat → Int) (s : Nat → Int) (A Be Rb : Nat)
    (hD : ∀ i, i < dsz → ∀ p, p < n → (c04k_digit tc i p).natAbs ≤ A)
    (he : ∀ i, i < dsz → ∀ p, p < n → (e i p).natAbs ≤ Be)
    (hr : ∀ k, k < 2 → ∀ p, p < n → (r k p).natAbs ≤ Rb) {c : Nat} (hc : c < n)
    (hν : (P : Int) * c04k_nu n dsz P tc e r s c = c04k_E n dsz tc e c - r 0 c - negMulR n (r 1) s c) :
    (c04k_nu n dsz P tc e r s c).natAbs * P ≤ dsz * (A * (n * Be)) + Rb * (1 + ∑ p ∈ range n, (s p).natAbs) := by
  have h1 := c04k_E_bound n dsz tc e A Be hD he hc
  have h2 := c05u_negMul_bound n (r 1) s Rb c hc (hr 1 (by omega))
  have h3 := hr 0 (by omega) c hc
  have h4 : (c04k_nu n dsz P tc e r s c).natAbs * P = ((P : Int) * c04k_nu n dsz P tc e r s c).natAbs := by
    rw [Int.natAbs_mul, Int.natAbs_natCast, Nat.mul_comm]
  rw [h4, hν]
  have h5 := Int.natAbs_sub_le (c04k_E n dsz tc e c - r 0 c) (negMulR n (r 1) s c)
  have h6 := Int.natAbs_sub_le (c04k_E n dsz tc e c) (r 0 c)
  rw [Nat.mul_add, Nat.mul_one]
  omega

theorem c04k_digit_bound {kl : KeyLevel} {dsz : Nat} {tc : RnsPoly} (hc : c04t_Canon kl dsz tc) {A : Nat}
    (hA : ∀ i, i < dsz → (kl.m i).value ≤ A) : ∀ i, i < dsz → ∀ p, p < kl.n → (c04k_digit tc i p).natAbs ≤ A := by
  intro i hi p hp
  unfold c04k_digit
  rw [Int.natAbs_natCast]
  have := (hc i hi).2 p hp
  have := hA i hi
  omega

/-! ## assembling: rounding branch (BFV coefficient form, CKKS NTT form) -/

theorem c04k_digit_target {kl : KeyLevel} (hkl : kl.WF) {dsz : Nat} (hd : dsz + 1 ≤ kl.ms.size) (isNtt : Bool)
    {target : RnsPoly} (ht : c04t_Canon kl dsz target) {j : Nat} (hj : j < dsz) :
    c04k_digit (c04t_targetCoef kl dsz isNtt target) j = c04k_polyI (kl.tb j) isNtt (target.getD j #[]) := by
  obtain ⟨_, f2⟩ := c04t_targetCoef_facts hkl hd isNtt ht
  funext p
  unfold c04k_digit c04k_polyI c04t_coefOf
  cases isNtt with
  | false => simp [c04t_targetCoef]
  | true => rw [(f2 rfl).2 j hj]; simp

/-- the centred residues modulo P of the two accumulated polynomials (rounding branch) -/
def c04k_rStd (kl : KeyLevel) (dsz : Nat) (tc : RnsPoly) (key : KSKey) : Nat → Nat → Int :=
  fun k c => c04t_center kl.c04t_P (c04t_accCoef kl dsz tc key (kl.ms.size - 1) k c)

/-- the key-switching noise polynomial of the rounding branch:
    ν = (Σ_i D_i ⋆ e_i − r_0 − r_1 ⋆ s) / P,  r_k the centred residue mod P of the k-th accumulated polynomial -/
def c04k_nuStd (kl : KeyLevel) (dsz : Nat) (isNtt : Bool) (target : RnsPoly) (key : KSKey) (e : Nat → Nat → Int)
    (s : Nat → Int) (c : Nat) : Int :=
  c04k_nu kl.n dsz kl.c04t_P (c04t_targetCoef kl dsz isNtt target) e
    (c04k_rStd kl dsz (c04t_targetCoef kl dsz isNtt target) key) s c

theorem c04k_accCoef_lt {kl : KeyLevel} (dsz : Nat) (tc : RnsPoly) (key : KSKey) (idx k c : Nat) (hq : 0 < (kl.m idx).value) :
    c04t_accCoef kl dsz tc key idx k c < (kl.m idx).value := by
  unfold c04t_accCoef; exact Nat.mod_lt _ hq

theorem c04k_rStd_facts {kl : KeyLevel} (hP : 0 < kl.c04t_P) (dsz : Nat) (tc : RnsPoly) (key : KSKey) (k c : Nat) :
    c04k_rStd kl dsz tc key k c ≡ ((c04t_accCoef kl dsz tc key (kl.ms.size - 1) k c : Nat) : Int) [ZMOD (kl.c04t_P : Int)] ∧
    (c04k_rStd kl dsz tc key k c).natAbs ≤ kl.c04t_P / 2 :=
  c04k_center_mod hP (c04k_accCoef_lt dsz tc key (kl.ms.size - 1) k c hP)

theorem c04k_main_std {kl : KeyLevel} {scheme : Scheme} {dsz : Nat} {ct : Ct} {target : RnsPoly} {key : KSKey}
    (h : c04t_KSInput kl dsz ct target key) (hmode : c04t_StdMode scheme ct.ntt)
    (hkcc : (key.getD 0 #[]).size = 2) (hsz : 2 ≤ ct.polys.size)
    {s s' : Nat → Int} {e : Nat → Nat → Int} {G : Nat → Int} (hke : c04k_KeyEq kl dsz key s s' e G) :
    ∃ ct', switchKey kl scheme dsz ct target key = .ok ct' ∧ ct'.ntt = ct.ntt ∧ ct'.cf = ct.cf ∧
      ct'.polys.size = ct.polys.size ∧
      (∀ idx, 2 ≤ idx → ct'.polys.getD idx #[] = ct.polys.getD idx #[]) ∧
      (∀ k, k < 2 → (ct'.polys.getD k #[]).size = dsz ∧ c04t_Canon kl dsz (ct'.polys.getD k #[])) ∧
      ∀ j, j < dsz → ∀ c, c < kl.n →
        c05u_phase2 kl.n (c04k_polyI (kl.tb j) ct.ntt ((ct'.polys.getD 0 #[]).getD j #[]))
            (c04k_polyI (kl.tb j) ct.ntt ((ct'.polys.getD 1 #[]).getD j #[])) s c
          ≡ c05u_phase2 kl.n (c04k_polyI (kl.tb j) ct.ntt ((ct.polys.getD 0 #[]).getD j #[]))
              (c04k_polyI (kl.tb j) ct.ntt ((ct.polys.getD 1 #[]).getD j #[])) s c
            + negMulR kl.n (c04k_polyI (kl.tb j) ct.ntt (target.getD j #[])) s' c
            + c04k_nuStd kl dsz ct.ntt target key e s c [ZMOD ((kl.m j).value : Int)] := by
  obtain ⟨ct', hok, hn, hcf, hps, hrest, hmain⟩ := moddown_spec h hmode
  rw [hkcc] at hrest hmain
  have hd := h.hd
  obtain ⟨_, _, _, hPw⟩ := c04t_kl_comp h.hkl (show kl.ms.size - 1 < kl.ms.size by omega)
  have hP : 0 < kl.c04t_P := by have := hPw.two_le; show 0 < (kl.m (kl.ms.size - 1)).value; omega
  refine ⟨ct', hok, hn, hcf, hps, hrest, fun k hk => ?_, fun j hj c hc => ?_⟩
  · obtain ⟨hs, hj⟩ := hmain k hk (by omega)
    refine ⟨hs, fun j hjd => ?_⟩
    obtain ⟨δ, _, _, hz, hzv, _⟩ := hj j hjd
    obtain ⟨_, _, _, hmw⟩ := c04t_kl_comp h.hkl (show j < kl.ms.size by omega)
    exact ⟨hz, fun l hl => by rw [hzv l hl]; exact Nat.mod_lt _ (by have := hmw.two_le; omega)⟩
  · obtain ⟨_, _, _, hmw⟩ := c04t_kl_comp h.hkl (show j < kl.ms.size by omega)
    have hq : 0 < (kl.m j).value := by have := hmw.two_le; omega
    obtain ⟨δ0, hδ0s, hδ0l, hz0, hzv0, hX0⟩ := (hmain 0 (by omega) (by omega)).2 j hj
    obtain ⟨δ1, hδ1s, hδ1l, hz1, hzv1, hX1⟩ := (hmain 1 (by omega) (by omega)).2 j hj
    have hct0 := h.hct 0 (by omega) j hj
    have hct1 := h.hct 1 (by omega) j hj
    have hy := (h.hinv j hj).2
    have hfin := c04k_finish hke hP (c04t_targetCoef kl dsz ct.ntt target)
      (c04k_rStd kl dsz (c04t_targetCoef kl dsz ct.ntt target) key)
      (fun k _ c _ => (c04k_rStd_facts hP dsz _ key k c).1) hj hq
      (y := (kl.invPModQ.getD j default).operand) (by rw [hy, Nat.mod_eq_of_lt (by have := hmw.two_le; omega)])
      (fun k => c04k_polyI (kl.tb j) ct.ntt ((ct.polys.getD k #[]).getD j #[]))
      (fun k => c04k_polyI (kl.tb j) ct.ntt ((ct'.polys.getD k #[]).getD j #[]))
      (fun k => if k = 0 then c04k_polyI (kl.tb j) ct.ntt δ0 else c04k_polyI (kl.tb j) ct.ntt δ1)
      (fun k hk c hc => by
        have hk' : k = 0 ∨ k = 1 := by omega
        rcases hk' with rfl | rfl
        · exact c04k_coef_add h.hkl (by omega) ct.ntt hct0.1 hct0.2 hδ0s hδ0l hz0 hzv0 c hc
        · exact c04k_coef_add h.hkl (by omega) ct.ntt hct1.1 hct1.2 hδ1s hδ1l hz1 hzv1 c hc)
      (fun k hk c hc => by
        have hk' : k = 0 ∨ k = 1 := by omega
        rcases hk' with rfl | rfl
        · exact c04k_std_dz hP hy (c04k_accCoef_lt dsz _ key j 0 c hq)
            (c04k_accCoef_lt dsz _ key (kl.ms.size - 1) 0 c hP) (hX0 c hc)
        · exact c04k_std_dz hP hy (c04k_accCoef_lt dsz _ key j 1 c hq)
            (c04k_accCoef_lt dsz _ key (kl.ms.size - 1) 1 c hP) (hX1 c hc)) c hc
    rw [c04k_digit_target h.hkl h.hd ct.ntt h.htarget hj] at hfin
    exact hfin

theorem c04k_nuStd_bound {kl : KeyLevel} {dsz : Nat} {ct : Ct} {target : RnsPoly} {key : KSKey}
    (h : c04t_KSInput kl dsz ct target key)
    {s s' : Nat → Int} {e : Nat → Nat → Int} {G : Nat → Int} (hke : c04k_KeyEq kl dsz key s s' e G) {A Be : Nat}
    (hA : ∀ i, i < dsz → (kl.m i).value ≤ A) (he : ∀ i, i < dsz → ∀ p, p < kl.n → (e i p).natAbs ≤ Be) :
    ∀ c, c < kl.n → (c04k_nuStd kl dsz ct.ntt target key e s c).natAbs * kl.c04t_P
      ≤ dsz * (A * (kl.n * Be)) + kl.c04t_P / 2 * (1 + ∑ p ∈ range kl.n, (s p).natAbs) := by
  intro c hc
  have hd := h.hd
  obtain ⟨_, _, _, hPw⟩ := c04t_kl_comp h.hkl (show kl.ms.size - 1 < kl.ms.size by omega)
  have hP : 0 < kl.c04t_P := by have := hPw.two_le; show 0 < (kl.m (kl.ms.size - 1)).value; omega
  obtain ⟨f1, _⟩ := c04t_targetCoef_facts h.hkl h.hd ct.ntt h.htarget
  unfold c04k_nuStd
  apply c04k_nu_bound kl.n dsz kl.c04t_P _ e _ s A Be (kl.c04t_P / 2) (c04k_digit_bound f1 hA) he
    (fun k _ p _ => (c04k_rStd_facts hP dsz _ key k p).2) hc
  unfold c04k_nu
  exact Int.mul_ediv_cancel' (c04k_nu_dvd hke hP _ _ (fun k _ c _ => (c04k_rStd_facts hP dsz _ key k c).1) hc)

/-! ## assembling: BGV branch -/

/-- BGV branch: P·δ ≡ a − E', E' the multiple of t congruent to b modulo P -/
theorem c04k_bgv_dz {q P y a b : Nat} (hy : (y * P) % q = 1) (ha : a < q) (hb : b < P) {d kk E' : Int} {T1 T2 : Prop}
    (h : ∀ X : Int, X % (q : Int) = (a : Int) → X % (P : Int) = (b : Int) →
      X = (P : Int) * (X / (P : Int) - kk) + E' ∧ T1 ∧ T2 ∧ d % (q : Int) = (X / (P : Int) - kk) % (q : Int)) :
    (P : Int) * d ≡ (a : Int) - E' [ZMOD (q : Int)] := by
  obtain ⟨X, hXa, hXb⟩ := c04k_lift hy ha hb
  obtain ⟨h2, _, _, h1⟩ := h X hXa hXb
  have h1' : d ≡ X / (P : Int) - kk [ZMOD (q : Int)] := h1
  have h3 : X ≡ (a : Int) [ZMOD (q : Int)] := by
    unfold Int.ModEq; rw [hXa]; exact (Int.emod_eq_of_lt (by omega) (by exact_mod_cast ha)).symm
  have h4 : (P : Int) * (X / (P : Int) - kk) = X - E' := by linarith
  calc (P : Int) * d ≡ (P : Int) * (X / (P : Int) - kk) [ZMOD (q : Int)] := h1'.mul_left _
    _ = X - E' := h4
    _ ≡ (a : Int) - E' [ZMOD (q : Int)] := h3.sub_right _

/-- the multiples of t congruent modulo P to the two accumulated polynomials (BGV branch) -/
def c04k_rBgv (kl : KeyLevel) (dsz : Nat) (tc : RnsPoly) (key : KSKey) : Nat → Nat → Int :=
  fun k c => ((c04t_bgvE kl.c04t_P kl.t.value kl.invPModT (c04t_accCoef kl dsz tc key (kl.ms.size - 1) k c) : Nat) : Int)

/-- the key-switching noise polynomial of the BGV branch: ν = (Σ_i D_i ⋆ e_i − r_0 − r_1 ⋆ s) / P with r_k = `c04k_rBgv` -/
def c04k_nuBgv (kl : KeyLevel) (dsz : Nat) (isNtt : Bool) (target : RnsPoly) (key : KSKey) (e : Nat → Nat → Int)
    (s : Nat → Int) (c : Nat) : Int :=
  c04k_nu kl.n dsz kl.c04t_P (c04t_targetCoef kl dsz isNtt target) e
    (c04k_rBgv kl dsz (c04t_targetCoef kl dsz isNtt target) key) s c

theorem c04k_rBgv_facts {kl : KeyLevel} (hP : 0 < kl.c04t_P) (hb : c04t_BgvData kl) (dsz : Nat) (tc : RnsPoly) (key : KSKey)
    (k c : Nat) :
    c04k_rBgv kl dsz tc key k c ≡ ((c04t_accCoef kl dsz tc key (kl.ms.size - 1) k c : Nat) : Int) [ZMOD (kl.c04t_P : Int)] ∧
    (c04k_rBgv kl dsz tc key k c).natAbs ≤ kl.c04t_P * kl.t.value ∧
    (kl.t.value : Int) ∣ c04k_rBgv kl dsz tc key k c := by
  have ht2 := hb.ht.two_le
  obtain ⟨e1, e2, e3⟩ := c04t_bgvE_facts (P := kl.c04t_P) (t := kl.t.value) (it := kl.invPModT) (by omega)
    (by rw [hb.hinvT, Nat.mod_eq_of_lt (by omega)]) (c04k_accCoef_lt dsz tc key (kl.ms.size - 1) k c hP)
  unfold c04k_rBgv
  refine ⟨?_, by rw [Int.natAbs_natCast]; omega, by exact_mod_cast e1⟩
  unfold c04t_bgvE
  push_cast
  apply Int.ModEq.symm
  apply (Int.modEq_iff_dvd).mpr
  exact ⟨((c04t_bgvKK kl.t.value kl.invPModT (c04t_accCoef kl dsz tc key (kl.ms.size - 1) k c) : Nat) : Int), by ring⟩

theorem c04k_main_bgv {kl : KeyLevel} {dsz : Nat} {ct : Ct} {target : RnsPoly} {key : KSKey}
    (h : c04t_KSInput kl dsz ct target key) (hb : c04t_BgvData kl) (hntt : ct.ntt = true)
    (hkcc : (key.getD 0 #[]).size = 2) (hsz : 2 ≤ ct.polys.size)
    {s s' : Nat → Int} {e : Nat → Nat → Int} {G : Nat → Int} (hke : c04k_KeyEq kl dsz key s s' e G) :
    ∃ ct', switchKey kl .bgv dsz ct target key = .ok ct' ∧ ct'.ntt = ct.ntt ∧ ct'.cf = ct.cf ∧
      ct'.polys.size = ct.polys.size ∧
      (∀ idx, 2 ≤ idx → ct'.polys.getD idx #[] = ct.polys.getD idx #[]) ∧
      (∀ k, k < 2 → (ct'.polys.getD k #[]).size = dsz ∧ c04t_Canon kl dsz (ct'.polys.getD k #[])) ∧
      ∀ j, j < dsz → ∀ c, c < kl.n →
        c05u_phase2 kl.n (c04k_polyI (kl.tb j) ct.ntt ((ct'.polys.getD 0 #[]).getD j #[]))
            (c04k_polyI (kl.tb j) ct.ntt ((ct'.polys.getD 1 #[]).getD j #[])) s c
          ≡ c05u_phase2 kl.n (c04k_polyI (kl.tb j) ct.ntt ((ct.polys.getD 0 #[]).getD j #[]))
              (c04k_polyI (kl.tb j) ct.ntt ((ct.polys.getD 1 #[]).getD j #[])) s c
            + negMulR kl.n (c04k_polyI (kl.tb j) ct.ntt (target.getD j #[])) s' c
            + c04k_nuBgv kl dsz ct.ntt target key e s c [ZMOD ((kl.m j).value : Int)] := by
  obtain ⟨ct', hok, hn, hcf, hps, hrest, hmain⟩ := moddown_spec_bgv h hb hntt
  rw [hkcc] at hrest hmain
  have hd := h.hd
  obtain ⟨_, _, _, hPw⟩ := c04t_kl_comp h.hkl (show kl.ms.size - 1 < kl.ms.size by omega)
  have hP : 0 < kl.c04t_P := by have := hPw.two_le; show 0 < (kl.m (kl.ms.size - 1)).value; omega
  refine ⟨ct', hok, hn, hcf, hps, hrest, fun k hk => ?_, fun j hj c hc => ?_⟩
  · obtain ⟨hs, hj⟩ := hmain k hk (by omega)
    refine ⟨hs, fun j hjd => ?_⟩
    obtain ⟨δ, _, _, hz, hzv, _⟩ := hj j hjd
    obtain ⟨_, _, _, hmw⟩ := c04t_kl_comp h.hkl (show j < kl.ms.size by omega)
    exact ⟨hz, fun l hl => by rw [hzv l hl]; exact Nat.mod_lt _ (by have := hmw.two_le; omega)⟩
  · obtain ⟨_, _, _, hmw⟩ := c04t_kl_comp h.hkl (show j < kl.ms.size by omega)
    have hq : 0 < (kl.m j).value := by have := hmw.two_le; omega
    obtain ⟨δ0, hδ0s, hδ0l, hz0, hzv0, hX0⟩ := (hmain 0 (by omega) (by omega)).2 j hj
    obtain ⟨δ1, hδ1s, hδ1l, hz1, hzv1, hX1⟩ := (hmain 1 (by omega) (by omega)).2 j hj
    have hct0 := h.hct 0 (by omega) j hj
    have hct1 := h.hct 1 (by omega) j hj
    have hy := (h.hinv j hj).2
    have hpI : ∀ δ : Poly, ∀ c, c04k_polyI (kl.tb j) ct.ntt δ c = (((intt (kl.tb j) δ).getD c 0 : Nat) : Int) := by
      intro δ c; unfold c04k_polyI c04t_coefOf; rw [hntt]; simp
    have hfin := c04k_finish hke hP (c04t_targetCoef kl dsz ct.ntt target)
      (c04k_rBgv kl dsz (c04t_targetCoef kl dsz ct.ntt target) key)
      (fun k _ c _ => (c04k_rBgv_facts hP hb dsz _ key k c).1) hj hq
      (y := (kl.invPModQ.getD j default).operand) (by rw [hy, Nat.mod_eq_of_lt (by have := hmw.two_le; omega)])
      (fun k => c04k_polyI (kl.tb j) ct.ntt ((ct.polys.getD k #[]).getD j #[]))
      (fun k => c04k_polyI (kl.tb j) ct.ntt ((ct'.polys.getD k #[]).getD j #[]))
      (fun k => if k = 0 then c04k_polyI (kl.tb j) ct.ntt δ0 else c04k_polyI (kl.tb j) ct.ntt δ1)
      (fun k hk c hc => by
        have hk' : k = 0 ∨ k = 1 := by omega
        rcases hk' with rfl | rfl
        · exact c04k_coef_add h.hkl (by omega) ct.ntt hct0.1 hct0.2 hδ0s hδ0l hz0 hzv0 c hc
        · exact c04k_coef_add h.hkl (by omega) ct.ntt hct1.1 hct1.2 hδ1s hδ1l hz1 hzv1 c hc)
      (fun k hk c hc => by
        have hk' : k = 0 ∨ k = 1 := by omega
        rcases hk' with rfl | rfl
        · simp only [if_true]; rw [hpI]
          exact c04k_bgv_dz hy (c04k_accCoef_lt dsz _ key j 0 c hq)
            (c04k_accCoef_lt dsz _ key (kl.ms.size - 1) 0 c hP) (hX0 c hc)
        · simp only [one_ne_zero, if_false]; rw [hpI]
          exact c04k_bgv_dz hy (c04k_accCoef_lt dsz _ key j 1 c hq)
            (c04k_accCoef_lt dsz _ key (kl.ms.size - 1) 1 c hP) (hX1 c hc)) c hc
    rw [c04k_digit_target h.hkl h.hd ct.ntt h.htarget hj] at hfin
    exact hfin

theorem c04k_nuBgv_eq {kl : KeyLevel} {dsz : Nat} {ct : Ct} {target : RnsPoly} {key : KSKey}
    (h : c04t_KSInput kl dsz ct target key) (hb : c04t_BgvData kl)
    {s s' : Nat → Int} {e : Nat → Nat → Int} {G : Nat → Int} (hke : c04k_KeyEq kl dsz key s s' e G) {c : Nat} (hc : c < kl.n) :
    0 < kl.c04t_P ∧
    (kl.c04t_P : Int) * c04k_nuBgv kl dsz ct.ntt target key e s c =
      c04k_E kl.n dsz (c04t_targetCoef kl dsz ct.ntt target) e c
        - c04k_rBgv kl dsz (c04t_targetCoef kl dsz ct.ntt target) key 0 c
        - negMulR kl.n (c04k_rBgv kl dsz (c04t_targetCoef kl dsz ct.ntt target) key 1) s c := by
  have hd := h.hd
  obtain ⟨_, _, _, hPw⟩ := c04t_kl_comp h.hkl (show kl.ms.size - 1 < kl.ms.size by omega)
  have hP : 0 < kl.c04t_P := by have := hPw.two_le; show 0 < (kl.m (kl.ms.size - 1)).value; omega
  refine ⟨hP, ?_⟩
  unfold c04k_nuBgv c04k_nu
  exact Int.mul_ediv_cancel' (c04k_nu_dvd hke hP _ _ (fun k _ c _ => (c04k_rBgv_facts hP hb dsz _ key k c).1) hc)

theorem c04k_nuBgv_bound {kl : KeyLevel} {dsz : Nat} {ct : Ct} {target : RnsPoly} {key : KSKey}
    (h : c04t_KSInput kl dsz ct target key) (hb : c04t_BgvData kl)
    {s s' : Nat → Int} {e : Nat → Nat → Int} {G : Nat → Int} (hke : c04k_KeyEq kl dsz key s s' e G) {A Be : Nat}
    (hA : ∀ i, i < dsz → (kl.m i).value ≤ A) (he : ∀ i, i < dsz → ∀ p, p < kl.n → (e i p).natAbs ≤ Be) :
    ∀ c, c < kl.n → (c04k_nuBgv kl dsz ct.ntt target key e s c).natAbs * kl.c04t_P
      ≤ dsz * (A * (kl.n * Be)) + kl.c04t_P * kl.t.value * (1 + ∑ p ∈ range kl.n, (s p).natAbs) := by
  intro c hc
  obtain ⟨hP, heq⟩ := c04k_nuBgv_eq h hb hke (s := s) hc
  obtain ⟨f1, _⟩ := c04t_targetCoef_facts h.hkl h.hd ct.ntt h.htarget
  exact c04k_nu_bound kl.n dsz kl.c04t_P _ e _ s A Be (kl.c04t_P * kl.t.value) (c04k_digit_bound f1 hA) he
    (fun k _ p _ => (c04k_rBgv_facts hP hb dsz _ key k p).2.1) hc heq

/-- BGV: if every key error is a multiple of t, so is the key-switching noise -/
theorem c04k_nuBgv_dvd {kl : KeyLevel} {dsz : Nat} {ct : Ct} {target : RnsPoly} {key : KSKey}
    (h : c04t_KSInput kl dsz ct target key) (hb : c04t_BgvData kl)
    {s s' : Nat → Int} {e : Nat → Nat → Int} {G : Nat → Int} (hke : c04k_KeyEq kl dsz key s s' e G)
    (het : ∀ i, i < dsz → ∀ p, p < kl.n → (kl.t.value : Int) ∣ e i p) :
    ∀ c, c < kl.n → (kl.t.value : Int) ∣ c04k_nuBgv kl dsz ct.ntt target key e s c := by
  intro c hc
  obtain ⟨hP, heq⟩ := c04k_nuBgv_eq h hb hke (s := s) hc
  have h1 : (kl.t.value : Int) ∣ c04k_E kl.n dsz (c04t_targetCoef kl dsz ct.ntt target) e c := by
    unfold c04k_E
    apply Finset.dvd_sum
    intro i hi
    rw [c04k_comm kl.n _ _ hc]
    exact c05u_negMul_dvd kl.n _ _ _ c (het i (mem_range.mp hi))
  have h2 : (kl.t.value : Int) ∣ (kl.c04t_P : Int) * c04k_nuBgv kl dsz ct.ntt target key e s c := by
    rw [heq]
    exact dvd_sub (dvd_sub h1 (c04k_rBgv_facts hP hb dsz _ key 0 c).2.2)
      (c05u_negMul_dvd kl.n _ _ s c (fun p _ => (c04k_rBgv_facts hP hb dsz _ key 1 p).2.2))
  have h3 := Nat.div_add_mod (kl.invPModT * kl.c04t_P) kl.t.value
  rw [hb.hinvT] at h3
  have h4 : ((kl.invPModT : Int)) * (kl.c04t_P : Int) = (kl.t.value : Int) * ((kl.invPModT * kl.c04t_P / kl.t.value : Nat) : Int) + 1 := by
    exact_mod_cast h3.symm
  have h5 : c04k_nuBgv kl dsz ct.ntt target key e s c =
      (kl.invPModT : Int) * ((kl.c04t_P : Int) * c04k_nuBgv kl dsz ct.ntt target key e s c)
        - (kl.t.value : Int) * (((kl.invPModT * kl.c04t_P / kl.t.value : Nat) : Int) * c04k_nuBgv kl dsz ct.ntt target key e s c) := by
    linear_combination (-(c04k_nuBgv kl dsz ct.ntt target key e s c)) * h4
  rw [h5]
  exact dvd_sub (Dvd.dvd.mul_left h2 _) (Dvd.intro _ rfl)

/-! ## CRT merge: congruence modulo every q_j ⇒ congruence modulo Q -/

theorem c04k_crt_merge {b : RNSBase} (hb : b.WF) {x y : Int}
    (h : ∀ i, i < b.size → x ≡ y [ZMOD ((b.q i).value : Int)]) : x ≡ y [ZMOD (b.prod : Int)] := by
  apply (Int.modEq_iff_dvd).mpr
  apply Int.natCast_dvd.mpr
  have h1 : (y - x).natAbs ≡ 0 [MOD b.prod] := by
    apply hb.crt_modEq
    intro i hi
    rw [Nat.zero_mod]
    exact Nat.mod_eq_zero_of_dvd (Int.natCast_dvd.mp ((Int.modEq_iff_dvd).mp (h i hi)))
  exact (Nat.modEq_zero_iff_dvd).mp h1

theorem c04k_negMul_modEq (n : Nat) (q : Int) {a a' b b' : Nat → Int} {c : Nat} (hc : c < n)
    (ha : ∀ i, i < n → a i ≡ a' i [ZMOD q]) (hb : ∀ i, i < n → b i ≡ b' i [ZMOD q]) :
    negMulR n a b c ≡ negMulR n a' b' c [ZMOD q] := by
  unfold negMulR
  apply Int.ModEq.sum
  intro i hi
  have hi' := mem_range.mp hi
  split
  · exact (ha i hi').mul (hb _ (by omega))
  · exact ((ha i hi').mul (hb _ (by omega))).neg

theorem c04k_phase2_modEq (n : Nat) (q : Int) {a0 a1 a0' a1' s : Nat → Int} {c : Nat} (hc : c < n)
    (h0 : ∀ i, i < n → a0 i ≡ a0' i [ZMOD q]) (h1 : ∀ i, i < n → a1 i ≡ a1' i [ZMOD q]) :
    c05u_phase2 n a0 a1 s c ≡ c05u_phase2 n a0' a1' s c [ZMOD q] := by
  unfold c05u_phase2
  exact (h0 c hc).add (c04k_negMul_modEq n q hc h1 (fun _ _ => Int.ModEq.refl _))

/-- an integer polynomial `Z` lifts the RNS polynomial `p` (given in the working representation) over the first `dsz` key-level moduli -/
def c04k_Lifts (kl : KeyLevel) (dsz : Nat) (isNtt : Bool) (p : RnsPoly) (Z : Nat → Int) : Prop :=
  ∀ j, j < dsz → ∀ c, c < kl.n → Z c ≡ c04k_polyI (kl.tb j) isNtt (p.getD j #[]) c [ZMOD ((kl.m j).value : Int)]

/-- the ciphertext level's RNS base is the base of the first `dsz` key-level moduli -/
structure c04k_BaseOf (kl : KeyLevel) (dsz : Nat) (b : RNSBase) : Prop where
  wf : b.WF
  size : b.size = dsz
  q : ∀ j, j < dsz → (b.q j).value = (kl.m j).value

/-- merge of the per-modulus phase congruences into one congruence modulo Q_level = Π_{j<dsz} q_j, for arbitrary integer lifts -/
theorem c04k_merge {kl : KeyLevel} {dsz : Nat} {b : RNSBase} (hb : c04k_BaseOf kl dsz b) (isNtt : Bool)
    {p0 p1 p0' p1' tg : RnsPoly} {s s' ν : Nat → Int}
    (h : ∀ j, j < dsz → ∀ c, c < kl.n →
      c05u_phase2 kl.n (c04k_polyI (kl.tb j) isNtt (p0'.getD j #[])) (c04k_polyI (kl.tb j) isNtt (p1'.getD j #[])) s c
        ≡ c05u_phase2 kl.n (c04k_polyI (kl.tb j) isNtt (p0.getD j #[])) (c04k_polyI (kl.tb j) isNtt (p1.getD j #[])) s c
          + negMulR kl.n (c04k_polyI (kl.tb j) isNtt (tg.getD j #[])) s' c + ν c [ZMOD ((kl.m j).value : Int)])
    {Z0 Z1 Z0' Z1' T : Nat → Int} (l0 : c04k_Lifts kl dsz isNtt p0 Z0) (l1 : c04k_Lifts kl dsz isNtt p1 Z1)
    (l0' : c04k_Lifts kl dsz isNtt p0' Z0') (l1' : c04k_Lifts kl dsz isNtt p1' Z1') (lT : c04k_Lifts kl dsz isNtt tg T) :
    ∀ c, c < kl.n → c05u_phase2 kl.n Z0' Z1' s c ≡
      c05u_phase2 kl.n Z0 Z1 s c + negMulR kl.n T s' c + ν c [ZMOD (b.prod : Int)] := by
  intro c hc
  apply c04k_crt_merge hb.wf
  intro j hj
  rw [hb.size] at hj
  rw [hb.q j hj]
  refine Int.ModEq.trans (c04k_phase2_modEq kl.n _ hc (fun i hi => l0' j hj i hi) (fun i hi => l1' j hj i hi)) ?_
  refine Int.ModEq.trans (h j hj c hc) ?_
  refine Int.ModEq.add (Int.ModEq.add ?_ ?_) (Int.ModEq.refl _)
  · exact (c04k_phase2_modEq kl.n _ hc (fun i hi => l0 j hj i hi) (fun i hi => l1 j hj i hi)).symm
  · exact (c04k_negMul_modEq kl.n _ hc (fun i hi => lT j hj i hi) (fun _ _ => Int.ModEq.refl _)).symm

/-! ## link to the exact specification: `Spec.crtPoly` lifts, `Spec.phase` -/

/-- the coefficient-form RNS polynomial (over the first `dsz` key-level moduli) of a polynomial in the working representation -/
def c04k_coefRns (kl : KeyLevel) (dsz : Nat) (isNtt : Bool) (p : RnsPoly) : RnsPoly :=
  Array.ofFn (n := dsz) fun j => c04t_coefOf (kl.tb j.val) isNtt (p.getD j.val #[])

theorem c04k_coefRns_size (kl : KeyLevel) (dsz : Nat) (isNtt : Bool) (p : RnsPoly) : (c04k_coefRns kl dsz isNtt p).size = dsz := by
  simp [c04k_coefRns]

theorem c04k_coefRns_getD (kl : KeyLevel) (dsz : Nat) (isNtt : Bool) (p : RnsPoly) {j : Nat} (hj : j < dsz) :
    (c04k_coefRns kl dsz isNtt p).getD j #[] = c04t_coefOf (kl.tb j) isNtt (p.getD j #[]) := by
  unfold c04k_coefRns
  rw [c01o_ofFn_getD _ _ _ hj]

/-- the CRT lift `Spec.crtPoly` of the coefficient form is a lift in the sense of `c04k_Lifts` -/
theorem c04k_crtPoly_lifts {kl : KeyLevel} {dsz : Nat} {b : RNSBase} (hb : c04k_BaseOf kl dsz b) (isNtt : Bool) (p : RnsPoly) :
    c04k_Lifts kl dsz isNtt p
      (fun c => (Spec.crtPoly (c01p_bvals b) (c04k_coefRns kl dsz isNtt p) kl.n).getD c 0) := by
  intro j hj c hc
  show (Spec.crtPoly (c01p_bvals b) (c04k_coefRns kl dsz isNtt p) kl.n).getD c 0 ≡ _ [ZMOD _]
  rw [c01p_crtPoly_getD _ _ _ hc]
  have h := (c01p_crt_spec hb.wf ((c04k_coefRns kl dsz isNtt p).toList.map (fun x => x.getD c 0))).2 j
    (by rw [hb.size]; exact hj)
  rw [c01p_toList_map_getD _ _ (by rw [c04k_coefRns_size]; exact hj), c04k_coefRns_getD _ _ _ _ hj, hb.q j hj] at h
  unfold c04k_polyI
  exact Int.natCast_modEq_iff.mpr h

theorem c04k_negsum_modEq (n : Nat) (A : Array Nat) (sk : Array Int) {q : Nat} (hq : 0 < q) (k : Nat) :
    negMulR n (fun p => ((A.getD p 0 : Nat) : Int)) (fun p => sk.getD p 0) k
      ≡ (negMulNat n q A (c01p_skResQ sk q) k : Int) [ZMOD q] := by
  unfold negMulNat negMulR
  rw [Int.toNat_of_nonneg (Int.emod_nonneg _ (by omega))]
  refine Int.ModEq.trans ?_ (Int.mod_modEq _ _).symm
  apply Int.ModEq.sum
  intro i _
  split
  · push_cast
    exact (Int.ModEq.refl _).mul (c01p_skResQ_modEq sk hq _).symm
  · push_cast
    exact ((Int.ModEq.refl _).mul (c01p_skResQ_modEq sk hq _).symm).neg

/-- coefficient c of `Spec.phase` of a size-2 ciphertext is, modulo every q_j, the component-wise phase c0 + c1 ⋆ s -/
theorem c04k_spec_phase_modEq {b : RNSBase} (hb : b.WF) {n : Nat} {sk : Array Int} {C0 C1 : RnsPoly}
    (h0 : C0.size = b.size) (h1 : C1.size = b.size) {c : Nat} (hc : c < n) {j : Nat} (hj : j < b.size) :
    (Spec.phase (c01p_bvals b) n sk [C0, C1]).getD c 0 ≡
      c05u_phase2 n (fun p => (((C0.getD j #[]).getD p 0 : Nat) : Int)) (fun p => (((C1.getD j #[]).getD p 0 : Nat) : Int))
        (fun p => sk.getD p 0) c [ZMOD ((b.q j).value : Int)] := by
  have hq2 := (hb.mwf j hj).two_le
  rw [c01p_phase2_getD _ _ _ _ _ hc, c01p_prodL_bvals hb]
  obtain ⟨_, hX⟩ := c01p_X_spec hb (sk := sk) h0 h1 hc
  refine Int.ModEq.trans ((c01p_centred_modEq _ _).of_dvd (Int.natCast_dvd_natCast.mpr (hb.q_dvd_prod hj))) ?_
  refine Int.ModEq.trans (Int.natCast_modEq_iff.mpr (hX j hj)) ?_
  unfold c05u_phase2
  push_cast
  exact Int.ModEq.add_left _ (c04k_negsum_modEq n _ sk (by omega) c).symm

/-- merge of the per-modulus statement into a statement about `Spec.phase` -/
theorem c04k_merge_spec {kl : KeyLevel} {dsz : Nat} {b : RNSBase} (hb : c04k_BaseOf kl dsz b) (isNtt : Bool)
    {p0 p1 p0' p1' tg : RnsPoly} {sk : Array Int} {s' ν : Nat → Int}
    (h : ∀ j, j < dsz → ∀ c, c < kl.n →
      c05u_phase2 kl.n (c04k_polyI (kl.tb j) isNtt (p0'.getD j #[])) (c04k_polyI (kl.tb j) isNtt (p1'.getD j #[]))
          (fun p => sk.getD p 0) c
        ≡ c05u_phase2 kl.n (c04k_polyI (kl.tb j) isNtt (p0.getD j #[])) (c04k_polyI (kl.tb j) isNtt (p1.getD j #[]))
            (fun p => sk.getD p 0) c
          + negMulR kl.n (c04k_polyI (kl.tb j) isNtt (tg.getD j #[])) s' c + ν c [ZMOD ((kl.m j).value : Int)]) :
    ∀ c, c < kl.n →
      (Spec.phase (c01p_bvals b) kl.n sk [c04k_coefRns kl dsz isNtt p0', c04k_coefRns kl dsz isNtt p1']).getD c 0 ≡
        (Spec.phase (c01p_bvals b) kl.n sk [c04k_coefRns kl dsz isNtt p0, c04k_coefRns kl dsz isNtt p1]).getD c 0
        + negMulR kl.n (fun i => (Spec.crtPoly (c01p_bvals b) (c04k_coefRns kl dsz isNtt tg) kl.n).getD i 0) s' c
        + ν c [ZMOD (b.prod : Int)] := by
  intro c hc
  apply c04k_crt_merge hb.wf
  intro j hj
  have hj' : j < dsz := by rw [← hb.size]; exact hj
  have hsz : ∀ p, (c04k_coefRns kl dsz isNtt p).size = b.size := fun p => by rw [c04k_coefRns_size, hb.size]
  have e : ∀ p, (fun i => ((((c04k_coefRns kl dsz isNtt p).getD j #[]).getD i 0 : Nat) : Int))
      = c04k_polyI (kl.tb j) isNtt (p.getD j #[]) := fun p => by
    funext i; rw [c04k_coefRns_getD _ _ _ _ hj']; rfl
  have a1 := c04k_spec_phase_modEq hb.wf (sk := sk) (hsz p0') (hsz p1') hc hj
  have a2 := c04k_spec_phase_modEq hb.wf (sk := sk) (hsz p0) (hsz p1) hc hj
  rw [e, e] at a1 a2
  rw [hb.q j hj'] at a1 a2 ⊢
  refine Int.ModEq.trans a1 (Int.ModEq.trans (h j hj' c hc) ?_)
  refine Int.ModEq.add (Int.ModEq.add a2.symm ?_) (Int.ModEq.refl _)
  exact (c04k_negMul_modEq kl.n _ hc (fun i hi => c04k_crtPoly_lifts hb isNtt tg j hj' i hi)
    (fun _ _ => Int.ModEq.refl _)).symm

/-! ## relinearisation (size 3 → 2) -/

theorem c04k_extract_getD (a : Array RnsPoly) (h : 2 ≤ a.size) {k : Nat} (hk : k < 2) :
    (a.extract 0 2).getD k #[] = a.getD k #[] := by
  have h1 : k < (a.extract 0 2).size := by simp; omega
  have h2 : k < a.size := by omega
  simp [Array.getD, h2]
  rw [dif_pos (by omega)]

/-- phase of a size-3 ciphertext component-wise: c0 + c1 ⋆ s + c2 ⋆ (s ⋆ s) -/
def c04k_phase3 (n : Nat) (c0 c1 c2 s : Nat → Int) (c : Nat) : Int :=
  c0 c + negMulR n c1 s c + negMulR n c2 (fun p => negMulR n s s p) c

theorem c04k_relin_of_switch {kl : KeyLevel} {scheme : Scheme} {dsz : Nat} {ct : Ct} {key : KSKey}
    (keys : Nat → Option KSKey) (fuel : Nat) (h3 : ct.polys.size = 3) (hk : keys 2 = some key)
    {s : Nat → Int} {ν : Nat → Int}
    (hsw : ∃ ct', switchKey kl scheme dsz ct (ct.polys.getD 2 #[]) key = .ok ct' ∧ ct'.ntt = ct.ntt ∧ ct'.cf = ct.cf ∧
      ct'.polys.size = ct.polys.size ∧
      (∀ idx, 2 ≤ idx → ct'.polys.getD idx #[] = ct.polys.getD idx #[]) ∧
      (∀ k, k < 2 → (ct'.polys.getD k #[]).size = dsz ∧ c04t_Canon kl dsz (ct'.polys.getD k #[])) ∧
      ∀ j, j < dsz → ∀ c, c < kl.n →
        c05u_phase2 kl.n (c04k_polyI (kl.tb j) ct.ntt ((ct'.polys.getD 0 #[]).getD j #[]))
            (c04k_polyI (kl.tb j) ct.ntt ((ct'.polys.getD 1 #[]).getD j #[])) s c
          ≡ c05u_phase2 kl.n (c04k_polyI (kl.tb j) ct.ntt ((ct.polys.getD 0 #[]).getD j #[]))
              (c04k_polyI (kl.tb j) ct.ntt ((ct.polys.getD 1 #[]).getD j #[])) s c
            + negMulR kl.n (c04k_polyI (kl.tb j) ct.ntt ((ct.polys.getD 2 #[]).getD j #[])) (fun p => negMulR kl.n s s p) c
            + ν c [ZMOD ((kl.m j).value : Int)]) :
    ∃ ct'', relinearize kl scheme dsz keys (fuel + 2) ct = .ok ct'' ∧ ct''.polys.size = 2 ∧ ct''.ntt = ct.ntt ∧
      ct''.cf = ct.cf ∧
      (∀ k, k < 2 → (ct''.polys.getD k #[]).size = dsz ∧ c04t_Canon kl dsz (ct''.polys.getD k #[])) ∧
      ∀ j, j < dsz → ∀ c, c < kl.n →
        c05u_phase2 kl.n (c04k_polyI (kl.tb j) ct.ntt ((ct''.polys.getD 0 #[]).getD j #[]))
            (c04k_polyI (kl.tb j) ct.ntt ((ct''.polys.getD 1 #[]).getD j #[])) s c
          ≡ c04k_phase3 kl.n (c04k_polyI (kl.tb j) ct.ntt ((ct.polys.getD 0 #[]).getD j #[]))
              (c04k_polyI (kl.tb j) ct.ntt ((ct.polys.getD 1 #[]).getD j #[]))
              (c04k_polyI (kl.tb j) ct.ntt ((ct.polys.getD 2 #[]).getD j #[])) s c
            + ν c [ZMOD ((kl.m j).value : Int)] := by
  obtain ⟨ct', hok, hn, hcf, hps, _, hcan, hph⟩ := hsw
  have hs3 : ct'.polys.size = 3 := by rw [hps, h3]
  refine ⟨_, relinearize_size3 kl scheme dsz keys fuel ct h3 hk hok hs3, ?_, hn, hcf, fun k hk2 => ?_, fun j hj c hc => ?_⟩
  · show (ct'.polys.extract 0 2).size = 2
    simp; omega
  · show ((ct'.polys.extract 0 2).getD k #[]).size = dsz ∧ c04t_Canon kl dsz ((ct'.polys.extract 0 2).getD k #[])
    rw [c04k_extract_getD _ (by omega) hk2]; exact hcan k hk2
  · show c05u_phase2 kl.n (c04k_polyI (kl.tb j) ct.ntt (((ct'.polys.extract 0 2).getD 0 #[]).getD j #[]))
        (c04k_polyI (kl.tb j) ct.ntt (((ct'.polys.extract 0 2).getD 1 #[]).getD j #[])) s c ≡ _ [ZMOD _]
    rw [c04k_extract_getD _ (by omega) (by omega), c04k_extract_getD _ (by omega) (by omega)]
    have := hph j hj c hc
    unfold c04k_phase3
    unfold c05u_phase2 at this ⊢
    exact this

/-! ## Galois automorphism followed by key switching -/

/-- component i of the Galois-permuted RNS polynomial (value of `galoisApply` in coefficient form, `galoisApplyNtt` in NTT form) -/
def c04k_galComp (l : Level) (isNtt : Bool) (g : Nat) (p : RnsPoly) (i : Nat) : Poly :=
  if isNtt then galoisApplyNtt l.k (p.getD i #[]) g else c01p_val (galoisApply l.k (p.getD i #[]) g (l.q i))

def c04k_galRns (l : Level) (isNtt : Bool) (g : Nat) (p : RnsPoly) : RnsPoly :=
  ((List.range l.size).map (c04k_galComp l isNtt g p)).toArray

/-- the ciphertext level `l` consists of the first `l.size` key-level moduli, same degree -/
structure c04k_LevelOf (kl : KeyLevel) (l : Level) : Prop where
  n : l.n = kl.n
  k : 2^l.k = kl.n
  q : ∀ i, i < l.size → l.q i = kl.m i

theorem c04k_galRns_getD (l : Level) (isNtt : Bool) (g : Nat) (p : RnsPoly) {i : Nat} (hi : i < l.size) :
    (c04k_galRns l isNtt g p).getD i #[] = c04k_galComp l isNtt g p i := by
  unfold c04k_galRns
  simp [Array.getD, hi]

theorem c04k_ap_ok {kl : KeyLevel} (hkl : kl.WF) {l : Level} (hl : c04k_LevelOf kl l) (hd : l.size + 1 ≤ kl.ms.size)
    (isNtt : Bool) {g : Nat} (hg : g % 2 = 1) {p : RnsPoly} (hp : c04t_Canon kl l.size p) :
    (List.range l.size).foldlM (fun (acc : RnsPoly) i => do
      let c ← if isNtt then pure (galoisApplyNtt l.k (p.getD i #[]) g) else galoisApply l.k (p.getD i #[]) g (l.q i)
      pure (acc.push c)) #[] = .ok (c04k_galRns l isNtt g p) := by
  have := c01o_foldlM_push (List.range l.size)
    (fun i => if isNtt then (pure (galoisApplyNtt l.k (p.getD i #[]) g) : R Poly) else galoisApply l.k (p.getD i #[]) g (l.q i))
    (c04k_galComp l isNtt g p) (fun i hi => by
      have hi' := List.mem_range.mp hi
      unfold c04k_galComp
      cases isNtt with
      | true => rfl
      | false =>
        simp only [Bool.false_eq_true, if_false]
        obtain ⟨_, _, _, hmw⟩ := c04t_kl_comp hkl (show i < kl.ms.size by omega)
        obtain ⟨r, hr, _⟩ := galoisApply_spec (k := l.k) (g := g) (m := l.q i) (by rw [hl.q i hi']; exact hmw) hg
          (a := p.getD i #[]) (by rw [(hp i hi').1, hl.k])
          (fun x hx => by rw [hl.q i hi']; exact (hp i hi').2 x (by rw [← hl.k]; exact hx))
        exact c01p_val_ok ⟨r, hr⟩) #[]
  have hf : (fun (acc : RnsPoly) i => do
      let c ← if isNtt then pure (galoisApplyNtt l.k (p.getD i #[]) g) else galoisApply l.k (p.getD i #[]) g (l.q i)
      pure (acc.push c)) = (fun (acc : RnsPoly) x => do
      let y ← (fun i => if isNtt then (pure (galoisApplyNtt l.k (p.getD i #[]) g) : R Poly)
        else galoisApply l.k (p.getD i #[]) g (l.q i)) x
      pure (acc.push y)) := by
    funext acc i; cases isNtt <;> rfl
  rw [hf, this]
  simp [c04k_galRns]

theorem c04k_gal_canon {kl : KeyLevel} (hkl : kl.WF) {l : Level} (hl : c04k_LevelOf kl l) (hd : l.size + 1 ≤ kl.ms.size)
    (isNtt : Bool) {g : Nat} (hg : g % 2 = 1) {p : RnsPoly} (hp : c04t_Canon kl l.size p) :
    c04t_Canon kl l.size (c04k_galRns l isNtt g p) := by
  intro i hi
  rw [c04k_galRns_getD l isNtt g p hi]
  obtain ⟨_, _, _, hmw⟩ := c04t_kl_comp hkl (show i < kl.ms.size by omega)
  have hq2 := hmw.two_le
  unfold c04k_galComp
  cases isNtt with
  | true =>
    simp only [if_true]
    unfold galoisApplyNtt
    refine ⟨by simp [galoisTableNtt, hl.k], fun x hx => ?_⟩
    have hx' : x < 2^l.k := by rw [hl.k]; exact hx
    have hsz : x < (galoisTableNtt l.k g).size := by simp [galoisTableNtt]; exact hx'
    rw [c10i_getD_map_lt _ _ hsz]
    have ht := (galoisTable_spec (k := l.k) (g := g) hg hx').2
    exact (hp i hi).2 _ (by rw [← hl.k]; exact ht)
  | false =>
    simp only [Bool.false_eq_true, if_false]
    obtain ⟨r, hr, hrs, hrv⟩ := galoisApply_spec (k := l.k) (g := g) (m := l.q i) (by rw [hl.q i hi]; exact hmw) hg
      (a := p.getD i #[]) (by rw [(hp i hi).1, hl.k])
      (fun x hx => by rw [hl.q i hi]; exact (hp i hi).2 x (by rw [← hl.k]; exact hx))
    have hv : c01p_val (galoisApply l.k (p.getD i #[]) g (l.q i)) = r := by rw [hr]; rfl
    rw [hv]
    refine ⟨by rw [hrs, hl.k], fun x hx => ?_⟩
    have hx' : x ∈ range (2^l.k) := mem_range.mpr (by rw [hl.k]; exact hx)
    rw [← c04m_image_eq (k := l.k) hg, Finset.mem_image] at hx'
    obtain ⟨y, hy, rfl⟩ := hx'
    rw [hrv y (mem_range.mp hy), hl.q i hi]
    have := (hp i hi).2 y (by rw [← hl.k]; exact mem_range.mp hy)
    split
    · exact Nat.mod_lt _ (by omega)
    · exact this

theorem c04k_applyGalois_eq {kl : KeyLevel} (hkl : kl.WF) {l : Level} (hl : c04k_LevelOf kl l) (hd : l.size + 1 ≤ kl.ms.size)
    (scheme : Scheme) {ct : Ct} {g : Nat} (key : KSKey) (h2 : ct.polys.size = 2) (hg : g % 2 = 1) (hg2 : g ≤ 2 * l.n)
    (hc0 : c04t_Canon kl l.size (ct.polys.getD 0 #[])) (hc1 : c04t_Canon kl l.size (ct.polys.getD 1 #[])) :
    applyGalois kl l scheme ct g key =
      switchKey kl scheme l.size { ct with polys := #[c04k_galRns l ct.ntt g (ct.polys.getD 0 #[]), rnsZero l] }
        (c04k_galRns l ct.ntt g (ct.polys.getD 1 #[])) key := by
  unfold applyGalois
  simp only []
  rw [if_neg (by omega), if_neg (by omega)]
  rw [c04k_ap_ok hkl hl hd ct.ntt hg hc0, c04k_ap_ok hkl hl hd ct.ntt hg hc1]
  rfl

theorem c04k_negMul_zero {R : Type} [CommRing R] (n : Nat) (a b : Nat → R) (c : Nat) (h : ∀ i, i < n → a i = 0) :
    negMulR n a b c = 0 := by
  unfold negMulR
  apply Finset.sum_eq_zero
  intro i hi
  rw [h i (mem_range.mp hi)]
  split <;> simp

theorem c04k_polyI_zero {kl : KeyLevel} (hkl : kl.WF) {j : Nat} (hj : j < kl.ms.size) (isNtt : Bool) :
    ∀ c, c < kl.n → c04k_polyI (kl.tb j) isNtt (Array.replicate kl.n 0) c = 0 := by
  obtain ⟨htw, _, htn, _⟩ := c04t_kl_comp hkl hj
  intro c hc
  have hz0 : ∀ x, x < 2^(kl.tb j).k → (Array.replicate kl.n (0 : Nat)).getD x 0 = 0 := by
    intro x hx; simp [Array.getD]
  unfold c04k_polyI c04t_coefOf
  cases isNtt with
  | false => simp [Array.getD]
  | true =>
    simp only [if_true]
    rw [c04t_intt_zero htw (by simp [htn]) hz0 c (by rw [htn]; exact hc)]
    rfl

/-- coefficient form: the Galois-permuted component is X ↦ X^g on the coefficient vector -/
theorem c04k_galRns_coeff {kl : KeyLevel} (hkl : kl.WF) {l : Level} (hl : c04k_LevelOf kl l) (hd : l.size + 1 ≤ kl.ms.size)
    {g : Nat} (hg : g % 2 = 1) {p : RnsPoly} (hp : c04t_Canon kl l.size p) {j : Nat} (hj : j < l.size) :
    ∀ i, i < kl.n → ((c04k_galRns l false g p).getD j #[]).getD ((i * g) % kl.n) 0 =
      (if ((i * g) / kl.n) % 2 = 1 then ((kl.m j).value - (p.getD j #[]).getD i 0) % (kl.m j).value
       else (p.getD j #[]).getD i 0) := by
  intro i hi
  rw [c04k_galRns_getD l false g p hj]
  obtain ⟨_, _, _, hmw⟩ := c04t_kl_comp hkl (show j < kl.ms.size by omega)
  unfold c04k_galComp
  simp only [Bool.false_eq_true, if_false]
  obtain ⟨r, hr, _, hrv⟩ := galoisApply_spec (k := l.k) (g := g) (m := l.q j) (by rw [hl.q j hj]; exact hmw) hg
    (a := p.getD j #[]) (by rw [(hp j hj).1, hl.k])
    (fun x hx => by rw [hl.q j hj]; exact (hp j hj).2 x (by rw [← hl.k]; exact hx))
  have hv : c01p_val (galoisApply l.k (p.getD j #[]) g (l.q j)) = r := by rw [hr]; rfl
  rw [hv, ← hl.k, hrv i (by rw [hl.k]; exact hi), hl.q j hj]

theorem c04k_galois_input {kl : KeyLevel} {l : Level} (hl : c04k_LevelOf kl l) {ct : Ct} {key : KSKey} {g : Nat}
    (h : c04t_KSInput kl l.size ct (ct.polys.getD 1 #[]) key) (hkcc : (key.getD 0 #[]).size = 2) (hg : g % 2 = 1) :
    c04t_KSInput kl l.size { ct with polys := #[c04k_galRns l ct.ntt g (ct.polys.getD 0 #[]), rnsZero l] }
      (c04k_galRns l ct.ntt g (ct.polys.getD 1 #[])) key := by
  refine ⟨h.hkl, h.hsz, h.hd, h.hks, c04k_gal_canon h.hkl hl h.hd ct.ntt hg h.htarget, h.hkey, h.hov, ?_, h.hinv⟩
  intro k hk
  rw [hkcc] at hk
  have hk' : k = 0 ∨ k = 1 := by omega
  rcases hk' with rfl | rfl
  · show c04t_Canon kl l.size (c04k_galRns l ct.ntt g (ct.polys.getD 0 #[]))
    exact c04k_gal_canon h.hkl hl h.hd ct.ntt hg (h.hct 0 (by rw [hkcc]; omega))
  · show c04t_Canon kl l.size (rnsZero l)
    intro j hj
    have hd := h.hd
    obtain ⟨_, _, _, hmw⟩ := c04t_kl_comp h.hkl (show j < kl.ms.size by omega)
    have hq2 := hmw.two_le
    have e : (rnsZero l).getD j #[] = Array.replicate l.n 0 := by simp [rnsZero, Array.getD, hj]
    rw [e]
    refine ⟨by simp [hl.n], fun x hx => ?_⟩
    have : (Array.replicate l.n (0 : Nat)).getD x 0 = 0 := by simp [Array.getD]
    rw [this]; omega

/-- from the phase statement of `switchKey` on (σ(c0), 0) with target σ(c1) to the statement for `applyGalois` -/
theorem c04k_galois_of_switch {kl : KeyLevel} {l : Level} (hl : c04k_LevelOf kl l) {scheme : Scheme} {ct : Ct} {key : KSKey}
    {g : Nat} (h : c04t_KSInput kl l.size ct (ct.polys.getD 1 #[]) key) (h2 : ct.polys.size = 2) (hg : g % 2 = 1)
    (hg2 : g ≤ 2 * l.n) (hkcc : (key.getD 0 #[]).size = 2) {s s' ν : Nat → Int}
    (hsw : ∃ ct', switchKey kl scheme l.size { ct with polys := #[c04k_galRns l ct.ntt g (ct.polys.getD 0 #[]), rnsZero l] }
        (c04k_galRns l ct.ntt g (ct.polys.getD 1 #[])) key = .ok ct' ∧ ct'.ntt = ct.ntt ∧ ct'.cf = ct.cf ∧
      ct'.polys.size = 2 ∧
      (∀ k, k < 2 → (ct'.polys.getD k #[]).size = l.size ∧ c04t_Canon kl l.size (ct'.polys.getD k #[])) ∧
      ∀ j, j < l.size → ∀ c, c < kl.n →
        c05u_phase2 kl.n (c04k_polyI (kl.tb j) ct.ntt ((ct'.polys.getD 0 #[]).getD j #[]))
            (c04k_polyI (kl.tb j) ct.ntt ((ct'.polys.getD 1 #[]).getD j #[])) s c
          ≡ c05u_phase2 kl.n (c04k_polyI (kl.tb j) ct.ntt ((c04k_galRns l ct.ntt g (ct.polys.getD 0 #[])).getD j #[]))
              (c04k_polyI (kl.tb j) ct.ntt ((rnsZero l).getD j #[])) s c
            + negMulR kl.n (c04k_polyI (kl.tb j) ct.ntt ((c04k_galRns l ct.ntt g (ct.polys.getD 1 #[])).getD j #[])) s' c
            + ν c [ZMOD ((kl.m j).value : Int)]) :
    ∃ ct', applyGalois kl l scheme ct g key = .ok ct' ∧ ct'.ntt = ct.ntt ∧ ct'.cf = ct.cf ∧ ct'.polys.size = 2 ∧
      (∀ k, k < 2 → (ct'.polys.getD k #[]).size = l.size ∧ c04t_Canon kl l.size (ct'.polys.getD k #[])) ∧
      ∀ j, j < l.size → ∀ c, c < kl.n →
        c05u_phase2 kl.n (c04k_polyI (kl.tb j) ct.ntt ((ct'.polys.getD 0 #[]).getD j #[]))
            (c04k_polyI (kl.tb j) ct.ntt ((ct'.polys.getD 1 #[]).getD j #[])) s c
          ≡ c04k_polyI (kl.tb j) ct.ntt ((c04k_galRns l ct.ntt g (ct.polys.getD 0 #[])).getD j #[]) c
            + negMulR kl.n (c04k_polyI (kl.tb j) ct.ntt ((c04k_galRns l ct.ntt g (ct.polys.getD 1 #[])).getD j #[])) s' c
            + ν c [ZMOD ((kl.m j).value : Int)] := by
  obtain ⟨ct', hok, hn, hcf, hps, hcan, hph⟩ := hsw
  have hd := h.hd
  refine ⟨ct', ?_, hn, hcf, hps, hcan, fun j hj c hc => ?_⟩
  · rw [c04k_applyGalois_eq h.hkl hl h.hd scheme key h2 hg hg2 (h.hct 0 (by rw [hkcc]; omega)) (h.hct 1 (by rw [hkcc]; omega))]
    exact hok
  · have := hph j hj c hc
    have e : (rnsZero l).getD j #[] = Array.replicate kl.n 0 := by simp [rnsZero, Array.getD, hj, hl.n]
    rw [e] at this
    unfold c05u_phase2 at this ⊢
    rw [c04k_negMul_zero kl.n _ s c (c04k_polyI_zero h.hkl (show j < kl.ms.size by omega) ct.ntt), add_zero] at this
    exact this

/-! ### the model's Galois maps are σ_g on coefficient functions (both representations) -/

/-- the output of `galoisApply` (coefficient form), cast to `ZMod q` -/
theorem c04k_gal_facts {k g : Nat} {m : Modulus} (hm : m.WF) (hg : g % 2 = 1) {a r : Array Nat} (hs : a.size = 2^k)
    (ha : ∀ i, i < 2^k → a.getD i 0 < m.value) (hr : galoisApply k a g m = .ok r) :
    r.size = 2^k ∧ (∀ c, c < 2^k → r.getD c 0 < m.value) ∧
    (∀ c, c < 2^k → ((r.getD c 0 : Nat) : ZMod m.value)
      = c04k_sigma (2^k) g (fun i => ((a.getD i 0 : Nat) : ZMod m.value)) c) ∧
    ∀ i, i < 2^k → ((r.getD ((i * g) % 2^k) 0 : Nat) : ZMod m.value) =
      (if ((i * g) / 2^k) % 2 = 1 then - ((a.getD i 0 : Nat) : ZMod m.value) else ((a.getD i 0 : Nat) : ZMod m.value)) := by
  have hq2 := hm.two_le
  obtain ⟨r', hr', hrs, hrv⟩ := galoisApply_spec (k := k) (g := g) hm hg hs ha
  rw [hr] at hr'
  cases hr'
  have hperm : ∀ i, i < 2^k → ((r.getD ((i * g) % 2^k) 0 : Nat) : ZMod m.value) =
      (if ((i * g) / 2^k) % 2 = 1 then - ((a.getD i 0 : Nat) : ZMod m.value) else ((a.getD i 0 : Nat) : ZMod m.value)) := by
    intro i hi
    rw [hrv i hi]
    have := ha i hi
    split
    · rw [ZMod.natCast_mod, Nat.cast_sub (by omega), ZMod.natCast_self, zero_sub]
    · rfl
  refine ⟨hrs, fun c hc => ?_, fun c hc => ?_, hperm⟩
  · have hc' : c ∈ range (2^k) := mem_range.mpr hc
    rw [← c04m_image_eq (k := k) hg, Finset.mem_image] at hc'
    obtain ⟨y, hy, rfl⟩ := hc'
    rw [hrv y (mem_range.mp hy)]
    have := ha y (mem_range.mp hy)
    split
    · exact Nat.mod_lt _ (by omega)
    · exact this
  · exact (c04k_sigma_of_perm hg (fun i => ((a.getD i 0 : Nat) : ZMod m.value))
      (fun c => ((r.getD c 0 : Nat) : ZMod m.value)) hperm c hc).symm

theorem c04k_pow_mod_period {R : Type} [CommRing R] (ψ : R) {n : Nat} (hψ : ψ ^ n = -1) {e1 e2 : Nat}
    (h : e1 % (2 * n) = e2 % (2 * n)) : ψ ^ e1 = ψ ^ e2 := by
  have h2 : ψ ^ (2 * n) = 1 := by rw [Nat.mul_comm, pow_mul, hψ]; ring
  have red : ∀ e : Nat, ψ ^ e = ψ ^ (e % (2 * n)) := by
    intro e
    conv_lhs => rw [← Nat.mod_add_div e (2 * n)]
    rw [pow_add, pow_mul, h2, one_pow, mul_one]
  rw [red e1, red e2, h]

/-- NTT form: `galoisApplyNtt` is `galoisApply` conjugated by the transform -/
theorem c04k_gal_ntt {t : NTTTables} (hw : t.WF) {g : Nat} (hg : g % 2 = 1) {x r : Array Nat} (hs : x.size = 2^t.k)
    (hx : ∀ i, i < 2^t.k → x.getD i 0 < t.modulus.value) (hr : galoisApply t.k (intt t x) g t.modulus = .ok r) :
    intt t (galoisApplyNtt t.k x g) = r := by
  have hz := hw.zfacts
  have hq2 := hz.q2
  obtain ⟨a1, a2⟩ := intt_sim hw x hs (fun j hj => by have := hx j hj; omega)
  obtain ⟨r1, r2, _, r4⟩ := c04k_gal_facts hw.mwf hg a1 (fun i hi => (a2 i hi).1) hr
  have hxe : x = ntt t (intt t x) := (ntt_intt hw x hs hx).symm
  have hgal : galoisApplyNtt t.k x g = ntt t r := by
    obtain ⟨n1, n2⟩ := ntt_eval hw r r1 (fun j hj => by have := r2 j hj; omega)
    obtain ⟨m1, m2⟩ := ntt_eval hw (intt t x) a1 (fun j hj => by have := (a2 j hj).1; omega)
    apply array_ext_getD (n := 2^t.k) (by simp [galoisApplyNtt, galoisTableNtt]) n1
    intro i hi
    have hsz : i < (galoisTableNtt t.k g).size := by simp [galoisTableNtt]; exact hi
    have htl := (galoisTable_spec (k := t.k) (g := g) hg hi).2
    unfold galoisApplyNtt
    rw [c10i_getD_map_lt _ _ hsz, n2 i hi]
    conv_lhs => rw [hxe]
    rw [m2 _ htl]
    apply cast_inj_lt (c01o_evalSpec_lt t (by omega) _ _) (c01o_evalSpec_lt t (by omega) _ _)
    rw [c01o_evalSpec_cast, c01o_evalSpec_cast]
    have hxp : ((t.root : ZMod t.modulus.value) ^ (2 * brev t.k i + 1)) ^ (2^t.k) = -1 := by
      rw [← pow_mul, Nat.mul_comm, pow_mul, hz.psi]
      exact Odd.neg_one_pow ⟨brev t.k i, rfl⟩
    have hexp : (t.root : ZMod t.modulus.value) ^ (2 * brev t.k ((galoisTableNtt t.k g).getD i 0) + 1)
        = ((t.root : ZMod t.modulus.value) ^ (2 * brev t.k i + 1)) ^ g := by
      rw [← pow_mul]
      apply c04k_pow_mod_period _ hz.psi
      rw [galoisTable_exponent hg hi, Nat.mul_comm g]
    rw [hexp]
    exact (subst_eval hg _ hxp (fun i => (((intt t x).getD i 0 : Nat) : ZMod t.modulus.value))
      (fun c => ((r.getD c 0 : Nat) : ZMod t.modulus.value)) r4).symm
  rw [hgal]
  exact intt_ntt hw r r1 r2

theorem c04k_gal_facts_int {k g : Nat} {m : Modulus} (hm : m.WF) (hg : g % 2 = 1) {a r : Array Nat} (hs : a.size = 2^k)
    (ha : ∀ i, i < 2^k → a.getD i 0 < m.value) (hr : galoisApply k a g m = .ok r) :
    ∀ c, c < 2^k → ((r.getD c 0 : Nat) : Int) ≡ c04k_sigma (2^k) g (fun i => ((a.getD i 0 : Nat) : Int)) c
      [ZMOD (m.value : Int)] := by
  intro c hc
  obtain ⟨_, _, r3, _⟩ := c04k_gal_facts hm hg hs ha hr
  apply (ZMod.intCast_eq_intCast_iff _ _ _).mp
  have e := c04k_sigma_map (Int.castRingHom (ZMod m.value)) (2^k) g (fun i => ((a.getD i 0 : Nat) : Int)) c
  simp only [eq_intCast, Int.cast_natCast] at e
  rw [e, Int.cast_natCast]
  exact r3 c hc

/-- in both representations the Galois-permuted component is σ_g of the component, on coefficient functions modulo q_j -/
theorem c04k_galRns_sigma {kl : KeyLevel} (hkl : kl.WF) {l : Level} (hl : c04k_LevelOf kl l) (hd : l.size + 1 ≤ kl.ms.size)
    (isNtt : Bool) {g : Nat} (hg : g % 2 = 1) {p : RnsPoly} (hp : c04t_Canon kl l.size p) {j : Nat} (hj : j < l.size) :
    ∀ c, c < kl.n → c04k_polyI (kl.tb j) isNtt ((c04k_galRns l isNtt g p).getD j #[]) c ≡
      c04k_sigma kl.n g (c04k_polyI (kl.tb j) isNtt (p.getD j #[])) c [ZMOD ((kl.m j).value : Int)] := by
  intro c hc
  rw [c04k_galRns_getD l isNtt g p hj]
  obtain ⟨htw, htm, htn, hmw⟩ := c04t_kl_comp hkl (show j < kl.ms.size by omega)
  have hq2 := hmw.two_le
  unfold c04k_galComp c04k_polyI c04t_coefOf
  cases isNtt with
  | false =>
    simp only [Bool.false_eq_true, if_false]
    obtain ⟨r, hr, _⟩ := galoisApply_spec (k := l.k) (g := g) (m := l.q j) (by rw [hl.q j hj]; exact hmw) hg
      (a := p.getD j #[]) (by rw [(hp j hj).1, hl.k])
      (fun x hx => by rw [hl.q j hj]; exact (hp j hj).2 x (by rw [← hl.k]; exact hx))
    have hv : c01p_val (galoisApply l.k (p.getD j #[]) g (l.q j)) = r := by rw [hr]; rfl
    rw [hv]
    have := c04k_gal_facts_int (k := l.k) (g := g) (m := l.q j) (by rw [hl.q j hj]; exact hmw) hg
      (a := p.getD j #[]) (by rw [(hp j hj).1, hl.k])
      (fun x hx => by rw [hl.q j hj]; exact (hp j hj).2 x (by rw [← hl.k]; exact hx)) hr c (by rw [hl.k]; exact hc)
    rw [hl.k, hl.q j hj] at this
    exact this
  | true =>
    simp only [if_true]
    have hk : l.k = (kl.tb j).k := Nat.pow_right_injective (le_refl 2) (by show 2^l.k = 2^(kl.tb j).k; rw [hl.k, htn])
    have hps : (p.getD j #[]).size = 2^(kl.tb j).k := by rw [(hp j hj).1, htn]
    have hpl : ∀ i, i < 2^(kl.tb j).k → (p.getD j #[]).getD i 0 < (kl.tb j).modulus.value := fun i hi => by
      rw [htm]; exact (hp j hj).2 i (by rw [← htn]; exact hi)
    obtain ⟨a1, a2⟩ := intt_sim htw (p.getD j #[]) hps (fun i hi => by have := hpl i hi; omega)
    obtain ⟨r, hr, _⟩ := galoisApply_spec (k := (kl.tb j).k) (g := g) (m := (kl.tb j).modulus) htw.mwf hg
      (a := intt (kl.tb j) (p.getD j #[])) a1 (fun i hi => (a2 i hi).1)
    rw [hk, c04k_gal_ntt htw hg hps hpl hr]
    have := c04k_gal_facts_int htw.mwf hg a1 (fun i hi => (a2 i hi).1) hr c (by rw [htn]; exact hc)
    rw [htn, htm] at this
    exact this

/-- σ_g(c0) + σ_g(c1) ⋆ σ_g(s) = σ_g(c0 + c1 ⋆ s), up to congruence of the inputs -/
theorem c04k_sigma_phase {n g : Nat} (hg : g % 2 = 1) (q : Int) {a0 a1 s A0 A1 s' : Nat → Int}
    (h0 : ∀ i, i < n → A0 i ≡ c04k_sigma n g a0 i [ZMOD q]) (h1 : ∀ i, i < n → A1 i ≡ c04k_sigma n g a1 i [ZMOD q])
    (hs' : ∀ i, i < n → s' i = c04k_sigma n g s i) {c : Nat} (hc : c < n) :
    A0 c + negMulR n A1 s' c ≡ c04k_sigma n g (c05u_phase2 n a0 a1 s) c [ZMOD q] := by
  have e : c04k_sigma n g (c05u_phase2 n a0 a1 s) c
      = c04k_sigma n g a0 c + negMulR n (c04k_sigma n g a1) (c04k_sigma n g s) c := by
    rw [← c04k_sigma_mul hg a1 s hc, ← c04k_sigma_add]
    rfl
  rw [e]
  refine Int.ModEq.add (h0 c hc) (c04k_negMul_modEq n q hc h1 (fun i hi => ?_))
  rw [hs' i hi]

/-! ## non-vacuity: a genuine key-switching key on the key level `c04t_exKL` (N = 2, q = 13, P = 17, t = 5)

    s = 1 − X, s' = X, mask a = (100, 200) mod 221, error e = 1 − X:  k1 = a,  k0 = −a⋆s + e + P·s' (the P·s' term only modulo 13);
    the key is stored in NTT form. -/

def c04k_exKey : KSKey := #[#[#[#[9, 4], #[11, 3]], #[#[8, 10], #[16, 14]]]]
def c04k_exS : Nat → Int := fun p => if p = 0 then 1 else if p = 1 then -1 else 0
def c04k_exS' : Nat → Int := fun p => if p = 1 then 1 else 0
def c04k_exE : Nat → Nat → Int := fun _ p => if p = 0 then 1 else if p = 1 then -1 else 0
def c04k_exG : Nat → Int := fun _ => 1

theorem c04k_exKeyCoef :
    c04k_keyCoef c04t_exKL c04k_exKey 0 0 0 = #[0, 7] ∧ c04k_keyCoef c04t_exKL c04k_exKey 0 0 1 = #[9, 5] ∧
    c04k_keyCoef c04t_exKL c04k_exKey 1 0 0 = #[7, 1] ∧ c04k_keyCoef c04t_exKL c04k_exKey 1 0 1 = #[15, 13] := by
  decide +kernel

theorem c04k_exKeyEq : c04k_KeyEq c04t_exKL 1 c04k_exKey c04k_exS c04k_exS' c04k_exE c04k_exG := by
  obtain ⟨k1, k2, k3, k4⟩ := c04k_exKeyCoef
  obtain ⟨_, v13⟩ := c04t_exMod_wf (v := 13) (by decide) (by decide)
  obtain ⟨_, v17⟩ := c04t_exMod_wf (v := 17) (by decide) (by decide)
  have hm0 : (c04t_exKL.m 0).value = 13 := v13
  have hm1 : (c04t_exKL.m 1).value = 17 := v17
  have hP : c04t_exKL.c04t_P = 17 := v17
  have hn : c04t_exKL.n = 2 := rfl
  refine ⟨fun j hj i hi => ?_, fun idx hu i hi c hc => ?_⟩
  · interval_cases j; interval_cases i
    rw [if_pos rfl]; exact Int.ModEq.refl _
  · interval_cases i
    rw [hn] at hc
    have hidx : idx = 0 ∨ idx = 1 := by
      rcases hu with h | h
      · left; omega
      · right; rw [h]; rfl
    rcases hidx with rfl | rfl
    · rw [hm0, hP, hn]
      unfold c04k_keyI
      rw [k1, k2]
      interval_cases c <;>
        simp [negMulR, Finset.sum_range_succ, c04k_exS, c04k_exS', c04k_exE, c04k_exG] <;> decide
    · rw [hm1, hP, hn]
      unfold c04k_keyI
      rw [k3, k4]
      interval_cases c <;>
        simp [negMulR, Finset.sum_range_succ, c04k_exS, c04k_exS', c04k_exE, c04k_exG] <;> decide

theorem c04k_exKSInput (ntt : Bool) : c04t_KSInput c04t_exKL 1 (c04t_exCt ntt) c04t_exTarget c04k_exKey := by
  have h := c04t_exKSInput ntt
  obtain ⟨_, v13⟩ := c04t_exMod_wf (v := 13) (by decide) (by decide)
  obtain ⟨_, v17⟩ := c04t_exMod_wf (v := 17) (by decide) (by decide)
  have hm0 : (c04t_exKL.m 0).value = 13 := v13
  have hm1 : (c04t_exKL.m 1).value = 17 := v17
  have hk0 : c04t_keyIndex c04t_exKL 1 0 = 0 := rfl
  have hk1 : c04t_keyIndex c04t_exKL 1 1 = 1 := rfl
  refine ⟨h.hkl, h.hsz, h.hd, by decide, h.htarget, ?_, h.hov, h.hct, h.hinv⟩
  intro i hi j hj k hk
  have hk2 : k < 2 := hk
  interval_cases j
  interval_cases i
  · rw [hk0, hm0]
    interval_cases k
    · refine ⟨rfl, fun l hl => ?_⟩
      have hl2 : l < 2 := hl
      interval_cases l <;> decide
    · refine ⟨rfl, fun l hl => ?_⟩
      have hl2 : l < 2 := hl
      interval_cases l <;> decide
  · rw [hk1, hm1]
    interval_cases k
    · refine ⟨rfl, fun l hl => ?_⟩
      have hl2 : l < 2 := hl
      interval_cases l <;> decide
    · refine ⟨rfl, fun l hl => ?_⟩
      have hl2 : l < 2 := hl
      interval_cases l <;> decide

/-- the level base {13}, built by the model's constructor -/
def c04k_exBase : RNSBase := match RNSBase.new [c04t_exMod 13] with | .ok b => b | .error _ => default

theorem c04k_exBaseOf : c04k_BaseOf c04t_exKL 1 c04k_exBase := by
  obtain ⟨m13, v13⟩ := c04t_exMod_wf (v := 13) (by decide) (by decide)
  obtain ⟨b, hb⟩ := c04t_isOk_ok (x := RNSBase.new [c04t_exMod 13]) (by decide)
  have e : c04k_exBase = b := by unfold c04k_exBase; rw [hb]
  rw [e]
  obtain ⟨hwf, hbase⟩ := RNSBase.new_wf (ms := [c04t_exMod 13]) (by intro m hm; simp at hm; subst hm; exact m13)
    (by decide) hb
  refine ⟨hwf, by unfold RNSBase.size; rw [hbase]; rfl, fun j hj => ?_⟩
  interval_cases j
  unfold RNSBase.q; rw [hbase]; rfl

/-- the ciphertext level {13} of the example key level -/
def c04k_exLevel : Level := ⟨.bfv, 2, 1, #[c04t_exMod 13], c04t_exMod 5, #[c04t_exTbl 13 5], default⟩

theorem c04k_exLevelOf : c04k_LevelOf c04t_exKL c04k_exLevel := by
  refine ⟨rfl, rfl, fun i hi => ?_⟩
  have : i < 1 := hi
  interval_cases i
  rfl

theorem c04k_exKSInput' (ntt : Bool) :
    c04t_KSInput c04t_exKL c04k_exLevel.size (c04t_exCt ntt) ((c04t_exCt ntt).polys.getD 1 #[]) c04k_exKey := by
  have h := c04k_exKSInput ntt
  exact ⟨h.hkl, h.hsz, h.hd, h.hks, h.hct 1 (by decide), h.hkey, h.hov, h.hct, h.hinv⟩

/-- the gadget elements g_i = (Q/q_i)·[(Q/q_i)^{-1}]_{q_i} of the level base satisfy the `hG` field of `c04k_KeyEq` (`gadget_delta`) -/
theorem c04k_gadget_hG {kl : KeyLevel} {dsz : Nat} {b : RNSBase} (hb : c04k_BaseOf kl dsz b) :
    ∀ j, j < dsz → ∀ i, i < dsz →
      ((b.punct.getD i 0 * (b.invPunct.getD i default).operand : Nat) : Int) ≡ (if i = j then 1 else 0)
        [ZMOD ((kl.m j).value : Int)] := by
  intro j hj i hi
  have h := gadget_delta hb.wf (i := j) (j := i) (by rw [hb.size]; exact hj) (by rw [hb.size]; exact hi)
  have hq2 := (hb.wf.mwf j (by rw [hb.size]; exact hj)).two_le
  rw [hb.q j hj] at h hq2
  by_cases hij : i = j
  · subst hij
    rw [if_pos rfl] at h ⊢
    have : ((1 : Nat) : Int) = 1 := rfl
    rw [← this]
    exact Int.natCast_modEq_iff.mpr h
  · rw [if_neg (Ne.symm hij)] at h
    rw [if_neg hij]
    have : ((0 : Nat) : Int) = 0 := rfl
    rw [← this]
    exact Int.natCast_modEq_iff.mpr (by rw [Nat.ModEq, h, Nat.zero_mod])

/-- the key equation stated ONCE over ℤ[X]/(X^n+1) modulo M (e.g. M = Q_key = Q_level·P, or any multiple of the used key-level moduli)
    for integer lifts K_k,i of the key rows implies the per-modulus bundle `c04k_KeyEq` -/
theorem c04k_keyEq_of_int {kl : KeyLevel} {dsz : Nat} {key : KSKey} {s s' : Nat → Int} {e : Nat → Nat → Int} {G : Nat → Int}
    (M : Nat) (hM : ∀ idx, c04k_Used kl dsz idx → (kl.m idx).value ∣ M) (K : Nat → Nat → Nat → Int)
    (hres : ∀ idx, c04k_Used kl dsz idx → ∀ i, i < dsz → ∀ k, k < 2 → ∀ c, c < kl.n →
      K k i c ≡ c04k_keyI kl key idx i k c [ZMOD ((kl.m idx).value : Int)])
    (hG : ∀ j, j < dsz → ∀ i, i < dsz → G i ≡ (if i = j then 1 else 0) [ZMOD ((kl.m j).value : Int)])
    (heq : ∀ i, i < dsz → ∀ c, c < kl.n →
      K 0 i c + negMulR kl.n (K 1 i) s c ≡ e i c + (kl.c04t_P : Int) * G i * s' c [ZMOD (M : Int)]) :
    c04k_KeyEq kl dsz key s s' e G := by
  refine ⟨hG, fun idx hu i hi c hc => ?_⟩
  have h1 := (heq i hi c hc).of_dvd (Int.natCast_dvd_natCast.mpr (hM idx hu))
  refine Int.ModEq.trans ?_ h1
  exact ((hres idx hu i hi 0 (by omega) c hc).add
    (c04k_negMul_modEq kl.n _ hc (fun p hp => hres idx hu i hi 1 (by omega) p hp) (fun _ _ => Int.ModEq.refl _))).symm

theorem c04k_exS_eq : c04k_exS = fun p => (#[1, -1] : Array Int).getD p 0 := by
  funext p
  match p with
  | 0 => rfl
  | 1 => rfl
  | p + 2 => simp [c04k_exS, Array.getD]

/-! ### a relinearisation key (s' = s ⋆ s = −2X) and a size-3 ciphertext on the same key level -/

def c04k_exRelinKey : KSKey := #[#[#[#[1, 12], #[11, 3]], #[#[8, 10], #[16, 14]]]]
def c04k_exCt3 (ntt : Bool) : Ct := ⟨#[#[#[1, 2]], #[#[3, 4]], #[#[5, 6]]], ntt, 1⟩

theorem c04k_exRelinKeyCoef :
    c04k_keyCoef c04t_exKL c04k_exRelinKey 0 0 0 = #[0, 8] ∧ c04k_keyCoef c04t_exKL c04k_exRelinKey 0 0 1 = #[9, 5] ∧
    c04k_keyCoef c04t_exKL c04k_exRelinKey 1 0 0 = #[7, 1] ∧ c04k_keyCoef c04t_exKL c04k_exRelinKey 1 0 1 = #[15, 13] := by
  decide +kernel

theorem c04k_exRelinKeyEq : c04k_KeyEq c04t_exKL 1 c04k_exRelinKey c04k_exS
    (fun p => negMulR c04t_exKL.n c04k_exS c04k_exS p) c04k_exE c04k_exG := by
  obtain ⟨k1, k2, k3, k4⟩ := c04k_exRelinKeyCoef
  obtain ⟨_, v13⟩ := c04t_exMod_wf (v := 13) (by decide) (by decide)
  obtain ⟨_, v17⟩ := c04t_exMod_wf (v := 17) (by decide) (by decide)
  have hm0 : (c04t_exKL.m 0).value = 13 := v13
  have hm1 : (c04t_exKL.m 1).value = 17 := v17
  have hP : c04t_exKL.c04t_P = 17 := v17
  have hn : c04t_exKL.n = 2 := rfl
  refine ⟨fun j hj i hi => ?_, fun idx hu i hi c hc => ?_⟩
  · interval_cases j; interval_cases i
    rw [if_pos rfl]; exact Int.ModEq.refl _
  · interval_cases i
    rw [hn] at hc
    have hidx : idx = 0 ∨ idx = 1 := by
      rcases hu with h | h
      · left; omega
      · right; rw [h]; rfl
    rcases hidx with rfl | rfl
    · rw [hm0, hP, hn]
      unfold c04k_keyI
      rw [k1, k2]
      interval_cases c <;>
        simp [negMulR, Finset.sum_range_succ, c04k_exS, c04k_exE, c04k_exG] <;> decide
    · rw [hm1, hP, hn]
      unfold c04k_keyI
      rw [k3, k4]
      interval_cases c <;>
        simp [negMulR, Finset.sum_range_succ, c04k_exS, c04k_exE, c04k_exG] <;> decide

theorem c04k_exKSInput3 (ntt : Bool) :
    c04t_KSInput c04t_exKL 1 (c04k_exCt3 ntt) ((c04k_exCt3 ntt).polys.getD 2 #[]) c04k_exRelinKey := by
  have h := c04t_exKSInput ntt
  obtain ⟨_, v13⟩ := c04t_exMod_wf (v := 13) (by decide) (by decide)
  obtain ⟨_, v17⟩ := c04t_exMod_wf (v := 17) (by decide) (by decide)
  have hm0 : (c04t_exKL.m 0).value = 13 := v13
  have hm1 : (c04t_exKL.m 1).value = 17 := v17
  have hk0 : c04t_keyIndex c04t_exKL 1 0 = 0 := rfl
  have hk1 : c04t_keyIndex c04t_exKL 1 1 = 1 := rfl
  refine ⟨h.hkl, h.hsz, h.hd, by decide, ?_, ?_, h.hov, ?_, h.hinv⟩
  · intro j hj
    interval_cases j
    have hp : (c04k_exCt3 ntt).polys.getD 2 #[] = #[#[5, 6]] := rfl
    rw [hp]
    refine ⟨rfl, fun l hl => ?_⟩
    have hl2 : l < 2 := hl
    rw [hm0]
    interval_cases l <;> decide
  · intro i hi j hj k hk
    have hk2 : k < 2 := hk
    interval_cases j
    interval_cases i
    · rw [hk0, hm0]
      interval_cases k
      · refine ⟨rfl, fun l hl => ?_⟩
        have hl2 : l < 2 := hl
        interval_cases l <;> decide
      · refine ⟨rfl, fun l hl => ?_⟩
        have hl2 : l < 2 := hl
        interval_cases l <;> decide
    · rw [hk1, hm1]
      interval_cases k
      · refine ⟨rfl, fun l hl => ?_⟩
        have hl2 : l < 2 := hl
        interval_cases l <;> decide
      · refine ⟨rfl, fun l hl => ?_⟩
        have hl2 : l < 2 := hl
        interval_cases l <;> decide
  · intro k hk
    have hk2 : k < 2 := hk
    have := h.hct k hk2
    interval_cases k
    · exact this
    · exact this

/-! ## Property theorems -/

/-- `switchKey_phase` (rounding branch: BFV in coefficient form, CKKS in NTT form).
    Hypotheses: `c04t_KSInput` (well-formed key level, canonical inputs, accumulator guard, P^{-1} operands — C04T), a two-component
    key (`kcc = 2`), a ciphertext with at least two polynomials, and the KEY EQUATION `c04k_KeyEq`: for integer polynomials
    s, s', e_i and gadget integers G_i (G_i ≡ δ_ij mod q_j), the coefficient forms of the key rows satisfy
    k0_i + k1_i ⋆ s ≡ e_i + P·G_i·s' modulo every used key-level modulus (q_0 … q_{dsz-1} and P), ⋆ the negacyclic product.
    Conclusion: `switchKey` succeeds; representation flag, correction factor, number of polynomials and all polynomials of index ≥ 2
    are unchanged; the two new polynomials are canonical; and for every level modulus q_j and coefficient c (coefficient functions
    through `intt` when the data is in NTT form, `c05u_phase2 n c0 c1 s = c0 + c1 ⋆ s`):
      phase_s(ct'_0, ct'_1) ≡ phase_s(ct_0, ct_1) + target ⋆ s' + ν   (mod q_j)
    with ONE integer polynomial ν = `c04k_nuStd` independent of j: ν = (Σ_i D_i ⋆ e_i − r_0 − r_1 ⋆ s)/P (exact division), D_i the
    digits of the target, r_k the centred residues mod P of the accumulated polynomials. -/
theorem switchKey_phase {kl : KeyLevel} {scheme : Scheme} {dsz : Nat} {ct : Ct} {target : RnsPoly} {key : KSKey}
    (h : c04t_KSInput kl dsz ct target key) (hmode : c04t_StdMode scheme ct.ntt)
    (hkcc : (key.getD 0 #[]).size = 2) (hsz : 2 ≤ ct.polys.size)
    {s s' : Nat → Int} {e : Nat → Nat → Int} {G : Nat → Int} (hke : c04k_KeyEq kl dsz key s s' e G) :
    ∃ ct', switchKey kl scheme dsz ct target key = .ok ct' ∧ ct'.ntt = ct.ntt ∧ ct'.cf = ct.cf ∧
      ct'.polys.size = ct.polys.size ∧
      (∀ idx, 2 ≤ idx → ct'.polys.getD idx #[] = ct.polys.getD idx #[]) ∧
      (∀ k, k < 2 → (ct'.polys.getD k #[]).size = dsz ∧ c04t_Canon kl dsz (ct'.polys.getD k #[])) ∧
      ∀ j, j < dsz → ∀ c, c < kl.n →
        c05u_phase2 kl.n (c04k_polyI (kl.tb j) ct.ntt ((ct'.polys.getD 0 #[]).getD j #[]))
            (c04k_polyI (kl.tb j) ct.ntt ((ct'.polys.getD 1 #[]).getD j #[])) s c
          ≡ c05u_phase2 kl.n (c04k_polyI (kl.tb j) ct.ntt ((ct.polys.getD 0 #[]).getD j #[]))
              (c04k_polyI (kl.tb j) ct.ntt ((ct.polys.getD 1 #[]).getD j #[])) s c
            + negMulR kl.n (c04k_polyI (kl.tb j) ct.ntt (target.getD j #[])) s' c
            + c04k_nuStd kl dsz ct.ntt target key e s c [ZMOD ((kl.m j).value : Int)] :=
  c04k_main_std h hmode hkcc hsz hke

/-- explicit noise bound (rounding branch): with q_i ≤ A for the level moduli and ‖e_i‖∞ ≤ Be,
    P·‖ν‖∞ ≤ dsz·A·n·Be + ⌊P/2⌋·(1 + ‖s‖₁),  i.e. ‖ν‖∞ ≤ dsz·n·A·Be/P + (1 + ‖s‖₁)/2 -/
theorem switchKey_noise_bound {kl : KeyLevel} {dsz : Nat} {ct : Ct} {target : RnsPoly} {key : KSKey}
    (h : c04t_KSInput kl dsz ct target key)
    {s s' : Nat → Int} {e : Nat → Nat → Int} {G : Nat → Int} (hke : c04k_KeyEq kl dsz key s s' e G) {A Be : Nat}
    (hA : ∀ i, i < dsz → (kl.m i).value ≤ A) (he : ∀ i, i < dsz → ∀ p, p < kl.n → (e i p).natAbs ≤ Be) :
    ∀ c, c < kl.n → (c04k_nuStd kl dsz ct.ntt target key e s c).natAbs * kl.c04t_P
      ≤ dsz * (A * (kl.n * Be)) + kl.c04t_P / 2 * (1 + ∑ p ∈ range kl.n, (s p).natAbs) :=
  c04k_nuStd_bound h hke hA he

/-- `switchKey_phase` modulo Q_level = Π_{j<dsz} q_j (`b.prod`, `b` the well-formed RNS base of the level moduli): for ARBITRARY
    integer lifts Z_k, Z'_k, T of the old polynomials, the new polynomials and the target (`c04k_Lifts`: congruent to the component
    coefficient functions modulo every q_j — e.g. the CRT lifts `Spec.crtPoly`),
      Z'_0 + Z'_1 ⋆ s ≡ Z_0 + Z_1 ⋆ s + T ⋆ s' + ν   (mod Q_level). -/
theorem switchKey_phase_crt {kl : KeyLevel} {scheme : Scheme} {dsz : Nat} {ct : Ct} {target : RnsPoly} {key : KSKey}
    (h : c04t_KSInput kl dsz ct target key) (hmode : c04t_StdMode scheme ct.ntt)
    (hkcc : (key.getD 0 #[]).size = 2) (hsz : 2 ≤ ct.polys.size)
    {s s' : Nat → Int} {e : Nat → Nat → Int} {G : Nat → Int} (hke : c04k_KeyEq kl dsz key s s' e G)
    {b : RNSBase} (hb : c04k_BaseOf kl dsz b) :
    ∃ ct', switchKey kl scheme dsz ct target key = .ok ct' ∧
      ∀ Z0 Z1 Z0' Z1' T : Nat → Int,
        c04k_Lifts kl dsz ct.ntt (ct.polys.getD 0 #[]) Z0 → c04k_Lifts kl dsz ct.ntt (ct.polys.getD 1 #[]) Z1 →
        c04k_Lifts kl dsz ct.ntt (ct'.polys.getD 0 #[]) Z0' → c04k_Lifts kl dsz ct.ntt (ct'.polys.getD 1 #[]) Z1' →
        c04k_Lifts kl dsz ct.ntt target T →
        ∀ c, c < kl.n → c05u_phase2 kl.n Z0' Z1' s c ≡
          c05u_phase2 kl.n Z0 Z1 s c + negMulR kl.n T s' c + c04k_nuStd kl dsz ct.ntt target key e s c
            [ZMOD (b.prod : Int)] := by
  obtain ⟨ct', hok, _, _, _, _, _, hph⟩ := c04k_main_std h hmode hkcc hsz hke
  exact ⟨ct', hok, fun Z0 Z1 Z0' Z1' T l0 l1 l0' l1' lT => c04k_merge hb ct.ntt hph l0 l1 l0' l1' lT⟩

/-- `switchKey_phase`, BGV branch (NTT form; `c04t_BgvData`: plain modulus t well-formed, `invPModT`·P ≡ 1 mod t).  Same frame;
    ν = `c04k_nuBgv` = (Σ_i D_i ⋆ e_i − r_0 − r_1 ⋆ s)/P with r_k the multiple of t in [0, P·t) congruent to the k-th accumulated
    polynomial modulo P.  The correction factor is unchanged (`ct'.cf = ct.cf`). -/
theorem switchKey_phase_bgv {kl : KeyLevel} {dsz : Nat} {ct : Ct} {target : RnsPoly} {key : KSKey}
    (h : c04t_KSInput kl dsz ct target key) (hb : c04t_BgvData kl) (hntt : ct.ntt = true)
    (hkcc : (key.getD 0 #[]).size = 2) (hsz : 2 ≤ ct.polys.size)
    {s s' : Nat → Int} {e : Nat → Nat → Int} {G : Nat → Int} (hke : c04k_KeyEq kl dsz key s s' e G) :
    ∃ ct', switchKey kl .bgv dsz ct target key = .ok ct' ∧ ct'.ntt = ct.ntt ∧ ct'.cf = ct.cf ∧
      ct'.polys.size = ct.polys.size ∧
      (∀ idx, 2 ≤ idx → ct'.polys.getD idx #[] = ct.polys.getD idx #[]) ∧
      (∀ k, k < 2 → (ct'.polys.getD k #[]).size = dsz ∧ c04t_Canon kl dsz (ct'.polys.getD k #[])) ∧
      ∀ j, j < dsz → ∀ c, c < kl.n →
        c05u_phase2 kl.n (c04k_polyI (kl.tb j) ct.ntt ((ct'.polys.getD 0 #[]).getD j #[]))
            (c04k_polyI (kl.tb j) ct.ntt ((ct'.polys.getD 1 #[]).getD j #[])) s c
          ≡ c05u_phase2 kl.n (c04k_polyI (kl.tb j) ct.ntt ((ct.polys.getD 0 #[]).getD j #[]))
              (c04k_polyI (kl.tb j) ct.ntt ((ct.polys.getD 1 #[]).getD j #[])) s c
            + negMulR kl.n (c04k_polyI (kl.tb j) ct.ntt (target.getD j #[])) s' c
            + c04k_nuBgv kl dsz ct.ntt target key e s c [ZMOD ((kl.m j).value : Int)] :=
  c04k_main_bgv h hb hntt hkcc hsz hke

/-- BGV noise: P·‖ν‖∞ ≤ dsz·A·n·Be + P·t·(1 + ‖s‖₁); and if every key error e_i is a multiple of t (BGV keys carry t·e), then
    ν ≡ 0 (mod t): the plaintext residue of the phase modulo t changes exactly by that of target ⋆ s', with the SAME correction factor. -/
theorem switchKey_noise_bound_bgv {kl : KeyLevel} {dsz : Nat} {ct : Ct} {target : RnsPoly} {key : KSKey}
    (h : c04t_KSInput kl dsz ct target key) (hb : c04t_BgvData kl)
    {s s' : Nat → Int} {e : Nat → Nat → Int} {G : Nat → Int} (hke : c04k_KeyEq kl dsz key s s' e G) {A Be : Nat}
    (hA : ∀ i, i < dsz → (kl.m i).value ≤ A) (he : ∀ i, i < dsz → ∀ p, p < kl.n → (e i p).natAbs ≤ Be) :
    ∀ c, c < kl.n → (c04k_nuBgv kl dsz ct.ntt target key e s c).natAbs * kl.c04t_P
      ≤ dsz * (A * (kl.n * Be)) + kl.c04t_P * kl.t.value * (1 + ∑ p ∈ range kl.n, (s p).natAbs) :=
  c04k_nuBgv_bound h hb hke hA he

theorem switchKey_noise_bgv_mod_t {kl : KeyLevel} {dsz : Nat} {ct : Ct} {target : RnsPoly} {key : KSKey}
    (h : c04t_KSInput kl dsz ct target key) (hb : c04t_BgvData kl)
    {s s' : Nat → Int} {e : Nat → Nat → Int} {G : Nat → Int} (hke : c04k_KeyEq kl dsz key s s' e G)
    (het : ∀ i, i < dsz → ∀ p, p < kl.n → (kl.t.value : Int) ∣ e i p) :
    ∀ c, c < kl.n → (kl.t.value : Int) ∣ c04k_nuBgv kl dsz ct.ntt target key e s c :=
  c04k_nuBgv_dvd h hb hke het

theorem switchKey_phase_bgv_crt {kl : KeyLevel} {dsz : Nat} {ct : Ct} {target : RnsPoly} {key : KSKey}
    (h : c04t_KSInput kl dsz ct target key) (hbg : c04t_BgvData kl) (hntt : ct.ntt = true)
    (hkcc : (key.getD 0 #[]).size = 2) (hsz : 2 ≤ ct.polys.size)
    {s s' : Nat → Int} {e : Nat → Nat → Int} {G : Nat → Int} (hke : c04k_KeyEq kl dsz key s s' e G)
    {b : RNSBase} (hb : c04k_BaseOf kl dsz b) :
    ∃ ct', switchKey kl .bgv dsz ct target key = .ok ct' ∧
      ∀ Z0 Z1 Z0' Z1' T : Nat → Int,
        c04k_Lifts kl dsz ct.ntt (ct.polys.getD 0 #[]) Z0 → c04k_Lifts kl dsz ct.ntt (ct.polys.getD 1 #[]) Z1 →
        c04k_Lifts kl dsz ct.ntt (ct'.polys.getD 0 #[]) Z0' → c04k_Lifts kl dsz ct.ntt (ct'.polys.getD 1 #[]) Z1' →
        c04k_Lifts kl dsz ct.ntt target T →
        ∀ c, c < kl.n → c05u_phase2 kl.n Z0' Z1' s c ≡
          c05u_phase2 kl.n Z0 Z1 s c + negMulR kl.n T s' c + c04k_nuBgv kl dsz ct.ntt target key e s c
            [ZMOD (b.prod : Int)] := by
  obtain ⟨ct', hok, _, _, _, _, _, hph⟩ := c04k_main_bgv h hbg hntt hkcc hsz hke
  exact ⟨ct', hok, fun Z0 Z1 Z0' Z1' T l0 l1 l0' l1' lT => c04k_merge hb ct.ntt hph l0 l1 l0' l1' lT⟩

/-- `switchKey_phase` against the exact specification `Spec.phase` (big-integer phase, centred, of the coefficient forms
    `c04k_coefRns` of the first two polynomials; `c01p_bvals b` = the list of level moduli, `b.prod` = Q_level), secret `sk : Array Int`:
      Spec.phase(ct')[c] ≡ Spec.phase(ct)[c] + (T ⋆ s')[c] + ν[c]   (mod Q_level),  T = `Spec.crtPoly` of the target. -/
theorem switchKey_phase_spec {kl : KeyLevel} {scheme : Scheme} {dsz : Nat} {ct : Ct} {target : RnsPoly} {key : KSKey}
    (h : c04t_KSInput kl dsz ct target key) (hmode : c04t_StdMode scheme ct.ntt)
    (hkcc : (key.getD 0 #[]).size = 2) (hsz : 2 ≤ ct.polys.size)
    {sk : Array Int} {s' : Nat → Int} {e : Nat → Nat → Int} {G : Nat → Int}
    (hke : c04k_KeyEq kl dsz key (fun p => sk.getD p 0) s' e G) {b : RNSBase} (hb : c04k_BaseOf kl dsz b) :
    ∃ ct', switchKey kl scheme dsz ct target key = .ok ct' ∧
      ∀ c, c < kl.n →
        (Spec.phase (c01p_bvals b) kl.n sk [c04k_coefRns kl dsz ct.ntt (ct'.polys.getD 0 #[]),
            c04k_coefRns kl dsz ct.ntt (ct'.polys.getD 1 #[])]).getD c 0 ≡
          (Spec.phase (c01p_bvals b) kl.n sk [c04k_coefRns kl dsz ct.ntt (ct.polys.getD 0 #[]),
            c04k_coefRns kl dsz ct.ntt (ct.polys.getD 1 #[])]).getD c 0
          + negMulR kl.n (fun i => (Spec.crtPoly (c01p_bvals b) (c04k_coefRns kl dsz ct.ntt target) kl.n).getD i 0) s' c
          + c04k_nuStd kl dsz ct.ntt target key e (fun p => sk.getD p 0) c [ZMOD (b.prod : Int)] := by
  obtain ⟨ct', hok, _, _, _, _, _, hph⟩ := c04k_main_std h hmode hkcc hsz hke
  exact ⟨ct', hok, c04k_merge_spec hb ct.ntt hph⟩

theorem switchKey_phase_spec_bgv {kl : KeyLevel} {dsz : Nat} {ct : Ct} {target : RnsPoly} {key : KSKey}
    (h : c04t_KSInput kl dsz ct target key) (hbg : c04t_BgvData kl) (hntt : ct.ntt = true)
    (hkcc : (key.getD 0 #[]).size = 2) (hsz : 2 ≤ ct.polys.size)
    {sk : Array Int} {s' : Nat → Int} {e : Nat → Nat → Int} {G : Nat → Int}
    (hke : c04k_KeyEq kl dsz key (fun p => sk.getD p 0) s' e G) {b : RNSBase} (hb : c04k_BaseOf kl dsz b) :
    ∃ ct', switchKey kl .bgv dsz ct target key = .ok ct' ∧ ct'.cf = ct.cf ∧
      ∀ c, c < kl.n →
        (Spec.phase (c01p_bvals b) kl.n sk [c04k_coefRns kl dsz ct.ntt (ct'.polys.getD 0 #[]),
            c04k_coefRns kl dsz ct.ntt (ct'.polys.getD 1 #[])]).getD c 0 ≡
          (Spec.phase (c01p_bvals b) kl.n sk [c04k_coefRns kl dsz ct.ntt (ct.polys.getD 0 #[]),
            c04k_coefRns kl dsz ct.ntt (ct.polys.getD 1 #[])]).getD c 0
          + negMulR kl.n (fun i => (Spec.crtPoly (c01p_bvals b) (c04k_coefRns kl dsz ct.ntt target) kl.n).getD i 0) s' c
          + c04k_nuBgv kl dsz ct.ntt target key e (fun p => sk.getD p 0) c [ZMOD (b.prod : Int)] := by
  obtain ⟨ct', hok, _, hcf, _, _, _, hph⟩ := c04k_main_bgv h hbg hntt hkcc hsz hke
  exact ⟨ct', hok, hcf, c04k_merge_spec hb ct.ntt hph⟩

/-- `relinearize_phase` (rounding branch): a size-3 ciphertext (c0, c1, c2) relinearised with a key `keys 2` from s² to s
    (key equation with s' = s ⋆ s) becomes a size-2 ciphertext whose phase under s is c0 + c1 ⋆ s + c2 ⋆ s² + ν modulo every q_j,
    ν = `c04k_nuStd … (target := c2)` (bounded by `switchKey_noise_bound`). -/
theorem relinearize_phase {kl : KeyLevel} {scheme : Scheme} {dsz : Nat} {ct : Ct} {key : KSKey}
    (keys : Nat → Option KSKey) (fuel : Nat) (h3 : ct.polys.size = 3) (hk : keys 2 = some key)
    (h : c04t_KSInput kl dsz ct (ct.polys.getD 2 #[]) key) (hmode : c04t_StdMode scheme ct.ntt)
    (hkcc : (key.getD 0 #[]).size = 2)
    {s : Nat → Int} {e : Nat → Nat → Int} {G : Nat → Int}
    (hke : c04k_KeyEq kl dsz key s (fun p => negMulR kl.n s s p) e G) :
    ∃ ct'', relinearize kl scheme dsz keys (fuel + 2) ct = .ok ct'' ∧ ct''.polys.size = 2 ∧ ct''.ntt = ct.ntt ∧
      ct''.cf = ct.cf ∧
      (∀ k, k < 2 → (ct''.polys.getD k #[]).size = dsz ∧ c04t_Canon kl dsz (ct''.polys.getD k #[])) ∧
      ∀ j, j < dsz → ∀ c, c < kl.n →
        c05u_phase2 kl.n (c04k_polyI (kl.tb j) ct.ntt ((ct''.polys.getD 0 #[]).getD j #[]))
            (c04k_polyI (kl.tb j) ct.ntt ((ct''.polys.getD 1 #[]).getD j #[])) s c
          ≡ c04k_phase3 kl.n (c04k_polyI (kl.tb j) ct.ntt ((ct.polys.getD 0 #[]).getD j #[]))
              (c04k_polyI (kl.tb j) ct.ntt ((ct.polys.getD 1 #[]).getD j #[]))
              (c04k_polyI (kl.tb j) ct.ntt ((ct.polys.getD 2 #[]).getD j #[])) s c
            + c04k_nuStd kl dsz ct.ntt (ct.polys.getD 2 #[]) key e s c [ZMOD ((kl.m j).value : Int)] :=
  c04k_relin_of_switch keys fuel h3 hk (c04k_main_std h hmode hkcc (by omega) hke)

/-- `relinearize_phase`, BGV branch (ν = `c04k_nuBgv`, ≡ 0 mod t when t ∣ e: `switchKey_noise_bgv_mod_t`; `cf` unchanged) -/
theorem relinearize_phase_bgv {kl : KeyLevel} {dsz : Nat} {ct : Ct} {key : KSKey}
    (keys : Nat → Option KSKey) (fuel : Nat) (h3 : ct.polys.size = 3) (hk : keys 2 = some key)
    (h : c04t_KSInput kl dsz ct (ct.polys.getD 2 #[]) key) (hb : c04t_BgvData kl) (hntt : ct.ntt = true)
    (hkcc : (key.getD 0 #[]).size = 2)
    {s : Nat → Int} {e : Nat → Nat → Int} {G : Nat → Int}
    (hke : c04k_KeyEq kl dsz key s (fun p => negMulR kl.n s s p) e G) :
    ∃ ct'', relinearize kl .bgv dsz keys (fuel + 2) ct = .ok ct'' ∧ ct''.polys.size = 2 ∧ ct''.ntt = ct.ntt ∧
      ct''.cf = ct.cf ∧
      (∀ k, k < 2 → (ct''.polys.getD k #[]).size = dsz ∧ c04t_Canon kl dsz (ct''.polys.getD k #[])) ∧
      ∀ j, j < dsz → ∀ c, c < kl.n →
        c05u_phase2 kl.n (c04k_polyI (kl.tb j) ct.ntt ((ct''.polys.getD 0 #[]).getD j #[]))
            (c04k_polyI (kl.tb j) ct.ntt ((ct''.polys.getD 1 #[]).getD j #[])) s c
          ≡ c04k_phase3 kl.n (c04k_polyI (kl.tb j) ct.ntt ((ct.polys.getD 0 #[]).getD j #[]))
              (c04k_polyI (kl.tb j) ct.ntt ((ct.polys.getD 1 #[]).getD j #[]))
              (c04k_polyI (kl.tb j) ct.ntt ((ct.polys.getD 2 #[]).getD j #[])) s c
            + c04k_nuBgv kl dsz ct.ntt (ct.polys.getD 2 #[]) key e s c [ZMOD ((kl.m j).value : Int)] :=
  c04k_relin_of_switch keys fuel h3 hk (c04k_main_bgv h hb hntt hkcc (by omega) hke)

/-- `applyGalois_phase` (rounding branch: BFV coefficient form / CKKS NTT form).  `l` is the ciphertext level (`c04k_LevelOf`: its
    moduli are the first `l.size` key-level moduli), `g` an odd Galois element ≤ 2N, `key` a key from s' (= σ_g(s) for a Galois key)
    to s.  `applyGalois` succeeds and, with σ(c_k) = `c04k_galRns l ct.ntt g c_k` the component-wise Galois-permuted polynomials
    (coefficient form: exactly X ↦ X^g, `c04k_galRns_coeff`; NTT form: the table permutation `galoisApplyNtt`),
      phase_s(result) ≡ σ(c0) + σ(c1) ⋆ s' + ν   (mod q_j),   ν = `c04k_nuStd … (target := σ(c1))`. -/
theorem applyGalois_phase {kl : KeyLevel} {l : Level} (hl : c04k_LevelOf kl l) {scheme : Scheme} {ct : Ct} {key : KSKey}
    {g : Nat} (h : c04t_KSInput kl l.size ct (ct.polys.getD 1 #[]) key) (hmode : c04t_StdMode scheme ct.ntt)
    (h2 : ct.polys.size = 2) (hg : g % 2 = 1) (hg2 : g ≤ 2 * l.n) (hkcc : (key.getD 0 #[]).size = 2)
    {s s' : Nat → Int} {e : Nat → Nat → Int} {G : Nat → Int} (hke : c04k_KeyEq kl l.size key s s' e G) :
    ∃ ct', applyGalois kl l scheme ct g key = .ok ct' ∧ ct'.ntt = ct.ntt ∧ ct'.cf = ct.cf ∧ ct'.polys.size = 2 ∧
      (∀ k, k < 2 → (ct'.polys.getD k #[]).size = l.size ∧ c04t_Canon kl l.size (ct'.polys.getD k #[])) ∧
      ∀ j, j < l.size → ∀ c, c < kl.n →
        c05u_phase2 kl.n (c04k_polyI (kl.tb j) ct.ntt ((ct'.polys.getD 0 #[]).getD j #[]))
            (c04k_polyI (kl.tb j) ct.ntt ((ct'.polys.getD 1 #[]).getD j #[])) s c
          ≡ c04k_polyI (kl.tb j) ct.ntt ((c04k_galRns l ct.ntt g (ct.polys.getD 0 #[])).getD j #[]) c
            + negMulR kl.n (c04k_polyI (kl.tb j) ct.ntt ((c04k_galRns l ct.ntt g (ct.polys.getD 1 #[])).getD j #[])) s' c
            + c04k_nuStd kl l.size ct.ntt (c04k_galRns l ct.ntt g (ct.polys.getD 1 #[])) key e s c
              [ZMOD ((kl.m j).value : Int)] := by
  obtain ⟨ct', a1, a2, a3, a4, _, a6, a7⟩ := c04k_main_std (c04k_galois_input hl h hkcc hg) hmode hkcc (by simp) hke
  exact c04k_galois_of_switch hl h h2 hg hg2 hkcc ⟨ct', a1, a2, a3, by rw [a4]; simp, a6, a7⟩

/-- `applyGalois_phase`, BGV branch -/
theorem applyGalois_phase_bgv {kl : KeyLevel} {l : Level} (hl : c04k_LevelOf kl l) {ct : Ct} {key : KSKey}
    {g : Nat} (h : c04t_KSInput kl l.size ct (ct.polys.getD 1 #[]) key) (hb : c04t_BgvData kl) (hntt : ct.ntt = true)
    (h2 : ct.polys.size = 2) (hg : g % 2 = 1) (hg2 : g ≤ 2 * l.n) (hkcc : (key.getD 0 #[]).size = 2)
    {s s' : Nat → Int} {e : Nat → Nat → Int} {G : Nat → Int} (hke : c04k_KeyEq kl l.size key s s' e G) :
    ∃ ct', applyGalois kl l .bgv ct g key = .ok ct' ∧ ct'.ntt = ct.ntt ∧ ct'.cf = ct.cf ∧ ct'.polys.size = 2 ∧
      (∀ k, k < 2 → (ct'.polys.getD k #[]).size = l.size ∧ c04t_Canon kl l.size (ct'.polys.getD k #[])) ∧
      ∀ j, j < l.size → ∀ c, c < kl.n →
        c05u_phase2 kl.n (c04k_polyI (kl.tb j) ct.ntt ((ct'.polys.getD 0 #[]).getD j #[]))
            (c04k_polyI (kl.tb j) ct.ntt ((ct'.polys.getD 1 #[]).getD j #[])) s c
          ≡ c04k_polyI (kl.tb j) ct.ntt ((c04k_galRns l ct.ntt g (ct.polys.getD 0 #[])).getD j #[]) c
            + negMulR kl.n (c04k_polyI (kl.tb j) ct.ntt ((c04k_galRns l ct.ntt g (ct.polys.getD 1 #[])).getD j #[])) s' c
            + c04k_nuBgv kl l.size ct.ntt (c04k_galRns l ct.ntt g (ct.polys.getD 1 #[])) key e s c
              [ZMOD ((kl.m j).value : Int)] := by
  obtain ⟨ct', a1, a2, a3, a4, _, a6, a7⟩ :=
    c04k_main_bgv (c04k_galois_input hl h hkcc hg) hb hntt hkcc (by simp) hke
  exact c04k_galois_of_switch hl h h2 hg hg2 hkcc ⟨ct', a1, a2, a3, by rw [a4]; simp, a6, a7⟩

/-- `applyGalois_phase` in its final form: for a Galois key from s' = σ_g(s) to s (σ_g = `c04k_sigma n g`: X ↦ X^g on integer
    coefficient functions, multiplicative by `c04k_sigma_mul`), in BOTH representations (coefficient form via `galoisApply`, NTT form via
    `galoisApplyNtt` = `galoisApply` conjugated by the transform, `c04k_gal_ntt`):
      phase_s(result) ≡ σ_g(phase_s(ct)) + ν   (mod q_j),   phase_s(ct) = c0 + c1 ⋆ s. -/
theorem applyGalois_phase_sigma {kl : KeyLevel} {l : Level} (hl : c04k_LevelOf kl l) {scheme : Scheme} {ct : Ct} {key : KSKey}
    {g : Nat} (h : c04t_KSInput kl l.size ct (ct.polys.getD 1 #[]) key) (hmode : c04t_StdMode scheme ct.ntt)
    (h2 : ct.polys.size = 2) (hg : g % 2 = 1) (hg2 : g ≤ 2 * l.n) (hkcc : (key.getD 0 #[]).size = 2)
    {s s' : Nat → Int} {e : Nat → Nat → Int} {G : Nat → Int} (hke : c04k_KeyEq kl l.size key s s' e G)
    (hs' : ∀ p, p < kl.n → s' p = c04k_sigma kl.n g s p) :
    ∃ ct', applyGalois kl l scheme ct g key = .ok ct' ∧ ct'.ntt = ct.ntt ∧ ct'.cf = ct.cf ∧ ct'.polys.size = 2 ∧
      (∀ k, k < 2 → (ct'.polys.getD k #[]).size = l.size ∧ c04t_Canon kl l.size (ct'.polys.getD k #[])) ∧
      ∀ j, j < l.size → ∀ c, c < kl.n →
        c05u_phase2 kl.n (c04k_polyI (kl.tb j) ct.ntt ((ct'.polys.getD 0 #[]).getD j #[]))
            (c04k_polyI (kl.tb j) ct.ntt ((ct'.polys.getD 1 #[]).getD j #[])) s c
          ≡ c04k_sigma kl.n g (c05u_phase2 kl.n (c04k_polyI (kl.tb j) ct.ntt ((ct.polys.getD 0 #[]).getD j #[]))
              (c04k_polyI (kl.tb j) ct.ntt ((ct.polys.getD 1 #[]).getD j #[])) s) c
            + c04k_nuStd kl l.size ct.ntt (c04k_galRns l ct.ntt g (ct.polys.getD 1 #[])) key e s c
              [ZMOD ((kl.m j).value : Int)] := by
  obtain ⟨ct', a1, a2, a3, a4, a5, a6⟩ := applyGalois_phase hl h hmode h2 hg hg2 hkcc hke
  refine ⟨ct', a1, a2, a3, a4, a5, fun j hj c hc => ?_⟩
  refine Int.ModEq.trans (a6 j hj c hc) (Int.ModEq.add ?_ (Int.ModEq.refl _))
  exact c04k_sigma_phase hg _
    (c04k_galRns_sigma h.hkl hl h.hd ct.ntt hg (h.hct 0 (by rw [hkcc]; omega)) hj)
    (c04k_galRns_sigma h.hkl hl h.hd ct.ntt hg (h.hct 1 (by rw [hkcc]; omega)) hj) hs' hc

theorem applyGalois_phase_sigma_bgv {kl : KeyLevel} {l : Level} (hl : c04k_LevelOf kl l) {ct : Ct} {key : KSKey}
    {g : Nat} (h : c04t_KSInput kl l.size ct (ct.polys.getD 1 #[]) key) (hb : c04t_BgvData kl) (hntt : ct.ntt = true)
    (h2 : ct.polys.size = 2) (hg : g % 2 = 1) (hg2 : g ≤ 2 * l.n) (hkcc : (key.getD 0 #[]).size = 2)
    {s s' : Nat → Int} {e : Nat → Nat → Int} {G : Nat → Int} (hke : c04k_KeyEq kl l.size key s s' e G)
    (hs' : ∀ p, p < kl.n → s' p = c04k_sigma kl.n g s p) :
    ∃ ct', applyGalois kl l .bgv ct g key = .ok ct' ∧ ct'.ntt = ct.ntt ∧ ct'.cf = ct.cf ∧ ct'.polys.size = 2 ∧
      (∀ k, k < 2 → (ct'.polys.getD k #[]).size = l.size ∧ c04t_Canon kl l.size (ct'.polys.getD k #[])) ∧
      ∀ j, j < l.size → ∀ c, c < kl.n →
        c05u_phase2 kl.n (c04k_polyI (kl.tb j) ct.ntt ((ct'.polys.getD 0 #[]).getD j #[]))
            (c04k_polyI (kl.tb j) ct.ntt ((ct'.polys.getD 1 #[]).getD j #[])) s c
          ≡ c04k_sigma kl.n g (c05u_phase2 kl.n (c04k_polyI (kl.tb j) ct.ntt ((ct.polys.getD 0 #[]).getD j #[]))
              (c04k_polyI (kl.tb j) ct.ntt ((ct.polys.getD 1 #[]).getD j #[])) s) c
            + c04k_nuBgv kl l.size ct.ntt (c04k_galRns l ct.ntt g (ct.polys.getD 1 #[])) key e s c
              [ZMOD ((kl.m j).value : Int)] := by
  obtain ⟨ct', a1, a2, a3, a4, a5, a6⟩ := applyGalois_phase_bgv hl h hb hntt h2 hg hg2 hkcc hke
  refine ⟨ct', a1, a2, a3, a4, a5, fun j hj c hc => ?_⟩
  refine Int.ModEq.trans (a6 j hj c hc) (Int.ModEq.add ?_ (Int.ModEq.refl _))
  exact c04k_sigma_phase hg _
    (c04k_galRns_sigma h.hkl hl h.hd ct.ntt hg (h.hct 0 (by rw [hkcc]; omega)) hj)
    (c04k_galRns_sigma h.hkl hl h.hd ct.ntt hg (h.hct 1 (by rw [hkcc]; omega)) hj) hs' hc

/-- NON-VACUITY: the hypothesis bundles (`c04t_KSInput`, `c04k_KeyEq`, `c04k_BaseOf`, `c04t_BgvData`) hold on the concrete world
    `c04t_exKL` (N = 2, q = 13, P = 17, t = 5) with the genuine key `c04k_exKey` (s = 1 − X, s' = X, e = 1 − X), so the three branches
    of `switchKey_phase` and `applyGalois_phase` (with `c04k_LevelOf`, g = 3) apply there; the noise bound gives 17·|ν| ≤ 1·(13·(2·1)) + 8·(1 + 2) = 50, i.e. |ν| ≤ 2. -/
theorem switchKey_phase_nonvacuous :
    (∃ ct', switchKey c04t_exKL .bfv 1 (c04t_exCt false) c04t_exTarget c04k_exKey = .ok ct') ∧
    (∃ ct', switchKey c04t_exKL .ckks 1 (c04t_exCt true) c04t_exTarget c04k_exKey = .ok ct') ∧
    (∃ ct', switchKey c04t_exKL .bgv 1 (c04t_exCt true) c04t_exTarget c04k_exKey = .ok ct') ∧
    (∃ ct', applyGalois c04t_exKL c04k_exLevel .bfv (c04t_exCt false) 3 c04k_exKey = .ok ct') ∧
    (∃ ct', applyGalois c04t_exKL c04k_exLevel .bgv (c04t_exCt true) 3 c04k_exKey = .ok ct') ∧
    (∀ fuel keys, keys 2 = some c04k_exRelinKey →
      ∃ ct', relinearize c04t_exKL .bfv 1 keys (fuel + 2) (c04k_exCt3 false) = .ok ct') ∧
    (∀ fuel keys, keys 2 = some c04k_exRelinKey →
      ∃ ct', relinearize c04t_exKL .bgv 1 keys (fuel + 2) (c04k_exCt3 true) = .ok ct') ∧
    (∃ ct', switchKey c04t_exKL .bfv 1 (c04t_exCt false) c04t_exTarget c04k_exKey = .ok ct' ∧ ∀ c, c < 2 →
      (Spec.phase (c01p_bvals c04k_exBase) 2 #[1, -1] [c04k_coefRns c04t_exKL 1 false (ct'.polys.getD 0 #[]),
          c04k_coefRns c04t_exKL 1 false (ct'.polys.getD 1 #[])]).getD c 0 ≡
        (Spec.phase (c01p_bvals c04k_exBase) 2 #[1, -1] [c04k_coefRns c04t_exKL 1 false ((c04t_exCt false).polys.getD 0 #[]),
          c04k_coefRns c04t_exKL 1 false ((c04t_exCt false).polys.getD 1 #[])]).getD c 0
        + negMulR 2 (fun i => (Spec.crtPoly (c01p_bvals c04k_exBase) (c04k_coefRns c04t_exKL 1 false c04t_exTarget) 2).getD i 0)
            c04k_exS' c
        + c04k_nuStd c04t_exKL 1 false c04t_exTarget c04k_exKey c04k_exE (fun p => (#[1, -1] : Array Int).getD p 0) c
          [ZMOD (c04k_exBase.prod : Int)]) ∧
    (∀ c, c < 2 → (c04k_nuStd c04t_exKL 1 false c04t_exTarget c04k_exKey c04k_exE c04k_exS c).natAbs * c04t_exKL.c04t_P
      ≤ 1 * (13 * (2 * 1)) + c04t_exKL.c04t_P / 2 * (1 + ∑ p ∈ range 2, (c04k_exS p).natAbs)) ∧
    c04k_BaseOf c04t_exKL 1 c04k_exBase := by
  obtain ⟨_, v13⟩ := c04t_exMod_wf (v := 13) (by decide) (by decide)
  refine ⟨(switchKey_phase (c04k_exKSInput false) (Or.inl ⟨rfl, rfl⟩) rfl (by decide) c04k_exKeyEq).imp fun _ h => h.1,
    (switchKey_phase (c04k_exKSInput true) (Or.inr ⟨rfl, rfl⟩) rfl (by decide) c04k_exKeyEq).imp fun _ h => h.1,
    (switchKey_phase_bgv (c04k_exKSInput true) c04t_exBgvData rfl rfl (by decide) c04k_exKeyEq).imp fun _ h => h.1,
    (applyGalois_phase c04k_exLevelOf (c04k_exKSInput' false) (Or.inl ⟨rfl, rfl⟩) rfl (by decide) (by decide) rfl
      c04k_exKeyEq).imp fun _ h => h.1,
    (applyGalois_phase_bgv c04k_exLevelOf (c04k_exKSInput' true) c04t_exBgvData rfl rfl (by decide) (by decide) rfl
      c04k_exKeyEq).imp fun _ h => h.1,
    fun fuel keys hk => (relinearize_phase keys fuel rfl hk (c04k_exKSInput3 false) (Or.inl ⟨rfl, rfl⟩) rfl
      c04k_exRelinKeyEq).imp fun _ h => h.1,
    fun fuel keys hk => (relinearize_phase_bgv keys fuel rfl hk (c04k_exKSInput3 true) c04t_exBgvData rfl rfl
      c04k_exRelinKeyEq).imp fun _ h => h.1,
    switchKey_phase_spec (c04k_exKSInput false) (Or.inl ⟨rfl, rfl⟩) rfl (by decide) (c04k_exS_eq ▸ c04k_exKeyEq)
      c04k_exBaseOf,
    ?_, c04k_exBaseOf⟩
  exact switchKey_noise_bound (c04k_exKSInput false) c04k_exKeyEq (A := 13) (Be := 1)
    (fun i hi => by interval_cases i; exact le_of_eq v13)
    (fun i _ p _ => by unfold c04k_exE; split <;> [decide; (split <;> decide)])

end HC
