/-
  Translator phase 4i, second round: `SecretKey` (a wrapper over `Plaintext`), the SIZE functions of `PublicKey`, the context-dependent
  `Vec<I>`, `KSwitchKeys` / `RelinKeys` / `GaloisKeys`, "announced size = bytes written" for key sets from the source, and the
  statements about the compact ciphertext reader.  Helper prefix `gs2_`.
-/
import Heathcliff.Proofs.GenSerM
import Heathcliff.Proofs.C14S
namespace HC.GS
open HC HC.Codec HC.GenS

variable {S E : Type}

/-! ### SecretKey -/
theorem gs2_sk_serialize (st : WStream S E) (p : Plain) : sk_serialize st p = plain_serialize st p := rfl
theorem gs2_sk_size (p : Plain) : sk_serialized_size p = plain_serialized_size p := rfl
theorem gs2_sk_deserialize : sk_deserialize = plain_deserialize := by
  funext bs
  simp only [sk_deserialize, rbind, rpure]
  cases plain_deserialize bs with
  | error e => rfl
  | ok p => rfl

/-- `SecretKey`: generated writer / reader / size = those of its plaintext, hence = `plainC` (source round trip included) -/
theorem c14g_secret_key (p : Plain) (hv : plainC.valid p) (hl : p.pid.length = 4) (rest : Bytes) :
    sk_serialize idealStream p [] = (.ok (plainC.enc p).length, plainC.enc p) ∧
    sk_deserialize ((sk_serialize idealStream p []).2 ++ rest) = .ok (p, rest) ∧
    sk_serialized_size p = (plainC.enc p).length := by
  have hw := gs_ideal plainC p _ (gs_plain_serialize idealStream p hl) []
  refine ⟨by rw [gs2_sk_serialize, hw]; rfl, ?_, ?_⟩
  · rw [gs2_sk_deserialize, gs2_sk_serialize]; exact c14g_plain_source_round_trip p hv hl rest
  · rw [gs2_sk_size, gr_plain_size, plainC_lawful.len p hv, c14s_plainC_size p hv]

/-! ### sizes of the key containers -/

theorem gs2_cvec_size_loop {α β} (item : α → R Nat) (c : Codec β) (vs : List α) (xs : List β)
    (h : List.Forall₂ (fun v x => item v = .ok (c.size x)) vs xs) (acc : Nat) :
    cvec_serialized_size_loop1 item vs acc = .ok (acc + seqSize (List.replicate xs.length c) xs) := by
  induction h generalizing acc with
  | nil => simp [cvec_serialized_size_loop1, seqSize, ppure]
  | cons hx _ ih =>
    simp only [cvec_serialized_size_loop1, hx, pbind, ih, List.length_cons, List.replicate_succ, seqSize, Nat.add_assoc]

theorem gs2_cvec_size {α β} (item : α → R Nat) (c : Codec β) (vs : List α) (xs : List β)
    (h : List.Forall₂ (fun v x => item v = .ok (c.size x)) vs xs) :
    cvec_serialized_size item vs = .ok ((vecC c).size xs) := by
  have hc : (vecC c).size xs = 8 + seqSize (List.replicate xs.length c) xs := rfl
  simp only [cvec_serialized_size, gs2_cvec_size_loop item c vs xs h, pbind, ppure, usize_serialized_size, Nat.zero_add, hc]

/-- `PublicKey::serialized_size` on the view of a valid model ciphertext = the model's `size` (through the closed form) -/
theorem gs2_pk_size (ctx : Ctx) (expand : List Nat → Level → Poly) (v : CtV) (x : Ct) (h : PkView ctx v x)
    (hv : (ctC ctx expand).valid x) : pk_serialized_size ctx v = .ok ((ctC ctx expand).size x) := by
  obtain ⟨lv, hf, hq, _, _, _, rfl⟩ := h
  have hlv : (ctx.find x.pid).getD noLevel = lv := by rw [hf]; rfl
  have hs := gr_ct_size ctx lv (ctvOfCt lv x) hf hq
  rw [HC.Codec.c14s_SizeClosedFormStatement_proof ctx expand x hv, hlv]
  simp only [pk_serialized_size, hs, pbind, ppure]
  rfl

/-- a view of a VALID model key -/
def PkViewV (ctx : Ctx) (expand : List Nat → Level → Poly) (v : CtV) (x : Ct) : Prop := PkView ctx v x ∧ (ctC ctx expand).valid x

theorem gs2_kswitch_size (ctx : Ctx) (expand : List Nat → Level → Poly) (kv : KSwitch CtV) (k : KSwitch Ct)
    (hpid : kv.pid = k.pid) (hl : k.pid.length = 4)
    (hkeys : List.Forall₂ (List.Forall₂ (PkViewV ctx expand)) kv.keys k.keys) :
    kswitch_serialized_size ctx kv = .ok ((kswitchC (ctC ctx expand)).size k) ∧
    relin_serialized_size ctx kv = kswitch_serialized_size ctx kv ∧ galois_serialized_size ctx kv = kswitch_serialized_size ctx kv := by
  have hin : List.Forall₂ (fun vs xs => cvec_serialized_size (pk_serialized_size ctx) vs = .ok ((vecC (ctC ctx expand)).size xs))
      kv.keys k.keys :=
    gk_forall₂_imp (fun vs xs h => gs2_cvec_size _ (ctC ctx expand) vs xs
      (gk_forall₂_imp (fun v x hv => gs2_pk_size ctx expand v x hv.1 hv.2) h)) hkeys
  have hv := gs2_cvec_size (cvec_serialized_size (pk_serialized_size ctx)) (vecC (ctC ctx expand)) kv.keys k.keys hin
  have hc : (kswitchC (ctC ctx expand)).size k = pidC.size k.pid + (vecC (vecC (ctC ctx expand))).size k.keys := rfl
  have hp : pidC.size k.pid = 32 := by
    match hk : k.pid, hl with
    | [a, b, c, d], _ => rfl
  refine ⟨?_, ?_, ?_⟩
  · simp only [kswitch_serialized_size, hv, pbind, ppure, pid_serialized_size, Nat.zero_add, hc, hp]
  · simp only [relin_serialized_size, pbind, ppure]; cases kswitch_serialized_size ctx kv <;> rfl
  · simp only [galois_serialized_size, pbind, ppure]; cases kswitch_serialized_size ctx kv <;> rfl

/-- C14 for key sets, FROM THE SOURCE: the size the generated `serialized_size` announces = the count the generated writer returns = the
    number of bytes it puts on the wire (= `|kswitchC.enc|`); bytes consumed by a reader: see the notes (no ciphertext-reader tie yet) -/
theorem c14g_kswitch_announced_eq_written (ctx : Ctx) (expand : List Nat → Level → Poly) (kv : KSwitch CtV) (k : KSwitch Ct)
    (hvk : (kswitchC (ctC ctx expand)).valid k)
    (hpid : kv.pid = k.pid) (hl : k.pid.length = 4)
    (hkeys : List.Forall₂ (List.Forall₂ (PkViewV ctx expand)) kv.keys k.keys) :
    ∃ n, kswitch_serialized_size ctx kv = .ok n ∧ (kswitch_serialize idealStream ctx kv []).1 = .ok n ∧
      ((kswitch_serialize idealStream ctx kv []).2).length = n := by
  have hk' : List.Forall₂ (List.Forall₂ (PkView ctx)) kv.keys k.keys :=
    gk_forall₂_imp (fun _ _ h => gk_forall₂_imp (fun _ _ hv => hv.1) h) hkeys
  have hw := (c14g_kswitch_serialize ctx expand kv k hpid hl hk' []).1
  have hs := (gs2_kswitch_size ctx expand kv k hpid hl hkeys).1
  have hlen := (kswitchC_lawful _ (ctC_lawful ctx expand)).len k hvk
  exact ⟨_, hs, by rw [hw, hlen], by rw [hw]; simpa using hlen⟩

/-! ### the compact ciphertext reader: what is proved, and what is only stated -/

/-- PROVED (partial): the generated compact `Ciphertext::deserialize` answers `UnexpectedEof` on every strict prefix of ANY stream it
    accepts completely — no panic of its windows / `chunks_mut` / indexed stores / `unwrap` can fire on a truncation -/
theorem c15g_ct_reader_truncation_partial (expand : List Nat → Level → List Nat) (ctx : Ctx) (e : Bytes) (v : CtFlat)
    (h : ct_deserialize expand ctx e = .ok (v, [])) (k : Nat) (hk : k < e.length) :
    ∃ s, ct_deserialize expand ctx (e.take k) = .error (.eof s) :=
  gm_truncation _ (gm_ct_deserialize expand ctx) e v h k hk

/-- the flat record of a structured model ciphertext -/
def flatOfCt (lv : Level) (c : Ct) : CtFlat :=
  ⟨c.size, lv.moduli.length, lv.n, (c.polys.map List.flatten).flatten, c.pid, c.scale, c.cf, c.ntt⟩

/-- NOT PROVED (statement only): the compact reader accepts every valid encoding and returns the model's round-trip value.  Together
    with `c15g_ct_reader_truncation_partial` this gives the truncation clause for the compact format. -/
def GenCtSourceRoundTripStatement : Prop :=
  ∀ (ctx : Ctx) (expand : List Nat → Level → Poly) (c : Ct) (lv : Level) (rest : Bytes),
    (ctC ctx expand).valid c → ctx.find c.pid = some lv → (∀ q ∈ lv.moduli, q < 2 ^ 64) → 0 < lv.n → 0 < lv.moduli.length →
    (c.seeded = true → c.size = 2 ∧ 9 ≤ lv.moduli.length * lv.n) → CtShape lv c → (∀ b ∈ rest, b < 256) →
    ct_deserialize (fun s l => (expand s l).flatten) ctx ((ctC ctx expand).enc c ++ rest)
      = .ok (flatOfCt lv ((ctC ctx expand).norm c), rest)

end HC.GS
