/- C01 part E, non-vacuity (split off `C01E.lean` so that the general theorems there do not import the NonVac world):
   the NonVac world N = 4, q = {97, 113} (Q = 10961), t = 17, γ = 2305843009213693561, secret s = 1 − X + X³, with a GENUINE public key
   computed by the model's own key generation (`encryptZeroSym … (ntt := true)` with error 1 − 2X + 3X³), ternary u, errors, plaintext.
   All hypotheses of `bfv_encrypt_decrypt_pk` and `bfv_encrypt_decrypt_sk` hold simultaneously. -/
import Heathcliff.Proofs.C01E
import Heathcliff.Proofs.NonVac
namespace HC
open Finset

attribute [local instance] nv_decRnsCanon nv_decWFOp nv_decModWF

theorem c01e_exDecOK : DecOK nv_level := by
  refine c01p_decOK_of_new (l := nv_level) (q := nv_base) (aux := [nv_a0, nv_a1, nv_a2, nv_a3]) ?_ (by decide) nv_m17_wf ?_
    nv_base_new nv_tool_new
  · intro m hm
    have : m = nv_m97 ∨ m = nv_m113 := by simpa [nv_level] using hm
    rcases this with rfl | rfl
    · exact nv_m97_wf
    · exact nv_m113_wf
  · intro m hm
    simp only [List.mem_cons, List.not_mem_nil, or_false] at hm
    rcases hm with rfl | rfl | rfl | rfl
    · exact (Modulus.mk?_wf nv_aux_mk.1 (by decide)).1
    · exact (Modulus.mk?_wf nv_aux_mk.2.1 (by decide)).1
    · exact (Modulus.mk?_wf nv_aux_mk.2.2.1 (by decide)).1
    · exact (Modulus.mk?_wf nv_aux_mk.2.2.2 (by decide)).1

/-- Harvey operands of ⌊Q/t⌋ = 644 modulo 97 and 113 -/
def c01e_exCdp : Array MulOperand := #[⟨62, 11790702397628785568⟩, ⟨79, 12896396299319067058⟩]

theorem c01e_exQ : Spec.prodL (c01p_qvals nv_level) = 10961 := by decide +kernel

theorem c01e_exScalingOK : ScalingOK nv_level (Spec.prodL (c01p_qvals nv_level)) c01e_exCdp := by
  rw [c01e_exQ]
  refine ⟨fun j hj => ?_, by decide, by decide, by decide, fun j hj => ?_⟩
  · have : j < 2 := hj
    interval_cases j
    · exact nv_m97_wf
    · exact nv_m113_wf
  · have : j < 2 := hj
    interval_cases j <;> exact ⟨by decide +kernel, by decide +kernel⟩

/-- the public key the model's key generation produces from the mask a (NTT form) and the error 1 − 2X + 3X³ -/
def c01e_exPk0 : RnsPoly := #[#[6, 48, 62, 71], #[97, 57, 81, 90]]
def c01e_exPk1 : RnsPoly := #[#[1, 95, 50, 2], #[110, 0, 9, 64]]
def c01e_exE : Array Int := #[1, -2, 0, 3]

theorem c01e_exPk_generated :
    (encryptZeroSym nv_level nv_sk c01e_exPk1 (rnsOfInt nv_level c01e_exE) true false).toOption.map (fun c => (c.polys, c.ntt, c.cf))
      = some (#[c01e_exPk0, c01e_exPk1], true, 1) := by
  decide +kernel

theorem c01e_exPkRel : PkRel nv_level nv_sk (fun p => c01e_exE.getD p 0) c01e_exPk0 c01e_exPk1 := by
  unfold PkRel PreCanon
  decide +kernel

def c01e_exU : Array Int := #[1, 0, -1, 1]
def c01e_exE0 : Array Int := #[-3, 21, 0, 2]
def c01e_exE1 : Array Int := #[4, -21, 1, 0]
def c01e_exPlain : Poly := #[3, 16, 0, 9]

theorem c01e_exFreshEncOK : FreshEncOK nv_level (21 * (2 * nv_level.n + 1)) := by
  unfold FreshEncOK
  decide +kernel

/-- NON-VACUITY of `bfv_encrypt_decrypt_pk`: every hypothesis holds for the concrete world, hence its conclusion -/
theorem c01e_pk_hypotheses_satisfiable :
    ∃ ct, bfvEncrypt nv_level c01e_exCdp (Spec.prodL (c01p_qvals nv_level) % nv_level.t.value) ((nv_level.t.value + 1) / 2)
        (.asym none #[c01e_exPk0, c01e_exPk1] (rnsOfInt nv_level c01e_exU)
          #[rnsOfInt nv_level c01e_exE0, rnsOfInt nv_level c01e_exE1]) c01e_exPlain = .ok ct ∧
      bfvDecrypt nv_level nv_sk ct = .ok (trimPlain (padPlain nv_level.n c01e_exPlain)) :=
  bfv_encrypt_decrypt_pk nv_level_wf c01e_exDecOK rfl c01e_exScalingOK (by rfl) (by decide) c01e_exPkRel (by decide)
    (by rfl) (by rfl) (by rfl) (by decide) (by decide) (by decide) (by decide) (by decide) c01e_exFreshEncOK

/-- NON-VACUITY of `bfv_encrypt_decrypt_sk` (both without and with a saved seed; error bound 21) -/
theorem c01e_sk_hypotheses_satisfiable (saveSeed : Bool) :
    ∃ ct, bfvEncrypt nv_level c01e_exCdp (Spec.prodL (c01p_qvals nv_level) % nv_level.t.value) ((nv_level.t.value + 1) / 2)
        (.sym nv_sk c01e_exPk1 (rnsOfInt nv_level c01e_exE0) saveSeed) c01e_exPlain = .ok ct ∧
      bfvDecrypt nv_level nv_sk ct = .ok (trimPlain (padPlain nv_level.n c01e_exPlain)) :=
  bfv_encrypt_decrypt_sk nv_level_wf c01e_exDecOK rfl c01e_exScalingOK (by rfl) (by decide +kernel) (by rfl) (B := 21) (by decide)
    saveSeed (by decide) (by decide)
    (by have := c01e_exFreshEncOK; unfold FreshEncOK at this ⊢; have h : nv_level.t.value * (21 + 1) ≤ nv_level.t.value * (21 * (2 * nv_level.n + 1) + 1) := Nat.mul_le_mul_left _ (by decide); have := Nat.mul_le_mul_left (2 * nv_level.tool.gamma.value) h; omega)

/-- the decrypted value is the plaintext itself (no trailing zeros to trim here) -/
example : trimPlain (padPlain nv_level.n c01e_exPlain) = #[3, 16, 0, 9] := by decide +kernel

end HC
