/- C13 helper proofs: soundness of `validate`, the error ladder, the per-level constants, the id pre-image. -/
import Heathcliff.Model.Context
import Heathcliff.Spec.Context
import Heathcliff.Proofs.C08A
import Heathcliff.Proofs.C08B
import Mathlib.Tactic.Linarith
import Mathlib.Tactic.SplitIfs
import Mathlib.Data.Nat.GCD.Basic
import Mathlib.Data.Nat.Log
import Mathlib.Data.List.Basic
import Mathlib.Tactic.Ring
namespace HC.Ctx
open HC

/-! ### id pre-image -/

theorem schemeCode_injective : ∀ a b : Scheme, a.code = b.code → a = b := by
  intro a b h; cases a <;> cases b <;> simp [Gen.SchemeType.code] at h <;> rfl

theorem preimage_injective {p p' : Params} (h : p.preimage = p'.preimage) :
    p.scheme = p'.scheme ∧ p.n = p'.n ∧ p.q = p'.q ∧ p.t = p'.t := by
  simp only [Params.preimage, List.cons.injEq] at h
  obtain ⟨h1, h2, h3⟩ := h
  have h4 := List.append_inj' h3 rfl
  refine ⟨schemeCode_injective _ _ h1, h2, h4.1, ?_⟩
  simpa using h4.2

/-! ### small arithmetic facts -/

theorem powerOfTwo?_some {n k : Nat} (h : powerOfTwo? n = some k) : n = 2^k ∧ n ≠ 0 := by
  unfold powerOfTwo? at h
  split_ifs at h with h0 h1
  simp only [Option.some.injEq] at h
  subst h; exact ⟨h1.symm, h0⟩

theorem powerOfTwo?_none {n : Nat} (h : powerOfTwo? n = none) : ¬ ∃ e, n = 2^e := by
  unfold powerOfTwo? at h
  rintro ⟨e, rfl⟩
  split_ifs at h with h0 h1
  · exact absurd h0 (by positivity)
  · exact h1 (by rw [Nat.log2_two_pow])

theorem sub_one_mod_iff {q m : Nat} (hq : 1 ≤ q) (hm : 2 ≤ m) : (q - 1) % m = 0 ↔ q % m = 1 := by
  constructor
  · intro h
    obtain ⟨j, hj⟩ := Nat.dvd_of_mod_eq_zero h
    have : q = m * j + 1 := by omega
    rw [this, Nat.mul_add_mod, Nat.mod_eq_of_lt (by omega)]
  · intro h
    have := Nat.div_add_mod q m
    have : q - 1 = m * (q / m) := by omega
    rw [this, Nat.mul_mod_right]

theorem bitOk_iff {q : Nat} :
    ¬ (q / 2^Gen.HE_USER_MOD_BIT_COUNT_MAX > 0 ∨ q / 2^(Gen.HE_USER_MOD_BIT_COUNT_MIN - 1) = 0) ↔ 2 ≤ q ∧ q < 2^60 := by
  simp only [Gen.HE_USER_MOD_BIT_COUNT_MAX, Gen.HE_USER_MOD_BIT_COUNT_MIN]
  constructor
  · intro h
    push Not at h
    obtain ⟨h1, h2⟩ := h
    have h1' : q / 2^60 = 0 := by omega
    rw [Nat.div_eq_zero_iff] at h1'
    constructor
    · by_contra hc
      apply h2
      have : q < 2 := by omega
      simp; omega
    · rcases h1' with h | h
      · exact absurd h (by norm_num)
      · exact h
  · rintro ⟨h1, h2⟩
    push Not
    constructor
    · have : q / 2^60 = 0 := Nat.div_eq_of_lt h2
      omega
    · simp; omega

theorem gcdU64_coprime_iff {x y : Nat} (hx : x < 2^64) (hy : y < 2^64) (hx0 : 0 < x) :
    gcdU64 x y ≤ 1 ↔ Nat.Coprime x y := by
  rw [gcdU64_exact hx hy]
  have := Nat.gcd_pos_of_pos_left y hx0
  unfold Nat.Coprime; omega

theorem pairwiseCoprimeB_iff : ∀ (l : List Nat), (∀ q ∈ l, 0 < q ∧ q < 2^64) →
    (pairwiseCoprimeB l = true ↔ l.Pairwise Nat.Coprime)
  | [], _ => by simp [pairwiseCoprimeB]
  | x :: xs, h => by
    have hx := h x (by simp)
    have ih := pairwiseCoprimeB_iff xs (fun q hq => h q (by simp [hq]))
    simp only [pairwiseCoprimeB, Bool.and_eq_true, List.all_eq_true, decide_eq_true_eq, List.pairwise_cons, ih]
    constructor
    · rintro ⟨h1, h2⟩
      exact ⟨fun y hy => (gcdU64_coprime_iff hx.2 (h y (by simp [hy])).2 hx.1).1 (h1 y hy), h2⟩
    · rintro ⟨h1, h2⟩
      exact ⟨fun y hy => (gcdU64_coprime_iff hx.2 (h y (by simp [hy])).2 hx.1).2 (h1 y hy), h2⟩

/-! ### structure of a successful validation -/

theorem ctx2_err (p : Params) (sec : SecLevel) : (ctx2 p sec).err = .Success := rfl

theorem validate_success {isPrime : Nat → Bool} {p : Params} {sec : SecLevel} {c : ContextData}
    (h : validate isPrime p sec = .ok c) (hs : c.err = .Success) :
    p.scheme ≠ .None ∧ (1 ≤ p.q.length ∧ p.q.length ≤ 64) ∧ (∀ q ∈ p.q, 2 ≤ q ∧ q < 2^60) ∧
    (2 ≤ p.n ∧ p.n ≤ 131072) ∧ p.q.length * p.n < B64 ∧
    (sec = .None ∨ bitCount (prodL p.q) ≤ maxBitCount p.n sec) ∧
    ∃ kp, powerOfTwo? p.n = some kp ∧ validateTail isPrime p kp (prodL p.q) (ctx2 p sec) = .ok c := by
  unfold validate at h
  simp only [] at h
  split at h
  · cases h; simp at hs
  rename_i h1
  split at h
  · cases h; simp at hs
  rename_i h2
  split at h
  · cases h; simp at hs
  rename_i h3
  split at h
  · cases h; simp at hs
  rename_i h4
  split at h
  · cases h; simp at hs
  rename_i kp hkp
  split at h
  · cases h; simp at hs
  rename_i h5
  split at h
  · cases h; simp at hs
  rename_i h6
  refine ⟨h1, ?_, ?_, ?_, ?_, ?_, kp, hkp, h⟩
  · simp only [Gen.HE_COEFF_MOD_COUNT_MAX, Gen.HE_COEFF_MOD_COUNT_MIN] at h2; omega
  · intro q hq
    rw [← bitOk_iff]
    intro hc
    apply h3
    rw [List.any_eq_true]
    exact ⟨q, hq, by simpa using hc⟩
  · simp only [Gen.HE_POLY_MOD_DEGREE_MIN, Gen.HE_POLY_MOD_DEGREE_MAX] at h4; omega
  · omega
  · by_cases hsec : sec = .None
    · exact Or.inl hsec
    · right; by_contra hc; exact h6 ⟨by omega, hsec⟩

/-- decomposition used by `validateBfv`: identity for one modulus, residues otherwise -/
def decomp (qs : List Nat) (v : Nat) : List Nat := if qs.length > 1 then qs.map (fun q => v % q) else fromNat qs.length v

theorem validateBfv_cases {isPrime : Nat → Bool} {c c' : ContextData} {kp Q : Nat} {ok : Bool}
    (h : validateBfv isPrime c kp Q = .ok (c', ok)) :
    (ok = false ∧ c'.err ≠ .Success ∧
      ((c.parms.t / 2^Gen.HE_PLAIN_MOD_BIT_COUNT_MAX > 0 ∨ c.parms.t / 2^(Gen.HE_PLAIN_MOD_BIT_COUNT_MIN - 1) = 0) ∧ c' = { c with err := .InvalidPlainModulusBitCount } ∨
       ¬(c.parms.t / 2^Gen.HE_PLAIN_MOD_BIT_COUNT_MAX > 0 ∨ c.parms.t / 2^(Gen.HE_PLAIN_MOD_BIT_COUNT_MIN - 1) = 0) ∧
         (c.parms.q.any (fun q => gcdU64 q c.parms.t > 1) = true ∧ c' = { c with err := .InvalidPlainModulusCoprimality } ∨
          c.parms.q.any (fun q => gcdU64 q c.parms.t > 1) = false ∧ ¬ c.parms.t < Q ∧ c' = { c with err := .InvalidPlainModulusTooLarge }))) ∨
    (ok = true ∧
      ¬(c.parms.t / 2^Gen.HE_PLAIN_MOD_BIT_COUNT_MAX > 0 ∨ c.parms.t / 2^(Gen.HE_PLAIN_MOD_BIT_COUNT_MIN - 1) = 0) ∧
      c.parms.q.any (fun q => gcdU64 q c.parms.t > 1) = false ∧ c.parms.t < Q ∧
      ∃ cdp puhi,
        ((decomp c.parms.q (Q / c.parms.t)).zip c.parms.q).mapM (fun xq => do
            let m ← Modulus.mk? xq.2
            MulOperand.new xq.1 m) = .ok cdp ∧
        (if c.parms.q.all (fun q => !(q ≤ c.parms.t)) then c.parms.q.mapM (fun q => ckSub q c.parms.t)
         else pure (fromNat c.parms.q.length (Q - c.parms.t))) = .ok puhi ∧
        c' = { c with batching := nttOk isPrime kp c.parms.t, fastLift := c.parms.q.all (fun q => !(q ≤ c.parms.t)),
                      coeffDivPlain := cdp, upperHalfIncrement := decomp c.parms.q (Q % c.parms.t),
                      qModT := (fromNat c.parms.q.length (Q % c.parms.t)).headD 0,
                      plainUpperHalfThreshold := (c.parms.t + 1) / 2, plainUpperHalfIncrement := puhi }) := by
  unfold validateBfv at h
  simp only [] at h
  split at h
  · rename_i h1
    cases h
    exact Or.inl ⟨rfl, by simp, Or.inl ⟨h1, rfl⟩⟩
  rename_i h1
  split at h
  · rename_i h2
    cases h
    exact Or.inl ⟨rfl, by simp, Or.inr ⟨h1, Or.inl ⟨h2, rfl⟩⟩⟩
  rename_i h2
  split at h
  · rename_i h3
    cases h
    refine Or.inl ⟨rfl, by simp, Or.inr ⟨h1, Or.inr ⟨by simpa using h2, by simpa using h3, rfl⟩⟩⟩
  rename_i h3
  simp only [bind, Except.bind] at h
  split at h
  · cases h
  rename_i cdp hcdp
  split at h
  · rename_i hf
    split at h
    · cases h
    rename_i puhi hpuhi
    simp only [pure, Except.pure, Except.ok.injEq, Prod.mk.injEq] at h
    obtain ⟨h4, h5⟩ := h
    refine Or.inr ⟨h5.symm, h1, by simpa using h2, by simpa using h3, cdp, puhi, ?_, ?_, ?_⟩
    · simpa [decomp, bind, Except.bind] using hcdp
    · rw [if_pos hf]; exact hpuhi
    · rw [← h4]; simp [decomp, hf]
  · rename_i hf
    simp only [pure, Except.pure, Except.ok.injEq, Prod.mk.injEq] at h
    obtain ⟨h4, h5⟩ := h
    refine Or.inr ⟨h5.symm, h1, by simpa using h2, by simpa using h3, cdp, fromNat c.parms.q.length (Q - c.parms.t), ?_, ?_, ?_⟩
    · simpa [decomp, bind, Except.bind] using hcdp
    · rw [if_neg hf]; rfl
    · rw [← h4]; simp [decomp, hf]

theorem validateCkks_cases {c c' : ContextData} {Q : Nat} {ok : Bool}
    (h : validateCkks c Q = .ok (c', ok)) :
    (ok = false ∧ c.parms.t ≠ 0 ∧ c' = { c with err := .InvalidPlainModulusNonzero }) ∨
    (ok = true ∧ c.parms.t = 0 ∧ ∃ puhi,
        c.parms.q.mapM (fun q => do
          let m ← Modulus.mk? q
          let tmp ← barrett64 (2^63) m
          let qm2 ← ckSub q 2
          mulMod tmp qm2 m) = .ok puhi ∧
        c' = { c with batching := true, fastLift := false, plainUpperHalfThreshold := 2^63, plainUpperHalfIncrement := puhi,
                      upperHalfThreshold := fromNat c.parms.q.length (((Q + 1) % B64^c.parms.q.length) / 2) }) := by
  unfold validateCkks at h
  simp only [] at h
  split at h
  · rename_i h1
    cases h
    exact Or.inl ⟨rfl, h1, rfl⟩
  rename_i h1
  simp only [bind, Except.bind] at h
  split at h
  · cases h
  rename_i puhi hpuhi
  simp only [pure, Except.pure, Except.ok.injEq, Prod.mk.injEq] at h
  obtain ⟨h4, h5⟩ := h
  refine Or.inr ⟨h5.symm, by simpa using h1, puhi, ?_, h4.symm⟩
  simpa [bind, Except.bind] using hpuhi

theorem schemeStep_false {isPrime : Nat → Bool} {p : Params} {kp Q : Nat} {c c' : ContextData}
    (h : schemeStep isPrime p kp Q c = .ok (c', false)) : c'.err ≠ .Success := by
  unfold schemeStep at h
  split at h
  · rcases validateBfv_cases h with ⟨_, h2, _⟩ | ⟨h1, _⟩
    · exact h2
    · cases h1
  · rcases validateBfv_cases h with ⟨_, h2, _⟩ | ⟨h1, _⟩
    · exact h2
    · cases h1
  · rcases validateCkks_cases h with ⟨_, _, h3⟩ | ⟨h1, _⟩
    · subst h3; simp
    · cases h1
  · simp only [pure, Except.pure, Except.ok.injEq, Prod.mk.injEq] at h
    rw [← h.1]; simp

theorem validateTail_success {isPrime : Nat → Bool} {p : Params} {kp Q : Nat} {c0 c : ContextData}
    (h : validateTail isPrime p kp Q c0 = .ok c) (hs : c.err = .Success) :
    rnsBaseNew p.q = .ok true ∧ p.q.all (nttOk isPrime kp) = true ∧
    ∃ c', schemeStep isPrime p kp Q c0 = .ok (c', true) ∧ rnsToolNew isPrime p.n p.q p.t = .ok true ∧
      c = { c' with descending := descendingB p.q } := by
  unfold validateTail at h
  cases hb : rnsBaseNew p.q with
  | error e => simp [hb, bind, Except.bind] at h
  | ok b =>
    cases b with
    | false => simp [hb, bind, Except.bind, pure, Except.pure] at h; subst h; simp at hs
    | true =>
      simp only [hb, bind, Except.bind, Bool.not_true, Bool.false_eq_true, if_false] at h
      by_cases hn : p.q.all (nttOk isPrime kp) = true
      · simp only [hn, Bool.not_true, Bool.false_eq_true, if_false] at h
        cases hr : schemeStep isPrime p kp Q c0 with
        | error e => simp [hr] at h
        | ok r =>
          obtain ⟨c', ok⟩ := r
          simp only [hr] at h
          cases ok with
          | false =>
            simp only [Bool.not_false, if_true, pure, Except.pure, Except.ok.injEq] at h
            subst h
            exact absurd hs (schemeStep_false hr)
          | true =>
            simp only [Bool.not_true, Bool.false_eq_true, if_false] at h
            cases ht : rnsToolNew isPrime p.n p.q p.t with
            | error e => simp [ht] at h
            | ok b2 =>
              cases b2 with
              | false => simp [ht, pure, Except.pure] at h; subst h; simp at hs
              | true =>
                simp only [ht, Bool.not_true, Bool.false_eq_true, if_false, pure, Except.pure] at h
                exact ⟨rfl, hn, c', rfl, rfl, by cases h; rfl⟩
      · have hn' : p.q.all (nttOk isPrime kp) = false := by simpa using hn
        simp only [hn', Bool.not_false, if_true, pure, Except.pure, Except.ok.injEq] at h
        subst h; simp at hs

/-! ### soundness -/

theorem rnsBaseNew_true {qs : List Nat} (h : rnsBaseNew qs = .ok true) : pairwiseCoprimeB qs = true := by
  unfold rnsBaseNew at h
  split_ifs at h with h1 h2 h3 h4
  · cases h
  · cases h
  · cases h
  · simpa using h3
  · simpa using h3

theorem plainBitOk_iff {t : Nat} :
    ¬ (t / 2^Gen.HE_PLAIN_MOD_BIT_COUNT_MAX > 0 ∨ t / 2^(Gen.HE_PLAIN_MOD_BIT_COUNT_MIN - 1) = 0) ↔ 2 ≤ t ∧ t < 2^60 := by
  have := @bitOk_iff t
  simpa [Gen.HE_PLAIN_MOD_BIT_COUNT_MAX, Gen.HE_PLAIN_MOD_BIT_COUNT_MIN, Gen.HE_USER_MOD_BIT_COUNT_MAX,
    Gen.HE_USER_MOD_BIT_COUNT_MIN] using this

/-- plain-modulus conditions per scheme -/
def PlainOk (p : Params) : Prop :=
  match p.scheme with
  | .BFV | .BGV => (2 ≤ p.t ∧ p.t < 2^60) ∧ (∀ q ∈ p.q, Nat.Coprime q p.t) ∧ p.t < prodL p.q
  | .CKKS => p.t = 0
  | .None => False

theorem bfv_plain_ok {isPrime : Nat → Bool} {c c' : ContextData} {kp Q : Nat}
    (hq : ∀ q ∈ c.parms.q, 2 ≤ q ∧ q < 2^60) (h : validateBfv isPrime c kp Q = .ok (c', true)) :
    (2 ≤ c.parms.t ∧ c.parms.t < 2^60) ∧ (∀ q ∈ c.parms.q, Nat.Coprime q c.parms.t) ∧ c.parms.t < Q := by
  rcases validateBfv_cases h with ⟨h1, _⟩ | ⟨_, h1, h2, h3, _⟩
  · cases h1
  · have ht := plainBitOk_iff.1 h1
    refine ⟨ht, ?_, h3⟩
    intro q hq'
    have hqq := hq q hq'
    rw [List.any_eq_false] at h2
    have := h2 q hq'
    simp only [decide_eq_true_eq, not_lt] at this
    exact (gcdU64_coprime_iff (by omega) (by omega) (by omega)).1 this

theorem validate_sound {isPrime : Nat → Bool} {p : Params} {sec : SecLevel} {c : ContextData}
    (h : validate isPrime p sec = .ok c) (hs : c.err = .Success) :
    (∃ e, 1 ≤ e ∧ e ≤ 17 ∧ p.n = 2^e) ∧
    (1 ≤ p.q.length ∧ p.q.length ≤ 64) ∧
    (∀ q ∈ p.q, 2 ≤ q ∧ q < 2^60) ∧
    p.q.Pairwise Nat.Coprime ∧
    (∀ q ∈ p.q, isPrime q = true ∧ q % (2 * p.n) = 1) ∧
    PlainOk p ∧
    (sec = .None ∨ bitCount (prodL p.q) ≤ Gen.maxBitCount sec p.n) := by
  obtain ⟨h1, h2, h3, h4, _, h6, kp, hkp, ht⟩ := validate_success h hs
  obtain ⟨hb, hn, c', hstep, _, _⟩ := validateTail_success ht hs
  obtain ⟨hpow, _⟩ := powerOfTwo?_some hkp
  refine ⟨⟨kp, ?_, ?_, hpow⟩, h2, h3, ?_, ?_, ?_, h6⟩
  · by_contra hc
    have : kp = 0 := by omega
    subst this; omega
  · by_contra hc
    have : 2^18 ≤ 2^kp := Nat.pow_le_pow_right (by norm_num) (by omega)
    omega
  · exact (pairwiseCoprimeB_iff p.q (fun q hq => by have := h3 q hq; omega)).1 (rnsBaseNew_true hb)
  · intro q hq
    rw [List.all_eq_true] at hn
    have := hn q hq
    simp only [nttOk, Bool.and_eq_true, beq_iff_eq] at this
    refine ⟨this.1, ?_⟩
    have hq2 := h3 q hq
    rw [hpow]
    exact (sub_one_mod_iff (by omega) (by have : 0 < 2^kp := by positivity
                                          omega)).1 this.2
  · unfold PlainOk
    unfold schemeStep at hstep
    split at hstep
    · rename_i hsch
      rw [hsch]
      exact bfv_plain_ok (c := { ctx2 p sec with ntt := true }) h3 hstep
    · rename_i hsch
      rw [hsch]
      exact bfv_plain_ok (c := { ctx2 p sec with ntt := true }) h3 hstep
    · rename_i hsch
      rw [hsch]
      rcases validateCkks_cases hstep with ⟨h1, _⟩ | ⟨_, h2, _⟩
      · cases h1
      · exact h2
    · rename_i hsch
      exact absurd hsch h1

/-! ### evaluation of the constants -/

theorem mapM_ok_of_forall {α β : Type} (f : α → R β) (g : α → β) :
    ∀ (l : List α), (∀ a ∈ l, f a = .ok (g a)) → l.mapM f = .ok (l.map g)
  | [], _ => rfl
  | a :: l, h => by
    have ha := h a (by simp)
    have ih := mapM_ok_of_forall f g l (fun b hb => h b (by simp [hb]))
    simp [List.mapM_cons, ha, ih, bind, Except.bind, pure, Except.pure]

theorem mk?_ok {q : Nat} (h2 : 2 ≤ q) (h61 : q < 2^61) : ∃ m, Modulus.mk? q = .ok m ∧ m.WF ∧ m.value = q := by
  have hne : q ≠ 0 := by omega
  have : Modulus.mk? q = .ok ⟨q, (2^128 / q) % B64, (2^128 / q) / B64, 2^128 % q, bitCount q⟩ := by
    unfold Modulus.mk?
    have h1 : ¬ (q / 2^61 ≠ 0 ∨ q = 1) := by
      have : q / 2^61 = 0 := Nat.div_eq_of_lt h61
      omega
    simp [hne]
    omega
  exact ⟨_, this, (Modulus.mk?_wf this hne).1, rfl⟩

/-- `2^63 mod q` times `q - 2` is `-2^64 mod q` -/
theorem neg_two64 {q : Nat} (hq : 2 ≤ q) : (2^63 % q * (q - 2)) % q = (q - 2^64 % q) % q := by
  obtain ⟨m, rfl⟩ : ∃ m, q = m + 2 := ⟨q - 2, by omega⟩
  simp only [Nat.add_sub_cancel]
  set a := 2^63 % (m+2) with ha
  set d := 2^63 / (m+2) with hd
  have hsplit : 2^63 = (m+2) * d + a := (Nat.div_add_mod _ _).symm
  have h64 : (2:Nat)^64 = 2 * 2^63 := by norm_num
  have key : (a * m % (m+2) + 2^64 % (m+2)) % (m+2) = 0 := by
    rw [← Nat.add_mod, h64, hsplit]
    have : a * m + 2 * ((m+2) * d + a) = (m+2) * (a + 2 * d) := by ring
    rw [this, Nat.mul_mod_right]
  have hX : a * m % (m+2) < m+2 := Nat.mod_lt _ (by omega)
  have hr : 2^64 % (m+2) < m+2 := Nat.mod_lt _ (by omega)
  have hsum : a * m % (m+2) + 2^64 % (m+2) = 0 ∨ a * m % (m+2) + 2^64 % (m+2) = m+2 := by
    obtain ⟨j, hj⟩ := Nat.dvd_of_mod_eq_zero key
    rcases j with _ | _ | j
    · left; simpa using hj
    · right; simpa using hj
    · exfalso
      have := Nat.mul_le_mul_left (m+2) (show 2 ≤ j+1+1 by omega)
      omega
  rcases hsum with h0 | h1
  · have r0 : 2^64 % (m+2) = 0 := by omega
    have x0 : a * m % (m+2) = 0 := by omega
    rw [x0, r0]; simp
  · have : a * m % (m+2) = m + 2 - 2^64 % (m+2) := by omega
    rw [this]
    by_cases r0 : 2^64 % (m+2) = 0
    · omega
    · have hlt : m + 2 - 2^64 % (m+2) < m + 2 := by omega
      rw [Nat.mod_eq_of_lt hlt]

theorem ckks_puhi_eval {qs : List Nat} (hq : ∀ q ∈ qs, 2 ≤ q ∧ q < 2^60) :
    qs.mapM (fun q => do
          let m ← Modulus.mk? q
          let tmp ← barrett64 (2^63) m
          let qm2 ← ckSub q 2
          mulMod tmp qm2 m) = .ok (qs.map (fun q => (q - 2^64 % q) % q)) := by
  apply mapM_ok_of_forall
  intro q hqm
  obtain ⟨h2, h60⟩ := hq q hqm
  obtain ⟨m, hm, hwf, hv⟩ := mk?_ok h2 (by omega : q < 2^61)
  have hb : barrett64 (2^63) m = .ok (2^63 % q) := by rw [barrett64_exact hwf (by norm_num), hv]
  have hs : ckSub q 2 = .ok (q - 2) := by simp [ckSub]; omega
  have hlt : 2^63 % q < 2^64 := lt_of_lt_of_le (Nat.mod_lt _ (by omega)) (by omega)
  have hmul : mulMod (2^63 % q) (q - 2) m = .ok ((2^63 % q * (q - 2)) % q) := by
    rw [mulMod_exact hwf hlt (by omega), hv]
  simp only [hm, hb, hs, hmul, bind, Except.bind, neg_two64 h2]


theorem zip_map_self {α β : Type} (f : α → β) : ∀ l : List α, (l.map f).zip l = l.map (fun a => (f a, a))
  | [] => rfl
  | a :: l => by simp [zip_map_self f l]

theorem decomp_eq {qs : List Nat} {x : Nat} (hk1 : qs.length ≤ 1 → x < B64 ∧ ∀ q ∈ qs, x < q) :
    decomp qs x = qs.map (fun q => x % q) := by
  unfold decomp
  split_ifs with h
  · rfl
  · have hk := hk1 (by omega)
    match qs, h, hk with
    | [], _, _ => rfl
    | [q], _, hk =>
      simp only [List.length_singleton, fromNat, List.map_cons, List.map_nil]
      rw [Nat.mod_eq_of_lt hk.1, Nat.mod_eq_of_lt (hk.2 q (by simp))]
    | _ :: _ :: _, h, _ => simp at h

theorem bfv_cdp_eval {qs : List Nat} {x : Nat} (hq : ∀ q ∈ qs, 2 ≤ q ∧ q < 2^60)
    (hk1 : qs.length ≤ 1 → x < B64 ∧ ∀ q ∈ qs, x < q) :
    ((decomp qs x).zip qs).mapM (fun xq => do
            let m ← Modulus.mk? xq.2
            MulOperand.new xq.1 m) = .ok (qs.map (fun q => ⟨x % q, (x % q) * 2^64 / q⟩)) := by
  rw [decomp_eq hk1, zip_map_self]
  have := mapM_ok_of_forall (fun xq : Nat × Nat => (do
            let m ← Modulus.mk? xq.2
            MulOperand.new xq.1 m : R MulOperand)) (fun xq => ⟨xq.1, xq.1 * 2^64 / xq.2⟩)
            (qs.map (fun a => (x % a, a))) ?_
  · rw [this, List.map_map]; rfl
  · intro a ha
    rw [List.mem_map] at ha
    obtain ⟨q, hqm, rfl⟩ := ha
    obtain ⟨h2, h60⟩ := hq q hqm
    obtain ⟨m, hm, hwf, hv⟩ := mk?_ok h2 (by omega : q < 2^61)
    obtain ⟨o, ho, ho1, ho2⟩ := mulOperand_new hwf (y := x % q) (by rw [hv]; exact Nat.mod_lt _ (by omega))
    simp only [hm, bind, Except.bind, ho]
    congr 1
    cases o
    simp only at ho1 ho2
    rw [ho1, ho2, hv]

theorem puhi_fast_eval {qs : List Nat} {t : Nat} (h : ∀ q ∈ qs, t < q) :
    qs.mapM (fun q => ckSub q t) = .ok (qs.map (fun q => q - t)) := by
  apply mapM_ok_of_forall
  intro q hq
  have := h q hq
  simp [ckSub]; omega

theorem toNat_fromNat : ∀ (k v : Nat), toNat (fromNat k v) = v % B64^k
  | 0, v => by simp [fromNat, toNat, Nat.mod_one]
  | k+1, v => by
    simp only [fromNat, toNat, toNat_fromNat k]
    rw [pow_succ, Nat.mul_comm (B64^k) B64, Nat.mod_mul]

theorem prodL_le : ∀ (l : List Nat), (∀ q ∈ l, q < 2^60) → prodL l ≤ 2^(60 * l.length)
  | [], _ => by simp [prodL]
  | x :: xs, h => by
    have hx := h x (by simp)
    have ih := prodL_le xs (fun q hq => h q (by simp [hq]))
    simp only [prodL, List.length_cons]
    have : 2^(60 * (xs.length + 1)) = 2^60 * 2^(60 * xs.length) := by rw [← pow_add]; congr 1; ring
    rw [this]
    exact Nat.mul_le_mul (le_of_lt hx) ih

theorem prodL_lt_B64 {l : List Nat} (h : ∀ q ∈ l, q < 2^60) (hl : 1 ≤ l.length) : prodL l + 1 < B64^l.length := by
  have h1 := prodL_le l h
  have h2 : (2:Nat)^(60 * l.length) * 2 ≤ B64^l.length := by
    rw [B64_eq, ← pow_mul]
    calc (2:Nat)^(60 * l.length) * 2 = 2^(60 * l.length + 1) := by rw [pow_succ]
      _ ≤ 2^(64 * l.length) := Nat.pow_le_pow_right (by norm_num) (by omega)
  have h0 : (2:Nat)^1 ≤ 2^(60 * l.length) := Nat.pow_le_pow_right (by norm_num) (by omega)
  omega


/-- constants of a valid BFV / BGV level -/
theorem constants_bfv {isPrime : Nat → Bool} {p : Params} {sec : SecLevel} {c : ContextData}
    (h : validate isPrime p sec = .ok c) (hs : c.err = .Success) (hsch : p.scheme = .BFV ∨ p.scheme = .BGV) :
    c.coeffDivPlain = p.q.map (fun q => ⟨(prodL p.q / p.t) % q, ((prodL p.q / p.t) % q) * 2^64 / q⟩) ∧
    c.qModT = prodL p.q % p.t ∧
    c.upperHalfIncrement = p.q.map (fun q => prodL p.q % p.t % q) ∧
    c.plainUpperHalfThreshold = (p.t + 1) / 2 ∧
    c.plainUpperHalfIncrement = (if p.q.all (fun q => decide (p.t < q)) then p.q.map (fun q => q - p.t)
                                  else fromNat p.q.length (prodL p.q - p.t)) ∧
    c.upperHalfThreshold = [] ∧
    c.batching = (isPrime p.t && decide (p.t % (2 * p.n) = 1)) ∧
    c.fastLift = p.q.all (fun q => decide (p.t < q)) := by
  obtain ⟨h1, h2, h3, h4, _, h6, kp, hkp, ht⟩ := validate_success h hs
  obtain ⟨hb, hn, c', hstep, _, hc⟩ := validateTail_success ht hs
  obtain ⟨hpow, _⟩ := powerOfTwo?_some hkp
  have hbfv : validateBfv isPrime { ctx2 p sec with ntt := true } kp (prodL p.q) = .ok (c', true) := by
    unfold schemeStep at hstep
    rcases hsch with hsch | hsch <;> simpa [hsch] using hstep
  rcases validateBfv_cases hbfv with ⟨hf, _⟩ | ⟨_, hbit, hcop, hlt, cdp, puhi, hcdp, hpuhi, hc'⟩
  · cases hf
  have hpq : ({ ctx2 p sec with ntt := true } : ContextData).parms = p := rfl
  rw [hpq] at hbit hcop hlt hcdp hpuhi hc'
  have htb := plainBitOk_iff.1 hbit
  set Q := prodL p.q with hQ
  have hQlt : p.q.length ≤ 1 → Q = (p.q.headD 0) ∧ p.q = [p.q.headD 0] := by
    intro hk
    match hp : p.q, h2, hk with
    | [q], _, _ => simp [hQ, hp, prodL]
  have hk1 : ∀ x, x < Q → x < B64 → (p.q.length ≤ 1 → x < B64 ∧ ∀ q ∈ p.q, x < q) := by
    intro x hx hx64 hk
    obtain ⟨e1, e2⟩ := hQlt hk
    refine ⟨hx64, fun q hq => ?_⟩
    rw [e2] at hq
    simp only [List.mem_singleton] at hq
    omega
  have hfast : p.q.all (fun q => !decide (q ≤ p.t)) = p.q.all (fun q => decide (p.t < q)) := by
    have : (fun q => !decide (q ≤ p.t)) = (fun q => decide (p.t < q)) := by
      funext q
      by_cases hqt : q ≤ p.t
      · have : ¬ p.t < q := by omega
        simp [hqt, this]
      · have : p.t < q := by omega
        simp [hqt, this]
    rw [this]
  have hquot : Q / p.t < Q := Nat.div_lt_self (by omega) (by omega)
  have hQ64 : Q ≤ 2^(60 * p.q.length) := prodL_le p.q (fun q hq => (h3 q hq).2)
  have hrem : Q % p.t < p.t := Nat.mod_lt _ (by omega)
  -- coeff_div_plain
  have e1 := bfv_cdp_eval (x := Q / p.t) h3 (fun hk => by
    obtain ⟨e1, e2⟩ := hQlt hk
    have hq0 := h3 (p.q.headD 0) (by rw [e2]; simp)
    exact hk1 _ hquot (by rw [B64_eq]; omega) hk)
  rw [e1] at hcdp
  have hcdp' : cdp = _ := (Except.ok.inj hcdp).symm
  -- upper_half_increment
  have e2 : decomp p.q (Q % p.t) = p.q.map (fun q => Q % p.t % q) :=
    decomp_eq (fun hk => hk1 _ (by omega) (by rw [B64_eq]; omega) hk)
  subst hc
  subst hc'
  refine ⟨hcdp', ?_, e2, rfl, ?_, rfl, ?_, hfast⟩
  · show (fromNat p.q.length (Q % p.t)).headD 0 = Q % p.t
    match hp : p.q.length, h2.1 with
    | k+1, _ =>
      simp only [fromNat, List.headD_cons]
      exact Nat.mod_eq_of_lt (by rw [B64_eq]; omega)
  · show puhi = _
    rw [hfast] at hpuhi
    split_ifs at hpuhi ⊢ with hf
    · rw [puhi_fast_eval (fun q hq => by simpa using (List.all_eq_true.1 hf) q hq)] at hpuhi
      exact (Except.ok.inj hpuhi).symm
    · exact (Except.ok.inj hpuhi).symm
  · show nttOk isPrime kp p.t = _
    unfold nttOk
    congr 1
    rw [hpow]
    have h2k : 0 < 2^kp := by positivity
    have hm : 2 ≤ 2 * 2^kp := by omega
    have := sub_one_mod_iff (q := p.t) (by omega) hm
    by_cases hh : (p.t - 1) % (2 * 2^kp) = 0
    · simp [hh, this.1 hh]
    · have : ¬ p.t % (2 * 2^kp) = 1 := fun h' => hh (this.2 h')
      simp [hh, this]

/-- constants of a valid CKKS level -/
theorem constants_ckks {isPrime : Nat → Bool} {p : Params} {sec : SecLevel} {c : ContextData}
    (h : validate isPrime p sec = .ok c) (hs : c.err = .Success) (hsch : p.scheme = .CKKS) :
    c.coeffDivPlain = [] ∧ c.qModT = 0 ∧ c.upperHalfIncrement = [] ∧
    c.plainUpperHalfThreshold = 2^63 ∧
    c.plainUpperHalfIncrement = p.q.map (fun q => (q - 2^64 % q) % q) ∧
    c.upperHalfThreshold = fromNat p.q.length ((prodL p.q + 1) / 2) ∧
    toNat c.upperHalfThreshold = (prodL p.q + 1) / 2 ∧
    c.batching = true ∧ c.fastLift = false := by
  obtain ⟨h1, h2, h3, h4, _, h6, kp, hkp, ht⟩ := validate_success h hs
  obtain ⟨hb, hn, c', hstep, _, hc⟩ := validateTail_success ht hs
  have hck : validateCkks { ctx2 p sec with ntt := true } (prodL p.q) = .ok (c', true) := by
    unfold schemeStep at hstep
    simpa [hsch] using hstep
  rcases validateCkks_cases hck with ⟨hf, _⟩ | ⟨_, _, puhi, hpuhi, hc'⟩
  · cases hf
  have hpq : ({ ctx2 p sec with ntt := true } : ContextData).parms = p := rfl
  rw [hpq] at hpuhi hc'
  rw [ckks_puhi_eval h3] at hpuhi
  have hp' : puhi = _ := (Except.ok.inj hpuhi).symm
  have hlt := prodL_lt_B64 (fun q hq => (h3 q hq).2) h2.1
  have hmod : (prodL p.q + 1) % B64^p.q.length = prodL p.q + 1 := Nat.mod_eq_of_lt hlt
  subst hc
  subst hc'
  refine ⟨rfl, rfl, rfl, rfl, hp', ?_, ?_, rfl, rfl⟩
  · show fromNat p.q.length (((prodL p.q + 1) % B64^p.q.length) / 2) = _
    rw [hmod]
  · show toNat (fromNat p.q.length (((prodL p.q + 1) % B64^p.q.length) / 2)) = _
    rw [hmod, toNat_fromNat]
    exact Nat.mod_eq_of_lt (by omega)

/-- constants common to all schemes -/
theorem constants_common {isPrime : Nat → Bool} {p : Params} {sec : SecLevel} {c : ContextData}
    (h : validate isPrime p sec = .ok c) (hs : c.err = .Success) :
    c.parms = p ∧ c.total = fromNat p.q.length (prodL p.q) ∧ toNat c.total = prodL p.q ∧
    c.totalBits = bitCount (prodL p.q) ∧ c.fft = true ∧ c.ntt = true ∧ c.descending = descendingB p.q ∧
    c.sec = (if bitCount (prodL p.q) > Gen.maxBitCount sec p.n then .None else sec) := by
  obtain ⟨h1, h2, h3, h4, _, h6, kp, hkp, ht⟩ := validate_success h hs
  obtain ⟨hb, hn, c', hstep, _, hc⟩ := validateTail_success ht hs
  have hlt := prodL_lt_B64 (fun q hq => (h3 q hq).2) h2.1
  have htn : toNat (fromNat p.q.length (prodL p.q)) = prodL p.q := by
    rw [toNat_fromNat]; exact Nat.mod_eq_of_lt (by omega)
  have key : c'.parms = p ∧ c'.total = fromNat p.q.length (prodL p.q) ∧ c'.totalBits = bitCount (prodL p.q) ∧
      c'.fft = true ∧ c'.ntt = true ∧ c'.sec = (if bitCount (prodL p.q) > Gen.maxBitCount sec p.n then .None else sec) := by
    unfold schemeStep at hstep
    split at hstep
    · rcases validateBfv_cases hstep with ⟨hf, _⟩ | ⟨_, _, _, _, cdp, puhi, _, _, hc'⟩
      · cases hf
      · subst hc'; exact ⟨rfl, rfl, rfl, rfl, rfl, rfl⟩
    · rcases validateBfv_cases hstep with ⟨hf, _⟩ | ⟨_, _, _, _, cdp, puhi, _, _, hc'⟩
      · cases hf
      · subst hc'; exact ⟨rfl, rfl, rfl, rfl, rfl, rfl⟩
    · rcases validateCkks_cases hstep with ⟨hf, _⟩ | ⟨_, _, puhi, _, hc'⟩
      · cases hf
      · subst hc'; exact ⟨rfl, rfl, rfl, rfl, rfl, rfl⟩
    · simp [pure, Except.pure] at hstep
  subst hc
  obtain ⟨k1, k2, k3, k4, k5, k6⟩ := key
  exact ⟨k1, k2, by show toNat c'.total = _; rw [k2, htn], k3, k4, k5, rfl, k6⟩

/-- the driver's accept/reject oracle (`Spec.Ctx.validParams`) is implied by acceptance -/
theorem validate_sound_spec {isPrime : Nat → Bool} {p : Params} {sec : SecLevel} {c : ContextData}
    (h : validate isPrime p sec = .ok c) (hs : c.err = .Success) : Spec.Ctx.validParams isPrime p sec = true := by
  obtain ⟨⟨e, he1, he17, hn⟩, hk, hq, hcop, hntt, hplain, hsec⟩ := validate_sound h hs
  have hn2 : 2 ≤ p.n ∧ p.n ≤ 131072 := by
    rw [hn]
    constructor
    · calc 2 = 2^1 := rfl
        _ ≤ 2^e := Nat.pow_le_pow_right (by norm_num) he1
    · calc 2^e ≤ 2^17 := Nat.pow_le_pow_right (by norm_num) he17
        _ = 131072 := by norm_num
  have hsch : p.scheme ≠ .None := by
    intro hc; unfold PlainOk at hplain; rw [hc] at hplain; exact hplain
  unfold Spec.Ctx.validParams
  simp only [Bool.and_eq_true, decide_eq_true_eq, Bool.or_eq_true, List.all_eq_true]
  refine ⟨⟨⟨⟨⟨⟨⟨⟨hsch, hk⟩, fun q hq' => hq q hq'⟩, hn2⟩, ⟨e, List.mem_range.2 (by omega), hn⟩⟩, hsec⟩, ?_⟩, ?_⟩, ?_⟩
  · exact hcop
  · intro q hq'; exact hntt q hq'
  · unfold PlainOk at hplain
    cases hs' : p.scheme <;> simp only [hs'] at hplain ⊢
    · simp only [Bool.and_eq_true, decide_eq_true_eq, List.all_eq_true]
      exact ⟨⟨hplain.1, fun q hq' => hplain.2.1 q hq'⟩, hplain.2.2⟩
    · simpa using hplain
    · simp only [Bool.and_eq_true, decide_eq_true_eq, List.all_eq_true]
      exact ⟨⟨hplain.1, fun q hq' => hplain.2.1 q hq'⟩, hplain.2.2⟩

end HC.Ctx
