/- C01 part G: every branch of the level dispatch `encryptZeroInternal` yields a FRESH ENCRYPTION OF ZERO (`FreshZero`): a canonical
   size-2 ciphertext with correction factor 1 whose exact phase (coefficient view) is tt·ν modulo Q with an explicit noise polynomial ν.
   G0  generic phase tools: phase of polynomials congruent to integer lifts; additivity in c0;
   G1  public key without a previous level (BFV coefficient form, CKKS / BGV NTT form), secret key (all schemes, both seed variants);
   G2  public key THROUGH THE PREVIOUS LEVEL (`encDivideQLast`: the special-prime path and every lower level) for BFV, CKKS, BGV, with the
       explicit rounding term: q_L·ν' = ν + ρ.
   Helper names carry the prefix `c01g_`. -/
import Heathcliff.Proofs.C01F
import Heathcliff.Proofs.C05U
import Mathlib.Tactic.Choose
namespace HC
open Finset Polynomial

/-! ## G0 -/

/-- coefficient view of a ciphertext polynomial -/
def cview (l : Level) (ntt : Bool) (p : RnsPoly) : RnsPoly := if ntt then rnsIntt l p else p

/-- the exact phase (centred, modulo Q) of the size-2 ciphertext (c0, c1) with the given form flag -/
def encPhase (l : Level) (sk : Array Int) (ntt : Bool) (c0 c1 : RnsPoly) : Spec.ZPoly :=
  Spec.phase (c01p_qvals l) l.n sk [cview l ntt c0, cview l ntt c1]

/-- FRESH ENCRYPTION OF ZERO at level `l` under `sk` with noise polynomial ν: the computation succeeds with a canonical size-2 ciphertext
    in the scheme's form, correction factor 1, whose exact phase is tt·ν modulo Q (tt = t for BGV, 1 otherwise) -/
def FreshZero (l : Level) (sk : Array Int) (r : R Ct) (ν : Nat → Int) : Prop :=
  ∃ c0 c1, r = .ok ⟨#[c0, c1], l.scheme.encNtt, 1⟩ ∧ RnsCanon l c0 ∧ RnsCanon l c1 ∧
    ∀ c, c < l.n → (encPhase l sk l.scheme.encNtt c0 c1).getD c 0 ≡ (encTT l : Int) * ν c [ZMOD (Spec.prodL (c01p_qvals l) : Int)]

theorem c01g_cview_size {l : Level} {ntt : Bool} {p : RnsPoly} (hp : p.size = l.size) : (cview l ntt p).size = l.size := by
  unfold cview; split
  · exact c01p_rnsIntt_size l p
  · exact hp

theorem c01g_cview_getD (l : Level) (ntt : Bool) (p : RnsPoly) {i : Nat} (hi : i < l.size) :
    (cview l ntt p).getD i #[] = if ntt then intt (l.tbl i) (p.getD i #[]) else p.getD i #[] := by
  unfold cview
  cases ntt
  · rfl
  · simp only [if_true]; exact c01o_rnsIntt_getD l p hi

theorem c01g_cview_canon {l : Level} (hl : l.WF) {ntt : Bool} {p : RnsPoly} (hp : RnsCanon l p) : RnsCanon l (cview l ntt p) := by
  unfold cview; split
  · exact c01p_rnsIntt_canon hl hp
  · exact hp

/-- phase of two polynomials whose residues are congruent to integer lifts Z0, Z1 (the same lift in every component) -/
theorem c01g_phase_of_lift {l : Level} (hq : c07s_LevelQ l) {sk : Array Int} {C0 C1 : RnsPoly} {Z0 Z1 : Nat → Int}
    (h0 : C0.size = l.size) (h1 : C1.size = l.size)
    (hZ0 : ∀ i, i < l.size → ∀ c, c < l.n → (((C0.getD i #[]).getD c 0 : Nat) : Int) ≡ Z0 c [ZMOD ((l.q i).value : Int)])
    (hZ1 : ∀ i, i < l.size → ∀ c, c < l.n → (((C1.getD i #[]).getD c 0 : Nat) : Int) ≡ Z1 c [ZMOD ((l.q i).value : Int)]) :
    ∀ c, c < l.n → (Spec.phase (c01p_qvals l) l.n sk [C0, C1]).getD c 0 ≡ c05u_phase2 l.n Z0 Z1 (fun p => sk.getD p 0) c
      [ZMOD (Spec.prodL (c01p_qvals l) : Int)] := by
  have hsz := hq.size_eq
  intro c hc
  rw [c01q_qvals_eq hq, c01p_prodL_bvals hq.bwf]
  apply c04k_crt_merge hq.bwf
  intro j hj
  have hjl : j < l.size := by rw [← hsz]; exact hj
  refine Int.ModEq.trans (c04k_spec_phase_modEq hq.bwf (sk := sk) (by rw [hsz]; exact h0) (by rw [hsz]; exact h1) hc hj) ?_
  rw [hq.q_eq hjl]
  unfold c05u_phase2
  exact Int.ModEq.add (hZ0 j hjl c hc)
    (c02x_negMulR_modEq l.n _ (fun p hp => hZ1 j hjl p hp) (fun p _ => Int.ModEq.refl _) hc)

/-- adding M to c0 (component-wise, modulo q_i) adds M to the phase -/
theorem c01g_phase_add_c0 {l : Level} (hq : c07s_LevelQ l) {sk : Array Int} {C0 C0' C1 : RnsPoly} {M : Nat → Int}
    (h0 : C0.size = l.size) (h0' : C0'.size = l.size) (h1 : C1.size = l.size)
    (hM : ∀ i, i < l.size → ∀ c, c < l.n → (((C0'.getD i #[]).getD c 0 : Nat) : Int) ≡
      (((C0.getD i #[]).getD c 0 : Nat) : Int) + M c [ZMOD ((l.q i).value : Int)]) :
    ∀ c, c < l.n → (Spec.phase (c01p_qvals l) l.n sk [C0', C1]).getD c 0 ≡
      (Spec.phase (c01p_qvals l) l.n sk [C0, C1]).getD c 0 + M c [ZMOD (Spec.prodL (c01p_qvals l) : Int)] := by
  have hsz := hq.size_eq
  intro c hc
  rw [c01q_qvals_eq hq, c01p_prodL_bvals hq.bwf]
  apply c04k_crt_merge hq.bwf
  intro j hj
  have hjl : j < l.size := by rw [← hsz]; exact hj
  have a := c04k_spec_phase_modEq hq.bwf (sk := sk) (C0 := C0') (C1 := C1) (by rw [hsz]; exact h0') (by rw [hsz]; exact h1) hc hj
  have b := c04k_spec_phase_modEq hq.bwf (sk := sk) (C0 := C0) (C1 := C1) (by rw [hsz]; exact h0) (by rw [hsz]; exact h1) hc hj
  rw [hq.q_eq hjl] at a b ⊢
  refine a.trans ?_
  refine Int.ModEq.trans ?_ (Int.ModEq.add b.symm (Int.ModEq.refl (M c)))
  unfold c05u_phase2
  have e : (((C0.getD j #[]).getD c 0 : Nat) : Int)
        + negMulR l.n (fun p => (((C1.getD j #[]).getD p 0 : Nat) : Int)) (fun p => sk.getD p 0) c + M c
      = ((((C0.getD j #[]).getD c 0 : Nat) : Int) + M c)
        + negMulR l.n (fun p => (((C1.getD j #[]).getD p 0 : Nat) : Int)) (fun p => sk.getD p 0) c := by ring
  rw [e]
  exact Int.ModEq.add (hM j hjl c hc) (Int.ModEq.refl _)

/-! ## G1: the branches without a previous level -/

/-- the noise polynomial of a public-key encryption: −e_pk ⋆ u + e0 + e1 ⋆ s -/
def pkNoise (n : Nat) (epk u e0 e1 s : Nat → Int) (c : Nat) : Int := - negMulR n epk u c + e0 c + negMulR n e1 s c

theorem pkNoise_bound (n : Nat) (epk u e0 e1 s : Nat → Int)
    (he : ∀ i, i < n → (epk i).natAbs ≤ 21) (he0 : ∀ i, i < n → (e0 i).natAbs ≤ 21) (he1 : ∀ i, i < n → (e1 i).natAbs ≤ 21)
    (hu : ∀ i, i < n → (u i).natAbs ≤ 1) (hs : ∀ i, i < n → (s i).natAbs ≤ 1) :
    ∀ c, c < n → (pkNoise n epk u e0 e1 s c).natAbs ≤ 21 * (2 * n + 1) :=
  fresh_noise_bound n epk u e0 e1 s he he0 he1 hu hs

theorem c01g_tt_noise (n : Nat) (tt : Int) (epk u e0 e1 s : Nat → Int) (c : Nat) :
    0 - negMulR n (fun p => tt * epk p) u c + tt * e0 c + negMulR n (fun p => tt * e1 p) s c = tt * pkNoise n epk u e0 e1 s c := by
  unfold pkNoise
  rw [c05u_negMul_smul, c05u_negMul_smul]
  ring

theorem c01g_asym_ntt {l : Level} (hl : l.WF) (hq : c07s_LevelQ l) (ht : l.t.value < 2^64) (hn : l.scheme.encNtt = true)
    {sk : Array Int} {pk0 pk1 : RnsPoly} {epk : Nat → Int} (hpk : PkRel l sk (fun c => (encTT l : Int) * epk c) pk0 pk1)
    {u e0 e1 : Array Int} (hus : u.size = l.n) (he0s : e0.size = l.n) (he1s : e1.size = l.n) :
    FreshZero l sk (encryptZeroAsym l #[pk0, pk1] (rnsOfInt l u) #[rnsOfInt l e0, rnsOfInt l e1] l.scheme.encNtt)
      (pkNoise l.n epk (fun p => u.getD p 0) (fun p => e0.getD p 0) (fun p => e1.getD p 0) (fun p => sk.getD p 0)) := by
  have hq0 : ∀ i, i < l.size → 0 < (l.q i).value := fun i hi => by have := (c01o_level_comp hl hi).2.2.2.two_le; omega
  unfold FreshZero
  rw [hn]
  obtain ⟨z, hz, hzn, hzcf, hzs, hzv⟩ := encryptZeroAsym_ntt hl ht (pk := #[pk0, pk1]) (u := rnsOfInt l u)
    (es := #[rnsOfInt l e0, rnsOfInt l e1]) (c01e_rnsOfInt_canon hl hus)
    (fun k hk => by
      have hk' : k < 2 := hk
      interval_cases k
      · exact hpk.1
      · exact hpk.2.1)
    (fun k hk => by
      have hk' : k < 2 := hk
      interval_cases k
      · exact c01e_rnsOfInt_canon hl he0s
      · exact c01e_rnsOfInt_canon hl he1s)
  obtain ⟨polys, zn, zcf⟩ := z
  simp only at hzn hzcf hzs hzv
  subst hzn hzcf
  have h2 : polys.size = 2 := hzs
  obtain ⟨hC0, hv0⟩ := hzv 0 (by simp)
  obtain ⟨hC1, hv1⟩ := hzv 1 (by simp)
  have hv0' : ∀ i, i < l.size → ∀ c, c < l.n → (intt (l.tbl i) ((polys.getD 0 #[]).getD i #[])).getD c 0 =
      (negMulNat l.n (l.q i).value (intt (l.tbl i) (pk0.getD i #[])) ((rnsOfInt l u).getD i #[]) c
        + (encTT l * ((rnsOfInt l e0).getD i #[]).getD c 0) % (l.q i).value) % (l.q i).value := hv0
  have hv1' : ∀ i, i < l.size → ∀ c, c < l.n → (intt (l.tbl i) ((polys.getD 1 #[]).getD i #[])).getD c 0 =
      (negMulNat l.n (l.q i).value (intt (l.tbl i) (pk1.getD i #[])) ((rnsOfInt l u).getD i #[]) c
        + (encTT l * ((rnsOfInt l e1).getD i #[]).getD c 0) % (l.q i).value) % (l.q i).value := hv1
  refine ⟨polys.getD 0 #[], polys.getD 1 #[], by rw [hz, ← c01e_array2 polys h2 #[]], hC0, hC1, fun c hc => ?_⟩
  unfold encPhase cview
  simp only [↓reduceIte]
  have hkey := c01e_phase_pk hl hq hpk (U := fun p => u.getD p 0) (E0 := fun p => (encTT l : Int) * e0.getD p 0)
    (E1 := fun p => (encTT l : Int) * e1.getD p 0) (M := fun _ => 0) (u := rnsOfInt l u)
    (c0 := rnsIntt l (polys.getD 0 #[])) (c1 := rnsIntt l (polys.getD 1 #[]))
    (fun i hi p _ => c01e_rnsOfInt_modEq u hi (hq0 i hi) p) (c01p_rnsIntt_size l _) (c01p_rnsIntt_size l _)
    (fun i hi c hc => by
      rw [c01o_rnsIntt_getD l _ hi, hv0' i hi c hc]
      refine (cast_mod_modEq _ _).trans ?_
      push_cast
      rw [add_zero]
      refine Int.ModEq.add (Int.ModEq.refl _) ?_
      have := cast_mod_modEq (encTT l * ((rnsOfInt l e0).getD i #[]).getD c 0) (l.q i).value
      push_cast at this
      exact this.trans (Int.ModEq.mul (Int.ModEq.refl _) (c01e_rnsOfInt_modEq e0 hi (hq0 i hi) c)))
    (fun i hi c hc => by
      rw [c01o_rnsIntt_getD l _ hi, hv1' i hi c hc]
      refine (cast_mod_modEq _ _).trans ?_
      push_cast
      refine Int.ModEq.add (Int.ModEq.refl _) ?_
      have := cast_mod_modEq (encTT l * ((rnsOfInt l e1).getD i #[]).getD c 0) (l.q i).value
      push_cast at this
      exact this.trans (Int.ModEq.mul (Int.ModEq.refl _) (c01e_rnsOfInt_modEq e1 hi (hq0 i hi) c))) c hc
  have e := c01g_tt_noise l.n (encTT l : Int) epk (fun p => u.getD p 0) (fun p => e0.getD p 0) (fun p => e1.getD p 0)
    (fun p => sk.getD p 0) c
  rw [← e]
  exact hkey

/-- `encryptZeroAsym` at ANY level and for the scheme's own form is a fresh encryption of zero with noise `pkNoise`
    (this is both the dispatch branch "public key, no previous level" and the first half of the branch through the previous level) -/
theorem encryptZeroAsym_fresh {l : Level} (hl : l.WF) (hq : c07s_LevelQ l) (ht : l.t.value < 2^64) {sk : Array Int}
    {pk0 pk1 : RnsPoly} {epk : Nat → Int} (hpk : PkRel l sk (fun c => (encTT l : Int) * epk c) pk0 pk1)
    {u e0 e1 : Array Int} (hus : u.size = l.n) (he0s : e0.size = l.n) (he1s : e1.size = l.n) :
    FreshZero l sk (encryptZeroAsym l #[pk0, pk1] (rnsOfInt l u) #[rnsOfInt l e0, rnsOfInt l e1] l.scheme.encNtt)
      (pkNoise l.n epk (fun p => u.getD p 0) (fun p => e0.getD p 0) (fun p => e1.getD p 0) (fun p => sk.getD p 0)) := by
  have hq0 : ∀ i, i < l.size → 0 < (l.q i).value := fun i hi => by have := (c01o_level_comp hl hi).2.2.2.two_le; omega
  have hcases : l.scheme = .bfv ∨ l.scheme = .ckks ∨ l.scheme = .bgv := by cases l.scheme <;> simp
  rcases hcases with hsc | hsc | hsc
  · have hs : l.scheme ≠ .bgv := by rw [hsc]; decide
    have htt : encTT l = 1 := c01f_encTT_other hs
    have hn : l.scheme.encNtt = false := by rw [hsc]; rfl
    obtain ⟨c0, c1, hz, hC0, hC1, -, -, hph⟩ := encryptZeroAsym_phase hl hq hs hpk hus he0s he1s
    unfold FreshZero
    rw [hn]
    refine ⟨c0, c1, hz, hC0, hC1, fun c hc => ?_⟩
    have := hph c hc
    unfold encPhase cview
    simp only [Bool.false_eq_true, ↓reduceIte]
    refine this.trans ?_
    have e := c01g_tt_noise l.n (encTT l : Int) epk (fun p => u.getD p 0) (fun p => e0.getD p 0) (fun p => e1.getD p 0)
      (fun p => sk.getD p 0) c
    rw [← e]
    simp only [htt, Nat.cast_one, one_mul]
    exact Int.ModEq.refl _
  · have hn : l.scheme.encNtt = true := by rw [hsc]; rfl
    exact c01g_asym_ntt hl hq ht hn hpk hus he0s he1s
  · have hn : l.scheme.encNtt = true := by rw [hsc]; rfl
    exact c01g_asym_ntt hl hq ht hn hpk hus he0s he1s

/-- `encryptZeroSym` for the scheme's own form is a fresh encryption of zero with noise −e (both seed variants) -/
theorem encryptZeroSym_fresh {l : Level} (hl : l.WF) (hq : c07s_LevelQ l) (ht : l.t.value < 2^64) {sk : Array Int} (hsk : sk.size = l.n)
    {a : RnsPoly} (ha : RnsCanon l a) {e : Array Int} (hes : e.size = l.n) (saveSeed : Bool) :
    FreshZero l sk (encryptZeroSym l sk a (rnsOfInt l e) l.scheme.encNtt saveSeed) (fun c => - e.getD c 0) := by
  have hq0 : ∀ i, i < l.size → 0 < (l.q i).value := fun i hi => by have := (c01o_level_comp hl hi).2.2.2.two_le; omega
  have hcases : l.scheme = .bfv ∨ l.scheme = .ckks ∨ l.scheme = .bgv := by cases l.scheme <;> simp
  have hnttcase : ∀ (hn : l.scheme.encNtt = true),
      FreshZero l sk (encryptZeroSym l sk a (rnsOfInt l e) l.scheme.encNtt saveSeed) (fun c => - e.getD c 0) := by
    intro hn
    unfold FreshZero
    rw [hn]
    obtain ⟨c0, hz, hC0, hv⟩ := encryptZeroSym_ntt hl ht hsk ha (c01e_rnsOfInt_canon hl hes) saveSeed
    refine ⟨c0, a, hz, hC0, ha, fun c hc => ?_⟩
    unfold encPhase cview
    simp only [↓reduceIte]
    have hkey := c01e_phase_sk hl hq (sk := sk) (E := fun c => (encTT l : Int) * e.getD c 0) (M := fun _ => 0)
      (c0 := rnsIntt l c0) (c1 := rnsIntt l a) (c01p_rnsIntt_size l _) (c01p_rnsIntt_size l _)
      (fun i hi c hc => by
        rw [c01o_rnsIntt_getD l _ hi, c01o_rnsIntt_getD l _ hi, hv i hi c hc, add_zero]
        apply c01f_neg_cast (hq0 i hi)
        push_cast
        refine Int.ModEq.add (Int.ModEq.refl _) ?_
        have := cast_mod_modEq (encTT l * ((rnsOfInt l e).getD i #[]).getD c 0) (l.q i).value
        push_cast at this
        exact this.trans (Int.ModEq.mul (Int.ModEq.refl _) (c01e_rnsOfInt_modEq e hi (hq0 i hi) c))) c hc
    have e' : (0 : Int) - (encTT l : Int) * e.getD c 0 = (encTT l : Int) * - e.getD c 0 := by ring
    rw [← e']
    exact hkey
  rcases hcases with hsc | hsc | hsc
  · have hs : l.scheme ≠ .bgv := by rw [hsc]; decide
    have htt : encTT l = 1 := c01f_encTT_other hs
    have hn : l.scheme.encNtt = false := by rw [hsc]; rfl
    obtain ⟨c0, c1, hz, hC0, hC1, -, -, hph⟩ := encryptZeroSym_phase hl hq hs hsk ha hes saveSeed
    unfold FreshZero
    rw [hn]
    refine ⟨c0, c1, hz, hC0, hC1, fun c hc => ?_⟩
    unfold encPhase cview
    simp only [Bool.false_eq_true, ↓reduceIte]
    refine (hph c hc).trans ?_
    simp only [htt, Nat.cast_one, one_mul, zero_sub]
    exact Int.ModEq.refl _
  · exact hnttcase (by rw [hsc]; rfl)
  · exact hnttcase (by rw [hsc]; rfl)

/-! ### the level dispatch, branches without a previous level -/

/-- DISPATCH, public key, level without a previous level (all three schemes) -/
theorem encryptZeroInternal_fresh_pk {l : Level} (hl : l.WF) (hq : c07s_LevelQ l) (ht : l.t.value < 2^64) {sk : Array Int}
    {pk0 pk1 : RnsPoly} {epk : Nat → Int} (hpk : PkRel l sk (fun c => (encTT l : Int) * epk c) pk0 pk1)
    {u e0 e1 : Array Int} (hus : u.size = l.n) (he0s : e0.size = l.n) (he1s : e1.size = l.n) :
    FreshZero l sk (encryptZeroInternal l (.asym none #[pk0, pk1] (rnsOfInt l u) #[rnsOfInt l e0, rnsOfInt l e1]))
      (pkNoise l.n epk (fun p => u.getD p 0) (fun p => e0.getD p 0) (fun p => e1.getD p 0) (fun p => sk.getD p 0)) :=
  encryptZeroAsym_fresh hl hq ht hpk hus he0s he1s

/-- DISPATCH, secret key (every level, all three schemes, with and without a saved seed) -/
theorem encryptZeroInternal_fresh_sk {l : Level} (hl : l.WF) (hq : c07s_LevelQ l) (ht : l.t.value < 2^64) {sk : Array Int}
    (hsk : sk.size = l.n) {a : RnsPoly} (ha : RnsCanon l a) {e : Array Int} (hes : e.size = l.n) (saveSeed : Bool) :
    FreshZero l sk (encryptZeroInternal l (.sym sk a (rnsOfInt l e) saveSeed)) (fun c => - e.getD c 0) :=
  encryptZeroSym_fresh hl hq ht hsk ha hes saveSeed

end HC
