/- C07, fresh-budget clause: "a fresh encryption has at least the budget implied by the deterministic bounds on the sampled
   secret, mask and error polynomials".  Integer level: a BFV phase coefficient is Δ(m) + v (mod Q) with |v| ≤ B, a BGV phase
   coefficient is m + t·e (mod Q) with |e| ≤ B; in both cases the noise the budget is computed from is at most t·(B + 1), hence
   budget ≥ bits(Q) − bits(t·(B+1)) − 1 — exactly the lower bound the driver's `fresh_budget` oracle enforces
   (B = `freshBound n` = 21(2n+1) + n: `fresh_noise_bound` of C01 plus the rounding of the special-prime switch). -/
import Heathcliff.Proofs.C07L
import Heathcliff.Proofs.C01J
namespace HC

/-- the centred lift of a reduced value is bounded by half the modulus -/
theorem c07f_centred_bound (r : Nat) {Q : Nat} (hr : r < Q) : 2 * (Spec.centred r Q).natAbs ≤ Q := by
  unfold Spec.centred
  rw [Nat.mod_eq_of_lt hr]
  split_ifs <;> omega

/-- the centred representative is a smallest one in absolute value -/
theorem c07f_centred_le (y : Int) {Q : Nat} (hQ : 0 < Q) : (Spec.centred (Spec.imod y Q) Q).natAbs ≤ y.natAbs := by
  obtain ⟨κ, hκ⟩ := c01j_centred_imod y hQ
  have hb := c07f_centred_bound (Spec.imod y Q) (c07l_imod_lt hQ y)
  generalize Spec.centred (Spec.imod y Q) Q = c at *
  have hy : y = c + Q * κ := by linarith
  subst hy
  rcases lt_trichotomy κ 0 with hk | hk | hk
  · have h1 : (Q : Int) * κ ≤ -(Q : Int) := by nlinarith
    omega
  · subst hk; simp
  · have h1 : (Q : Int) ≤ (Q : Int) * κ := by nlinarith
    omega

/-- congruent values have the same centred lift -/
theorem c07f_centred_congr {Q : Nat} (x y κ : Int) (h : x = y + Q * κ) :
    Spec.centred (Spec.imod x Q) Q = Spec.centred (Spec.imod y Q) Q := by
  have : Spec.imod x Q = Spec.imod y Q := by
    unfold Spec.imod
    rw [h, Int.add_mul_emod_self_left]
  rw [this]

/-- BFV: the noise of a coefficient Δ(m) + v is at most t·(|v| + 1) -/
theorem c07f_bfv_coeff {Q t m : Nat} (hQ : 0 < Q) (ht : 0 < t) (v : Int) :
    (c07l_v true t Q (Spec.centred (Spec.imod ((deltaM Q t m : Int) + v) Q) Q)).natAbs ≤ t * (v.natAbs + 1) := by
  unfold c07l_v
  simp only [if_true]
  obtain ⟨κ, hκ⟩ := c01j_centred_imod ((deltaM Q t m : Int) + v) hQ
  obtain ⟨e1, e2⟩ := deltaM_err Q t m ht
  push_cast at e1 e2
  -- t·x = (t·Δ − Q·m) + t·v + Q·(m − t·κ)
  have hc := c07f_centred_congr (Q := Q) ((t : Int) * (Spec.centred (Spec.imod ((deltaM Q t m : Int) + v) Q) Q))
      (((t : Int) * (deltaM Q t m : Int) - (Q : Int) * m) + t * v) ((m : Int) - t * κ) (by rw [hκ]; ring)
  rw [hc]
  refine Nat.le_trans (c07f_centred_le _ hQ) ?_
  have hρ : (((t : Int) * (deltaM Q t m : Int) - (Q : Int) * m)).natAbs ≤ t := by
    have h3 : ((t : Int) + 1) / 2 ≤ t := by omega
    have h4 : (t : Int) / 2 ≤ t := by omega
    omega
  have htv : ((t : Int) * v).natAbs = t * v.natAbs := by rw [Int.natAbs_mul]; simp
  have := Int.natAbs_add_le ((t : Int) * (deltaM Q t m : Int) - (Q : Int) * m) ((t : Int) * v)
  rw [htv] at this
  have : t * (v.natAbs + 1) = t * v.natAbs + t := by ring
  omega

/-- BGV: the noise of a coefficient m + t·e (m < t) is below t·(|e| + 1) -/
theorem c07f_bgv_coeff {Q t m : Nat} (hQ : 0 < Q) (hm : m < t) (e : Int) :
    (c07l_v false t Q (Spec.centred (Spec.imod ((m : Int) + t * e) Q) Q)).natAbs ≤ t * (e.natAbs + 1) := by
  unfold c07l_v
  simp only [Bool.false_eq_true, if_false]
  refine Nat.le_trans (c07f_centred_le _ hQ) ?_
  have hte : ((t : Int) * e).natAbs = t * e.natAbs := by rw [Int.natAbs_mul]; simp
  have := Int.natAbs_add_le (m : Int) ((t : Int) * e)
  rw [hte] at this
  have h2 : t * (e.natAbs + 1) = t * e.natAbs + t := by ring
  have h3 : (m : Int).natAbs = m := by simp
  omega

/-- from a bound on the noise norm to a lower bound on the budget -/
theorem c07f_budget_ge_of_norm_le (bfv : Bool) (t Q : Nat) (ph : Array Int) {c : Nat} (h : noiseNorm bfv t Q ph ≤ c) :
    (bitCount Q : Int) - (bitCount c : Int) - 1 ≤ (Spec.budget bfv t Q ph : Int) := by
  rw [budget_eq]
  have := bitCount_mono h
  omega

/-- FRESH BUDGET, BFV: every coefficient of the phase is Δ(m_c) + v_c modulo Q with |v_c| ≤ B (public-key encryption:
    v = −e·u + e0 + e1·s, B = 21(2N+1) by `fresh_noise_bound`; secret-key encryption: v = −e, B = 21)
    ⇒ budget ≥ bits(Q) − bits(t·(B+1)) − 1 -/
theorem fresh_budget_bfv {Q t B : Nat} (hQ : 0 < Q) (ht : 0 < t) (ph : Array Int)
    (hph : ∀ x ∈ ph.toList, ∃ (m : Nat) (v : Int), v.natAbs ≤ B ∧ x = Spec.centred (Spec.imod ((deltaM Q t m : Int) + v) Q) Q) :
    (bitCount Q : Int) - (bitCount (t * (B + 1)) : Int) - 1 ≤ (Spec.budget true t Q ph : Int) := by
  apply c07f_budget_ge_of_norm_le
  rw [c07l_noiseNorm_le_iff]
  intro x hx
  obtain ⟨m, v, hv, rfl⟩ := hph x hx
  refine Nat.le_trans (c07f_bfv_coeff hQ ht v) ?_
  exact Nat.mul_le_mul_left t (by omega)

/-- FRESH BUDGET, BGV: every coefficient of the phase is m_c + t·e_c modulo Q with m_c < t and |e_c| ≤ B -/
theorem fresh_budget_bgv {Q t B : Nat} (hQ : 0 < Q) (ph : Array Int)
    (hph : ∀ x ∈ ph.toList, ∃ (m : Nat) (e : Int), m < t ∧ e.natAbs ≤ B ∧ x = Spec.centred (Spec.imod ((m : Int) + t * e) Q) Q) :
    (bitCount Q : Int) - (bitCount (t * (B + 1)) : Int) - 1 ≤ (Spec.budget false t Q ph : Int) := by
  apply c07f_budget_ge_of_norm_le
  rw [c07l_noiseNorm_le_iff]
  intro x hx
  obtain ⟨m, e, hm, he, rfl⟩ := hph x hx
  refine Nat.le_trans (c07f_bgv_coeff hQ hm e) ?_
  exact Nat.mul_le_mul_left t (by omega)

/-- the two statements are not vacuous: Q = 97·113, t = 17, B = 21·(2·4+1): the bound is 13 − 12 − 1 = 0 … with a larger Q it is positive -/
example : (bitCount (97 * 113 * 1048609) : Int) - (bitCount (17 * (21 * (2 * 4 + 1) + 1)) : Int) - 1 = 21 := by decide

/-- and a fresh public-key phase meets the hypothesis by `fresh_noise_bound` (any n, ternary u, s, errors ≤ 21) -/
theorem fresh_budget_bfv_pk {Q t n : Nat} (hQ : 0 < Q) (ht : 0 < t) (m : Nat → Nat) (e u e0 e1 s : Nat → Int)
    (he : ∀ i, i < n → (e i).natAbs ≤ 21) (he0 : ∀ i, i < n → (e0 i).natAbs ≤ 21) (he1 : ∀ i, i < n → (e1 i).natAbs ≤ 21)
    (hu : ∀ i, i < n → (u i).natAbs ≤ 1) (hs : ∀ i, i < n → (s i).natAbs ≤ 1) :
    (bitCount Q : Int) - (bitCount (t * (21 * (2 * n + 1) + 1)) : Int) - 1 ≤
      (Spec.budget true t Q (Array.ofFn (n := n) fun c =>
        Spec.centred (Spec.imod ((deltaM Q t (m c.val) : Int) + (- negMulR n e u c.val + e0 c.val + negMulR n e1 s c.val)) Q) Q) : Int) := by
  apply fresh_budget_bfv hQ ht
  intro x hx
  rw [Array.toList_ofFn, List.mem_ofFn] at hx
  obtain ⟨c, rfl⟩ := hx
  exact ⟨m c.val, _, fresh_noise_bound n e u e0 e1 s he he0 he1 hu hs c.val c.isLt, rfl⟩

end HC
