import Heathcliff.Proofs.GenContext
import Heathcliff.Proofs.GenWord2
import Heathcliff.Proofs.C13Validate

/-!
  Translator tie, round 7 (worker T), part 2: the constants GENERATED from `HeContext::validate` (Gen/ContextFns.lean) are the constants of
  the hand model (`Model/Context.lean`, `validate` / `validateBfv`) on every valid BFV / BGV level, and (with `C13.constants_eq_definitions`)
  their mathematical definitions.  Helper names start with `gcx_`.
-/
namespace HC
open HC.GenW HC.Ctx

/-- the value-level statement of `gcx_validate_bfv_consts_ok` with the moduli given by their values `qs = ms.map value` -/
theorem gcx_validate_bfv_consts_values {ms : List Modulus} {qs : List Nat} {t : Nat} {c0 u0 p0 : List Nat}
    (hms : ms.map (·.value) = qs) (hw : ∀ m ∈ ms, m.WF) (hk : 1 ≤ qs.length) (ht1 : 1 ≤ t) (ht : t + 1 < 2^64) (htQ : t ≤ prodL qs) :
    GenX.validate_bfv_consts ms t (fromNat qs.length (prodL qs)) c0 u0 p0 =
      .ok ((if 1 < qs.length then qs.map (fun q => prodL qs / t % q) else fromNat qs.length (prodL qs / t)),
           (if 1 < qs.length then qs.map (fun q => prodL qs % t % q) else fromNat qs.length (prodL qs % t)),
           (if qs.all (fun q => decide (t < q)) then qs.map (fun q => q - t) else fromNat qs.length (prodL qs - t)),
           (if qs.all (fun q => decide (t < q)) then 1 else 0), prodL qs % t, (t + 1) / 2) := by
  have hlen : ms.length = qs.length := by rw [← hms, List.length_map]
  have h := gcx_validate_bfv_consts_ok (ms := ms) (t := t) (Q := prodL qs) (total := fromNat qs.length (prodL qs)) (c0 := c0) (u0 := u0) (p0 := p0)
    hw (by omega) ht1 ht (by rw [hms]) (by rw [hlen]) htQ
  rw [h, hlen]
  have e1 : ∀ f : Nat → Nat, ms.map (fun m => f m.value) = qs.map f := by
    intro f; rw [← hms, List.map_map]; rfl
  have e2 : ms.all (fun m => decide (t < m.value)) = qs.all (fun q => decide (t < q)) := by
    rw [← hms, List.all_map]; rfl
  rw [e1 (fun q => prodL qs / t % q), e1 (fun q => prodL qs % t % q), e1 (fun q => q - t), e2]

/-- a single modulus: the (identity) decomposition of a value below the modulus is the list of its residue -/
theorem gcx_single {q x : Nat} (hx : x < q) (hq : q < 2^64) : fromNat [q].length x = [q].map (fun q => x % q) := by
  show [x % B64] = [x % q]
  rw [Nat.mod_eq_of_lt hx, Nat.mod_eq_of_lt (by unfold B64; omega)]

theorem gcx_dec_eq {qs : List Nat} {x : Nat} (hk : 1 ≤ qs.length) (hq : ∀ q ∈ qs, q < 2^64) (hx : qs.length ≤ 1 → x < prodL qs) :
    (if 1 < qs.length then qs.map (fun q => x % q) else fromNat qs.length x) = qs.map (fun q => x % q) := by
  by_cases h1 : 1 < qs.length
  · rw [if_pos h1]
  · rw [if_neg h1]
    obtain ⟨q, rfl⟩ : ∃ q, qs = [q] := List.length_eq_one_iff.mp (by omega)
    have : x < q := by have := hx (by simp); simpa [prodL] using this
    exact gcx_single this (hq q (by simp))

/-- **generated constants = model constants on every valid BFV / BGV level**: if the model's `validate` accepts `p` (result `c`), then for the
    `Modulus` objects `ms` of the parameter set (`ms.map value = p.q`, each well formed — what `Modulus::new` builds) the statement ranges
    GENERATED from `HeContext::validate` return exactly the fields of `c`: `total_coeff_modulus`, `total_coeff_modulus_bit_count`; the operands of
    `coeff_div_plain_modulus`, `upper_half_increment`, `plain_upper_half_increment`, `using_fast_plain_lift` (as 0/1),
    `coeff_modulus_mod_plain_modulus`, `plain_upper_half_threshold`; and `MultiplyU64ModOperand::new` (generated `GenW.mulop_new`) on each
    operand gives the model's `coeff_div_plain_modulus` entry. -/
theorem gcx_level_constants {isPrime : Nat → Bool} {p : Params} {sec : SecLevel} {c : ContextData}
    (h : validate isPrime p sec = .ok c) (hs : c.err = .Success) (hsch : p.scheme = .BFV ∨ p.scheme = .BGV)
    {ms : List Modulus} (hms : ms.map (·.value) = p.q) (hw : ∀ m ∈ ms, m.WF) (tot0 c0 u0 p0 : List Nat) :
    GenX.validate_total p.q tot0 = .ok (c.total, c.totalBits) ∧
    GenX.validate_bfv_consts ms p.t c.total c0 u0 p0 =
      .ok (c.coeffDivPlain.map (·.operand), c.upperHalfIncrement, c.plainUpperHalfIncrement, (if c.fastLift then 1 else 0), c.qModT,
           c.plainUpperHalfThreshold) ∧
    List.Forall₂ (fun m o => GenW.mulop_new (prodL p.q / p.t % m.value) m = .ok o) ms c.coeffDivPlain := by
  obtain ⟨_, hk, hq, _, _, hpl, _⟩ := validate_sound h hs
  obtain ⟨_, htot, _, hbits, _⟩ := constants_common h hs
  obtain ⟨hcdp, hqmt, huhi, hpuht, hpuhi, _, _, hfast⟩ := constants_bfv h hs hsch
  have hpl' : (2 ≤ p.t ∧ p.t < 2^60) ∧ (∀ q ∈ p.q, Nat.Coprime q p.t) ∧ p.t < prodL p.q := by
    unfold PlainOk at hpl
    rcases hsch with e | e <;> simpa [e] using hpl
  obtain ⟨⟨ht2, ht60⟩, _, htQ⟩ := hpl'
  have hne : p.q ≠ [] := by intro e; rw [e] at hk; simp at hk
  have hlimb : Limbs p.q := fun q hq' => by have := (hq q hq').2; omega
  have hq64 : ∀ q ∈ p.q, q < 2^64 := fun q hq' => by have := (hq q hq').2; omega
  refine ⟨?_, ?_, ?_⟩
  · rw [gcx_validate_total_ok hne hlimb, htot, hbits]
  · have hdq : prodL p.q / p.t < prodL p.q := Nat.div_lt_self (by omega) (by omega)
    have hdr : prodL p.q % p.t < prodL p.q := Nat.lt_trans (Nat.mod_lt _ (by omega)) htQ
    rw [htot, gcx_validate_bfv_consts_values hms hw hk.1 (by omega) (by omega) (by omega),
      gcx_dec_eq hk.1 hq64 (fun _ => hdq), gcx_dec_eq hk.1 hq64 (fun _ => hdr),
      hcdp, hqmt, huhi, hpuht, hpuhi, hfast, List.map_map]
    rfl
  · rw [hcdp, ← hms, List.map_map]
    refine gcx_forall₂_map _ _ ms (fun m hm => ?_)
    have hm2 := (hw m hm).two_le
    have hm61 := (hw m hm).lt
    have hy : prodL (ms.map (·.value)) / p.t % m.value < m.value := Nat.mod_lt _ (by omega)
    rw [gx_mulop_new_eq _ m (by omega)]
    unfold MulOperand.new
    rw [if_neg (by omega)]
    have : prodL (ms.map (·.value)) / p.t % m.value * B64 / m.value < B64 :=
      Nat.div_lt_of_lt_mul (Nat.mul_lt_mul_of_pos_right hy B64_pos)
    simp only [Function.comp, pure, Except.pure, Nat.mod_eq_of_lt this]
    rfl
end HC
