/- C01 part F: ENCRYPTION in the model, NTT form (CKKS, BGV) and KEY GENERATION.
   F0  `intt` commutes with multiplication by a constant; `rnsScalar`; the error term t·e in NTT form;
   F1  values of `encryptZeroAsym` / `encryptZeroSym` in NTT form, stated on the coefficient forms (`intt` of every component):
       (intt(pk_k) ⋆ u + tt·e_k) mod q_i resp. −(intt(a) ⋆ s + tt·e) mod q_i, tt = t for BGV and 1 otherwise;
   F2  the model's key generation (`genSecretKey`, `genPublicKey`) yields `PkRel` — the public key IS an encryption of zero under s
       with error tt·e — at the key level and at every level below it.
   All helper names carry the prefix `c01f_`. -/
import Heathcliff.Proofs.C01E
namespace HC
open Finset Polynomial

/-! ## F0 helpers -/

/-- `intt` commutes with multiplication by a constant modulo q on canonical vectors -/
theorem c01f_intt_smul {t : NTTTables} (hw : t.WF) (k : Nat) {x z : Array Nat}
    (hx : x.size = 2^t.k) (hz : z.size = 2^t.k)
    (hxl : ∀ j, j < 2^t.k → x.getD j 0 < t.modulus.value)
    (hzv : ∀ j, j < 2^t.k → z.getD j 0 = (k * x.getD j 0) % t.modulus.value) :
    ∀ j, j < 2^t.k → (intt t z).getD j 0 = (k * (intt t x).getD j 0) % t.modulus.value := by
  have hq2 := hw.mwf.two_le
  have hq0 : 0 < t.modulus.value := by omega
  obtain ⟨a1, a2⟩ := intt_sim hw x hx (fun j hj => by have := hxl j hj; omega)
  generalize hwdef : ((List.range (2^t.k)).map fun j => (k * (intt t x).getD j 0) % t.modulus.value).toArray = w
  have hws : w.size = 2^t.k := by rw [← hwdef]; simp
  have hwv : ∀ j, j < 2^t.k → w.getD j 0 = (k * (intt t x).getD j 0) % t.modulus.value := by
    intro j hj; rw [← hwdef]; exact getD_rangeMap _ _ hj
  have hwl : ∀ j, j < 2^t.k → w.getD j 0 < t.modulus.value := by
    intro j hj; rw [hwv j hj]; exact Nat.mod_lt _ hq0
  have hnw : ntt t w = z := by
    obtain ⟨e1, e2⟩ := ntt_eval hw w hws (fun j hj => by have := hwl j hj; omega)
    apply array_ext_getD e1 hz
    intro i hi
    have hxx := ntt_intt hw x hx hxl
    obtain ⟨_, ex⟩ := ntt_eval hw (intt t x) a1 (fun j hj => by have := (a2 j hj).1; omega)
    have hx' : x.getD i 0 = evalSpec t (intt t x) i := by rw [← ex i hi, hxx]
    rw [e2 i hi, hzv i hi, hx']
    apply cast_inj_lt (c01o_evalSpec_lt t hq0 _ _) (Nat.mod_lt _ hq0)
    rw [ZMod.natCast_mod, Nat.cast_mul, c01o_evalSpec_cast, c01o_evalSpec_cast, Finset.mul_sum]
    apply Finset.sum_congr rfl
    intro j hj
    rw [hwv j (mem_range.mp hj), ZMod.natCast_mod, Nat.cast_mul, mul_assoc]
  intro j hj
  rw [← hnw, intt_ntt hw w hws hwl, hwv j hj]

/-- negation modulo q is multiplication by q − 1 -/
theorem c01f_neg_eq_smul {q x : Nat} (hq : 0 < q) (hx : x ≤ q) : (q - x) % q = ((q - 1) * x) % q := by
  have h1 : (q - 1) * x + x = q * x := by
    have : q - 1 + 1 = q := by omega
    calc (q - 1) * x + x = (q - 1 + 1) * x := by ring
      _ = q * x := by rw [this]
  have h2 : ((q - 1) * x + x) % q = 0 := by rw [h1]; exact Nat.mul_mod_right q x
  have h3 : ((q - x) + x) % q = 0 := by rw [Nat.sub_add_cancel hx]; exact Nat.mod_self q
  have h4 : ((q - x) % q + x % q) % q = 0 := by rw [← Nat.add_mod]; exact h3
  have h5 : (((q - 1) * x) % q + x % q) % q = 0 := by rw [← Nat.add_mod]; exact h2
  have a1 := Nat.mod_lt (q - x) hq
  have a2 := Nat.mod_lt ((q - 1) * x) hq
  have a3 := Nat.mod_lt x hq
  generalize (q - x) % q = A at *
  generalize ((q - 1) * x) % q = B at *
  generalize x % q = C at *
  have e1 : A + C = 0 ∨ A + C = q := by
    rcases Nat.lt_or_ge (A + C) q with h | h
    · left; rwa [Nat.mod_eq_of_lt h] at h4
    · right
      have : (A + C - q) % q = 0 := by rw [← Nat.mod_eq_sub_mod h]; exact h4
      rw [Nat.mod_eq_of_lt (by omega)] at this; omega
  have e2 : B + C = 0 ∨ B + C = q := by
    rcases Nat.lt_or_ge (B + C) q with h | h
    · left; rwa [Nat.mod_eq_of_lt h] at h5
    · right
      have : (B + C - q) % q = 0 := by rw [← Nat.mod_eq_sub_mod h]; exact h5
      rw [Nat.mod_eq_of_lt (by omega)] at this; omega
  omega

/-- `rnsScalar` on a canonical polynomial: every residue times the scalar -/
theorem c01f_rnsScalar_spec {l : Level} (hl : l.WF) {s : Nat} (hs : s < 2^64) {a : RnsPoly} (ha : RnsCanon l a) :
    ∃ r, rnsScalar l a s = .ok r ∧ RnsCanon l r ∧ ∀ i, i < l.size → ∀ j, j < l.n →
      (r.getD i #[]).getD j 0 = ((a.getD i #[]).getD j 0 * s) % (l.q i).value :=
  c02v_compsMap_spec (c02v_qsWF_of_levelWF hl) hs ha

/-- the factor of the error terms: t for BGV, 1 for BFV / CKKS -/
def encTT (l : Level) : Nat := if l.scheme = .bgv then l.t.value else 1

theorem c01f_encTT_bgv {l : Level} (h : l.scheme = .bgv) : encTT l = l.t.value := by unfold encTT; rw [if_pos h]
theorem c01f_encTT_other {l : Level} (h : l.scheme ≠ .bgv) : encTT l = 1 := by unfold encTT; rw [if_neg h]

/-- the NTT-form error term: its coefficient form is (tt·e) mod q_i -/
theorem c01f_errorTerm_ntt {l : Level} (hl : l.WF) (ht : l.t.value < 2^64) {e : RnsPoly} (he : RnsCanon l e) :
    ∃ e', encErrorTerm l e true = .ok e' ∧ RnsCanon l e' ∧ ∀ i, i < l.size → ∀ c, c < l.n →
      (intt (l.tbl i) (e'.getD i #[])).getD c 0 = (encTT l * (e.getD i #[]).getD c 0) % (l.q i).value := by
  have hN := c01e_rnsNtt_canon hl he.pre
  have hback : ∀ i, i < l.size → intt (l.tbl i) ((rnsNtt l e).getD i #[]) = e.getD i #[] := by
    intro i hi
    obtain ⟨htw, htm, htn, _⟩ := c01o_level_comp hl hi
    rw [c01o_rnsNtt_getD l e hi]
    exact intt_ntt htw _ (by rw [(he.2 i hi).1, htn]) (fun j hj => by rw [htm]; exact (he.2 i hi).2 j (by omega))
  unfold encErrorTerm
  simp only [if_true]
  by_cases hs : l.scheme = .bgv
  · rw [if_pos hs, c01f_encTT_bgv hs]
    obtain ⟨r, hr, hrC, hrv⟩ := c01f_rnsScalar_spec hl ht hN
    refine ⟨r, hr, hrC, fun i hi c hc => ?_⟩
    obtain ⟨htw, htm, htn, _⟩ := c01o_level_comp hl hi
    have := c01f_intt_smul htw l.t.value (x := (rnsNtt l e).getD i #[]) (z := r.getD i #[])
      (by rw [(hN.2 i hi).1, htn]) (by rw [(hrC.2 i hi).1, htn])
      (fun j hj => by rw [htm]; exact (hN.2 i hi).2 j (by omega))
      (fun j hj => by rw [htm, hrv i hi j (by omega), Nat.mul_comm]) c (by omega)
    rw [this, hback i hi, htm]
  · rw [if_neg hs, c01f_encTT_other hs]
    refine ⟨rnsNtt l e, rfl, hN, fun i hi c hc => ?_⟩
    rw [hback i hi, Nat.one_mul, Nat.mod_eq_of_lt ((he.2 i hi).2 c hc)]

/-! ## F1: one polynomial of `encryptZeroAsym` in NTT form -/

theorem c01f_asym_poly_ntt {l : Level} (hl : l.WF) {u pk e' : RnsPoly} (hu : RnsCanon l u) (hpk : PreCanon l pk)
    (he' : RnsCanon l e') :
    ∃ r, (do let p ← rnsDyadic l (rnsNtt l u) pk; rnsAdd l p e') = .ok r ∧ RnsCanon l r ∧
      ∀ i, i < l.size → ∀ c, c < l.n → (intt (l.tbl i) (r.getD i #[])).getD c 0 =
        (negMulNat l.n (l.q i).value (intt (l.tbl i) (pk.getD i #[])) (u.getD i #[]) c
          + (intt (l.tbl i) (e'.getD i #[])).getD c 0) % (l.q i).value := by
  have hq61 : ∀ i, i < l.size → (l.q i).value < 2^61 := fun i hi => (c01o_level_comp hl hi).2.2.2.lt
  have hq2 : ∀ i, i < l.size → 2 ≤ (l.q i).value := fun i hi => (c01o_level_comp hl hi).2.2.2.two_le
  have hN := c01e_rnsNtt_canon hl hu.pre
  have hd := c01o_rnsDyadic_ok hl (a := rnsNtt l u) (b := pk)
    (fun i hi j hj => by
      have := (hN.2 i hi).2 j (by rw [← (hN.2 i hi).1]; exact hj)
      have := hq61 i hi; omega)
    (fun i hi j hj => by
      have := (hpk i hi).2 j (by rw [← (hN.2 i hi).1]; exact hj)
      have := hq61 i hi; omega)
  generalize hD : c01o_zipVal l (rnsNtt l u) pk (fun i x y => (x * y) % (l.q i).value) = D at hd
  have hDs : ∀ i, i < l.size → (D.getD i #[]).size = l.n := fun i hi => by
    rw [← hD, c01o_zipVal_comp_size _ _ _ _ hi]; exact (hN.2 i hi).1
  have hDv : ∀ i, i < l.size → ∀ j, j < l.n → (D.getD i #[]).getD j 0 =
      ((pk.getD i #[]).getD j 0 * (ntt (l.tbl i) (u.getD i #[])).getD j 0) % (l.q i).value := fun i hi j hj => by
    rw [← hD, c01o_zipVal_coeff _ _ _ _ hi (by rw [(hN.2 i hi).1]; exact hj), c01o_rnsNtt_getD l u hi, Nat.mul_comm]
  have hDl : ∀ i, i < l.size → ∀ j, j < l.n → (D.getD i #[]).getD j 0 < (l.q i).value := fun i hi j hj => by
    rw [hDv i hi j hj]; exact Nat.mod_lt _ (by have := hq2 i hi; omega)
  have ha := c01o_rnsAdd_ok hl (a := D) (b := e')
    (fun i hi j hj => hDl i hi j (by rw [← hDs i hi]; exact hj))
    (fun i hi j hj => (he'.2 i hi).2 j (by rw [← hDs i hi]; exact hj))
  generalize hP : c01o_zipVal l D e' (fun i x y => (x + y) % (l.q i).value) = r at ha
  have hPs : ∀ i, i < l.size → (r.getD i #[]).size = l.n := fun i hi => by
    rw [← hP, c01o_zipVal_comp_size _ _ _ _ hi]; exact hDs i hi
  have hPv : ∀ i, i < l.size → ∀ j, j < l.n → (r.getD i #[]).getD j 0 =
      ((D.getD i #[]).getD j 0 + (e'.getD i #[]).getD j 0) % (l.q i).value := fun i hi j hj => by
    rw [← hP, c01o_zipVal_coeff _ _ _ _ hi (by rw [hDs i hi]; exact hj)]
  refine ⟨r, ?_, ⟨?_, fun i hi => ⟨hPs i hi, fun j hj => ?_⟩⟩, fun i hi c hc => ?_⟩
  · rw [hd]; exact ha
  · rw [← hP]; exact c01o_zipVal_size _ _ _ _
  · rw [hPv i hi j hj]; exact Nat.mod_lt _ (by have := hq2 i hi; omega)
  · obtain ⟨htw, htm, htn, _⟩ := c01o_level_comp hl hi
    have h1 := c01o_intt_add htw (x := D.getD i #[]) (y := e'.getD i #[]) (z := r.getD i #[])
      (by rw [hDs i hi, htn]) (by rw [(he'.2 i hi).1, htn]) (by rw [hPs i hi, htn])
      (fun j hj => by rw [htm]; exact hDl i hi j (by omega))
      (fun j hj => by rw [htm]; exact (he'.2 i hi).2 j (by omega))
      (fun j hj => by rw [htm]; exact hPv i hi j (by omega)) c (by omega)
    have h2 := c01o_conv htw (x := pk.getD i #[]) (b := u.getD i #[]) (d := D.getD i #[])
      (by rw [(hpk i hi).1, htn]) (by rw [(hu.2 i hi).1, htn]) (by rw [hDs i hi, htn])
      (fun j hj => by rw [htm]; exact (hpk i hi).2 j (by omega))
      (fun j hj => by rw [htm]; exact (hu.2 i hi).2 j (by omega))
      (fun j hj => by rw [htm]; exact hDv i hi j (by omega)) c (by omega)
    rw [htn, htm] at h2
    rw [htm] at h1
    rw [h1, h2]

/-- F1 (public key, NTT form — CKKS, BGV): `encryptZeroAsym` succeeds on canonical inputs, and the COEFFICIENT FORM of polynomial k of
    the result is, in every RNS component, (intt(pk_k) ⋆ u + tt·e_k) mod q_i (tt = t for BGV, 1 otherwise) -/
theorem encryptZeroAsym_ntt {l : Level} (hl : l.WF) (ht : l.t.value < 2^64) {pk : Array RnsPoly} {u : RnsPoly} {es : Array RnsPoly}
    (hu : RnsCanon l u) (hpk : ∀ k, k < pk.size → PreCanon l (pk.getD k #[]))
    (he : ∀ k, k < pk.size → RnsCanon l (es.getD k #[])) :
    ∃ ct, encryptZeroAsym l pk u es true = .ok ct ∧ ct.ntt = true ∧ ct.cf = 1 ∧ ct.polys.size = pk.size ∧
      ∀ k, k < pk.size → RnsCanon l (ct.polys.getD k #[]) ∧ ∀ i, i < l.size → ∀ c, c < l.n →
        (intt (l.tbl i) ((ct.polys.getD k #[]).getD i #[])).getD c 0 =
          (negMulNat l.n (l.q i).value (intt (l.tbl i) ((pk.getD k #[]).getD i #[])) (u.getD i #[]) c
            + (encTT l * ((es.getD k #[]).getD i #[]).getD c 0) % (l.q i).value) % (l.q i).value := by
  let body : Nat → R RnsPoly := fun j => do
    let p ← rnsDyadic l (rnsNtt l u) (pk.getD j #[])
    let p := if true = true then p else rnsIntt l p
    let e ← encErrorTerm l (es.getD j #[]) true
    rnsAdd l p e
  have hex : ∀ k, k < pk.size → ∃ r, body k = .ok r ∧ RnsCanon l r ∧
      ∀ i, i < l.size → ∀ c, c < l.n → (intt (l.tbl i) (r.getD i #[])).getD c 0 =
        (negMulNat l.n (l.q i).value (intt (l.tbl i) ((pk.getD k #[]).getD i #[])) (u.getD i #[]) c
          + (encTT l * ((es.getD k #[]).getD i #[]).getD c 0) % (l.q i).value) % (l.q i).value := by
    intro k hk
    obtain ⟨e', he1, he2, he3⟩ := c01f_errorTerm_ntt hl ht (he k hk)
    obtain ⟨r, hr, hrC, hrv⟩ := c01f_asym_poly_ntt hl hu (hpk k hk) he2
    refine ⟨r, ?_, hrC, fun i hi c hc => by rw [hrv i hi c hc, he3 i hi c hc]⟩
    show (do let p ← rnsDyadic l (rnsNtt l u) (pk.getD k #[])
             let p := if true = true then p else rnsIntt l p
             let e ← encErrorTerm l (es.getD k #[]) true
             rnsAdd l p e) = _
    simp only [if_true]
    rw [← hr]
    cases hdy : rnsDyadic l (rnsNtt l u) (pk.getD k #[]) with
    | error x => rfl
    | ok p => simp only [ok_bind, he1]
  have hok : ∀ k, k < pk.size → body k = .ok (c01p_val (body k)) := fun k hk => by
    obtain ⟨r, hr, _⟩ := hex k hk
    exact c01p_val_ok ⟨r, hr⟩
  have hm := c01e_mapM_range_ok pk.size body (fun k => c01p_val (body k)) hok
  refine ⟨⟨((List.range pk.size).map (fun k => c01p_val (body k))).toArray, true, 1⟩, ?_, rfl, rfl, by simp, ?_⟩
  · unfold encryptZeroAsym
    show (do let cs ← (List.range pk.size).mapM body; pure (⟨cs.toArray, true, 1⟩ : Ct)) = _
    rw [hm]; rfl
  · intro k hk
    show RnsCanon l (((List.range pk.size).map (fun k => c01p_val (body k))).toArray.getD k #[]) ∧ _
    rw [getD_rangeMap' _ _ _ hk]
    obtain ⟨r, hr, h1, h2⟩ := hex k hk
    have : c01p_val (body k) = r := by rw [hr]; rfl
    rw [this]
    exact ⟨h1, h2⟩

/-! ## F1': `encryptZeroSym` in NTT form (CKKS, BGV, and the public key of every scheme) -/

/-- F1' (secret key, NTT form): (c0, c1) with c1 = the mask `a` itself (with and without a saved seed) and the COEFFICIENT FORM of c0
    is −(intt(a) ⋆ s + tt·e) mod q_i in every component -/
theorem encryptZeroSym_ntt {l : Level} (hl : l.WF) (ht : l.t.value < 2^64) {sk : Array Int} (hsk : sk.size = l.n)
    {a e : RnsPoly} (ha : RnsCanon l a) (he : RnsCanon l e) (saveSeed : Bool) :
    ∃ c0, encryptZeroSym l sk a e true saveSeed = .ok ⟨#[c0, a], true, 1⟩ ∧ RnsCanon l c0 ∧
      ∀ i, i < l.size → ∀ c, c < l.n → (intt (l.tbl i) (c0.getD i #[])).getD c 0 =
        ((l.q i).value - (negMulNat l.n (l.q i).value (intt (l.tbl i) (a.getD i #[])) (skRes l sk i) c
          + (encTT l * (e.getD i #[]).getD c 0) % (l.q i).value) % (l.q i).value) % (l.q i).value := by
  have hq61 : ∀ i, i < l.size → (l.q i).value < 2^61 := fun i hi => (c01o_level_comp hl hi).2.2.2.lt
  have hq2 : ∀ i, i < l.size → 2 ≤ (l.q i).value := fun i hi => (c01o_level_comp hl hi).2.2.2.two_le
  have hd := c01o_rnsDyadic_ok hl (a := skNtt l sk) (b := a)
    (fun i hi j hj => by
      rw [c01o_skNtt_getD l sk hi] at hj ⊢
      have := (c01o_sk_comp hl hsk hi).2.2.2 j (by rw [← (c01o_sk_comp hl hsk hi).2.2.1]; exact hj)
      have := hq61 i hi; omega)
    (fun i hi j hj => by
      rw [c01o_skNtt_getD l sk hi] at hj
      have := (ha.2 i hi).2 j (by rw [← (c01o_sk_comp hl hsk hi).2.2.1]; exact hj)
      have := hq61 i hi; omega)
  generalize hD : c01o_zipVal l (skNtt l sk) a (fun i x y => (x * y) % (l.q i).value) = D at hd
  have hDs : ∀ i, i < l.size → (D.getD i #[]).size = l.n := fun i hi => by
    rw [← hD, c01o_zipVal_comp_size _ _ _ _ hi, c01o_skNtt_getD l sk hi]; exact (c01o_sk_comp hl hsk hi).2.2.1
  have hDv : ∀ i, i < l.size → ∀ j, j < l.n → (D.getD i #[]).getD j 0 =
      ((a.getD i #[]).getD j 0 * (ntt (l.tbl i) (skRes l sk i)).getD j 0) % (l.q i).value := fun i hi j hj => by
    rw [← hD, c01o_zipVal_coeff _ _ _ _ hi (by rw [c01o_skNtt_getD l sk hi, (c01o_sk_comp hl hsk hi).2.2.1]; exact hj),
      c01o_skNtt_getD l sk hi, Nat.mul_comm]
  have hDl : ∀ i, i < l.size → ∀ j, j < l.n → (D.getD i #[]).getD j 0 < (l.q i).value := fun i hi j hj => by
    rw [hDv i hi j hj]; exact Nat.mod_lt _ (by have := hq2 i hi; omega)
  obtain ⟨e', he1, he2, he3⟩ := c01f_errorTerm_ntt hl ht he
  have hadd := c01o_rnsAdd_ok hl (a := D) (b := e')
    (fun i hi j hj => hDl i hi j (by rw [← hDs i hi]; exact hj))
    (fun i hi j hj => (he2.2 i hi).2 j (by rw [← hDs i hi]; exact hj))
  generalize hP : c01o_zipVal l D e' (fun i x y => (x + y) % (l.q i).value) = r at hadd
  have hPs : ∀ i, i < l.size → (r.getD i #[]).size = l.n := fun i hi => by
    rw [← hP, c01o_zipVal_comp_size _ _ _ _ hi]; exact hDs i hi
  have hPv : ∀ i, i < l.size → ∀ j, j < l.n → (r.getD i #[]).getD j 0 =
      ((D.getD i #[]).getD j 0 + (e'.getD i #[]).getD j 0) % (l.q i).value := fun i hi j hj => by
    rw [← hP, c01o_zipVal_coeff _ _ _ _ hi (by rw [hDs i hi]; exact hj)]
  have hrC : RnsCanon l r := ⟨by rw [← hP]; exact c01o_zipVal_size _ _ _ _, fun i hi => ⟨hPs i hi, fun j hj => by
    rw [hPv i hi j hj]; exact Nat.mod_lt _ (by have := hq2 i hi; omega)⟩⟩
  -- coefficient form of r
  have hrI : ∀ i, i < l.size → ∀ c, c < l.n → (intt (l.tbl i) (r.getD i #[])).getD c 0 =
      (negMulNat l.n (l.q i).value (intt (l.tbl i) (a.getD i #[])) (skRes l sk i) c
        + (encTT l * (e.getD i #[]).getD c 0) % (l.q i).value) % (l.q i).value := by
    intro i hi c hc
    obtain ⟨htw, htm, htn, _⟩ := c01o_level_comp hl hi
    obtain ⟨s1, s2, _, _⟩ := c01o_sk_comp hl hsk hi
    have h1 := c01o_intt_add htw (x := D.getD i #[]) (y := e'.getD i #[]) (z := r.getD i #[])
      (by rw [hDs i hi, htn]) (by rw [(he2.2 i hi).1, htn]) (by rw [hPs i hi, htn])
      (fun j hj => by rw [htm]; exact hDl i hi j (by omega))
      (fun j hj => by rw [htm]; exact (he2.2 i hi).2 j (by omega))
      (fun j hj => by rw [htm]; exact hPv i hi j (by omega)) c (by omega)
    have h2 := c01o_conv htw (x := a.getD i #[]) (b := skRes l sk i) (d := D.getD i #[])
      (by rw [(ha.2 i hi).1, htn]) (by rw [s1, htn]) (by rw [hDs i hi, htn])
      (fun j hj => by rw [htm]; exact (ha.2 i hi).2 j (by omega))
      (fun j hj => by rw [htm]; exact s2 j (by omega))
      (fun j hj => by rw [htm]; exact hDv i hi j (by omega)) c (by omega)
    rw [htn, htm] at h2
    rw [htm] at h1
    rw [h1, h2, he3 i hi c hc]
  obtain ⟨c0, hneg, hc0C, hc0v⟩ := c02v_rnsNeg_spec (c02v_qsWF_of_levelWF hl) hrC
  refine ⟨c0, ?_, hc0C, fun i hi c hc => ?_⟩
  · have hE : (if l.scheme = .bgv then rnsScalar l (rnsNtt l e) l.t.value else pure (rnsNtt l e)) = .ok e' := by
      have := he1
      unfold encErrorTerm at this
      simpa using this
    unfold encryptZeroSym
    simp only [Bool.true_or, if_true, Bool.not_true, Bool.false_and]
    rw [hd, ok_bind]
    by_cases hs : l.scheme = .bgv
    · rw [if_pos hs] at hE
      rw [if_pos hs, hE, ok_bind, hadd, ok_bind, hneg, ok_bind]; rfl
    · rw [if_neg hs] at hE
      rw [if_neg hs, hE, ok_bind, hadd, ok_bind, hneg, ok_bind]; rfl
  · -- intt of the negation = negation of the intt
    obtain ⟨htw, htm, htn, _⟩ := c01o_level_comp hl hi
    have hq0 : 0 < (l.q i).value := by have := hq2 i hi; omega
    have hsm := c01f_intt_smul htw ((l.q i).value - 1) (x := r.getD i #[]) (z := c0.getD i #[])
      (by rw [hPs i hi, htn]) (by rw [(hc0C.2 i hi).1, htn])
      (fun j hj => by rw [htm]; exact (hrC.2 i hi).2 j (by omega))
      (fun j hj => by
        rw [htm, hc0v i hi j (by omega)]
        have hx := (hrC.2 i hi).2 j (by omega)
        generalize (r.getD i #[]).getD j 0 = x at hx
        generalize (l.q i).value = q at hx hq0
        exact c01f_neg_eq_smul hq0 (Nat.le_of_lt hx)) c (by omega)
    rw [hsm, htm, hrI i hi c hc]
    have hy := Nat.mod_lt (negMulNat l.n (l.q i).value (intt (l.tbl i) (a.getD i #[])) (skRes l sk i) c
        + (encTT l * (e.getD i #[]).getD c 0) % (l.q i).value) hq0
    generalize (negMulNat l.n (l.q i).value (intt (l.tbl i) (a.getD i #[])) (skRes l sk i) c
        + (encTT l * (e.getD i #[]).getD c 0) % (l.q i).value) % (l.q i).value = y at hy
    generalize (l.q i).value = q at hy hq0
    exact (c01f_neg_eq_smul hq0 (Nat.le_of_lt hy)).symm

/-! ## F2: KEY GENERATION of the model yields `PkRel` -/

/-- the stored secret key of the model's key generation, from the ternary sample in the samplers' encoding, is `skNtt` of the signed
    coefficients (the representation every decryption theorem uses) -/
theorem genSecretKey_eq_skNtt (l : Level) (sk : Array Int) : genSecretKey l (rnsOfInt l sk) = skNtt l sk := by
  unfold genSecretKey rnsNtt skNtt
  congr 1
  funext i
  rw [c01e_rnsOfInt_getD l sk i.isLt]
  rfl

theorem c01f_neg_cast {q x : Nat} (hq : 0 < q) {Z : Int} (hx : (x : Int) ≡ Z [ZMOD (q : Int)]) :
    (((q - x % q) % q : Nat) : Int) ≡ (-1 : Int) * Z [ZMOD (q : Int)] := by
  have hlt : x % q ≤ q := Nat.le_of_lt (Nat.mod_lt _ hq)
  refine (cast_mod_modEq _ _).trans ?_
  rw [Nat.cast_sub hlt]
  have h1 := (cast_mod_modEq x q).trans hx
  have h2 : ((q : Nat) : Int) ≡ 0 [ZMOD (q : Int)] := by
    apply Int.modEq_zero_iff_dvd.mpr; exact dvd_refl _
  have h3 := h2.sub h1
  refine h3.trans ?_
  have e : (0 : Int) - Z = (-1 : Int) * Z := by ring
  rw [e]

/-- `PkRel` FROM KEY GENERATION: for every well-formed level (the key level), every secret s, every mask `a` (what `uniform` drew, or what
    `expand_seed` regenerates for a saved seed) and every error polynomial e, the model's `genPublicKey` succeeds and its result
    (pk0, pk1 = a) is an encryption of zero under s with error tt·e: `PkRel l s (tt·e) pk0 pk1` -/
theorem genPublicKey_pkRel {l : Level} (hl : l.WF) (ht : l.t.value < 2^64) {sk : Array Int} (hsk : sk.size = l.n)
    {a : RnsPoly} (ha : RnsCanon l a) {e : Array Int} (hes : e.size = l.n) (saveSeed : Bool) :
    ∃ pk0, genPublicKey l sk a (rnsOfInt l e) saveSeed = .ok ⟨#[pk0, a], true, 1⟩ ∧ RnsCanon l pk0 ∧
      PkRel l sk (fun c => (encTT l : Int) * e.getD c 0) pk0 a := by
  have hq0 : ∀ i, i < l.size → 0 < (l.q i).value := fun i hi => by have := (c01o_level_comp hl hi).2.2.2.two_le; omega
  obtain ⟨c0, hz, hC0, hv⟩ := encryptZeroSym_ntt hl ht hsk ha (c01e_rnsOfInt_canon hl hes) saveSeed
  refine ⟨c0, hz, hC0, hC0.pre, ha.pre, fun i hi c hc => ?_⟩
  rw [hv i hi c hc]
  have hN : (negMulNat l.n (l.q i).value (intt (l.tbl i) (a.getD i #[])) (skRes l sk i) c : Int) ≡
      negMulR l.n (fun p => (((intt (l.tbl i) (a.getD i #[])).getD p 0 : Nat) : Int)) (fun p => sk.getD p 0) c
      [ZMOD ((l.q i).value : Int)] :=
    c02w_negMulNat_modEq (hq0 i hi) _ _ _ _ (fun p _ => Int.ModEq.refl _)
      (fun p _ => by rw [c01p_skRes_eq]; exact c01p_skResQ_modEq sk (hq0 i hi) p) hc
  have hE : (((encTT l * ((rnsOfInt l e).getD i #[]).getD c 0) % (l.q i).value : Nat) : Int) ≡
      (encTT l : Int) * e.getD c 0 [ZMOD ((l.q i).value : Int)] := by
    refine (cast_mod_modEq _ _).trans ?_
    push_cast
    exact Int.ModEq.mul (Int.ModEq.refl _) (c01e_rnsOfInt_modEq e hi (hq0 i hi) c)
  have hx : (((negMulNat l.n (l.q i).value (intt (l.tbl i) (a.getD i #[])) (skRes l sk i) c
      + (encTT l * ((rnsOfInt l e).getD i #[]).getD c 0) % (l.q i).value : Nat)) : Int) ≡
      negMulR l.n (fun p => (((intt (l.tbl i) (a.getD i #[])).getD p 0 : Nat) : Int)) (fun p => sk.getD p 0) c
        + (encTT l : Int) * e.getD c 0 [ZMOD ((l.q i).value : Int)] := by
    push_cast
    exact Int.ModEq.add hN (by exact_mod_cast hE)
  exact c01f_neg_cast (hq0 i hi) hx

/-- `l'` is a level below `l` in the same context: fewer moduli, the same first moduli and NTT tables, the same degree -/
structure LevelPrefix (l' l : Level) : Prop where
  size : l'.size ≤ l.size
  n : l'.n = l.n
  q : ∀ i, i < l'.size → l'.q i = l.q i
  tbl : ∀ i, i < l'.size → l'.tbl i = l.tbl i

/-- the public key relation of the key level holds at every level below it (the code hands the first components of the key to
    `dyadic_product_p` with the level's moduli) -/
theorem PkRel.lower {l l' : Level} (hp : LevelPrefix l' l) {sk : Array Int} {E : Nat → Int} {pk0 pk1 : RnsPoly}
    (h : PkRel l sk E pk0 pk1) : PkRel l' sk E pk0 pk1 := by
  obtain ⟨h0, h1, h2⟩ := h
  refine ⟨fun i hi => ?_, fun i hi => ?_, fun i hi c hc => ?_⟩
  · rw [hp.n, hp.q i hi]; exact h0 i (lt_of_lt_of_le hi hp.size)
  · rw [hp.n, hp.q i hi]; exact h1 i (lt_of_lt_of_le hi hp.size)
  · rw [hp.n] at hc ⊢
    rw [hp.q i hi, hp.tbl i hi]
    exact h2 i (lt_of_lt_of_le hi hp.size) c hc

theorem LevelPrefix.refl (l : Level) : LevelPrefix l l := ⟨Nat.le_refl _, rfl, fun _ _ => rfl, fun _ _ => rfl⟩

/-- the error of the generated public key is bounded by tt·21 when the drawn error is bounded by 21 (`sample::centered_binomial`, C16) -/
theorem genPublicKey_error_bound (l : Level) {e : Array Int} (he : ∀ p, p < l.n → (e.getD p 0).natAbs ≤ 21) :
    ∀ p, p < l.n → ((encTT l : Int) * e.getD p 0).natAbs ≤ encTT l * 21 := by
  intro p hp
  rw [Int.natAbs_mul, Int.natAbs_natCast]
  exact Nat.mul_le_mul_left _ (he p hp)

end HC
