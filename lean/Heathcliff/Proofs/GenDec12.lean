/-
  Phase 4m, part 12: `bfv_decrypt`, `ckks_decrypt`, `decrypt` (src/encryptor.rs) as regenerated (skeletons): refusals, order of the opaque steps,
  destination sizes, trimming - the shape of `bfvDecrypt` / `ckksDecrypt` (Model/Scheme.lean) and the dispatch on the scheme.
-/
import Heathcliff.Proofs.GenDec11
namespace HC
open HC.GenDec

/-- GENERATED `bfv_decrypt`: refused in NTT form; steps 1 (phase), 4 (`decrypt_scale_and_round` writing the n words `dec`); `trimPlain` -/
theorem gd_bfv_decrypt_eq (ntt : Bool) (n k : Nat) (dec d plan : List Nat) (hnk : n * k < 2^64) :
    dec_bfv_decrypt ntt n k dec d plan =
      (if ntt = true then .error .refused else
        copyWhole (resizeL d n 0) dec >>= fun d0 => .ok (resizeL d0 (max (sigWords d0) 1) 0, plan ++ [1] ++ [4])) := by
  unfold dec_bfv_decrypt
  have hm : ckMul n k = .ok (n * k) := by unfold ckMul; rw [if_pos (by simpa [B64] using hnk)]
  cases ntt
  · simp only [Bool.false_eq_true, not_false_eq_true, if_true, if_false, hm, bind, Except.bind, pure, Except.pure]
    cases copyWhole (resizeL d n 0) dec with
    | error e => rfl
    | ok d0 => simp only [gd_get_significant_uint64_count_uint_eq]
  · simp

/-- GENERATED `ckks_decrypt`: refused unless NTT form; the destination gets n·k words = the phase itself; then parms_id and scale are copied -/
theorem gd_ckks_decrypt_eq (ntt : Bool) (n k : Nat) (ph d plan : List Nat) (hnk : n * k < 2^64) :
    dec_ckks_decrypt ntt n k ph d plan =
      (if ntt = true then copyWhole (resizeL d (n * k) 0) ph >>= fun d0 => .ok (d0, plan ++ [1] ++ [5] ++ [6]) else .error .refused) := by
  unfold dec_ckks_decrypt
  have hm : ckMul n k = .ok (n * k) := by unfold ckMul; rw [if_pos (by simpa [B64] using hnk)]
  cases ntt
  · simp
  · simp only [if_true, hm, bind, Except.bind, pure, Except.pure]

/-- GENERATED `decrypt`: the three refusals in source order (seeded ciphertext, invalid, fewer than 2 polynomials), then the dispatch -/
theorem gd_decrypt_dispatch_eq (seed valid : Bool) (size : Nat) (scheme : Scheme) (plan : List Nat) :
    dec_decrypt_dispatch seed valid size scheme plan =
      (if seed = true ∨ valid = false ∨ size < 2 then .error .refused
       else .ok (plan ++ [match scheme with | .bfv => 31 | .ckks => 32 | .bgv => 33])) := by
  unfold dec_decrypt_dispatch
  cases seed <;> cases valid <;> cases scheme <;> by_cases h : size < 2 <;> simp [h, pure, Except.pure]

/-- witness: BFV decryption of 8 coefficients [3, 0, 7, 0, 0, 0, 0, 0] is trimmed to 3 -/
theorem gd_bfv_witness : dec_bfv_decrypt false 8 2 [3, 0, 7, 0, 0, 0, 0, 0] [] [] = .ok ([3, 0, 7], [1, 4]) := by decide +kernel

end HC
