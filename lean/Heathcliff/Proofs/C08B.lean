/- C08 part B: exponentiation, gcd, extended gcd / inversion, NAF.
   `mulMod_exact` of part A is taken as the hypothesis `hmul`.
   NOTE: the original `tryInvert_spec` is false for `v ≥ 2^63` (i64 overflow in `xgcd`); it is kept as
   `TryInvertStatement`, refuted by `tryInvertStatement_false`, and proved under `v < 2^63` as
   `tryInvert_spec_partial`. -/
import Heathcliff.Proofs.Word
import Mathlib.Data.Nat.GCD.Basic
import Mathlib.Data.Nat.ModEq
import Mathlib.Tactic.LinearCombination
namespace HC

variable {m : Modulus}

/-! ### exponentiation -/


theorem exp_step_odd (p i h q : Nat) :
    ((p * i) % q * ((p * p) % q) ^ h) % q = (i * p ^ (2 * h + 1)) % q := by
  have h1 : ((p * i) % q * ((p * p) % q) ^ h) ≡ (p * i) * (p * p) ^ h [MOD q] :=
    (Nat.mod_modEq _ _).mul ((Nat.mod_modEq _ _).pow h)
  have h2 : (p * i) * (p * p) ^ h = i * p ^ (2 * h + 1) := by
    rw [← pow_two, ← pow_mul]; ring
  rw [← h2]; exact h1

theorem exp_step_even (p i h q : Nat) :
    (i * ((p * p) % q) ^ h) % q = (i * p ^ (2 * h)) % q := by
  have h1 : (i * ((p * p) % q) ^ h) ≡ i * (p * p) ^ h [MOD q] :=
    (Nat.ModEq.refl i).mul ((Nat.mod_modEq _ _).pow h)
  have h2 : i * (p * p) ^ h = i * p ^ (2 * h) := by
    rw [← pow_two, ← pow_mul]
  rw [← h2]; exact h1

theorem expLoop_exact
    (hmul : ∀ {x y : Nat}, x < 2^64 → y < 2^64 → mulMod x y m = .ok ((x * y) % m.value))
    (h : m.WF) : ∀ (fuel p e i : Nat), p < 2^64 → i < 2^64 → 0 < e → e < 2^fuel →
      expLoop m fuel p e i = .ok ((i * p ^ e) % m.value) := by
  have hq : m.value < 2^64 := lt_trans h.lt (by norm_num)
  have hq0 : 0 < m.value := lt_of_lt_of_le (by norm_num) h.two_le
  intro fuel
  induction fuel with
  | zero => intro p e i _ _ he0 he; simp at he; omega
  | succ n ih =>
    intro p e i hp hi he0 he
    have hmod : ∀ z, z % m.value < 2^64 := fun z => lt_trans (Nat.mod_lt _ hq0) hq
    rw [expLoop]
    have hdm := Nat.div_add_mod e 2
    by_cases hodd : e % 2 = 1
    · simp only [hodd, if_true, hmul hp hi, bind, Except.bind, pure, Except.pure]
      by_cases he' : e / 2 = 0
      · have : e = 1 := by omega
        subst this
        simp [Nat.mul_comm]
      · rw [if_neg he', hmul hp hp]
        simp only []
        rw [ih _ _ _ (hmod _) (hmod _) (by omega) (by rw [pow_succ] at he; omega)]
        rw [exp_step_odd]
        have : 2 * (e / 2) + 1 = e := by omega
        rw [this]
    · simp only [hodd, if_false, bind, Except.bind, pure, Except.pure]
      have he' : e / 2 ≠ 0 := by omega
      rw [if_neg he', hmul hp hp]
      simp only []
      rw [ih _ _ _ (hmod _) hi (by omega) (by rw [pow_succ] at he; omega)]
      rw [exp_step_even]
      have : 2 * (e / 2) = e := by omega
      rw [this]

/-- exponentiation (operands already reduced): exponent 0 ↦ 1, exponent 1 ↦ the operand itself (unreduced, as coded),
    otherwise x^e mod q -/
theorem exponentiateMod_exact
    (hmul : ∀ {x y : Nat}, x < 2^64 → y < 2^64 → mulMod x y m = .ok ((x * y) % m.value))
    (h : m.WF) {x e : Nat} (hx : x < 2^64) (he : e < 2^64) :
    exponentiateMod x e m = .ok (if e = 0 then 1 else if e = 1 then x else (x ^ e) % m.value) := by
  unfold exponentiateMod
  by_cases h0 : e = 0
  · simp [h0, pure, Except.pure]
  · by_cases h1 : e = 1
    · simp [h1, pure, Except.pure]
    · rw [if_neg h0, if_neg h1, if_neg h0, if_neg h1]
      rw [expLoop_exact hmul h 64 x e 1 hx (by norm_num) (by omega) he]
      simp

/-! ### gcd -/

theorem gcdLoop_exact : ∀ (fuel x y : Nat), y ≤ x → x * y < 2^fuel → gcdLoop (fuel+1) x y = Nat.gcd x y := by
  intro fuel
  induction fuel with
  | zero =>
    intro x y hyx h
    have hy : y = 0 := by
      rcases Nat.eq_zero_or_pos y with h0 | h0
      · exact h0
      · have : 0 < x * y := Nat.mul_pos (by omega) h0
        omega
    subst hy
    simp [gcdLoop]
  | succ n ih =>
    intro x y hyx h
    rw [gcdLoop]
    rw [if_neg (by omega)]
    by_cases hy : y = 0
    · subst hy; simp
    · rw [if_neg hy]
      have hrec : Nat.gcd x y = Nat.gcd y (x % y) := by
        rw [Nat.gcd_comm, Nat.gcd_rec, Nat.gcd_comm]
      by_cases hf : x % y = 0
      · simp only [hf, if_true]
        rw [hrec, hf, Nat.gcd_zero_right]
      · simp only [hf, if_false]
        rw [hrec]
        have hlt : x % y < y := Nat.mod_lt _ (by omega)
        apply ih
        · omega
        · have h1 := Nat.div_add_mod x y
          have h2 : 1 ≤ x / y := Nat.div_pos hyx (by omega)
          have h3 : y * 1 ≤ y * (x / y) := Nat.mul_le_mul_left _ h2
          have h4 : 2 * (x % y) ≤ x := by omega
          have h5 : y * (2 * (x % y)) ≤ y * x := Nat.mul_le_mul_left _ h4
          have h6 : y * x = x * y := Nat.mul_comm _ _
          have h7 : y * (2 * (x % y)) = 2 * (y * (x % y)) := by ring
          rw [pow_succ] at h
          omega

theorem gcdU64_exact {x y : Nat} (hx : x < 2^64) (hy : y < 2^64) : gcdU64 x y = Nat.gcd x y := by
  have hxy : x * y < 2^64 * 2^64 := by
    rcases Nat.eq_zero_or_pos y with h0 | h0
    · subst h0; simp
    · exact Nat.mul_lt_mul'' hx hy
  unfold gcdU64
  by_cases hlt : x < y
  · rw [gcdLoop, if_pos hlt, Nat.gcd_comm]
    apply gcdLoop_exact _ _ _ (by omega)
    rw [Nat.mul_comm]
    calc x * y < 2^64 * 2^64 := hxy
      _ ≤ 2^198 := by norm_num
  · apply gcdLoop_exact _ _ _ (by omega)
    calc x * y < 2^64 * 2^64 := hxy
      _ ≤ 2^199 := by norm_num

/-! ### extended gcd / inversion -/

theorem ckI64_ok {v : Int} (h1 : -(2^63 : Int) ≤ v) (h2 : v < 2^63) : ckI64 v = .ok v := by
  unfold ckI64; rw [if_pos ⟨h1, h2⟩]; rfl

theorem asI64_small {v : Nat} (h : v < 2^63) : asI64 v = (v : Int) := by
  unfold asI64; rw [if_pos h]; rfl

theorem xgcdLoop_zero_y (fuel x : Nat) (pa a pb b : Int) :
    xgcdLoop (fuel+1) x 0 pa a pb b = .ok (x, pa, pb) := by
  rw [xgcdLoop]; simp [pure, Except.pure]

theorem xgcdLoop_succ (fuel x y : Nat) (pa a pb b : Int) (hy : y ≠ 0) (ht : x / y < 2^63)
    (h1 : -(2^63 : Int) ≤ (x / y : Nat) * a ∧ ((x / y : Nat) : Int) * a < 2^63)
    (h2 : -(2^63 : Int) ≤ pa - (x / y : Nat) * a ∧ pa - ((x / y : Nat) : Int) * a < 2^63)
    (h3 : -(2^63 : Int) ≤ (x / y : Nat) * b ∧ ((x / y : Nat) : Int) * b < 2^63)
    (h4 : -(2^63 : Int) ≤ pb - (x / y : Nat) * b ∧ pb - ((x / y : Nat) : Int) * b < 2^63) :
    xgcdLoop (fuel+1) x y pa a pb b =
      xgcdLoop fuel y (x % y) a (pa - (x / y : Nat) * a) b (pb - (x / y : Nat) * b) := by
  rw [xgcdLoop, if_neg hy, asI64_small ht]
  simp only [bind, Except.bind, ckI64_ok h1.1 h1.2, ckI64_ok h2.1 h2.2, ckI64_ok h3.1 h3.2,
    ckI64_ok h4.1 h4.2]

theorem bound_helper {y A c Q : Int} (hy : 1 ≤ y) (hA : 0 ≤ A) (hc : 0 ≤ c) (h : y * A + c = Q) :
    A ≤ Q := by
  nlinarith [mul_nonneg (sub_nonneg.2 hy) hA]

structure XInv (V Q x y : Nat) (pa a pb b : Int) : Prop where
  xpos : 0 < x
  xlt : x < 2^63
  ylt : y < 2^63
  gcd_eq : Nat.gcd x y = Nat.gcd V Q
  hx : (x : Int) = pa * V + pb * Q
  hy : (y : Int) = a * V + b * Q
  sg : ∃ s : Int, (s = 1 ∨ s = -1) ∧ 0 ≤ s * pa ∧ s * a ≤ 0 ∧ s * pb ≤ 0 ∧ 0 ≤ s * b ∧
        (-(s * a)) * x + (s * pa) * y = Q ∧ (s * b) * x + (-(s * pb)) * y = V ∧ s * pa ≤ Q

/-- core arithmetic: the new coefficient is bounded by the constant of the invariant -/
theorem core_bound {x y t r A PA Q : Int} (hdiv : x = y * t + r) (hy : 1 ≤ y) (ht : 0 ≤ t) (hr : 0 ≤ r)
    (hA : 0 ≤ A) (hPA : 0 ≤ PA) (h : A * x + PA * y = Q) :
    0 ≤ t * A ∧ PA + t * A ≤ Q := by
  have htA : 0 ≤ t * A := mul_nonneg ht hA
  refine ⟨htA, ?_⟩
  have hk : y * (PA + t * A) + A * r = Q := by linear_combination h - A * hdiv
  exact bound_helper hy (by linarith) (mul_nonneg hA hr) hk


theorem XInv.ranges {V Q x y : Nat} {pa a pb b : Int} (hQ : Q < 2^61) (hV : V < 2^63)
    (inv : XInv V Q x y pa a pb b) (hy0 : y ≠ 0) :
    (-(2^63 : Int) ≤ (x / y : Nat) * a ∧ ((x / y : Nat) : Int) * a < 2^63) ∧
    (-(2^63 : Int) ≤ pa - (x / y : Nat) * a ∧ pa - ((x / y : Nat) : Int) * a < 2^63) ∧
    (-(2^63 : Int) ≤ (x / y : Nat) * b ∧ ((x / y : Nat) : Int) * b < 2^63) ∧
    (-(2^63 : Int) ≤ pb - (x / y : Nat) * b ∧ pb - ((x / y : Nat) : Int) * b < 2^63) := by
  obtain ⟨s, hs, h1, h2, h3, h4, eA, eB, hle⟩ := inv.sg
  have hdiv : (x : Int) = y * (x / y : Nat) + (x % y : Nat) := by
    have := Nat.div_add_mod x y
    exact_mod_cast this.symm
  have hy1 : (1 : Int) ≤ y := by omega
  have ht : (0 : Int) ≤ (x / y : Nat) := Int.natCast_nonneg _
  have hr : (0 : Int) ≤ (x % y : Nat) := Int.natCast_nonneg _
  have hQ' : (Q : Int) < 2^61 := by exact_mod_cast hQ
  have hV' : (V : Int) < 2^63 := by exact_mod_cast hV
  have cA := core_bound hdiv hy1 ht hr (by linarith : 0 ≤ -(s * a)) h1 eA
  have cB := core_bound hdiv hy1 ht hr h4 (by linarith : 0 ≤ -(s * pb)) eB
  generalize ((x / y : Nat) : Int) = t at *
  rcases hs with rfl | rfl
  · simp only [one_mul] at *
    refine ⟨⟨?_, ?_⟩, ⟨?_, ?_⟩, ⟨?_, ?_⟩, ⟨?_, ?_⟩⟩ <;> linarith [cA.1, cA.2, cB.1, cB.2]
  · simp only [neg_mul, one_mul, neg_neg] at *
    refine ⟨⟨?_, ?_⟩, ⟨?_, ?_⟩, ⟨?_, ?_⟩, ⟨?_, ?_⟩⟩ <;> linarith [cA.1, cA.2, cB.1, cB.2]

theorem XInv.step {V Q x y : Nat} {pa a pb b : Int}
    (inv : XInv V Q x y pa a pb b) (hy0 : y ≠ 0) :
    XInv V Q y (x % y) a (pa - (x / y : Nat) * a) b (pb - (x / y : Nat) * b) := by
  obtain ⟨s, hs, h1, h2, h3, h4, eA, eB, hle⟩ := inv.sg
  have hdiv : (x : Int) = y * (x / y : Nat) + (x % y : Nat) := by
    have := Nat.div_add_mod x y
    exact_mod_cast this.symm
  have hx1 : (1 : Int) ≤ x := by have := inv.xpos; omega
  have ht : (0 : Int) ≤ (x / y : Nat) := Int.natCast_nonneg _
  have hr : (0 : Int) ≤ (x % y : Nat) := Int.natCast_nonneg _
  have hyy : (0 : Int) ≤ y := by omega
  have hlt : x % y < y := Nat.mod_lt _ (by omega)
  refine ⟨by omega, inv.ylt, by have := inv.ylt; omega, ?_, inv.hy, ?_, ?_⟩
  · rw [← inv.gcd_eq, Nat.gcd_comm y, Nat.gcd_comm x, Nat.gcd_rec y x]
  · linear_combination inv.hx - hdiv - ((x / y : Nat) : Int) * inv.hy
  · generalize ((x / y : Nat) : Int) = t at *
    generalize ((x % y : Nat) : Int) = r at *
    refine ⟨-s, by omega, by linarith, ?_, by linarith, ?_, ?_, ?_, ?_⟩
    · have : 0 ≤ t * -(s * a) := mul_nonneg ht (by linarith)
      nlinarith
    · have : 0 ≤ t * (s * b) := mul_nonneg ht h4
      nlinarith
    · linear_combination eA + (s * a) * hdiv
    · linear_combination eB - (s * b) * hdiv
    · have : -s * a ≤ Q := by
        apply bound_helper hx1 (by linarith : 0 ≤ -s * a) (mul_nonneg h1 hyy)
        linear_combination eA
      exact this


theorem XInv.run {V Q : Nat} (hQ : Q < 2^61) (hV : V < 2^63) :
    ∀ (fuel x y : Nat) (pa a pb b : Int), XInv V Q x y pa a pb b → y ≤ x → x * y < 2^fuel →
      ∃ pa' pb' : Int, xgcdLoop (fuel+1) x y pa a pb b = .ok (Nat.gcd V Q, pa', pb') ∧
        ((Nat.gcd V Q : Nat) : Int) = pa' * V + pb' * Q ∧ -(Q : Int) ≤ pa' ∧ pa' ≤ Q := by
  have base : ∀ (fuel x : Nat) (pa a pb b : Int), XInv V Q x 0 pa a pb b →
      ∃ pa' pb' : Int, xgcdLoop (fuel+1) x 0 pa a pb b = .ok (Nat.gcd V Q, pa', pb') ∧
        ((Nat.gcd V Q : Nat) : Int) = pa' * V + pb' * Q ∧ -(Q : Int) ≤ pa' ∧ pa' ≤ Q := by
    intro fuel x pa a pb b inv
    have hg : Nat.gcd V Q = x := by rw [← inv.gcd_eq, Nat.gcd_zero_right]
    obtain ⟨s, hs, h1, _, _, _, _, _, hle⟩ := inv.sg
    refine ⟨pa, pb, by rw [xgcdLoop_zero_y, hg], by rw [hg]; exact inv.hx, ?_, ?_⟩
    · rcases hs with rfl | rfl <;> linarith
    · rcases hs with rfl | rfl <;> linarith
  intro fuel
  induction fuel with
  | zero =>
    intro x y pa a pb b inv hyx h
    have hy : y = 0 := by
      rcases Nat.eq_zero_or_pos y with h0 | h0
      · exact h0
      · have : 0 < x * y := Nat.mul_pos inv.xpos h0
        omega
    subst hy
    exact base _ _ _ _ _ _ inv
  | succ n ih =>
    intro x y pa a pb b inv hyx h
    by_cases hy : y = 0
    · subst hy; exact base _ _ _ _ _ _ inv
    · obtain ⟨r1, r2, r3, r4⟩ := inv.ranges hQ hV hy
      have ht : x / y < 2^63 := lt_of_le_of_lt (Nat.div_le_self _ _) inv.xlt
      rw [xgcdLoop_succ _ _ _ _ _ _ _ hy ht r1 r2 r3 r4]
      have hlt : x % y < y := Nat.mod_lt _ (by omega)
      apply ih _ _ _ _ _ _ (inv.step hy) (by omega)
      have h1 := Nat.div_add_mod x y
      have h2 : 1 ≤ x / y := Nat.div_pos hyx (by omega)
      have h3 : y * 1 ≤ y * (x / y) := Nat.mul_le_mul_left _ h2
      have h4 : 2 * (x % y) ≤ x := by omega
      have h5 : y * (2 * (x % y)) ≤ y * x := Nat.mul_le_mul_left _ h4
      have h6 : y * x = x * y := Nat.mul_comm _ _
      have h7 : y * (2 * (x % y)) = 2 * (y * (x % y)) := by ring
      rw [pow_succ] at h
      omega

theorem XInv.init {V Q : Nat} (hV0 : V ≠ 0) (hV : V < 2^63) (hQ2 : 2 ≤ Q) (hQ : Q < 2^61) :
    XInv V Q V Q 1 0 0 1 := by
  refine ⟨by omega, hV, by omega, rfl, by ring, by ring, 1, Or.inl rfl, by norm_num, by norm_num,
    by norm_num, by norm_num, by ring, by ring, ?_⟩
  have : (2 : Int) ≤ Q := by exact_mod_cast hQ2
  linarith

theorem xgcd_spec {V Q : Nat} (hV0 : V ≠ 0) (hV : V < 2^63) (hQ2 : 2 ≤ Q) (hQ : Q < 2^61) :
    ∃ pa' pb' : Int, xgcd V Q = .ok (Nat.gcd V Q, pa', pb') ∧
        ((Nat.gcd V Q : Nat) : Int) = pa' * V + pb' * Q ∧ -(Q : Int) ≤ pa' ∧ pa' ≤ Q := by
  have inv := XInv.init hV0 hV hQ2 hQ
  have hVQ : V * Q < 2^63 * 2^61 := Nat.mul_lt_mul'' hV hQ
  unfold xgcd
  by_cases hlt : V < Q
  · obtain ⟨r1, r2, r3, r4⟩ := inv.ranges hQ hV (by omega)
    have ht : V / Q < 2^63 := lt_of_le_of_lt (Nat.div_le_self _ _) hV
    rw [xgcdLoop_succ 199 _ _ _ _ _ _ (by omega) ht r1 r2 r3 r4]
    have inv' := inv.step (by omega : Q ≠ 0)
    rw [Nat.mod_eq_of_lt hlt] at inv' ⊢
    apply XInv.run hQ hV 198 _ _ _ _ _ _ inv' (by omega)
    rw [Nat.mul_comm]
    calc V * Q < 2^63 * 2^61 := hVQ
      _ ≤ 2^198 := by norm_num
  · apply XInv.run hQ hV 199 _ _ _ _ _ _ inv (by omega)
    calc V * Q < 2^63 * 2^61 := hVQ
      _ ≤ 2^199 := by norm_num


theorem inv_mod_aux {r v q : Nat} {k : Int} (hq2 : 2 ≤ q) (h : (r : Int) * v = 1 + q * k) :
    (r * v) % q = 1 := by
  have h1 : ((r : Int) * v) % q = 1 := by
    rw [h, Int.add_mul_emod_self_left]
    have : (2 : Int) ≤ q := by exact_mod_cast hq2
    exact Int.emod_eq_of_lt (by norm_num) (by linarith)
  exact_mod_cast h1

/-- inversion, restricted to `v < 2^63` (the documented operand range is `v < q`): for 2 ≤ q < 2^61
    returns the inverse in [0,q) iff gcd(v,q) = 1 (and v ≠ 0), and never overflows the i64 arithmetic -/
theorem tryInvert_spec_partial {v q : Nat} (hq2 : 2 ≤ q) (hq : q < 2^61) (hv : v < 2^64)
    (hv' : v < 2^63) :
    (v ≠ 0 ∧ Nat.gcd v q = 1 → ∃ r, tryInvert v q = .ok (some r) ∧ r < q ∧ (r * v) % q = 1) ∧
    (v = 0 ∨ Nat.gcd v q ≠ 1 → tryInvert v q = .ok none) := by
  have _ := hv
  constructor
  · rintro ⟨hv0, hg⟩
    obtain ⟨pa, pb, hx, hlin, hlo, hhi⟩ := xgcd_spec hv0 hv' hq2 hq
    rw [hg] at hx hlin
    have hq' : (q : Int) < 2^61 := by exact_mod_cast hq
    unfold tryInvert
    rw [if_neg hv0, hx]
    simp only [bind, Except.bind, ne_eq, not_true_eq_false, if_false]
    by_cases hneg : pa < 0
    · rw [if_pos hneg]
      have hr : ckI64 (Int.ofNat q + pa) = .ok (Int.ofNat q + pa) := by
        apply ckI64_ok
        · simp only [Int.ofNat_eq_natCast]; linarith
        · simp only [Int.ofNat_eq_natCast]; linarith
      rw [hr]
      refine ⟨(Int.ofNat q + pa).toNat, rfl, ?_, ?_⟩
      · simp only [Int.ofNat_eq_natCast]; omega
      · apply inv_mod_aux hq2 (k := (v : Int) - pb)
        have : (((Int.ofNat q + pa).toNat : Nat) : Int) = q + pa := by
          simp only [Int.ofNat_eq_natCast]; omega
        rw [this]
        push_cast at hlin
        linear_combination -hlin
    · rw [if_neg hneg]
      have hcast : ((pa.toNat : Nat) : Int) = pa := by omega
      have hmod : (pa.toNat * v) % q = 1 := by
        apply inv_mod_aux hq2 (k := -pb)
        rw [hcast]
        push_cast at hlin
        linear_combination -hlin
      refine ⟨pa.toNat, rfl, ?_, hmod⟩
      have hle : pa.toNat ≤ q := by omega
      rcases Nat.lt_or_ge pa.toNat q with h | h
      · exact h
      · have : pa.toNat = q := by omega
        rw [this, Nat.mul_mod_right] at hmod
        omega
  · intro h
    unfold tryInvert
    by_cases hv0 : v = 0
    · rw [if_pos hv0]; rfl
    · rw [if_neg hv0]
      have hg : Nat.gcd v q ≠ 1 := by
        rcases h with h | h
        · exact absurd h hv0
        · exact h
      obtain ⟨pa, pb, hx, _⟩ := xgcd_spec hv0 hv' hq2 hq
      rw [hx]
      simp only [bind, Except.bind, ne_eq, hg, not_false_eq_true, if_true]
      rfl

/-- The ORIGINAL statement of `tryInvert_spec` (kept verbatim as a proposition). It is FALSE:
    for `v ≥ 2^63` the `i64` product `q * b` in `xgcd` can overflow, see `tryInvert_overflow_witness`
    and `tryInvertStatement_false`. -/
def TryInvertStatement : Prop :=
  ∀ {v q : Nat}, 2 ≤ q → q < 2^61 → v < 2^64 →
    (v ≠ 0 ∧ Nat.gcd v q = 1 → ∃ r, tryInvert v q = .ok (some r) ∧ r < q ∧ (r * v) % q = 1) ∧
    (v = 0 ∨ Nat.gcd v q ≠ 1 → tryInvert v q = .ok none)

theorem tryInvert_overflow_witness : tryInvert (2^64-1) 2 = .error .overflow := by decide

theorem tryInvertStatement_false : ¬ TryInvertStatement := by
  intro h
  have h1 := (@h (2^64-1) 2 (by norm_num) (by norm_num) (by norm_num)).1 ⟨by norm_num, by decide⟩
  obtain ⟨r, hr, _⟩ := h1
  rw [tryInvert_overflow_witness] at hr
  cases hr


/-! ### non-adjacent form -/

def sgn (sign : Bool) : Int := if sign then -1 else 1

theorem nafLoop_zero (fuel i : Nat) (sign : Bool) (acc : List Int) :
    nafLoop fuel 0 i sign acc = acc.reverse := by
  cases fuel <;> simp [nafLoop]

theorem nafLoop_even (fuel v i : Nat) (sign : Bool) (acc : List Int) (hv : v ≠ 0) (h2 : v % 2 = 0) :
    nafLoop (fuel+1) v i sign acc = nafLoop fuel (v / 2) (i+1) sign acc := by
  rw [nafLoop, if_neg hv]
  have h1 : ¬ (v % 2 = 1) := by omega
  simp only [h1, if_false, sub_zero, ne_eq, not_true_eq_false]
  congr 1

theorem nafLoop_one (fuel v i : Nat) (sign : Bool) (acc : List Int) (h4 : v % 4 = 1) :
    nafLoop (fuel+1) v i sign acc = nafLoop fuel (v / 2) (i+1) sign ((sgn sign * 2^i) :: acc) := by
  have hv : v ≠ 0 := by omega
  rw [nafLoop, if_neg hv]
  have h1 : v % 2 = 1 := by omega
  simp only [h1, if_true, h4]
  have e1 : ((Int.ofNat v - (2 - Int.ofNat 1)) / 2).toNat = v / 2 := by
    simp only [Int.ofNat_eq_natCast]; omega
  rw [e1]
  congr 1

theorem nafLoop_three (fuel v i : Nat) (sign : Bool) (acc : List Int) (h4 : v % 4 = 3) :
    nafLoop (fuel+1) v i sign acc = nafLoop fuel ((v+1) / 2) (i+1) sign ((-(sgn sign * 2^i)) :: acc) := by
  have hv : v ≠ 0 := by omega
  rw [nafLoop, if_neg hv]
  have h1 : v % 2 = 1 := by omega
  simp only [h1, if_true, h4]
  have e1 : ((Int.ofNat v - (2 - Int.ofNat 3)) / 2).toNat = (v + 1) / 2 := by
    simp only [Int.ofNat_eq_natCast]; omega
  rw [e1]
  congr 1
  cases sign <;> simp [sgn]

theorem natAbs_pm_pow {d : Int} {j : Nat} (h : d = 2^j ∨ d = -(2^j : Int)) : d.natAbs = 2^j := by
  rcases h with h | h <;> subst h <;> simp [Int.natAbs_pow]

theorem sgn_pm (sign : Bool) (i : Nat) : sgn sign * 2^i = 2^i ∨ sgn sign * 2^i = -(2^i : Int) := by
  cases sign <;> simp [sgn]

theorem sgn_pm' (sign : Bool) (i : Nat) : -(sgn sign * 2^i) = 2^i ∨ -(sgn sign * 2^i) = -(2^i : Int) := by
  cases sign <;> simp [sgn]

theorem naf_sep {d : Int} {i : Nat} (hd : d = 2^i ∨ d = -(2^i : Int)) {L : List Int}
    (hmem : ∀ b ∈ L, ∃ j, i + 2 ≤ j ∧ (b = 2^j ∨ b = -(2^j : Int))) :
    ∀ b ∈ L, 4 * d.natAbs ≤ b.natAbs := by
  intro b hb
  obtain ⟨j, hj, hbj⟩ := hmem b hb
  rw [natAbs_pm_pow hd, natAbs_pm_pow hbj]
  calc 4 * 2^i = 2^(i+2) := by ring
    _ ≤ 2^j := Nat.pow_le_pow_right (by norm_num) hj

def NafOut (v i : Nat) (sign : Bool) (L : List Int) : Prop :=
  L.sum = sgn sign * v * 2^i ∧
  (∀ d ∈ L, ∃ j, i ≤ j ∧ (v % 2 = 0 → i + 1 ≤ j) ∧ (d = 2^j ∨ d = -(2^j : Int))) ∧
  L.Pairwise (fun a b => 4 * a.natAbs ≤ b.natAbs)

theorem nafOut_even {v i : Nat} {sign : Bool} {L : List Int} (h2 : v % 2 = 0)
    (h : NafOut (v / 2) (i + 1) sign L) : NafOut v i sign L := by
  obtain ⟨hs, hm, hp⟩ := h
  refine ⟨?_, ?_, hp⟩
  · rw [hs]
    have : (v : Int) = 2 * ((v / 2 : Nat) : Int) := by omega
    rw [this, pow_succ]; ring
  · intro d hd
    obtain ⟨j, hj, _, hdj⟩ := hm d hd
    exact ⟨j, by omega, fun _ => hj, hdj⟩

theorem nafOut_cons {v v' i : Nat} {sign : Bool} {L : List Int} {d : Int}
    (hd : d = 2^i ∨ d = -(2^i : Int)) (hodd : v % 2 = 1) (hev : v' % 2 = 0)
    (hsum : d + sgn sign * v' * 2^(i+1) = sgn sign * v * 2^i)
    (h : NafOut v' (i + 1) sign L) : NafOut v i sign (d :: L) := by
  obtain ⟨hs, hm, hp⟩ := h
  refine ⟨?_, ?_, ?_⟩
  · rw [List.sum_cons, hs, hsum]
  · intro b hb
    rcases List.mem_cons.mp hb with hb | hb
    · subst hb; exact ⟨i, le_refl _, fun h => by omega, hd⟩
    · obtain ⟨j, hj, _, hbj⟩ := hm b hb
      exact ⟨j, by omega, fun h => by omega, hbj⟩
  · refine List.pairwise_cons.mpr ⟨?_, hp⟩
    apply naf_sep hd
    intro b hb
    obtain ⟨j, _, hj, hbj⟩ := hm b hb
    exact ⟨j, hj hev, hbj⟩

theorem nafLoop_spec : ∀ (fuel v i : Nat) (sign : Bool), 2 * v ≤ 2^fuel →
    ∃ L : List Int, (∀ acc, nafLoop fuel v i sign acc = acc.reverse ++ L) ∧ NafOut v i sign L := by
  intro fuel
  induction fuel with
  | zero =>
    intro v i sign h
    have hv : v = 0 := by simp at h; omega
    subst hv
    exact ⟨[], fun acc => by simp [nafLoop], by simp [NafOut]⟩
  | succ n ih =>
    intro v i sign h
    rw [pow_succ] at h
    by_cases hv : v = 0
    · subst hv
      exact ⟨[], fun acc => by simp [nafLoop], by simp [NafOut]⟩
    by_cases h2 : v % 2 = 0
    · obtain ⟨L, hL, hO⟩ := ih (v / 2) (i + 1) sign (by omega)
      exact ⟨L, fun acc => by rw [nafLoop_even _ _ _ _ _ hv h2, hL], nafOut_even h2 hO⟩
    by_cases h4 : v % 4 = 1
    · obtain ⟨L, hL, hO⟩ := ih (v / 2) (i + 1) sign (by omega)
      refine ⟨(sgn sign * 2^i) :: L, fun acc => by rw [nafLoop_one _ _ _ _ _ h4, hL]; simp, ?_⟩
      refine nafOut_cons (sgn_pm sign i) (by omega) (by omega) ?_ hO
      have : (v : Int) = 2 * ((v / 2 : Nat) : Int) + 1 := by omega
      rw [this, pow_succ]; ring
    · have h4' : v % 4 = 3 := by omega
      have hn : 2 * ((v + 1) / 2) ≤ 2 ^ n := by
        cases n with
        | zero => omega
        | succ k => rw [pow_succ] at h ⊢; omega
      obtain ⟨L, hL, hO⟩ := ih ((v + 1) / 2) (i + 1) sign hn
      refine ⟨(-(sgn sign * 2^i)) :: L, fun acc => by rw [nafLoop_three _ _ _ _ _ h4', hL]; simp, ?_⟩
      refine nafOut_cons (sgn_pm' sign i) (by omega) (by omega) ?_ hO
      have : ((v : Int) + 1) = 2 * (((v + 1) / 2 : Nat) : Int) := by omega
      have h' : (v : Int) = 2 * (((v + 1) / 2 : Nat) : Int) - 1 := by omega
      rw [h', pow_succ]; ring

/-- non-adjacent form: digits sum to the value, each digit is ± a power of two with strictly increasing
    exponents differing by at least 2 -/
theorem naf_spec {v : Int} (hv : -(2^31 : Int) < v ∧ v < 2^31) :
    ∃ ds, naf v = .ok ds ∧ ds.sum = v ∧
      (∀ d ∈ ds, ∃ i : Nat, d = 2^i ∨ d = -(2^i : Int)) ∧
      List.Pairwise (fun a b => 4 * a.natAbs ≤ b.natAbs) ds := by
  have hb : 2 * v.natAbs ≤ 2^40 := by omega
  obtain ⟨L, hL, hs, hm, hp⟩ := nafLoop_spec 40 v.natAbs 0 (decide (v < 0)) hb
  refine ⟨L, ?_, ?_, ?_, hp⟩
  · unfold naf
    rw [if_neg (by omega)]
    simp only [pure, Except.pure]
    rw [hL]; simp
  · rw [hs]
    by_cases h0 : v < 0
    · simp only [sgn, decide_eq_true_eq, h0, if_true, pow_zero, mul_one]; omega
    · simp only [sgn, decide_eq_true_eq, h0, if_false, pow_zero, mul_one]; omega
  · intro d hd
    obtain ⟨j, _, _, hdj⟩ := hm d hd
    exact ⟨j, hdj⟩

end HC
