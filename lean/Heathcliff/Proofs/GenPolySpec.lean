import Heathcliff.Proofs.GenPoly
import Heathcliff.Proofs.C08A

/-!
  Phase 4b, composition: the kernels generated from src/util/polysmallmod.rs (`Heathcliff/Gen/PolyFns.lean`) compute, on canonical
  inputs and a well-formed modulus, the coefficient-wise (a + b) mod q, (a − b) mod q, (−a) mod q, a·s mod q, a·b mod q —
  `Proofs/GenPoly.lean` (generated loop = `mapM` over the indices) composed with the C08 exactness theorems.  Helper prefix `gp_`.
-/
namespace HC
open HC.GenW HC.GenP

theorem gp_mapM_ok {α : Type} (f : α → R Nat) (v : α → Nat) : ∀ (l : List α), (∀ k, k ∈ l → f k = .ok (v k)) → l.mapM f = .ok (l.map v) := by
  intro l
  induction l with
  | nil => intro _; rfl
  | cons x t ih =>
    intro h
    rw [List.mapM_cons, h x List.mem_cons_self, ih (fun k hk => h k (List.mem_cons_of_mem _ hk))]
    rfl

/-- a kernel loop all of whose cells succeed with `v k` overwrites the first `K` words with `v 0 … v (K-1)` -/
theorem gp_loop_ok (g : Nat → List Nat → R Nat) (v : Nat → Nat) (r : List Nat) (K : Nat) (hK : K ≤ r.length)
    (hg : ∀ k r', k < K → r'.length = r.length → r'.getD k 0 = r.getD k 0 → g k r' = .ok (v k)) :
    gp_loop g K 0 r = .ok ((List.range K).map v ++ r.drop K) := by
  rw [gp_loop_mapM g (fun k => .ok (v k)) r K hK hg, gp_mapM_ok _ v _ (fun _ _ => rfl)]
  rfl

variable {m : Modulus}

/-- ONE THEOREM (`add`): the code generated from `polysmallmod::add` computes the coefficient-wise (a + b) mod q -/
theorem gen_poly_add_spec (hm : m.WF) (a b r : List Nat) (hla : r.length ≤ a.length) (hlb : r.length ≤ b.length)
    (ha : ∀ k, k < r.length → a.getD k 0 < m.value) (hb : ∀ k, k < r.length → b.getD k 0 < m.value) :
    GenP.poly_add a b m r = .ok ((List.range r.length).map fun k => (a.getD k 0 + b.getD k 0) % m.value) := by
  unfold GenP.poly_add
  simp only []
  rw [if_pos (show a.length ≥ r.length ∧ b.length ≥ r.length from ⟨hla, hlb⟩), gp_add_loop_eq,
    gp_loop_ok _ (fun k => (a.getD k 0 + b.getD k 0) % m.value) r r.length (Nat.le_refl _)
      (fun k r' hk _ _ => by
        simp only [gp_idx_getD a k (by omega), gp_idx_getD b k (by omega), bind, Except.bind]
        exact addMod_exact hm (ha k hk) (hb k hk))]
  simp

/-- ONE THEOREM (`add_inplace`, the body of `Evaluator::add`) -/
theorem gen_poly_add_inplace_spec (hm : m.WF) (a b : List Nat) (hl : a.length ≤ b.length)
    (ha : ∀ k, k < a.length → a.getD k 0 < m.value) (hb : ∀ k, k < a.length → b.getD k 0 < m.value) :
    GenP.poly_add_inplace a b m = .ok ((List.range a.length).map fun k => (a.getD k 0 + b.getD k 0) % m.value) := by
  unfold GenP.poly_add_inplace
  simp only []
  rw [if_pos (show b.length ≥ a.length from hl), gp_add_inplace_loop_eq,
    gp_loop_ok _ (fun k => (a.getD k 0 + b.getD k 0) % m.value) a a.length (Nat.le_refl _)
      (fun k r' hk hl' hv => by
        simp only [gp_idx_getD r' k (by omega), gp_idx_getD b k (by omega), bind, Except.bind, hv]
        exact addMod_exact hm (ha k hk) (hb k hk))]
  simp

/-- ONE THEOREM (`sub`): coefficient-wise (a − b) mod q -/
theorem gen_poly_sub_spec (hm : m.WF) (a b r : List Nat) (hla : r.length ≤ a.length) (hlb : r.length ≤ b.length)
    (ha : ∀ k, k < r.length → a.getD k 0 < m.value) (hb : ∀ k, k < r.length → b.getD k 0 < m.value) :
    GenP.poly_sub a b m r = .ok ((List.range r.length).map fun k => (a.getD k 0 + m.value - b.getD k 0) % m.value) := by
  unfold GenP.poly_sub
  simp only []
  rw [if_pos (show a.length ≥ r.length ∧ b.length ≥ r.length from ⟨hla, hlb⟩), gp_sub_loop_eq,
    gp_loop_ok _ (fun k => (a.getD k 0 + m.value - b.getD k 0) % m.value) r r.length (Nat.le_refl _)
      (fun k r' hk _ _ => by
        simp only [gp_idx_getD a k (by omega), gp_idx_getD b k (by omega), bind, Except.bind]
        exact subMod_exact hm (ha k hk) (hb k hk))]
  simp

/-- ONE THEOREM (`negate_inplace`, the body of `Evaluator::negate`): coefficient-wise (−a) mod q -/
theorem gen_poly_negate_inplace_spec (hm : m.WF) (a : List Nat) (ha : ∀ k, k < a.length → a.getD k 0 < m.value) :
    GenP.poly_negate_inplace a m = .ok ((List.range a.length).map fun k => (m.value - a.getD k 0) % m.value) := by
  unfold GenP.poly_negate_inplace
  simp only []
  rw [gp_negate_inplace_loop_eq,
    gp_loop_ok _ (fun k => (m.value - a.getD k 0) % m.value) a a.length (Nat.le_refl _)
      (fun k r' hk hl' hv => by
        simp only [gp_idx_getD r' k (by omega), bind, Except.bind, hv]
        exact negateMod_exact hm (Nat.le_of_lt (ha k hk)))]
  simp

/-- ONE THEOREM (`multiply_scalar`, equal lengths): coefficient-wise a·s mod q (any words: the Barrett reduction is exact on u64 × u64) -/
theorem gen_poly_multiply_scalar_spec (hm : m.WF) (c : List Nat) (s : Nat) (r : List Nat) (hl : c.length = r.length) (hs : s < 2^64)
    (hc : ∀ k, k < c.length → c.getD k 0 < 2^64) :
    GenP.poly_multiply_scalar c s m r = .ok ((List.range r.length).map fun k => (c.getD k 0 * s) % m.value) := by
  unfold GenP.poly_multiply_scalar
  rw [gp_multiply_scalar_loop_eq, hl, Nat.min_self,
    gp_loop_ok _ (fun k => (c.getD k 0 * s) % m.value) r r.length (Nat.le_refl _)
      (fun k r' hk _ _ => by
        simp only [gp_idx_getD c k (by omega), bind, Except.bind]
        exact mulMod_exact hm (hc k (by omega)) hs)]
  simp

/-- ONE THEOREM (`dyadic_product`): coefficient-wise a·b mod q -/
theorem gen_poly_dyadic_product_spec (hm : m.WF) (a b r : List Nat) (hla : r.length ≤ a.length) (hlb : r.length ≤ b.length)
    (ha : ∀ k, k < r.length → a.getD k 0 < 2^64) (hb : ∀ k, k < r.length → b.getD k 0 < 2^64) :
    GenP.poly_dyadic_product a b m r = .ok ((List.range r.length).map fun k => (a.getD k 0 * b.getD k 0) % m.value) := by
  unfold GenP.poly_dyadic_product
  simp only []
  rw [gp_dyadic_loop_eq,
    gp_loop_ok _ (fun k => (a.getD k 0 * b.getD k 0) % m.value) r r.length (Nat.le_refl _)
      (fun k r' hk _ _ => by
        simp only [gp_idx_getD a k (by omega), gp_idx_getD b k (by omega), bind, Except.bind]
        exact mulMod_exact hm (ha k hk) (hb k hk))]
  simp

end HC
