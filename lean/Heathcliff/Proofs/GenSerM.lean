/-
  Translator phase 4i, second round: PREFIX MONOTONICITY of reader programs.  A reader built from `rpure`, `rfail`, `read_exact`,
  `rbind`, conditionals and the generated loops only looks at the bytes it consumes; hence, if it SUCCEEDS on a stream `p ++ t`, then
  on the prefix `p` it either succeeds with the same value (having consumed the same bytes) or reports `UnexpectedEof` — never a
  panic, never `InvalidData`.  This is what turns "accepts the full encoding" into C15's truncation clause for the generated readers.
  Helper prefix `gm_`.
-/
import Heathcliff.Proofs.GenSerF
namespace HC.GS
open HC HC.Codec HC.GenS

structure RMono {α} (m : Rd α) : Prop where
  mono : ∀ (p t : Bytes) (v : α) (r : Bytes), m (p ++ t) = .ok (v, r) →
    (∃ r', m p = .ok (v, r') ∧ r = r' ++ t) ∨ (∃ s, m p = .error (.eof s))

theorem gm_pure {α} (a : α) : RMono (rpure a) := by
  refine ⟨fun p t v r h => ?_⟩
  simp only [rpure] at h
  injection h with h; injection h with h1 h2
  exact .inl ⟨p, by simp [rpure, h1], h2.symm⟩

theorem gm_fail {α} (e : DErr) : RMono (rfail e : Rd α) := by
  refine ⟨fun p t v r h => ?_⟩; simp [rfail] at h

theorem gm_readExact (k : SK) (n : Nat) : RMono (rreadExact k n) := by
  refine ⟨fun p t v r h => ?_⟩
  simp only [rreadExact, readExact] at h ⊢
  by_cases hp : p.length < n
  · exact .inr ⟨k, by simp [hp]⟩
  · have hpt : ¬ (p ++ t).length < n := by simp; omega
    simp only [hpt, if_false] at h
    injection h with h; injection h with h1 h2
    refine .inl ⟨p.drop n, ?_, ?_⟩
    · simp only [hp, if_false]
      rw [← h1, List.take_append_of_le_length (by omega)]
    · rw [← h2, List.drop_append_of_le_length (by omega)]

theorem gm_bind {α β} (m : Rd α) (f : α → Rd β) (hm : RMono m) (hf : ∀ a, RMono (f a)) : RMono (rbind m f) := by
  refine ⟨fun p t v r h => ?_⟩
  simp only [rbind] at h ⊢
  cases h1 : m (p ++ t) with
  | error e => simp [h1] at h
  | ok q =>
    obtain ⟨a, r1⟩ := q
    simp only [h1] at h
    rcases hm.mono p t a r1 h1 with ⟨r1', hp, hr⟩ | ⟨s, hp⟩
    · subst hr
      rcases (hf a).mono r1' t v r h with ⟨r', hp2, hr2⟩ | ⟨s, hp2⟩
      · exact .inl ⟨r', by simp [hp, hp2], hr2⟩
      · exact .inr ⟨s, by simp [hp, hp2]⟩
    · exact .inr ⟨s, by simp [hp]⟩

theorem gm_rfill (f : Nat → Rd Nat) (hf : ∀ x, RMono (f x)) : ∀ l, RMono (rfill f l) := by
  intro l
  induction l with
  | nil => exact gm_pure _
  | cons x xs ih =>
    simp only [rfill]
    exact gm_bind _ _ (hf x) fun v => gm_bind _ _ ih fun vs => gm_pure _

/-- closes `RMono` goals about generated readers: binds, conditionals, `let`s, the primitives and hypotheses -/
macro "rmono" : tactic =>
  `(tactic| repeat' (first
      | exact gm_pure _ | exact gm_fail _ | exact gm_readExact _ _ | assumption
      | apply gm_bind | apply gm_rfill | split | intro _ | dsimp only))

theorem gm_u64 : RMono u64_deserialize := by unfold u64_deserialize; rmono
theorem gm_usize : RMono usize_deserialize := by unfold usize_deserialize; rmono
theorem gm_u8 : RMono u8_deserialize := by unfold u8_deserialize; rmono
theorem gm_bool : RMono bool_deserialize := by unfold bool_deserialize; have := gm_u8; rmono
theorem gm_f64 : RMono f64_deserialize := by unfold f64_deserialize; have := gm_u64; rmono
theorem gm_pid : RMono pid_deserialize := by unfold pid_deserialize; have := gm_u64; rmono

theorem gm_full_loop (expand : List Nat → Level → List Nat) : ∀ (l : List Nat) (data : List Nat),
    RMono (ct_deserialize_full_loop1 expand l data) := by
  intro l
  induction l with
  | nil => intro data; unfold ct_deserialize_full_loop1; exact gm_pure _
  | cons i rest ih =>
    intro data
    unfold ct_deserialize_full_loop1
    have := gm_u64
    have ih' := fun d => ih d
    rmono
    all_goals exact ih _

/-- `Ciphertext::deserialize_full` is prefix monotone -/
theorem gm_ct_deserialize_full (expand : List Nat → Level → List Nat) (ctx : Ctx) : RMono (ct_deserialize_full expand ctx) := by
  unfold ct_deserialize_full
  have h1 := gm_pid; have h2 := gm_usize; have h3 := gm_bool; have h4 := gm_f64; have h5 := gm_u64
  have h6 := gm_full_loop expand
  rmono
  all_goals exact h6 _ _

theorem gm_lift {α} (x : R α) : RMono (rlift x) := by
  refine ⟨fun p t v r h => ?_⟩
  cases x with
  | error e => simp [rlift] at h
  | ok a =>
    simp only [rlift] at h
    injection h with h; injection h with h1 h2
    exact .inl ⟨p, by simp [rlift, h1], h2.symm⟩

theorem gm_limited_loop : ∀ (l : List Nat) (value : Nat), RMono (read_u64_limited_loop1 l value) := by
  intro l
  induction l with
  | nil => intro value; unfold read_u64_limited_loop1; exact gm_pure _
  | cons i rest ih =>
    intro value
    unfold read_u64_limited_loop1
    have := gm_u8
    rmono
    all_goals exact ih _

theorem gm_limited (limit : Nat) : RMono (read_u64_limited limit) := by
  unfold read_u64_limited
  have := gm_limited_loop
  rmono
  all_goals exact gm_limited_loop _ _

attribute [local irreducible] read_u64_limited

theorem gm_chunks (n : Nat) (f : Nat → List Nat → Rd (List Nat)) (hf : ∀ j c, RMono (f j c)) :
    ∀ (fuel j : Nat) (v : List Nat), RMono (rchunksM n f fuel j v) := by
  intro fuel
  induction fuel with
  | zero => intro j v; unfold rchunksM; exact gm_pure _
  | succ fuel ih =>
    intro j v
    unfold rchunksM
    split
    · exact gm_pure _
    · exact gm_bind _ _ (hf j _) fun c => gm_bind _ _ (ih _ _) fun r => gm_pure _

theorem gm_ct_loop (expand : List Nat → Level → List Nat) (k n : Nat) (limits : List Nat) :
    ∀ (l : List Nat) (data : List Nat), RMono (ct_deserialize_loop1 expand k n limits l data) := by
  intro l
  induction l with
  | nil => intro data; unfold ct_deserialize_loop1; exact gm_pure _
  | cons i rest ih =>
    intro data
    unfold ct_deserialize_loop1
    have hl := gm_limited
    have hlift := fun (x : R Nat) => gm_lift x
    rmono
    all_goals first
      | exact ih _
      | (apply gm_chunks; intro j c; rmono; all_goals first | exact gm_lift _ | exact gm_limited _)

attribute [local irreducible] ct_deserialize_loop1 rchunksM

/-- the compact `Ciphertext::deserialize` is prefix monotone -/
theorem gm_ct_deserialize (expand : List Nat → Level → List Nat) (ctx : Ctx) : RMono (ct_deserialize expand ctx) := by
  unfold ct_deserialize
  have h1 := gm_pid; have h2 := gm_usize; have h3 := gm_bool; have h4 := gm_f64; have h5 := gm_u64
  rmono
  all_goals first
    | exact gm_ct_loop expand _ _ _ _ _
    | exact gm_lift _

/-- THE TRUNCATION CLAUSE from monotonicity: a reader that accepts `e` and consumes all of it answers `UnexpectedEof` on every strict
    prefix of `e` -/
theorem gm_truncation {α} (m : Rd α) (hm : RMono m) (e : Bytes) (v : α) (h : m e = .ok (v, [])) (k : Nat) (hk : k < e.length) :
    ∃ s, m (e.take k) = .error (.eof s) := by
  have he : e = e.take k ++ e.drop k := (List.take_append_drop k e).symm
  rw [he] at h
  rcases hm.mono (e.take k) (e.drop k) v [] h with ⟨r', _, hr⟩ | hs
  · have : (e.drop k).length = 0 := by
      have := congrArg List.length hr; simp at this; omega
    simp at this; omega
  · exact hs

/-! ### property-level statements for `deserialize_full` (restated in Props/C14.lean, Props/C15.lean) -/

/-- C14, FROM SOURCE TO SOURCE (flat-word format): what the generated `deserialize_full` reads back from the bytes the generated
    `serialize_full` wrote (followed by anything) is the model's round-trip value `norm c` (the ciphertext itself; its seed-expanded form
    for a seeded one) as the flat record `from_members` builds, and exactly those bytes are consumed -/
theorem c14g_ct_full_source_round_trip (ctx : Ctx) (expand : List Nat → Level → List Nat)
    (hpos : ∀ pid lv, ctx.find pid = some lv → 0 < lv.moduli.length * lv.n) (c : CtFull) (lv : Level)
    (hv : (ctFullC ctx expand).valid c) (hfind : ctx.find c.pid = some lv) (hl : c.pid.length = 4)
    (hsch : lv.scheme = 1 ∨ lv.scheme = 2 ∨ lv.scheme = 3) (hle : fullSent lv c ≤ c.data.length) (rest : Bytes) :
    ct_deserialize_full expand ctx ((ct_serialize_full idealStream ctx (ctvOfFull lv c) []).2 ++ rest)
      = .ok (flatOfFull ((ctx.find ((ctFullC ctx expand).norm c).pid).getD noLevel) ((ctFullC ctx expand).norm c), rest) := by
  rw [c14g_ct_serialize_full ctx expand c lv hfind hl hsch hle []]
  simp only [List.nil_append]
  exact gf_full_ok ctx expand hpos _ _ _ ((ctFullC_lawful ctx expand).rt c hv rest)

/-- C15, the truncation clause for the generated reader: on every strict prefix of a valid encoding `deserialize_full` returns
    `Err(UnexpectedEof)` — no object, no panic (in particular none of its index / slice / `unwrap` panics can fire) -/
theorem c15g_ct_full_reader_truncation (ctx : Ctx) (expand : List Nat → Level → List Nat)
    (hpos : ∀ pid lv, ctx.find pid = some lv → 0 < lv.moduli.length * lv.n) (c : CtFull)
    (hv : (ctFullC ctx expand).valid c) (k : Nat) (hk : k < ((ctFullC ctx expand).enc c).length) :
    ∃ s, ct_deserialize_full expand ctx (((ctFullC ctx expand).enc c).take k) = .error (.eof s) := by
  have hrt := (ctFullC_lawful ctx expand).rt c hv []
  rw [List.append_nil] at hrt
  exact gm_truncation _ (gm_ct_deserialize_full expand ctx) _ _ (gf_full_ok ctx expand hpos _ _ _ hrt) k hk

end HC.GS
