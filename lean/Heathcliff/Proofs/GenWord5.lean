import Heathcliff.Gen.Word2Fns
import Heathcliff.Proofs.GenWord3
import Heathcliff.Proofs.GenGalois

/-!
  Translator tie (phase 4d), word layer, src/util/basic.rs: `compare_uint`, `is_greater_than_or_equal_uint`, the in-place ripples
  `add_uint_inplace` / `sub_uint_inplace`, the multi-word modular `add_uint_mod` / `sub_uint_mod` / `add_uint_mod_inplace` and the
  192-bit shifts `left_shift_u192` / `right_shift_u192`, generated into Gen/Word2Fns.lean (namespace `HC.GenW2`), against `compareUint`,
  `geUint`, `addUint`, `subUint`, `addUintMod`, `subUintMod`, `leftShiftU192`, `rightShiftU192` of Model/Word.lean.
  Helper names start with `gq_`.
-/
namespace HC
open HC.GenW2

theorem gq_ok_bind {α β : Type} (a : α) (f : α → R β) : ((Except.ok a : R α) >>= f) = f a := Eq.trans rfl rfl
theorem gq_err_bind {α β : Type} (e : Err) (f : α → R β) : ((Except.error e : R α) >>= f) = .error e := Eq.trans rfl rfl
theorem gq_pure_eq {α : Type} (a : α) : (pure a : R α) = .ok a := Eq.trans rfl rfl

/-! ### in-place ripples: the generated in-place loop is the generated out-of-place loop run on a buffer that still holds the operand -/
theorem gq_idx_congr (r a : List Nat) (i : Nat) (h : r.drop i = a.drop i) : GenW.idx r i = GenW.idx a i := by
  unfold GenW.idx
  have h1 : r[i]? = (r.drop i)[0]? := by rw [List.getElem?_drop]; rfl
  have h2 : a[i]? = (a.drop i)[0]? := by rw [List.getElem?_drop]; rfl
  rw [h1, h2, h]

theorem gq_drop_set_succ (r a : List Nat) (i v : Nat) (h : r.drop i = a.drop i) : (r.set i v).drop (i+1) = a.drop (i+1) := by
  rw [List.drop_set_of_lt (by omega), ← List.drop_drop, ← List.drop_drop, h]

theorem gq_add_inplace_loop (a b : List Nat) : ∀ cnt i (r : List Nat) c, r.drop i = a.drop i →
    GenW2.add_uint_inplace_loop1 b cnt i r c = GenW.add_uint_loop1 a b cnt i r c := by
  intro cnt
  induction cnt with
  | zero => intro i r c _; rfl
  | succ n ih =>
    intro i r c h
    rw [GenW2.add_uint_inplace_loop1, GenW.add_uint_loop1, gq_idx_congr r a i h]
    cases GenW.idx a i with
    | error e => rfl
    | ok x =>
      simp only [gq_ok_bind]
      cases GenW.idx b i with
      | error e => rfl
      | ok y =>
        simp only [gq_ok_bind]
        unfold GenW.setIdx
        by_cases hi : i < r.length
        · simp only [if_pos hi, gq_ok_bind]
          exact ih (i+1) _ _ (gq_drop_set_succ r a i _ h)
        · simp only [if_neg hi]; rfl

theorem gq_sub_inplace_loop (a b : List Nat) : ∀ cnt i (r : List Nat) c, r.length = a.length → r.drop i = a.drop i →
    GenW2.sub_uint_inplace_loop1 b cnt i r c = GenW.sub_uint_loop1 a b cnt i r c := by
  intro cnt
  induction cnt with
  | zero => intro i r c _ _; rfl
  | succ n ih =>
    intro i r c hl h
    rw [GenW2.sub_uint_inplace_loop1, GenW.sub_uint_loop1, gq_idx_congr r a i h, hl]
    cases (if i < a.length then GenW.idx a i else pure 0 : R Nat) with
    | error e => rfl
    | ok x =>
      simp only [gq_ok_bind]
      cases (if i < b.length then GenW.idx b i else pure 0 : R Nat) with
      | error e => rfl
      | ok y =>
        simp only [gq_ok_bind]
        unfold GenW.setIdx
        by_cases hi : i < r.length
        · simp only [if_pos hi, gq_ok_bind]
          exact ih (i+1) _ _ (by rw [List.length_set]; exact hl) (gq_drop_set_succ r a i _ h)
        · simp only [if_neg hi]; rfl

theorem gq_add_uint_inplace_eq_gen (a b : List Nat) : GenW2.add_uint_inplace a b = GenW.add_uint a b a := by
  unfold GenW2.add_uint_inplace GenW.add_uint
  cases GenW.idx a 0 with
  | error e => rfl
  | ok x =>
    simp only [gq_ok_bind]
    cases GenW.idx b 0 with
    | error e => rfl
    | ok y =>
      simp only [gq_ok_bind]
      exact gq_add_inplace_loop a b _ 1 _ _ (gq_drop_set_succ a a 0 _ rfl)

theorem gq_sub_uint_inplace_eq_gen (a b : List Nat) : GenW2.sub_uint_inplace a b = GenW.sub_uint a b a := by
  unfold GenW2.sub_uint_inplace GenW.sub_uint
  cases GenW.idx a 0 with
  | error e => rfl
  | ok x =>
    simp only [gq_ok_bind]
    cases GenW.idx b 0 with
    | error e => rfl
    | ok y =>
      simp only [gq_ok_bind]
      exact gq_sub_inplace_loop a b _ 1 _ _ (by rw [List.length_set]) (gq_drop_set_succ a a 0 _ rfl)

/-- `add_uint_inplace(operand1, operand2)` = `addUint operand1 operand2 operand1.len()` (new contents of `operand1`, carry) -/
theorem gq_add_uint_inplace_eq (a b : List Nat) : GenW2.add_uint_inplace a b = addUint a b a.length := by
  rw [gq_add_uint_inplace_eq_gen, gx_add_uint_eq]

/-- `sub_uint_inplace(operand1, operand2)` = `subUint operand1 operand2 operand1.len()` (new contents of `operand1`, borrow) -/
theorem gq_sub_uint_inplace_eq (a b : List Nat) : GenW2.sub_uint_inplace a b = subUint a b a.length := by
  rw [gq_sub_uint_inplace_eq_gen, gx_sub_uint_eq]

/-! ### compare_uint -/
/-- `Ordering` of the model's −1 / 0 / 1 -/
def gq_ofInt (z : Int) : Ordering := if z < 0 then .lt else if z = 0 then .eq else .gt

theorem gq_getD_of_lt (l : List Nat) (i : Nat) (h : i < l.length) : l.getD i 0 = l[i] := by
  rw [List.getD_eq_getElem?_getD, List.getElem?_eq_getElem h]; rfl
theorem gq_getD_of_ge (l : List Nat) (i : Nat) (h : l.length ≤ i) : l.getD i 0 = 0 := by
  rw [List.getD_eq_getElem?_getD, List.getElem?_eq_none h]; rfl

theorem gq_compare_loop (a b : List Nat) (n : Nat) : ∀ k, k ≤ max a.length b.length →
    GenW2.compare_uint_loop1 a b n k = .ok (gq_ofInt (compareUint.go a b k)) := by
  intro k
  induction k with
  | zero => intro _; rfl
  | succ i ih =>
    intro hk
    have ih' := ih (by omega)
    rw [GenW2.compare_uint_loop1, compareUint.go]
    by_cases ha : a.length ≤ i
    · have hb : i < b.length := by omega
      simp only [if_pos ha, gw_idx_eq _ _ hb, gq_ok_bind, gq_getD_of_ge a i ha, gq_getD_of_lt b i hb]
      by_cases hy : b[i] > 0
      · simp only [if_pos hy]; rfl
      · simp only [if_neg hy]
        rw [if_neg (by omega)]; exact ih'
    · have ha' : i < a.length := by omega
      simp only [if_neg ha]
      by_cases hb : b.length ≤ i
      · simp only [if_pos hb, gw_idx_eq _ _ ha', gq_ok_bind, gq_getD_of_lt a i ha', gq_getD_of_ge b i hb]
        by_cases hx : a[i] > 0
        · simp only [if_pos hx]; rfl
        · simp only [if_neg hx]; exact ih'
      · have hb' : i < b.length := by omega
        simp only [if_neg hb, gw_idx_eq _ _ ha', gw_idx_eq _ _ hb', gq_ok_bind, gq_getD_of_lt a i ha', gq_getD_of_lt b i hb']
        unfold GenW2.cmpW
        by_cases h1 : a[i] < b[i]
        · simp only [if_pos h1]
          rw [if_pos (by decide)]; rfl
        · simp only [if_neg h1]
          by_cases h2 : a[i] = b[i]
          · simp only [if_pos h2]
            rw [if_neg (by decide), if_neg (by omega)]; exact ih'
          · simp only [if_neg h2]
            rw [if_pos (by decide), if_pos (by omega)]; rfl

/-- `compare_uint` (generated; never panics) = `compareUint` of the hand model (−1 / 0 / 1 ↦ Less / Equal / Greater) -/
theorem gq_compare_uint_eq (a b : List Nat) : GenW2.compare_uint a b = .ok (gq_ofInt (compareUint a b)) := by
  unfold GenW2.compare_uint compareUint
  exact gq_compare_loop a b _ _ (Nat.le_refl _)

theorem gq_go_range (a b : List Nat) : ∀ k, compareUint.go a b k = -1 ∨ compareUint.go a b k = 0 ∨ compareUint.go a b k = 1 := by
  intro k
  induction k with
  | zero => right; left; rfl
  | succ i ih =>
    rw [compareUint.go]
    by_cases h1 : a.getD i 0 < b.getD i 0
    · left; simp only [if_pos h1]
    · by_cases h2 : a.getD i 0 > b.getD i 0
      · right; right; simp only [if_neg h1, if_pos h2]
      · simp only [if_neg h1, if_neg h2]; exact ih

/-- `is_greater_than_or_equal_uint` = `geUint` -/
theorem gq_is_greater_than_or_equal_uint_eq (a b : List Nat) :
    GenW2.is_greater_than_or_equal_uint a b = .ok (geUint a b) := by
  unfold GenW2.is_greater_than_or_equal_uint geUint
  rw [gq_compare_uint_eq, gq_ok_bind, gq_pure_eq]
  congr 1
  unfold compareUint gq_ofInt
  rcases gq_go_range a b (max a.length b.length) with h | h | h <;> rw [h] <;> decide

/-! ### add_uint_mod / sub_uint_mod / add_uint_mod_inplace -/
theorem gq_addLimbs_length : ∀ n a b c, (addLimbs n a b c).1.length = n := by
  intro n
  induction n with
  | zero => intro a b c; rfl
  | succ k ih => intro a b c; rw [addLimbs]; simp only [List.length_cons, ih]
theorem gq_subLimbs_length : ∀ n a b c, (subLimbs n a b c).1.length = n := by
  intro n
  induction n with
  | zero => intro a b c; rfl
  | succ k ih => intro a b c; rw [subLimbs]; simp only [List.length_cons, ih]

theorem gq_addUint_length {a b : List Nat} {n : Nat} {s : List Nat} {c : Nat} (h : addUint a b n = .ok (s, c)) : s.length = n := by
  unfold addUint at h
  by_cases hb : n = 0 ∨ a.length < n ∨ b.length < n
  · rw [if_pos hb] at h; cases h
  · rw [if_neg hb] at h
    have h' := congrArg (fun (x : R (List Nat × Nat)) => match x with | .ok p => p.1.length | .error _ => n) h
    simp only [gq_pure_eq, List.length_cons, gq_addLimbs_length] at h'
    omega
theorem gq_subUint_length {a b : List Nat} {n : Nat} {s : List Nat} {c : Nat} (h : subUint a b n = .ok (s, c)) : s.length = n := by
  unfold subUint at h
  by_cases hb : n = 0 ∨ a.length < 1 ∨ b.length < 1
  · rw [if_pos hb] at h; cases h
  · rw [if_neg hb] at h
    have h' := congrArg (fun (x : R (List Nat × Nat)) => match x with | .ok p => p.1.length | .error _ => n) h
    simp only [gq_pure_eq, List.length_cons, gq_subLimbs_length] at h'
    omega

/-- the common tail of `add_uint_mod` / `add_uint_mod_inplace`: conditional subtraction of the modulus -/
theorem gq_add_mod_tail (m s : List Nat) (c : Nat) (hs : s.length = m.length) :
    ((if decide (c ≠ 0) = true then (pure true : R Bool) else
        (GenW2.is_greater_than_or_equal_uint s m >>= fun t2 => pure (decide (t2 = true)))) >>= fun t3 =>
      (if t3 = true then (GenW2.sub_uint_inplace s m >>= fun p => pure p.1) else (pure s : R (List Nat)))) =
    (if c ≠ 0 ∨ geUint s m = true then (subUint s m m.length >>= fun p => pure p.1) else pure s) := by
  rw [gq_is_greater_than_or_equal_uint_eq, gq_sub_uint_inplace_eq, hs]
  by_cases hc : c ≠ 0
  · have hd : decide (c ≠ 0) = true := decide_eq_true hc
    rw [hd, if_pos rfl, if_pos (Or.inl hc), gq_pure_eq, gq_ok_bind, if_pos rfl]
  · have hd : decide (c ≠ 0) = false := decide_eq_false hc
    rw [hd, if_neg (by decide), gq_ok_bind, gq_pure_eq, gq_ok_bind]
    cases hg : geUint s m with
    | true =>
      rw [if_pos (by decide), if_pos (Or.inr rfl)]
    | false =>
      rw [if_neg (by decide), if_neg (by intro h; rcases h with h | h; exact hc h; cases h)]

/-- `add_uint_mod(operand1, operand2, modulus, result)` (generated) = `addUintMod` of the hand model; `result.len() = modulus.len()` is the
    calling convention (the model takes every length from the modulus, the code from `result`). -/
theorem gq_add_uint_mod_eq (a b m r : List Nat) (hr : r.length = m.length) : GenW2.add_uint_mod a b m r = addUintMod a b m := by
  unfold GenW2.add_uint_mod addUintMod
  dsimp only
  rw [gx_add_uint_eq, hr]
  cases h : addUint a b m.length with
  | error e => rfl
  | ok p =>
    obtain ⟨s, c⟩ := p
    have hs : s.length = m.length := gq_addUint_length h
    simp only [gq_ok_bind]
    exact gq_add_mod_tail m s c hs

/-- `add_uint_mod_inplace(operand1, operand2, modulus)` = `addUintMod` (`operand1.len() = modulus.len()`) -/
theorem gq_add_uint_mod_inplace_eq (a b m : List Nat) (hr : a.length = m.length) : GenW2.add_uint_mod_inplace a b m = addUintMod a b m := by
  unfold GenW2.add_uint_mod_inplace addUintMod
  dsimp only
  rw [gq_add_uint_inplace_eq, hr]
  cases h : addUint a b m.length with
  | error e => rfl
  | ok p =>
    obtain ⟨s, c⟩ := p
    have hs : s.length = m.length := gq_addUint_length h
    simp only [gq_ok_bind]
    exact gq_add_mod_tail m s c hs

/-- `sub_uint_mod(operand1, operand2, modulus, result)` = `subUintMod` (`result.len() = modulus.len()`) -/
theorem gq_sub_uint_mod_eq (a b m r : List Nat) (hr : r.length = m.length) : GenW2.sub_uint_mod a b m r = subUintMod a b m := by
  unfold GenW2.sub_uint_mod subUintMod
  dsimp only
  rw [gx_sub_uint_eq, hr]
  cases h : subUint a b m.length with
  | error e => rfl
  | ok p =>
    obtain ⟨d, bw⟩ := p
    have hs : d.length = m.length := gq_subUint_length h
    simp only [gq_ok_bind, gq_add_uint_inplace_eq, hs]

/-! ### left_shift_u192 / right_shift_u192 -/
theorem gq_and_two_pow (s i : Nat) : s &&& 2^i = if s / 2^i % 2 = 1 then 2^i else 0 := by
  apply Nat.eq_of_testBit_eq
  intro j
  rw [Nat.testBit_and, Nat.testBit_two_pow]
  by_cases h : s / 2^i % 2 = 1
  · rw [if_pos h, Nat.testBit_two_pow]
    by_cases hj : i = j
    · subst hj; simp [Nat.testBit_eq_decide_div_mod_eq, h]
    · simp [hj]
  · rw [if_neg h, Nat.zero_testBit]
    by_cases hj : i = j
    · subst hj; simp [Nat.testBit_eq_decide_div_mod_eq, h]
    · simp [hj]
theorem gq_and_128 (s : Nat) : (s &&& 128 > 0) ↔ s / 128 % 2 = 1 := by
  have := gq_and_two_pow s 7
  rw [show (2:Nat)^7 = 128 by decide] at this
  rw [this]; by_cases h : s / 128 % 2 = 1 <;> simp [h]
theorem gq_and_64 (s : Nat) : (s &&& 64 > 0) ↔ s / 64 % 2 = 1 := by
  have := gq_and_two_pow s 6
  rw [show (2:Nat)^6 = 64 by decide] at this
  rw [this]; by_cases h : s / 64 % 2 = 1 <;> simp [h]
theorem gq_and_63 (s : Nat) : s &&& 63 = s % 64 := Nat.and_two_pow_sub_one_eq_mod s 6

theorem gq_shl_or_shr (x y s : Nat) (hs0 : 0 < s) (hs : s < 64) (hy : y < 2^64) :
    ((x <<< s) % 2^64) ||| (y >>> (64 - s)) = (x * 2^s) % B64 + y / 2^(64-s) := by
  have hp : (2:Nat)^64 = 2^(64-s) * 2^s := by rw [← Nat.pow_add]; congr 1; omega
  have hlt : y / 2^(64-s) < 2^s := Nat.div_lt_of_lt_mul (by rw [← hp]; exact hy)
  rw [Nat.shiftLeft_eq, Nat.shiftRight_eq_div_pow, gx_B64, hp, Nat.mul_mod_mul_right, Nat.mul_comm _ (2^s),
    Nat.two_pow_add_eq_or_of_lt hlt]

theorem gq_shr_or_shl (x y s : Nat) (hs0 : 0 < s) (hs : s < 64) (hx : x < 2^64) :
    (x >>> s) ||| ((y <<< (64 - s)) % 2^64) = x / 2^s + (y * 2^(64-s)) % B64 := by
  have hp : (2:Nat)^64 = 2^s * 2^(64-s) := by rw [← Nat.pow_add]; congr 1; omega
  have hlt : x / 2^s < 2^(64-s) := Nat.div_lt_of_lt_mul (by rw [← hp]; exact hx)
  rw [Nat.shiftLeft_eq, Nat.shiftRight_eq_div_pow, gx_B64, hp, Nat.mul_mod_mul_right, Nat.mul_comm _ (2^(64-s)),
    Nat.add_comm, Nat.two_pow_add_eq_or_of_lt hlt, Nat.or_comm]


theorem gq_shift_aux (b : Nat) (hb : b < 64) (hb0 : b > 0) :
    ckSub 64 b = .ok (64 - b) ∧ (∀ x, GenW.ckShl 64 x b = .ok ((x <<< b) % 2^64)) ∧ (∀ x, GenW.ckShr 64 x b = .ok (x >>> b)) ∧
    (∀ x, GenW.ckShl 64 x (64 - b) = .ok ((x <<< (64 - b)) % 2^64)) ∧ (∀ x, GenW.ckShr 64 x (64 - b) = .ok (x >>> (64 - b))) := by
  refine ⟨?_, ?_, ?_, ?_, ?_⟩
  · unfold ckSub; rw [if_pos (by omega)]
  · intro x; unfold GenW.ckShl; rw [if_pos hb]
  · intro x; unfold GenW.ckShr; rw [if_pos hb]
  · intro x; unfold GenW.ckShl; rw [if_pos (by omega)]
  · intro x; unfold GenW.ckShr; rw [if_pos (by omega)]

theorem gq_lsh2 (q0 q1 q2 b : Nat) (hb : b < 64) (h0 : q0 < 2^64) (h1 : q1 < 2^64) :
    (((if b > 0 then do
        let v2 ← ckSub 64 b
        let t1 ← GenW.ckShl 64 q2 b
        let t2 ← GenW.ckShr 64 q1 v2
        let t3 ← GenW.ckShl 64 q1 b
        let t4 ← GenW.ckShr 64 q0 v2
        let a2_0 ← GenW.ckShl 64 q0 b
        pure (a2_0, t3 ||| t4, t1 ||| t2)
      else pure (q0, q1, q2) : R (Nat × Nat × Nat)) >>= fun x => pure (x.1, x.2.1, x.2.2)) >>= fun p => pure [p.1, p.2.1, p.2.2]) =
    if b = 0 then pure [q0, q1, q2]
    else pure [q0 * 2^b % B64, q1 * 2^b % B64 + q0 / 2^(64-b), q2 * 2^b % B64 + q1 / 2^(64-b)] := by
  by_cases hb0 : b > 0
  · obtain ⟨e1, e2, e3, e4, e5⟩ := gq_shift_aux b hb hb0
    rw [if_pos hb0, if_neg (by omega)]
    simp only [e1, e2, e5, gq_ok_bind, gq_pure_eq, gq_shl_or_shr _ _ b hb0 hb h0, gq_shl_or_shr _ _ b hb0 hb h1]
    rw [Nat.shiftLeft_eq, gx_B64]
  · rw [if_neg hb0, if_pos (by omega)]; rfl

theorem gq_rsh2 (q0 q1 q2 b : Nat) (hb : b < 64) (h0 : q0 < 2^64) (h1 : q1 < 2^64) :
    (((if b > 0 then do
        let v2 ← ckSub 64 b
        let t1 ← GenW.ckShr 64 q0 b
        let t2 ← GenW.ckShl 64 q1 v2
        let t3 ← GenW.ckShr 64 q1 b
        let t4 ← GenW.ckShl 64 q2 v2
        let a2_2 ← GenW.ckShr 64 q2 b
        pure (t1 ||| t2, t3 ||| t4, a2_2)
      else pure (q0, q1, q2) : R (Nat × Nat × Nat)) >>= fun x => pure (x.1, x.2.1, x.2.2)) >>= fun p => pure [p.1, p.2.1, p.2.2]) =
    if b = 0 then pure [q0, q1, q2]
    else pure [q0 / 2^b + q1 * 2^(64-b) % B64, q1 / 2^b + q2 * 2^(64-b) % B64, q2 / 2^b] := by
  by_cases hb0 : b > 0
  · obtain ⟨e1, e2, e3, e4, e5⟩ := gq_shift_aux b hb hb0
    rw [if_pos hb0, if_neg (by omega)]
    simp only [e1, e3, e4, gq_ok_bind, gq_pure_eq, gq_shr_or_shl _ _ b hb0 hb h0, gq_shr_or_shl _ _ b hb0 hb h1]
    rw [Nat.shiftRight_eq_div_pow]
  · rw [if_neg hb0, if_pos (by omega)]; rfl

/-- `left_shift_u192(operand, s, result)` (generated on the three words; the old contents `r0 r1 r2` of `result` are irrelevant)
    = `leftShiftU192 [a0, a1, a2] s`.  `a0, a1 < 2^64` (word type): `(x << b) | (y >> (64 - b))` is a sum only for 64-bit `y`. -/
theorem gq_left_shift_u192_eq (a0 a1 a2 s r0 r1 r2 : Nat) (h0 : a0 < 2^64) (h1 : a1 < 2^64) :
    (GenW2.left_shift_u192 a0 a1 a2 s r0 r1 r2 >>= fun p => pure [p.1, p.2.1, p.2.2]) = leftShiftU192 [a0, a1, a2] s := by
  have hb : s % 64 < 64 := Nat.mod_lt _ (by decide)
  have hz : (0:Nat) < 2^64 := by decide
  unfold GenW2.left_shift_u192 leftShiftU192
  simp only [gq_and_128, gq_and_64, gq_and_63]
  rw [if_neg (show ¬ [a0, a1, a2].length < 3 from Nat.lt_irrefl 3)]
  by_cases c1 : s / 128 % 2 = 1
  · simp only [if_pos c1]
    exact gq_lsh2 0 0 a0 (s % 64) hb hz hz
  · simp only [if_neg c1]
    by_cases c2 : s / 64 % 2 = 1
    · simp only [if_pos c2]
      exact gq_lsh2 0 a0 a1 (s % 64) hb hz h0
    · simp only [if_neg c2]
      exact gq_lsh2 a0 a1 a2 (s % 64) hb h0 h1

/-- `right_shift_u192` likewise; all three words `< 2^64`. -/
theorem gq_right_shift_u192_eq (a0 a1 a2 s r0 r1 r2 : Nat) (h0 : a0 < 2^64) (h1 : a1 < 2^64) (h2 : a2 < 2^64) :
    (GenW2.right_shift_u192 a0 a1 a2 s r0 r1 r2 >>= fun p => pure [p.1, p.2.1, p.2.2]) = rightShiftU192 [a0, a1, a2] s := by
  have hb : s % 64 < 64 := Nat.mod_lt _ (by decide)
  have hz : (0:Nat) < 2^64 := by decide
  unfold GenW2.right_shift_u192 rightShiftU192
  simp only [gq_and_128, gq_and_64, gq_and_63]
  rw [if_neg (show ¬ [a0, a1, a2].length < 3 from Nat.lt_irrefl 3)]
  by_cases c1 : s / 128 % 2 = 1
  · simp only [if_pos c1]
    exact gq_rsh2 a2 0 0 (s % 64) hb h2 hz
  · simp only [if_neg c1]
    by_cases c2 : s / 64 % 2 = 1
    · simp only [if_pos c2]
      exact gq_rsh2 a1 a2 0 (s % 64) hb h1 h2
    · simp only [if_neg c2]
      exact gq_rsh2 a0 a1 a2 (s % 64) hb h0 h1

end HC
