import Heathcliff.Proofs.GenRns

/-!
  Phase 4k (stepping stone for `RNSBase::compose`, which is NOT tied yet): `util::multiply_uint_u64` and `util::set_zero_uint` (src/util/basic.rs) generated
  into `Heathcliff/Gen/RnsFns.lean` EQUAL the hand model's `multiplyUintU64` (C08) for every operand, every word and every result buffer.
-/
namespace HC
open HC.GenW HC.GenR

theorem gr_set_zero_uint_eq (l : List Nat) : GenR.set_zero_uint l = List.replicate l.length 0 := rfl

/-- what the code does after the limb loop: the last carry goes to `result[k]` if there is room -/
def gr_mulFinish (k : Nat) (buf : List Nat) (c : Nat) : R (List Nat) := if k < buf.length then setIdx buf k c else pure buf

theorem gr_mul_loop (a : List Nat) (w k : Nat) : ∀ fuel i (pre rest : List Nat) (carry : Nat), i + fuel = k → k ≤ a.length → pre.length = i →
    fuel ≤ rest.length →
    GenR.multiply_uint_u64_loop1 a w k fuel i (pre ++ rest) carry
      = (mulLimbsU64 (a.drop i) w fuel carry >>= fun p => gr_mulFinish k (pre ++ p.1 ++ rest.drop fuel) p.2) := by
  intro fuel
  induction fuel with
  | zero =>
    intro i pre rest carry _ _ _ _
    rw [GenR.multiply_uint_u64_loop1]
    cases hd : a.drop i <;> simp [mulLimbsU64, gr_mulFinish, gr_ok_bind, gr_pure, pure, Except.pure, bind, Except.bind]
  | succ fuel ih =>
    intro i pre rest carry hik hka hpre hrest
    have hi : i < a.length := by omega
    have hdrop : a.drop i = a[i] :: a.drop (i + 1) := by rw [List.drop_eq_getElem_cons hi]
    obtain ⟨r0, rest', rfl⟩ : ∃ r0 rest', rest = r0 :: rest' := by
      cases rest with
      | nil => simp at hrest
      | cons r0 rest' => exact ⟨r0, rest', rfl⟩
    have hlt : i < (pre ++ r0 :: rest').length := by rw [List.length_append, List.length_cons]; omega
    have hset : ∀ t, (pre ++ r0 :: rest').set i t = (pre ++ [t]) ++ rest' := by
      intro t
      rw [List.set_append_right _ _ (by omega), hpre, Nat.sub_self, List.set_cons_zero, List.append_assoc]; rfl
    rw [GenR.multiply_uint_u64_loop1, hdrop, mulLimbsU64]
    simp only [gw_idx_eq _ _ hi, gr_ok_bind, gw_multiply_u64_u64_eq, gw_add_u64_carry_eq]
    cases hc : ckAdd (mulHi a[i] w) (addU64Carry (mulLo a[i] w) carry 0).2 with
    | error e => rfl
    | ok carry' =>
      simp only [gr_ok_bind, gx_setIdx_ok _ _ _ hlt, hset]
      rw [ih (i + 1) (pre ++ [(addU64Carry (mulLo a[i] w) carry 0).1]) rest' carry' (by omega) hka (by rw [List.length_append, hpre]; rfl)
        (by simpa using hrest)]
      cases mulLimbsU64 (a.drop (i + 1)) w fuel carry' with
      | error e => rfl
      | ok p =>
        simp only [gr_ok_bind, List.drop_succ_cons]
        show gr_mulFinish k _ p.2 = gr_mulFinish k _ p.2
        congr 1
        simp

theorem gr_mulLimbs_length : ∀ (a : List Nat) (w k carry : Nat) (p : List Nat × Nat), k ≤ a.length → mulLimbsU64 a w k carry = .ok p → p.1.length = k := by
  intro a
  induction a with
  | nil =>
    intro w k carry p hk h
    have : k = 0 := by simpa using hk
    subst this
    rw [mulLimbsU64] at h; cases h; rfl
  | cons x xs ih =>
    intro w k carry p hk h
    cases k with
    | zero => rw [mulLimbsU64] at h; cases h; rfl
    | succ k =>
      rw [mulLimbsU64] at h
      simp only [] at h
      cases hc : ckAdd (mulHi x w) (addU64Carry (mulLo x w) carry 0).2 with
      | error e => rw [hc] at h; cases h
      | ok carry' =>
        rw [hc, gr_ok_bind] at h
        cases hr : mulLimbsU64 xs w k carry' with
        | error e => rw [hr] at h; cases h
        | ok q =>
          rw [hr, gr_ok_bind] at h
          cases h
          have := ih w k carry' q (by simpa using hk) hr
          simp [this]

/-- **`util::multiply_uint_u64` (generated from src/util/basic.rs) = the hand model `multiplyUintU64`** (C08), for every operand, word and result buffer
    (all three branches: zero operand / one-word result / the limb loop with the final carry); `return set_zero_uint(result);` is read as
    `set_zero_uint(result); return;`, `set_zero_uint` = `fill(0)` -/
theorem gr_multiply_uint_u64_eq (a : List Nat) (w : Nat) (r : List Nat) : GenR.multiply_uint_u64 a w r = multiplyUintU64 a w r.length := by
  unfold GenR.multiply_uint_u64 multiplyUintU64
  have hemp : (a.length = 0) ↔ (a.isEmpty = true) := by cases a <;> simp
  by_cases h0 : a.length = 0 ∨ w = 0
  · have h0' : a.isEmpty = true ∨ w = 0 := by
      rcases h0 with h | h
      · exact Or.inl (hemp.mp h)
      · exact Or.inr h
    rw [if_pos h0, if_pos h0']; rfl
  · have h0' : ¬(a.isEmpty = true ∨ w = 0) := by
      intro h
      rcases h with h | h
      · exact h0 (Or.inl (hemp.mpr h))
      · exact h0 (Or.inr h)
    rw [if_neg h0, if_neg h0']
    have ha : 0 < a.length := by omega
    by_cases h1 : r.length = 1
    · rw [if_pos h1, if_pos h1]
      obtain ⟨x, rfl⟩ : ∃ x, r = [x] := by
        match r, h1 with
        | [x], _ => exact ⟨x, rfl⟩
      obtain ⟨y, ys, rfl⟩ : ∃ y ys, a = y :: ys := by
        cases a with
        | nil => simp at ha
        | cons y ys => exact ⟨y, ys, rfl⟩
      simp [GenW.idx, GenW.setIdx, pure, Except.pure, bind, Except.bind]
    · rw [if_neg h1, if_neg h1]
      simp only [gr_set_zero_uint_eq, List.length_replicate]
      have hk : min a.length r.length ≤ a.length := Nat.min_le_left _ _
      have hk2 : min a.length r.length ≤ r.length := Nat.min_le_right _ _
      have hloop := gr_mul_loop a w (min a.length r.length) (min a.length r.length) 0 [] (List.replicate r.length 0) 0 (by omega) hk rfl
        (by rw [List.length_replicate]; exact hk2)
      rw [List.nil_append, List.drop_zero] at hloop
      rw [hloop]
      cases hm : mulLimbsU64 a w (min a.length r.length) 0 with
      | error e => rfl
      | ok p =>
        have hpl := gr_mulLimbs_length a w _ 0 p hk hm
        obtain ⟨rs, cf⟩ := p
        simp only [gr_ok_bind, List.nil_append, List.drop_replicate]
        have hpl' : rs.length = min a.length r.length := hpl
        unfold gr_mulFinish
        have hbl : (rs ++ List.replicate (r.length - min a.length r.length) 0).length = r.length := by
          rw [List.length_append, List.length_replicate, hpl']; omega
        rw [hbl]
        by_cases hlt : min a.length r.length < r.length
        · rw [if_pos hlt, if_pos hlt]
          have hidx : min a.length r.length < (rs ++ List.replicate (r.length - min a.length r.length) 0).length := by rw [hbl]; exact hlt
          rw [gx_setIdx_ok _ _ _ hidx]
          show Except.ok _ = Except.ok _
          congr 1
          unfold padTo
          rw [List.set_append_right _ _ (by omega), hpl', Nat.sub_self, List.length_append, List.length_singleton, hpl']
          obtain ⟨m, hm'⟩ : ∃ m, r.length - min a.length r.length = m + 1 := ⟨r.length - min a.length r.length - 1, by omega⟩
          rw [hm', List.replicate_succ, List.set_cons_zero, show r.length - (min a.length r.length + 1) = m by omega, List.append_assoc]
          rfl
        · rw [if_neg hlt, if_neg hlt]
          have : r.length - min a.length r.length = 0 := by omega
          rw [this, List.replicate_zero, List.append_nil]

end HC
