/- C10 part I: integer-level correctness of the RNSTool routines (division by the last prime with rounding, its BGV variant,
   and the BEHZ steps).  Part 1 gives precise statements to prove.  Part 2 asks you to FORMULATE and prove the integer
   lemmas behind the BEHZ routines.  Part 3 lifts every routine to its `…Coeff` value. -/
import Heathcliff.Model.RNS
import Heathcliff.Proofs.C08A
import Heathcliff.Proofs.NTTDefs
import Mathlib.Data.Nat.ModEq
import Mathlib.Data.Int.ModEq
import Mathlib.Tactic.Ring
import Mathlib.Tactic.Linarith
import Mathlib.Tactic.LinearCombination
import Mathlib.Tactic.Push
import Mathlib.Tactic.NormNum
import Mathlib.Tactic.Positivity
import Mathlib.Algebra.Order.Ring.Abs
namespace HC

/-! ## generic helpers: Nat residues as integer congruences -/

theorem cast_mod_modEq (a q : Nat) : ((a % q : Nat) : Int) ≡ a [ZMOD q] := by
  rw [Int.natCast_mod]; exact Int.mod_modEq _ _

/-- `(a + q - b) mod q` represents `a - b` -/
theorem cast_subrep_modEq {a b q : Nat} (hb : b ≤ a + q) :
    (((a + q - b) % q : Nat) : Int) ≡ (a : Int) - b [ZMOD q] := by
  refine (cast_mod_modEq _ _).trans ?_
  rw [Nat.cast_sub hb]; push_cast
  rw [Int.modEq_iff_dvd]
  exact ⟨-1, by ring⟩

theorem cast_mul_modEq (a b q : Nat) : (((a * b) % q : Nat) : Int) ≡ (a : Int) * b [ZMOD q] := by
  refine (cast_mod_modEq _ _).trans ?_
  push_cast; rfl

theorem inv_cast {inv m q : Nat} (h : (inv * m) % q = 1) : (inv : Int) * m ≡ 1 [ZMOD q] := by
  have := cast_mod_modEq (inv * m) q
  rw [h] at this
  push_cast at this
  exact this.symm

theorem eq_emod_of_modEq {r q : Nat} {z : Int} (hr : r < q) (h : (r : Int) ≡ z [ZMOD q]) :
    (r : Int) = z % q := by
  unfold Int.ModEq at h
  rw [← h, Int.emod_eq_of_lt (by positivity) (by exact_mod_cast hr)]

theorem nat_eq_of_modEq {r s q : Nat} (hr : r < q) (hs : s < q) (h : (r : Int) ≡ s [ZMOD q]) : r = s :=
  (Int.natCast_modEq_iff.mp h).eq_of_lt_of_lt hr hs

/-! ## Part 1: division by the last prime (per coefficient and per output component) -/

/-- the value `divide_and_round_q_last_inplace` computes for output component i from the residues
    xL = x mod q_L and xi = x mod q_i (h = ⌊q_L/2⌋, inv = q_L^{-1} mod q_i) -/
def divRoundLastCoeff (qL qi inv xL xi : Nat) : Nat :=
  let h := qL / 2
  let a := (xL + h) % qL                      -- add_scalar (mod q_L)
  let tmp := (a % qi + qi - h % qi) % qi       -- modulo q_i, then sub_scalar half_mod
  (((xi + qi - tmp) % qi) * inv) % qi          -- sub, multiply by q_L^{-1}

/-- ROUNDING DIVISION: the result is the nearest integer to x / q_L (ties up), reduced mod q_i -/
theorem divRoundLast_scalar {qL qi inv x : Nat} (hqL : 2 ≤ qL) (hqi : 2 ≤ qi) (hinv : (inv * qL) % qi = 1) :
    divRoundLastCoeff qL qi inv (x % qL) (x % qi) = ((x + qL / 2) / qL) % qi := by
  have hqi0 : 0 < qi := by omega
  unfold divRoundLastCoeff
  simp only []
  rw [Nat.mod_add_mod]
  generalize hh : qL / 2 = h
  have hdiv : qL * ((x + h) / qL) + (x + h) % qL = x + h := Nat.div_add_mod _ _
  generalize (x + h) / qL = w at *
  generalize (x + h) % qL = a at *
  have hdivZ : (qL : Int) * w + a = x + h := by exact_mod_cast hdiv
  have hlt := Nat.mod_lt h hqi0
  have t1 : (((a % qi + qi - h % qi) % qi : Nat) : Int) ≡ (a : Int) - h [ZMOD qi] :=
    (cast_subrep_modEq (by omega)).trans ((cast_mod_modEq a qi).sub (cast_mod_modEq h qi))
  have hlt2 := Nat.mod_lt (a % qi + qi - h % qi) hqi0
  have t2 : (((x % qi + qi - (a % qi + qi - h % qi) % qi) % qi : Nat) : Int) ≡ (x : Int) - (a - h) [ZMOD qi] :=
    (cast_subrep_modEq (by omega)).trans ((cast_mod_modEq x qi).sub t1)
  have t3 := (cast_mul_modEq ((x % qi + qi - (a % qi + qi - h % qi) % qi) % qi) inv qi).trans
    (t2.mul_right (inv : Int))
  have e : ((x : Int) - (a - h)) * inv = w * ((inv : Int) * qL) := by linear_combination (-(inv : Int)) * hdivZ
  rw [e] at t3
  have t4 := t3.trans ((inv_cast hinv).mul_left (w : Int))
  rw [mul_one] at t4
  exact nat_eq_of_modEq (Nat.mod_lt _ hqi0) (Nat.mod_lt _ hqi0) (t4.trans (cast_mod_modEq w qi).symm)

/-- the value `mod_t_and_divide_q_last_inplace` computes (neg = -x_L·q_L^{-1} mod t, invt = q_L^{-1} mod t) -/
def modTDivLastCoeff (t qL qi inv invt xL xi : Nat) : Nat :=
  let neg := (((t - xL % t) % t) * invt) % t
  let delta := ((neg % qi) * (qL % qi)) % qi
  (((xi + 2 * qi - xL % qi - delta) % qi) * inv) % qi

/-- BGV DIVISION: with y = (x - x_L)/q_L - neg (an integer, |y - x/q_L| ≤ t + 1) the routine returns y mod q_i,
    and y·q_L ≡ x (mod t): the value modulo t is preserved up to the known factor q_L^{-1} -/
theorem modTDivLast_scalar {t qL qi inv invt x : Nat} (ht : 2 ≤ t) (hqL : 2 ≤ qL) (hqi : 2 ≤ qi)
    (hinv : (inv * qL) % qi = 1) (hinvt : (invt * qL) % t = 1) (hit : invt < t) :
    let xL := x % qL
    let neg := (((t - xL % t) % t) * invt) % t
    let y : Int := ((x - xL) / qL : Nat) - (neg : Int)
    (modTDivLastCoeff t qL qi inv invt xL (x % qi) : Int) = y % (qi : Int) ∧
    (y * qL - x) % (t : Int) = 0 ∧ neg < t := by
  have hqi0 : 0 < qi := by omega
  have ht0 : 0 < t := by omega
  have hqL0 : 0 < qL := by omega
  intro xL neg y
  have hxL : xL ≤ x := Nat.mod_le _ _
  have hdiv : qL * (x / qL) + xL = x := Nat.div_add_mod _ _
  have hquo : (x - xL) / qL = x / qL := by
    have : x - xL = qL * (x / qL) := by omega
    rw [this, Nat.mul_div_cancel_left _ hqL0]
  have hy : y * qL = (x : Int) - xL - neg * qL := by
    have hdivZ : (qL : Int) * (x / qL : Nat) + xL = x := by exact_mod_cast hdiv
    show (((x - xL) / qL : Nat) - (neg : Int)) * qL = _
    rw [hquo]; linear_combination hdivZ
  refine ⟨?_, ?_, Nat.mod_lt _ ht0⟩
  · unfold modTDivLastCoeff
    simp only []
    show (((((x % qi + 2 * qi - xL % qi - ((neg % qi) * (qL % qi)) % qi) % qi) * inv) % qi : Nat) : Int) = y % (qi : Int)
    have l1 := Nat.mod_lt xL hqi0
    have l2 := Nat.mod_lt ((neg % qi) * (qL % qi)) hqi0
    have e1 : x % qi + 2 * qi - xL % qi - ((neg % qi) * (qL % qi)) % qi
        = (x % qi + qi - xL % qi) + qi - ((neg % qi) * (qL % qi)) % qi := by omega
    rw [e1]
    have t0 : ((x % qi + qi - xL % qi : Nat) : Int) ≡ (x : Int) - xL [ZMOD qi] := by
      rw [Nat.cast_sub (by omega)]; push_cast
      have a1 : ((x : Int) % qi) ≡ x [ZMOD qi] := Int.mod_modEq _ _
      have a2 : ((xL : Int) % qi) ≡ xL [ZMOD qi] := Int.mod_modEq _ _
      have a3 : ((x : Int) % qi + qi) ≡ (x : Int) % qi [ZMOD qi] := Int.add_modEq_right
      exact (a3.trans a1).sub a2
    have td : ((((neg % qi) * (qL % qi)) % qi : Nat) : Int) ≡ (neg : Int) * qL [ZMOD qi] :=
      (cast_mul_modEq _ _ _).trans ((cast_mod_modEq neg qi).mul (cast_mod_modEq qL qi))
    have t2 := (cast_subrep_modEq (a := x % qi + qi - xL % qi) (b := ((neg % qi) * (qL % qi)) % qi)
      (q := qi) (by omega)).trans (t0.sub td)
    have t3 := (cast_mul_modEq _ inv qi).trans (t2.mul_right (inv : Int))
    have e : ((x : Int) - xL - neg * qL) * inv = y * ((inv : Int) * qL) := by linear_combination (-(inv : Int)) * hy
    rw [e] at t3
    have t4 := t3.trans ((inv_cast hinv).mul_left y)
    rw [mul_one] at t4
    exact eq_emod_of_modEq (Nat.mod_lt _ hqi0) t4
  · -- neg * qL ≡ -xL (mod t)
    have n1 : ((t - xL % t : Nat) : Int) ≡ -(xL : Int) [ZMOD t] := by
      rw [Nat.cast_sub (Nat.mod_lt xL ht0).le]; push_cast
      have a1 : (t : Int) ≡ 0 [ZMOD t] := Int.modEq_iff_dvd.2 ⟨-1, by ring⟩
      have a2 := a1.sub (Int.mod_modEq (xL : Int) t)
      rwa [zero_sub] at a2
    have n2 : (neg : Int) ≡ -(xL : Int) * invt [ZMOD t] :=
      (cast_mul_modEq _ _ _).trans (((cast_mod_modEq _ t).trans n1).mul_right (invt : Int))
    have n3 : (neg : Int) * qL ≡ -(xL : Int) [ZMOD t] := by
      have h1 := n2.mul_right (qL : Int)
      rw [mul_assoc] at h1
      have h2 := h1.trans ((inv_cast hinvt).mul_left (-(xL : Int)))
      rwa [mul_one] at h2
    have : y * qL - x ≡ 0 [ZMOD t] := by
      rw [hy]
      have := (Int.ModEq.refl (-(xL : Int))).sub n3
      rw [sub_self] at this
      have e : (x : Int) - xL - neg * qL - x = -(xL : Int) - neg * qL := by ring
      rw [e]; exact this
    exact this

/-! ### lifting machinery: `mapM'` / `zipM'` / `List.mapM` on total step functions -/

theorem foldlM_push_ok {α : Type} (l : List α) (F : α → R Nat) (G : α → Nat)
    (h : ∀ x ∈ l, F x = .ok (G x)) (acc : Array Nat) :
    l.foldlM (fun acc x => do let y ← F x; pure (acc.push y)) acc = .ok (acc ++ (l.map G).toArray) := by
  induction l generalizing acc with
  | nil => simp [pure, Except.pure]
  | cons a l ih =>
    rw [List.foldlM_cons, h a (by simp)]
    have := ih (fun x hx => h x (by simp [hx])) (acc.push (G a))
    refine Eq.trans (this) ?_
    simp

theorem mapM'_ok {a : Array Nat} {f : Nat → R Nat} (g : Nat → Nat) (h : ∀ x ∈ a, f x = .ok (g x)) :
    mapM' a f = .ok (a.map g) := by
  unfold mapM'
  rw [← Array.foldlM_toList, foldlM_push_ok a.toList f g (fun x hx => h x (by simpa using hx))]
  simp [← Array.toList_map]

theorem zipM'_ok {a b : Array Nat} {f : Nat → Nat → R Nat} (g : Nat → Nat → Nat)
    (h : ∀ i, i < a.size → f (a.getD i 0) (b.getD i 0) = .ok (g (a.getD i 0) (b.getD i 0))) :
    zipM' a b f = .ok ((List.range a.size).map (fun i => g (a.getD i 0) (b.getD i 0))).toArray := by
  unfold zipM'
  rw [foldlM_push_ok (List.range a.size) (fun i => f (a.getD i 0) (b.getD i 0))
    (fun i => g (a.getD i 0) (b.getD i 0)) (fun i hi => h i (List.mem_range.mp hi))]
  simp

theorem listMapM_ok {α β : Type} (l : List α) (F : α → R β) (G : α → β)
    (h : ∀ x ∈ l, F x = .ok (G x)) : l.mapM F = .ok (l.map G) := by
  induction l with
  | nil => simp [pure, Except.pure]
  | cons a l ih =>
    rw [List.mapM_cons, h a (by simp), ih (fun x hx => h x (by simp [hx]))]
    simp [bind, Except.bind, pure, Except.pure]

theorem wfop_new {m : Modulus} {o : MulOperand} (hm : m.WF) (h : WFOp m o) :
    MulOperand.new o.operand m = .ok o := by
  obtain ⟨o', h1, h2, h3⟩ := mulOperand_new hm h.1
  rw [h1]
  congr 1
  cases o; cases o'
  simp only [MulOperand.mk.injEq]
  simp only at h2 h3
  exact ⟨h2, by rw [h3]; exact h.2.symm⟩

theorem ok_bind {α β : Type} (v : α) (f : α → R β) : (Except.ok v >>= f) = f v := rfl

theorem getD_push_rangeMap {β : Type} (n : Nat) (F : Nat → β) (y d : β) {i : Nat} (hi : i < n) :
    (((List.range n).map F).toArray.push y).getD i d = F i := by
  have h2 : i < (((List.range n).map F).toArray.push y).size := by simp; omega
  simp [Array.getD, hi]
  intro h; omega

theorem getD_lt_of_forall {a : Array Nat} {B : Nat} (h : ∀ x ∈ a, x < B) (hB : 0 < B) (k : Nat) :
    a.getD k 0 < B := by
  unfold Array.getD
  split
  · exact h _ (Array.getElem_mem _)
  · exact hB

theorem c10i_getD_map_lt (a : Array Nat) (f : Nat → Nat) {j : Nat} (hj : j < a.size) :
    (a.map f).getD j 0 = f (a.getD j 0) := by
  simp [Array.getD, hj]

theorem getD_rangeMap (n : Nat) (F : Nat → Nat) {j : Nat} (hj : j < n) :
    ((List.range n).map F).toArray.getD j 0 = F j := by
  simp [Array.getD, hj]

theorem mem_lt_of_getD {a : Array Nat} {B : Nat} (h : ∀ j, j < a.size → a.getD j 0 < B) : ∀ x ∈ a, x < B := by
  intro x hx
  obtain ⟨j, hj, rfl⟩ := Array.mem_iff_getElem.mp hx
  have := h j hj
  simpa [Array.getD, hj] using this

/-- output component i of `divideAndRoundQLast` as an explicit array -/
def divRoundLastComp (r : RNSTool) (p : RnsPoly) (i : Nat) : Array Nat :=
  let last := r.baseQ.q (r.baseQ.size - 1)
  let b := r.baseQ.q i
  let half := last.value / 2
  let lastc := (p.getD (r.baseQ.size - 1) #[]).map (fun x => (x + half) % last.value)
  let temp := lastc.map (fun x => (x % b.value + b.value - half % b.value) % b.value)
  let d := ((List.range (p.getD i #[]).size).map
    (fun k => ((p.getD i #[]).getD k 0 + b.value - temp.getD k 0) % b.value)).toArray
  d.map (fun x => (x * (r.invQLastModQ.getD i default).operand) % b.value)

theorem divRoundLastComp_getD {r : RNSTool} {p : RnsPoly} {i j : Nat}
    (hni : (p.getD i #[]).size = r.n) (hnl : (p.getD (r.baseQ.size - 1) #[]).size = r.n) (hj : j < r.n) :
    (divRoundLastComp r p i).getD j 0 =
      divRoundLastCoeff (r.baseQ.q (r.baseQ.size - 1)).value (r.baseQ.q i).value (r.invQLastModQ.getD i default).operand
          ((p.getD (r.baseQ.size - 1) #[]).getD j 0) ((p.getD i #[]).getD j 0) := by
  unfold divRoundLastComp divRoundLastCoeff
  dsimp only
  rw [c10i_getD_map_lt _ _ (by rw [List.size_toArray, List.length_map, List.length_range, hni]; exact hj), getD_rangeMap _ _ (by rw [hni]; exact hj),
    c10i_getD_map_lt _ _ (by rw [Array.size_map, hnl]; exact hj), c10i_getD_map_lt _ _ (by rw [hnl]; exact hj)]

/-- LIFT to the model (coefficient form): every output component i < size-1, every coefficient j -/
theorem divideAndRoundQLast_spec {r : RNSTool} {p : RnsPoly}
    (hq : ∀ i, i < r.baseQ.size → (r.baseQ.q i).WF) (hs : 2 ≤ r.baseQ.size)
    (hinv : ∀ i, i < r.baseQ.size - 1 → WFOp (r.baseQ.q i) (r.invQLastModQ.getD i default) ∧
        ((r.invQLastModQ.getD i default).operand * (r.baseQ.q (r.baseQ.size - 1)).value) % (r.baseQ.q i).value = 1)
    (hp : p.size = r.baseQ.size) (hn : ∀ i, i < r.baseQ.size → (p.getD i #[]).size = r.n)
    (hc : ∀ i j, i < r.baseQ.size → j < r.n → (p.getD i #[]).getD j 0 < (r.baseQ.q i).value) :
    ∃ out, r.divideAndRoundQLast p = .ok out ∧ ∀ i j, i < r.baseQ.size - 1 → j < r.n →
      (out.getD i #[]).getD j 0 =
        divRoundLastCoeff (r.baseQ.q (r.baseQ.size - 1)).value (r.baseQ.q i).value (r.invQLastModQ.getD i default).operand
          ((p.getD (r.baseQ.size - 1) #[]).getD j 0) ((p.getD i #[]).getD j 0) := by
  have hlastWF := hq (r.baseQ.size - 1) (by omega)
  have hl2 := hlastWF.two_le
  have hl61 := hlastWF.lt
  have hmemL : ∀ x ∈ p.getD (r.baseQ.size - 1) #[], x < (r.baseQ.q (r.baseQ.size - 1)).value :=
    mem_lt_of_getD (fun j hj => hc _ j (by omega) (by rw [← hn (r.baseQ.size - 1) (by omega)]; exact hj))
  have h1 : mapM' (p.getD (r.baseQ.size - 1) #[])
      (fun x => addMod x ((r.baseQ.q (r.baseQ.size - 1)).value / 2) (r.baseQ.q (r.baseQ.size - 1)))
      = .ok ((p.getD (r.baseQ.size - 1) #[]).map
          (fun x => (x + (r.baseQ.q (r.baseQ.size - 1)).value / 2) % (r.baseQ.q (r.baseQ.size - 1)).value)) :=
    mapM'_ok _ (fun x hx => addMod_exact hlastWF (hmemL x hx) (by omega))
  unfold RNSTool.divideAndRoundQLast
  dsimp only
  rw [h1, ok_bind, listMapM_ok (G := divRoundLastComp r p), ok_bind]
  · refine ⟨_, rfl, ?_⟩
    intro i j hi hj
    rw [getD_push_rangeMap _ _ _ _ hi]
    exact divRoundLastComp_getD (hn i (by omega)) (hn _ (by omega)) hj
  · intro i hi
    rw [List.mem_range] at hi
    have hb := hq i (by omega)
    have hb2 := hb.two_le
    have hb61 := hb.lt
    obtain ⟨hop, -⟩ := hinv i hi
    rw [barrett64_exact hb (by omega), ok_bind]
    have hb0 : 0 < (r.baseQ.q i).value := by omega
    rw [mapM'_ok (g := fun x => (x % (r.baseQ.q i).value + (r.baseQ.q i).value
          - (r.baseQ.q (r.baseQ.size - 1)).value / 2 % (r.baseQ.q i).value) % (r.baseQ.q i).value),
      ok_bind,
      zipM'_ok (g := fun x y => (x + (r.baseQ.q i).value - y) % (r.baseQ.q i).value),
      ok_bind,
      mapM'_ok (g := fun x => (x * (r.invQLastModQ.getD i default).operand) % (r.baseQ.q i).value)]
    · rfl
    · intro x hx
      have hx' : x < (r.baseQ.q i).value := by
        obtain ⟨k, hk, rfl⟩ := Array.mem_iff_getElem.mp hx
        simp only [List.getElem_toArray, List.getElem_map]
        exact Nat.mod_lt _ hb0
      exact mulOperandMod_exact hb (by omega) hop.1 (wfop_new hb hop)
    · intro k hk
      refine subMod_exact hb (hc i k (by omega) (by rw [← hn i (by omega)]; exact hk)) ?_
      apply getD_lt_of_forall _ hb0
      intro x hx
      obtain ⟨y, -, rfl⟩ := Array.mem_map.mp hx
      exact Nat.mod_lt _ hb0
    · intro x hx
      obtain ⟨y, hy, rfl⟩ := Array.mem_map.mp hx
      have hlt : (y + (r.baseQ.q (r.baseQ.size - 1)).value / 2) % (r.baseQ.q (r.baseQ.size - 1)).value
          < (r.baseQ.q (r.baseQ.size - 1)).value := Nat.mod_lt _ (by omega)
      rw [barrett64_exact hb (by omega), ok_bind]
      exact subMod_exact hb (Nat.mod_lt _ hb0) (Nat.mod_lt _ hb0)

/-! ## Part 2: BEHZ integer lemmas — formulate precisely, then prove.
   For each routine below write (a) a `def …Coeff` giving the per-coefficient value the MODEL computes (read
   Heathcliff/Model/RNS.lean: `smMrq`, `fastFloor`, `fastbconvSk`, `decryptScaleAndRound`) and (b) the integer theorem:

   * sm_mrq (Montgomery reduction mod q with m̃ = 2^32): for an integer Y given by residues y_i mod b_i and y_m mod m̃,
     rm := the representative in [-m̃/2, m̃/2) of -Y·q^{-1} mod m̃; then m̃ ∣ (Y + q·rm) and the routine returns
     ((Y + q·rm)/m̃) mod b_i for every Bsk modulus b_i; moreover |(Y + q·rm)/m̃| ≤ |Y|/m̃ + q/2.
   * fast_floor: with x the value in base q (x < q-product Q), Y ≡ x (mod Q) the value in base Bsk of the same integer,
     and the fast conversion of x giving x + αQ (0 ≤ α < k): the routine returns ((Y - (x + αQ))/Q) mod b_i = (⌊Y/Q⌋ - α) mod b_i
     when Y ≥ 0 is the integer with those residues (state it for integers Y with Y ≡ x mod Q).
   * fastbconv_sk (Shenoy–Kumaresan): V an integer with |V|·2 + 2·k·B < B·m_sk (B = product of base B, k = its size),
     given by residues mod B's primes and mod m_sk: with the fast conversion of (V mod B) giving (V mod B) + αB,
     α_sk := ((V mod B) + αB - V)/B reduced mod m_sk and centred is exactly that integer, hence the routine returns V mod q_i.
   * decrypt_scale_and_round (γ-correction): for x̃ the centred phase with t·x̃ = Q·w + e, the routine returns w mod t whenever
     |e|·γ·2 + 2·k·Q·… < Q·γ (derive the exact sufficient condition) — i.e. it returns round(t·x̃/Q) mod t when the
     fractional part of t·x̃/Q is at least k/γ away from 1/2.
   Put the theorems below this comment, named `smMrq_scalar`, `fastFloor_scalar`, `fastbconvSk_scalar`, `scaleAndRound_scalar`,
   with hypotheses as weak as you can prove.  Statements must be about integers/naturals only (no model types needed),
   but the `…Coeff` defs must be syntactically what the model computes so that a later lifting lemma is routine. -/

/-! ### sm_mrq -/

/-- `sm_mrq`, one coefficient, output component with modulus `bi`:
    `yi`/`ym` the input residues for `bi` and `m̃ = mt`, `qModB = prodQModBsk[i]`, `invMt = invMtModBsk[i].operand`,
    `negInvQ = negInvProdQModMt.operand` -/
def smMrqCoeff (mt bi qModB invMt negInvQ yi ym : Nat) : Nat :=
  let rm := (ym * negInvQ) % mt                                 -- mulOperandMod x negInvProdQModMt mTilde
  let temp := if rm ≥ mt / 2 then rm + (bi - mt) else rm        -- ckSub b mt, ckAdd rm d
  (((temp * qModB + yi) % bi) * invMt) % bi                     -- mulOperandAddMod temp pq x b, mulOperandMod u invMt b

theorem negInv_cast {ninv m q : Nat} (h : (ninv * m + 1) % q = 0) : (ninv : Int) * m ≡ -1 [ZMOD q] := by
  obtain ⟨c, hc⟩ := Nat.dvd_of_mod_eq_zero h
  have hcZ : (ninv : Int) * m + 1 = q * c := by exact_mod_cast hc
  exact Int.modEq_iff_dvd.2 ⟨-c, by linear_combination -hcZ⟩

theorem pos_of_negInv {ninv m q : Nat} (h : (ninv * m + 1) % q = 0) : 0 < q := by
  rcases Nat.eq_zero_or_pos q with h0 | h0
  · subst h0; simp at h
  · exact h0

/-- SMALL MONTGOMERY REDUCTION mod q: with rm the centred representative of -Y·q⁻¹ mod m̃, m̃ ∣ Y + q·rm, the routine
    returns ((Y + q·rm)/m̃) mod b_i, and (for even m̃) |(Y + q·rm)/m̃| ≤ |Y|/m̃ + q/2 -/
theorem smMrq_scalar {mt bi qModB invMt negInvQ yi ym q : Nat} {Y : Int}
    (hmb : mt ≤ bi) (hq : (qModB : Int) ≡ q [ZMOD bi])
    (hinv : (invMt * mt) % bi = 1) (hneg : (negInvQ * q + 1) % mt = 0)
    (hyi : (yi : Int) ≡ Y [ZMOD bi]) (hym : (ym : Int) ≡ Y [ZMOD mt]) :
    let rm := (ym * negInvQ) % mt
    let rmc : Int := if rm ≥ mt / 2 then (rm : Int) - mt else rm
    (mt : Int) ∣ Y + q * rmc ∧
    (smMrqCoeff mt bi qModB invMt negInvQ yi ym : Int) = ((Y + q * rmc) / mt) % bi ∧
    -((mt + mt % 2 : Nat) : Int) ≤ 2 * rmc ∧ 2 * rmc < mt ∧
    2 * mt * |(Y + q * rmc) / mt| ≤ 2 * |Y| + q * ((mt + mt % 2 : Nat) : Int) := by
  have hmt0 : 0 < mt := pos_of_negInv hneg
  have hbi0 : 0 < bi := by omega
  have hnq := negInv_cast hneg
  unfold smMrqCoeff
  dsimp only
  have hrmlt : (ym * negInvQ) % mt < mt := Nat.mod_lt _ hmt0
  have hrm : (((ym * negInvQ) % mt : Nat) : Int) ≡ ym * negInvQ [ZMOD mt] := cast_mul_modEq _ _ _
  generalize (ym * negInvQ) % mt = rm at *
  -- the centred representative and its Nat stand-in modulo b_i
  have key : ∀ (rmc : Int) (temp : Nat), rmc ≡ rm [ZMOD mt] → (temp : Int) ≡ rmc [ZMOD bi] →
      -((mt + mt % 2 : Nat) : Int) ≤ 2 * rmc → 2 * rmc < mt →
      (mt : Int) ∣ Y + q * rmc ∧
      ((((temp * qModB + yi) % bi) * invMt) % bi : Nat) = ((Y + q * rmc) / mt) % bi ∧
      -((mt + mt % 2 : Nat) : Int) ≤ 2 * rmc ∧ 2 * rmc < mt ∧
      2 * mt * |(Y + q * rmc) / mt| ≤ 2 * |Y| + q * ((mt + mt % 2 : Nat) : Int) := by
    intro rmc temp hrmc htemp hlo hhi
    have hdvd : (mt : Int) ∣ Y + q * rmc := by
      have h1 := (hrmc.trans hrm).mul_left (q : Int)
      have e : (q : Int) * (ym * negInvQ) = ym * (negInvQ * q) := by ring
      rw [e] at h1
      have h2 := (h1.trans (hnq.mul_left (ym : Int))).trans (hym.mul_right (-1))
      have h3 := (Int.ModEq.refl Y).add h2
      have e2 : Y + Y * -1 = 0 := by ring
      rw [e2] at h3
      exact Int.modEq_zero_iff_dvd.1 h3
    obtain ⟨Z, hZ⟩ := hdvd
    have hmtne : (mt : Int) ≠ 0 := by exact_mod_cast hmt0.ne'
    have hquo : (Y + q * rmc) / mt = Z := by rw [hZ, Int.mul_ediv_cancel_left _ hmtne]
    rw [hquo]
    refine ⟨⟨Z, hZ⟩, ?_, hlo, hhi, ?_⟩
    · have u1 : (((temp * qModB + yi) % bi : Nat) : Int) ≡ rmc * q + Y [ZMOD bi] := by
        refine (cast_mod_modEq _ _).trans ?_
        push_cast
        exact (htemp.mul hq).add hyi
      have u2 := (cast_mul_modEq ((temp * qModB + yi) % bi) invMt bi).trans (u1.mul_right (invMt : Int))
      have e : (rmc * q + Y) * invMt = Z * ((invMt : Int) * mt) := by linear_combination (invMt : Int) * hZ
      rw [e] at u2
      have u3 := u2.trans ((inv_cast hinv).mul_left Z)
      rw [mul_one] at u3
      exact eq_emod_of_modEq (Nat.mod_lt _ hbi0) u3
    · have hab : |2 * rmc| ≤ ((mt + mt % 2 : Nat) : Int) := abs_le.2 ⟨hlo, by push_cast; omega⟩
      have hq0 : (0 : Int) ≤ q := by positivity
      have hm0 : (0 : Int) ≤ mt := by positivity
      calc 2 * (mt : Int) * |Z| = 2 * |(mt : Int) * Z| := by rw [abs_mul, abs_of_nonneg hm0]; ring
        _ = 2 * |Y + q * rmc| := by rw [hZ]
        _ ≤ 2 * (|Y| + |(q : Int) * rmc|) := by have := abs_add_le Y ((q : Int) * rmc); linarith
        _ = 2 * |Y| + q * |2 * rmc| := by
            rw [abs_mul, abs_mul, abs_of_nonneg hq0, abs_of_nonneg (by norm_num : (0 : Int) ≤ 2)]; ring
        _ ≤ 2 * |Y| + q * ((mt + mt % 2 : Nat) : Int) := by
            have := mul_le_mul_of_nonneg_left hab hq0
            linarith
  by_cases hc : rm ≥ mt / 2
  · rw [if_pos hc, if_pos hc]
    refine key _ _ (Int.modEq_iff_dvd.2 ⟨1, by ring⟩) ?_ (by push_cast; omega) (by omega)
    push_cast
    rw [Nat.cast_sub hmb]
    exact Int.modEq_iff_dvd.2 ⟨-1, by ring⟩
  · rw [if_neg hc, if_neg hc]
    exact key _ _ (Int.ModEq.refl _) (Int.ModEq.refl _) (by push_cast; omega) (by omega)

/-- for even m̃ (the code's m̃ = 2^32): rm ∈ [-m̃/2, m̃/2) and m̃·|(Y + q·rm)/m̃| ≤ |Y| + q·m̃/2 -/
theorem smMrq_scalar_even {mt bi qModB invMt negInvQ yi ym q : Nat} {Y : Int}
    (heven : mt % 2 = 0)
    (hmb : mt ≤ bi) (hq : (qModB : Int) ≡ q [ZMOD bi])
    (hinv : (invMt * mt) % bi = 1) (hneg : (negInvQ * q + 1) % mt = 0)
    (hyi : (yi : Int) ≡ Y [ZMOD bi]) (hym : (ym : Int) ≡ Y [ZMOD mt]) :
    let rm := (ym * negInvQ) % mt
    let rmc : Int := if rm ≥ mt / 2 then (rm : Int) - mt else rm
    (-((mt / 2 : Nat) : Int) ≤ rmc) ∧ rmc < (mt / 2 : Nat) ∧
    (mt : Int) * (|(Y + q * rmc) / mt|) ≤ (|Y|) + q * ((mt / 2 : Nat) : Int) := by
  intro rm rmc
  obtain ⟨-, -, h1, h2, h3⟩ := smMrq_scalar hmb hq hinv hneg hyi hym
  change -((mt + mt % 2 : Nat) : Int) ≤ 2 * rmc at h1
  change 2 * rmc < mt at h2
  change 2 * (mt : Int) * (|(Y + q * rmc) / mt|) ≤ 2 * (|Y|) + q * ((mt + mt % 2 : Nat) : Int) at h3
  have e1 : ((mt + mt % 2 : Nat) : Int) = 2 * ((mt / 2 : Nat) : Int) := by omega
  have e2 : ((mt : Nat) : Int) = 2 * ((mt / 2 : Nat) : Int) := by omega
  rw [e1] at h1 h3
  clear_value rmc
  generalize (|(Y + q * rmc) / mt|) = Z at *
  refine ⟨by linarith, by linarith, by linarith⟩

theorem cast_mod_eq_emod {s q : Nat} {z : Int} (h : (s : Int) ≡ z [ZMOD q]) : ((s % q : Nat) : Int) = z % q := by
  rw [Int.natCast_mod]; exact h

/-- two integers congruent mod m at distance below m are equal -/
theorem eq_of_modEq_of_abs_lt {a b : Int} {m : Nat} (h : a ≡ b [ZMOD m]) (hlt : |b - a| < m) : a = b := by
  have := Int.eq_zero_of_abs_lt_dvd (Int.modEq_iff_dvd.1 h) hlt
  omega

/-! ### fast_floor -/

/-- `fast_floor`, one coefficient, Bsk component with modulus `bi`: `yi` the input residue mod `bi`,
    `d` the fast conversion (base q → `bi`) of the base-q part, `invQ = invProdQModBsk[i].operand` -/
def fastFloorCoeff (bi invQ yi d : Nat) : Nat :=
  ((yi + (bi - d)) * invQ) % bi                   -- ckSub b d, ckAdd x nd, mulOperandMod s invQ b

/-- FAST FLOOR: Y the integer with residues `yi` in Bsk and x mod Q in base q, `d` a residue of the fast conversion
    x + αQ: the routine returns ((Y - (x + αQ))/Q) mod b_i (an exact division), which is (⌊Y/Q⌋ - α) mod b_i
    when x is the reduced residue of Y. -/
theorem fastFloor_scalar {bi invQ yi d Q : Nat} {Y x α : Int}
    (hd : d ≤ bi) (hinv : (invQ * Q) % bi = 1)
    (hyi : (yi : Int) ≡ Y [ZMOD bi]) (hdW : (d : Int) ≡ x + α * Q [ZMOD bi]) (hx : Y ≡ x [ZMOD Q]) :
    (Q : Int) ∣ Y - (x + α * Q) ∧
    (fastFloorCoeff bi invQ yi d : Int) = ((Y - (x + α * Q)) / Q) % bi ∧
    (0 ≤ x → x < Q → (Y - (x + α * Q)) / Q = Y / Q - α ∧
      (fastFloorCoeff bi invQ yi d : Int) = (Y / Q - α) % bi) := by
  have hQ0 : Q ≠ 0 := by
    rintro rfl
    rw [Nat.mul_zero, Nat.zero_mod] at hinv; omega
  have hQne : (Q : Int) ≠ 0 := by exact_mod_cast hQ0
  obtain ⟨c, hc⟩ := Int.modEq_iff_dvd.1 hx.symm     -- Y - x = Q * c
  have hZ : Y - (x + α * Q) = Q * (c - α) := by linear_combination hc
  have hquo : (Y - (x + α * Q)) / Q = c - α := by rw [hZ, Int.mul_ediv_cancel_left _ hQne]
  have hres : (fastFloorCoeff bi invQ yi d : Int) = (c - α) % bi := by
    unfold fastFloorCoeff
    apply cast_mod_eq_emod
    push_cast
    rw [Nat.cast_sub hd]
    have h1 : ((yi : Int) + ((bi : Int) - d)) ≡ Y - (x + α * Q) [ZMOD bi] := by
      have a1 : (bi : Int) - d ≡ -(x + α * Q) [ZMOD bi] := by
        have a0 : (bi : Int) ≡ 0 [ZMOD bi] := Int.modEq_iff_dvd.2 ⟨-1, by ring⟩
        have := a0.sub hdW
        rwa [zero_sub] at this
      have := hyi.add a1
      rwa [← sub_eq_add_neg] at this
    have h2 := h1.mul_right (invQ : Int)
    have e : (Y - (x + α * Q)) * invQ = (c - α) * ((invQ : Int) * Q) := by rw [hZ]; ring
    rw [e] at h2
    have h3 := h2.trans ((inv_cast hinv).mul_left (c - α))
    rwa [mul_one] at h3
  refine ⟨⟨c - α, hZ⟩, by rw [hquo]; exact hres, ?_⟩
  intro hx0 hxQ
  have hxe : x = Y % Q := by
    have h := hx
    unfold Int.ModEq at h
    rw [h, Int.emod_eq_of_lt hx0 hxQ]
  have hcq : c = Y / Q := by
    have h1 := Int.emod_add_mul_ediv Y Q
    have h2 : (Q : Int) * c = Q * (Y / Q) := by rw [← hc, hxe]; linarith
    exact mul_left_cancel₀ hQne h2
  rw [hquo]
  exact ⟨by rw [hcq], by rw [← hcq]; exact hres⟩

/-! ### fastbconv_sk -/

/-- `fastbconv_sk`, one coefficient, output component with modulus `qi`: `tv`/`d` the fast conversions (base B → m_sk
    resp. → `qi`) of the base-B part, `xsk` the input residue mod m_sk, `invB = invProdBModMsk.operand`,
    `bModQ = prodBModQ[i]` -/
def fastbconvSkCoeff (msk qi invB bModQ tv xsk d : Nat) : Nat :=
  let a := ((tv + (msk - xsk)) * invB) % msk                   -- ckSub mSk x, ckAdd tv d, mulOperandMod s invB mSk
  if a > msk / 2 then (((msk - a) % msk) * bModQ + d) % qi      -- negateMod a mSk, mulOperandAddMod na pb d b
  else (a * (qi - bModQ) + d) % qi                              -- ckSub b pb, mulOperandAddMod a npb d b

/-- SHENOY–KUMARESAN: W the integer delivered by the fast conversion (W ≡ V mod B), A = (W - V)/B.  If A lies in the
    centred window (-m_sk + ⌊m_sk/2⌋, ⌊m_sk/2⌋] then the centred α_sk equals A and the routine returns V mod q_i. -/
theorem fastbconvSk_scalar {msk qi invB bModQ tv xsk d B : Nat} {V W A : Int}
    (hx : xsk ≤ msk) (hb : bModQ ≤ qi) (hbq : (bModQ : Int) ≡ B [ZMOD qi]) (hinv : (invB * B) % msk = 1)
    (hxsk : (xsk : Int) ≡ V [ZMOD msk]) (htv : (tv : Int) ≡ W [ZMOD msk]) (hd : (d : Int) ≡ W [ZMOD qi])
    (hA : W - V = B * A)
    (hlo : -(msk : Int) + (msk / 2 : Nat) < A) (hhi : A ≤ (msk / 2 : Nat)) :
    let a := ((tv + (msk - xsk)) * invB) % msk
    (if a > msk / 2 then (a : Int) - msk else a) = A ∧
    (fastbconvSkCoeff msk qi invB bModQ tv xsk d : Int) = V % qi := by
  have hm0 : 0 < msk := by omega
  unfold fastbconvSkCoeff
  dsimp only
  have halt : ((tv + (msk - xsk)) * invB) % msk < msk := Nat.mod_lt _ hm0
  have ha : ((((tv + (msk - xsk)) * invB) % msk : Nat) : Int) ≡ A [ZMOD msk] := by
    refine (cast_mul_modEq _ _ _).trans ?_
    push_cast
    rw [Nat.cast_sub hx]
    have a0 : (msk : Int) ≡ 0 [ZMOD msk] := Int.modEq_iff_dvd.2 ⟨-1, by ring⟩
    have h1 := (htv.add (a0.sub hxsk)).mul_right (invB : Int)
    have e : (W + (0 - V)) * invB = A * ((invB : Int) * B) := by
      have : W + (0 - V) = W - V := by ring
      rw [this, hA]; ring
    rw [e] at h1
    have h2 := h1.trans ((inv_cast hinv).mul_left A)
    rwa [mul_one] at h2
  generalize ((tv + (msk - xsk)) * invB) % msk = a at *
  by_cases hc : a > msk / 2
  · rw [if_pos hc, if_pos hc]
    have hAa : (a : Int) - msk = A := by
      apply eq_of_modEq_of_abs_lt (m := msk)
      · exact (Int.modEq_iff_dvd.2 ⟨1, by ring⟩ : (a : Int) - msk ≡ a [ZMOD msk]).trans ha
      · rw [abs_lt]; constructor <;> omega
    refine ⟨hAa, ?_⟩
    rw [Nat.mod_eq_of_lt (show msk - a < msk by omega)]
    apply cast_mod_eq_emod
    push_cast
    rw [Nat.cast_sub halt.le]
    have h1 : ((msk : Int) - a) * bModQ + d ≡ ((msk : Int) - a) * B + W [ZMOD qi] :=
      (hbq.mul_left _).add hd
    have e : ((msk : Int) - a) * B + W = V := by rw [← hAa] at hA; linear_combination hA
    rwa [e] at h1
  · rw [if_neg hc, if_neg hc]
    have hAa : (a : Int) = A := by
      apply eq_of_modEq_of_abs_lt (m := msk) ha
      rw [abs_lt]; constructor <;> omega
    refine ⟨hAa, ?_⟩
    apply cast_mod_eq_emod
    push_cast
    rw [Nat.cast_sub hb]
    have q0 : (qi : Int) ≡ 0 [ZMOD qi] := Int.modEq_iff_dvd.2 ⟨-1, by ring⟩
    have h1 : (a : Int) * ((qi : Int) - bModQ) + d ≡ (a : Int) * (0 - B) + W [ZMOD qi] :=
      ((q0.sub hbq).mul_left _).add hd
    have e : (a : Int) * (0 - B) + W = V := by rw [← hAa] at hA; linear_combination hA
    rwa [e] at h1

/-- the hypothesis of the BEHZ paper: V small against B·m_sk, fast conversion W = (V mod B) + αB with 0 ≤ α < k -/
theorem fastbconvSk_scalar_bound {msk qi invB bModQ tv xsk d B k : Nat} {V α : Int}
    (hx : xsk ≤ msk) (hb : bModQ ≤ qi) (hbq : (bModQ : Int) ≡ B [ZMOD qi]) (hinv : (invB * B) % msk = 1)
    (hxsk : (xsk : Int) ≡ V [ZMOD msk])
    (htv : (tv : Int) ≡ V % B + α * B [ZMOD msk]) (hd : (d : Int) ≡ V % B + α * B [ZMOD qi])
    (hα0 : 0 ≤ α) (hαk : α < k) (hV : 2 * |V| + 2 * k * B ≤ B * msk) :
    let a := ((tv + (msk - xsk)) * invB) % msk
    (if a > msk / 2 then (a : Int) - msk else a) = (V % B + α * B - V) / B ∧
    (fastbconvSkCoeff msk qi invB bModQ tv xsk d : Int) = V % qi := by
  have hB0 : B ≠ 0 := by
    rintro rfl
    rw [Nat.mul_zero, Nat.zero_mod] at hinv; omega
  have hBne : (B : Int) ≠ 0 := by exact_mod_cast hB0
  have hBpos : (0 : Int) < B := by exact_mod_cast Nat.pos_of_ne_zero hB0
  have h1 := Int.emod_add_mul_ediv V B
  have h2 := Int.emod_nonneg V hBne
  have h3 := Int.emod_lt_of_pos V hBpos
  have hA : V % B + α * B - V = B * (α - V / B) := by linear_combination h1
  have hquo : (V % B + α * B - V) / B = α - V / B := by rw [hA, Int.mul_ediv_cancel_left _ hBne]
  rw [hquo]
  have ab1 := le_abs_self V
  have ab2 := neg_abs_le V
  have hk1 : α ≤ k - 1 := by omega
  have m1 : (B : Int) * α ≤ B * (k - 1) := mul_le_mul_of_nonneg_left hk1 hBpos.le
  have m0 : (0 : Int) ≤ B * α := mul_nonneg hBpos.le hα0
  have hup : 2 * (α - V / B) < msk := by
    apply lt_of_mul_lt_mul_left (a := (B : Int)) _ hBpos.le
    nlinarith
  have hdn : 2 - (msk : Int) ≤ 2 * (α - V / B) := by
    apply le_of_mul_le_mul_left (a := (B : Int)) _ hBpos
    nlinarith
  exact fastbconvSk_scalar hx hb hbq hinv hxsk htv hd hA (by omega) (by omega)

/-! ### decrypt_scale_and_round -/

/-- `decrypt_scale_and_round`, one coefficient: `c0`/`c1` the fast conversions (base q → t resp. γ) of t·γ·x,
    `negInvQt`/`negInvQg = negInvQModTGamma[0/1].operand`, `invG = invGammaModT.operand` -/
def scaleAndRoundCoeff (t gamma negInvQt negInvQg invG c0 c1 : Nat) : Nat :=
  let a := (c0 * negInvQt) % t                       -- mulOperandMod x negInvQModTGamma[0] t
  let g := (c1 * negInvQg) % gamma                   -- mulOperandMod x negInvQModTGamma[1] gamma
  let d := if g > gamma / 2 then (a + (gamma - g) % t) % t      -- ckSub gamma g, barrett64 ng t, addMod a rg t
           else (a + t - g % t) % t                              -- barrett64 g t, subMod a rg t
  if d ≠ 0 then (d * invG) % t else d                -- mulOperandMod d invGammaModT t

theorem scaleTail_eq (d invG t : Nat) : (if d ≠ 0 then (d * invG) % t else d) = (d * invG) % t := by
  by_cases h : d = 0
  · subst h; simp
  · rw [if_pos h]

/-- γ-CORRECTION: t·x̃ = Q·w + e, W the integer delivered by the fast conversion of γ·t·x̃ mod Q, written as
    W = γ·e - Q·v.  If v lies in the centred window (-γ + ⌊γ/2⌋, ⌊γ/2⌋] the routine returns w mod t. -/
theorem scaleAndRound_scalar {t gamma negInvQt negInvQg invG c0 c1 Q : Nat} {xt w e W v : Int}
    (hnt : (negInvQt * Q + 1) % t = 0) (hng : (negInvQg * Q + 1) % gamma = 0) (hig : (invG * gamma) % t = 1)
    (hc0 : (c0 : Int) ≡ W [ZMOD t]) (hc1 : (c1 : Int) ≡ W [ZMOD gamma])
    (hphase : t * xt = Q * w + e) (hv : gamma * e - W = Q * v)
    (hlo : -(gamma : Int) + (gamma / 2 : Nat) < v) (hhi : v ≤ (gamma / 2 : Nat)) :
    (scaleAndRoundCoeff t gamma negInvQt negInvQg invG c0 c1 : Int) = w % t := by
  have ht0 : 0 < t := pos_of_negInv hnt
  have hg0 : 0 < gamma := pos_of_negInv hng
  have hnqt := negInv_cast hnt
  have hnqg := negInv_cast hng
  unfold scaleAndRoundCoeff
  dsimp only
  rw [scaleTail_eq]
  have halt : (c0 * negInvQt) % t < t := Nat.mod_lt _ ht0
  have hglt : (c1 * negInvQg) % gamma < gamma := Nat.mod_lt _ hg0
  have ha : (((c0 * negInvQt) % t : Nat) : Int) ≡ gamma * w + v [ZMOD t] := by
    refine (cast_mul_modEq _ _ _).trans ?_
    have w1 : W ≡ -(Q : Int) * (gamma * w + v) [ZMOD t] :=
      Int.modEq_iff_dvd.2 ⟨-(gamma * xt), by linear_combination hv + (gamma : Int) * hphase⟩
    have h1 := (hc0.trans w1).mul_right (negInvQt : Int)
    have e1 : -(Q : Int) * (gamma * w + v) * negInvQt = (-(gamma * w + v)) * ((negInvQt : Int) * Q) := by ring
    rw [e1] at h1
    have h2 := h1.trans (hnqt.mul_left _)
    have e2 : -((gamma : Int) * w + v) * -1 = gamma * w + v := by ring
    rwa [e2] at h2
  have hg : (((c1 * negInvQg) % gamma : Nat) : Int) ≡ v [ZMOD gamma] := by
    refine (cast_mul_modEq _ _ _).trans ?_
    have w1 : W ≡ -(Q : Int) * v [ZMOD gamma] :=
      Int.modEq_iff_dvd.2 ⟨-e, by linear_combination hv⟩
    have h1 := (hc1.trans w1).mul_right (negInvQg : Int)
    have e1 : -(Q : Int) * v * negInvQg = (-v) * ((negInvQg : Int) * Q) := by ring
    rw [e1] at h1
    have h2 := h1.trans (hnqg.mul_left _)
    have e2 : -v * -1 = v := by ring
    rwa [e2] at h2
  generalize (c0 * negInvQt) % t = a at *
  generalize (c1 * negInvQg) % gamma = g at *
  have fin : ∀ dd : Nat, (dd : Int) ≡ gamma * w [ZMOD t] → ((dd * invG % t : Nat) : Int) = w % t := by
    intro dd hdd
    apply cast_mod_eq_emod
    push_cast
    have h1 := hdd.mul_right (invG : Int)
    have e1 : (gamma : Int) * w * invG = w * ((invG : Int) * gamma) := by ring
    rw [e1] at h1
    have h2 := h1.trans ((inv_cast hig).mul_left w)
    rwa [mul_one] at h2
  apply fin
  by_cases hc : g > gamma / 2
  · rw [if_pos hc]
    have hgv : (g : Int) - gamma = v := by
      apply eq_of_modEq_of_abs_lt (m := gamma)
      · exact (Int.modEq_iff_dvd.2 ⟨1, by ring⟩ : (g : Int) - gamma ≡ g [ZMOD gamma]).trans hg
      · rw [abs_lt]; constructor <;> omega
    refine (cast_mod_modEq _ _).trans ?_
    push_cast
    rw [Nat.cast_sub hglt.le]
    have h1 := ha.add (Int.mod_modEq ((gamma : Int) - g) t)
    have e : (gamma : Int) * w + v + (gamma - g) = gamma * w := by rw [← hgv]; ring
    rwa [e] at h1
  · rw [if_neg hc]
    have hgv : (g : Int) = v := by
      apply eq_of_modEq_of_abs_lt (m := gamma) hg
      rw [abs_lt]; constructor <;> omega
    have hlt := Nat.mod_lt g ht0
    refine (cast_subrep_modEq (by omega)).trans ?_
    have h1 := ha.sub (cast_mod_modEq g t)
    have e : (gamma : Int) * w + v - g = gamma * w := by rw [hgv]; ring
    rwa [e] at h1

/-- the BEHZ sufficient condition: fast conversion W = (γ·t·x̃ mod Q) + αQ with 0 ≤ α < k and
    2γ|e| + 2kQ ≤ Qγ, i.e. |e/Q| ≤ 1/2 - k/γ: the routine returns w mod t and w is the rounding of t·x̃/Q -/
theorem scaleAndRound_scalar_bound {t gamma negInvQt negInvQg invG c0 c1 Q k : Nat} {xt w e α : Int}
    (hnt : (negInvQt * Q + 1) % t = 0) (hng : (negInvQg * Q + 1) % gamma = 0) (hig : (invG * gamma) % t = 1)
    (hQ : 0 < Q)
    (hc0 : (c0 : Int) ≡ (gamma * t * xt) % Q + α * Q [ZMOD t])
    (hc1 : (c1 : Int) ≡ (gamma * t * xt) % Q + α * Q [ZMOD gamma])
    (hphase : t * xt = Q * w + e) (hα0 : 0 ≤ α) (hαk : α < k)
    (he : 2 * gamma * |e| + 2 * k * Q ≤ Q * gamma) :
    (scaleAndRoundCoeff t gamma negInvQt negInvQg invG c0 c1 : Int) = w % t ∧
    w = (2 * t * xt + Q) / (2 * Q) := by
  have hg0 : 0 < gamma := pos_of_negInv hng
  have hgpos : (0 : Int) < gamma := by exact_mod_cast hg0
  have hQpos : (0 : Int) < Q := by exact_mod_cast hQ
  have hQne : (Q : Int) ≠ 0 := hQpos.ne'
  have hmod : ((gamma : Int) * t * xt) % Q = ((gamma : Int) * e) % Q := by
    have : (gamma : Int) * t * xt = gamma * e + Q * (gamma * w) := by linear_combination (gamma : Int) * hphase
    rw [this, Int.add_mul_emod_self_left]
  rw [hmod] at hc0 hc1
  have h1 := Int.emod_add_mul_ediv ((gamma : Int) * e) Q
  have h2 := Int.emod_nonneg ((gamma : Int) * e) hQne
  have h3 := Int.emod_lt_of_pos ((gamma : Int) * e) hQpos
  have hv : (gamma : Int) * e - (((gamma : Int) * e) % Q + α * Q) = Q * (((gamma : Int) * e) / Q - α) := by
    linear_combination -h1
  have ab1 : (gamma : Int) * e ≤ gamma * |e| := mul_le_mul_of_nonneg_left (le_abs_self e) hgpos.le
  have ab2 : -((gamma : Int) * |e|) ≤ gamma * e := by
    have := mul_le_mul_of_nonneg_left (neg_abs_le e) hgpos.le
    linarith
  have hk1 : α ≤ k - 1 := by omega
  have m1 : (Q : Int) * α ≤ Q * (k - 1) := mul_le_mul_of_nonneg_left hk1 hQpos.le
  have m0 : (0 : Int) ≤ Q * α := mul_nonneg hQpos.le hα0
  have hup : 2 * (((gamma : Int) * e) / Q - α) ≤ gamma := by
    apply le_of_mul_le_mul_left (a := (Q : Int)) _ hQpos
    nlinarith
  have hdn : -(gamma : Int) < 2 * (((gamma : Int) * e) / Q - α) := by
    apply lt_of_mul_lt_mul_left (a := (Q : Int)) _ hQpos.le
    nlinarith
  refine ⟨scaleAndRound_scalar hnt hng hig hc0 hc1 hphase hv (by omega) (by omega), ?_⟩
  have hk0 : (1 : Int) ≤ k := by omega
  have hkQ : (Q : Int) ≤ k * Q := by nlinarith
  have hsm : 2 * |e| < Q := by
    apply lt_of_mul_lt_mul_left (a := (gamma : Int)) _ hgpos.le
    nlinarith
  have ae1 := le_abs_self e
  have ae2 := neg_abs_le e
  have e1 : 2 * (t : Int) * xt + Q = (2 * e + Q) + (2 * Q) * w := by linear_combination 2 * hphase
  rw [e1, Int.add_mul_ediv_left _ _ (by omega : (2 * (Q : Int)) ≠ 0),
    Int.ediv_eq_zero_of_lt (by omega) (by omega), zero_add]


/-! ## Part 3 (bonus): LIFTS of the remaining routines to their `…Coeff` values.
   Each theorem shows the model function succeeds and returns, for every output component i and coefficient j, exactly
   the `…Coeff` value (this also certifies that the `…Coeff` definitions are what the model computes).  The fast base
   conversions are taken as given results (`hconv`/`hdest`/`htemp`), their correctness belongs to `BaseConverter`. -/

theorem getD_rangeMap' {β : Type} (n : Nat) (F : Nat → β) (d : β) {j : Nat} (hj : j < n) :
    ((List.range n).map F).toArray.getD j d = F j := by
  simp [Array.getD, hj]

theorem smMrq_step_ok {b mt : Modulus} {pq invMt : MulOperand} {pqv half rm x : Nat}
    (hb : b.WF) (hmb : mt.value ≤ b.value) (hpq : MulOperand.new pqv b = .ok pq) (hpqv : pqv < b.value)
    (hinv : WFOp b invMt) (hrm : rm < mt.value) (hx : x < 2^64) :
    (do
      let temp ← if rm ≥ half then do let d ← ckSub b.value mt.value; ckAdd rm d else pure rm
      let u ← mulOperandAddMod temp pq x b
      mulOperandMod u invMt b) =
    .ok ((((if rm ≥ half then rm + (b.value - mt.value) else rm) * pqv + x) % b.value * invMt.operand) % b.value) := by
  have hb2 := hb.two_le
  have hb61 := hb.lt
  have hb0 : 0 < b.value := by omega
  have key : ∀ temp : Nat, temp < 2^64 →
      (do let u ← mulOperandAddMod temp pq x b; mulOperandMod u invMt b) =
        .ok (((temp * pqv + x) % b.value * invMt.operand) % b.value) := by
    intro temp ht
    have hlt : (temp * pqv + x) % b.value < b.value := Nat.mod_lt _ hb0
    rw [mulOperandAddMod_exact hb ht hpqv hx hpq, ok_bind,
      mulOperandMod_exact hb (by omega) hinv.1 (wfop_new hb hinv)]
  by_cases hc : rm ≥ half
  · rw [if_pos hc, if_pos hc]
    unfold ckSub ckAdd
    rw [if_pos hmb, ok_bind, if_pos (by rw [B64_eq]; omega), ok_bind]
    exact key _ (by omega)
  · rw [if_neg hc, if_neg hc]
    exact key _ (by omega)

theorem smMrq_spec {r : RNSTool} {p : RnsPoly}
    (hmt : r.mTilde.WF) (hneg : WFOp r.mTilde r.negInvProdQModMt)
    (hb : ∀ i, i < r.baseBsk.size → (r.baseBsk.q i).WF ∧ r.mTilde.value ≤ (r.baseBsk.q i).value ∧
      r.prodQModBsk.getD i 0 < (r.baseBsk.q i).value ∧ WFOp (r.baseBsk.q i) (r.invMtModBsk.getD i default))
    (hn : (p.getD r.baseBsk.size #[]).size = r.n)
    (hc : ∀ i j, i ≤ r.baseBsk.size → j < r.n → (p.getD i #[]).getD j 0 < 2^64) :
    ∃ out, r.smMrq p = .ok out ∧ ∀ i j, i < r.baseBsk.size → j < r.n →
      (out.getD i #[]).getD j 0 =
        smMrqCoeff r.mTilde.value (r.baseBsk.q i).value (r.prodQModBsk.getD i 0)
          (r.invMtModBsk.getD i default).operand r.negInvProdQModMt.operand
          ((p.getD i #[]).getD j 0) ((p.getD r.baseBsk.size #[]).getD j 0) := by
  have hm2 := hmt.two_le
  have hm0 : 0 < r.mTilde.value := by omega
  have hmem : ∀ x ∈ p.getD r.baseBsk.size #[], x < 2^64 :=
    mem_lt_of_getD (fun j hj => hc _ j (le_refl _) (by rw [← hn]; exact hj))
  have h1 : mapM' (p.getD r.baseBsk.size #[]) (fun x => mulOperandMod x r.negInvProdQModMt r.mTilde)
      = .ok ((p.getD r.baseBsk.size #[]).map (fun x => (x * r.negInvProdQModMt.operand) % r.mTilde.value)) :=
    mapM'_ok _ (fun x hx => mulOperandMod_exact hmt (hmem x hx) hneg.1 (wfop_new hmt hneg))
  unfold RNSTool.smMrq
  dsimp only
  rw [h1, ok_bind, listMapM_ok (G := fun i =>
    ((List.range ((p.getD r.baseBsk.size #[]).map
        (fun x => (x * r.negInvProdQModMt.operand) % r.mTilde.value)).size).map
      (fun k => (fun rm x => (((if rm ≥ r.mTilde.value / 2 then rm + ((r.baseBsk.q i).value - r.mTilde.value) else rm)
          * r.prodQModBsk.getD i 0 + x) % (r.baseBsk.q i).value * (r.invMtModBsk.getD i default).operand)
            % (r.baseBsk.q i).value)
        (((p.getD r.baseBsk.size #[]).map
          (fun x => (x * r.negInvProdQModMt.operand) % r.mTilde.value)).getD k 0)
        ((p.getD i #[]).getD k 0))).toArray), ok_bind]
  · refine ⟨_, rfl, ?_⟩
    intro i j hi hj
    rw [getD_rangeMap' _ _ _ hi, getD_rangeMap _ _ (by rw [Array.size_map, hn]; exact hj),
      c10i_getD_map_lt _ _ (by rw [hn]; exact hj)]
    rfl
  · intro i hi
    rw [List.mem_range] at hi
    obtain ⟨hbi, hmb, hpqv, hinv⟩ := hb i hi
    obtain ⟨pq, hpq, -, -⟩ := mulOperand_new hbi hpqv
    rw [hpq, ok_bind, zipM'_ok (g := fun rm x =>
      (((if rm ≥ r.mTilde.value / 2 then rm + ((r.baseBsk.q i).value - r.mTilde.value) else rm)
          * r.prodQModBsk.getD i 0 + x) % (r.baseBsk.q i).value * (r.invMtModBsk.getD i default).operand)
            % (r.baseBsk.q i).value)]
    intro k hk
    rw [Array.size_map, hn] at hk
    refine smMrq_step_ok hbi hmb hpq hpqv hinv ?_ (hc i k (by omega) hk)
    rw [c10i_getD_map_lt _ _ (by rw [hn]; exact hk)]
    exact Nat.mod_lt _ hm0

theorem fastFloor_step_ok {b : Modulus} {invQ : MulOperand} {x d : Nat}
    (hb : b.WF) (hinv : WFOp b invQ) (hd : d ≤ b.value) (hx : x + b.value < 2^64) :
    (do
      let nd ← ckSub b.value d
      let s ← ckAdd x nd
      mulOperandMod s invQ b) = .ok (((x + (b.value - d)) * invQ.operand) % b.value) := by
  unfold ckSub ckAdd
  rw [if_pos hd, ok_bind, if_pos (by rw [B64_eq]; omega), ok_bind]
  exact mulOperandMod_exact hb (by omega) hinv.1 (wfop_new hb hinv)

theorem fastFloor_spec {r : RNSTool} {p conv : RnsPoly}
    (hconv : r.qToBsk.fastConvertArray (p.extract 0 r.baseQ.size) r.n = .ok conv)
    (hb : ∀ i, i < r.baseBsk.size → (r.baseBsk.q i).WF ∧ WFOp (r.baseBsk.q i) (r.invProdQModBsk.getD i default))
    (hn : ∀ i, i < r.baseBsk.size → (p.getD (r.baseQ.size + i) #[]).size = r.n)
    (hx : ∀ i j, i < r.baseBsk.size → j < r.n →
      (p.getD (r.baseQ.size + i) #[]).getD j 0 + (r.baseBsk.q i).value < 2^64)
    (hd : ∀ i j, i < r.baseBsk.size → j < r.n → (conv.getD i #[]).getD j 0 ≤ (r.baseBsk.q i).value) :
    ∃ out, r.fastFloor p = .ok out ∧ ∀ i j, i < r.baseBsk.size → j < r.n →
      (out.getD i #[]).getD j 0 =
        fastFloorCoeff (r.baseBsk.q i).value (r.invProdQModBsk.getD i default).operand
          ((p.getD (r.baseQ.size + i) #[]).getD j 0) ((conv.getD i #[]).getD j 0) := by
  unfold RNSTool.fastFloor
  dsimp only
  rw [hconv, ok_bind, listMapM_ok (G := fun i =>
    ((List.range (p.getD (r.baseQ.size + i) #[]).size).map
      (fun k => (fun x d => ((x + ((r.baseBsk.q i).value - d)) * (r.invProdQModBsk.getD i default).operand)
            % (r.baseBsk.q i).value)
        ((p.getD (r.baseQ.size + i) #[]).getD k 0) ((conv.getD i #[]).getD k 0))).toArray), ok_bind]
  · refine ⟨_, rfl, ?_⟩
    intro i j hi hj
    rw [getD_rangeMap' _ _ _ hi, getD_rangeMap _ _ (by rw [hn i hi]; exact hj)]
    rfl
  · intro i hi
    rw [List.mem_range] at hi
    obtain ⟨hbi, hinv⟩ := hb i hi
    rw [zipM'_ok (g := fun x d => ((x + ((r.baseBsk.q i).value - d)) * (r.invProdQModBsk.getD i default).operand)
            % (r.baseBsk.q i).value)]
    intro k hk
    rw [hn i hi] at hk
    exact fastFloor_step_ok hbi hinv (hd i k hi hk) (hx i k hi hk)

theorem fastbconvSk_alpha_ok {m : Modulus} {invB : MulOperand} {tv x : Nat}
    (hm : m.WF) (hinv : WFOp m invB) (hx : x ≤ m.value) (htv : tv + m.value < 2^64) :
    (do
      let d ← ckSub m.value x
      let s ← ckAdd tv d
      mulOperandMod s invB m) = .ok (((tv + (m.value - x)) * invB.operand) % m.value) := by
  unfold ckSub ckAdd
  rw [if_pos hx, ok_bind, if_pos (by rw [B64_eq]; omega), ok_bind]
  exact mulOperandMod_exact hm (by omega) hinv.1 (wfop_new hm hinv)

theorem fastbconvSk_step_ok {b msk : Modulus} {pb npb : MulOperand} {pbv half a d : Nat}
    (hb : b.WF) (hmsk : msk.WF) (hpb : MulOperand.new pbv b = .ok pb)
    (hnpb : MulOperand.new (b.value - pbv) b = .ok npb) (hpbv : pbv < b.value) (hpbv0 : 0 < pbv)
    (ha : a < msk.value) (hd : d < 2^64) :
    (if a > half then do
        let na ← negateMod a msk
        mulOperandAddMod na pb d b
      else mulOperandAddMod a npb d b) =
    .ok (if a > half then (((msk.value - a) % msk.value) * pbv + d) % b.value
         else (a * (b.value - pbv) + d) % b.value) := by
  have hm61 := hmsk.lt
  have hm2 := hmsk.two_le
  by_cases hc : a > half
  · rw [if_pos hc, if_pos hc, negateMod_exact hmsk ha.le, ok_bind]
    have : (msk.value - a) % msk.value < msk.value := Nat.mod_lt _ (by omega)
    exact mulOperandAddMod_exact hb (by omega) hpbv hd hpb
  · rw [if_neg hc, if_neg hc]
    exact mulOperandAddMod_exact hb (by omega) (by omega) hd hnpb

/-- the α_sk row of `fastbconvSk` as an explicit array -/
def fastbconvSkAlpha (r : RNSTool) (p temp : RnsPoly) : Array Nat :=
  ((List.range (temp.getD 0 #[]).size).map
    (fun k => (fun tv x => ((tv + (r.mSk.value - x)) * r.invProdBModMsk.operand) % r.mSk.value)
      ((temp.getD 0 #[]).getD k 0) ((p.getD r.baseB.size #[]).getD k 0))).toArray

theorem fastbconvSk_spec {r : RNSTool} {p dest temp : RnsPoly}
    (hdest : r.bToQ.fastConvertArray (p.extract 0 r.baseB.size) r.n = .ok dest)
    (htemp : r.bToMsk.fastConvertArray (p.extract 0 r.baseB.size) r.n = .ok temp)
    (hmsk : r.mSk.WF) (hinvB : WFOp r.mSk r.invProdBModMsk)
    (hq : ∀ i, i < r.baseQ.size → (r.baseQ.q i).WF ∧ 0 < r.prodBModQ.getD i 0 ∧
      r.prodBModQ.getD i 0 < (r.baseQ.q i).value)
    (hn : (temp.getD 0 #[]).size = r.n)
    (htv : ∀ j, j < r.n → (temp.getD 0 #[]).getD j 0 + r.mSk.value < 2^64)
    (hx : ∀ j, j < r.n → (p.getD r.baseB.size #[]).getD j 0 ≤ r.mSk.value)
    (hd : ∀ i j, i < r.baseQ.size → j < r.n → (dest.getD i #[]).getD j 0 < 2^64) :
    ∃ out, r.fastbconvSk p = .ok out ∧ ∀ i j, i < r.baseQ.size → j < r.n →
      (out.getD i #[]).getD j 0 =
        fastbconvSkCoeff r.mSk.value (r.baseQ.q i).value r.invProdBModMsk.operand (r.prodBModQ.getD i 0)
          ((temp.getD 0 #[]).getD j 0) ((p.getD r.baseB.size #[]).getD j 0) ((dest.getD i #[]).getD j 0) := by
  have hm2 := hmsk.two_le
  have halpha : zipM' (temp.getD 0 #[]) (p.getD r.baseB.size #[]) (fun tv x => do
        let d ← ckSub r.mSk.value x
        let s ← ckAdd tv d
        mulOperandMod s r.invProdBModMsk r.mSk) = .ok (fastbconvSkAlpha r p temp) := by
    rw [zipM'_ok (g := fun tv x => ((tv + (r.mSk.value - x)) * r.invProdBModMsk.operand) % r.mSk.value)]
    · rfl
    · intro k hk
      rw [hn] at hk
      exact fastbconvSk_alpha_ok hmsk hinvB (hx k hk) (htv k hk)
  have hasz : (fastbconvSkAlpha r p temp).size = r.n := by
    unfold fastbconvSkAlpha
    rw [List.size_toArray, List.length_map, List.length_range, hn]
  have haget : ∀ k, k < r.n → (fastbconvSkAlpha r p temp).getD k 0 =
      (((temp.getD 0 #[]).getD k 0 + (r.mSk.value - (p.getD r.baseB.size #[]).getD k 0))
        * r.invProdBModMsk.operand) % r.mSk.value := by
    intro k hk
    unfold fastbconvSkAlpha
    rw [getD_rangeMap _ _ (by rw [hn]; exact hk)]
  unfold RNSTool.fastbconvSk
  dsimp only
  rw [hdest, ok_bind, htemp, ok_bind, halpha, ok_bind, listMapM_ok (G := fun i =>
    ((List.range (fastbconvSkAlpha r p temp).size).map
      (fun k => (fun a d => if a > r.mSk.value / 2
          then (((r.mSk.value - a) % r.mSk.value) * r.prodBModQ.getD i 0 + d) % (r.baseQ.q i).value
          else (a * ((r.baseQ.q i).value - r.prodBModQ.getD i 0) + d) % (r.baseQ.q i).value)
        ((fastbconvSkAlpha r p temp).getD k 0) ((dest.getD i #[]).getD k 0))).toArray), ok_bind]
  · refine ⟨_, rfl, ?_⟩
    intro i j hi hj
    rw [getD_rangeMap' _ _ _ hi, getD_rangeMap _ _ (by rw [hasz]; exact hj), haget j hj]
    rfl
  · intro i hi
    rw [List.mem_range] at hi
    obtain ⟨hbi, hpb0, hpblt⟩ := hq i hi
    obtain ⟨pb, hpb, -, -⟩ := mulOperand_new hbi hpblt
    obtain ⟨npb, hnpb, -, -⟩ := mulOperand_new hbi
      (show (r.baseQ.q i).value - r.prodBModQ.getD i 0 < (r.baseQ.q i).value by omega)
    have hck : ckSub (r.baseQ.q i).value (r.prodBModQ.getD i 0)
        = .ok ((r.baseQ.q i).value - r.prodBModQ.getD i 0) := by
      unfold ckSub; rw [if_pos hpblt.le]
    rw [hpb, ok_bind, hck, ok_bind, hnpb, ok_bind, zipM'_ok (g := fun a d => if a > r.mSk.value / 2
          then (((r.mSk.value - a) % r.mSk.value) * r.prodBModQ.getD i 0 + d) % (r.baseQ.q i).value
          else (a * ((r.baseQ.q i).value - r.prodBModQ.getD i 0) + d) % (r.baseQ.q i).value)]
    intro k hk
    rw [hasz] at hk
    refine fastbconvSk_step_ok hbi hmsk hpb hnpb hpblt hpb0 ?_ (hd i k hi hk)
    rw [haget k hk]
    exact Nat.mod_lt _ (by omega)

theorem scaleAndRound_step_ok {t gamma : Modulus} {ig : MulOperand} {a g gdiv2 : Nat}
    (ht : t.WF) (hig : WFOp t ig) (ha : a < t.value) (hg : g ≤ gamma.value) (hgw : gamma.value < 2^64) :
    (do
      let d ← if g > gdiv2 then do
                let ng ← ckSub gamma.value g
                let rg ← barrett64 ng t
                addMod a rg t
              else do
                let rg ← barrett64 g t
                subMod a rg t
      if d ≠ 0 then mulOperandMod d ig t else pure d) =
    .ok (if (if g > gdiv2 then (a + (gamma.value - g) % t.value) % t.value else (a + t.value - g % t.value) % t.value) ≠ 0
         then ((if g > gdiv2 then (a + (gamma.value - g) % t.value) % t.value
                else (a + t.value - g % t.value) % t.value) * ig.operand) % t.value
         else (if g > gdiv2 then (a + (gamma.value - g) % t.value) % t.value else (a + t.value - g % t.value) % t.value)) := by
  have ht2 := ht.two_le
  have ht61 := ht.lt
  have ht0 : 0 < t.value := by omega
  have key : ∀ d : Nat, d < t.value →
      (if d ≠ 0 then mulOperandMod d ig t else pure d) = .ok (if d ≠ 0 then (d * ig.operand) % t.value else d) := by
    intro d hd
    by_cases h0 : d ≠ 0
    · rw [if_pos h0, if_pos h0]
      exact mulOperandMod_exact ht (by omega) hig.1 (wfop_new ht hig)
    · rw [if_neg h0, if_neg h0]; rfl
  by_cases hc : g > gdiv2
  · simp only [if_pos hc]
    unfold ckSub
    rw [if_pos hg, ok_bind, barrett64_exact ht (by omega), ok_bind,
      addMod_exact ht ha (Nat.mod_lt _ ht0), ok_bind]
    exact key _ (Nat.mod_lt _ ht0)
  · simp only [if_neg hc]
    rw [barrett64_exact ht (by omega), ok_bind, subMod_exact ht ha (Nat.mod_lt _ ht0), ok_bind]
    exact key _ (Nat.mod_lt _ ht0)

theorem decryptScaleAndRound_spec {r : RNSTool} {p tg : RnsPoly} {btg : RNSBase} {conv : BaseConverter}
    {ig : MulOperand}
    (h1 : r.baseTGamma = some btg) (h2 : r.qToTGamma = some conv) (h3 : r.invGammaModT = some ig)
    (hconv : conv.fastConvertArray ((List.range r.baseQ.size).map (fun i =>
        (p.getD i #[]).map (fun x => (x * (r.prodTGammaModQ.getD i default).operand) % (r.baseQ.q i).value))).toArray r.n
        = .ok tg)
    (hq : ∀ i, i < r.baseQ.size → (r.baseQ.q i).WF ∧ WFOp (r.baseQ.q i) (r.prodTGammaModQ.getD i default))
    (hp : ∀ i, i < r.baseQ.size → ∀ x ∈ p.getD i #[], x < 2^64)
    (ht : r.t.WF) (hgam : r.gamma.WF) (hig : WFOp r.t ig)
    (hn0 : WFOp r.t (r.negInvQModTGamma.getD 0 default)) (hn1 : WFOp r.gamma (r.negInvQModTGamma.getD 1 default))
    (hs0 : (tg.getD 0 #[]).size = r.n) (hs1 : (tg.getD 1 #[]).size = r.n)
    (hw0 : ∀ x ∈ tg.getD 0 #[], x < 2^64) (hw1 : ∀ x ∈ tg.getD 1 #[], x < 2^64) :
    ∃ out, r.decryptScaleAndRound p = .ok out ∧ ∀ j, j < r.n →
      out.getD j 0 =
        scaleAndRoundCoeff r.t.value r.gamma.value (r.negInvQModTGamma.getD 0 default).operand
          (r.negInvQModTGamma.getD 1 default).operand ig.operand
          ((tg.getD 0 #[]).getD j 0) ((tg.getD 1 #[]).getD j 0) := by
  have ht0 : 0 < r.t.value := by have := ht.two_le; omega
  have hg0 : 0 < r.gamma.value := by have := hgam.two_le; omega
  have hg61 := hgam.lt
  have htemp : (List.range r.baseQ.size).mapM (fun i =>
      mapM' (p.getD i #[]) (fun x => mulOperandMod x (r.prodTGammaModQ.getD i default) (r.baseQ.q i)))
      = .ok ((List.range r.baseQ.size).map (fun i =>
        (p.getD i #[]).map (fun x => (x * (r.prodTGammaModQ.getD i default).operand) % (r.baseQ.q i).value))) := by
    apply listMapM_ok
    intro i hi
    rw [List.mem_range] at hi
    obtain ⟨hqi, hop⟩ := hq i hi
    exact mapM'_ok _ (fun x hx => mulOperandMod_exact hqi (hp i hi x hx) hop.1 (wfop_new hqi hop))
  have htp : mapM' (tg.getD 0 #[]) (fun x => mulOperandMod x (r.negInvQModTGamma.getD 0 default) r.t)
      = .ok ((tg.getD 0 #[]).map (fun x => (x * (r.negInvQModTGamma.getD 0 default).operand) % r.t.value)) :=
    mapM'_ok _ (fun x hx => mulOperandMod_exact ht (hw0 x hx) hn0.1 (wfop_new ht hn0))
  have hgp : mapM' (tg.getD 1 #[]) (fun x => mulOperandMod x (r.negInvQModTGamma.getD 1 default) r.gamma)
      = .ok ((tg.getD 1 #[]).map (fun x => (x * (r.negInvQModTGamma.getD 1 default).operand) % r.gamma.value)) :=
    mapM'_ok _ (fun x hx => mulOperandMod_exact hgam (hw1 x hx) hn1.1 (wfop_new hgam hn1))
  unfold RNSTool.decryptScaleAndRound
  simp only [h1, h2, h3]
  rw [htemp, ok_bind, hconv, ok_bind, htp, ok_bind, hgp, ok_bind]
  rw [zipM'_ok (g := fun a g =>
      if (if g > r.gamma.value / 2 then (a + (r.gamma.value - g) % r.t.value) % r.t.value
          else (a + r.t.value - g % r.t.value) % r.t.value) ≠ 0
      then ((if g > r.gamma.value / 2 then (a + (r.gamma.value - g) % r.t.value) % r.t.value
             else (a + r.t.value - g % r.t.value) % r.t.value) * ig.operand) % r.t.value
      else (if g > r.gamma.value / 2 then (a + (r.gamma.value - g) % r.t.value) % r.t.value
            else (a + r.t.value - g % r.t.value) % r.t.value))]
  · refine ⟨_, rfl, ?_⟩
    intro j hj
    rw [getD_rangeMap _ _ (by rw [Array.size_map, hs0]; exact hj),
      c10i_getD_map_lt _ _ (by rw [hs1]; exact hj), c10i_getD_map_lt _ _ (by rw [hs0]; exact hj)]
    rfl
  · intro k hk
    refine scaleAndRound_step_ok ht hig ?_ ?_ (by omega)
    · apply getD_lt_of_forall _ ht0
      intro x hx
      obtain ⟨y, -, rfl⟩ := Array.mem_map.mp hx
      exact Nat.mod_lt _ ht0
    · apply Nat.le_of_lt
      apply getD_lt_of_forall _ hg0
      intro x hx
      obtain ⟨y, -, rfl⟩ := Array.mem_map.mp hx
      exact Nat.mod_lt _ hg0

theorem foldlM_push_ok' {α : Type} (l : List α) (step : Array Nat → α → R (Array Nat)) (G : α → Nat)
    (h : ∀ acc, ∀ x ∈ l, step acc x = .ok (acc.push (G x))) (acc : Array Nat) :
    l.foldlM step acc = .ok (acc ++ (l.map G).toArray) := by
  induction l generalizing acc with
  | nil => simp [pure, Except.pure]
  | cons a l ih =>
    rw [List.foldlM_cons, h acc a (by simp)]
    refine Eq.trans (ih (fun acc x hx => h acc x (by simp [hx])) (acc.push (G a))) ?_
    simp

theorem ite_bind_join {α β : Type} (c : Prop) [Decidable c] (A B : R α) (K : α → R β) :
    (if c then A >>= K else B >>= K) = (if c then A else B) >>= K := by
  split <;> rfl

theorem modTDiv_step_ok {b : Modulus} {acc : Array Nat} {cl0 dl x : Nat} (hb : b.WF)
    (hcl : cl0 < 2^64) (hdl : dl < b.value) (hx : x + 2 * b.value < 2^64) :
    (do
      let cl ← barrett64 cl0 b
      let a ← ckSub (b.value * 2) cl
      let a2 ← ckSub a dl
      let v ← ckAdd x a2
      pure (acc.push v)) = .ok (acc.push (x + (b.value * 2 - cl0 % b.value - dl))) := by
  have hb2 := hb.two_le
  have hlt : cl0 % b.value < b.value := Nat.mod_lt _ (by omega)
  rw [barrett64_exact hb hcl, ok_bind]
  unfold ckSub ckAdd
  rw [if_pos (by omega), ok_bind, if_pos (by omega), ok_bind, if_pos (by rw [B64_eq]; omega), ok_bind]
  rfl

theorem modTDiv_value {qi inv xi c δ δ' : Nat} (hc : c < qi) (hδ : δ < qi) (hδ' : δ = δ') :
    ((xi + (qi * 2 - c - δ)) * inv) % qi = (((xi + 2 * qi - c - δ') % qi) * inv) % qi := by
  subst hδ'
  rw [Nat.mod_mul_mod]
  congr 2
  omega

theorem modTAndDivideQLast_spec {r : RNSTool} {p : RnsPoly}
    (hq : ∀ i, i < r.baseQ.size → (r.baseQ.q i).WF) (hs : 2 ≤ r.baseQ.size) (ht : r.t.WF)
    (hinvt : r.invQLastModT < 2^64)
    (hinv : ∀ i, i < r.baseQ.size - 1 → WFOp (r.baseQ.q i) (r.invQLastModQ.getD i default))
    (hn : (p.getD (r.baseQ.size - 1) #[]).size = r.n)
    (hcl : ∀ j, j < r.n → (p.getD (r.baseQ.size - 1) #[]).getD j 0 < 2^64)
    (hc : ∀ i j, i < r.baseQ.size - 1 → j < r.n →
      (p.getD i #[]).getD j 0 + 2 * (r.baseQ.q i).value < 2^64) :
    ∃ out, r.modTAndDivideQLast p = .ok out ∧ ∀ i j, i < r.baseQ.size - 1 → j < r.n →
      (out.getD i #[]).getD j 0 =
        modTDivLastCoeff r.t.value (r.baseQ.q (r.baseQ.size - 1)).value (r.baseQ.q i).value
          (r.invQLastModQ.getD i default).operand r.invQLastModT
          ((p.getD (r.baseQ.size - 1) #[]).getD j 0) ((p.getD i #[]).getD j 0) := by
  have ht2 := ht.two_le
  have ht61 := ht.lt
  have ht0 : 0 < r.t.value := by omega
  have hl61 := (hq (r.baseQ.size - 1) (by omega)).lt
  have hmemL : ∀ x ∈ p.getD (r.baseQ.size - 1) #[], x < 2^64 :=
    mem_lt_of_getD (fun j hj => hcl j (by rw [← hn]; exact hj))
  have h0 : mapM' (p.getD (r.baseQ.size - 1) #[]) (fun x => do let y ← barrett64 x r.t; negateMod y r.t)
      = .ok ((p.getD (r.baseQ.size - 1) #[]).map (fun x => (r.t.value - x % r.t.value) % r.t.value)) := by
    apply mapM'_ok
    intro x hx
    rw [barrett64_exact ht (hmemL x hx), ok_bind]
    exact negateMod_exact ht (Nat.mod_lt _ ht0).le
  have hneg : ∀ neg0, neg0 = (p.getD (r.baseQ.size - 1) #[]).map (fun x => (r.t.value - x % r.t.value) % r.t.value) →
      (if r.invQLastModT ≠ 1 then mapM' neg0 (fun x => mulMod x r.invQLastModT r.t) else pure neg0)
      = .ok ((p.getD (r.baseQ.size - 1) #[]).map
          (fun x => (((r.t.value - x % r.t.value) % r.t.value) * r.invQLastModT) % r.t.value)) := by
    intro neg0 h
    subst h
    by_cases h1 : r.invQLastModT ≠ 1
    · rw [if_pos h1, mapM'_ok (g := fun x => (x * r.invQLastModT) % r.t.value)]
      · rw [Array.map_map]; rfl
      · intro x hx
        obtain ⟨y, -, rfl⟩ := Array.mem_map.mp hx
        have := Nat.mod_lt (r.t.value - y % r.t.value) ht0
        exact mulMod_exact ht (by omega) hinvt
    · rw [if_neg h1]
      have h1' : r.invQLastModT = 1 := by omega
      show Except.ok _ = Except.ok _
      congr 1
      apply Array.map_congr_left
      intro x _
      rw [h1', Nat.mul_one, Nat.mod_mod]
  unfold RNSTool.modTAndDivideQLast
  dsimp only
  rw [h0, ok_bind, ite_bind_join, hneg _ rfl, ok_bind, listMapM_ok (G := fun i =>
    ((List.range r.n).map (fun j => (p.getD i #[]).getD j 0 + ((r.baseQ.q i).value * 2
        - (p.getD (r.baseQ.size - 1) #[]).getD j 0 % (r.baseQ.q i).value
        - (((p.getD (r.baseQ.size - 1) #[]).map
              (fun x => (((r.t.value - x % r.t.value) % r.t.value) * r.invQLastModT) % r.t.value)).map
            (fun x => (x % (r.baseQ.q i).value * (r.baseQ.q (r.baseQ.size - 1)).value) % (r.baseQ.q i).value)).getD j 0))
      ).toArray.map (fun x => (x * (r.invQLastModQ.getD i default).operand) % (r.baseQ.q i).value)), ok_bind]
  · refine ⟨_, rfl, ?_⟩
    intro i j hi hj
    have hb0 : 0 < (r.baseQ.q i).value := by have := (hq i (by omega)).two_le; omega
    rw [getD_push_rangeMap _ _ _ _ hi,
      c10i_getD_map_lt _ _ (by rw [List.size_toArray, List.length_map, List.length_range]; exact hj),
      getD_rangeMap _ _ hj, c10i_getD_map_lt _ _ (by rw [Array.size_map, hn]; exact hj),
      c10i_getD_map_lt _ _ (by rw [hn]; exact hj)]
    unfold modTDivLastCoeff
    dsimp only
    refine modTDiv_value (Nat.mod_lt _ hb0) (Nat.mod_lt _ hb0) ?_
    rw [Nat.mul_mod, Nat.mod_mod]
  · intro i hi
    rw [List.mem_range] at hi
    have hb := hq i (by omega)
    have hb2 := hb.two_le
    have hb61 := hb.lt
    have hb0 : 0 < (r.baseQ.q i).value := by omega
    rw [mapM'_ok (g := fun x => (x % (r.baseQ.q i).value * (r.baseQ.q (r.baseQ.size - 1)).value) % (r.baseQ.q i).value),
      ok_bind, foldlM_push_ok' (G := fun j => (p.getD i #[]).getD j 0 + ((r.baseQ.q i).value * 2
        - (p.getD (r.baseQ.size - 1) #[]).getD j 0 % (r.baseQ.q i).value
        - (((p.getD (r.baseQ.size - 1) #[]).map
              (fun x => (((r.t.value - x % r.t.value) % r.t.value) * r.invQLastModT) % r.t.value)).map
            (fun x => (x % (r.baseQ.q i).value * (r.baseQ.q (r.baseQ.size - 1)).value) % (r.baseQ.q i).value)).getD j 0)),
      ok_bind, mapM'_ok (g := fun x => (x * (r.invQLastModQ.getD i default).operand) % (r.baseQ.q i).value)]
    · simp
    · intro x hx
      have hx' : x < 2^64 := by
        simp only [Array.empty_append, List.mem_toArray, List.mem_map, List.mem_range] at hx
        obtain ⟨k, hk, rfl⟩ := hx
        have := hc i k hi hk
        omega
      exact mulOperandMod_exact hb hx' (hinv i hi).1 (wfop_new hb (hinv i hi))
    · intro acc j hj
      rw [List.mem_range] at hj
      refine modTDiv_step_ok hb (hcl j hj) ?_ (hc i j hi hj)
      apply getD_lt_of_forall _ hb0
      intro x hx
      obtain ⟨y, -, rfl⟩ := Array.mem_map.mp hx
      exact Nat.mod_lt _ hb0
    · intro x hx
      obtain ⟨y, -, rfl⟩ := Array.mem_map.mp hx
      have := Nat.mod_lt ((r.t.value - y % r.t.value) % r.t.value * r.invQLastModT) ht0
      rw [barrett64_exact hb (by omega), ok_bind]
      exact mulMod_exact hb (by have := Nat.mod_lt ((r.t.value - y % r.t.value) % r.t.value * r.invQLastModT % r.t.value) hb0; omega) (by omega)

end HC
