import Heathcliff.Proofs.GenRns12

/-!
  Phase 4k: `RNSTool::fastbconv_m_tilde` generated = the hand model `RNSTool.fastbconvMTilde` (model side + equality).  Helper names start with `gr_`.
-/
namespace HC
open HC.GenW HC.GenR

theorem gr_wSub_lt (a b : Nat) : wSub a b < 2^64 := by unfold wSub; exact Nat.mod_lt _ (by simp [B64])

/-- `barrett_reduce_u128` returns a word whenever it returns -/
theorem gr_barrett128_lt {x0 x1 : Nat} {m : Modulus} {y : Nat} (h : barrett128 x0 x1 m = .ok y) : y < 2^64 := by
  unfold barrett128 at h
  dsimp only at h
  cases h1 : ckAdd (mulHi x0 m.cr1) (addU64 (mulLo x0 m.cr1) (mulHi x0 m.cr0)).2 with
  | error e => rw [h1] at h; cases h
  | ok t3 =>
    rw [h1, gr_ok_bind] at h
    cases h2 : ckAdd (mulHi x1 m.cr0) (addU64 (addU64 (mulLo x0 m.cr1) (mulHi x0 m.cr0)).1 (mulLo x1 m.cr0)).2 with
    | error e => rw [h2] at h; cases h
    | ok c2 =>
      rw [h2, gr_ok_bind] at h
      have := gr_wSub_lt x0 (wMul (wAdd (wAdd (wMul x1 m.cr1) t3) c2) m.value)
      split at h
      · unfold ckSub at h
        split at h <;> first | (cases h; omega) | cases h
      · cases h; exact this

theorem gr_mulMod_lt {a b : Nat} {m : Modulus} {y : Nat} (h : mulMod a b m = .ok y) : y < 2^64 := gr_barrett128_lt h

/-- the input of the two conversions: component `i` multiplied by m̃ modulo `q_i` -/
theorem gr_mt_model (r : RNSTool) (p : RnsPoly) :
    r.fastbconvMTilde p = ((List.range' 0 r.baseQ.size).mapM (fun i => (p.getD i #[]).toList.mapM (fun x => mulMod x r.mTilde.value (r.baseQ.q i)))
      >>= fun temp => r.qToBsk.fastConvertArray (temp.map List.toArray).toArray r.n >>= fun a =>
        r.qToMt.fastConvertArray (temp.map List.toArray).toArray r.n >>= fun b => .ok (a ++ b)) := by
  unfold RNSTool.fastbconvMTilde
  have h : (List.range r.baseQ.size).mapM (fun i => mapM' (p.getD i #[]) (fun x => mulMod x r.mTilde.value (r.baseQ.q i)))
      = ((List.range' 0 r.baseQ.size).mapM (fun i => (p.getD i #[]).toList.mapM (fun x => mulMod x r.mTilde.value (r.baseQ.q i)))
          >>= fun temp => .ok (temp.map List.toArray)) := by
    rw [List.range_eq_range', ← gr_mapM_map_ok]
    exact gr_mapM_congr _ _ _ (fun i _ => gr_mapM'_eq _ _)
  rw [h]
  cases (List.range' 0 r.baseQ.size).mapM (fun i => (p.getD i #[]).toList.mapM (fun x => mulMod x r.mTilde.value (r.baseQ.q i))) with
  | error e => rfl
  | ok temp => rfl

theorem gr_flatP_append (a b : RnsPoly) : flatP (a ++ b) = flatP a ++ flatP b := by
  unfold flatP; simp

theorem gr_flatP_single (a : RnsPoly) (h : a.size = 1) : flatP a = (a.getD 0 #[]).toList := by
  unfold flatP
  have h1 : a.toList.map Array.toList = [(a.getD 0 #[]).toList] := by
    apply List.ext_getElem
    · simp [h]
    · intro i h1 h2
      have hi0 : i = 0 := by simpa [h] using h1
      subst hi0
      have h0 : 0 < a.size := by omega
      simp [Array.getD, h0]
  rw [h1]; simp

/-- **`RNSTool::fastbconv_m_tilde` (generated from src/util/rns.rs) = the hand model `RNSTool.fastbconvMTilde`**; input = flat buffer of the `|q|`
    components, destination = ANY flat buffer of `|Bsk| + 1` components.  `polymod::multiply_scalar_p` is the function generated into `Gen/PolyFns.lean`;
    the conversions are the generated `fast_convert_array` on the model's `qToBsk` / `qToMt`, writing `destination[..|Bsk|·n]` and the last component.
    The Barrett multiplication by m̃ traps on both sides alike (no well-formedness of `q` beyond what the converters carry). -/
theorem gr_fastbconv_m_tilde_eq (r : RNSTool) (p d : RnsPoly)
    (hc1 : gr_ConvOK r.qToBsk r.baseQ.size r.baseBsk.size) (hc2 : gr_ConvOK r.qToMt r.baseQ.size 1)
    (hp1 : p.size = r.baseQ.size) (hp2 : ∀ i, i < r.baseQ.size → (p.getD i #[]).size = r.n)
    (hd1 : d.size = r.baseBsk.size + 1) (hd2 : ∀ i, i < r.baseBsk.size + 1 → (d.getD i #[]).size = r.n)
    (hsn : r.baseQ.size * r.n < 2^64) (hbn : (r.baseBsk.size + 1) * r.n < 2^64) (hs64 : r.baseBsk.size + 1 < 2^64) :
    GenR.fastbconv_m_tilde (flatP p) (flatP d) r.baseQ.size r.baseBsk.size r.n r.mTilde r.baseQ.base.toList (gr_convF r.qToBsk) (gr_convF r.qToMt)
      = (r.fastbconvMTilde p).map flatP := by
  obtain ⟨hi1, ho1, hM1, hsi1, hso1⟩ := hc1
  obtain ⟨hi2, ho2, hM2, hsi2, hso2⟩ := hc2
  obtain ⟨hcs, hn⟩ := gr_shape_cs' hp1 hp2
  obtain ⟨hds, hdn⟩ := gr_shape_cs' hd1 hd2
  have hlist := gr_mt_list (p.toList.map Array.toList) (d.toList.map Array.toList) r.baseQ.size r.baseBsk.size r.n r.baseQ.base.toList r.mTilde
    (gr_convF r.qToBsk) (gr_convF r.qToMt) hcs hn (by simp [RNSBase.size]) hds hdn hsn hbn hs64
  simp only [gr_q_toList, gr_cs_getD] at hlist
  rw [gr_mt_model]
  unfold flatP
  cases hT : (List.range' 0 r.baseQ.size).mapM (fun i => (p.getD i #[]).toList.mapM (fun x => mulMod x r.mTilde.value (r.baseQ.q i))) with
  | error e => rw [hlist.1 e hT]; rfl
  | ok temp =>
    rw [gr_ok_bind]
    -- shape and words of the scaled input
    have htl : temp.length = r.baseQ.size := by rw [gr_mapM_length _ _ _ hT, List.length_range']
    have hte : ∀ c ∈ temp, c.length = r.n ∧ ∀ x ∈ c, x < 2^64 := by
      intro c hc
      obtain ⟨i, hi', hx⟩ := gr_mapM_forall' (fun i => (p.getD i #[]).toList.mapM (fun x => mulMod x r.mTilde.value (r.baseQ.q i)))
        (fun i c => c.length = (p.getD i #[]).size ∧ ∀ x ∈ c, x < 2^64) _ (fun i _ y hy => ⟨by rw [gr_mapM_length _ _ _ hy, Array.length_toList],
          fun x hx => by
            obtain ⟨x0, _, hx0⟩ := gr_mapM_forall' (fun x => mulMod x r.mTilde.value (r.baseQ.q i)) (fun _ y => y < 2^64) _ (fun _ _ y hy => gr_mulMod_lt hy) y hy x hx
            exact hx0⟩) temp hT c hc
      rw [List.mem_range'_1] at hi'
      exact ⟨by rw [hx.1, hp2 i (by omega)], hx.2⟩
    generalize hTA : ((temp.map List.toArray).toArray : RnsPoly) = TA
    have hTAs : TA.size = r.baseQ.size := by rw [← hTA]; simp [htl]
    have hTAg : ∀ i, i < r.baseQ.size → (TA.getD i #[]).toList ∈ temp := by
      intro i hi'
      rw [← hTA]
      have hi2 : i < temp.length := by omega
      have : ((temp.map List.toArray).toArray.getD i #[]) = (temp[i]).toArray := by simp [Array.getD, hi2]
      rw [this]
      exact List.getElem_mem _
    have hTAn : ∀ i, i < r.baseQ.size → (TA.getD i #[]).size = r.n := fun i hi' => by
      rw [← Array.length_toList]; exact (hte _ (hTAg i hi')).1
    have hTAw : ∀ i j, i < r.baseQ.size → j < r.n → (TA.getD i #[]).getD j 0 < 2^64 := fun i j hi' hj => by
      rw [gr_arr_getD]; exact gr_getD_mem_lt (hte _ (hTAg i hi')).2 (by norm_num) j
    have hflatT : temp.flatten = flatP TA := by
      rw [← hTA]; unfold flatP; simp [List.map_map, Function.comp_def]
    -- conversion q → Bsk
    have hmodel1 := gr_fca_model r.qToBsk hi1 ho1 hM1 TA r.n (by rw [hTAs, hsi1]) (fun i j hi' hj => hTAw i j (by omega) hj)
    obtain ⟨hA1, hA2⟩ := gr_fca_model_shape r.qToBsk TA r.n
    generalize hAdef : (((List.range r.qToBsk.obase.size).map (fun o => ((List.range r.n).map (fun j => gr_fcaD r.qToBsk TA o j)).toArray)).toArray : RnsPoly) = A at hmodel1 hA1 hA2
    have hmodel2 := gr_fca_model r.qToMt hi2 ho2 hM2 TA r.n (by rw [hTAs, hsi2]) (fun i j hi' hj => hTAw i j (by omega) hj)
    obtain ⟨hB1, hB2⟩ := gr_fca_model_shape r.qToMt TA r.n
    generalize hBdef : (((List.range r.qToMt.obase.size).map (fun o => ((List.range r.n).map (fun j => gr_fcaD r.qToMt TA o j)).toArray)).toArray : RnsPoly) = B at hmodel2 hB1 hB2
    have hBs : B.size = 1 := by rw [hB1, hso2]
    have hBn : (B.getD 0 #[]).size = r.n := hB2 0 (by omega)
    have hd1' : (d.extract 0 r.baseBsk.size).size = r.qToBsk.obase.size := by simp; omega
    have hF1 : gr_convF r.qToBsk temp.flatten ((d.toList.map Array.toList).take r.baseBsk.size).flatten = .ok (flatP A) := by
      rw [← gr_flatP_extract, hflatT]
      unfold gr_convF
      rw [gr_fca_core r.qToBsk hi1 ho1 hM1 TA (d.extract 0 r.baseBsk.size) r.n (by rw [hTAs, hsi1]) (fun i hi' => hTAn i (by omega))
        (fun i j hi' hj => hTAw i j (by omega) hj) hd1'
        (fun i hi' => by rw [gr_extract_getD d _ i (by omega) (by omega)]; exact hd2 i (by omega)) (by rw [hsi1]; exact hsn)
        (by rw [hso1]; exact Nat.lt_of_le_of_lt (Nat.mul_le_mul_right _ (by omega)) hbn), hmodel1]
      rfl
    have hn64 : r.n ≤ (r.baseBsk.size + 1) * r.n := Nat.le_mul_of_pos_left _ (by omega)
    have hF2 : gr_convF r.qToMt temp.flatten (d.getD r.baseBsk.size #[]).toList = .ok (B.getD 0 #[]).toList := by
      have hdl : (d.getD r.baseBsk.size #[]).toList = flatP #[d.getD r.baseBsk.size #[]] := by unfold flatP; simp
      rw [hflatT, hdl, ← gr_flatP_single B hBs]
      unfold gr_convF
      rw [gr_fca_core r.qToMt hi2 ho2 hM2 TA #[d.getD r.baseBsk.size #[]] r.n (by rw [hTAs, hsi2]) (fun i hi' => hTAn i (by omega))
        (fun i j hi' hj => hTAw i j (by omega) hj) (by simp [hso2])
        (fun i hi' => by rw [hso2] at hi'; have : i = 0 := by omega
                         subst this; simpa [Array.getD] using hd2 r.baseBsk.size (by omega)) (by rw [hsi2]; exact hsn) (by rw [hso2]; omega), hmodel2]
      rfl
    obtain ⟨hvs, hvn⟩ := gr_shape_cs' (hso1 ▸ hA1) (fun i hi' => hA2 i (by omega))
    have hF1' : gr_convF r.qToBsk temp.flatten ((d.toList.map Array.toList).take r.baseBsk.size).flatten = .ok (A.toList.map Array.toList).flatten := hF1
    rw [hlist.2 temp (A.toList.map Array.toList) (B.getD 0 #[]).toList hT hvs hvn (by rw [Array.length_toList]; exact hBn) hF1' hF2,
      hmodel1, gr_ok_bind, hmodel2, gr_ok_bind]
    show Except.ok _ = Except.ok (flatP (A ++ B))
    rw [gr_flatP_append, gr_flatP_single B hBs]
    rfl

end HC
