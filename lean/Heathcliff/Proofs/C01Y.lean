/- C01 part Y: THE TAPE FROM THE GENERATORS.  The end-to-end theorems of C01V quantify over drawn polynomials in their ranges
   (`DrvMode`: ternary u, ‖e‖∞ ≤ 21, canonical mask).  Here these ranges are THEOREMS about the samplers of the generator model
   (Model/Rng.lean; specs in C16B): whatever `sample::ternary`, `sample::centered_binomial`, `sample::uniform` return at the level's
   moduli, on any byte-valued extendable-output function, any generator state and any integer sampler satisfying the range contract
   (`Rng.randUniform` does: `randUniform_contract`), IS an admissible tape:
     Y1  the samplers' RNS encoding of signed values is `rnsOfInt`;
     Y2  `ternary` / `centeredBinomial` / `uniformPoly` at a level: tapes in range;
     Y3  `drvMode_pk_of_prng`, `drvMode_pkPrev_of_prng`, `drvMode_sk_of_prng`: the draws of `Rng.asymCore` / `Rng.symCore` (the draw order of
         `encrypt_zero::asymmetric_with_u_prng` / `symmetric_with_c1_prng`) are admissible modes;
     Y4  composed: BFV / BGV / CKKS decrypt ∘ encrypt from generator states.
   Helper names carry the prefix `c01y_`. -/
import Heathcliff.Proofs.C01X
import Heathcliff.Proofs.C16B
namespace HC
open Finset

/-! ## Y1: the samplers' encoding -/

/-- the RNS encoding the samplers write for signed values (`(v mod q_i)` in every component) is `rnsOfInt` -/
theorem c01y_toRns_encode (l : Level) (vs : List Int) :
    toRns ((l.qs.toList.map (·.value)).map fun (q : Nat) => vs.map fun v => (v % (q : Int)).toNat) = rnsOfInt l vs.toArray := by
  apply Array.ext
  · simp [toRns, rnsOfInt, Level.size]
  · intro i h1 h2
    have hi : i < l.qs.size := by simpa [toRns] using h1
    simp [toRns, rnsOfInt, skRes, Level.q, Array.getD, hi]

theorem c01y_moduli {scheme : Scheme} {n : Nat} {qs : List Nat} {t : Nat} {l : Level}
    (hl : Drv.Sch.mkLevel scheme n qs t = .ok l) : l.qs.toList.map (·.value) = qs ∧ (∀ q ∈ qs, 2 ≤ q) ∧ (∀ q ∈ qs, q ≤ 2^64) := by
  obtain ⟨_, _, _, _, _, _, _, hqs⟩ := mkLevel_ok_inputs hl
  refine ⟨(mkLevel_ok hl).2.2.2.2.2.2.2.1, fun q hq => (hqs q hq).1, fun q hq => ?_⟩
  have := (hqs q hq).2.1
  have : (2:Nat)^61 < 2^64 := by norm_num
  omega

theorem c01y_bounds {vs : List Int} {n B : Nat} (hlen : vs.length = n) (h : ∀ v ∈ vs, -(B : Int) ≤ v ∧ v ≤ B) :
    vs.toArray.size = n ∧ ∀ p, p < n → (vs.toArray.getD p 0).natAbs ≤ B := by
  refine ⟨by simpa using hlen, fun p hp => ?_⟩
  have hp' : p < vs.length := by omega
  have e : vs.toArray.getD p 0 = vs[p] := by simp [Array.getD, hp']
  rw [e]
  have := h _ (List.getElem_mem hp')
  omega

/-! ## Y2: the three samplers at a level -/

/-- `sample::ternary` at the level's moduli returns the encoding of a ternary polynomial -/
theorem ternary_tape {U : Rng.Uniform} (hU : U.Contract) {xof : Rng.Xof} (hx : Rng.ByteXof xof) {scheme : Scheme} {n : Nat} {qs : List Nat}
    {t : Nat} {l : Level} (hl : Drv.Sch.mkLevel scheme n qs t = .ok l) {s s' : Rng.St} (hs : Rng.ByteSt s) {c : List (List Nat)}
    (h : Rng.ternary U xof s n qs = .ok (c, s')) :
    ∃ u : Array Int, u.size = n ∧ (∀ p, p < n → (u.getD p 0).natAbs ≤ 1) ∧ toRns c = rnsOfInt l u ∧ Rng.ByteSt s' := by
  obtain ⟨hm, h2, _⟩ := c01y_moduli hl
  obtain ⟨vs, hlen, hr, hc, hb⟩ := Rng.ternary_spec U hU hx hs h2 h
  obtain ⟨b1, b2⟩ := c01y_bounds (B := 1) hlen (fun v hv => by have := hr v hv; omega)
  refine ⟨vs.toArray, b1, b2, ?_, hb⟩
  rw [hc, ← hm]
  exact c01y_toRns_encode l vs

/-- `sample::centered_binomial` at the level's moduli returns the encoding of a polynomial with ‖e‖∞ ≤ 21 -/
theorem cbd_tape {xof : Rng.Xof} (hx : Rng.ByteXof xof) {scheme : Scheme} {n : Nat} {qs : List Nat}
    {t : Nat} {l : Level} (hl : Drv.Sch.mkLevel scheme n qs t = .ok l) {s s' : Rng.St} (hs : Rng.ByteSt s) {c : List (List Nat)}
    (h : Rng.centeredBinomial xof s n qs = .ok (c, s')) :
    ∃ e : Array Int, e.size = n ∧ (∀ p, p < n → (e.getD p 0).natAbs ≤ 21) ∧ toRns c = rnsOfInt l e ∧ Rng.ByteSt s' := by
  obtain ⟨hm, h2, _⟩ := c01y_moduli hl
  obtain ⟨vs, hlen, hr, hc, hb⟩ := Rng.centeredBinomial_spec hx hs h2 h
  obtain ⟨b1, b2⟩ := c01y_bounds (B := 21) hlen (fun v hv => by have := hr v hv; omega)
  refine ⟨vs.toArray, b1, b2, ?_, hb⟩
  rw [hc, ← hm]
  exact c01y_toRns_encode l vs

theorem c01y_allBelow_canon {n : Nat} : ∀ (qs : List Nat) (c : List (List Nat)), Rng.AllBelow n qs c →
    c.length = qs.length ∧ ∀ i, i < qs.length → (c.getD i []).length = n ∧ ∀ j, j < n → (c.getD i []).getD j 0 < qs.getD i 1
  | [], [], _ => ⟨rfl, fun i hi => absurd hi (by simp)⟩
  | [], _ :: _, h => absurd h (by simp [Rng.AllBelow])
  | _ :: _, [], h => absurd h (by simp [Rng.AllBelow])
  | q :: qs, p :: ps, h => by
    obtain ⟨⟨h1, h2⟩, h3⟩ := h
    obtain ⟨ih1, ih2⟩ := c01y_allBelow_canon qs ps h3
    refine ⟨by simp [ih1], fun i hi => ?_⟩
    cases i with
    | zero =>
      refine ⟨h1, fun j hj => ?_⟩
      have hj' : j < p.length := by omega
      have e : (p.getD j 0) = p[j] := by simp [List.getD_eq_getElem?_getD, hj']
      show p.getD j 0 < q
      rw [e]; exact h2 _ (List.getElem_mem hj')
    | succ i => exact ih2 i (by simpa using hi)

theorem c01y_toArray_getD (L : List Nat) (j : Nat) : L.toArray.getD j 0 = L.getD j 0 := by
  by_cases h : j < L.length
  · simp [Array.getD, h, List.getD_eq_getElem?_getD]
  · simp [Array.getD, h, List.getD_eq_getElem?_getD]

/-- `sample::uniform` at the level's moduli returns a canonical polynomial -/
theorem uniform_tape {U : Rng.Uniform} (hU : U.Contract) {xof : Rng.Xof} (hx : Rng.ByteXof xof) {scheme : Scheme} {n : Nat} {qs : List Nat}
    {t : Nat} {l : Level} (hl : Drv.Sch.mkLevel scheme n qs t = .ok l) {s s' : Rng.St} (hs : Rng.ByteSt s) {c : List (List Nat)}
    (h : Rng.uniformPoly U xof s n qs = .ok (c, s')) : RnsCanon l (toRns c) ∧ Rng.ByteSt s' := by
  obtain ⟨hm, _, h64⟩ := c01y_moduli hl
  obtain ⟨b1, b2, b3, b4, b5, b6, b7, b8, b9⟩ := mkLevel_ok hl
  obtain ⟨hA, hb⟩ := Rng.uniformPoly_spec U hU hx qs s s' c hs h64 h
  obtain ⟨a1, a2⟩ := c01y_allBelow_canon qs c hA
  have hlen := c01u_qvals_length b8
  refine ⟨⟨by simp [toRns]; omega, fun i hi => ?_⟩, hb⟩
  have hi' : i < qs.length := by omega
  obtain ⟨c1, c2⟩ := a2 i hi'
  have hic : i < c.length := by omega
  have e : (toRns c).getD i #[] = (c.getD i []).toArray := by
    simp [toRns, Array.getD, hic, List.getD_eq_getElem?_getD]
  rw [e, ← c01u_qvals_getD b8 hi, b6]
  refine ⟨by simpa using c1, fun j hj => ?_⟩
  have := c2 j hj
  rw [c01y_toArray_getD]; exact this

/-! ## Y3: the draws of the generator model are admissible modes -/

theorem c01y_noiseMany2 {xof : Rng.Xof} {P : Rng.Parms} {s : Rng.St} {e0 e1 : List (List Nat)}
    (h : Rng.noiseMany xof P 2 s = [.ok e0, .ok e1]) :
    ∃ s1 s2, Rng.centeredBinomial xof s P.n P.moduli = .ok (e0, s1) ∧ Rng.centeredBinomial xof s1 P.n P.moduli = .ok (e1, s2) := by
  unfold Rng.noiseMany at h
  split at h
  · simp at h
  · rename_i c s1 h1
    unfold Rng.noiseMany at h
    split at h
    · simp at h
    · rename_i c' s2 h2
      simp only [Rng.noiseMany, List.cons.injEq, Except.ok.injEq, and_true] at h
      obtain ⟨rfl, rfl⟩ := h
      exact ⟨s1, s2, h1, h2⟩

/-- PUBLIC KEY, head of the chain: the tape `Rng.asymCore` draws at the level's parameters (u from the u-generator, two errors from the
    noise generator) is an admissible mode -/
theorem drvMode_pk_of_prng {U : Rng.Uniform} (hU : U.Contract) {xof : Rng.Xof} (hx : Rng.ByteXof xof) {scheme : Scheme} {n t : Nat}
    {kqs lqs r : List Nat} {sk : Array Int} {pk0 pk1 : RnsPoly} {l : Level} (hk : kqs = lqs ++ r)
    (hl : Drv.Sch.mkLevel scheme n lqs t = .ok l) {uprng noisePrng : Rng.St} (hs1 : Rng.ByteSt uprng) (hs2 : Rng.ByteSt noisePrng)
    {um e0m e1m : List (List Nat)}
    (hmask : (Rng.asymCore U xof ⟨n, lqs, 2⟩ uprng noisePrng []).1.mask = .ok um)
    (hnoise : (Rng.asymCore U xof ⟨n, lqs, 2⟩ uprng noisePrng []).1.noise = [.ok e0m, .ok e1m]) :
    DrvMode scheme n t kqs sk pk0 pk1 lqs l (.asym none #[pk0, pk1] (toRns um) #[toRns e0m, toRns e1m]) (21 * (2 * n + 1)) := by
  unfold Rng.asymCore at hmask hnoise
  simp only [] at hmask hnoise
  obtain ⟨s1, s2, hc0, hc1⟩ := c01y_noiseMany2 hnoise
  cases hu : Rng.ternary U xof uprng n lqs with
  | error e => rw [hu] at hmask; cases hmask
  | ok r =>
    rw [hu] at hmask
    have hum : r.1 = um := by injection hmask
    obtain ⟨u, u1, u2, u3, _⟩ := ternary_tape hU hx hl hs1 (c := r.1) (s' := r.2) hu
    obtain ⟨e0, a1, a2, a3, hb1⟩ := cbd_tape hx hl hs2 hc0
    obtain ⟨e1, d1, d2, d3, _⟩ := cbd_tape hx hl hb1 hc1
    rw [← hum, u3, a3, d3]
    exact DrvMode.pk hk u1 a1 d1 u2 a2 d2

/-- PUBLIC KEY THROUGH THE PREVIOUS LEVEL: the tape is drawn with the PREVIOUS level's parameters -/
theorem drvMode_pkPrev_of_prng {U : Rng.Uniform} (hU : U.Contract) {xof : Rng.Xof} (hx : Rng.ByteXof xof) {scheme : Scheme} {n t : Nat}
    {kqs lqs r : List Nat} {qL : Nat} {sk : Array Int} {pk0 pk1 : RnsPoly} {l pl : Level} (hk : kqs = (lqs ++ [qL]) ++ r)
    (hpl : Drv.Sch.mkLevel scheme n (lqs ++ [qL]) t = .ok pl) {uprng noisePrng : Rng.St} (hs1 : Rng.ByteSt uprng)
    (hs2 : Rng.ByteSt noisePrng) {um e0m e1m : List (List Nat)}
    (hmask : (Rng.asymCore U xof ⟨n, lqs ++ [qL], 2⟩ uprng noisePrng []).1.mask = .ok um)
    (hnoise : (Rng.asymCore U xof ⟨n, lqs ++ [qL], 2⟩ uprng noisePrng []).1.noise = [.ok e0m, .ok e1m]) :
    DrvMode scheme n t kqs sk pk0 pk1 lqs l (.asym (some pl) #[pk0, pk1] (toRns um) #[toRns e0m, toRns e1m])
      (spBound qL (21 * (2 * n + 1)) (drvSlack scheme) n) := by
  unfold Rng.asymCore at hmask hnoise
  simp only [] at hmask hnoise
  obtain ⟨s1, s2, hc0, hc1⟩ := c01y_noiseMany2 hnoise
  cases hu : Rng.ternary U xof uprng n (lqs ++ [qL]) with
  | error e => rw [hu] at hmask; cases hmask
  | ok r =>
    rw [hu] at hmask
    have hum : r.1 = um := by injection hmask
    obtain ⟨u, u1, u2, u3, _⟩ := ternary_tape hU hx hpl hs1 (c := r.1) (s' := r.2) hu
    obtain ⟨e0, a1, a2, a3, hb1⟩ := cbd_tape hx hpl hs2 hc0
    obtain ⟨e1, d1, d2, d3, _⟩ := cbd_tape hx hpl hb1 hc1
    rw [← hum, u3, a3, d3]
    exact DrvMode.pkPrev hk hpl u1 a1 d1 u2 a2 d2

/-- SECRET KEY / SEED-COMPRESSED: the tape `Rng.symCore` draws (mask expanded from the public seed taken from the c1 generator, error
    from the noise generator) is an admissible mode; moreover the stored public seed expands to the mask (`SeedExpands`) -/
theorem drvMode_sk_of_prng {U : Rng.Uniform} (hU : U.Contract) {xof : Rng.Xof} (hx : Rng.ByteXof xof) {scheme : Scheme} {n t : Nat}
    {kqs lqs : List Nat} {sk : Array Int} {pk0 pk1 : RnsPoly} {l : Level}
    (hl : Drv.Sch.mkLevel scheme n lqs t = .ok l) {c1prng boot : Rng.St} (hs2 : Rng.ByteSt boot)
    {am em : List (List Nat)}
    (hmask : (Rng.symCore U xof ⟨n, lqs, 2⟩ c1prng boot []).1.mask = .ok am)
    (hnoise : (Rng.symCore U xof ⟨n, lqs, 2⟩ c1prng boot []).1.noise = [.ok em]) (saveSeed : Bool) :
    DrvMode scheme n t kqs sk pk0 pk1 lqs l (.sym sk (toRns am) (toRns em) saveSeed) 21 ∧
      SeedExpands U xof l (((Rng.symCore U xof ⟨n, lqs, 2⟩ c1prng boot []).1.publicSeed).getD []) (toRns am) := by
  obtain ⟨hm, _, _⟩ := c01y_moduli hl
  obtain ⟨b1, b2, b3, b4, b5, b6, b7, b8, b9⟩ := mkLevel_ok hl
  unfold Rng.symCore at hmask hnoise ⊢
  simp only [] at hmask hnoise ⊢
  cases hu : Rng.uniformPoly U xof (Rng.fromSeed (Rng.fillBytes xof c1prng Gen.PRNG_SEED_BYTES).1) n lqs with
  | error e => rw [hu] at hmask; cases hmask
  | ok r =>
    rw [hu] at hmask
    have ham : r.1 = am := by injection hmask
    cases he : Rng.centeredBinomial xof boot n lqs with
    | error e => rw [he] at hnoise; simp [Except.map] at hnoise
    | ok r' =>
      rw [he] at hnoise
      have hem : r'.1 = em := by simpa [Except.map] using hnoise
      obtain ⟨hcan, _⟩ := uniform_tape hU hx hl (Rng.byteSt_fromSeed _) (c := r.1) (s' := r.2) hu
      obtain ⟨e, a1, a2, a3, _⟩ := cbd_tape hx hl hs2 (c := r'.1) (s' := r'.2) he
      rw [← ham, ← hem, a3]
      refine ⟨DrvMode.sk hcan a1 a2 saveSeed, r.2, ?_⟩
      simp only [Option.getD_some]
      rw [b6, hm, hu]
      have : ofRns (toRns r.1) = r.1 := by
        unfold ofRns toRns
        simp only [List.toList_toArray, List.map_map]
        rw [show (Array.toList ∘ List.toArray : List Nat → List Nat) = id from rfl, List.map_id]
      rw [this]

/-! ## Y4: composed — from generator states to the plaintext -/

/-- END TO END FROM THE GENERATORS, BFV, public key through the special prime / at a lower level: for EVERY state of the two generators
    (any bytes), every byte-valued XOF and every integer sampler within its range contract, if the samplers deliver a tape at all
    (the rejection loops have bounded fuel in the model), the model's decryption of the model's encryption is the plaintext -/
theorem drv_bfv_encrypt_decrypt_prng_sp {U : Rng.Uniform} (hU : U.Contract) {xof : Rng.Xof} (hx : Rng.ByteXof xof) {n t : Nat}
    {kqs lqs r : List Nat} {qL : Nat} {kl : Level} {sk : Array Int} {pk0 pk1 : RnsPoly} {l pl : Level}
    (hc : DrvCtx .bfv n t kqs kl sk pk0 pk1) (hl : Drv.Sch.mkLevel .bfv n lqs t = .ok l) (ht : t ≠ 0)
    (hk : kqs = (lqs ++ [qL]) ++ r) (hpl : Drv.Sch.mkLevel .bfv n (lqs ++ [qL]) t = .ok pl)
    {uprng noisePrng : Rng.St} (hs1 : Rng.ByteSt uprng) (hs2 : Rng.ByteSt noisePrng) {um e0m e1m : List (List Nat)}
    (hmask : (Rng.asymCore U xof ⟨n, lqs ++ [qL], 2⟩ uprng noisePrng []).1.mask = .ok um)
    (hnoise : (Rng.asymCore U xof ⟨n, lqs ++ [qL], 2⟩ uprng noisePrng []).1.noise = [.ok e0m, .ok e1m])
    {plain : Poly} (hp : plain.size ≤ n) (hpm : ∀ i, i < plain.size → plain.getD i 0 < t)
    (hok : FreshEncOK l (spBound qL (21 * (2 * n + 1)) 1 n)) :
    ∃ cdp ct, Drv.C01E.bfvConsts l lqs t = .ok cdp ∧
      bfvEncrypt l cdp (Spec.prodL lqs % t) ((t + 1) / 2) (.asym (some pl) #[pk0, pk1] (toRns um) #[toRns e0m, toRns e1m]) plain = .ok ct ∧
      bfvDecrypt l sk ct = .ok (trimPlain (padPlain n plain)) :=
  drv_bfv_encrypt_decrypt hc hl ht (drvMode_pkPrev_of_prng hU hx hk hpl hs1 hs2 hmask hnoise) hp hpm hok

/-- END TO END FROM THE GENERATORS, BGV, secret key -/
theorem drv_bgv_encrypt_decrypt_prng_sk {U : Rng.Uniform} (hU : U.Contract) {xof : Rng.Xof} (hx : Rng.ByteXof xof) {n t : Nat}
    {kqs lqs : List Nat} {kl : Level} {sk : Array Int} {pk0 pk1 : RnsPoly} {l : Level}
    (hc : DrvCtx .bgv n t kqs kl sk pk0 pk1) (hl : Drv.Sch.mkLevel .bgv n lqs t = .ok l)
    {c1prng boot : Rng.St} (hs2 : Rng.ByteSt boot) {am em : List (List Nat)}
    (hmask : (Rng.symCore U xof ⟨n, lqs, 2⟩ c1prng boot []).1.mask = .ok am)
    (hnoise : (Rng.symCore U xof ⟨n, lqs, 2⟩ c1prng boot []).1.noise = [.ok em]) (saveSeed : Bool)
    {plain : Poly} (hp : plain.size ≤ n) (hpm : ∀ i, i < plain.size → plain.getD i 0 < t)
    (hok : 2 * (t * (21 + 1)) < Spec.prodL lqs) :
    ∃ ct, bgvEncrypt l (Drv.C01E.bgvIncr lqs t).1 ((t + 1) / 2) (Drv.C01E.bgvIncr lqs t).2 (.sym sk (toRns am) (toRns em) saveSeed) plain
        = .ok ct ∧ ct.cf = 1 ∧ bgvDecrypt l sk ct = .ok (trimPlain (padPlain n plain)) :=
  drv_bgv_encrypt_decrypt hc hl (drvMode_sk_of_prng (kqs := kqs) hU hx hl hs2 hmask hnoise saveSeed).1 hp hpm hok

/-- END TO END FROM THE GENERATORS, CKKS, public key at the head of the chain, over the integers -/
theorem drv_ckks_encrypt_decrypt_prng_pk {U : Rng.Uniform} (hU : U.Contract) {xof : Rng.Xof} (hx : Rng.ByteXof xof) {n t : Nat}
    {kqs lqs r : List Nat} {kl : Level} {sk : Array Int} {pk0 pk1 : RnsPoly} {l : Level}
    (hc : DrvCtx .ckks n t kqs kl sk pk0 pk1) (hl : Drv.Sch.mkLevel .ckks n lqs t = .ok l) (hk : kqs = lqs ++ r)
    {uprng noisePrng : Rng.St} (hs1 : Rng.ByteSt uprng) (hs2 : Rng.ByteSt noisePrng) {um e0m e1m : List (List Nat)}
    (hmask : (Rng.asymCore U xof ⟨n, lqs, 2⟩ uprng noisePrng []).1.mask = .ok um)
    (hnoise : (Rng.asymCore U xof ⟨n, lqs, 2⟩ uprng noisePrng []).1.noise = [.ok e0m, .ok e1m])
    {M : Array Int} (hMs : M.size = n) (hsmall : ∀ c, c < n → 2 * ((M.getD c 0).natAbs + 21 * (2 * n + 1)) < Spec.prodL lqs) :
    ∃ (ν : Nat → Int) (ct : Ct) (dec : RnsPoly), (∀ c, c < n → (ν c).natAbs ≤ 21 * (2 * n + 1)) ∧
      ckksEncrypt l (.asym none #[pk0, pk1] (toRns um) #[toRns e0m, toRns e1m]) (ckksPlainOfInt l M) = .ok ct ∧
      ckksDecrypt l sk ct = .ok dec ∧ RnsCanon l dec ∧
      (∀ c, c < n → (Drv.Sch.exactPhase l lqs sk ct).getD c 0 = M.getD c 0 + ν c) ∧
      ∀ i, i < l.size → ∀ c, c < n → (intt (l.tbl i) (dec.getD i #[])).getD c 0 = Spec.imod (M.getD c 0 + ν c) (l.q i).value :=
  drv_ckks_encrypt_decrypt hc hl (drvMode_pk_of_prng hU hx hk hl hs1 hs2 hmask hnoise) hMs hsmall

/-- the draws of `Rng.symCore`: canonical mask, error = `rnsOfInt` of a polynomial with ‖e‖∞ ≤ 21 -/
theorem c01y_sym_tape {U : Rng.Uniform} (hU : U.Contract) {xof : Rng.Xof} (hx : Rng.ByteXof xof) {scheme : Scheme} {n t : Nat}
    {lqs : List Nat} {l : Level} (hl : Drv.Sch.mkLevel scheme n lqs t = .ok l) {c1prng boot : Rng.St} (hs2 : Rng.ByteSt boot)
    {am em : List (List Nat)}
    (hmask : (Rng.symCore U xof ⟨n, lqs, 2⟩ c1prng boot []).1.mask = .ok am)
    (hnoise : (Rng.symCore U xof ⟨n, lqs, 2⟩ c1prng boot []).1.noise = [.ok em]) :
    ∃ e : Array Int, RnsCanon l (toRns am) ∧ e.size = n ∧ (∀ p, p < n → (e.getD p 0).natAbs ≤ 21) ∧ toRns em = rnsOfInt l e := by
  unfold Rng.symCore at hmask hnoise
  simp only [] at hmask hnoise
  cases hu : Rng.uniformPoly U xof (Rng.fromSeed (Rng.fillBytes xof c1prng Gen.PRNG_SEED_BYTES).1) n lqs with
  | error e => rw [hu] at hmask; cases hmask
  | ok r =>
    rw [hu] at hmask
    have ham : r.1 = am := by injection hmask
    cases he : Rng.centeredBinomial xof boot n lqs with
    | error e => rw [he] at hnoise; simp [Except.map] at hnoise
    | ok r' =>
      rw [he] at hnoise
      have hem : r'.1 = em := by simpa [Except.map] using hnoise
      obtain ⟨hcan, _⟩ := uniform_tape hU hx hl (Rng.byteSt_fromSeed _) (c := r.1) (s' := r.2) hu
      obtain ⟨e, a1, a2, a3, _⟩ := cbd_tape hx hl hs2 (c := r'.1) (s' := r'.2) he
      exact ⟨e, by rw [← ham]; exact hcan, a1, a2, by rw [← hem]; exact a3⟩

/-! ## Y5: the model's own generator-level functions (`encryptZeroAsymPrng`, `encryptZeroSymPrng`), and the key material from the generators -/

theorem c01y_mapR_id {α : Type} : ∀ (L : List (R α)) (es : List α), Rng.mapR id L = .ok es → L = es.map .ok
  | [], es, h => by
    have : es = [] := by
      simp only [Rng.mapR, Except.ok.injEq] at h
      exact h.symm
    subst this; rfl
  | x :: L, es, h => by
    unfold Rng.mapR at h
    cases x with
    | error e => simp at h
    | ok b =>
      simp only [id] at h
      cases hr : Rng.mapR id L with
      | error e => rw [hr] at h; simp at h
      | ok bs =>
        rw [hr] at h
        simp only [Except.ok.injEq] at h
        subst h
        rw [c01y_mapR_id L bs hr]
        rfl

theorem c01y_noiseMany_len (xof : Rng.Xof) (P : Rng.Parms) : ∀ (k : Nat) (s : Rng.St) (es : List (List (List Nat))),
    Rng.noiseMany xof P k s = es.map .ok → es.length = k
  | 0, s, es, h => by
    simp only [Rng.noiseMany] at h
    cases es with
    | nil => rfl
    | cons a b => simp at h
  | k + 1, s, es, h => by
    unfold Rng.noiseMany at h
    split at h
    · cases es with
      | nil => simp at h
      | cons a b => simp at h
    · rename_i c s' _
      cases es with
      | nil => simp at h
      | cons a b =>
        simp only [List.map_cons, List.cons.injEq] at h
        have := c01y_noiseMany_len xof P k s' b h.2
        simp [this]

/-- the generator-level function IS the tape-level function on the tape the generators deliver -/
theorem encryptZeroAsymPrng_eq_tape {U : Rng.Uniform} {xof : Rng.Xof} {l : Level} {pk : Array RnsPoly} (hsz : pk.size = 2)
    {uprng noisePrng : Rng.St} (isNtt : Bool) {um e0m e1m : List (List Nat)}
    (hmask : (Rng.asymCore U xof ⟨l.n, l.qs.toList.map (·.value), 2⟩ uprng noisePrng []).1.mask = .ok um)
    (hnoise : (Rng.asymCore U xof ⟨l.n, l.qs.toList.map (·.value), 2⟩ uprng noisePrng []).1.noise = [.ok e0m, .ok e1m]) :
    encryptZeroAsymPrng U xof l pk uprng noisePrng isNtt =
      (encryptZeroAsym l pk (toRns um) #[toRns e0m, toRns e1m] isNtt).map
        (fun ct => (ct, (Rng.asymCore U xof ⟨l.n, l.qs.toList.map (·.value), 2⟩ uprng noisePrng []).2)) := by
  unfold encryptZeroAsymPrng
  simp only []
  rw [hsz, hmask, hnoise]
  show (do
    let ct ← encryptZeroAsym l pk (toRns um) #[toRns e0m, toRns e1m] isNtt
    pure (ct, (Rng.asymCore U xof ⟨l.n, l.qs.toList.map (fun m : Modulus => m.value), 2⟩ uprng noisePrng []).2)) = _
  cases encryptZeroAsym l pk (toRns um) #[toRns e0m, toRns e1m] isNtt <;> rfl

/-- WHATEVER the model's generator-level public-key encryption of zero (`encryptZeroAsymPrng`: ternary u from the u-generator, one error
    per key polynomial from the noise generator, then `encryptZeroAsym`) RETURNS at the head of the chain IS a fresh encryption of zero
    with ‖ν‖∞ ≤ 21(2N+1) — for every generator state, byte-valued XOF, integer sampler within its contract -/
theorem encryptZeroAsymPrng_fresh {U : Rng.Uniform} (hU : U.Contract) {xof : Rng.Xof} (hx : Rng.ByteXof xof) {scheme : Scheme} {n t : Nat}
    {kqs lqs r : List Nat} {kl : Level} {sk : Array Int} {pk0 pk1 : RnsPoly} {l : Level}
    (hc : DrvCtx scheme n t kqs kl sk pk0 pk1) (hk : kqs = lqs ++ r) (hl : Drv.Sch.mkLevel scheme n lqs t = .ok l)
    {uprng noisePrng : Rng.St} (hs1 : Rng.ByteSt uprng) (hs2 : Rng.ByteSt noisePrng) {ct : Ct} {st : Rng.St}
    (h : encryptZeroAsymPrng U xof l #[pk0, pk1] uprng noisePrng l.scheme.encNtt = .ok (ct, st)) :
    ∃ ν : Nat → Int, FreshZero l sk (.ok ct) ν ∧ ∀ c, c < l.n → (ν c).natAbs ≤ 21 * (2 * n + 1) := by
  obtain ⟨hm, _, _⟩ := c01y_moduli hl
  obtain ⟨b1, b2, b3, b4, b5, b6, b7, b8, b9⟩ := mkLevel_ok hl
  unfold encryptZeroAsymPrng at h
  simp only [] at h
  rw [b6, hm, show (#[pk0, pk1] : Array RnsPoly).size = 2 from rfl] at h
  obtain ⟨um, hmask, h⟩ := c01p_bind_ok h
  obtain ⟨es, hes, h⟩ := c01p_bind_ok h
  obtain ⟨ct', hct, h⟩ := c01p_bind_ok h
  have hct' : ct' = ct := by
    have h' : (Except.ok (ct', _) : R (Ct × Rng.St)) = .ok (ct, st) := h
    injection h' with h'
    exact (Prod.mk.inj h').1
  subst hct'
  have hnoise := c01y_mapR_id _ _ hes
  have hlen : es.length = 2 := c01y_noiseMany_len xof ⟨n, lqs, 2⟩ 2 noisePrng es hnoise
  obtain ⟨e0m, e1m, rfl⟩ : ∃ a b, es = [a, b] := by
    rcases es with _ | ⟨a, _ | ⟨b, _ | ⟨c, r⟩⟩⟩ <;> simp at hlen
    exact ⟨a, b, rfl⟩
  have hmode := drvMode_pk_of_prng (sk := sk) (pk0 := pk0) (pk1 := pk1) (t := t) hU hx hk hl hs1 hs2 hmask hnoise
  obtain ⟨ν, hf, hν⟩ := drvMode_fresh hc hl hmode
  refine ⟨ν, ?_, hν⟩
  have e : encryptZeroInternal l (.asym none #[pk0, pk1] (toRns um) #[toRns e0m, toRns e1m]) = .ok ct' := by
    unfold encryptZeroInternal
    exact hct
  rw [e] at hf
  exact hf

/-- … and the generator-level secret-key encryption of zero (`encryptZeroSymPrng`: public seed from the c1 generator, mask expanded
    from it, error from the noise generator): fresh with ‖ν‖∞ ≤ 21, at every level, with or without a saved seed; moreover the returned
    public seed expands to polynomial 1's mask (what `expand_seed` needs) -/
theorem encryptZeroSymPrng_fresh {U : Rng.Uniform} (hU : U.Contract) {xof : Rng.Xof} (hx : Rng.ByteXof xof) {scheme : Scheme} {n t : Nat}
    {kqs lqs : List Nat} {kl : Level} {sk : Array Int} {pk0 pk1 : RnsPoly} {l : Level}
    (hc : DrvCtx scheme n t kqs kl sk pk0 pk1) (hl : Drv.Sch.mkLevel scheme n lqs t = .ok l)
    {c1prng boot : Rng.St} (hs2 : Rng.ByteSt boot) (saveSeed : Bool) {ct : Ct} {seed : Rng.Seed} {st : Rng.St}
    (h : encryptZeroSymPrng U xof l sk c1prng boot l.scheme.encNtt saveSeed = .ok (ct, seed, st)) :
    ∃ ν : Nat → Int, FreshZero l sk (.ok ct) ν ∧ (∀ c, c < l.n → (ν c).natAbs ≤ 21) ∧
      ∃ a, SeedExpands U xof l seed a ∧ (seedSaved l saveSeed = true → ∃ c0, ct = ⟨#[c0, a], l.scheme.encNtt, 1⟩) := by
  obtain ⟨hm, _, _⟩ := c01y_moduli hl
  obtain ⟨b1, b2, b3, b4, b5, b6, b7, b8, b9⟩ := mkLevel_ok hl
  unfold encryptZeroSymPrng at h
  simp only [] at h
  rw [b6, hm] at h
  obtain ⟨am, hmask, h⟩ := c01p_bind_ok h
  obtain ⟨em, hem, h⟩ := c01p_bind_ok h
  obtain ⟨ct', hct, h⟩ := c01p_bind_ok h
  have h' : (Except.ok (ct', _, _) : R (Ct × Rng.Seed × Rng.St)) = .ok (ct, seed, st) := h
  injection h' with h'
  obtain ⟨hc1, hc2⟩ := Prod.mk.inj h'
  obtain ⟨hc2, _⟩ := Prod.mk.inj hc2
  subst hc1
  have hnoise : (Rng.symCore U xof ⟨n, lqs, 2⟩ c1prng boot []).1.noise = [.ok em] := by
    have e1 : (Rng.symCore U xof ⟨n, lqs, 2⟩ c1prng boot []).1.noise =
        [(Rng.centeredBinomial xof boot n lqs).map (·.1)] := rfl
    rw [e1] at hem ⊢
    simp only [List.getD_cons_zero] at hem
    cases hcb : Rng.centeredBinomial xof boot n lqs with
    | error e => rw [hcb] at hem; cases hem
    | ok r =>
      rw [hcb] at hem
      have : r.1 = em := by
        have h'' : (Except.ok r.1 : R (List (List Nat))) = .ok em := hem
        injection h''
      rw [← this]; rfl
  obtain ⟨hmode, hexp⟩ := drvMode_sk_of_prng (kqs := kqs) (sk := sk) (pk0 := pk0) (pk1 := pk1) (t := t) hU hx hl hs2 hmask hnoise saveSeed
  obtain ⟨ν, hf, hν⟩ := drvMode_fresh hc hl hmode
  have e : encryptZeroInternal l (.sym sk (toRns am) (toRns em) saveSeed) = .ok ct' := by
    unfold encryptZeroInternal
    exact hct
  rw [e] at hf
  refine ⟨ν, hf, hν, toRns am, ?_, fun hs => ?_⟩
  · rw [← hc2]; exact hexp
  · cases saveSeed with
    | false => simp [seedSaved] at hs
    | true => exact encryptZeroSym_seeded_shape hs hct

/-- THE KEY MATERIAL FROM THE GENERATORS: a ternary draw at the key level gives a secret whose stored form is `genSecretKey` of the draw,
    and the public key the model generates from the draws of `Rng.symCore` exists; together they form a `DrvCtx` -/
theorem drvCtx_of_prng {U : Rng.Uniform} (hU : U.Contract) {xof : Rng.Xof} (hx : Rng.ByteXof xof) {scheme : Scheme} {n t : Nat}
    {kqs : List Nat} {kl : Level} (hkl : Drv.Sch.mkLevel scheme n kqs t = .ok kl) (hbgv : scheme = .bgv → t ≠ 0)
    {skprng skprng' : Rng.St} (hs0 : Rng.ByteSt skprng) {tern : List (List Nat)}
    (htern : Rng.ternary U xof skprng n kqs = .ok (tern, skprng'))
    {c1prng boot : Rng.St} (hs2 : Rng.ByteSt boot) {am em : List (List Nat)}
    (hmask : (Rng.symCore U xof ⟨n, kqs, 2⟩ c1prng boot []).1.mask = .ok am)
    (hnoise : (Rng.symCore U xof ⟨n, kqs, 2⟩ c1prng boot []).1.noise = [.ok em]) (saveSeed : Bool) :
    ∃ (sk : Array Int) (pk0 : RnsPoly), genSecretKey kl (toRns tern) = skNtt kl sk ∧
      genPublicKey kl sk (toRns am) (toRns em) saveSeed = .ok ⟨#[pk0, toRns am], true, 1⟩ ∧
      DrvCtx scheme n t kqs kl sk pk0 (toRns am) := by
  obtain ⟨a1, a2, a3, a4, a5, a6, a7, a8, a9⟩ := mkLevel_ok hkl
  obtain ⟨sk, k1, k2, k3, _⟩ := ternary_tape hU hx hkl hs0 htern
  obtain ⟨e, ha, hes, he, hem⟩ := c01y_sym_tape hU hx hkl hs2 hmask hnoise
  obtain ⟨pk0, hgen, _, _⟩ := genPublicKey_pkRel a1 (c01v_t64 hkl) (sk := sk) (by rw [a6]; exact k1) ha (e := e) (by rw [a6]; exact hes)
    saveSeed
  rw [hem]
  refine ⟨sk, pk0, ?_, hgen, ⟨hkl, hbgv, k1, k2, e, saveSeed, hes, he, ha, hgen⟩⟩
  rw [k3]; exact genSecretKey_eq_skNtt kl sk

/-! ## the noise sampler is total -/

theorem c01y_sampleMany_cbd (xof : Rng.Xof) : ∀ (n : Nat) (s : Rng.St), ∃ vs s', Rng.sampleMany (Rng.cbdDraw xof) n s = .ok (vs, s')
  | 0, s => ⟨[], s, rfl⟩
  | n + 1, s => by
    obtain ⟨vs, s2, h⟩ := c01y_sampleMany_cbd xof n (Rng.fillBytes xof s Gen.CBD_BYTES).2
    refine ⟨Rng.cbdValue (Rng.fillBytes xof s Gen.CBD_BYTES).1 :: vs, s2, ?_⟩
    simp only [Rng.sampleMany, Rng.cbdDraw, h]

/-- `sample::centered_binomial` never fails for non-zero moduli (no rejection loop, no fuel): every generator state yields an error
    polynomial -/
theorem centeredBinomial_total (xof : Rng.Xof) (s : Rng.St) (n : Nat) {moduli : List Nat} (hq : ∀ q ∈ moduli, 0 < q) :
    ∃ c s', Rng.centeredBinomial xof s n moduli = .ok (c, s') := by
  obtain ⟨vs, s', h⟩ := c01y_sampleMany_cbd xof n s
  have he := Rng.encodeAll_eq Rng.encError (fun q v => (v % (q : Int)).toNat) moduli vs
    (fun q hq' v _ => Rng.encError_eq (hq q hq') v)
  refine ⟨moduli.map (fun (q : Nat) => vs.map fun v => (v % (q : Int)).toNat), s', ?_⟩
  unfold Rng.centeredBinomial
  rw [if_neg (by decide), if_neg (by decide), h]
  simp only [he]

/-- the two errors of a public-key encryption are always delivered -/
theorem noiseMany_total2 (xof : Rng.Xof) (P : Rng.Parms) (s : Rng.St) (hq : ∀ q ∈ P.moduli, 0 < q) :
    ∃ e0 e1, Rng.noiseMany xof P 2 s = [.ok e0, .ok e1] := by
  obtain ⟨c0, s1, h0⟩ := centeredBinomial_total xof s P.n hq
  obtain ⟨c1, s2, h1⟩ := centeredBinomial_total xof s1 P.n hq
  refine ⟨c0, c1, ?_⟩
  simp only [Rng.noiseMany, h0, h1]

end HC
