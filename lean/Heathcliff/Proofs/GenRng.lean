/- Translator phase 4j: the GENERATED generator functions of Gen/RngFns.lean (`HC.GenRng`: `refill_buffer`, `next_u32`, `next_u64`,
   `fill_bytes`, `hamming_weight`) equal the hand model of Model/Rng.lean (`refill`, `nextU32`, `nextU64`, `fillBytes`, `hammingWeight`).
   Helper prefix `gn_`.  No Mathlib. -/
import Heathcliff.Gen.RngFns
import Heathcliff.Proofs.C16B
namespace HC.GenRng
open HC HC.Rng

/-! ### the generated struct and the model state -/

/-- the generated `BlakeRNG` as the model's `St` -/
def toSt (g : BlakeRNG) : St := { buffer := g.buffer.toArray, seed := g.seed, counter := g.counter, pos := g.buffer_current }
/-- the model's `St` as the generated `BlakeRNG` -/
def ofSt (s : St) : BlakeRNG := { buffer := s.buffer.toList, seed := s.seed, counter := s.counter, buffer_current := s.pos }
/-- the model's block function as the list-valued input of the generated functions -/
def xofL (xof : Xof) : XofL := fun seed c => (xof seed c).toList

theorem toSt_ofSt (s : St) : toSt (ofSt s) = s := by cases s; simp [toSt, ofSt]
theorem ofSt_toSt (g : BlakeRNG) : ofSt (toSt g) = g := by cases g; simp [toSt, ofSt]

/-- `OutputReader::fill(&mut self.buffer)` fills the whole `[u8; BUFFER_SIZE]` -/
def SizedXof (xof : Xof) : Prop := ∀ seed c, (xof seed c).size = BUF
/-- the buffer field has the array type `[u8; BUFFER_SIZE]` -/
def SizedSt (s : St) : Prop := s.buffer.size = BUF

theorem gn_BUF : BUF = 4096 := rfl

theorem sizedSt_fromSeed (seed : Seed) : SizedSt (fromSeed seed) := by simp [SizedSt, fromSeed]
theorem sizedSt_refill {xof : Xof} (hx : SizedXof xof) (s : St) : SizedSt (refill xof s) := hx _ _
theorem sizedSt_preFill {xof : Xof} (hx : SizedXof xof) {s : St} (hs : SizedSt s) : SizedSt (preFill xof s) := by
  unfold preFill; split
  · exact sizedSt_refill hx s
  · exact hs

/-! ### small facts about the checked primitives -/

theorem gn_ckAdd {a b : Nat} (h : a + b < B64) : ckAdd a b = .ok (a + b) := by simp [ckAdd, h]
theorem gn_ckSub {a b : Nat} (h : b ≤ a) : ckSub a b = .ok (a - b) := by simp [ckSub, h]
theorem gn_ckMul {a b : Nat} (h : a * b < B64) : ckMul a b = .ok (a * b) := by simp [ckMul, h]

theorem gn_getD (b : Array Nat) (i : Nat) : b.toList.getD i 0 = b.getD i 0 := by
  simp [List.getD_eq_getElem?_getD, Array.getD_eq_getD_getElem?]

theorem gn_readLE (b : Array Nat) (p w : Nat) (h : p + w ≤ b.size) : readLE b.toList p w = .ok (leRead b p w) := by
  unfold readLE leRead
  rw [if_pos (by simpa using h)]
  simp only [gn_getD]

theorem gn_slice (b : Array Nat) (p L : Nat) (h : p + L ≤ b.size) : slice b.toList p (p + L) = .ok (bufSlice b p L) := by
  unfold slice
  rw [if_pos ⟨Nat.le_add_right _ _, by simpa using h⟩]
  congr 1
  apply List.ext_getElem
  · simp [bufSlice]; omega
  · intro k h1 h2
    have hk : k < L := by simpa [bufSlice] using h2
    simp only [bufSlice, List.getElem_take, List.getElem_drop, List.getElem_map, List.getElem_range]
    have : p + k < b.size := by omega
    simp [Array.getD_eq_getD_getElem?, this]

/-! ### `refill_buffer` -/

theorem gn_refill_buffer_eq (xof : Xof) (s : St) : refill_buffer (xofL xof) (ofSt s) = .ok (ofSt (refill xof s)) := rfl

/-! ### `next_u32` / `next_u64`: one reference function with the three constants abstract -/

def gn_refNext (add mask w : Nat) (xof : XofL) (a0 : BlakeRNG) : R (BlakeRNG × Nat) := do
  let t1 ← ckAdd a0.buffer_current add
  let a0 := { a0 with buffer_current := (t1 &&& (notW mask)) }
  let t2 ← ckAdd a0.buffer_current w
  let a0 ← (if (t2 > 4096) then (do let a0 ← refill_buffer xof a0; pure a0) else pure a0)
  let t3 ← readLE a0.buffer a0.buffer_current w
  let v1 := t3
  let t4 ← ckAdd a0.buffer_current w
  let a0 := { a0 with buffer_current := t4 }
  pure (a0, v1)

theorem gn_next_u32_ref : next_u32 = gn_refNext 3 3 4 := rfl
theorem gn_next_u64_ref : next_u64 = gn_refNext 7 7 8 := rfl

theorem gn_refNext_eq (add mask w : Nat) (hmask : ∀ x, x < 2^64 → x &&& notW mask = x / (mask + 1) * (mask + 1))
    (hadd : add ≤ 7) (hw : w ≤ 8) {xof : Xof} (hx : SizedXof xof) (s : St) (hs : SizedSt s) (hp : s.pos ≤ BUF) :
    gn_refNext add mask w (xofL xof) (ofSt s) = .ok (ofSt (nextWord add mask w xof s).2, (nextWord add mask w xof s).1) := by
  have hB := gn_BUF
  have h64 : B64 = 18446744073709551616 := rfl
  unfold gn_refNext nextWord
  have h1 : (ofSt s).buffer_current + add < B64 := by simp only [ofSt]; omega
  rw [gn_ckAdd h1]
  have hm := hmask (s.pos + add) (by omega)
  have hle : (s.pos + add) / (mask + 1) * (mask + 1) ≤ s.pos + add := Nat.div_mul_le_self _ _
  simp only [ofSt, bind, Except.bind, pure, Except.pure, hm]
  rw [gn_ckAdd (by omega)]
  simp only []
  by_cases hc : (s.pos + add) / (mask + 1) * (mask + 1) + w > 4096
  · have hc' : (s.pos + add) / (mask + 1) * (mask + 1) + w > BUF := by omega
    rw [if_pos hc, if_pos hc']
    have hr := gn_refill_buffer_eq xof { s with pos := (s.pos + add) / (mask + 1) * (mask + 1) }
    simp only [ofSt] at hr
    rw [hr]
    simp only [refill]
    rw [gn_readLE _ _ _ (by rw [hx]; omega), gn_ckAdd (by omega)]
  · have hc' : ¬ (s.pos + add) / (mask + 1) * (mask + 1) + w > BUF := by omega
    rw [if_neg hc, if_neg hc']
    have hr := gn_readLE s.buffer ((s.pos + add) / (mask + 1) * (mask + 1)) w (by rw [hs]; omega)
    have ha : ckAdd ((s.pos + add) / (mask + 1) * (mask + 1)) w = .ok _ := gn_ckAdd (by omega)
    simp only [hr, ha]

theorem gn_notW3 (x : Nat) (hx : x < 2^64) : x &&& notW 3 = x / (3 + 1) * (3 + 1) := align4_as_coded x hx
theorem gn_notW7 (x : Nat) (hx : x < 2^64) : x &&& notW 7 = x / (7 + 1) * (7 + 1) := align8_as_coded x hx

theorem gn_next_u32_eq {xof : Xof} (hx : SizedXof xof) (s : St) (hs : SizedSt s) (hp : s.pos ≤ BUF) :
    next_u32 (xofL xof) (ofSt s) = .ok (ofSt (nextU32 xof s).2, (nextU32 xof s).1) := by
  rw [gn_next_u32_ref]; exact gn_refNext_eq 3 3 4 gn_notW3 (by decide) (by decide) hx s hs hp

theorem gn_next_u64_eq {xof : Xof} (hx : SizedXof xof) (s : St) (hs : SizedSt s) (hp : s.pos ≤ BUF) :
    next_u64 (xofL xof) (ofSt s) = .ok (ofSt (nextU64 xof s).2, (nextU64 xof s).1) := by
  rw [gn_next_u64_ref]; exact gn_refNext_eq 7 7 8 gn_notW7 (by decide) (by decide) hx s hs hp

/-- both keep the invariants the next call needs -/
theorem gn_nextWord_inv (add mask w : Nat) (hadd : add ≤ 7) (hw : w ≤ 8) {xof : Xof} (hx : SizedXof xof) (s : St) (hs : SizedSt s)
    (hp : s.pos ≤ BUF) : SizedSt (nextWord add mask w xof s).2 ∧ (nextWord add mask w xof s).2.pos ≤ BUF := by
  have hB := gn_BUF
  unfold nextWord
  simp only []
  have hle : (s.pos + add) / (mask + 1) * (mask + 1) ≤ s.pos + add := Nat.div_mul_le_self _ _
  split
  · refine ⟨hx _ _, ?_⟩; simp only [refill]; omega
  · refine ⟨hs, ?_⟩; simp only []; omega

/-! ### `fill_bytes` -/

theorem gn_preFill (xof : Xof) (s : St) :
    (if (ofSt s).buffer_current ≥ 4096 then (do let a0 ← refill_buffer (xofL xof) (ofSt s); pure a0) else pure (ofSt s) : R BlakeRNG)
      = .ok (ofSt (preFill xof s)) := by
  unfold preFill
  have hB := gn_BUF
  by_cases h : s.pos ≥ BUF
  · rw [if_pos h, if_pos (by simp only [ofSt]; omega), gn_refill_buffer_eq]
  · rw [if_neg h, if_neg (by simp only [ofSt]; omega)]; rfl

theorem gn_copySlice (dest sl : List Nat) (i L : Nat) (h : i + L ≤ dest.length) (hl : sl.length = L) :
    copySlice dest i (i + L) sl = .ok (dest.take i ++ sl ++ dest.drop (i + L)) := by
  unfold copySlice
  rw [if_pos ⟨Nat.le_add_right _ _, h⟩, if_pos (by omega)]

theorem gn_fill_loop {xof : Xof} (hx : SizedXof xof) :
    ∀ (fuel : Nat) (s : St) (dest : List Nat) (i : Nat), SizedSt s → i ≤ dest.length → dest.length < B64 → dest.length - i < fuel →
      fill_bytes_loop1 (xofL xof) fuel (ofSt s) dest i =
        .ok (ofSt (fillBytes xof s (dest.length - i)).2, dest.take i ++ (fillBytes xof s (dest.length - i)).1, dest.length) := by
  intro fuel
  induction fuel with
  | zero => intro s dest i _ _ _ h; omega
  | succ fuel ih =>
    intro s dest i hs hi hd hf
    have hB := gn_BUF
    have h64 : B64 = 18446744073709551616 := rfl
    unfold fill_bytes_loop1
    by_cases hlt : i < dest.length
    · rw [if_pos hlt]
      have hpf := gn_preFill xof s
      have hs1 := sizedSt_preFill hx hs
      have hp1 := preFill_pos_lt xof s
      generalize hs1d : preFill xof s = s1 at hpf hs1 hp1
      simp only [bind, Except.bind, pure, Except.pure] at hpf ⊢
      rw [hpf]
      simp only [ofSt]
      rw [gn_ckSub (Nat.le_of_lt hlt), gn_ckSub (by omega)]
      simp only []
      have hL1 : 1 ≤ min (dest.length - i) (4096 - s1.pos) := by omega
      generalize hLd : min (dest.length - i) (4096 - s1.pos) = L at hL1
      have hLa : L ≤ dest.length - i := by omega
      have hLb : L ≤ 4096 - s1.pos := by omega
      rw [gn_ckAdd (by omega), gn_ckAdd (by omega)]
      simp only []
      rw [gn_slice _ _ _ (by rw [hs1]; omega)]
      simp only []
      rw [gn_copySlice _ _ _ _ (by omega) (bufSlice_length _ _ _)]
      simp only []
      have hlen : (dest.take i ++ bufSlice s1.buffer s1.pos L ++ dest.drop (i + L)).length = dest.length := by
        simp [bufSlice_length]; omega
      have hih := ih { s1 with pos := s1.pos + L } (dest.take i ++ bufSlice s1.buffer s1.pos L ++ dest.drop (i + L)) (i + L)
        hs1 (by rw [hlen]; omega) (by rw [hlen]; exact hd) (by rw [hlen]; omega)
      simp only [ofSt] at hih
      rw [hih, hlen]
      have htake : (dest.take i ++ bufSlice s1.buffer s1.pos L ++ dest.drop (i + L)).take (i + L) = dest.take i ++ bufSlice s1.buffer s1.pos L := by
        apply List.take_left'
        simp [bufSlice_length]; omega
      rw [htake]
      have hne : dest.length - i ≠ 0 := by omega
      rw [fillBytes_unfold s hne, hs1d]
      have hL2 : min (dest.length - i) (BUF - s1.pos) = L := by rw [hB]; exact hLd
      rw [hL2]
      have hsub : dest.length - i - L = dest.length - (i + L) := by omega
      rw [hsub]
      simp [List.append_assoc]
    · rw [if_neg hlt]
      have hie : dest.length - i = 0 := by omega
      have hil : i = dest.length := by omega
      rw [hie, fillBytes_zero, hil]
      simp [pure, Except.pure]

/-- `fill_bytes(dest)`: the generated function writes exactly the bytes of the model's `fillBytes` for `dest.len()` bytes (the old
    contents of `dest` are irrelevant) and leaves the generator in the model's state -/
theorem gn_fill_bytes_eq {xof : Xof} (hx : SizedXof xof) (s : St) (hs : SizedSt s) (dest : List Nat) (hd : dest.length < 2^64) :
    fill_bytes (xofL xof) (ofSt s) dest = .ok (ofSt (fillBytes xof s dest.length).2, (fillBytes xof s dest.length).1) := by
  unfold fill_bytes
  have h := gn_fill_loop hx (dest.length + 1) s dest 0 hs (Nat.zero_le _) hd (by omega)
  simp only [bind, Except.bind, pure, Except.pure]
  rw [h]
  simp

/-- `fillBytes` keeps the buffer a `BUFFER_SIZE` array -/
theorem sizedSt_fillBytes {xof : Xof} (hx : SizedXof xof) : ∀ (n : Nat) (s : St), SizedSt s → SizedSt (fillBytes xof s n).2 := by
  intro n
  induction n with
  | zero => intro s hs; rw [fillBytes_zero]; exact hs
  | succ n ih =>
    intro s hs
    rw [fillBytes_succ]
    apply ih
    simp only [readByte, SizedSt]
    exact sizedSt_preFill hx hs

/-! ### `hamming_weight` -/

deriving instance DecidableEq for Except

set_option maxRecDepth 8192 in
theorem gn_hamming_weight_eq : ∀ x, x < 256 → hamming_weight x = .ok (Int.ofNat (hammingWeight x)) := by decide

end HC.GenRng
