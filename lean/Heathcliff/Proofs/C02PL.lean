/- C02 (task P, part 2): every BGV evaluator operation of the MODEL acts on the EXACT phase (`Spec.phase`, the centred integer
   polynomial that `bgvDecrypt_eq_spec` decodes) as the ring operation of ℤ_Q[X]/(X^N+1).  Helper prefix `c02p_`.

   `c02p_ph l sk ct j` = coefficient j of the exact phase of the (NTT-form) ciphertext `ct`.
   `c02p_Lift l ct A`: the integer coefficient functions `A k c` agree with the COEFFICIENT form (`intt`) of polynomial k modulo every q_i.
   Per operation: a lift of the result in terms of lifts of the operands (from the `_spec` residue theorems of C02V, the Z_q-linearity of
   `intt` (`c03k_intt_lin`) and NTT multiplicativity (`ctMultiplyDyadic_coeff`, `c02v_comp_coeff`)); then `c02x_phase_link` (exact phase ≡
   Horner phase of any lift, modulo Q) and the phase algebra of part 1 give the congruences
     negate            ph(r) ≡ −ph(a)
     add / sub         ph(r) ≡ e1·ph(a) ± e2·ph(b)      (any sizes; e1 = e2 = 1 for equal correction factors, else the balancing multipliers)
     multiply          ph(r) ≡ ph(a) ⋆ ph(b)            (any sizes)
     multiply_plain    ph(r) ≡ ph(a) ⋆ P                (P any integer reading of the coefficient form of the NTT-form plaintext)
   all modulo Q = Π q_i, coefficient-wise. -/
import Heathcliff.Proofs.C02P
import Heathcliff.Proofs.C03K
import Heathcliff.Model.Program
namespace HC
open Finset

/-- coefficient `c` of RNS component `i` of the coefficient form of polynomial `k` -/
def c02p_coef (l : Level) (ct : Ct) (k i c : Nat) : Nat := (intt (l.tbl i) ((ct.polys.getD k #[]).getD i #[])).getD c 0

/-- integer reading of the coefficient form of a ciphertext: congruent to the residues modulo every q_i -/
def c02p_Lift (l : Level) (ct : Ct) (A : Nat → Nat → Int) : Prop :=
  ∀ k, k < ct.polys.size → ∀ i, i < l.size → ∀ c, c < l.n → ((c02p_coef l ct k i c : Nat) : Int) ≡ A k c [ZMOD (l.q i).value]

/-- coefficient `j` of the exact (centred) phase of an NTT-form ciphertext -/
def c02p_ph (l : Level) (sk : Array Int) (ct : Ct) (j : Nat) : Int :=
  (Spec.phase (c01p_qvals l) l.n sk (ct.polys.toList.map (rnsIntt l))).getD j 0

/-- the secret key as a coefficient function -/
def c02p_sk (sk : Array Int) : Nat → Int := fun i => sk.getD i 0

theorem c02p_lift_exists {l : Level} (hq : c07s_LevelQ l) (ct : Ct) : ∃ A, c02p_Lift l ct A := by
  have h : ∀ k c, ∃ x : Nat, ∀ i, i < l.size → x % (l.q i).value = c02p_coef l ct k i c % (l.q i).value := by
    intro k c
    obtain ⟨x, -, hx⟩ := c02w_crt_exists hq.bwf (fun i => c02p_coef l ct k i c)
    refine ⟨x, fun i hi => ?_⟩
    have := hx i (by rw [hq.size_eq]; exact hi)
    rwa [hq.q_eq hi] at this
  choose X hX using h
  refine ⟨fun k c => (X k c : Int), fun k _ i hi c _ => ?_⟩
  exact (Int.natCast_modEq_iff.mpr (hX k c i hi)).symm

theorem c02p_phase_of_lift {l : Level} (hl : l.WF) (hq : c07s_LevelQ l) {sk : Array Int} (hsk : sk.size = l.n) {ct : Ct}
    (hc : c02v_PolysCanon l ct) {A : Nat → Nat → Int} (hA : c02p_Lift l ct A) {j : Nat} (hj : j < l.n) :
    c02p_ph l sk ct j ≡ c02x_phZ l.n (c02p_sk sk) ct.polys.size A j [ZMOD l.tool.baseQ.prod] := by
  have hne : ct.polys.toList.map (rnsIntt l) ≠ [] := by simpa using c01q_polys_ne hc.two_le
  have hcan : ∀ p ∈ ct.polys.toList.map (rnsIntt l), RnsCanon l p := fun p hp => by
    obtain ⟨p', hp', rfl⟩ := List.mem_map.mp hp
    exact c07s_rnsIntt_canon hl (c01q_polys_mem hc.canon p' hp')
  have hlen : (ct.polys.toList.map (rnsIntt l)).length = ct.polys.size := by simp
  have h := c02x_phase_link hl hq hsk hne hcan A (fun k hk i hi c hc' => by
    have hk' : k < ct.polys.toList.length := by simpa using hk
    rw [c02w_map_getD (rnsIntt l) ct.polys.toList #[] #[] hk', c02x_toList_getD, c01o_rnsIntt_getD l _ hi]
    exact hA k (by simpa using hk) i hi c hc') hj
  rw [hlen] at h
  exact h

/-- Z_q-linearity of the inverse transform on canonical RNS polynomials, component `i` -/
theorem c02p_lin {l : Level} (hl : l.WF) {x y z : RnsPoly} (hx : RnsCanon l x) (hy : RnsCanon l y) (hz : RnsCanon l z)
    {i : Nat} (hi : i < l.size) (α β : ZMod (l.q i).value)
    (h : ∀ j, j < l.n → (((z.getD i #[]).getD j 0 : Nat) : ZMod (l.q i).value) =
        α * (((x.getD i #[]).getD j 0 : Nat) : ZMod (l.q i).value) + β * (((y.getD i #[]).getD j 0 : Nat) : ZMod (l.q i).value)) :
    ∀ c, c < l.n → (((intt (l.tbl i) (z.getD i #[])).getD c 0 : Nat) : ZMod (l.q i).value) =
        α * (((intt (l.tbl i) (x.getD i #[])).getD c 0 : Nat) : ZMod (l.q i).value)
        + β * (((intt (l.tbl i) (y.getD i #[])).getD c 0 : Nat) : ZMod (l.q i).value) := by
  obtain ⟨htw, htm, htn, _⟩ := c01o_level_comp hl hi
  exact c03k_intt_lin htw htm htn (hx.2 i hi).1 (hy.2 i hi).1 (hz.2 i hi).1 (hx.2 i hi).2 (hy.2 i hi).2 (hz.2 i hi).2 α β h

theorem c02p_lift_zmod {l : Level} {ct : Ct} {A : Nat → Nat → Int} (hA : c02p_Lift l ct A) {k i c : Nat}
    (hk : k < ct.polys.size) (hi : i < l.size) (hc : c < l.n) :
    ((c02p_coef l ct k i c : Nat) : ZMod (l.q i).value) = ((A k c : Int) : ZMod (l.q i).value) := by
  have := (ZMod.intCast_eq_intCast_iff _ _ _).mpr (hA k hk i hi c hc)
  rwa [Int.cast_natCast] at this

/-- LINEAR operations: if the residues of `r` are `e1·a ± e2·b` polynomial-wise (absent polynomials zero), so is its reading -/
theorem c02p_lift_tr {l : Level} (hl : l.WF) {a b r : Ct} (ha : c02v_PolysCanon l a) (hb : c02v_PolysCanon l b)
    {n1 n2 : Nat} (hn1 : n1 ≤ a.polys.size) (hn2 : n2 ≤ b.polys.size) (hsz : r.polys.size = max n1 n2)
    (hrc : ∀ k, k < r.polys.size → RnsCanon l (r.polys.getD k #[])) (sub : Bool) (e1 e2 : Int)
    (hres : ∀ k, k < max n1 n2 → ∀ i, i < l.size → ∀ j, j < l.n →
      ((r.c02v_res k i j : Nat) : ZMod (l.q i).value) =
        (if k < n1 then (e1 : ZMod (l.q i).value) * ((a.c02v_res k i j : Nat) : ZMod (l.q i).value) else 0) +
        (if k < n2 then (((if sub then -e2 else e2) : Int) : ZMod (l.q i).value) * ((b.c02v_res k i j : Nat) : ZMod (l.q i).value) else 0))
    {A B : Nat → Nat → Int} (hA : c02p_Lift l a A) (hB : c02p_Lift l b B) :
    c02p_Lift l r (c02p_trZ sub e1 e2 n1 n2 A B) := by
  intro k hk i hi c hc
  have hk' : k < max n1 n2 := by rw [← hsz]; exact hk
  apply (ZMod.intCast_eq_intCast_iff _ _ _).mp
  rw [Int.cast_natCast]
  unfold c02p_trZ
  have hr := hrc k hk
  by_cases h1 : k < n1 <;> by_cases h2 : k < n2
  · have := c02p_lin hl (ha.canon k (by omega)) (hb.canon k (by omega)) hr hi (e1 : ZMod (l.q i).value)
      (((if sub then -e2 else e2) : Int) : ZMod (l.q i).value)
      (fun j hj => by have := hres k hk' i hi j hj; rw [if_pos h1, if_pos h2] at this; exact this) c hc
    rw [if_pos h1, if_pos h2]
    push_cast
    rw [← c02p_lift_zmod hA (by omega) hi hc, ← c02p_lift_zmod hB (by omega) hi hc]
    unfold c02p_coef
    rw [this]
    push_cast
    rfl
  · have := c02p_lin hl (ha.canon k (by omega)) (ha.canon k (by omega)) hr hi (e1 : ZMod (l.q i).value) 0
      (fun j hj => by have := hres k hk' i hi j hj; rw [if_pos h1, if_neg h2] at this; unfold Ct.c02v_res at this; rw [this]; ring) c hc
    rw [if_pos h1, if_neg h2]
    push_cast
    rw [← c02p_lift_zmod hA (by omega) hi hc]
    unfold c02p_coef
    rw [this]
    ring
  · have := c02p_lin hl (hb.canon k (by omega)) (hb.canon k (by omega)) hr hi 0
      (((if sub then -e2 else e2) : Int) : ZMod (l.q i).value)
      (fun j hj => by have := hres k hk' i hi j hj; rw [if_neg h1, if_pos h2] at this; unfold Ct.c02v_res at this; rw [this]; ring) c hc
    rw [if_neg h1, if_pos h2]
    push_cast
    rw [← c02p_lift_zmod hB (by omega) hi hc]
    unfold c02p_coef
    rw [this]
    push_cast
    ring
  · omega

/-! ## casts of the residue formulas -/

theorem c02p_cast_sub {q : Nat} (u v : Nat) (hv : v ≤ u + q) :
    (((u + q - v) % q : Nat) : ZMod q) = (u : ZMod q) - (v : ZMod q) := by
  rw [ZMod.natCast_mod, Nat.cast_sub hv, Nat.cast_add, ZMod.natCast_self, add_zero]

theorem c02p_cast_neg {q : Nat} (v : Nat) (hv : v ≤ q) : (((q - v) % q : Nat) : ZMod q) = - (v : ZMod q) := by
  rw [ZMod.natCast_mod, Nat.cast_sub hv, ZMod.natCast_self, zero_sub]

/-! ## hypothesis bundles -/

/-- the level: tables, CRT base and decryption constants as the constructors build them (`level_bundles_of_constructors`), scheme BGV -/
structure c02p_LevelOK (l : Level) : Prop where
  wf : l.WF
  lq : c07s_LevelQ l
  dec : DecOK l
  bgv : l.scheme = .bgv

theorem c02p_LevelOK.twf {l : Level} (h : c02p_LevelOK l) : l.t.WF := by rw [← h.dec.t_eq]; exact h.dec.tool.twf
theorem c02p_LevelOK.qwf {l : Level} (h : c02p_LevelOK l) : c02v_QsWF l := c02v_qsWF_of_levelWF h.wf
theorem c02p_LevelOK.npos {l : Level} (h : c02p_LevelOK l) : 0 < l.n := c01q_n_pos h.wf

/-- the ciphertexts the induction runs over: canonical (`is_valid_for`), NTT form, correction factor a UNIT modulo t
    (`CtCanon` alone only gives 0 < cf < t; for composite t the product of two such factors can be 0: `c02v_bgvMultiply_cf_zero_witness`) -/
structure c02p_Good (l : Level) (ct : Ct) : Prop where
  canon : CtCanon l ct
  ntt : ct.ntt = true
  unit : Nat.Coprime ct.cf l.t.value

theorem c02p_Good.cf_lt {l : Level} (h : c02p_LevelOK l) {ct : Ct} (g : c02p_Good l ct) : ct.cf < l.t.value := by
  have := g.canon.cf
  unfold c02v_cfOk at this
  rw [h.bgv] at this
  exact this.2

/-! ## the general linear step on exact phases -/

theorem c02p_tr_ph {l : Level} (h : c02p_LevelOK l) {sk : Array Int} (hsk : sk.size = l.n) {a b r : Ct}
    (ha : c02v_PolysCanon l a) (hb : c02v_PolysCanon l b) (hr : c02v_PolysCanon l r)
    {n1 n2 : Nat} (hn1 : n1 ≤ a.polys.size) (hn2 : n2 ≤ b.polys.size) (hsz : r.polys.size = max n1 n2) (sub : Bool) (e1 e2 : Int)
    (hres : ∀ k, k < max n1 n2 → ∀ i, i < l.size → ∀ j, j < l.n →
      ((r.c02v_res k i j : Nat) : ZMod (l.q i).value) =
        (if k < n1 then (e1 : ZMod (l.q i).value) * ((a.c02v_res k i j : Nat) : ZMod (l.q i).value) else 0) +
        (if k < n2 then (((if sub then -e2 else e2) : Int) : ZMod (l.q i).value) * ((b.c02v_res k i j : Nat) : ZMod (l.q i).value) else 0))
    {A B : Nat → Nat → Int} (hA : c02p_Lift l a A) (hB : c02p_Lift l b B) {j : Nat} (hj : j < l.n) :
    c02p_ph l sk r j ≡ e1 * c02x_phZ l.n (c02p_sk sk) n1 A j + (if sub then -e2 else e2) * c02x_phZ l.n (c02p_sk sk) n2 B j
      [ZMOD l.tool.baseQ.prod] := by
  have hL := c02p_lift_tr h.wf ha hb hn1 hn2 hsz hr.canon sub e1 e2 hres hA hB
  have h1 := c02p_phase_of_lift h.wf h.lq hsk hr hL (sk := sk) hj
  rw [hsz, c02p_phZ_tr h.npos _ sub e1 e2 n1 n2 A B j hj] at h1
  exact h1

/-! ## negate -/

theorem c02p_negate_ph {l : Level} (h : c02p_LevelOK l) {sk : Array Int} (hsk : sk.size = l.n) {a r : Ct} (ha : c02p_Good l a)
    (hr : ctNegate l a = .ok r) :
    c02p_Good l r ∧ r.cf = a.cf ∧ r.polys.size = a.polys.size ∧
      ∀ j, j < l.n → c02p_ph l sk r j ≡ - c02p_ph l sk a j [ZMOD l.tool.baseQ.prod] := by
  obtain ⟨r', hr', hcan, hsz, hntt, hcf, hres⟩ := ctNegate_spec h.qwf ha.canon
  rw [hr] at hr'
  obtain rfl := Except.ok.inj hr'
  refine ⟨⟨hcan, by rw [hntt]; exact ha.ntt, by rw [hcf]; exact ha.unit⟩, hcf, hsz, fun j hj => ?_⟩
  obtain ⟨A, hA⟩ := c02p_lift_exists h.lq a
  have hpa := c02p_phase_of_lift h.wf h.lq hsk ha.canon.toc02v_PolysCanon hA (sk := sk) hj
  have := c02p_tr_ph h hsk ha.canon.toc02v_PolysCanon ha.canon.toc02v_PolysCanon hcan.toc02v_PolysCanon (n1 := a.polys.size) (n2 := 0)
    (Nat.le_refl _) (Nat.zero_le _) (by rw [hsz]; simp) false (-1) 0
    (fun k hk i hi c hc => by
      have hk' : k < a.polys.size := by simpa using hk
      rw [hres k hk' i hi c hc, if_pos hk', if_neg (Nat.not_lt_zero k),
        c02p_cast_neg (a.c02v_res k i c) (le_of_lt (((ha.canon.canon k hk').2 i hi).2 c hc))]
      push_cast; ring) hA hA hj
  refine this.trans ?_
  have e : c02x_phZ l.n (c02p_sk sk) 0 A j = 0 := rfl
  rw [e]
  simp only [Bool.false_eq_true, if_false, mul_zero, add_zero]
  have := hpa.symm.neg
  simpa using this

/-! ## add / sub with correction-factor balancing, all size pairs -/

theorem c02p_translate_ph {l : Level} (h : c02p_LevelOK l) {sk : Array Int} (hsk : sk.size = l.n) {a b r : Ct} (ha : c02p_Good l a)
    (hb : c02p_Good l b) (sub : Bool) (hr : ctTranslateBalanced l a b sub = .ok r) :
    ∃ e1 e2 : Nat, c02p_balance l.t a.cf b.cf = some (r.cf, e1, e2) ∧ c02p_Good l r ∧ r.polys.size = max a.polys.size b.polys.size ∧
      (e1 * a.cf) % l.t.value = r.cf ∧ (e2 * b.cf) % l.t.value = r.cf ∧
      ∀ j, j < l.n → c02p_ph l sk r j ≡ (e1 : Int) * c02p_ph l sk a j + (if sub then -(e2 : Int) else (e2 : Int)) * c02p_ph l sk b j
        [ZMOD l.tool.baseQ.prod] := by
  have htw := h.twf
  have hntt : a.ntt = b.ntt := by rw [ha.ntt, hb.ntt]
  have hfa := ha.cf_lt h
  have hfb := hb.cf_lt h
  obtain ⟨A, hA⟩ := c02p_lift_exists h.lq a
  obtain ⟨B, hB⟩ := c02p_lift_exists h.lq b
  have fin : ∀ (e1 e2 : Nat), c02v_PolysCanon l r → r.polys.size = max a.polys.size b.polys.size →
      (∀ k, k < max a.polys.size b.polys.size → ∀ i, i < l.size → ∀ j, j < l.n →
        ((r.c02v_res k i j : Nat) : ZMod (l.q i).value) =
          (if k < a.polys.size then (((e1 : Nat) : Int) : ZMod (l.q i).value) * ((a.c02v_res k i j : Nat) : ZMod (l.q i).value) else 0) +
          (if k < b.polys.size then (((if sub then -((e2 : Nat) : Int) else ((e2 : Nat) : Int)) : Int) : ZMod (l.q i).value)
              * ((b.c02v_res k i j : Nat) : ZMod (l.q i).value) else 0)) →
      ∀ j, j < l.n → c02p_ph l sk r j ≡ (e1 : Int) * c02p_ph l sk a j + (if sub then -(e2 : Int) else (e2 : Int)) * c02p_ph l sk b j
        [ZMOD l.tool.baseQ.prod] := by
    intro e1 e2 hrc hsz hres j hj
    have := c02p_tr_ph h hsk ha.canon.toc02v_PolysCanon hb.canon.toc02v_PolysCanon hrc (Nat.le_refl _) (Nat.le_refl _) hsz sub
      (e1 : Int) (e2 : Int) hres hA hB hj
    refine this.trans ?_
    have hpa := c02p_phase_of_lift h.wf h.lq hsk ha.canon.toc02v_PolysCanon hA (sk := sk) hj
    have hpb := c02p_phase_of_lift h.wf h.lq hsk hb.canon.toc02v_PolysCanon hB (sk := sk) hj
    exact ((hpa.symm.mul_left _).add (hpb.symm.mul_left _))
  by_cases hcf : a.cf = b.cf
  · rw [ctTranslateBalanced_same l a b sub hcf] at hr
    obtain ⟨r', hr', hcan, hsz, hn, hf, hres⟩ := ctTranslate_spec h.qwf ha.canon hb.canon sub hntt hcf
    rw [hr] at hr'
    obtain rfl := Except.ok.inj hr'
    refine ⟨1, 1, by unfold c02p_balance; rw [if_pos hcf, hf], ⟨hcan, by rw [hn]; exact ha.ntt, by rw [hf]; exact ha.unit⟩, hsz,
      by rw [hf, Nat.one_mul, Nat.mod_eq_of_lt hfa], by rw [hf, hcf, Nat.one_mul, Nat.mod_eq_of_lt hfb],
      fin 1 1 hcan.toc02v_PolysCanon hsz (fun k hk i hi j hj => ?_)⟩
    rw [hres k hk i hi j hj]
    have hq0 := (h.qwf i hi).two_le
    by_cases h1 : k < a.polys.size <;> by_cases h2 : k < b.polys.size
    · have hbl := ((hb.canon.canon k h2).2 i hi).2 j hj
      rw [if_pos ⟨h1, h2⟩, if_pos h1, if_pos h2]
      cases sub
      · simp only [Bool.false_eq_true, if_false]
        rw [ZMod.natCast_mod]; push_cast; ring
      · simp only [if_true]
        rw [c02p_cast_sub _ _ (by unfold Ct.c02v_res; omega)]; push_cast; ring
    · rw [if_neg (by tauto), if_pos h1, if_pos h1, if_neg h2]
      push_cast; ring
    · have hbl := ((hb.canon.canon k h2).2 i hi).2 j hj
      rw [if_neg (by tauto), if_neg h1, if_neg h1, if_pos h2]
      cases sub
      · simp only [Bool.false_eq_true, if_false]
        push_cast; ring
      · simp only [if_true]
        rw [c02p_cast_neg _ (by unfold Ct.c02v_res; omega)]; push_cast; ring
    · omega
  · obtain ⟨⟨f, e1, e2⟩, hbal⟩ := balance_total htw hfa hfb ha.unit
    obtain ⟨r', hr', hpc, hsz, hn, hf, hflt, hm1, hm2, he1, he2, _, hunit, hres⟩ :=
      ctTranslateBalanced_spec h.qwf htw ha.canon hb.canon sub hntt hcf hfa hfb hbal
    rw [hr] at hr'
    obtain rfl := Except.ok.inj hr'
    obtain ⟨hu, hcan⟩ := hunit hb.unit
    refine ⟨e1, e2, by unfold c02p_balance; rw [if_neg hcf, hbal, hf], ⟨hcan h.bgv, by rw [hn]; exact ha.ntt, by rw [hf]; exact hu⟩, hsz,
      by rw [hf]; exact hm1, by rw [hf]; exact hm2, fin e1 e2 hpc hsz (fun k hk i hi j hj => ?_)⟩
    rw [hres k hk i hi j hj]
    have hq0 := (h.qwf i hi).two_le
    have hml : ∀ x : Nat, x % (l.q i).value < (l.q i).value := fun x => Nat.mod_lt _ (by omega)
    by_cases h1 : k < a.polys.size <;> by_cases h2 : k < b.polys.size
    · rw [if_pos ⟨h1, h2⟩, if_pos h1, if_pos h2]
      cases sub
      · simp only [Bool.false_eq_true, if_false]
        rw [ZMod.natCast_mod]; push_cast; rw [ZMod.natCast_mod, ZMod.natCast_mod]; push_cast; ring
      · simp only [if_true]
        rw [c02p_cast_sub _ _ (by have := hml (r.c02v_res k i j); have := hml (b.c02v_res k i j * e2); omega)]
        rw [ZMod.natCast_mod, ZMod.natCast_mod]; push_cast; ring
    · rw [if_neg (by tauto), if_pos h1, if_pos h1, if_neg h2]
      rw [ZMod.natCast_mod]; push_cast; ring
    · rw [if_neg (by tauto), if_neg h1, if_neg h1, if_pos h2]
      cases sub
      · simp only [Bool.false_eq_true, if_false]
        rw [ZMod.natCast_mod]; push_cast; ring
      · simp only [if_true]
        rw [c02p_cast_neg _ (by have := hml (b.c02v_res k i j * e2); omega), ZMod.natCast_mod]; push_cast; ring
    · omega

/-! ## multiply (`bgvMultiply`), all size pairs -/

theorem c02p_ph_polys (l : Level) (sk : Array Int) {c r : Ct} (h : r.polys = c.polys) (j : Nat) : c02p_ph l sk r j = c02p_ph l sk c j := by
  unfold c02p_ph; rw [h]

theorem c02p_mul_ph {l : Level} (h : c02p_LevelOK l) {sk : Array Int} (hsk : sk.size = l.n) {a b r : Ct} (ha : c02p_Good l a)
    (hb : c02p_Good l b) (hr : bgvMultiply l a b = .ok r) :
    c02p_Good l r ∧ r.cf = (a.cf * b.cf) % l.t.value ∧ r.polys.size = a.polys.size + b.polys.size - 1 ∧
      ∀ j, j < l.n → c02p_ph l sk r j ≡ negMulR l.n (c02p_ph l sk a) (c02p_ph l sk b) j [ZMOD l.tool.baseQ.prod] := by
  have htw := h.twf
  obtain ⟨c, hc⟩ : ∃ c, ctMultiplyDyadic l a b = .ok c := by
    unfold bgvMultiply at hr
    cases hcd : ctMultiplyDyadic l a b with
    | error e => rw [hcd] at hr; cases hr
    | ok c => exact ⟨c, rfl⟩
  have h16 := ctMultiplyDyadic_ok_le16 hc
  obtain ⟨r', hr', hcan, hcf, hunit⟩ := bgvMultiply_canon h.qwf htw ha.canon hb.canon ha.ntt hb.ntt h.bgv h16 ha.unit hb.unit
  rw [hr] at hr'
  obtain rfl := Except.ok.inj hr'
  have hfa := ha.cf_lt h
  have hfb := hb.cf_lt h
  have h61 := htw.lt
  have hspec := bgvMultiply_spec htw hc (by omega : a.cf < 2^64) (by omega : b.cf < 2^64)
  rw [hr] at hspec
  have hrc : r = { c with cf := (a.cf * b.cf) % l.t.value } := Except.ok.inj hspec
  have hpol : r.polys = c.polys := by rw [hrc]
  obtain ⟨c', hc', hcsz, hcn, _, _, hccan, _⟩ := ctMultiplyDyadic_spec h.qwf ha.canon hb.canon ha.ntt hb.ntt h16
  rw [hc] at hc'
  obtain rfl := Except.ok.inj hc'
  refine ⟨⟨hcan, by rw [hrc]; exact hcn, hunit⟩, hcf, by rw [hpol]; exact hcsz, fun j hj => ?_⟩
  rw [c02p_ph_polys l sk hpol]
  obtain ⟨A, hA⟩ := c02p_lift_exists h.lq a
  obtain ⟨B, hB⟩ := c02p_lift_exists h.lq b
  have h2a := ha.canon.two_le
  have h2b := hb.canon.two_le
  have hcoeff := ctMultiplyDyadic_coeff h.wf ha.canon hb.canon hc
  have hL : c02p_Lift l c (c02w_Z a.polys.size b.polys.size l.n A B) := by
    intro k hk i hi c' hc''
    rw [hcsz] at hk
    have hq0 : 0 < (l.q i).value := by have := (h.qwf i hi).two_le; omega
    obtain ⟨_, hmem⟩ := mulPairs_spec (n1 := a.polys.size) (n2 := b.polys.size) (by omega) (by omega) hk
    have := c02w_convVal_modEq (n := l.n) (n1 := a.polys.size) (n2 := b.polys.size) hq0
      (fun x => intt (l.tbl i) ((a.polys.getD x #[]).getD i #[])) (fun y => intt (l.tbl i) ((b.polys.getD y #[]).getD i #[])) A B k
      (fun p hp j' hj' => hA p.1 ((hmem p.1 p.2).mp hp).1 i hi j' hj')
      (fun p hp j' hj' => hB p.2 ((hmem p.1 p.2).mp hp).2.1 i hi j' hj') hc''
    unfold c02p_coef
    rw [hcoeff k hk i hi c' hc'']
    exact this
  have hpc := c02p_phase_of_lift h.wf h.lq hsk (hccan h16).toc02v_PolysCanon hL (sk := sk) hj
  rw [hcsz, c02p_phZ_mul h.npos _ (by omega) (by omega) A B j hj] at hpc
  refine hpc.trans ?_
  exact c02x_negMulR_modEq l.n _
    (fun i hi => (c02p_phase_of_lift h.wf h.lq hsk ha.canon.toc02v_PolysCanon hA (sk := sk) hi).symm)
    (fun i hi => (c02p_phase_of_lift h.wf h.lq hsk hb.canon.toc02v_PolysCanon hB (sk := sk) hi).symm) hj

/-! ## multiply by an NTT-form plaintext -/

/-- `P` is an integer reading of the coefficient form of the NTT-form plaintext `p` -/
def c02p_PlainLift (l : Level) (p : RnsPoly) (P : Nat → Int) : Prop :=
  ∀ i, i < l.size → ∀ c, c < l.n → (((intt (l.tbl i) (p.getD i #[])).getD c 0 : Nat) : Int) ≡ P c [ZMOD (l.q i).value]

theorem c02p_mulPlain_ph {l : Level} (h : c02p_LevelOK l) {sk : Array Int} (hsk : sk.size = l.n) {a r : Ct} (ha : c02p_Good l a)
    {p : RnsPoly} (hp : RnsCanon l p) {P : Nat → Int} (hP : c02p_PlainLift l p P) (hr : ctMultiplyPlainNtt l a p = .ok r) :
    c02p_Good l r ∧ r.cf = a.cf ∧ r.polys.size = a.polys.size ∧
      ∀ j, j < l.n → c02p_ph l sk r j ≡ negMulR l.n (c02p_ph l sk a) P j [ZMOD l.tool.baseQ.prod] := by
  obtain ⟨r', hr', hcan, hsz, hn, hcf, hres⟩ := ctMultiplyPlainNtt_spec h.qwf ha.canon ha.ntt hp
  rw [hr] at hr'
  obtain rfl := Except.ok.inj hr'
  refine ⟨⟨hcan, hn, by rw [hcf]; exact ha.unit⟩, hcf, hsz, fun j hj => ?_⟩
  obtain ⟨A, hA⟩ := c02p_lift_exists h.lq a
  have hL : c02p_Lift l r (c02p_plZ l.n A P) := by
    intro k hk i hi c hc
    have hk' : k < a.polys.size := by rw [← hsz]; exact hk
    obtain ⟨htw, htm, htn, _⟩ := c01o_level_comp h.wf hi
    have hq0 : 0 < (l.q i).value := by have := (h.qwf i hi).two_le; omega
    have := c02v_comp_coeff htw (fun x => (a.polys.getD x #[]).getD i #[]) (fun _ => p.getD i #[]) [(k, 0)]
      (fun q hq => by
        rw [List.mem_singleton] at hq; subst hq
        rw [htn, htm]; exact (ha.canon.canon k hk').2 i hi)
      (fun q hq => by rw [htn, htm]; exact hp.2 i hi)
      (z := (r.polys.getD k #[]).getD i #[]) (by rw [htn]; exact ((hcan.canon k hk).2 i hi).1)
      (fun j' hj' => by
        rw [htm]
        simp only [List.map_cons, List.map_nil, List.sum_cons, List.sum_nil, Nat.add_zero]
        exact hres k hk' i hi j' (by rw [← htn]; exact hj')) c (by rw [htn]; exact hc)
    rw [htn, htm] at this
    simp only [List.map_cons, List.map_nil, List.sum_cons, List.sum_nil, Nat.add_zero] at this
    unfold c02p_coef c02p_plZ
    rw [this, Int.natCast_mod]
    refine (Int.mod_modEq _ _).trans ?_
    exact c02w_negMulNat_modEq hq0 _ _ _ _ (fun j' hj' => hA k hk' i hi j' hj') (fun j' hj' => hP i hi j' hj') hc
  have hpc := c02p_phase_of_lift h.wf h.lq hsk hcan.toc02v_PolysCanon hL (sk := sk) hj
  rw [hsz, c02p_phZ_pl h.npos _ _ A P j hj] at hpc
  refine hpc.trans ?_
  exact c02x_negMulR_modEq l.n _
    (fun i hi => (c02p_phase_of_lift h.wf h.lq hsk ha.canon.toc02v_PolysCanon hA (sk := sk) hi).symm)
    (fun i _ => Int.ModEq.refl _) hj

end HC
