/- C02 (task P, part 2): every BGV evaluator operation of the MODEL acts on the EXACT phase (`Spec.phase`, the centred integer
   polynomial that `bgvDecrypt_eq_spec` decodes) as the ring operation of ℤ_Q[X]/(X^N+1).  Helper prefix `c02p_`.

   `c02p_ph l sk ct j` = coefficient j of the exact phase of the (NTT-form) ciphertext `ct`.
   `c02p_Lift l ct A`: the integer coefficient functions `A k c` agree with the COEFFICIENT form (`intt`) of polynomial k modulo every q_i.
   Per operation: a lift of the result in terms of lifts of the operands (from the `_spec` residue theorems of C02V, the Z_q-linearity of
   `intt` (`c03k_intt_lin`) and NTT multiplicativity (`ctMultiplyDyadic_coeff`, `c02v_comp_coeff`)); then `c02x_phase_link` (exact phase ≡
   Horner phase of any lift, modulo Q) and the phase algebra of part 1 give the congruences
     negate            ph(r) ≡ −ph(a)
     add / sub         ph(r) ≡ e1·ph(a) ± e2·ph(b)      (any sizes; e1 = e2 = 1 for equal correction factors, else the balancing multipliers)
     multiply          ph(r) ≡ ph(a) ⋆ ph(b)            (any sizes)
     multiply_plain    ph(r) ≡ ph(a) ⋆ P                (P any integer reading of the coefficient form of the NTT-form plaintext)
   all modulo Q = Π q_i, coefficient-wise. -/
import Heathcliff.Proofs.C02P
import Heathcliff.Proofs.C03K
namespace HC
open Finset

/-- coefficient `c` of RNS component `i` of the coefficient form of polynomial `k` -/
def c02p_coef (l : Level) (ct : Ct) (k i c : Nat) : Nat := (intt (l.tbl i) ((ct.polys.getD k #[]).getD i #[])).getD c 0

/-- integer reading of the coefficient form of a ciphertext: congruent to the residues modulo every q_i -/
def c02p_Lift (l : Level) (ct : Ct) (A : Nat → Nat → Int) : Prop :=
  ∀ k, k < ct.polys.size → ∀ i, i < l.size → ∀ c, c < l.n → ((c02p_coef l ct k i c : Nat) : Int) ≡ A k c [ZMOD (l.q i).value]

/-- coefficient `j` of the exact (centred) phase of an NTT-form ciphertext -/
def c02p_ph (l : Level) (sk : Array Int) (ct : Ct) (j : Nat) : Int :=
  (Spec.phase (c01p_qvals l) l.n sk (ct.polys.toList.map (rnsIntt l))).getD j 0

/-- the secret key as a coefficient function -/
def c02p_sk (sk : Array Int) : Nat → Int := fun i => sk.getD i 0

theorem c02p_lift_exists {l : Level} (hq : c07s_LevelQ l) (ct : Ct) : ∃ A, c02p_Lift l ct A := by
  have h : ∀ k c, ∃ x : Nat, ∀ i, i < l.size → x % (l.q i).value = c02p_coef l ct k i c % (l.q i).value := by
    intro k c
    obtain ⟨x, -, hx⟩ := c02w_crt_exists hq.bwf (fun i => c02p_coef l ct k i c)
    refine ⟨x, fun i hi => ?_⟩
    have := hx i (by rw [hq.size_eq]; exact hi)
    rwa [hq.q_eq hi] at this
  choose X hX using h
  refine ⟨fun k c => (X k c : Int), fun k _ i hi c _ => ?_⟩
  exact (Int.natCast_modEq_iff.mpr (hX k c i hi)).symm

theorem c02p_phase_of_lift {l : Level} (hl : l.WF) (hq : c07s_LevelQ l) {sk : Array Int} (hsk : sk.size = l.n) {ct : Ct}
    (hc : c02v_PolysCanon l ct) {A : Nat → Nat → Int} (hA : c02p_Lift l ct A) {j : Nat} (hj : j < l.n) :
    c02p_ph l sk ct j ≡ c02x_phZ l.n (c02p_sk sk) ct.polys.size A j [ZMOD l.tool.baseQ.prod] := by
  have hne : ct.polys.toList.map (rnsIntt l) ≠ [] := by simpa using c01q_polys_ne hc.two_le
  have hcan : ∀ p ∈ ct.polys.toList.map (rnsIntt l), RnsCanon l p := fun p hp => by
    obtain ⟨p', hp', rfl⟩ := List.mem_map.mp hp
    exact c07s_rnsIntt_canon hl (c01q_polys_mem hc.canon p' hp')
  have hlen : (ct.polys.toList.map (rnsIntt l)).length = ct.polys.size := by simp
  have h := c02x_phase_link hl hq hsk hne hcan A (fun k hk i hi c hc' => by
    have hk' : k < ct.polys.toList.length := by simpa using hk
    rw [c02w_map_getD (rnsIntt l) ct.polys.toList #[] #[] hk', c02x_toList_getD, c01o_rnsIntt_getD l _ hi]
    exact hA k (by simpa using hk) i hi c hc') hj
  rw [hlen] at h
  exact h

/-- Z_q-linearity of the inverse transform on canonical RNS polynomials, component `i` -/
theorem c02p_lin {l : Level} (hl : l.WF) {x y z : RnsPoly} (hx : RnsCanon l x) (hy : RnsCanon l y) (hz : RnsCanon l z)
    {i : Nat} (hi : i < l.size) (α β : ZMod (l.q i).value)
    (h : ∀ j, j < l.n → (((z.getD i #[]).getD j 0 : Nat) : ZMod (l.q i).value) =
        α * (((x.getD i #[]).getD j 0 : Nat) : ZMod (l.q i).value) + β * (((y.getD i #[]).getD j 0 : Nat) : ZMod (l.q i).value)) :
    ∀ c, c < l.n → (((intt (l.tbl i) (z.getD i #[])).getD c 0 : Nat) : ZMod (l.q i).value) =
        α * (((intt (l.tbl i) (x.getD i #[])).getD c 0 : Nat) : ZMod (l.q i).value)
        + β * (((intt (l.tbl i) (y.getD i #[])).getD c 0 : Nat) : ZMod (l.q i).value) := by
  obtain ⟨htw, htm, htn, _⟩ := c01o_level_comp hl hi
  exact c03k_intt_lin htw htm htn (hx.2 i hi).1 (hy.2 i hi).1 (hz.2 i hi).1 (hx.2 i hi).2 (hy.2 i hi).2 (hz.2 i hi).2 α β h

theorem c02p_lift_zmod {l : Level} {ct : Ct} {A : Nat → Nat → Int} (hA : c02p_Lift l ct A) {k i c : Nat}
    (hk : k < ct.polys.size) (hi : i < l.size) (hc : c < l.n) :
    ((c02p_coef l ct k i c : Nat) : ZMod (l.q i).value) = ((A k c : Int) : ZMod (l.q i).value) := by
  have := (ZMod.intCast_eq_intCast_iff _ _ _).mpr (hA k hk i hi c hc)
  rwa [Int.cast_natCast] at this

/-- LINEAR operations: if the residues of `r` are `e1·a ± e2·b` polynomial-wise (absent polynomials zero), so is its reading -/
theorem c02p_lift_tr {l : Level} (hl : l.WF) {a b r : Ct} (ha : c02v_PolysCanon l a) (hb : c02v_PolysCanon l b)
    {n1 n2 : Nat} (hn1 : n1 ≤ a.polys.size) (hn2 : n2 ≤ b.polys.size) (hsz : r.polys.size = max n1 n2)
    (hrc : ∀ k, k < r.polys.size → RnsCanon l (r.polys.getD k #[])) (sub : Bool) (e1 e2 : Int)
    (hres : ∀ k, k < max n1 n2 → ∀ i, i < l.size → ∀ j, j < l.n →
      ((r.c02v_res k i j : Nat) : ZMod (l.q i).value) =
        (if k < n1 then (e1 : ZMod (l.q i).value) * ((a.c02v_res k i j : Nat) : ZMod (l.q i).value) else 0) +
        (if k < n2 then (((if sub then -e2 else e2) : Int) : ZMod (l.q i).value) * ((b.c02v_res k i j : Nat) : ZMod (l.q i).value) else 0))
    {A B : Nat → Nat → Int} (hA : c02p_Lift l a A) (hB : c02p_Lift l b B) :
    c02p_Lift l r (c02p_trZ sub e1 e2 n1 n2 A B) := by
  intro k hk i hi c hc
  have hk' : k < max n1 n2 := by rw [← hsz]; exact hk
  apply (ZMod.intCast_eq_intCast_iff _ _ _).mp
  rw [Int.cast_natCast]
  unfold c02p_trZ
  have hr := hrc k hk
  by_cases h1 : k < n1 <;> by_cases h2 : k < n2
  · have := c02p_lin hl (ha.canon k (by omega)) (hb.canon k (by omega)) hr hi (e1 : ZMod (l.q i).value)
      (((if sub then -e2 else e2) : Int) : ZMod (l.q i).value)
      (fun j hj => by have := hres k hk' i hi j hj; rw [if_pos h1, if_pos h2] at this; exact this) c hc
    rw [if_pos h1, if_pos h2]
    push_cast
    rw [← c02p_lift_zmod hA (by omega) hi hc, ← c02p_lift_zmod hB (by omega) hi hc]
    unfold c02p_coef
    rw [this]
    push_cast
    rfl
  · have := c02p_lin hl (ha.canon k (by omega)) (ha.canon k (by omega)) hr hi (e1 : ZMod (l.q i).value) 0
      (fun j hj => by have := hres k hk' i hi j hj; rw [if_pos h1, if_neg h2] at this; unfold Ct.c02v_res at this; rw [this]; ring) c hc
    rw [if_pos h1, if_neg h2]
    push_cast
    rw [← c02p_lift_zmod hA (by omega) hi hc]
    unfold c02p_coef
    rw [this]
    ring
  · have := c02p_lin hl (hb.canon k (by omega)) (hb.canon k (by omega)) hr hi 0
      (((if sub then -e2 else e2) : Int) : ZMod (l.q i).value)
      (fun j hj => by have := hres k hk' i hi j hj; rw [if_neg h1, if_pos h2] at this; unfold Ct.c02v_res at this; rw [this]; ring) c hc
    rw [if_neg h1, if_pos h2]
    push_cast
    rw [← c02p_lift_zmod hB (by omega) hi hc]
    unfold c02p_coef
    rw [this]
    push_cast
    ring
  · omega

/-! ## casts of the residue formulas -/

theorem c02p_cast_sub {q : Nat} (u v : Nat) (hv : v ≤ u + q) :
    (((u + q - v) % q : Nat) : ZMod q) = (u : ZMod q) - (v : ZMod q) := by
  rw [ZMod.natCast_mod, Nat.cast_sub hv, Nat.cast_add, ZMod.natCast_self, add_zero]

theorem c02p_cast_neg {q : Nat} (v : Nat) (hv : v ≤ q) : (((q - v) % q : Nat) : ZMod q) = - (v : ZMod q) := by
  rw [ZMod.natCast_mod, Nat.cast_sub hv, ZMod.natCast_self, zero_sub]

end HC
