/-
  Translator phase 4h (app mode): the generated block searches / term lists COMPOSED with the C20 theorems about the model:
  ONE statement from the Rust source (regenerated on every run) to the mathematics.  Helper prefix `ga_`.
-/
import Heathcliff.Proofs.GenAppTerms2
import Heathcliff.Proofs.C20H
import Heathcliff.Proofs.C20I

namespace HC
open HC.MM HC.GenApp Finset

theorem ga_map_ok {α β : Type} {x : R α} {f : α → β} {y : β} (h : x.map f = .ok y) : ∃ a, x = .ok a ∧ f a = y := by
  cases x with
  | error e => simp [Except.map] at h
  | ok a => exact ⟨a, rfl, by simpa [Except.map] using h⟩

/-- **the GENERATED matmul block search returns admissible blocks** (no LWE packing): every shape with positive dimensions below 2^20,
    every `N ≥ 2`, every objective; `pe`, `cl` (the float inputs of the other branch) are irrelevant -/
theorem ga_mm_new_sound (bs id od N : Nat) (obj : Objective) (pe cl : Nat) (hN : 2 ≤ N) (hbs : 1 ≤ bs) (hid : 1 ≤ id) (hod : 1 ≤ od)
    (hsz : bs < 2^20 ∧ id < 2^20 ∧ od < 2^20) :
    ∃ H, mm_new bs id od N obj false pe cl = .ok H ∧
      H.batch_size = bs ∧ H.input_dims = id ∧ H.output_dims = od ∧ H.poly_degree = N ∧ H.pack_lwe = false ∧
      1 ≤ H.batch_block ∧ H.batch_block ≤ bs ∧ 1 ≤ H.input_block ∧ H.input_block ≤ id ∧ 1 ≤ H.output_block ∧ H.output_block ≤ od ∧
      H.batch_block * H.input_block * H.output_block ≤ N := by
  have heq := ga_mm_new_eq bs id od N obj pe cl hsz.1 hsz.2.1 hsz.2.2
  have hnew : Helper.new bs id od N obj false
      = .ok ⟨bs, id, od, (mmSearch N bs id od obj).b, (mmSearch N bs id od obj).i, (mmSearch N bs id od obj).o, N, false⟩ := by
    unfold Helper.new
    rw [if_neg (by omega)]
    rfl
  rw [hnew] at heq
  obtain ⟨H, hH, hto⟩ := ga_map_ok heq
  have hs := c20_mmSearch_sound N bs id od obj hN hbs hid hod hsz
  simp only [ga_toHelper, Helper.mk.injEq] at hto
  obtain ⟨e1, e2, e3, e4, e5, e6, e7, e8⟩ := hto
  refine ⟨H, hH, e1, e2, e3, e7, e8, ?_⟩
  rw [e4, e5, e6]
  exact hs

/-- ... with LWE packing, at the exact values of the two float expressions -/
theorem ga_mm_new_pack_sound (bs id od N : Nat) (obj : Objective) (pe cl : Nat) (hN : 1 ≤ N) (hN2 : N < 2^63) (hbs : 1 ≤ bs) (hid : 1 ≤ id)
    (hod : 1 ≤ od) (hsz : bs < 2^20 ∧ id < 2^20 ∧ od < 2^20) (hpe : pe = packExp N) (hcl : 2^cl = ceilTwoPower id) :
    ∃ H, mm_new bs id od N obj true pe cl = .ok H ∧
      H.batch_size = bs ∧ H.input_dims = id ∧ H.output_dims = od ∧ H.poly_degree = N ∧ H.pack_lwe = true ∧
      1 ≤ H.batch_block ∧ H.batch_block ≤ bs ∧ H.input_block = packI N id ∧ 1 ≤ H.input_block ∧ 1 ≤ H.output_block ∧ H.output_block ≤ od ∧
      H.batch_block * H.input_block * H.output_block ≤ N := by
  have heq := ga_mm_new_pack_eq bs id od N obj pe cl hN2 hsz.1 hsz.2.1 hsz.2.2 hpe hcl
  have hnew : Helper.new bs id od N obj true
      = .ok ⟨bs, id, od, (mmPackSearch N bs id od obj).b, (mmPackSearch N bs id od obj).i, (mmPackSearch N bs id od obj).o, N, true⟩ := by
    unfold Helper.new
    rw [if_neg (by omega)]
    rfl
  rw [hnew] at heq
  obtain ⟨H, hH, hto⟩ := ga_map_ok heq
  have hs := c20_mmPackSearch_sound N bs id od obj hN hbs hod hsz
  simp only [ga_toHelper, Helper.mk.injEq] at hto
  obtain ⟨e1, e2, e3, e4, e5, e6, e7, e8⟩ := hto
  refine ⟨H, hH, e1, e2, e3, e7, e8, ?_⟩
  rw [e4, e5, e6]
  exact hs

/-- **the GENERATED conv2d block search returns admissible blocks**: every admissible shape (kernel inside the image, `kh·kw ≤ N`,
    dimensions ≤ 2^15), every objective -/
theorem ga_cv_new_sound (S : ConvShape) (N : Nat) (obj : Objective) (hb : 1 ≤ S.b) (hci : 1 ≤ S.ci) (hco : 1 ≤ S.co)
    (hkh : 1 ≤ S.kh) (hkw : 1 ≤ S.kw) (hh : S.kh ≤ S.h) (hw : S.kw ≤ S.w) (hN : S.kh * S.kw ≤ N)
    (hsz : S.b ≤ 2^15 ∧ S.ci ≤ 2^15 ∧ S.co ≤ 2^15 ∧ S.h ≤ 2^15 ∧ S.w ≤ 2^15) :
    ∃ H, cv_new S.b S.ci S.co S.h S.w S.kh S.kw N obj = .ok H ∧ ga_toCHelper H = CHelper.new S N obj ∧
      1 ≤ H.batch_block ∧ H.batch_block ≤ S.b ∧ S.kh ≤ H.image_height_block ∧ H.image_height_block ≤ S.h ∧
      S.kw ≤ H.image_width_block ∧ H.image_width_block ≤ S.w ∧ 1 ≤ H.input_channel_block ∧ H.input_channel_block ≤ S.ci ∧
      1 ≤ H.output_channel_block ∧ H.output_channel_block ≤ S.co ∧
      H.input_channel_block * H.output_channel_block * H.image_width_block * H.image_height_block * H.batch_block ≤ N := by
  obtain ⟨H, hH, hto⟩ := ga_map_ok (ga_cv_new_eq S N obj hsz hkh hkw)
  have hs := c20_cvSearch_sound S N obj hb hci hco hkh hkw hh hw hN hsz
  refine ⟨H, hH, hto, ?_⟩
  have e : ga_toCHelper H = ⟨S, (cvSearch S N obj).b, (cvSearch S N obj).h, (cvSearch S N obj).w, (cvSearch S N obj).ci,
      (cvSearch S N obj).co, N⟩ := hto
  simp only [ga_toCHelper, CHelper.mk.injEq] at e
  obtain ⟨_, e2, e3, e4, e5, e6, _⟩ := e
  rw [e2, e3, e4, e5, e6]
  exact hs

/-- **source to mathematics, matmul**: the GENERATED `MatmulHelper::new` succeeds on every admissible shape, and with the blocks it
    returns the plaintext-level pipeline (encode inputs / weights, multiply-accumulate in S[X]/(X^n+1), decode) computes `x · w` -/
theorem ga_cheetah_matmul_search {S : Type} [CommRing S] (bs id od N : Nat) (obj : Objective) (pe cl : Nat) (hN : 2 ≤ N)
    (hbs : 1 ≤ bs) (hid : 1 ≤ id) (hodd : 1 ≤ od) (hsz : bs < 2^20 ∧ id < 2^20 ∧ od < 2^20) (x w : Nat → S) :
    ∃ H X W Y, mm_new bs id od N obj false pe cl = .ok H ∧ encodeInputs (ga_toHelper H) 0 x (bs * id) = .ok X ∧
      encodeWeights (ga_toHelper H) 0 w (id * od) = .ok W ∧
      decodeOutputs (ga_toHelper H) 0 (c20_mmEval (ga_toHelper H) X W) = .ok Y ∧ Y.size = bs * od ∧
      ∀ row col, row < bs → col < od → Y.getD (row * od + col) 0 = ∑ j ∈ range id, x (row * id + j) * w (j * od + col) := by
  obtain ⟨h, X, W, Y, hnew, hX, hW, hY, hs, hv⟩ := c20_cheetah_matmul_search bs id od N obj hN hbs hid hodd hsz x w
  have heq := ga_mm_new_eq bs id od N obj pe cl hsz.1 hsz.2.1 hsz.2.2
  rw [hnew] at heq
  obtain ⟨H, hH, hto⟩ := ga_map_ok heq
  subst hto
  exact ⟨H, X, W, Y, hH, hX, hW, hY, hs, hv⟩

/-- **source to mathematics, conv2d**: with the blocks the GENERATED `Conv2dHelper::new` returns, the plaintext-level pipeline computes the
    valid cross-correlation -/
theorem ga_conv2d_search {S : Type} [CommRing S] (Sh : ConvShape) (N : Nat) (obj : Objective) (hb : 1 ≤ Sh.b) (hci : 1 ≤ Sh.ci)
    (hco : 1 ≤ Sh.co) (hkh : 1 ≤ Sh.kh) (hkw : 1 ≤ Sh.kw) (hh : Sh.kh ≤ Sh.h) (hw : Sh.kw ≤ Sh.w) (hN : Sh.kh * Sh.kw ≤ N)
    (hsz : Sh.b ≤ 2^15 ∧ Sh.ci ≤ 2^15 ∧ Sh.co ≤ 2^15 ∧ Sh.h ≤ 2^15 ∧ Sh.w ≤ 2^15) (x w : Nat → S) :
    ∃ H X Wt Y, cv_new Sh.b Sh.ci Sh.co Sh.h Sh.w Sh.kh Sh.kw N obj = .ok H ∧
      cvEncodeInputs (ga_toCHelper H) 0 x (Sh.b * Sh.ci * Sh.h * Sh.w) = .ok X ∧
      cvEncodeWeights (ga_toCHelper H) 0 w (Sh.kh * Sh.kw * Sh.ci * Sh.co) = .ok Wt ∧
      cvDecodeOutputs (ga_toCHelper H) 0 (c20_cvEval (ga_toCHelper H) X Wt) = .ok Y ∧
      Y.size = Sh.b * Sh.co * (Sh.h - Sh.kh + 1) * (Sh.w - Sh.kw + 1) ∧
      ∀ b c i j, b < Sh.b → c < Sh.co → i < Sh.h - Sh.kh + 1 → j < Sh.w - Sh.kw + 1 →
        Y.getD (b * Sh.co * (Sh.h - Sh.kh + 1) * (Sh.w - Sh.kw + 1) + c * (Sh.h - Sh.kh + 1) * (Sh.w - Sh.kw + 1)
            + i * (Sh.w - Sh.kw + 1) + j) 0 = c20_xcorr Sh x w b c i j := by
  obtain ⟨H, hH, hto⟩ := ga_map_ok (ga_cv_new_eq Sh N obj hsz hkh hkw)
  obtain ⟨X, Wt, Y, hX, hW, hY, hs, hv⟩ := c20_conv2d_search Sh N obj hb hci hco hkh hkw hh hw hN hsz x w
  rw [← hto] at hX hW hY
  exact ⟨H, X, Wt, Y, hH, hX, hW, hY, hs, hv⟩

/-- the term lists of the helper the GENERATED search returns: both generated list functions succeed and equal the model's lists -/
theorem ga_mm_terms_of_new (bs id od N : Nat) (obj : Objective) (pe cl : Nat) (hN : 2 ≤ N) (hN2 : N < 2^64) (hbs : 1 ≤ bs) (hid : 1 ≤ id)
    (hod : 1 ≤ od) (hsz : bs < 2^20 ∧ id < 2^20 ∧ od < 2^20) :
    ∃ H, mm_new bs id od N obj false pe cl = .ok H ∧ mm_output_terms H = .ok (outputTerms (ga_toHelper H)) ∧
      mm_input_terms H = .ok (inputTerms (ga_toHelper H)) ∧
      ∀ db dj, db < H.batch_block → dj < H.output_block → outPos (ga_toHelper H) db dj ∈ outputTerms (ga_toHelper H) := by
  obtain ⟨H, hH, _, _, _, _, _, hb1, _, hi1, _, ho1, _, hfit⟩ := ga_mm_new_sound bs id od N obj pe cl hN hbs hid hod hsz
  refine ⟨H, hH, ga_mm_output_terms_eq H (by omega) hi1, ga_mm_input_terms_eq H (by omega) ho1, ?_⟩
  intro db dj hdb hdj
  exact List.mem_map.mpr ⟨(db, dj), by simp [pairs, List.mem_flatMap, ga_toHelper]; exact ⟨hdb, hdj⟩, rfl⟩

/-- the output term list of the helper the GENERATED conv2d search returns: the generated list function succeeds and equals the model's list -/
theorem ga_cv_terms_of_new (S : ConvShape) (N : Nat) (obj : Objective) (hN2 : N < 2^64) (hb : 1 ≤ S.b) (hci : 1 ≤ S.ci) (hco : 1 ≤ S.co)
    (hkh : 1 ≤ S.kh) (hkw : 1 ≤ S.kw) (hh : S.kh ≤ S.h) (hw : S.kw ≤ S.w) (hN : S.kh * S.kw ≤ N)
    (hsz : S.b ≤ 2^15 ∧ S.ci ≤ 2^15 ∧ S.co ≤ 2^15 ∧ S.h ≤ 2^15 ∧ S.w ≤ 2^15) :
    ∃ H, cv_new S.b S.ci S.co S.h S.w S.kh S.kw N obj = .ok H ∧ cv_output_terms H = .ok (cvOutputTerms (ga_toCHelper H)) := by
  obtain ⟨H, hH, hto, b1, _, h1, _, w1, _, ci1, _, co1, _, hfit⟩ := ga_cv_new_sound S N obj hb hci hco hkh hkw hh hw hN hsz
  have e : ga_toCHelper H = ⟨S, (cvSearch S N obj).b, (cvSearch S N obj).h, (cvSearch S N obj).w, (cvSearch S N obj).ci,
      (cvSearch S N obj).co, N⟩ := hto
  simp only [ga_toCHelper, CHelper.mk.injEq] at e
  obtain ⟨eS, _⟩ := e
  have ekh : H.kernel_height = S.kh := by rw [← eS]
  have ekw : H.kernel_width = S.kw := by rw [← eS]
  refine ⟨H, hH, ga_cv_output_terms_eq H (by omega) (by omega) (by omega) (by omega) b1 ci1 co1 ?_⟩
  have : H.batch_block * H.input_channel_block * H.output_channel_block * (H.image_height_block * H.image_width_block)
      = H.input_channel_block * H.output_channel_block * H.image_width_block * H.image_height_block * H.batch_block := by ring
  omega

end HC
