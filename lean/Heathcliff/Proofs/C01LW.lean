/- C01 part L, non-vacuity: concrete two-level worlds built by the driver's own constructor `Drv.Sch.mkLevel`
   (N = 4, previous level q = {97, 113, 193}, level q = {97, 113}; t = 17 for BFV / BGV, t = 101 for the multi-word BGV lift, CKKS),
   with a GENUINE public key produced by the model's key generation.  Every hypothesis bundle of C01F–C01L is inhabited. -/
import Heathcliff.Proofs.C01L
import Heathcliff.Proofs.C01Q
namespace HC
open Finset

deriving instance DecidableEq for Modulus
deriving instance DecidableEq for MulOperand
deriving instance DecidableEq for NTTTables

/-- the level the driver builds -/
def c01w_lv (s : Scheme) (qs : List Nat) (t : Nat) : Level := (Drv.Sch.mkLevel s 4 qs t).toOption.getD default

theorem c01w_lv_ok (s : Scheme) (qs : List Nat) (t : Nat) (h : (Drv.Sch.mkLevel s 4 qs t).toOption.isSome = true) :
    Drv.Sch.mkLevel s 4 qs t = .ok (c01w_lv s qs t) := by
  unfold c01w_lv
  cases hl : Drv.Sch.mkLevel s 4 qs t with
  | error e => rw [hl] at h; cases h
  | ok l => rfl

def c01w_pl (s : Scheme) (t : Nat) : Level := c01w_lv s [97, 113, 193] t
def c01w_l (s : Scheme) (t : Nat) : Level := c01w_lv s [97, 113] t

theorem c01w_pl_ok_bfv : Drv.Sch.mkLevel .bfv 4 [97, 113, 193] 17 = .ok (c01w_pl .bfv 17) := c01w_lv_ok _ _ _ (by decide +kernel)
theorem c01w_l_ok_bfv : Drv.Sch.mkLevel .bfv 4 [97, 113] 17 = .ok (c01w_l .bfv 17) := c01w_lv_ok _ _ _ (by decide +kernel)

theorem c01w_prev_bfv : PrevLevelOK (c01w_pl .bfv 17) (c01w_l .bfv 17) := by
  obtain ⟨a1, a2, a3, a4, a5, a6, a7, a8, a9⟩ := mkLevel_ok c01w_pl_ok_bfv
  obtain ⟨b1, b2, b3, b4, b5, b6, b7, b8, b9⟩ := mkLevel_ok c01w_l_ok_bfv
  exact ⟨a1, a2, a3, by decide +kernel, fun _ => (a4 (by decide)).2, by rw [a9]; decide, b2, b3,
    ⟨by decide +kernel, by rw [a6, b6], by decide +kernel⟩, by decide +kernel, by rw [a5, b5], by decide +kernel⟩

/-! ### key material (shared): secret 1 − X² + X³, mask and error of the public key, drawn u, e0, e1 -/

def c01w_sk : Array Int := #[1, 0, -1, 1]
def c01w_a : RnsPoly := #[#[5, 96, 3, 0], #[112, 7, 0, 1], #[100, 3, 192, 17]]
def c01w_epk : Array Int := #[1, -2, 0, 3]
def c01w_u : Array Int := #[1, 0, -1, 1]
def c01w_e0 : Array Int := #[-3, 21, 0, 2]
def c01w_e1 : Array Int := #[4, -21, 1, 0]
def c01w_plain : Poly := #[3, 16, 0, 9]

/-- polynomial 0 of the public key the model's key generation produces at level `kl` -/
def c01w_pk0 (kl : Level) : RnsPoly :=
  ((genPublicKey kl c01w_sk (c01w_a.extract 0 kl.size) (rnsOfInt kl c01w_epk) false).toOption.map (fun c => c.polys.getD 0 #[])).getD #[]

@[instance_reducible] def c01w_decRnsCanon (l : Level) (p : RnsPoly) : Decidable (RnsCanon l p) :=
  inferInstanceAs (Decidable (p.size = l.size ∧ ∀ i, i < l.size → (p.getD i #[]).size = l.n ∧
    ∀ j, j < l.n → (p.getD i #[]).getD j 0 < (l.q i).value))
@[instance_reducible] def c01w_decWFOp (m : Modulus) (o : MulOperand) : Decidable (WFOp m o) :=
  inferInstanceAs (Decidable (o.operand < m.value ∧ o.quotient = o.operand * 2^64 / m.value))
attribute [local instance] c01w_decRnsCanon c01w_decWFOp

/-- the generated key satisfies `PkRel` (by the THEOREM `genPublicKey_pkRel`, not by evaluation) -/
theorem c01w_pkRel {kl : Level} (hl : kl.WF) (ht : kl.t.value < 2^64) (hn : c01w_sk.size = kl.n) (hen : c01w_epk.size = kl.n)
    (ha : RnsCanon kl (c01w_a.extract 0 kl.size)) :
    PkRel kl c01w_sk (fun c => (encTT kl : Int) * (fun p => c01w_epk.getD p 0) c) (c01w_pk0 kl) (c01w_a.extract 0 kl.size) := by
  obtain ⟨pk0, h, -, hrel⟩ := genPublicKey_pkRel hl ht hn ha hen false
  have : c01w_pk0 kl = pk0 := by unfold c01w_pk0; rw [h]; rfl
  rw [this]; exact hrel

theorem c01w_epk_bound (n : Nat) : ∀ p, p < n → ((fun p => c01w_epk.getD p 0) p).natAbs ≤ 21 := by
  intro p _
  by_cases hp : p < 4
  · interval_cases p <;> decide
  · have : c01w_epk.getD p 0 = 0 := by simp [Array.getD, c01w_epk]; omega
    simp [this]

/-! ### BFV through the special prime -/

def c01w_cdp : Array MulOperand := #[⟨62, 11790702397628785568⟩, ⟨79, 12896396299319067058⟩]

theorem c01w_Q_bfv : Spec.prodL (c01p_qvals (c01w_l .bfv 17)) = 10961 := by
  rw [(mkLevel_ok c01w_l_ok_bfv).2.2.2.2.2.2.2.1]; decide

theorem c01w_scalingOK : ScalingOK (c01w_l .bfv 17) (Spec.prodL (c01p_qvals (c01w_l .bfv 17))) c01w_cdp := by
  obtain ⟨b1, b2, b3, b4, b5, b6, b7, b8, b9⟩ := mkLevel_ok c01w_l_ok_bfv
  rw [c01w_Q_bfv]
  refine ⟨fun j hj => (c01o_level_comp b1 hj).2.2.2, by rw [b9]; decide, by rw [b9]; decide, by decide +kernel, ?_⟩
  rw [b9]
  have hsz : (c01w_l .bfv 17).size = 2 := by decide +kernel
  intro j hj
  rw [hsz] at hj
  interval_cases j <;> exact ⟨by decide +kernel, by decide +kernel⟩

/-- NON-VACUITY of `bfv_encrypt_decrypt_pk_sp` (and of `PrevLevelOK`, `encryptZeroInternal_fresh_pk_prev(_bounded)`,
    `encDivideQLast_fresh`, `genPublicKey_pkRel`): all hypotheses hold simultaneously in the concrete world, hence the conclusion -/
theorem c01w_bfv_sp_hypotheses_satisfiable :
    ∃ ct, bfvEncrypt (c01w_l .bfv 17) c01w_cdp (Spec.prodL (c01p_qvals (c01w_l .bfv 17)) % (c01w_l .bfv 17).t.value)
        (((c01w_l .bfv 17).t.value + 1) / 2)
        (.asym (some (c01w_pl .bfv 17)) #[c01w_pk0 (c01w_pl .bfv 17), c01w_a.extract 0 (c01w_pl .bfv 17).size]
          (rnsOfInt (c01w_pl .bfv 17) c01w_u) #[rnsOfInt (c01w_pl .bfv 17) c01w_e0, rnsOfInt (c01w_pl .bfv 17) c01w_e1]) c01w_plain
        = .ok ct ∧
      bfvDecrypt (c01w_l .bfv 17) c01w_sk ct = .ok (trimPlain (padPlain (c01w_l .bfv 17).n c01w_plain)) := by
  obtain ⟨a1, a2, a3, a4, a5, a6, a7, a8, a9⟩ := mkLevel_ok c01w_pl_ok_bfv
  obtain ⟨b1, b2, b3, b4, b5, b6, b7, b8, b9⟩ := mkLevel_ok c01w_l_ok_bfv
  have hrel := c01w_pkRel a1 (by rw [a9]; decide) (by rw [a6]; rfl) (by rw [a6]; rfl) (by decide +kernel)
  refine bfv_encrypt_decrypt_pk_sp c01w_prev_bfv b1 (b4 (by decide)).1 b5 c01w_scalingOK (by rw [b6]; rfl)
    (by rw [b6]; decide) hrel (c01w_epk_bound _) (by rw [a6]; rfl) (by rw [a6]; rfl) (by rw [a6]; rfl)
    (by rw [b6]; decide) (by rw [b6]; decide) (by rw [b6]; decide) (by rw [b6]; decide) (by rw [b9]; decide) ?_
  unfold FreshEncOK
  decide +kernel

/-! ### BGV: public key (fast lift), through the special prime, secret key with the multi-word lift (t = 101 > q_0) -/

theorem c01w_pl_ok_bgv : Drv.Sch.mkLevel .bgv 4 [97, 113, 193] 17 = .ok (c01w_pl .bgv 17) := c01w_lv_ok _ _ _ (by decide +kernel)
theorem c01w_l_ok_bgv : Drv.Sch.mkLevel .bgv 4 [97, 113] 17 = .ok (c01w_l .bgv 17) := c01w_lv_ok _ _ _ (by decide +kernel)
theorem c01w_l_ok_bgv101 : Drv.Sch.mkLevel .bgv 4 [97, 113] 101 = .ok (c01w_l .bgv 101) := c01w_lv_ok _ _ _ (by decide +kernel)

theorem c01w_prev_bgv : PrevLevelOK (c01w_pl .bgv 17) (c01w_l .bgv 17) := by
  obtain ⟨a1, a2, a3, a4, a5, a6, a7, a8, a9⟩ := mkLevel_ok c01w_pl_ok_bgv
  obtain ⟨b1, b2, b3, b4, b5, b6, b7, b8, b9⟩ := mkLevel_ok c01w_l_ok_bgv
  exact ⟨a1, a2, a3, by decide +kernel, fun _ => (a4 (by decide)).2, by rw [a9]; decide, b2, b3,
    ⟨by decide +kernel, by rw [a6, b6], by decide +kernel⟩, by decide +kernel, by rw [a5, b5], by decide +kernel⟩

theorem c01w_liftOK_fast : BgvLiftOK (c01w_l .bgv 17) true 9 #[80, 96] := by unfold BgvLiftOK; decide +kernel
theorem c01w_liftOK_multiword : BgvLiftOK (c01w_l .bgv 101) false 51 #[10860, 0] := by unfold BgvLiftOK; decide +kernel

/-- NON-VACUITY of `bgv_encrypt_decrypt_pk` (fast plaintext lift) -/
theorem c01w_bgv_pk_hypotheses_satisfiable :
    ∃ ct, bgvEncrypt (c01w_l .bgv 17) true 9 #[80, 96]
        (.asym none #[c01w_pk0 (c01w_l .bgv 17), c01w_a.extract 0 (c01w_l .bgv 17).size]
          (rnsOfInt (c01w_l .bgv 17) c01w_u) #[rnsOfInt (c01w_l .bgv 17) c01w_e0, rnsOfInt (c01w_l .bgv 17) c01w_e1]) c01w_plain = .ok ct ∧
      ct.cf = 1 ∧ bgvDecrypt (c01w_l .bgv 17) c01w_sk ct = .ok (trimPlain (padPlain (c01w_l .bgv 17).n c01w_plain)) := by
  obtain ⟨b1, b2, b3, b4, b5, b6, b7, b8, b9⟩ := mkLevel_ok c01w_l_ok_bgv
  have hrel := c01w_pkRel b1 (by rw [b9]; decide) (by rw [b6]; rfl) (by rw [b6]; rfl) (by decide +kernel)
  exact bgv_encrypt_decrypt_pk b1 (b4 (by decide)).1 b5 c01w_liftOK_fast (by rw [b6]; rfl)
    (by rw [b6]; decide) hrel (c01w_epk_bound _) (by rw [b6]; rfl) (by rw [b6]; rfl) (by rw [b6]; rfl)
    (by rw [b6]; decide) (by rw [b6]; decide) (by rw [b6]; decide) (by rw [b6]; decide) (by rw [b9]; decide)
    (by unfold FreshEncOKBgv; decide +kernel)

/-- NON-VACUITY of `bgv_encrypt_decrypt_pk_sp` -/
theorem c01w_bgv_sp_hypotheses_satisfiable :
    ∃ ct, bgvEncrypt (c01w_l .bgv 17) true 9 #[80, 96]
        (.asym (some (c01w_pl .bgv 17)) #[c01w_pk0 (c01w_pl .bgv 17), c01w_a.extract 0 (c01w_pl .bgv 17).size]
          (rnsOfInt (c01w_pl .bgv 17) c01w_u) #[rnsOfInt (c01w_pl .bgv 17) c01w_e0, rnsOfInt (c01w_pl .bgv 17) c01w_e1]) c01w_plain
        = .ok ct ∧
      ct.cf = 1 ∧ bgvDecrypt (c01w_l .bgv 17) c01w_sk ct = .ok (trimPlain (padPlain (c01w_l .bgv 17).n c01w_plain)) := by
  obtain ⟨a1, a2, a3, a4, a5, a6, a7, a8, a9⟩ := mkLevel_ok c01w_pl_ok_bgv
  obtain ⟨b1, b2, b3, b4, b5, b6, b7, b8, b9⟩ := mkLevel_ok c01w_l_ok_bgv
  have hrel := c01w_pkRel a1 (by rw [a9]; decide) (by rw [a6]; rfl) (by rw [a6]; rfl) (by decide +kernel)
  exact bgv_encrypt_decrypt_pk_sp c01w_prev_bgv b1 (b4 (by decide)).1 b5 c01w_liftOK_fast (by rw [b6]; rfl)
    (by rw [b6]; decide) hrel (c01w_epk_bound _) (by rw [a6]; rfl) (by rw [a6]; rfl) (by rw [a6]; rfl)
    (by rw [b6]; decide) (by rw [b6]; decide) (by rw [b6]; decide) (by rw [b6]; decide) (by rw [b9]; decide)
    (by unfold FreshEncOKBgv; decide +kernel)

def c01w_plain101 : Poly := #[3, 100, 50, 51]
def c01w_esmall : Array Int := #[1, -1, 0, 1]

/-- NON-VACUITY of `bgv_encrypt_decrypt_sk` with the MULTI-WORD plaintext lift (t = 101 ≥ q_0 = 97), both seed variants -/
theorem c01w_bgv_sk_hypotheses_satisfiable (saveSeed : Bool) :
    ∃ ct, bgvEncrypt (c01w_l .bgv 101) false 51 #[10860, 0]
        (.sym c01w_sk (c01w_a.extract 0 (c01w_l .bgv 101).size) (rnsOfInt (c01w_l .bgv 101) c01w_esmall) saveSeed) c01w_plain101 = .ok ct ∧
      ct.cf = 1 ∧ bgvDecrypt (c01w_l .bgv 101) c01w_sk ct = .ok (trimPlain (padPlain (c01w_l .bgv 101).n c01w_plain101)) := by
  obtain ⟨b1, b2, b3, b4, b5, b6, b7, b8, b9⟩ := mkLevel_ok c01w_l_ok_bgv101
  exact bgv_encrypt_decrypt_sk b1 (b4 (by decide)).1 b5 c01w_liftOK_multiword (by rw [b6]; rfl) (by decide +kernel)
    (by rw [b6]; rfl) (B := 1) (by rw [b6]; decide) saveSeed (by rw [b6]; decide) (by rw [b9]; decide)
    (by unfold FreshEncOKBgv; decide +kernel)

/-! ### CKKS -/

theorem c01w_pl_ok_ckks : Drv.Sch.mkLevel .ckks 4 [97, 113, 193] 0 = .ok (c01w_pl .ckks 0) := c01w_lv_ok _ _ _ (by decide +kernel)
theorem c01w_l_ok_ckks : Drv.Sch.mkLevel .ckks 4 [97, 113] 0 = .ok (c01w_l .ckks 0) := c01w_lv_ok _ _ _ (by decide +kernel)

theorem c01w_prev_ckks : PrevLevelOK (c01w_pl .ckks 0) (c01w_l .ckks 0) := by
  obtain ⟨a1, a2, a3, a4, a5, a6, a7, a8, a9⟩ := mkLevel_ok c01w_pl_ok_ckks
  obtain ⟨b1, b2, b3, b4, b5, b6, b7, b8, b9⟩ := mkLevel_ok c01w_l_ok_ckks
  exact ⟨a1, a2, a3, by decide +kernel, fun h => absurd (a5.symm.trans h) (by decide), by rw [a9]; decide, b2, b3,
    ⟨by decide +kernel, by rw [a6, b6], by decide +kernel⟩, by decide +kernel, by rw [a5, b5], by decide +kernel⟩

def c01w_ckksPlain : RnsPoly := #[#[1, 2, 3, 4], #[5, 6, 7, 8]]

/-- NON-VACUITY of `ckks_encrypt_decrypt_pk_sp` -/
theorem c01w_ckks_sp_hypotheses_satisfiable :
    ∃ (ν : Nat → Int) (ct : Ct) (dec : RnsPoly),
      (∀ c, c < (c01w_l .ckks 0).n → (ν c).natAbs ≤
        spBound ((c01w_pl .ckks 0).q ((c01w_pl .ckks 0).size - 1)).value (21 * (2 * (c01w_l .ckks 0).n + 1)) 1 (c01w_l .ckks 0).n) ∧
      ckksEncrypt (c01w_l .ckks 0)
        (.asym (some (c01w_pl .ckks 0)) #[c01w_pk0 (c01w_pl .ckks 0), c01w_a.extract 0 (c01w_pl .ckks 0).size]
          (rnsOfInt (c01w_pl .ckks 0) c01w_u) #[rnsOfInt (c01w_pl .ckks 0) c01w_e0, rnsOfInt (c01w_pl .ckks 0) c01w_e1])
        c01w_ckksPlain = .ok ct ∧
      ckksDecrypt (c01w_l .ckks 0) c01w_sk ct = .ok dec ∧ RnsCanon (c01w_l .ckks 0) dec ∧
      ∀ i, i < (c01w_l .ckks 0).size → ∀ c, c < (c01w_l .ckks 0).n →
        (((intt ((c01w_l .ckks 0).tbl i) (dec.getD i #[])).getD c 0 : Nat) : Int) ≡
          (((intt ((c01w_l .ckks 0).tbl i) (c01w_ckksPlain.getD i #[])).getD c 0 : Nat) : Int) + ν c
          [ZMOD (((c01w_l .ckks 0).q i).value : Int)] := by
  obtain ⟨a1, a2, a3, a4, a5, a6, a7, a8, a9⟩ := mkLevel_ok c01w_pl_ok_ckks
  obtain ⟨b1, b2, b3, b4, b5, b6, b7, b8, b9⟩ := mkLevel_ok c01w_l_ok_ckks
  have hrel := c01w_pkRel a1 (by rw [a9]; decide) (by rw [a6]; rfl) (by rw [a6]; rfl) (by decide +kernel)
  exact ckks_encrypt_decrypt_pk_sp c01w_prev_ckks b1 b5 (by rw [b6]; rfl)
    (by rw [b6]; decide) hrel (c01w_epk_bound _) (by rw [a6]; rfl) (by rw [a6]; rfl) (by rw [a6]; rfl)
    (by rw [b6]; decide) (by rw [b6]; decide) (by rw [b6]; decide) (by decide +kernel)

/-- NON-VACUITY of `ckks_encrypt_decrypt_sk` / `ckks_encrypt_decrypt_pk` hypotheses (level bundles, canonical plaintext) -/
theorem c01w_ckks_sk_hypotheses_satisfiable (saveSeed : Bool) :
    ∃ (ct : Ct) (dec : RnsPoly),
      ckksEncrypt (c01w_l .ckks 0) (.sym c01w_sk (c01w_a.extract 0 (c01w_l .ckks 0).size) (rnsOfInt (c01w_l .ckks 0) c01w_esmall) saveSeed)
        c01w_ckksPlain = .ok ct ∧
      ckksDecrypt (c01w_l .ckks 0) c01w_sk ct = .ok dec ∧ RnsCanon (c01w_l .ckks 0) dec ∧
      ∀ i, i < (c01w_l .ckks 0).size → ∀ c, c < (c01w_l .ckks 0).n →
        (((intt ((c01w_l .ckks 0).tbl i) (dec.getD i #[])).getD c 0 : Nat) : Int) ≡
          (((intt ((c01w_l .ckks 0).tbl i) (c01w_ckksPlain.getD i #[])).getD c 0 : Nat) : Int) + - c01w_esmall.getD c 0
          [ZMOD (((c01w_l .ckks 0).q i).value : Int)] := by
  obtain ⟨b1, b2, b3, b4, b5, b6, b7, b8, b9⟩ := mkLevel_ok c01w_l_ok_ckks
  exact ckks_encrypt_decrypt_sk b1 b2 b3 b5 (by rw [b9]; decide) (by rw [b6]; rfl) (by decide +kernel) (by rw [b6]; rfl) saveSeed
    (by decide +kernel)

/-- NON-VACUITY of `ckks_encrypt_decrypt_pk` (level without a previous level) -/
theorem c01w_ckks_pk_hypotheses_satisfiable :
    ∃ (ν : Nat → Int) (ct : Ct) (dec : RnsPoly), (∀ c, c < (c01w_l .ckks 0).n → (ν c).natAbs ≤ 21 * (2 * (c01w_l .ckks 0).n + 1)) ∧
      ckksEncrypt (c01w_l .ckks 0)
        (.asym none #[c01w_pk0 (c01w_l .ckks 0), c01w_a.extract 0 (c01w_l .ckks 0).size]
          (rnsOfInt (c01w_l .ckks 0) c01w_u) #[rnsOfInt (c01w_l .ckks 0) c01w_e0, rnsOfInt (c01w_l .ckks 0) c01w_e1])
        c01w_ckksPlain = .ok ct ∧
      ckksDecrypt (c01w_l .ckks 0) c01w_sk ct = .ok dec ∧ RnsCanon (c01w_l .ckks 0) dec ∧
      ∀ i, i < (c01w_l .ckks 0).size → ∀ c, c < (c01w_l .ckks 0).n →
        (((intt ((c01w_l .ckks 0).tbl i) (dec.getD i #[])).getD c 0 : Nat) : Int) ≡
          (((intt ((c01w_l .ckks 0).tbl i) (c01w_ckksPlain.getD i #[])).getD c 0 : Nat) : Int) + ν c
          [ZMOD (((c01w_l .ckks 0).q i).value : Int)] := by
  obtain ⟨b1, b2, b3, b4, b5, b6, b7, b8, b9⟩ := mkLevel_ok c01w_l_ok_ckks
  have hrel := c01w_pkRel b1 (by rw [b9]; decide) (by rw [b6]; rfl) (by rw [b6]; rfl) (by decide +kernel)
  exact ckks_encrypt_decrypt_pk b1 b2 b3 b5 (by rw [b9]; decide) (by rw [b6]; rfl)
    (by rw [b6]; decide) hrel (c01w_epk_bound _) (by rw [b6]; rfl) (by rw [b6]; rfl) (by rw [b6]; rfl)
    (by rw [b6]; decide) (by rw [b6]; decide) (by rw [b6]; decide) (by decide +kernel)

/-- NON-VACUITY of `LevelPrefix` / `PkRel.lower`: the relation of the key generated at the previous level {97, 113, 193} holds at the
    level {97, 113} for the same key polynomials (what `encrypt_zero_at` uses at a lower level) -/
theorem c01w_pkRel_lower :
    PkRel (c01w_l .bfv 17) c01w_sk (fun c => (encTT (c01w_pl .bfv 17) : Int) * (fun p => c01w_epk.getD p 0) c)
      (c01w_pk0 (c01w_pl .bfv 17)) (c01w_a.extract 0 (c01w_pl .bfv 17).size) := by
  obtain ⟨a1, a2, a3, a4, a5, a6, a7, a8, a9⟩ := mkLevel_ok c01w_pl_ok_bfv
  exact PkRel.lower c01w_prev_bfv.levelPrefix
    (c01w_pkRel a1 (by rw [a9]; decide) (by rw [a6]; rfl) (by rw [a6]; rfl) (by decide +kernel))

end HC
