import Heathcliff.Proofs.GenContext2
import Heathcliff.Proofs.GenScalingSpec

/-!
  Round 7 (worker T): composition of the two translator ties on the BFV scaling constants.  The constants GENERATED from `HeContext::validate`
  (`GenX.validate_bfv_consts`, Gen/ContextFns.lean) are exactly the context inputs under which the code GENERATED from
  `scaling_variant::multiply_add_plain` (Gen/ScalingFns.lean) adds `Δ(m) = round(Q·m/t)`: `ScalingOK` holds for them.  Helper names `gcx_`.
-/
namespace HC
open HC.GenW HC.Ctx

theorem gcx_getD_eq {α : Type} (l : List α) (i : Nat) (d : α) (h : i < l.length) : l.getD i d = l[i] := by
  simp [List.getD, h]

/-- the value list of a level's moduli -/
def gcx_vals (l : Level) : List Nat := l.qs.toList.map (·.value)

theorem gcx_scalingOK {l : Level} {cdp : Array MulOperand} {ops uhi puhi : List Nat} {fast qmt puht : Nat} {c0 u0 p0 : List Nat}
    (hw : ∀ m ∈ l.qs.toList, m.WF) (hk : 1 ≤ l.size) (ht2 : 2 ≤ l.t.value) (ht61 : l.t.value < 2^61)
    (htQ : l.t.value < prodL (gcx_vals l))
    (hgen : GenX.validate_bfv_consts l.qs.toList l.t.value (fromNat l.size (prodL (gcx_vals l))) c0 u0 p0 = .ok (ops, uhi, puhi, fast, qmt, puht))
    (hsz : l.size ≤ cdp.size)
    (hcdp : ∀ j, j < l.size → GenW.mulop_new (ops.getD j 0) (l.q j) = .ok (cdp.getD j default)) :
    ScalingOK l (prodL (gcx_vals l)) cdp ∧ puht = (l.t.value + 1) / 2 ∧ qmt = prodL (gcx_vals l) % l.t.value := by
  have hlen : (gcx_vals l).length = l.size := by unfold gcx_vals Level.size; simp
  have hq64 : ∀ q ∈ gcx_vals l, q < 2^64 := by
    intro q hq
    obtain ⟨m, hm, rfl⟩ := List.mem_map.mp hq
    have := (hw m hm).lt; omega
  have hdq : prodL (gcx_vals l) / l.t.value < prodL (gcx_vals l) := Nat.div_lt_self (by omega) (by omega)
  have hv := gcx_validate_bfv_consts_values (ms := l.qs.toList) (qs := gcx_vals l) (t := l.t.value) (c0 := c0) (u0 := u0) (p0 := p0)
    rfl hw (by omega) (by omega) (by omega) (by omega)
  rw [hlen, hgen, ← hlen, gcx_dec_eq (by omega) hq64 (fun _ => hdq)] at hv
  injection hv with hv
  have hops : ops = (gcx_vals l).map (fun q => prodL (gcx_vals l) / l.t.value % q) := (Prod.mk.inj hv).1
  have hrest := (Prod.mk.inj (Prod.mk.inj (Prod.mk.inj (Prod.mk.inj hv).2).2).2).2
  refine ⟨⟨?_, ht2, ht61, hsz, ?_⟩, (Prod.mk.inj hrest).2, (Prod.mk.inj hrest).1⟩
  · intro j hj
    have hj' : j < l.qs.toList.length := by simpa [Level.size] using hj
    have : l.q j = l.qs.toList[j] := by
      unfold Level.q; rw [← gz_toList_getD, gcx_getD_eq _ _ _ hj']
    rw [this]; exact hw _ (List.getElem_mem hj')
  · intro j hj
    have hj' : j < l.qs.toList.length := by simpa [Level.size] using hj
    have hqj : l.q j = l.qs.toList[j] := by
      unfold Level.q; rw [← gz_toList_getD, gcx_getD_eq _ _ _ hj']
    have hwf := hw _ (List.getElem_mem hj')
    rw [← hqj] at hwf
    have hop : ops.getD j 0 = prodL (gcx_vals l) / l.t.value % (l.q j).value := by
      rw [hops, gcx_getD_eq _ _ _ (by rw [List.length_map, hlen]; exact hj), List.getElem_map]
      unfold gcx_vals; rw [List.getElem_map, hqj]
    have hy : ops.getD j 0 < (l.q j).value := by rw [hop]; exact Nat.mod_lt _ (by have := hwf.two_le; omega)
    have h61 := hwf.lt
    have hnew := hcdp j hj
    rw [gx_mulop_new_eq _ _ (by omega)] at hnew
    unfold MulOperand.new at hnew
    rw [if_neg (by have := hwf.two_le; omega)] at hnew
    have hlt : ops.getD j 0 * B64 / (l.q j).value < B64 := Nat.div_lt_of_lt_mul (Nat.mul_lt_mul_of_pos_right hy B64_pos)
    simp only [pure, Except.pure, Nat.mod_eq_of_lt hlt] at hnew
    injection hnew with hnew
    rw [← hnew]
    exact ⟨⟨hy, rfl⟩, hop⟩

/-- **from the source of `validate` to the source of `multiply_add_plain`**: with the context constants produced by the code generated from
    `HeContext::validate` (operands `ops` turned into `MultiplyU64ModOperand`s by the generated `MultiplyU64ModOperand::new`, threshold `puht`,
    remainder `qmt`), the code generated from `multiply_add_plain` adds `Δ(m_i) = round(Q·m_i/t)` modulo `q_j` to coefficient `i` of component `j` -/
theorem gcx_multiply_add_plain_with_validated_constants {l : Level} {cdp : Array MulOperand} {ops uhi puhi : List Nat} {fast qmt puht : Nat}
    {c0 u0 p0 : List Nat}
    (hw : ∀ m ∈ l.qs.toList, m.WF) (hk : 1 ≤ l.size) (ht2 : 2 ≤ l.t.value) (ht61 : l.t.value < 2^61)
    (htQ : l.t.value < prodL (gcx_vals l))
    (hgen : GenX.validate_bfv_consts l.qs.toList l.t.value (fromNat l.size (prodL (gcx_vals l))) c0 u0 p0 = .ok (ops, uhi, puhi, fast, qmt, puht))
    (hsz : l.size ≤ cdp.size)
    (hcdp : ∀ j, j < l.size → GenW.mulop_new (ops.getD j 0) (l.q j) = .ok (cdp.getD j default))
    (plain : Poly) (dest : List Nat)
    (hp : plain.size ≤ l.n) (hm : ∀ i, i < plain.size → plain.getD i 0 < l.t.value)
    (hl : dest.length = l.size * l.n) (hB : dest.length < B64)
    (hd : ∀ j, j < l.size → ∀ i, i < plain.size → dest.getD (j * l.n + i) 0 < (l.q j).value) :
    GenS.multiply_add_plain dest l.qs.toList plain.size l.n l.t cdp.toList puht qmt plain.toList =
      .ok ((List.range (l.size * l.n)).map fun p =>
        if p % l.n < plain.size then (dest.getD p 0 + deltaM (prodL (gcx_vals l)) l.t.value (plain.getD (p % l.n) 0)) % (l.q (p / l.n)).value
        else dest.getD p 0) := by
  obtain ⟨hok, h1, h2⟩ := gcx_scalingOK hw hk ht2 ht61 htQ hgen hsz hcdp
  rw [h1, h2]
  exact gen_multiply_add_plain_spec hok plain dest hp hm hl hB hd
end HC
