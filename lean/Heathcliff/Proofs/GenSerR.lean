/-
  Translator phase 4i (stream mode): the READERS and the SIZE functions of src/serialize.rs (Gen/SerFns.lean) are the model's
  `Codec.dec` / `Codec.size` / closed-form size functions.  Helper prefix `gr_`.
-/
import Heathcliff.Gen.SerFns
import Heathcliff.Proofs.Codec
import Heathcliff.Proofs.GenWord
namespace HC.GS
open HC HC.Codec HC.GenS

/-! ### scalar readers -/

theorem gr_u64_deserialize : u64_deserialize = u64C.dec := by
  funext bs
  simp only [u64_deserialize, rbind, rreadExact, rpure, u64C, scalarC]
  cases readExact SK.u64 8 bs with
  | error e => rfl
  | ok p => rfl

theorem gr_usize_deserialize : usize_deserialize = usizeC.dec := by
  funext bs
  simp only [usize_deserialize, rbind, rreadExact, rpure, usizeC, scalarC]
  cases readExact SK.usize 8 bs with
  | error e => rfl
  | ok p => rfl

theorem gr_u8_deserialize : u8_deserialize = u8C.dec := by
  funext bs
  simp only [u8_deserialize, rbind, rreadExact, rpure, u8C, scalarC, readExact]
  by_cases h : bs.length < 1
  · simp [h]
  · simp only [h, if_false]
    cases bs with
    | nil => simp at h
    | cons b r => simp [leVal]

theorem gr_bool_deserialize : bool_deserialize = boolC.dec := by
  funext bs
  simp only [bool_deserialize, gr_u8_deserialize, rbind, rpure, boolC, mapC]
  cases u8C.dec bs with
  | error e => rfl
  | ok p => rfl

theorem gr_f64_deserialize : f64_deserialize = f64C.dec := by
  funext bs
  simp only [f64_deserialize, gr_u64_deserialize, rbind, rpure, f64C]
  cases u64C.dec bs with
  | error e => rfl
  | ok p => rfl

theorem gr_modulus_deserialize : modulus_deserialize = modulusC.dec := by
  funext bs
  simp only [modulus_deserialize, gr_u64_deserialize, rbind, rpure, modulusC]
  cases u64C.dec bs with
  | error e => rfl
  | ok p => rfl

theorem gr_scheme_guard (v : Nat) : (v == 0 || v == 1 || v == 2 || v == 3) = decide (v ≤ 3) := by
  by_cases h : v ≤ 3
  · have : v = 0 ∨ v = 1 ∨ v = 2 ∨ v = 3 := by omega
    rcases this with rfl | rfl | rfl | rfl <;> rfl
  · have h0 : (v == 0) = false := by simp; omega
    have h1 : (v == 1) = false := by simp; omega
    have h2 : (v == 2) = false := by simp; omega
    have h3 : (v == 3) = false := by simp; omega
    simp [h0, h1, h2, h3, h]

/-- `SchemeType::from(u8)` panics above 3: the model's guard -/
theorem gr_scheme_deserialize : scheme_deserialize = schemeC.dec := by
  funext bs
  simp only [scheme_deserialize, gr_u8_deserialize, rbind, rpure, rfail, schemeC, guardC]
  cases u8C.dec bs with
  | error e => rfl
  | ok p =>
    obtain ⟨v, r⟩ := p
    simp only [gr_scheme_guard]
    by_cases h : v ≤ 3 <;> simp [h, rpure, rfail]

/-! ### `Vec<I>`, `ParmsID` -/

theorem gr_vec_loop {α} (item : Rd α) (c : Codec α) (hi : item = c.dec) (l : List Nat) (acc : List α) (bs : Bytes) :
    vec_deserialize_loop1 item l acc bs
      = match seqDec (List.replicate l.length c) bs with
        | .ok (xs, r) => .ok (acc ++ xs, r)
        | .error e => .error e := by
  subst hi
  induction l generalizing acc bs with
  | nil => simp [vec_deserialize_loop1, seqDec, rpure]
  | cons x xs ih =>
    simp only [vec_deserialize_loop1, List.length_cons, List.replicate_succ, seqDec, rbind]
    cases h : c.dec bs with
    | error e => rfl
    | ok p =>
      obtain ⟨y, r⟩ := p
      simp only [ih]
      cases seqDec (List.replicate xs.length c) r with
      | error e => rfl
      | ok q => simp

theorem gr_vec_deserialize {α} (item : Rd α) (c : Codec α) (hi : item = c.dec) : vec_deserialize item = (vecC c).dec := by
  funext bs
  simp only [vec_deserialize, gr_usize_deserialize, rbind, rpure, vecC, mapC, depC, repC, seqC]
  cases usizeC.dec bs with
  | error e => rfl
  | ok p =>
    obtain ⟨n, r⟩ := p
    simp only [gr_vec_loop item c hi, List.length_range', Nat.sub_zero]
    cases seqDec (List.replicate n c) r with
    | error e => rfl
    | ok q => simp

theorem gr_rfill (c : Codec Nat) (l : List Nat) (bs : Bytes) :
    rfill (fun _ => rbind c.dec fun t => rpure t) l bs = seqDec (List.replicate l.length c) bs := by
  induction l generalizing bs with
  | nil => rfl
  | cons x xs ih =>
    simp only [rfill, List.length_cons, List.replicate_succ, seqDec, rbind, rpure]
    cases c.dec bs with
    | error e => rfl
    | ok p =>
      obtain ⟨y, r⟩ := p
      simp only [ih]
      cases seqDec (List.replicate xs.length c) r with
      | error e => rfl
      | ok q => rfl

theorem gr_pid_deserialize : pid_deserialize = pidC.dec := by
  funext bs
  simp only [pid_deserialize, gr_u64_deserialize, rbind, rpure, gr_rfill, pidC, repC, seqC, List.length_replicate]
  cases seqDec (List.replicate 4 u64C) bs with
  | error e => rfl
  | ok p => rfl

/-! ### `Plaintext`, `EncryptionParameters` -/

theorem gr_plain_deserialize : plain_deserialize = plainC.dec := by
  funext bs
  simp only [plain_deserialize, gr_pid_deserialize, gr_vec_deserialize u64_deserialize u64C gr_u64_deserialize, gr_f64_deserialize,
    rbind, rpure, plainC, mapC, pairC]
  cases pidC.dec bs with
  | error e => rfl
  | ok p =>
    obtain ⟨pid, r⟩ := p
    simp only []
    cases (vecC u64C).dec r with
    | error e => rfl
    | ok q =>
      obtain ⟨d, r2⟩ := q
      simp only []
      cases f64C.dec r2 with
      | error e => rfl
      | ok z => rfl

/-- what `EncryptionParameters::set_coeff_modulus` insists on (the regenerated `HE_COEFF_MOD_COUNT_MIN/MAX`) -/
def coeffCountOk (p : Params) : Bool :=
  decide (HC.Gen.HE_COEFF_MOD_COUNT_MIN ≤ p.coeffMod.length) && decide (p.coeffMod.length ≤ HC.Gen.HE_COEFF_MOD_COUNT_MAX)

/-- The generated reader is the model's decoder FOLLOWED BY the count check of `set_coeff_modulus` (a panic in the code): the
    model accepts parameter streams with 0 or more than 64 coefficient moduli, the code panics on them after reading everything. -/
theorem gr_params_deserialize (bs : Bytes) :
    params_deserialize bs = match paramsC.dec bs with
      | .ok (p, r) => if coeffCountOk p then .ok (p, r) else .error .bad
      | .error e => .error e := by
  simp only [params_deserialize, gr_scheme_deserialize, gr_usize_deserialize, gr_bool_deserialize, gr_modulus_deserialize,
    gr_vec_deserialize modulusC.dec modulusC rfl, rbind, rpure, rfail, paramsC, mapC, guardC, depC, pairC]
  cases h1 : schemeC.dec bs with
  | error e => rfl
  | ok p1 =>
    obtain ⟨s, r1⟩ := p1
    have h1' : (guardC u8C fun v => decide (v ≤ 3)).dec bs = .ok (s, r1) := h1
    simp only []
    cases h2 : usizeC.dec r1 with
    | error e => rfl
    | ok p2 =>
      obtain ⟨n, r2⟩ := p2
      simp only []
      cases h3 : (vecC modulusC).dec r2 with
      | error e => rfl
      | ok p3 =>
        obtain ⟨cm, r3⟩ := p3
        simp only []
        by_cases hp : (s == 1 || s == 3) = true
        · have hp' : hasPlain s = true := hp
          have hs0 : (s == 0) = false := by
            cases hs : s == 0
            · rfl
            · have : s = 0 := by simpa using hs
              subst this; simp at hp
          have hs0' : s ≠ 0 := by simpa using hs0
          simp only [hp, hp', if_true, repC, seqC, List.replicate_succ, List.replicate_zero, seqDec, rbind]
          cases h4 : modulusC.dec r3 with
          | error e => rfl
          | ok p4 =>
            obtain ⟨pm, r4⟩ := p4
            simp only []
            cases h5 : boolC.dec r4 with
            | error e => rfl
            | ok p5 =>
              obtain ⟨sp, r5⟩ := p5
              by_cases hc : (decide (HC.Gen.HE_COEFF_MOD_COUNT_MIN ≤ cm.length) && decide (cm.length ≤ HC.Gen.HE_COEFF_MOD_COUNT_MAX)) = true
              · have hc' := hc
                simp only [Bool.and_eq_true, decide_eq_true_eq] at hc'
                have g1 : decide (cm.length > HC.Gen.HE_COEFF_MOD_COUNT_MAX) = false := by simp; omega
                have g2 : decide (cm.length < HC.Gen.HE_COEFF_MOD_COUNT_MIN) = false := by simp; omega
                simp [g1, g2, hc, hs0, hs0', coeffCountOk, rpure, rfail]
              · have hc0 : (decide (HC.Gen.HE_COEFF_MOD_COUNT_MIN ≤ cm.length) && decide (cm.length ≤ HC.Gen.HE_COEFF_MOD_COUNT_MAX)) = false := by
                  simpa using hc
                have g : (decide (cm.length > HC.Gen.HE_COEFF_MOD_COUNT_MAX) || decide (cm.length < HC.Gen.HE_COEFF_MOD_COUNT_MIN)) = true := by
                  simp only [Bool.and_eq_false_iff, decide_eq_false_iff_not] at hc0
                  simp only [Bool.or_eq_true, decide_eq_true_eq]; omega
                simp [g, hc0, hs0, hs0', coeffCountOk, rpure, rfail]
        · have hp0 : (s == 1 || s == 3) = false := by simpa using hp
          have hp' : hasPlain s = false := hp0
          simp only [hp0, hp', repC, seqC, List.replicate_zero, seqDec, Bool.false_eq_true, if_false, rbind]
          cases h5 : boolC.dec r3 with
          | error e => rfl
          | ok p5 =>
            obtain ⟨sp, r5⟩ := p5
            by_cases h2s : (s == 2) = true
            · have hs2 : s = 2 := by simpa using h2s
              subst hs2
              by_cases hc : (decide (HC.Gen.HE_COEFF_MOD_COUNT_MIN ≤ cm.length) && decide (cm.length ≤ HC.Gen.HE_COEFF_MOD_COUNT_MAX)) = true
              · have hc' := hc
                simp only [Bool.and_eq_true, decide_eq_true_eq] at hc'
                have g1 : decide (cm.length > HC.Gen.HE_COEFF_MOD_COUNT_MAX) = false := by simp; omega
                have g2 : decide (cm.length < HC.Gen.HE_COEFF_MOD_COUNT_MIN) = false := by simp; omega
                simp [g1, g2, hc, coeffCountOk, rpure, rfail]
              · have hc0 : (decide (HC.Gen.HE_COEFF_MOD_COUNT_MIN ≤ cm.length) && decide (cm.length ≤ HC.Gen.HE_COEFF_MOD_COUNT_MAX)) = false := by
                  simpa using hc
                have g : (decide (cm.length > HC.Gen.HE_COEFF_MOD_COUNT_MAX) || decide (cm.length < HC.Gen.HE_COEFF_MOD_COUNT_MIN)) = true := by
                  simp only [Bool.and_eq_false_iff, decide_eq_false_iff_not] at hc0
                  simp only [Bool.or_eq_true, decide_eq_true_eq]; omega
                simp [g, hc0, coeffCountOk, rpure, rfail]
            · have h2s0 : (s == 2) = false := by simpa using h2s
              -- the scheme byte passed `SchemeType::from`, is not BFV / BGV / CKKS: it is `None`, `Err(InvalidData)`
              have hs3 : s ≤ 3 := by
                simp only [guardC] at h1'
                cases hu : u8C.dec bs with
                | error e => simp [hu] at h1'
                | ok pu =>
                  obtain ⟨v, rv⟩ := pu
                  simp only [hu] at h1'
                  by_cases hv : v ≤ 3
                  · simp [hv] at h1'; omega
                  · simp [hv] at h1'
              have hs : s = 0 := by
                have a1 : s ≠ 1 := by intro h; subst h; simp at hp0
                have a3 : s ≠ 3 := by intro h; subst h; simp at hp0
                have a2 : s ≠ 2 := by intro h; subst h; simp at h2s0
                omega
              subst hs
              simp [rfail]

/-! ### sizes -/

theorem gr_vec_size_loop {α} (item : α → Nat) (l : List α) (acc : Nat) :
    vec_serialized_size_loop1 item l acc = acc + (l.map item).sum := by
  induction l generalizing acc with
  | nil => simp [vec_serialized_size_loop1]
  | cons x xs ih => simp [vec_serialized_size_loop1, ih, Nat.add_assoc]

theorem gr_seqSize_replicate {α} (c : Codec α) (l : List α) :
    seqSize (List.replicate l.length c) l = (l.map c.size).sum := by
  induction l with
  | nil => rfl
  | cons x xs ih => simp [List.replicate_succ, seqSize, ih]

/-- `Vec<I>::serialized_size` = the model's `size` of the vector codec -/
theorem gr_vec_size {α} (item : α → Nat) (c : Codec α) (hi : item = c.size) (l : List α) :
    vec_serialized_size item l = (vecC c).size l := by
  have : (vecC c).size l = 8 + seqSize (List.replicate l.length c) l := rfl
  rw [this, gr_seqSize_replicate, hi]
  simp [vec_serialized_size, gr_vec_size_loop]

theorem gr_sum_const {α} (l : List α) (k : Nat) : (l.map (fun _ => k)).sum = k * l.length := by
  induction l with
  | nil => rfl
  | cons x xs ih => simp [ih, Nat.mul_succ, Nat.add_comm]

theorem gr_params_size (p : Params) : params_serialized_size p = paramsSerializedSize p := by
  have hv : vec_serialized_size modulus_serialized_size p.coeffMod = 8 + 8 * p.coeffMod.length := by
    have hm : modulus_serialized_size = fun _ => 8 := rfl
    simp [vec_serialized_size, gr_vec_size_loop, hm, gr_sum_const]
  unfold params_serialized_size paramsSerializedSize
  simp only [hv, modulus_serialized_size, bool_serialized_size, hasPlain]
  by_cases h : (p.scheme == 1 || p.scheme == 3) = true
  · simp only [h, if_true]
  · have h0 : (p.scheme == 1 || p.scheme == 3) = false := by simpa using h
    simp only [h0, Bool.false_eq_true, if_false]

theorem gr_plain_size (p : Plain) : plain_serialized_size p = plainSerializedSize p := by
  have hm : u64_serialized_size = fun _ => 8 := rfl
  simp [plain_serialized_size, plainSerializedSize, vec_serialized_size, gr_vec_size_loop, hm, f64_serialized_size,
    gr_sum_const]

/-- `get_u64_limit` (through the generated `get_significant_bit_count` of Gen/WordFns.lean) = the model's `u64Limit`, for every `u64` -/
theorem gr_get_u64_limit (q : Nat) (hq : q < 2^64) : get_u64_limit q = .ok (u64Limit q) := by
  have h := HC.gw_get_significant_bit_count_eq q hq
  simp only [get_u64_limit, h, pbind, ppure]
  rfl

theorem gr_pbind_pure {α} (m : R α) : pbind m (fun t => ppure t) = m := by cases m <;> rfl

theorem gr_limits (l : List Nat) (hl : ∀ q ∈ l, q < 2^64) :
    pmapM (fun x => get_u64_limit x) l = .ok (l.map u64Limit) := by
  induction l with
  | nil => rfl
  | cons x xs ih =>
    have hx := gr_get_u64_limit x (hl x List.mem_cons_self)
    have ih' := ih (fun q hq => hl q (List.mem_cons_of_mem _ hq))
    show pbind (get_u64_limit x) (fun v => pbind (pmapM (fun x => get_u64_limit x) xs) fun vs => .ok (v :: vs)) = _
    rw [hx, ih']; rfl

theorem gr_header (lv : Level) (v : CtV) :
    (if (lv.scheme == 1) = true then 0 + pid_serialized_size v.pid + usize_serialized_size v.size + bool_serialized_size v.ntt
      else if (lv.scheme == 2) = true then 0 + pid_serialized_size v.pid + usize_serialized_size v.size + bool_serialized_size v.ntt + f64_serialized_size v.scale
      else if (lv.scheme == 3) = true then 0 + pid_serialized_size v.pid + usize_serialized_size v.size + bool_serialized_size v.ntt + u64_serialized_size v.cf
      else 0 + pid_serialized_size v.pid + usize_serialized_size v.size + bool_serialized_size v.ntt) = headerSize lv := by
  simp only [pid_serialized_size, usize_serialized_size, bool_serialized_size, f64_serialized_size, u64_serialized_size, headerSize]
  by_cases h1 : (lv.scheme == 1) = true
  · have : lv.scheme = 1 := by simpa using h1
    simp [this]
  · by_cases h2 : (lv.scheme == 2) = true
    · have : lv.scheme = 2 := by simpa using h2
      simp [this]
    · by_cases h3 : (lv.scheme == 3) = true
      · have : lv.scheme = 3 := by simpa using h3
        simp [this]
      · simp [h1, h2, h3]

/-- number of `u64` words `serialize_full` sends, as the size function computes it -/
def fullSentV (v : CtV) : Nat := if v.seeded then (v.poly 0).length + 1 + seedWords else v.data.length

theorem gr_ct_full_size (ctx : Ctx) (lv : Level) (v : CtV) (hfind : ctx.find v.pid = some lv) :
    ct_serialized_full_size ctx v = .ok (ctSerializedFullSize lv (fullSentV v)) := by
  have hh := gr_header lv v
  unfold ct_serialized_full_size ctSerializedFullSize fullSentV
  simp only [hfind, ppure]
  simp only [pid_serialized_size, usize_serialized_size, bool_serialized_size, f64_serialized_size, u64_serialized_size, seedWords] at hh ⊢
  rw [← hh]

theorem gr_size_loop (limits : List Nat) (n upper : Nat) (k : Nat) (acc : Nat) (start : Nat) (hk : start + k ≤ limits.length) :
    ct_serialized_size_loop1 n limits upper (List.range' start k) acc
      = .ok (acc + (((limits.drop start).take k).map (fun w => upper * n * w)).sum) := by
  induction k generalizing acc start with
  | zero => simp [ct_serialized_size_loop1, ppure]
  | succ k ih =>
    have hlt : start < limits.length := by omega
    have hd : limits.drop start = limits[start] :: limits.drop (start + 1) := by
      rw [List.drop_eq_getElem_cons hlt]
    simp only [List.range'_succ, ct_serialized_size_loop1, pidx, List.getElem?_eq_getElem hlt, pbind]
    rw [ih _ _ (by omega), hd]
    simp only [List.take_succ_cons, List.map_cons, List.sum_cons, Nat.add_assoc]

theorem gr_terms_loop (limits : List Nat) (n tc upper : Nat) (hu : 1 ≤ upper) (k : Nat) (acc : Nat) (start : Nat) (hk : start + k ≤ limits.length) :
    ct_serialized_terms_size_loop1 tc n limits upper (List.range' start k) acc
      = .ok (acc + (((limits.drop start).take k).map (fun w => (tc + (upper - 1) * n) * w)).sum) := by
  induction k generalizing acc start with
  | zero => simp [ct_serialized_terms_size_loop1, ppure]
  | succ k ih =>
    have hlt : start < limits.length := by omega
    have hd : limits.drop start = limits[start] :: limits.drop (start + 1) := by
      rw [List.drop_eq_getElem_cons hlt]
    have hs : ckSub upper 1 = .ok (upper - 1) := by simp [ckSub]; omega
    simp only [List.range'_succ, ct_serialized_terms_size_loop1, pidx, List.getElem?_eq_getElem hlt, pbind, hs]
    rw [ih _ _ (by omega), hd]
    simp only [List.take_succ_cons, List.map_cons, List.sum_cons, Nat.add_assoc]

/-- `Ciphertext::serialized_size` = the model's closed form `ctSerializedSize` (every modulus a `u64`) -/
theorem gr_ct_size (ctx : Ctx) (lv : Level) (v : CtV) (hfind : ctx.find v.pid = some lv) (hq : ∀ q ∈ lv.moduli, q < 2^64) :
    ct_serialized_size ctx v = .ok (ctSerializedSize lv v.size v.seeded) := by
  have hh := gr_header lv v
  have hl := gr_limits lv.moduli hq
  have hloop := fun acc => gr_size_loop (lv.moduli.map u64Limit) lv.n (if v.seeded then 1 else v.size) lv.moduli.length acc 0 (by simp)
  unfold ct_serialized_size ctSerializedSize
  simp only [hfind, gr_pbind_pure]
  simp only [hl, pbind, ppure, Nat.sub_zero, hloop, List.drop_zero, seedWords]
  rw [← hh]
  have : List.take lv.moduli.length (List.map u64Limit lv.moduli) = List.map u64Limit lv.moduli := by
    rw [List.take_of_length_le (by simp)]
  simp only [this, List.map_map, Function.comp_def]
  split_ifs <;> simp <;> omega

/-- `Ciphertext::serialized_terms_size` = `ctSerializedTermsSize`, provided `upper - 1` does not trap: a seeded ciphertext, or size ≥ 1 -/
theorem gr_ct_terms_size (ctx : Ctx) (lv : Level) (v : CtV) (tc : Nat) (hfind : ctx.find v.pid = some lv)
    (hq : ∀ q ∈ lv.moduli, q < 2^64) (hu : v.seeded = true ∨ 1 ≤ v.size) :
    ct_serialized_terms_size ctx v tc = .ok (ctSerializedTermsSize lv v.size v.seeded tc) := by
  have hh := gr_header lv v
  have hl := gr_limits lv.moduli hq
  have hup : 1 ≤ (if v.seeded then 1 else v.size) := by
    rcases hu with h | h
    · simp [h]
    · split <;> omega
  have hloop := fun acc => gr_terms_loop (lv.moduli.map u64Limit) lv.n tc (if v.seeded then 1 else v.size) hup lv.moduli.length acc 0 (by simp)
  unfold ct_serialized_terms_size ctSerializedTermsSize
  simp only [hfind, gr_pbind_pure]
  simp only [hl, pbind, ppure, Nat.sub_zero, hloop, List.drop_zero, seedWords]
  rw [← hh]
  have : List.take lv.moduli.length (List.map u64Limit lv.moduli) = List.map u64Limit lv.moduli := by
    rw [List.take_of_length_le (by simp)]
  simp only [this, List.map_map, Function.comp_def]
  split_ifs <;> simp <;> omega

/-- the excluded point: an EMPTY unseeded ciphertext at a level with at least one modulus — the code traps in `upper - 1`
    (the model's closed form, with truncated subtraction, returns a number) -/
theorem gr_ct_terms_size_traps (ctx : Ctx) (lv : Level) (v : CtV) (tc : Nat) (hfind : ctx.find v.pid = some lv)
    (q : Nat) (qs : List Nat) (hm : lv.moduli = q :: qs)
    (hq : ∀ q ∈ lv.moduli, q < 2^64) (hs : v.seeded = false) (h0 : v.size = 0) :
    ct_serialized_terms_size ctx v tc = .error .overflow := by
  have hl := gr_limits lv.moduli hq
  rw [hm] at hl
  unfold ct_serialized_terms_size
  simp only [hfind, gr_pbind_pure]
  simp only [hl, pbind, ppure, hs, h0, hm, List.length_cons, Nat.sub_zero, List.range'_succ, ct_serialized_terms_size_loop1,
    ckSub, Bool.false_eq_true, if_false]
  simp

/-- an unknown parms id: `get_context_data(..).unwrap()` panics in all three size functions -/
theorem gr_ct_sizes_unknown_pid (ctx : Ctx) (v : CtV) (tc : Nat) (hfind : ctx.find v.pid = none) :
    ct_serialized_full_size ctx v = .error .other ∧ ct_serialized_size ctx v = .error .other ∧
    ct_serialized_terms_size ctx v tc = .error .other := by
  refine ⟨?_, ?_, ?_⟩
  · unfold ct_serialized_full_size; simp only [hfind]
  · unfold ct_serialized_size; simp only [hfind]
  · unfold ct_serialized_terms_size; simp only [hfind]

end HC.GS
