/- C03 (task S): the CKKS square of the MODEL (`ckksSquare`, mirror of `ckks_square` with its size-2 fast path) at the integer level:
   the exact phase of the square is the NEGACYCLIC SQUARE of the exact phase modulo Q (corollary of `ckksSquare_eq`, Proofs/C02S.lean,
   and `ckks_multiply_phase`, Proofs/C03K.lean). -/
import Heathcliff.Proofs.C03K
import Heathcliff.Proofs.C02S
namespace HC

/-- K1 SQUARE (`ckksSquare` = `ckks_square`, any size n in 2..8 — a larger square is refused by `resize`, in the code and in the
    model: `ckksSquare_refuse_size`): the model succeeds, the result is a canonical ciphertext of 2n − 1 polynomials, and its exact
    phase is the negacyclic square of the exact phase modulo Q: phase(r) ≡ phase(a) ⋆ phase(a).  No noise is added. -/
theorem ckks_square_phase {l : Level} (hl : l.WF) (hq : c07s_LevelQ l) (sk : Array Int) {a : Ct} (ha : CtCanon l a)
    (hna : a.ntt = true) (h8 : a.polys.size ≤ 8) :
    ∃ r, ckksSquare l a = .ok r ∧ c03k_Canon l r ∧ r.cf = a.cf ∧ r.polys.size = 2 * a.polys.size - 1 ∧ CtCanon l r ∧
      ∀ j, j < l.n → c03k_phase l sk r j ≡ negMulR l.n (c03k_phase l sk a) (c03k_phase l sk a) j [ZMOD (c03k_Q l : Int)] := by
  obtain ⟨r, hr, hcr, hcf, hsz, hcan, hph⟩ := ckks_multiply_phase hl hq sk ha ha hna hna (by omega)
  exact ⟨r, by rw [ckksSquare_eq (c02v_qsWF_of_levelWF hl) ha]; exact hr, hcr, hcf, by omega, hcan, hph⟩

/-- the square of a coefficient-form ciphertext is refused -/
theorem ckks_square_refuses_coeff (l : Level) (a : Ct) (h : a.ntt = false) : ckksSquare l a = .error .refused :=
  ckksSquare_refuse l a h

end HC
