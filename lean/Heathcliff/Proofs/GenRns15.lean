import Heathcliff.Proofs.GenRns2
import Heathcliff.Proofs.C10H

/-!
  Phase 4k of the translator tie: `RNSBase::decompose` (src/util/rns.rs) generated into `Heathcliff/Gen/RnsFns.lean` EQUALS the hand model's
  `RNSBase.decompose` (which carries the multi-word value as a `Nat`), and the C10 theorems about it.  Helper names start with `gr_`.
-/
namespace HC
open HC.GenW HC.GenR

/-- the limbs of the value of a word list are the list itself -/
theorem gr_fromNat_toNat : ∀ (v : List Nat), (∀ x ∈ v, x < 2^64) → fromNat v.length (toNat v) = v := by
  intro v
  induction v with
  | nil => intro _; rfl
  | cons x xs ih =>
    intro h
    have hx : x < B64 := by have := h x (by simp); simpa [B64] using this
    rw [List.length_cons, toNat, fromNat, Nat.add_mul_mod_self_left, Nat.mod_eq_of_lt hx, Nat.add_mul_div_left _ _ (by simp [B64] : 0 < B64),
      Nat.div_eq_of_lt hx, Nat.zero_add, ih (fun y hy => h y (by simp [hy]))]

/-- **`RNSBase::decompose` (generated from src/util/rns.rs) = the hand model `RNSBase.decompose`** on the value of the limbs; `self.base.len()` and
    `self.base[i]` are inputs of the generated function, instantiated with the model base's fields.  A value buffer of the wrong length is refused
    by the code's `assert_eq!` (`gr_rnsbase_decompose_refuses`).  `0 < size`: for the EMPTY base (which `RNSBase::new` refuses to build) the code
    returns the empty buffer while the model returns the one-element array `#[v]`. -/
theorem gr_rnsbase_decompose_eq (b : RNSBase) (v : List Nat) (hpos : 0 < b.size) (hl : v.length = b.size) (hw : ∀ x ∈ v, x < 2^64) :
    GenR.rnsbase_decompose v b.size b.base.toList = (b.decompose (toNat v)).map Array.toList := by
  unfold GenR.rnsbase_decompose RNSBase.decompose
  rw [if_pos hl]
  by_cases hs : b.size > 1
  · have efn : fromNat b.size (toNat v) = v := by rw [← hl]; exact gr_fromNat_toNat v hw
    rw [if_pos hs, if_pos hs, gr_foldlM_push, limbsOf, efn]
    have hne : v ≠ [] := by intro h; rw [h] at hl; simp at hl; omega
    have hloop := gr_idxloop (GenR.rnsbase_decompose_loop1 v b.base.toList) (fun i _ => moduloUint v (b.q i)) v.length (fun _ _ => rfl) (by
      intro n i l h hi
      have e1 : GenR.idxMod b.base.toList i = .ok (b.q i) := by
        rw [gr_idxMod_ok b.base.toList i gr_dflt (by rw [Array.length_toList]; have : b.base.size = b.size := rfl; omega), gr_q_toList]
      rw [GenR.rnsbase_decompose_loop1]
      simp only [e1, gr_ok_bind, gw_modulo_uint_eq v _ hne]
      cases moduloUint v (b.q i) with
      | error e => rfl
      | ok y => simp only [gr_ok_bind, gx_setIdx_ok _ _ _ h]) b.size 0 v (by omega) (Nat.le_refl _)
    rw [hloop, List.range_eq_range']
    cases (List.range' 0 b.size).mapM (fun i => moduloUint v (b.q i)) with
    | error e => rfl
    | ok ys => simp [gr_ok_bind, Except.map]
  · rw [if_neg hs, if_neg hs]
    have h1 : v.length = 1 := by omega
    match v, h1 with
    | [x], _ => simp [toNat, Except.map, pure, Except.pure]

theorem gr_rnsbase_decompose_refuses (b : RNSBase) (v : List Nat) (hl : v.length ≠ b.size) :
    GenR.rnsbase_decompose v b.size b.base.toList = .error .refused := by
  unfold GenR.rnsbase_decompose; rw [if_neg hl]

/-- END TO END with the C10 theorem `decompose_spec_of`: for a well-formed base and limbs of a value `x` (below the product when the base has a
    single modulus), the generated function returns the residues `x mod q_i` -/
theorem gr_rnsbase_decompose_residues {b : RNSBase} (hb : b.WF) (v : List Nat) (hl : v.length = b.size) (hw : ∀ x ∈ v, x < 2^64)
    (h1 : 1 < b.size ∨ toNat v < b.prod) :
    ∃ out, GenR.rnsbase_decompose v b.size b.base.toList = .ok out ∧ out.length = b.size ∧ ∀ i, i < b.size → out.getD i 0 = toNat v % (b.q i).value := by
  have hv : toNat v < 2^(64 * b.size) := by
    have := RNSH.toNat_fromNat v.length (toNat v)
    rw [gr_fromNat_toNat v hw, hl] at this
    have hp : 0 < 2^(64 * b.size) := Nat.two_pow_pos _
    by_contra hc
    have := Nat.mod_lt (toNat v) hp
    omega
  obtain ⟨rs, hok, hsz, hr⟩ := decompose_spec_of hb hv h1
  rw [gr_rnsbase_decompose_eq b v hb.pos hl hw, hok]
  refine ⟨rs.toList, rfl, by rw [Array.length_toList, hsz], fun i hi => ?_⟩
  rw [← gr_arr_getD, hr i hi]

end HC
