import Heathcliff.Proofs.GenRns8
import Heathcliff.Proofs.GenRns11
import Heathcliff.Proofs.GenRns14
import Heathcliff.Proofs.GenRns16
import Heathcliff.Proofs.GenRns19
import Heathcliff.Proofs.GenRns20
import Heathcliff.Proofs.GenRns22
import Heathcliff.Proofs.C01EW

/-!
  Non-vacuity of the hypothesis bundles of phase 4k (Proofs/GenRns7.lean, GenRns8.lean) in the concrete world of Proofs/NonVac.lean:
  `RNSTool::new(4, {97, 113}, 17)`, the phase `nv_phase` of a genuine BFV encryption of 3 + 16X + 9X³, a DIRTY destination buffer.
-/
namespace HC
set_option warn.classDefReducibility false
attribute [local instance] nv_decRnsCanon nv_decWFOp nv_decModWF nv_decModulus nv_decMulOperand nv_decRNSBase

theorem grw_dsr_sizes : nv_tool.prodTGammaModQ.size = nv_tool.baseQ.size ∧ nv_tool.negInvQModTGamma.size = 2 := by
  refine gr_dsr_sizes_of_new nv_m17_wf ?_ nv_tool_new
  intro m hm
  simp only [List.mem_cons, List.not_mem_nil, or_false] at hm
  rcases hm with rfl | rfl | rfl | rfl
  · exact (Modulus.mk?_wf nv_aux_mk.1 (by decide)).1
  · exact (Modulus.mk?_wf nv_aux_mk.2.1 (by decide)).1
  · exact (Modulus.mk?_wf nv_aux_mk.2.2.1 (by decide)).1
  · exact (Modulus.mk?_wf nv_aux_mk.2.2.2 (by decide)).1

theorem grw_phase_canon : RnsCanon nv_level nv_phase := by decide +kernel

/-- `gr_decrypt_scale_and_round_rounds` applies: all its hypotheses hold for the phase of a genuine encryption (CRT values 1939, 10309, 21, 5801),
    and the generated function overwrites the dirty destination with the message 3 + 16X + 9X³ -/
theorem grw_dsr_rounds : ∃ btg conv ig, nv_tool.baseTGamma = some btg ∧ nv_tool.qToTGamma = some conv ∧ nv_tool.invGammaModT = some ig ∧
    GenR.decrypt_scale_and_round (flatP nv_phase) [9, 9, 9, 9] nv_tool.baseQ.size nv_tool.baseQ.base.toList btg.size btg.base.toList nv_tool.n
        nv_tool.prodTGammaModQ.toList nv_tool.negInvQModTGamma.toList nv_tool.t nv_tool.gamma ig (gr_convF conv) = .ok [3, 16, 0, 9] := by
  obtain ⟨btg, conv, ig, h1, h2, h3, out, hok, hlen, hv⟩ := gr_decrypt_scale_and_round_rounds (l := nv_level) c01e_exDecOK grw_phase_canon
    #[9, 9, 9, 9] rfl (by show nv_tool.baseQ.size ≤ nv_tool.prodTGammaModQ.size; rw [grw_dsr_sizes.1])
    (by show 2 ≤ nv_tool.negInvQModTGamma.size; rw [grw_dsr_sizes.2])
    (by decide) (by decide) (by decide)
    (fun j => [1939, 10309, 21, 5801].getD j 0)
    (by
      have h : ∀ j, j < 4 → [1939, 10309, 21, 5801].getD j 0 < nv_tool.baseQ.prod ∧
          ∀ i, i < 2 → [1939, 10309, 21, 5801].getD j 0 % (nv_level.q i).value = (nv_phase.getD i #[]).getD j 0 := by decide +kernel
      exact h)
    (by
      have hQ : nv_tool.baseQ.prod = 10961 := by decide +kernel
      have hg : nv_tool.gamma.value = 2305843009213693561 := by decide +kernel
      have ht : nv_level.t.value = 17 := rfl
      have hs : nv_level.size = 2 := rfl
      intro j hj
      have htool : nv_level.tool = nv_tool := rfl
      rw [htool, hQ, hg, ht, hs]
      have hj4 : j < 4 := hj
      interval_cases j <;> decide +kernel)
  refine ⟨btg, conv, ig, h1, h2, h3, ?_⟩
  have hok' : GenR.decrypt_scale_and_round (flatP nv_phase) [9, 9, 9, 9] nv_tool.baseQ.size nv_tool.baseQ.base.toList btg.size btg.base.toList nv_tool.n
        nv_tool.prodTGammaModQ.toList nv_tool.negInvQModTGamma.toList nv_tool.t nv_tool.gamma ig (gr_convF conv) = .ok out := hok
  rw [hok']
  congr 1
  have h4 : out.length = 4 := hlen
  apply gr_ext_getD 0 _ _ h4
  intro j hj
  rw [h4] at hj
  rw [hv j hj]
  interval_cases j <;> decide +kernel

/-! ### `fastbconv_sk`: the Shenoy–Kumaresan conversion of ⌊·/Q⌋ = (−1, −1, 0, −1) (the fast-floor output `nv_p4` of NonVac.lean) back to base q -/

def grw_decConv : DecidableEq BaseConverter := fun a b =>
  decidable_of_iff (a.ibase = b.ibase ∧ a.obase = b.obase ∧ a.matrix = b.matrix) (by cases a; cases b; simp)
attribute [local instance] grw_decConv

def grw_bMsk : RNSBase := (RNSBase.new [nv_a0]).toOption.getD default
theorem grw_bMsk_new : RNSBase.new [nv_a0] = .ok grw_bMsk := nv_ok_of_isOk default (by decide +kernel)
theorem grw_baseB_new : RNSBase.new [nv_a2, nv_a3] = .ok nv_tool.baseB := nv_ok_of_toOption (by decide +kernel)
theorem grw_bToQ_new : BaseConverter.new nv_tool.baseB nv_tool.baseQ = .ok nv_tool.bToQ := nv_ok_of_toOption (by decide +kernel)
theorem grw_bToMsk_new : BaseConverter.new nv_tool.baseB grw_bMsk = .ok nv_tool.bToMsk := nv_ok_of_toOption (by decide +kernel)

theorem grw_baseB_wf : nv_tool.baseB.WF :=
  (RNSBase.new_wf (by
    intro m hm; simp only [List.mem_cons, List.not_mem_nil, or_false] at hm
    rcases hm with rfl | rfl
    · exact (Modulus.mk?_wf nv_aux_mk.2.2.1 (by decide)).1
    · exact (Modulus.mk?_wf nv_aux_mk.2.2.2 (by decide)).1) (by decide) grw_baseB_new).1
theorem grw_bMsk_wf : grw_bMsk.WF :=
  (RNSBase.new_wf (by
    intro m hm; simp only [List.mem_cons, List.not_mem_nil, or_false] at hm
    rw [hm]; exact (Modulus.mk?_wf nv_aux_mk.1 (by decide)).1) (by decide) grw_bMsk_new).1

/-- `gr_fastbconv_sk_exact` applies (all hypotheses hold for `nv_p4`, V = (−1, −1, 0, −1), a DIRTY destination), and the generated function returns
    −1, −1, 0, −1 modulo 97 and modulo 113 -/
theorem grw_sk_exact : GenR.fastbconv_sk (flatP nv_p4) (flatP #[#[9, 9, 9, 9], #[9, 9, 9, 9]]) nv_tool.baseQ.size nv_tool.baseB.size nv_tool.n nv_tool.mSk
      nv_tool.invProdBModMsk nv_tool.baseQ.base.toList nv_tool.prodBModQ.toList (gr_convF nv_tool.bToQ) (gr_convF nv_tool.bToMsk)
    = .ok [96, 96, 0, 96, 112, 112, 0, 112] := by
  have hq : nv_tool.baseQ = nv_base := nv_tool_shape.2.1
  obtain ⟨out, hok, hv⟩ := gr_fastbconv_sk_exact nv_tool nv_p4 #[#[9, 9, 9, 9], #[9, 9, 9, 9]] (fun j => ([-1, -1, 0, -1] : List Int).getD j 0)
    (bMsk := grw_bMsk) grw_baseB_wf (by rw [hq]; exact nv_base_wf) grw_bMsk_wf (by decide +kernel) (by decide +kernel) grw_bToQ_new grw_bToMsk_new
    (by decide +kernel)
    (by have h : ∀ i, i < nv_tool.baseB.size + 1 → (nv_p4.getD i #[]).size = nv_tool.n := by decide +kernel
        exact h)
    (by decide +kernel)
    (by have h : ∀ i, i < nv_tool.baseQ.size → ((#[#[9, 9, 9, 9], #[9, 9, 9, 9]] : RnsPoly).getD i #[]).size = nv_tool.n := by decide +kernel
        exact h)
    (by decide +kernel) (by decide +kernel) (by decide +kernel) (by decide +kernel) (by decide +kernel) (by decide +kernel)
    (by have h : ∀ i, i < nv_tool.baseQ.size → 0 < nv_tool.prodBModQ.getD i 0 ∧ nv_tool.prodBModQ.getD i 0 < (nv_tool.baseQ.q i).value ∧
          ((nv_tool.prodBModQ.getD i 0 : Nat) : Int) ≡ nv_tool.baseB.prod [ZMOD (nv_tool.baseQ.q i).value] := by decide +kernel
        exact h)
    (by have h : ∀ i, i < nv_tool.baseB.size → ∀ j, j < nv_tool.n → (nv_p4.getD i #[]).getD j 0 < 2^64 ∧
          (((nv_p4.getD i #[]).getD j 0 : Nat) : Int) ≡ ([-1, -1, 0, -1] : List Int).getD j 0 [ZMOD (nv_tool.baseB.q i).value] := by decide +kernel
        exact fun i j hi hj => h i hi j hj)
    (by have h : ∀ j, j < nv_tool.n → (nv_p4.getD nv_tool.baseB.size #[]).getD j 0 ≤ nv_tool.mSk.value ∧
          (((nv_p4.getD nv_tool.baseB.size #[]).getD j 0 : Nat) : Int) ≡ ([-1, -1, 0, -1] : List Int).getD j 0 [ZMOD nv_tool.mSk.value] := by decide +kernel
        exact h)
    (by have h : ∀ j, j < nv_tool.n → 2 * |([-1, -1, 0, -1] : List Int).getD j 0| + 2 * (nv_tool.baseB.size : Int) * nv_tool.baseB.prod
          ≤ nv_tool.baseB.prod * nv_tool.mSk.value := by decide +kernel
        exact h)
  rw [hok]
  have hval : (GenR.fastbconv_sk (flatP nv_p4) (flatP #[#[9, 9, 9, 9], #[9, 9, 9, 9]]) nv_tool.baseQ.size nv_tool.baseB.size nv_tool.n nv_tool.mSk
      nv_tool.invProdBModMsk nv_tool.baseQ.base.toList nv_tool.prodBModQ.toList (gr_convF nv_tool.bToQ) (gr_convF nv_tool.bToMsk)).toOption
      = some [96, 96, 0, 96, 112, 112, 0, 112] := by decide +kernel
  rw [hok] at hval
  simpa [Except.toOption] using hval

/-! ### `fastbconv_m_tilde` on the canonical polynomial `nv_c0` (CRT values 10960, 1363, 2134, 7122) -/

def grw_bMt : RNSBase := (RNSBase.new [nv_tool.mTilde]).toOption.getD default
theorem grw_bMt_new : RNSBase.new [nv_tool.mTilde] = .ok grw_bMt := nv_ok_of_isOk default (by decide +kernel)
theorem grw_mt_mk : Modulus.mk? (2^32) = .ok nv_tool.mTilde := nv_ok_of_toOption (by decide +kernel)
theorem grw_baseBsk_new : RNSBase.new [nv_a2, nv_a3, nv_a0] = .ok nv_tool.baseBsk := nv_ok_of_toOption (by decide +kernel)
theorem grw_qToBsk_new : BaseConverter.new nv_tool.baseQ nv_tool.baseBsk = .ok nv_tool.qToBsk := nv_ok_of_toOption (by decide +kernel)
theorem grw_qToMt_new : BaseConverter.new nv_tool.baseQ grw_bMt = .ok nv_tool.qToMt := nv_ok_of_toOption (by decide +kernel)
theorem grw_baseBsk_wf : nv_tool.baseBsk.WF :=
  (RNSBase.new_wf (by
    intro m hm; simp only [List.mem_cons, List.not_mem_nil, or_false] at hm
    rcases hm with rfl | rfl | rfl
    · exact (Modulus.mk?_wf nv_aux_mk.2.2.1 (by decide)).1
    · exact (Modulus.mk?_wf nv_aux_mk.2.2.2 (by decide)).1
    · exact (Modulus.mk?_wf nv_aux_mk.1 (by decide)).1) (by decide) grw_baseBsk_new).1
theorem grw_bMt_wf : grw_bMt.WF :=
  (RNSBase.new_wf (by
    intro m hm; simp only [List.mem_cons, List.not_mem_nil, or_false] at hm
    rw [hm]; exact (Modulus.mk?_wf grw_mt_mk (by decide)).1) (by decide) grw_bMt_new).1

/-- `gr_fastbconv_m_tilde_crt` applies to `nv_c0` and a DIRTY destination; the generated function returns the flat form of `nv_p1` (NonVac.lean) -/
theorem grw_mt_crt : GenR.fastbconv_m_tilde (flatP nv_c0) (flatP #[#[9, 9, 9, 9], #[9, 9, 9, 9], #[9, 9, 9, 9], #[9, 9, 9, 9]]) nv_tool.baseQ.size
      nv_tool.baseBsk.size nv_tool.n nv_tool.mTilde nv_tool.baseQ.base.toList (gr_convF nv_tool.qToBsk) (gr_convF nv_tool.qToMt) = .ok (flatP nv_p1) := by
  have hq : nv_tool.baseQ = nv_base := nv_tool_shape.2.1
  obtain ⟨out, hok, -⟩ := gr_fastbconv_m_tilde_crt nv_tool nv_c0 #[#[9, 9, 9, 9], #[9, 9, 9, 9], #[9, 9, 9, 9], #[9, 9, 9, 9]]
    (fun j => [10960, 1363, 2134, 7122].getD j 0) (bMt := grw_bMt) (by rw [hq]; exact nv_base_wf) grw_baseBsk_wf grw_bMt_wf (by decide +kernel)
    (by decide +kernel) grw_qToBsk_new grw_qToMt_new (by decide +kernel)
    (by have h : ∀ i, i < nv_tool.baseQ.size → (nv_c0.getD i #[]).size = nv_tool.n := by decide +kernel
        exact h)
    (by decide +kernel)
    (by have h : ∀ i, i < nv_tool.baseBsk.size + 1 →
          ((#[#[9, 9, 9, 9], #[9, 9, 9, 9], #[9, 9, 9, 9], #[9, 9, 9, 9]] : RnsPoly).getD i #[]).size = nv_tool.n := by decide +kernel
        exact h)
    (by decide +kernel) (by decide +kernel) (by decide +kernel)
    (by have h : ∀ j, j < nv_tool.n → [10960, 1363, 2134, 7122].getD j 0 < nv_tool.baseQ.prod ∧ ∀ i, i < nv_tool.baseQ.size →
          (nv_c0.getD i #[]).getD j 0 < 2^64 ∧
          [10960, 1363, 2134, 7122].getD j 0 % (nv_tool.baseQ.q i).value = (nv_c0.getD i #[]).getD j 0 % (nv_tool.baseQ.q i).value := by decide +kernel
        exact h)
  rw [hok]
  have hval : (GenR.fastbconv_m_tilde (flatP nv_c0) (flatP #[#[9, 9, 9, 9], #[9, 9, 9, 9], #[9, 9, 9, 9], #[9, 9, 9, 9]]) nv_tool.baseQ.size
      nv_tool.baseBsk.size nv_tool.n nv_tool.mTilde nv_tool.baseQ.base.toList (gr_convF nv_tool.qToBsk) (gr_convF nv_tool.qToMt)).toOption
      = some (flatP nv_p1) := by decide +kernel
  rw [hok] at hval
  simpa [Except.toOption] using hval

/-! ### `RNSBase::decompose` / `decompose_array` on the base {97, 113}: 5000 = (53, 28), 10960 = (96, 112) -/

theorem grw_decompose : GenR.rnsbase_decompose [5000, 0] nv_base.size nv_base.base.toList = .ok [53, 28] := by
  obtain ⟨out, hok, hlen, hv⟩ := gr_rnsbase_decompose_residues nv_base_wf [5000, 0] rfl (by decide) (Or.inl (by decide))
  rw [hok]
  congr 1
  have h2 : out.length = 2 := hlen
  apply gr_ext_getD 0 _ _ h2
  intro j hj
  rw [h2] at hj
  rw [hv j hj]
  interval_cases j <;> rfl

theorem grw_decompose_refuses : GenR.rnsbase_decompose [5000, 0, 0] nv_base.size nv_base.base.toList = .error .refused :=
  gr_rnsbase_decompose_refuses nv_base [5000, 0, 0] (by decide)

theorem grw_decompose_array : GenR.rnsbase_decompose_array [5000, 0, 10960, 0] nv_base.size nv_base.base.toList = .ok [53, 96, 28, 112] := by
  obtain ⟨out, hok, hlen, hv⟩ := gr_rnsbase_decompose_array_residues nv_base_wf [[5000, 0], [10960, 0]] 2 (by decide) rfl (by decide) (by decide) (by decide)
  have hok' : GenR.rnsbase_decompose_array [5000, 0, 10960, 0] nv_base.size nv_base.base.toList = .ok out := hok
  rw [hok']
  congr 1
  have h4 : out.length = 4 := hlen
  apply gr_ext_getD 0 _ _ h4
  intro p hp
  rw [h4] at hp
  have h2 : nv_base.size = 2 := rfl
  have e : p = (p / 2) * 2 + p % 2 := by omega
  rw [e, hv (p / 2) (p % 2) (by omega) (by omega)]
  interval_cases p <;> rfl

/-! ### `exact_convey_array` / `decrypt_mod_t`: {97, 113} → {17} on `nv_c0` (CRT values 10960, 1363, 2134, 7122), DIRTY output buffer; the erased f64
    pipeline is instantiated with the exact rational rounding (cut to a u64) -/

theorem grw_eca_eq : GenR.exact_convey_array (flatP nv_c0) [9, 9, 9, 9] nv_conv.ibase.size nv_conv.obase.size nv_conv.ibase.invPunct.toList
      nv_conv.ibase.base.toList nv_conv.obase.base.toList (limbsOf nv_conv.ibase.size nv_conv.ibase.prod) (nv_conv.matrix.toList.map Array.toList)
      (fun l => exactRound nv_conv l % 2^64)
    = ((transpose nv_c0 4).toList.mapM (fun x => nv_conv.exactConvey x)) := by
  obtain ⟨e1, e2, hM⟩ := gr_matOK_new nv_base_wf nv_base17_wf nv_conv_new
  have h2 : nv_conv.ibase.size = 2 := rfl
  refine gr_exact_convey_array_eq nv_conv nv_base_wf nv_base17_wf hM rfl nv_c0 #[9, 9, 9, 9] 4 _ rfl ?_ ?_ rfl (by decide) (fun l => Nat.mod_lt _ (by norm_num)) ?_
  · intro i hi; rw [h2] at hi; interval_cases i <;> rfl
  · intro i j hi hj; rw [h2] at hi; interval_cases i <;> interval_cases j <;> decide +kernel
  · intro j hj; interval_cases j <;> decide +kernel

/-- the values: −1, 1363, 2134, −3839 (centred) modulo 17 -/
theorem grw_eca_val : GenR.exact_convey_array (flatP nv_c0) [9, 9, 9, 9] nv_conv.ibase.size nv_conv.obase.size nv_conv.ibase.invPunct.toList
      nv_conv.ibase.base.toList nv_conv.obase.base.toList (limbsOf nv_conv.ibase.size nv_conv.ibase.prod) (nv_conv.matrix.toList.map Array.toList)
      (fun l => exactRound nv_conv l % 2^64) = .ok [16, 3, 9, 3] := by
  rw [grw_eca_eq]; decide +kernel

/-! ### `fast_floor` end to end: Y = (−1, 1363, 2134, −3839) in base q ∪ Bsk (`nv_c0 ++ nv_p2` of NonVac.lean), dirty destination -/

theorem grw_ff_floor : ∃ out, GenR.fast_floor (flatP (nv_c0 ++ nv_p2)) (flatP #[#[9, 9, 9, 9], #[9, 9, 9, 9], #[9, 9, 9, 9]]) nv_tool.baseQ.size nv_tool.baseBsk.size
      nv_tool.n nv_tool.baseBsk.base.toList nv_tool.invProdQModBsk.toList (gr_convF nv_tool.qToBsk) = .ok out ∧
    ∀ j, j < nv_tool.n → ∃ alpha : Nat, alpha < nv_tool.baseQ.size ∧ ∀ i, i < nv_tool.baseBsk.size →
      ((out.getD (i * nv_tool.n + j) 0 : Nat) : Int) = (([-1, 1363, 2134, -3839] : List Int).getD j 0 / nv_tool.baseQ.prod - alpha) % (nv_tool.baseBsk.q i).value := by
  have hq : nv_tool.baseQ = nv_base := nv_tool_shape.2.1
  refine gr_fast_floor_floor nv_tool (nv_c0 ++ nv_p2) #[#[9, 9, 9, 9], #[9, 9, 9, 9], #[9, 9, 9, 9]] (fun j => ([-1, 1363, 2134, -3839] : List Int).getD j 0)
    (by rw [hq]; exact nv_base_wf) grw_baseBsk_wf grw_qToBsk_new (by decide +kernel) ?_ (by decide +kernel) ?_ (by decide +kernel) (by decide +kernel) ?_ ?_ ?_
  · have h : ∀ i, i < nv_tool.baseQ.size + nv_tool.baseBsk.size → ((nv_c0 ++ nv_p2).getD i #[]).size = nv_tool.n := by decide +kernel
    exact h
  · have h : ∀ i, i < nv_tool.baseBsk.size → ((#[#[9, 9, 9, 9], #[9, 9, 9, 9], #[9, 9, 9, 9]] : RnsPoly).getD i #[]).size = nv_tool.n := by decide +kernel
    exact h
  · have h : ∀ i, i < nv_tool.baseBsk.size → WFOp (nv_tool.baseBsk.q i) (nv_tool.invProdQModBsk.getD i default) ∧
        ((nv_tool.invProdQModBsk.getD i default).operand * nv_tool.baseQ.prod) % (nv_tool.baseBsk.q i).value = 1 := by decide +kernel
    exact h
  · have h : ∀ i, i < nv_tool.baseQ.size → ∀ j, j < nv_tool.n → ((nv_c0 ++ nv_p2).getD i #[]).getD j 0 < 2^64 ∧
        ((((nv_c0 ++ nv_p2).getD i #[]).getD j 0 : Nat) : Int) ≡ ([-1, 1363, 2134, -3839] : List Int).getD j 0 [ZMOD (nv_tool.baseQ.q i).value] := by decide +kernel
    exact fun i j hi hj => h i hi j hj
  · have h : ∀ i, i < nv_tool.baseBsk.size → ∀ j, j < nv_tool.n →
        ((nv_c0 ++ nv_p2).getD (nv_tool.baseQ.size + i) #[]).getD j 0 + (nv_tool.baseBsk.q i).value < 2^64 ∧
        ((((nv_c0 ++ nv_p2).getD (nv_tool.baseQ.size + i) #[]).getD j 0 : Nat) : Int) ≡ ([-1, 1363, 2134, -3839] : List Int).getD j 0 [ZMOD (nv_tool.baseBsk.q i).value] := by
      decide +kernel
    exact fun i j hi hj => h i hi j hj

/-! ### `RNSBase::compose` on {97, 113}: (53, 28) ↦ the limbs of 5000, and back -/

theorem grw_compose : GenR2.rnsbase_compose [53, 28] nv_base.size nv_base.base.toList nv_base.invPunct.toList (gr_punctRows nv_base) (limbsOf nv_base.size nv_base.prod)
    = .ok [5000, 0] := by
  obtain ⟨out, hok, hlen, hlim, hlt, hres⟩ := gr_rnsbase_compose_crt nv_base_wf [53, 28] rfl (by
    intro i hi
    have h2 : nv_base.size = 2 := rfl
    rw [h2] at hi
    interval_cases i <;> decide)
  have hval : (GenR2.rnsbase_compose [53, 28] nv_base.size nv_base.base.toList nv_base.invPunct.toList (gr_punctRows nv_base)
      (limbsOf nv_base.size nv_base.prod)).toOption = some [5000, 0] := by decide +kernel
  rw [hok] at hval ⊢
  simpa [Except.toOption] using hval

theorem grw_decompose_compose : ∃ out, GenR2.rnsbase_compose [53, 28] nv_base.size nv_base.base.toList nv_base.invPunct.toList (gr_punctRows nv_base)
      (limbsOf nv_base.size nv_base.prod) = .ok out ∧ GenR.rnsbase_decompose out nv_base.size nv_base.base.toList = .ok [53, 28] :=
  gr_decompose_compose_gen nv_base_wf [53, 28] rfl (by
    intro i hi
    have h2 : nv_base.size = 2 := rfl
    rw [h2] at hi
    interval_cases i <;> decide)

end HC
