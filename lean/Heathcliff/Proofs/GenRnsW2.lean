import Heathcliff.Proofs.GenRns8
import Heathcliff.Proofs.C01EW

/-!
  Non-vacuity of the hypothesis bundles of phase 4k (Proofs/GenRns7.lean, GenRns8.lean) in the concrete world of Proofs/NonVac.lean:
  `RNSTool::new(4, {97, 113}, 17)`, the phase `nv_phase` of a genuine BFV encryption of 3 + 16X + 9X³, a DIRTY destination buffer.
-/
namespace HC
attribute [local instance] nv_decRnsCanon nv_decWFOp nv_decModWF

theorem grw_dsr_sizes : nv_tool.prodTGammaModQ.size = nv_tool.baseQ.size ∧ nv_tool.negInvQModTGamma.size = 2 := by
  refine gr_dsr_sizes_of_new nv_m17_wf ?_ nv_tool_new
  intro m hm
  simp only [List.mem_cons, List.not_mem_nil, or_false] at hm
  rcases hm with rfl | rfl | rfl | rfl
  · exact (Modulus.mk?_wf nv_aux_mk.1 (by decide)).1
  · exact (Modulus.mk?_wf nv_aux_mk.2.1 (by decide)).1
  · exact (Modulus.mk?_wf nv_aux_mk.2.2.1 (by decide)).1
  · exact (Modulus.mk?_wf nv_aux_mk.2.2.2 (by decide)).1

theorem grw_phase_canon : RnsCanon nv_level nv_phase := by decide +kernel

/-- `gr_decrypt_scale_and_round_rounds` applies: all its hypotheses hold for the phase of a genuine encryption (CRT values 1939, 10309, 21, 5801),
    and the generated function overwrites the dirty destination with the message 3 + 16X + 9X³ -/
theorem grw_dsr_rounds : ∃ btg conv ig, nv_tool.baseTGamma = some btg ∧ nv_tool.qToTGamma = some conv ∧ nv_tool.invGammaModT = some ig ∧
    GenR.decrypt_scale_and_round (flatP nv_phase) [9, 9, 9, 9] nv_tool.baseQ.size nv_tool.baseQ.base.toList btg.size btg.base.toList nv_tool.n
        nv_tool.prodTGammaModQ.toList nv_tool.negInvQModTGamma.toList nv_tool.t nv_tool.gamma ig (gr_convF conv) = .ok [3, 16, 0, 9] := by
  obtain ⟨btg, conv, ig, h1, h2, h3, out, hok, hlen, hv⟩ := gr_decrypt_scale_and_round_rounds (l := nv_level) c01e_exDecOK grw_phase_canon
    #[9, 9, 9, 9] rfl (by show nv_tool.baseQ.size ≤ nv_tool.prodTGammaModQ.size; rw [grw_dsr_sizes.1])
    (by show 2 ≤ nv_tool.negInvQModTGamma.size; rw [grw_dsr_sizes.2])
    (by decide) (by decide) (by decide)
    (fun j => [1939, 10309, 21, 5801].getD j 0)
    (by
      have h : ∀ j, j < 4 → [1939, 10309, 21, 5801].getD j 0 < nv_tool.baseQ.prod ∧
          ∀ i, i < 2 → [1939, 10309, 21, 5801].getD j 0 % (nv_level.q i).value = (nv_phase.getD i #[]).getD j 0 := by decide +kernel
      exact h)
    (by
      have hQ : nv_tool.baseQ.prod = 10961 := by decide +kernel
      have hg : nv_tool.gamma.value = 2305843009213693561 := by decide +kernel
      have ht : nv_level.t.value = 17 := rfl
      have hs : nv_level.size = 2 := rfl
      intro j hj
      have htool : nv_level.tool = nv_tool := rfl
      rw [htool, hQ, hg, ht, hs]
      have hj4 : j < 4 := hj
      interval_cases j <;> decide +kernel)
  refine ⟨btg, conv, ig, h1, h2, h3, ?_⟩
  have hok' : GenR.decrypt_scale_and_round (flatP nv_phase) [9, 9, 9, 9] nv_tool.baseQ.size nv_tool.baseQ.base.toList btg.size btg.base.toList nv_tool.n
        nv_tool.prodTGammaModQ.toList nv_tool.negInvQModTGamma.toList nv_tool.t nv_tool.gamma ig (gr_convF conv) = .ok out := hok
  rw [hok']
  congr 1
  have h4 : out.length = 4 := hlen
  apply gr_ext_getD 0 _ _ h4
  intro j hj
  rw [h4] at hj
  rw [hv j hj]
  interval_cases j <;> decide +kernel

end HC
