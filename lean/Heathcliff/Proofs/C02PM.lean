/- C02 (task P, part 4): BGV `mod_switch_to_next` (`modSwitchScaleNext`) on EXACT phases.  Built on C05U (`c05u_scale_bgv`: every result
   polynomial is, in coefficient form, `Y mod q_i` with `Y = c05u_bgvY` of the CRT value `X` of the source coefficient; `c05u_bgvY_facts`:
   `q_L·Y = X + δ`, `t ∣ δ`, `−q_L·t < δ ≤ 0`).  With the phase algebra of part 1:  q_L·phase'(r) = phase(a) + Δ over the integers for suitable
   representatives, `t ∣ Δ`, `‖Δ‖∞ ≤ q_L·t·Σ_{k<size}‖s‖₁^k`; hence for `phase(a) ≡ v (mod Q)`: `phase'(r) ≡ v' (mod Q')` with `q_L·v' = v + Δ`. -/
import Heathcliff.Proofs.C02PL
namespace HC
open Finset

/-- `l'` is the level below `l` in the chain: last modulus dropped, the other moduli, their tables and the plain modulus shared -/
structure c02p_Next (l l' : Level) : Prop extends c05u_IsNext l l' where
  tbl : ∀ i, i < l'.size → l'.tbl i = l.tbl i
  t : l'.t = l.t

theorem c02p_modswitch_ph {l l' : Level} (h : c02p_LevelOK l) (h' : c02p_LevelOK l') (hto : c05u_ToolOK l) (hto' : c05u_ToolOK l')
    (hg : c05u_BgvOK l) (hn : c02p_Next l l') {sk : Array Int} (hsk : sk.size = l.n) {S : Nat}
    (hS : ∑ k ∈ range l.n, (c02p_sk sk k).natAbs ≤ S)
    {a r : Ct} (ha : c02p_Good l a) (hr : modSwitchScaleNext l a = .ok r) {v : Nat → Int}
    (hv : ∀ j, j < l.n → c02p_ph l sk a j ≡ v j [ZMOD l.tool.baseQ.prod]) :
    c02p_Good l' r ∧ r.cf = (a.cf * l.tool.invQLastModT) % l.t.value ∧ r.polys.size = a.polys.size ∧
    ∃ v' Δ : Nat → Int, (∀ j, j < l.n → c02p_ph l' sk r j ≡ v' j [ZMOD l'.tool.baseQ.prod]) ∧
      ∀ j, j < l.n → ((l.q (l.size - 1)).value : Int) * v' j = v j + Δ j ∧ (l.t.value : Int) ∣ Δ j ∧
        (Δ j).natAbs ≤ (l.q (l.size - 1)).value * l.t.value * c02x_geo S a.polys.size := by
  have htw := h.twf
  have ht2 := htw.two_le
  have ht61 := htw.lt
  have hpos' : 1 ≤ l'.size := by have := h'.lq.bwf.pos; rw [h'.lq.size_eq] at this; exact this
  have h2 : 2 ≤ l.size := by have := hn.size; omega
  have hfa := ha.cf_lt h
  obtain ⟨r', hr', hsz, hntt, hcf, hdiv⟩ := c05u_scale_bgv h.wf hto hg h2 h.bgv ha.ntt (by omega : a.cf < 2^64) ha.canon.canon
  rw [hr] at hr'
  obtain rfl := Except.ok.inj hr'
  set qL := (l.q (l.size - 1)).value with hqL
  have hqLwf := c05u_qwf hto (show l.size - 1 < l.size by omega)
  have hqL0 : 0 < qL := by have := hqLwf.two_le; omega
  have ht0 : 0 < l.t.value := by omega
  -- the result is good at the next level
  have hcop : Nat.Coprime r.cf l'.t.value := by
    rw [hcf, hn.t]
    have hi : Nat.Coprime l.tool.invQLastModT l.t.value := by
      have h1 : (l.tool.invQLastModT * qL) % l.t.value = 1 := hg.invt
      have : Nat.Coprime (l.tool.invQLastModT * qL) l.t.value := by
        unfold Nat.Coprime
        rw [Nat.gcd_comm, Nat.gcd_rec, h1, Nat.gcd_one_left]
      exact Nat.Coprime.coprime_mul_right this
    unfold Nat.Coprime
    rw [← Nat.gcd_rec, Nat.gcd_comm]
    exact Nat.Coprime.mul_left ha.unit hi
  have hgood : c02p_Good l' r := by
    refine ⟨⟨⟨by rw [hsz]; exact ha.canon.two_le, by rw [hsz]; exact ha.canon.le16, fun k hk => ?_⟩, ?_⟩, hntt, hcop⟩
    · exact c05u_bgvDivNtt_canon hn.toc05u_IsNext (hdiv k (by rw [← hsz]; exact hk))
    · unfold c02v_cfOk
      rw [h'.bgv]
      simp only
      rw [hn.t]
      refine ⟨fun h0 => ?_, by rw [hcf]; exact Nat.mod_lt _ ht0⟩
      rw [h0, hn.t, Nat.Coprime, Nat.gcd_zero_left] at hcop
      omega
  refine ⟨hgood, hcf, hsz, ?_⟩
  -- CRT values of the source, the integers the division returns
  have hex : ∀ k c, ∃ X, k < a.polys.size → c < l.n → c05u_IsCrt l (rnsIntt l (a.polys.getD k #[])) c X := by
    intro k c
    by_cases hk : k < a.polys.size
    · by_cases hc : c < l.n
      · obtain ⟨X, hX⟩ := c05u_crt_exists hto (c07s_rnsIntt_canon h.wf (ha.canon.canon k hk)) hc
        exact ⟨X, fun _ _ => hX⟩
      · exact ⟨0, fun _ h => absurd h hc⟩
    · exact ⟨0, fun h _ => absurd h hk⟩
  choose X hX using hex
  let Y : Nat → Nat → Int := fun k c => c05u_bgvY l.t.value qL l.tool.invQLastModT (X k c)
  have hLX : c02p_Lift l a (fun k c => (X k c : Int)) := by
    intro k hk i hi c hc
    have := (hX k c hk hc).2 i hi
    rw [c01o_rnsIntt_getD l _ hi] at this
    unfold c02p_coef
    rw [← this]
    show ((X k c % (l.q i).value : Nat) : Int) ≡ (X k c : Int) [ZMOD ((l.q i).value : Int)]
    rw [Int.natCast_mod]
    exact Int.mod_modEq _ _
  have hLY : c02p_Lift l' r Y := by
    intro k hk i hi c hc
    have hk' : k < a.polys.size := by rw [← hsz]; exact hk
    have hi' : i < l.size - 1 := by have := hn.size; omega
    have hc' : c < l.n := by rw [← hn.n]; exact hc
    obtain ⟨_, _, hval⟩ := (hdiv k hk').2 i hi'
    have := hval c hc' (X k c) (hX k c hk' hc')
    unfold c02p_coef
    rw [hn.tbl i hi, this, hn.q i hi]
    exact Int.mod_modEq _ _
  have hfacts : ∀ k c, ∃ δ : Int, (qL : Int) * Y k c = X k c + δ ∧ (l.t.value : Int) ∣ δ ∧ δ ≤ 0 ∧ -((qL * l.t.value : Nat) : Int) < δ :=
    fun k c => c05u_bgvY_facts ht0 hqL0 hg.invt (X k c)
  choose δ hδ using hfacts
  have hnpos := h.npos
  have hQQ : (l.tool.baseQ.prod : Int) = (l'.tool.baseQ.prod : Int) * (qL : Int) := by
    have := c05u_Q_next hto hto' hn.toc05u_IsNext
    unfold c05u_Q at this
    rw [this]; push_cast; rfl
  -- q_L·phZ(Y) = phZ(X) + phZ(δ)
  have hlin : ∀ j, j < l.n → (qL : Int) * c02x_phZ l.n (c02p_sk sk) a.polys.size Y j =
      c02x_phZ l.n (c02p_sk sk) a.polys.size (fun k c => (X k c : Int)) j + c02x_phZ l.n (c02p_sk sk) a.polys.size δ j := by
    intro j hj
    rw [← c02p_phZ_smul hnpos _ _ _ _ j hj, ← c02p_phZ_add hnpos _ _ _ _ j hj]
    exact c02p_phZ_congr _ _ _ _ _ (fun k _ c _ => (hδ k c).1) j hj
  have hpa : ∀ j, j < l.n → c02p_ph l sk a j ≡ c02x_phZ l.n (c02p_sk sk) a.polys.size (fun k c => (X k c : Int)) j
      [ZMOD l.tool.baseQ.prod] := fun j hj => c02p_phase_of_lift h.wf h.lq hsk ha.canon.toc02v_PolysCanon hLX hj
  have hpr : ∀ j, j < l.n → c02p_ph l' sk r j ≡ c02x_phZ l.n (c02p_sk sk) a.polys.size Y j [ZMOD l'.tool.baseQ.prod] := by
    intro j hj
    have := c02p_phase_of_lift h'.wf h'.lq (by rw [hn.n]; exact hsk) hgood.canon.toc02v_PolysCanon hLY (sk := sk) (j := j) (by rw [hn.n]; exact hj)
    rw [hn.n, hsz] at this
    exact this
  -- u j = (phZ(X) j − v j) / Q
  have hdvd : ∀ j, j < l.n → (l.tool.baseQ.prod : Int) ∣ c02x_phZ l.n (c02p_sk sk) a.polys.size (fun k c => (X k c : Int)) j - v j :=
    fun j hj => ((hpa j hj).symm.trans (hv j hj)).symm.dvd
  refine ⟨fun j => c02x_phZ l.n (c02p_sk sk) a.polys.size Y j
      - (l'.tool.baseQ.prod : Int) * ((c02x_phZ l.n (c02p_sk sk) a.polys.size (fun k c => (X k c : Int)) j - v j) / (l.tool.baseQ.prod : Int)),
    fun j => c02x_phZ l.n (c02p_sk sk) a.polys.size δ j, fun j hj => ?_, fun j hj => ⟨?_, ?_, ?_⟩⟩
  · refine (hpr j hj).trans ?_
    rw [Int.modEq_iff_dvd]
    exact ⟨-((c02x_phZ l.n (c02p_sk sk) a.polys.size (fun k c => (X k c : Int)) j - v j) / (l.tool.baseQ.prod : Int)), by ring⟩
  · obtain ⟨u, hu⟩ := hdvd j hj
    have hQ0 : (l.tool.baseQ.prod : Int) ≠ 0 := by
      have := h.lq.bwf.prod_pos
      exact_mod_cast (by omega : l.tool.baseQ.prod ≠ 0)
    show (qL : Int) * (c02x_phZ l.n (c02p_sk sk) a.polys.size Y j
      - (l'.tool.baseQ.prod : Int) * ((c02x_phZ l.n (c02p_sk sk) a.polys.size (fun k c => (X k c : Int)) j - v j) / (l.tool.baseQ.prod : Int)))
      = v j + c02x_phZ l.n (c02p_sk sk) a.polys.size δ j
    have e1 := sub_eq_iff_eq_add.mp hu
    rw [hu, Int.mul_ediv_cancel_left _ hQ0, mul_sub, hlin j hj, e1, hQQ]
    ring
  · exact c02p_phZ_dvd _ _ _ _ _ (fun k _ c _ => (hδ k c).2.1) j hj
  · have hb := c02x_phZ_bound l.n (c02p_sk sk) 1 (qL * l.t.value) a.polys.size δ (fun k _ c _ => by
      obtain ⟨_, _, d1, d2⟩ := hδ k c
      rw [Nat.one_mul]
      omega) j hj
    rw [Nat.one_mul] at hb
    exact le_trans hb (Nat.mul_le_mul_left _ (c02x_geo_le_S _ _ hS _))

end HC
