import Heathcliff.Proofs.NonVac
import Heathcliff.Proofs.GenDwt2

/-! Non-vacuity witnesses for the hypothesis bundles of translator phase 4e (Proofs/GenDwt2.lean): the table `nv_t17` (q = 17, N = 4,
    built by `NTTTables.new`, Proofs/NonVac.lean) satisfies every hypothesis of the source-to-mathematics statements, and the generated
    functions RUN inside the kernel on it. -/
namespace HC
open HC.GenD

/-- the lazy instance bundle at q = 17 -/
example : RealFwd (arith_ModArithLazy (GenN.mal_new nv_m17)) (modArithLazy nv_m17) (fun x => x < 4 * nv_m17.value) (WFOp nv_m17) :=
  gd_lazy_fwd nv_m17_wf _ rfl (gx_mal_new_two _ (by decide))
example : RealInv (arith_ModArithLazy (GenN.mal_new nv_m17)) (modArithLazy nv_m17) (fun x => x < 2 * nv_m17.value) (WFOp nv_m17) :=
  gd_lazy_inv nv_m17_wf _ rfl (gx_mal_new_two _ (by decide))

/-- every hypothesis of `gd_source_roundtrip` / `gd_source_inverse` holds for the coefficient vector [1, 2, 3, 4] -/
example : ∃ out, ntt_negacyclic_harvey (gd_view nv_t17) [1, 2, 3, 4] = .ok out ∧ out.length = 2^nv_t17.k ∧
    (∀ i, i < 2^nv_t17.k → out[i]? = some (evalSpec nv_t17 [1, 2, 3, 4].toArray i)) ∧
    inverse_ntt_negacyclic_harvey (gd_view nv_t17) out = .ok [1, 2, 3, 4] :=
  gd_source_roundtrip nv_t17_wf [1, 2, 3, 4] rfl (by decide)

/-- the generated code run by the kernel: X ↦ (ψ^(2 brev(i)+1))_i with ψ = 2 mod 17 (2, 2^5 = 15, 2^3 = 8, 2^7 = 9), and back -/
example : ntt_negacyclic_harvey (gd_view nv_t17) [0, 1, 0, 0] = .ok [2, 15, 8, 9] := by decide
example : inverse_ntt_negacyclic_harvey (gd_view nv_t17) [2, 15, 8, 9] = .ok [0, 1, 0, 0] := by decide
example : ntt_negacyclic_harvey_lazy (gd_view nv_t17) [67, 67, 67, 67] = .ok (nttLazy nv_t17 #[67, 67, 67, 67]).toList := by decide

end HC
