import Heathcliff.Gen.WordFns
import Heathcliff.Model.Word
import Heathcliff.Proofs.GenWord
import Heathcliff.Proofs.GenWord3

/-!
  Translator tie (phase 3), multi-word layer of src/util/basic.rs: `negate_uint` (and the fixed-width shifts below) generated into
  Gen/WordFns.lean against `negateUint` … of Model/Word.lean.  Helper names start with `gy_`.
-/
namespace HC

/-! ### negate_uint: `!operand[i]` rippled with the carry of `!operand[0] + 1` -/
theorem gy_map_take_drop_succ (a : List Nat) (i n : Nat) (hi : i < a.length) :
    ((a.drop i).take (n+1)).map notW = notW a[i] :: ((a.drop (i+1)).take n).map notW := by
  rw [List.drop_eq_getElem_cons hi, List.take_succ_cons, List.map_cons]

theorem gy_negate_uint_loop_ok (a : List Nat) : ∀ cnt i (r : List Nat) c, i + cnt = r.length → r.length ≤ a.length →
    GenW.negate_uint_loop1 a cnt i r c =
      .ok (r.take i ++ (addLimbs cnt (((a.drop i).take cnt).map notW) [] c).1) := by
  intro cnt
  induction cnt with
  | zero =>
    intro i r c h _
    rw [GenW.negate_uint_loop1, addLimbs, List.append_nil, List.take_of_length_le (by omega)]; rfl
  | succ n ih =>
    intro i r c h ha
    have hi : i < r.length := by omega
    have hia : i < a.length := by omega
    rw [GenW.negate_uint_loop1, addLimbs, gy_map_take_drop_succ a i n hia]
    simp only [gw_idx_eq _ _ hia, gx_setIdx_ok _ _ _ hi, bind, Except.bind, gw_add_u64_carry_eq,
      List.headD_cons, List.tail_cons, List.headD_nil, List.tail_nil]
    rw [ih (i+1) _ _ (by rw [List.length_set]; omega) (by rw [List.length_set]; exact ha), gx_take_set _ _ _ hi, List.append_assoc]
    rfl

theorem gy_negate_uint_loop_oob (a : List Nat) : ∀ cnt i (r : List Nat) c, i + cnt = r.length → a.length < r.length → i ≤ a.length →
    GenW.negate_uint_loop1 a cnt i r c = .error .oob := by
  intro cnt
  induction cnt with
  | zero => intro i r c h hs h1; omega
  | succ n ih =>
    intro i r c h hs h1
    have hi : i < r.length := by omega
    rw [GenW.negate_uint_loop1]
    by_cases hia : i < a.length
    · simp only [gw_idx_eq _ _ hia, gx_setIdx_ok _ _ _ hi, bind, Except.bind]
      exact ih (i+1) _ _ (by rw [List.length_set]; omega) (by rw [List.length_set]; exact hs) (by omega)
    · simp only [gx_idx_oob _ _ hia, bind, Except.bind]

/-- `negate_uint(operand, result)` = `negateUint operand result.len()` (including the out-of-bounds panics) -/
theorem gy_negate_uint_eq (a r : List Nat) : GenW.negate_uint a r = negateUint a r.length := by
  unfold GenW.negate_uint negateUint
  by_cases hbad : r.length = 0 ∨ a.length < r.length
  · rw [if_pos hbad]
    by_cases ha0 : 0 < a.length
    · by_cases hr0 : 0 < r.length
      · simp only [gw_idx_eq _ _ ha0, gw_idx_eq _ _ hr0, bind, Except.bind]
        exact gy_negate_uint_loop_oob a _ 1 _ _ (by rw [List.length_set]; omega) (by rw [List.length_set]; omega) (by omega)
      · simp only [gw_idx_eq _ _ ha0, gx_idx_oob _ _ hr0, bind, Except.bind]
    · simp only [gx_idx_oob _ _ ha0, bind, Except.bind]
  · rw [if_neg hbad]
    have hr0 : 0 < r.length := by omega
    have ha0 : 0 < a.length := by omega
    simp only [gw_idx_eq _ _ ha0, gw_idx_eq _ _ hr0, bind, Except.bind, gw_add_u64_eq]
    rw [gy_negate_uint_loop_ok a _ 1 _ _ (by rw [List.length_set]; omega) (by rw [List.length_set]; omega)]
    rw [gx_set_take_one _ _ hr0, gx_drop_one, gx_headD_zero a ha0, List.length_set]
    rfl

end HC
