import Heathcliff.Proofs.GenDwt
import Heathcliff.Proofs.GenNtt
import Heathcliff.Proofs.C09G

/-!
  Translator tie, phase 4e, second part: the butterfly network run with the LAZY MODULAR instance (`impl Arithmetic for ModArithLazy`,
  checked `+` / `-`), the wrappers of src/util/ntt.rs (`ntt_negacyclic_harvey(_lazy)`, `inverse_ntt_negacyclic_harvey(_lazy)`: call of the
  handler + final correction loop) against `nttLazy` / `ntt` / `inttLazy` / `intt` of Model/NTT.lean, and the composition with the C09
  theorems into one statement from source to mathematics.  Helper names start with `gd_`.
-/
namespace HC
open HC.GenD

variable {m : Modulus}

/-- FORWARD butterfly, lazy instance: inputs `< 4q`, root a well-formed Harvey operand ⇒ none of the checked operations traps -/
theorem gd_lazy_fwd (hm : m.WF) (s : GenN.ModArithLazy) (hs1 : s.modulus = m) (hs2 : s.two_times_modulus = 2 * m.value) :
    RealFwd (arith_ModArithLazy s) (modArithLazy m) (fun x => x < 4 * m.value) (WFOp m) := by
  have hq := hm.lt
  have hg : ∀ x, x < 4 * m.value → (modArithLazy m).guard x < 2 * m.value := by
    intro x hx
    show (if x ≥ 2 * m.value then x - 2 * m.value else x) < 2 * m.value
    split <;> omega
  refine ⟨fun x _ => gx_mal_guard_eq s m x hs2, fun y r _ _ => ?_, fun x y r hx hy hr => ?_, fun x y r hx hy hr => ?_⟩
  · show Except.ok (GenN.mal_mul_root s y r) = _
    rw [gx_mal_mul_root_eq s m y r hs1]
  · have h1 := hg x hx
    have h2 := (mulRoot_lazy hm hr (show y < 2^64 by omega)).1
    exact gx_mal_add_eq s m _ _ (by omega)
  · have h1 := hg x hx
    have h2 := (mulRoot_lazy hm hr (show y < 2^64 by omega)).1
    exact gx_mal_sub_eq s m _ _ hs2 (by omega) (by omega)

/-- INVERSE butterfly, lazy instance: inputs `< 2q` -/
theorem gd_lazy_inv (hm : m.WF) (s : GenN.ModArithLazy) (hs1 : s.modulus = m) (hs2 : s.two_times_modulus = 2 * m.value) :
    RealInv (arith_ModArithLazy s) (modArithLazy m) (fun x => x < 2 * m.value) (WFOp m) := by
  have hq := hm.lt
  refine ⟨fun x y hx hy => gx_mal_add_eq s m x y (by omega), fun x y _ _ => gx_mal_guard_eq s m _ hs2,
    fun x y hx hy => gx_mal_sub_eq s m x y hs2 (by omega) (by omega), fun x y r _ _ _ => ?_⟩
  show Except.ok (GenN.mal_mul_root s _ r) = _
  rw [gx_mal_mul_root_eq s m _ r hs1]

theorem gd_arrFn_mem (vals : List Nat) (p : Nat) (hp : p < vals.length) : arrFn vals.toArray p ∈ vals := by
  have : arrFn vals.toArray p = vals[p] := by simp [arrFn, Array.getD, hp]
  rw [this]; exact List.getElem_mem hp

/-- GENERATED = MODEL for the lazy modular instance, forward: values `< 4q`, table entries 1 .. 2^k-1 well-formed operands.
    The hypotheses are those of `fwd_lazy_sim`, which supplies the range invariant of every layer. -/
theorem gd_lazy_transform_to_rev (hm : m.WF) (s : GenN.ModArithLazy) (hs1 : s.modulus = m) (hs2 : s.two_times_modulus = 2 * m.value)
    (k : Nat) (hk : k < 64) (vals : List Nat) (hv : vals.length = 2^k) (ha : ∀ x ∈ vals, x < 4 * m.value)
    (roots : List MulOperand) (rf : Nat → MulOperand) (hrf : ∀ j, j < 2^k → roots[j]? = some (rf j))
    (hQ : ∀ j, 0 < j → j < 2^k → WFOp m (rf j)) :
    transform_to_rev (arith_ModArithLazy s) vals k roots none = .ok (runFwdA (modArithLazy m) k rf vals.toArray k).toList := by
  have hsz : vals.toArray.size = 2^k := by simpa using hv
  have h := gd_transform_to_rev_eq (gd_lazy_fwd hm s hs1 hs2) k hk vals hv roots rf hrf hQ
    (fun l hl p hp => by
      rw [(runFwdA_eq (modArithLazy m) k rf vals.toArray hsz l (by omega)).2 p hp]
      exact (fwd_lazy_sim hm k rf hQ (arrFn vals.toArray) (fun p hp => ha _ (gd_arrFn_mem vals p (by omega))) l (by omega) p hp).1)
    none (fun x (sc : MulOperand) => (modArithLazy m).mulRoot x sc) (fun s hs => by cases hs)
  exact h

/-- GENERATED = MODEL for the lazy modular instance, inverse (values `< 2q`), with the scalar pass `Some(scalar)`:
    `mul_scalar` is the lazy Harvey multiplication, which never traps -/
theorem gd_lazy_transform_from_rev (hm : m.WF) (s : GenN.ModArithLazy) (hs1 : s.modulus = m) (hs2 : s.two_times_modulus = 2 * m.value)
    (k : Nat) (hk : k < 64) (vals : List Nat) (hv : vals.length = 2^k) (ha : ∀ x ∈ vals, x < 2 * m.value)
    (roots : List MulOperand) (rf : Nat → MulOperand) (hrf : ∀ j, j < 2^k → roots[j]? = some (rf j))
    (hQ : ∀ j, 0 < j → j < 2^k → WFOp m (rf j)) (sc : MulOperand) :
    transform_from_rev (arith_ModArithLazy s) vals k roots (some sc)
      = .ok ((runInvA (modArithLazy m) k rf vals.toArray k).toList.map (fun x => (modArithLazy m).mulRoot x sc)) := by
  have hsz : vals.toArray.size = 2^k := by simpa using hv
  have h := gd_transform_from_rev_eq (gd_lazy_inv hm s hs1 hs2) k hk vals hv roots rf hrf hQ
    (fun l hl p hp => by
      rw [(runInvA_eq (modArithLazy m) k rf vals.toArray hsz l (by omega)).2 p hp]
      exact (inv_lazy_sim hm k rf hQ (arrFn vals.toArray) (fun p hp => ha _ (gd_arrFn_mem vals p (by omega))) l (by omega) p hp).1)
    (some sc) (fun x (sc : MulOperand) => (modArithLazy m).mulRoot x sc) (fun s' _ p _ => by
      show Except.ok (GenN.mal_mul_scalar s _ s') = _
      rw [gx_mal_mul_scalar_eq s m _ s' hs1])
  exact h

/-! ### the wrappers of src/util/ntt.rs -/

/-- what the wrappers read from `NTTTables`, for a table of the model (`ntt_handler` = `NTTHandler::new(&ModArithLazy::new(&modulus))`) -/
def gd_view (t : NTTTables) : GenD.NTTTablesView :=
  { coeff_count_power := t.k, modulus := t.modulus, inv_degree_modulo := t.invDegree, root_powers := t.rootPowers.toList,
    inv_root_powers := t.invRootPowers.toList, ntt_handler := GenN.mal_new t.modulus }

theorem gd_set_spec (F : Nat → Nat) (a : List Nat) (j g : Nat) (a0 : Nat → Nat) (hj : j < g)
    (ha : ∀ t, t < g → a[t]? = some (if t < j then F (a0 t) else a0 t))
    (L : List Nat) (hLj : L[j]? = some (F (a0 j))) (hLo : ∀ t, t ≠ j → L[t]? = a[t]?) :
    ∀ t, t < g → L[t]? = some (if t < j + 1 then F (a0 t) else a0 t) := by
  intro t ht
  by_cases hjt : t = j
  · subst hjt; rw [hLj, if_pos (by omega)]
  · rw [hLo t hjt, ha t ht]
    by_cases h2 : t < j
    · rw [if_pos h2, if_pos (by omega)]
    · rw [if_neg h2, if_neg (by omega)]

/-- the two final corrections as functions of one word -/
def gd_corr4 (q tq x : Nat) : Nat := let x := if x ≥ tq then x - tq else x; if x ≥ q then x - q else x
def gd_corr2 (q x : Nat) : Nat := if x ≥ q then x - q else x

/-- the final correction of `ntt_negacyclic_harvey`: two guarded subtractions per word (no hypothesis: each `-=` is guarded) -/
theorem gd_ntt_corr_loop (q tq g : Nat) (a0 : Nat → Nat) :
    ∀ fuel j (a : List Nat), j + fuel = g → a.length = g →
      (∀ t, t < g → a[t]? = some (if t < j then gd_corr4 q tq (a0 t) else a0 t)) →
      ∃ a', ntt_negacyclic_harvey_loop1 q tq fuel j a = .ok a' ∧ a'.length = g ∧
        ∀ t, t < g → a'[t]? = some (gd_corr4 q tq (a0 t)) := by
  intro fuel
  induction fuel with
  | zero =>
    intro j a hj hlen ha
    exact ⟨a, rfl, hlen, fun t ht => by rw [ha t ht, if_pos (by omega)]⟩
  | succ fuel ih =>
    intro j a hj hlen ha
    have hjg : j < g := by omega
    have hja : j < a.length := by omega
    have hx : a[j]? = some (a0 j) := by rw [ha j hjg, if_neg (Nat.lt_irrefl j)]
    have e1 : idxG a j = .ok (a0 j) := gd_idxG_ok hx
    have hset : ∀ v : Nat, idxG (a.set j v) j = .ok v := fun v => gd_idxG_ok (by rw [List.getElem?_set_self hja])
    have hset2 : ∀ v w : Nat, setIdxG (a.set j v) j w = .ok ((a.set j v).set j w) := fun v w =>
      gd_setIdxG_ok _ (by rw [List.length_set]; exact hja)
    unfold ntt_negacyclic_harvey_loop1
    simp only [e1, bind, Except.bind, pure, Except.pure]
    by_cases c1 : a0 j ≥ tq
    · simp only [c1, ↓reduceIte, gd_ckSub_ok c1, gd_setIdxG_ok _ hja, hset]
      by_cases c2 : a0 j - tq ≥ q
      · simp only [c2, ↓reduceIte, gd_ckSub_ok c2, hset2]
        apply ih (j + 1) _ (by omega) (by simp [hlen])
        exact gd_set_spec (gd_corr4 q tq) a j g a0 hjg ha _ (by simp [gd_corr4, hja, c1, c2]) (fun t ht => by
          rw [List.getElem?_set_ne (Ne.symm ht), List.getElem?_set_ne (Ne.symm ht)])
      · simp only [c2, ↓reduceIte]
        apply ih (j + 1) _ (by omega) (by simp [hlen])
        exact gd_set_spec (gd_corr4 q tq) a j g a0 hjg ha _ (by simp [gd_corr4, hja, c1, c2]) (fun t ht => by rw [List.getElem?_set_ne (Ne.symm ht)])
    · simp only [c1, ↓reduceIte, e1]
      by_cases c2 : a0 j ≥ q
      · simp only [c2, ↓reduceIte, gd_ckSub_ok c2, gd_setIdxG_ok _ hja]
        apply ih (j + 1) _ (by omega) (by simp [hlen])
        exact gd_set_spec (gd_corr4 q tq) a j g a0 hjg ha _ (by simp [gd_corr4, hja, c1, c2]) (fun t ht => by rw [List.getElem?_set_ne (Ne.symm ht)])
      · simp only [c2, ↓reduceIte]
        apply ih (j + 1) _ (by omega) hlen
        exact gd_set_spec (gd_corr4 q tq) a j g a0 hjg ha _ (by simp [gd_corr4, hx, c1, c2]) (fun t _ => rfl)

/-- the final correction of `inverse_ntt_negacyclic_harvey`: one guarded subtraction per word -/
theorem gd_intt_corr_loop (q g : Nat) (a0 : Nat → Nat) :
    ∀ fuel j (a : List Nat), j + fuel = g → a.length = g →
      (∀ t, t < g → a[t]? = some (if t < j then gd_corr2 q (a0 t) else a0 t)) →
      ∃ a', inverse_ntt_negacyclic_harvey_loop1 q fuel j a = .ok a' ∧ a'.length = g ∧
        ∀ t, t < g → a'[t]? = some (gd_corr2 q (a0 t)) := by
  intro fuel
  induction fuel with
  | zero =>
    intro j a hj hlen ha
    exact ⟨a, rfl, hlen, fun t ht => by rw [ha t ht, if_pos (by omega)]⟩
  | succ fuel ih =>
    intro j a hj hlen ha
    have hjg : j < g := by omega
    have hja : j < a.length := by omega
    have hx : a[j]? = some (a0 j) := by rw [ha j hjg, if_neg (Nat.lt_irrefl j)]
    have e1 : idxG a j = .ok (a0 j) := gd_idxG_ok hx
    unfold inverse_ntt_negacyclic_harvey_loop1
    simp only [e1, bind, Except.bind, pure, Except.pure]
    by_cases c2 : a0 j ≥ q
    · simp only [c2, ↓reduceIte, gd_ckSub_ok c2, gd_setIdxG_ok _ hja]
      apply ih (j + 1) _ (by omega) (by simp [hlen])
      exact gd_set_spec (gd_corr2 q) a j g a0 hjg ha _ (by simp [gd_corr2, hja, c2]) (fun t ht => by rw [List.getElem?_set_ne (Ne.symm ht)])
    · simp only [c2, ↓reduceIte]
      apply ih (j + 1) _ (by omega) hlen
      exact gd_set_spec (gd_corr2 q) a j g a0 hjg ha _ (by simp [gd_corr2, hx, c2]) (fun t _ => rfl)

/-- a correction loop over a whole array = `Array.map` -/
theorem gd_map_of_pointwise (F : Nat → Nat) (out : Array Nat) (a' : List Nat) (hlen : a'.length = out.size)
    (hv : ∀ t, t < out.size → a'[t]? = some (F (arrFn out t))) : a' = (out.map F).toList := by
  apply gd_ext
  · rw [hlen]; simp
  · intro p hp
    rw [hv p (by omega), Array.toList_map, List.getElem?_map, gd_arrFn_get out p (by omega)]
    rfl

variable {t : NTTTables}

theorem gd_k_lt (hw : t.WF) : t.k < 64 := by
  have h := hw.klt
  have : t.k + 1 < 62 := (Nat.pow_lt_pow_iff_right (by decide)).mp h
  omega

/-- `ntt_negacyclic_harvey_lazy` = `nttLazy` (inputs `< 4q`) -/
theorem gd_ntt_lazy_eq (hw : t.WF) (a : List Nat) (hs : a.length = 2^t.k) (ha : ∀ x ∈ a, x < 4 * t.modulus.value) :
    ntt_negacyclic_harvey_lazy (gd_view t) a = .ok (nttLazy t a.toArray).toList := by
  have hm := hw.mwf
  have e := gd_lazy_transform_to_rev hm (GenN.mal_new t.modulus) rfl (gx_mal_new_two _ (by have := hm.lt; omega)) t.k (gd_k_lt hw) a hs ha
    t.rootPowers.toList (arrFn t.rootPowers) (fun j hj => gd_arrFn_get _ j (by rw [hw.rp_size]; exact hj)) (fun j h0 h1 => (hw.rp j h0 h1).1)
  unfold ntt_negacyclic_harvey_lazy
  show transform_to_rev (arith_ModArithLazy (GenN.mal_new t.modulus)) a t.k t.rootPowers.toList none = _
  rw [e]; rfl

/-- `ntt_negacyclic_harvey` = `ntt` (inputs `< 4q`) -/
theorem gd_ntt_eq (hw : t.WF) (a : List Nat) (hs : a.length = 2^t.k) (ha : ∀ x ∈ a, x < 4 * t.modulus.value) :
    ntt_negacyclic_harvey (gd_view t) a = .ok (ntt t a.toArray).toList := by
  have hm := hw.mwf
  have hq := hm.lt
  have e1 := gd_ntt_lazy_eq hw a hs ha
  have htq : ((t.modulus.value <<< 1) % B64) = 2 * t.modulus.value := by
    have hB : B64 = 2^64 := by decide
    rw [Nat.shiftLeft_eq, hB, Nat.pow_one, Nat.mod_eq_of_lt (by omega), Nat.mul_comm]
  obtain ⟨a', e2, hlen, hv⟩ := gd_ntt_corr_loop t.modulus.value (2 * t.modulus.value) (nttLazy t a.toArray).size
    (arrFn (nttLazy t a.toArray)) (nttLazy t a.toArray).size 0 (nttLazy t a.toArray).toList (by omega) (by simp)
    (fun p hp => by rw [if_neg (by omega)]; exact gd_arrFn_get _ p hp)
  have e3 : a' = (ntt t a.toArray).toList := by
    exact gd_map_of_pointwise (gd_corr4 t.modulus.value (2 * t.modulus.value)) _ a' hlen hv
  unfold ntt_negacyclic_harvey
  have hl : (nttLazy t a.toArray).toList.length = (nttLazy t a.toArray).size := by simp
  simp only [e1, bind, Except.bind]
  show ntt_negacyclic_harvey_loop1 t.modulus.value ((t.modulus.value <<< 1) % B64) (nttLazy t a.toArray).toList.length 0
      (nttLazy t a.toArray).toList = _
  rw [htq, hl, e2, e3]

/-- `inverse_ntt_negacyclic_harvey_lazy` = `inttLazy` (inputs `< 2q`) -/
theorem gd_intt_lazy_eq (hw : t.WF) (a : List Nat) (hs : a.length = 2^t.k) (ha : ∀ x ∈ a, x < 2 * t.modulus.value) :
    inverse_ntt_negacyclic_harvey_lazy (gd_view t) a = .ok (inttLazy t a.toArray).toList := by
  have hm := hw.mwf
  obtain ⟨ri, _, _, h3⟩ := hw.irp
  have e := gd_lazy_transform_from_rev hm (GenN.mal_new t.modulus) rfl (gx_mal_new_two _ (by have := hm.lt; omega)) t.k (gd_k_lt hw) a hs ha
    t.invRootPowers.toList (arrFn t.invRootPowers) (fun j hj => gd_arrFn_get _ j (by rw [hw.irp_size]; exact hj))
    (fun j h0 h1 => (h3 j h0 h1).1) t.invDegree
  unfold inverse_ntt_negacyclic_harvey_lazy
  show transform_from_rev (arith_ModArithLazy (GenN.mal_new t.modulus)) a t.k t.invRootPowers.toList (some t.invDegree) = _
  rw [e]
  show Except.ok _ = Except.ok _
  congr 1
  unfold inttLazy transformFromRev
  rw [Array.toList_map]

/-- `inverse_ntt_negacyclic_harvey` = `intt` (inputs `< 2q`) -/
theorem gd_intt_eq (hw : t.WF) (a : List Nat) (hs : a.length = 2^t.k) (ha : ∀ x ∈ a, x < 2 * t.modulus.value) :
    inverse_ntt_negacyclic_harvey (gd_view t) a = .ok (intt t a.toArray).toList := by
  have e1 := gd_intt_lazy_eq hw a hs ha
  obtain ⟨a', e2, hlen, hv⟩ := gd_intt_corr_loop t.modulus.value (inttLazy t a.toArray).size
    (arrFn (inttLazy t a.toArray)) (inttLazy t a.toArray).size 0 (inttLazy t a.toArray).toList (by omega) (by simp)
    (fun p hp => by rw [if_neg (by omega)]; exact gd_arrFn_get _ p hp)
  have e3 : a' = (intt t a.toArray).toList := by
    exact gd_map_of_pointwise (gd_corr2 t.modulus.value) _ a' hlen hv
  unfold inverse_ntt_negacyclic_harvey
  have hl : (inttLazy t a.toArray).toList.length = (inttLazy t a.toArray).size := by simp
  simp only [e1, bind, Except.bind]
  show inverse_ntt_negacyclic_harvey_loop1 t.modulus.value (inttLazy t a.toArray).toList.length 0
      (inttLazy t a.toArray).toList = _
  rw [hl, e2, e3]

/-! ### composition with the C09 theorems: from the Rust source to the evaluation map -/

theorem gd_getD_of_mem (l : List Nat) (B : Nat) (h : ∀ x ∈ l, x < B) (j : Nat) (hj : j < l.length) : l.toArray.getD j 0 < B :=
  h _ (gd_arrFn_mem l j hj)

theorem gd_mem_of_getD (arr : Array Nat) (B : Nat) (h : ∀ i, i < arr.size → arr.getD i 0 < B) : ∀ x ∈ arr.toList, x < B := by
  intro x hx
  obtain ⟨i, hi, rfl⟩ := List.mem_iff_getElem.mp hx
  have hi' : i < arr.size := by simpa using hi
  have := h i hi'
  simpa [Array.getD, hi'] using this

theorem gd_toList_get (arr : Array Nat) (i : Nat) (hi : i < arr.size) : arr.toList[i]? = some (arr.getD i 0) :=
  gd_arrFn_get arr i hi

/-- FORWARD, from source to mathematics: the function generated from `NTTTables::ntt_negacyclic_harvey` (handler call + correction loop,
    run on the fields of a well-formed table) maps the coefficient vector `a` (words `< 4q`) to the canonical residues of the
    evaluations of `Σ a_j X^j` at `ψ^(2·brev(i)+1)` -/
theorem gd_ntt_source_eval (hw : t.WF) (a : List Nat) (hs : a.length = 2^t.k) (ha : ∀ x ∈ a, x < 4 * t.modulus.value) :
    ∃ out, ntt_negacyclic_harvey (gd_view t) a = .ok out ∧ out.length = 2^t.k ∧
      ∀ i, i < 2^t.k → out[i]? = some (evalSpec t a.toArray i) := by
  have hsz : a.toArray.size = 2^t.k := by simpa using hs
  obtain ⟨e1, e2⟩ := ntt_eval hw a.toArray hsz (fun j hj => gd_getD_of_mem a _ ha j (by omega))
  refine ⟨_, gd_ntt_eq hw a hs ha, by simpa using e1, fun i hi => ?_⟩
  rw [gd_toList_get _ i (by omega), e2 i hi]

/-- INVERSE ∘ FORWARD on the generated functions: on a canonical vector the generated inverse transform undoes the generated forward one -/
theorem gd_source_roundtrip (hw : t.WF) (a : List Nat) (hs : a.length = 2^t.k) (ha : ∀ x ∈ a, x < t.modulus.value) :
    ∃ out, ntt_negacyclic_harvey (gd_view t) a = .ok out ∧ out.length = 2^t.k ∧
      (∀ i, i < 2^t.k → out[i]? = some (evalSpec t a.toArray i)) ∧
      inverse_ntt_negacyclic_harvey (gd_view t) out = .ok a := by
  have hq := hw.mwf.two_le
  have ha4 : ∀ x ∈ a, x < 4 * t.modulus.value := fun x hx => by have := ha x hx; omega
  have hsz : a.toArray.size = 2^t.k := by simpa using hs
  obtain ⟨out, e1, e2, e3⟩ := gd_ntt_source_eval hw a hs ha4
  have eo : out = (ntt t a.toArray).toList := by
    have := gd_ntt_eq hw a hs ha4
    rw [e1] at this; injection this
  obtain ⟨s1, s2⟩ := ntt_sim hw a.toArray hsz (fun j hj => gd_getD_of_mem a _ ha4 j (by omega))
  refine ⟨out, e1, e2, e3, ?_⟩
  rw [eo, gd_intt_eq hw _ (by simpa using s1) (gd_mem_of_getD _ _ (fun i hi => by have := (s2 i (by omega)).2.1; omega))]
  congr 1
  have := intt_ntt hw a.toArray hsz (fun j hj => gd_getD_of_mem a _ ha j (by omega))
  simp only [Array.toArray_toList] at *
  rw [this]

/-- FORWARD ∘ INVERSE on the generated functions: on canonical evaluations `b` the generated inverse transform returns a canonical
    coefficient vector whose generated forward transform is `b` (so its evaluations at `ψ^(2·brev(i)+1)` are the `b_i`) -/
theorem gd_source_inverse (hw : t.WF) (b : List Nat) (hs : b.length = 2^t.k) (hb : ∀ x ∈ b, x < t.modulus.value) :
    ∃ a, inverse_ntt_negacyclic_harvey (gd_view t) b = .ok a ∧ a.length = 2^t.k ∧ (∀ x ∈ a, x < t.modulus.value) ∧
      ntt_negacyclic_harvey (gd_view t) a = .ok b ∧ ∀ i, i < 2^t.k → b[i]? = some (evalSpec t a.toArray i) := by
  have hq := hw.mwf.two_le
  have hb2 : ∀ x ∈ b, x < 2 * t.modulus.value := fun x hx => by have := hb x hx; omega
  have hsz : b.toArray.size = 2^t.k := by simpa using hs
  obtain ⟨s1, s2⟩ := intt_sim hw b.toArray hsz (fun j hj => gd_getD_of_mem b _ hb2 j (by omega))
  have hac : ∀ x ∈ (intt t b.toArray).toList, x < t.modulus.value := gd_mem_of_getD _ _ (fun i hi => (s2 i (by omega)).1)
  have hlen : (intt t b.toArray).toList.length = 2^t.k := by simpa using s1
  obtain ⟨out, e1, e2, e3⟩ := gd_ntt_source_eval hw _ hlen (fun x hx => by have := hac x hx; omega)
  have eo : out = b := by
    have h1 := gd_ntt_eq hw _ hlen (fun x hx => by have := hac x hx; omega)
    rw [e1] at h1; injection h1 with h1
    have h2 := ntt_intt hw b.toArray hsz (fun j hj => gd_getD_of_mem b _ hb j (by omega))
    simp only [Array.toArray_toList] at h1
    rw [h1, h2]
  rw [eo] at e1 e3
  exact ⟨_, gd_intt_eq hw b hs hb2, hlen, hac, e1, e3⟩

end HC
