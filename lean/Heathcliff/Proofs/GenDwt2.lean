import Heathcliff.Proofs.GenDwt
import Heathcliff.Proofs.GenNtt
import Heathcliff.Proofs.C09G

/-!
  Translator tie, phase 4e, second part: the butterfly network run with the LAZY MODULAR instance (`impl Arithmetic for ModArithLazy`,
  checked `+` / `-`), the wrappers of src/util/ntt.rs (`ntt_negacyclic_harvey(_lazy)`, `inverse_ntt_negacyclic_harvey(_lazy)`: call of the
  handler + final correction loop) against `nttLazy` / `ntt` / `inttLazy` / `intt` of Model/NTT.lean, and the composition with the C09
  theorems into one statement from source to mathematics.  Helper names start with `gd_`.
-/
namespace HC
open HC.GenD

variable {m : Modulus}

/-- FORWARD butterfly, lazy instance: inputs `< 4q`, root a well-formed Harvey operand ⇒ none of the checked operations traps -/
theorem gd_lazy_fwd (hm : m.WF) (s : GenN.ModArithLazy) (hs1 : s.modulus = m) (hs2 : s.two_times_modulus = 2 * m.value) :
    RealFwd (arith_ModArithLazy s) (modArithLazy m) (fun x => x < 4 * m.value) (WFOp m) := by
  have hq := hm.lt
  have hg : ∀ x, x < 4 * m.value → (modArithLazy m).guard x < 2 * m.value := by
    intro x hx
    show (if x ≥ 2 * m.value then x - 2 * m.value else x) < 2 * m.value
    split <;> omega
  refine ⟨fun x _ => gx_mal_guard_eq s m x hs2, fun y r _ _ => ?_, fun x y r hx hy hr => ?_, fun x y r hx hy hr => ?_⟩
  · show Except.ok (GenN.mal_mul_root s y r) = _
    rw [gx_mal_mul_root_eq s m y r hs1]
  · have h1 := hg x hx
    have h2 := (mulRoot_lazy hm hr (show y < 2^64 by omega)).1
    exact gx_mal_add_eq s m _ _ (by omega)
  · have h1 := hg x hx
    have h2 := (mulRoot_lazy hm hr (show y < 2^64 by omega)).1
    exact gx_mal_sub_eq s m _ _ hs2 (by omega) (by omega)

/-- INVERSE butterfly, lazy instance: inputs `< 2q` -/
theorem gd_lazy_inv (hm : m.WF) (s : GenN.ModArithLazy) (hs1 : s.modulus = m) (hs2 : s.two_times_modulus = 2 * m.value) :
    RealInv (arith_ModArithLazy s) (modArithLazy m) (fun x => x < 2 * m.value) (WFOp m) := by
  have hq := hm.lt
  refine ⟨fun x y hx hy => gx_mal_add_eq s m x y (by omega), fun x y _ _ => gx_mal_guard_eq s m _ hs2,
    fun x y hx hy => gx_mal_sub_eq s m x y hs2 (by omega) (by omega), fun x y r _ _ _ => ?_⟩
  show Except.ok (GenN.mal_mul_root s _ r) = _
  rw [gx_mal_mul_root_eq s m _ r hs1]

theorem gd_arrFn_mem (vals : List Nat) (p : Nat) (hp : p < vals.length) : arrFn vals.toArray p ∈ vals := by
  have : arrFn vals.toArray p = vals[p] := by simp [arrFn, Array.getD, hp]
  rw [this]; exact List.getElem_mem hp

/-- GENERATED = MODEL for the lazy modular instance, forward: values `< 4q`, table entries 1 .. 2^k-1 well-formed operands.
    The hypotheses are those of `fwd_lazy_sim`, which supplies the range invariant of every layer. -/
theorem gd_lazy_transform_to_rev (hm : m.WF) (s : GenN.ModArithLazy) (hs1 : s.modulus = m) (hs2 : s.two_times_modulus = 2 * m.value)
    (k : Nat) (hk : k < 64) (vals : List Nat) (hv : vals.length = 2^k) (ha : ∀ x ∈ vals, x < 4 * m.value)
    (roots : List MulOperand) (rf : Nat → MulOperand) (hrf : ∀ j, j < 2^k → roots[j]? = some (rf j))
    (hQ : ∀ j, 0 < j → j < 2^k → WFOp m (rf j)) :
    transform_to_rev (arith_ModArithLazy s) vals k roots none = .ok (runFwdA (modArithLazy m) k rf vals.toArray k).toList := by
  have hsz : vals.toArray.size = 2^k := by simpa using hv
  have h := gd_transform_to_rev_eq (gd_lazy_fwd hm s hs1 hs2) k hk vals hv roots rf hrf hQ
    (fun l hl p hp => by
      rw [(runFwdA_eq (modArithLazy m) k rf vals.toArray hsz l (by omega)).2 p hp]
      exact (fwd_lazy_sim hm k rf hQ (arrFn vals.toArray) (fun p hp => ha _ (gd_arrFn_mem vals p (by omega))) l (by omega) p hp).1)
    none (fun x (sc : MulOperand) => (modArithLazy m).mulRoot x sc) (fun s hs => by cases hs)
  exact h

/-- GENERATED = MODEL for the lazy modular instance, inverse (values `< 2q`), with the scalar pass `Some(scalar)`:
    `mul_scalar` is the lazy Harvey multiplication, which never traps -/
theorem gd_lazy_transform_from_rev (hm : m.WF) (s : GenN.ModArithLazy) (hs1 : s.modulus = m) (hs2 : s.two_times_modulus = 2 * m.value)
    (k : Nat) (hk : k < 64) (vals : List Nat) (hv : vals.length = 2^k) (ha : ∀ x ∈ vals, x < 2 * m.value)
    (roots : List MulOperand) (rf : Nat → MulOperand) (hrf : ∀ j, j < 2^k → roots[j]? = some (rf j))
    (hQ : ∀ j, 0 < j → j < 2^k → WFOp m (rf j)) (sc : MulOperand) :
    transform_from_rev (arith_ModArithLazy s) vals k roots (some sc)
      = .ok ((runInvA (modArithLazy m) k rf vals.toArray k).toList.map (fun x => (modArithLazy m).mulRoot x sc)) := by
  have hsz : vals.toArray.size = 2^k := by simpa using hv
  have h := gd_transform_from_rev_eq (gd_lazy_inv hm s hs1 hs2) k hk vals hv roots rf hrf hQ
    (fun l hl p hp => by
      rw [(runInvA_eq (modArithLazy m) k rf vals.toArray hsz l (by omega)).2 p hp]
      exact (inv_lazy_sim hm k rf hQ (arrFn vals.toArray) (fun p hp => ha _ (gd_arrFn_mem vals p (by omega))) l (by omega) p hp).1)
    (some sc) (fun x (sc : MulOperand) => (modArithLazy m).mulRoot x sc) (fun s' _ p _ => by
      show Except.ok (GenN.mal_mul_scalar s _ s') = _
      rw [gx_mal_mul_scalar_eq s m _ s' hs1])
  exact h

end HC
