/-
  Phase 4m (worker A, round 7): the decryptor code of src/encryptor.rs regenerated into `Heathcliff/Gen/DecFns.lean`
  (tools/rs2lean_dec.py) against the hand model of `Heathcliff/Model/Scheme.lean`.
  Part 1: the correction-factor fix-up of `bgv_decrypt`.
-/
import Heathcliff.Gen.DecFns
import Heathcliff.Proofs.GenRns2
import Heathcliff.Proofs.C08C
import Mathlib.Tactic.Linarith
namespace HC
open HC.GenDec

/-- the model's fix-up (the `if ct.cf ≠ 1` block of `bgvDecrypt`, Model/Scheme.lean) on lists -/
def bgvFixupL (cf : Nat) (t : Modulus) (d : List Nat) : R (List Nat) :=
  if cf ≠ 1 then do
    match ← tryInvert cf t.value with
    | none => .error .refused
    | some fix => d.mapM (fun x => mulMod x fix t)
  else pure d

/-- the same block as it stands in `bgvDecrypt` (arrays, `mapM'`) is `bgvFixupL` on the list of the array -/
theorem gd_bgvFixup_model (cf : Nat) (t : Modulus) (d : Array Nat) :
    (if cf ≠ 1 then do
        match ← tryInvert cf t.value with
        | none => (.error .refused : R (Array Nat))
        | some fix => mapM' d (fun x => mulMod x fix t)
      else pure d) = (bgvFixupL cf t d.toList >>= fun ys => .ok ys.toArray) := by
  unfold bgvFixupL
  by_cases h : cf = 1
  · simp [h]; rfl
  · simp only [ne_eq, h, not_false_eq_true, if_true]
    cases hti : tryInvert cf t.value with
    | error e => rfl
    | ok o =>
      cases o with
      | none => rfl
      | some fix => simp only [bind, Except.bind, gr_mapM'_eq]

/-- the tail of the generated `bgv_decrypt` after the fix-up: trimming -/
def gd_bgv_trim (d plan : List Nat) : R (List Nat × List Nat) := do
  let c ← get_significant_uint64_count_uint d
  pure (resizeL d (max c 1) 0, plan)

/-- GENERATED `bgv_decrypt` (skeleton) = refusal unless NTT form; the opaque steps 1, 2, 3 (phase, inverse NTT, `decrypt_mod_t` writing `dec`
    into the `n` words of the destination); the MODEL's fix-up; trimming.  Domain of the `try_invert_u64_mod_u64` tie: cf < 2^63, 2 ≤ t < 2^61. -/
theorem gd_bgv_decrypt_eq (ntt : Bool) (n k cf : Nat) (t : Modulus) (dec d plan : List Nat)
    (hcf : cf < 2^63) (ht2 : 2 ≤ t.value) (ht : t.value < 2^61) :
    dec_bgv_decrypt ntt n k cf t dec d plan =
      (if ntt = true then do
        let _ ← ckMul n k
        let d0 ← copyWhole (resizeL d n 0) dec
        let d1 ← bgvFixupL cf t d0
        gd_bgv_trim d1 (plan ++ [1] ++ [2] ++ [3])
      else .error .refused) := by
  unfold dec_bgv_decrypt
  by_cases hn : ntt = true
  · simp only [hn, if_true]
    cases hm : ckMul n k with
    | error e => rfl
    | ok v =>
      simp only [bind, Except.bind]
      cases hc : copyWhole (resizeL d n 0) dec with
      | error e => rfl
      | ok d0 =>
        simp only [bgvFixupL, GenW.try_invert_u64_mod, gw_try_invert_u64_mod_u64_eq cf t.value 1 hcf ht2 ht, gr_multiply_scalar_inplace_eq]
        by_cases h1 : cf = 1
        · simp [h1, gd_bgv_trim, bind, Except.bind, pure, Except.pure]
        · simp only [ne_eq, h1, not_false_eq_true, if_true]
          cases hti : tryInvert cf t.value with
          | error e => rfl
          | ok o =>
            cases o with
            | none => rfl
            | some fix =>
              simp only [bind, Except.bind, pure, Except.pure, decide_true, not_true_eq_false, if_false, Bool.not_eq_true]
              cases hmm : List.mapM (fun x => mulMod x fix t) d0 with
              | error e => rfl
              | ok d1 => simp [gd_bgv_trim, bind, Except.bind, pure, Except.pure]
  · simp [hn]

theorem gd_mapM_ok {f : Nat → R Nat} (g : Nat → Nat) : ∀ (l : List Nat), (∀ x ∈ l, f x = .ok (g x)) → l.mapM f = .ok (l.map g) := by
  intro l
  induction l with
  | nil => intro _; rfl
  | cons x xs ih =>
    intro h
    rw [List.mapM_cons, h x (by simp), ih (fun y hy => h y (by simp [hy]))]
    rfl

/-- EVERY plain modulus 2 ≤ t < 2^61 (prime or COMPOSITE) and every correction factor cf ≠ 1 coprime to t: the fix-up multiplies every
    coefficient by THE inverse of cf modulo t (Euclid, not Fermat). -/
theorem gd_bgvFixup_spec (t : Modulus) (hWF : t.WF) (ht2 : 2 ≤ t.value) (ht : t.value < 2^61) (cf : Nat) (hcf : cf < 2^63) (hcf1 : cf ≠ 1)
    (hg : Nat.gcd cf t.value = 1) (d : List Nat) (hd : ∀ x ∈ d, x < 2^64) :
    ∃ inv, inv < t.value ∧ (inv * cf) % t.value = 1 ∧ bgvFixupL cf t d = .ok (d.map (fun x => (x * inv) % t.value)) := by
  have hcf0 : cf ≠ 0 := by
    intro h0; rw [h0, Nat.gcd_zero_left] at hg; omega
  obtain ⟨r, hr, hrlt, hrm⟩ := (tryInvert_spec_partial ht2 ht (by omega) hcf).1 ⟨hcf0, hg⟩
  refine ⟨r, hrlt, hrm, ?_⟩
  unfold bgvFixupL
  simp only [ne_eq, hcf1, not_false_eq_true, if_true, hr, bind, Except.bind]
  exact gd_mapM_ok (fun x => (x * r) % t.value) d (fun x hx => mulMod_exact hWF (hd x hx) (by omega))

/-- a non-invertible correction factor is REFUSED (the `panic!("Correction factor is not invertible")`) -/
theorem gd_bgvFixup_refuses (t : Modulus) (ht2 : 2 ≤ t.value) (ht : t.value < 2^61) (cf : Nat) (hcf : cf < 2^63) (hcf1 : cf ≠ 1)
    (hg : cf = 0 ∨ Nat.gcd cf t.value ≠ 1) (d : List Nat) : bgvFixupL cf t d = .error .refused := by
  have := (tryInvert_spec_partial ht2 ht (by omega) hcf).2 hg
  unfold bgvFixupL
  simp only [ne_eq, hcf1, not_false_eq_true, if_true, this, bind, Except.bind]

end HC
