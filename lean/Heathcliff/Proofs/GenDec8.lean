/-
  Phase 4m, part 8: `get_significant_bit_count_uint` (src/util/basic.rs) regenerated in Gen/DecFns.lean = `bitCountUint` (Model/Word.lean)
  for every non-empty canonical multi-word value; the empty slice is refused by both (usize underflow of `len - 1`).
-/
import Heathcliff.Proofs.GenDec7
namespace HC
open HC.GenDec

theorem gd_toNat_zeros : ∀ {l : List Nat}, (∀ x ∈ l, x = 0) → toNat l = 0
  | [], _ => rfl
  | x :: xs, h => by
    have hx : x = 0 := h x (by simp)
    have := gd_toNat_zeros (l := xs) (fun y hy => h y (by simp [hy]))
    simp [toNat, hx, this]

theorem gd_bc_split {lo x s : Nat} (hlo : lo < 2^s) (hx : x ≠ 0) : bitCount (lo + 2^s * x) = s + bitCount x := by
  have hb1 : 1 ≤ bitCount x := by
    rcases Nat.eq_zero_or_pos (bitCount x) with h | h
    · exact absurd (dv_bc_eq_zero.1 h) hx
    · exact h
  have hge := dv_bc_ge hx
  have hlt := dv_bc_lt x
  apply dv_bc_unique
  · have e : s + bitCount x - 1 = s + (bitCount x - 1) := by omega
    rw [e, Nat.pow_add]
    calc 2^s * 2^(bitCount x - 1) ≤ 2^s * x := Nat.mul_le_mul_left _ hge
      _ ≤ lo + 2^s * x := Nat.le_add_left _ _
  · rw [Nat.pow_add]
    calc lo + 2^s * x < 2^s + 2^s * x := by omega
      _ = 2^s * (x + 1) := by rw [Nat.mul_add, Nat.mul_one, Nat.add_comm]
      _ ≤ 2^s * 2^(bitCount x) := Nat.mul_le_mul_left _ hlt
  · omega

/-- value of a multi-word number whose words above `c` are zero -/
theorem gd_toNat_upto (a : List Nat) (c : Nat) (hc : c < a.length) (hz : ∀ x ∈ a.drop (c + 1), x = 0) :
    toNat a = toNat (a.take c) + 2^(64 * c) * a[c] := by
  have hsplit : a = a.take c ++ (a[c] :: a.drop (c + 1)) := by
    rw [← List.drop_eq_getElem_cons hc, List.take_append_drop]
  conv_lhs => rw [hsplit]
  rw [toNat_appendC, List.length_take, Nat.min_eq_left (by omega)]
  simp [toNat, gd_toNat_zeros hz]

theorem gd_bits_value (a : List Nat) (ha : Limbs a) (c : Nat) (hc : c < a.length) (hz : ∀ x ∈ a.drop (c + 1), x = 0)
    (hex : c = 0 ∨ a[c] ≠ 0) : bitCount (toNat a) = 64 * c + bitCount a[c] := by
  rw [gd_toNat_upto a c hc hz]
  by_cases h0 : a[c] = 0
  · rcases hex with h | h
    · subst h; simp [h0, toNat]
    · exact absurd h0 h
  · exact gd_bc_split (toNat_take_lt ha c) h0

theorem gd_bits_exit (a : List Nat) (ha : Limbs a) (hlen : 64 * a.length < 2^64) (c : Nat) (hc : c < a.length)
    (hz : ∀ x ∈ a.drop (c + 1), x = 0) (hex : c = 0 ∨ a[c] ≠ 0) :
    (do let t3 ← ckMul 64 c; let t4 ← GenW.idx a c; let t5 ← GenW.get_significant_bit_count t4; ckAdd t3 t5 : R Nat) = .ok (bitCount (toNat a)) := by
  have hw : a[c] < 2^64 := ha _ (List.getElem_mem hc)
  have hb : bitCount a[c] ≤ 64 := dv_bc_le_iff.2 hw
  have hm : ckMul 64 c = .ok (64 * c) := by unfold ckMul; rw [if_pos (by simp only [B64]; omega)]
  have hadd : ckAdd (64 * c) (bitCount a[c]) = .ok (64 * c + bitCount a[c]) := by unfold ckAdd; rw [if_pos (by simp only [B64]; omega)]
  simp only [hm, gw_idx_eq a c hc, gw_get_significant_bit_count_eq _ hw, bind, Except.bind, pure, Except.pure, hadd]
  rw [gd_bits_value a ha c hc hz hex]

theorem gd_bits_loop (a : List Nat) (ha : Limbs a) (hlen : 64 * a.length < 2^64) : ∀ (c fuel : Nat) (hc : c < a.length), c < fuel →
    (∀ x ∈ a.drop (c + 1), x = 0) → get_significant_bit_count_uint_loop1 a fuel c = .ok (bitCount (toNat a)) := by
  intro c
  induction c with
  | zero =>
    intro fuel hc hf hz
    obtain ⟨f, rfl⟩ : ∃ f, fuel = f + 1 := ⟨fuel - 1, by omega⟩
    rw [get_significant_bit_count_uint_loop1]
    simp only [gt_iff_lt, Nat.lt_irrefl, if_false, bind, Except.bind, pure, Except.pure, Bool.false_eq_true]
    exact gd_bits_exit a ha hlen 0 hc hz (Or.inl rfl)
  | succ c ih =>
    intro fuel hc hf hz
    obtain ⟨f, rfl⟩ : ∃ f, fuel = f + 1 := ⟨fuel - 1, by omega⟩
    rw [get_significant_bit_count_uint_loop1]
    simp only [gt_iff_lt, Nat.zero_lt_succ, if_true, gw_idx_eq a (c + 1) hc, bind, Except.bind, pure, Except.pure]
    by_cases h0 : a[c + 1] = 0
    · have hsub : ckSub (c + 1) 1 = .ok c := by unfold ckSub; rw [if_pos (by omega)]; rfl
      simp only [h0, decide_true, if_true, hsub]
      apply ih f (by omega) (by omega)
      intro x hx
      rw [List.drop_eq_getElem_cons hc] at hx
      rcases List.mem_cons.1 hx with h | h
      · rw [h, h0]
      · exact hz x h
    · simp only [h0, decide_false, if_false, Bool.false_eq_true]
      have := gd_bits_exit a ha hlen (c + 1) hc hz (Or.inr h0)
      simp only [gw_idx_eq a (c + 1) hc, bind, Except.bind] at this
      exact this

/-- `get_significant_bit_count_uint` = `bitCountUint` (hand model, C08) on canonical values; `len < 2^58` words (the `64 * c` of the code) -/
theorem gd_get_significant_bit_count_uint_eq (a : List Nat) (ha : Limbs a) (hlen : 64 * a.length < 2^64) :
    get_significant_bit_count_uint a = bitCountUint a := by
  unfold get_significant_bit_count_uint bitCountUint
  cases a with
  | nil => rfl
  | cons x xs =>
    have hsub : ckSub (x :: xs).length 1 = .ok xs.length := by unfold ckSub; rw [if_pos (by simp)]; simp
    simp only [hsub, bind, Except.bind, List.isEmpty_cons, Bool.false_eq_true, if_false]
    exact gd_bits_loop (x :: xs) ha hlen xs.length ((x :: xs).length + 1) (by simp) (by simp) (by simp)

end HC
