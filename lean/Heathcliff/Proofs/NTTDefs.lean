/-
  Shared definitions for the C09 proofs: the exact-arithmetic instance of the butterfly network over any
  commutative ring, the negacyclic product by explicit sum, well-formed Harvey operands.
-/
import Heathcliff.Model.NTT
import Mathlib.Algebra.BigOperators.Intervals
import Mathlib.Algebra.BigOperators.Ring.Finset
import Mathlib.Data.ZMod.Basic
import Mathlib.Tactic.Ring
import Mathlib.Tactic.Linarith

namespace HC
open Finset

/-- the `Arithmetic` instance with exact ring operations (no laziness): add, sub, mul, identity guard -/
def exactArith (R : Type) [CommRing R] : Arith R R where
  add a b := a + b
  sub a b := a - b
  mulRoot a r := a * r
  guard a := a

/-- coefficient `c` of `a·b mod (X^n + 1)` by the explicit sum (wrap-around terms enter negated) -/
def negMulR {R : Type} [CommRing R] (n : Nat) (a b : Nat → R) (c : Nat) : R :=
  ∑ i ∈ range n, if i ≤ c then a i * b (c - i) else - (a i * b (n + c - i))

/-- a well-formed `MultiplyU64ModOperand`: operand reduced, quotient = ⌊operand·2^64 / q⌋ -/
def WFOp (m : Modulus) (o : MulOperand) : Prop :=
  o.operand < m.value ∧ o.quotient = o.operand * 2^64 / m.value

end HC
