/-
  Translator phase 4h (app mode): generic facts about the loop combinators of Gen/AppFns.lean (`forUp`, `forDown` with `Ctl`)
  and the ties of the regenerated block-size searches of the application layer to the hand model (Model/Matmul.lean).
  Helper prefix `ga_`.
-/
import Heathcliff.Proofs.GenAppBase
import Heathcliff.Gen.AppFns
import Heathcliff.Model.Matmul
import Heathcliff.Proofs.C20C

namespace HC
open HC.MM HC.GenApp

theorem ga_downLoop_eq {τ : Type} (g : τ → Nat → τ) : ∀ (k : Nat) (t : τ),
    downLoop g k t = ((List.range k).reverse.map (· + 1)).foldl g t := by
  intro k
  induction k with
  | zero => intro t; simp [downLoop]
  | succ k ih => intro t; rw [downLoop, ih, List.range_succ, List.reverse_append]; simp

theorem ga_downRange_eq (lo hi : Nat) : downRange lo hi = (List.range (hi + 1 - lo)).reverse.map (· + lo) := rfl

/-! ### `ceil_div` -/

theorem ga_mm_ceil_div {a b : Nat} (hb : 1 ≤ b) (h : a + b < 2^64) : mm_ceil_div a b = .ok (ceilDiv a b) := by
  have h' : a + b < B64 := by simpa [B64] using h
  have h1 : 1 ≤ a + b := by omega
  have h2 : b ≠ 0 := by omega
  simp [mm_ceil_div, ckAdd, ckSub, GenApp.ckDiv, ceilDiv, h', h1, h2, bind, Except.bind]

theorem ga_cv_ceil_div {a b : Nat} (hb : 1 ≤ b) (h : a + b < 2^64) : cv_ceil_div a b = .ok (ceilDiv a b) := by
  have h' : a + b < B64 := by simpa [B64] using h
  have h1 : 1 ≤ a + b := by omega
  have h2 : b ≠ 0 := by omega
  simp [cv_ceil_div, ckAdd, ckSub, GenApp.ckDiv, ceilDiv, h', h1, h2, bind, Except.bind]

/-! ### `MatmulHelper::new`, coefficient packing without LWE packing -/

def ga_ofBest (s : Best) : Nat × Nat × Nat × Nat := (s.b, s.i, s.o, s.c)

theorem ga_mm_new_loop1 (N id od : Nat) (obj : Objective) (b bc : Nat) (hb : 1 ≤ b) (hid : id < 2^20) (hod : od < 2^20)
    (hbc : bc < 2^20) (j : Nat) (hj : 1 ≤ j) (t : Best) :
    (j > id ∧ mm_new_loop1 id od N obj b bc j (ga_ofBest t) = .ok (.brk (ga_ofBest t))) ∨
    mm_new_loop1 id od N obj b bc j (ga_ofBest t) = .ok (.next (ga_ofBest (mmInner N id od obj b bc t j))) := by
  by_cases hji : j > id
  · left; refine ⟨hji, ?_⟩
    simp [mm_new_loop1, ga_ofBest, hji, pure, Except.pure]
  · right
    have hmin : (if N / b / j > od then od else N / b / j) = min (N / b / j) od := by
      simp only [Nat.min_def]; split <;> split <;> omega
    simp only [mm_new_loop1, ga_ofBest, mmInner, if_neg hji, ga_ckDiv hb, ga_ckDiv hj, bind, Except.bind, hmin]
    by_cases ho : min (N / b / j) od < 1
    · simp [ho, pure, Except.pure]
    · simp only [if_neg ho]
      have ho1 : 1 ≤ min (N / b / j) od := by omega
      have hole : min (N / b / j) od ≤ od := Nat.min_le_right _ _
      rw [ga_mm_ceil_div hj (by omega)]; simp only []
      rw [ga_mm_ceil_div ho1 (by omega)]; simp only []
      have hic : ceilDiv id j < 2^20 := Nat.lt_of_le_of_lt (c20_ceilDiv_le hj) hid
      have hoc : ceilDiv od (min (N / b / j) od) < 2^20 := Nat.lt_of_le_of_lt (c20_ceilDiv_le ho1) hod
      generalize ceilDiv id j = ic at hic ⊢
      generalize ceilDiv od (min (N / b / j) od) = oc at hoc ⊢
      have h1 : bc * ic < 2^20 * 2^20 := ga_mul_lt hbc hic
      have h2 : ic * oc < 2^20 * 2^20 := ga_mul_lt hic hoc
      have h3 : bc * oc < 2^20 * 2^20 := ga_mul_lt hbc hoc
      have h4 : bc * (ic + oc) < 2^20 * 2^21 := ga_mul_lt hbc (by omega)
      have f1 : ic + oc < B64 := by simp only [B64]; omega
      have f2 : bc * (ic + oc) < B64 := by simp only [B64]; omega
      have f3 : bc + ic < B64 := by simp only [B64]; omega
      have f4 : bc + ic + oc < B64 := by simp only [B64]; omega
      have f5 : bc * ic < B64 := by simp only [B64]; omega
      have f6 : ic * oc < B64 := by simp only [B64]; omega
      have f7 : bc * ic + ic * oc < B64 := by simp only [B64]; omega
      have f8 : bc * oc < B64 := by simp only [B64]; omega
      have f9 : bc * ic + ic * oc + bc * oc < B64 := by simp only [B64]; omega
      have key : ∀ c o, (if c ≥ t.c then pure (Ctl.next (t.b, t.i, t.o, t.c)) else pure (Ctl.next (b, j, o, c)) : R _)
          = .ok (.next (ga_ofBest (if c ≥ t.c then t else ⟨b, j, o, c⟩))) := by
        intro c o; by_cases hc : c ≥ t.c <;> simp [hc, ga_ofBest, pure, Except.pure]
      cases obj <;> simp only [mmCost, ckAdd, ckMul, f1, f2, f3, f4, f5, f6, f7, f8, f9, if_true] <;> exact key _ _

theorem ga_mm_new_loop2 (N bs id od : Nat) (obj : Objective) (hbs : bs < 2^20) (hid : id < 2^20) (hod : od < 2^20)
    (b : Nat) (hb1 : 1 ≤ b) (hb2 : b ≤ bs) (t : Best) :
    mm_new_loop2 bs id od N obj b (ga_ofBest t) = .ok (.next (ga_ofBest (mmOuter N bs id od obj t b))) := by
  have hbc : ceilDiv bs b < 2^20 := Nat.lt_of_le_of_lt (c20_ceilDiv_le hb1) hbs
  have hloop := ga_forUp_eq ga_ofBest (mmInner N id od obj b (ceilDiv bs b)) (fun j => j > id)
      (mm_new_loop1 id od N obj b (ceilDiv bs b))
      (fun j h => by show j + 1 > id; have : j > id := h; omega)
      (fun j t h => by have : j > id := h; simp [mmInner, this]) (N / b - 1) 1 t
      (fun j t' h1 _ => ga_mm_new_loop1 N id od obj b (ceilDiv bs b) hb1 hid hod hbc j h1 t')
  simp only [ga_ofBest] at hloop
  have hcd := ga_mm_ceil_div hb1 (show bs + b < 2^64 by omega)
  by_cases hbN : b > N
  · simp [mm_new_loop2, ga_ofBest, mmOuter, hcd, hbN, bind, Except.bind, pure, Except.pure]
  · have hm2 := ga_ckMul (show ceilDiv bs b * 2 < 2^64 by omega)
    by_cases hc : ceilDiv bs b * 2 > t.c
    · simp [mm_new_loop2, ga_ofBest, mmOuter, hcd, hbN, hm2, hc, bind, Except.bind, pure, Except.pure]
    · simp only [mm_new_loop2, ga_ofBest, mmOuter, hcd, hbN, hm2, hc, ga_ckDiv hb1, bind, Except.bind, if_false, hloop]
      simp [pure, Except.pure]

/-- the model's view of the generated `struct MatmulHelper` (the model does not keep the objective) -/
def ga_toHelper (h : MatmulHelper) : Helper :=
  ⟨h.batch_size, h.input_dims, h.output_dims, h.batch_block, h.input_block, h.output_block, h.poly_degree, h.pack_lwe⟩

theorem ga_ofBest_init : ga_ofBest Best.init = (0, 0, 0, 18446744073709551615) := by rfl

theorem ga_mm_search (N bs id od : Nat) (obj : Objective) (hbs : bs < 2^20) (hid : id < 2^20) (hod : od < 2^20) :
    forDown 1 (bs + 1 - 1) (0, 0, 0, 18446744073709551615) (mm_new_loop2 bs id od N obj)
      = .ok (ga_ofBest (mmSearch N bs id od obj)) := by
  have h := ga_forDown_eq ga_ofBest (mmOuter N bs id od obj) (mm_new_loop2 bs id od N obj) 1 bs Best.init
    (fun j t h1 h2 => ga_mm_new_loop2 N bs id od obj hbs hid hod j h1 (by omega) t)
  rw [ga_ofBest_init] at h
  rw [Nat.add_sub_cancel, h, mmSearch, ga_downLoop_eq]

/-- **`MatmulHelper::new` without LWE packing, generated = model** (all shapes below 2^20, every degree, every objective; the refusal
    of a zero dimension included) -/
theorem ga_mm_new_eq (bs id od N : Nat) (obj : Objective) (pe cl : Nat) (hbs : bs < 2^20) (hid : id < 2^20) (hod : od < 2^20) :
    (mm_new bs id od N obj false pe cl).map ga_toHelper = Helper.new bs id od N obj false := by
  unfold mm_new Helper.new
  by_cases h0 : bs > 0
  · by_cases h1 : id > 0
    · by_cases h2 : od > 0
      · by_cases h3 : N > 0
        · rw [if_pos h0, if_pos h1, if_pos h2, if_pos h3, if_neg (by omega)]
          simp only [Bool.false_eq_true, not_false_eq_true, if_true, if_false, bind, Except.bind, Except.map,
            ga_mm_search N bs id od obj hbs hid hod]
          simp [pure, Except.pure, ga_ofBest, ga_toHelper]
        · rw [if_pos h0, if_pos h1, if_pos h2, if_neg h3, if_pos (by omega)]; rfl
      · rw [if_pos h0, if_pos h1, if_neg h2, if_pos (by omega)]; rfl
    · rw [if_pos h0, if_neg h1, if_pos (by omega)]; rfl
  · rw [if_neg h0, if_pos (by omega)]; rfl

/-! ### `MatmulHelper::new` with LWE packing -/

theorem ga_mm_new_loop3 (N bs id od : Nat) (obj : Objective) (i : Nat) (hi1 : 1 ≤ i) (hi2 : i < 2^63)
    (hbs : bs < 2^20) (hid : id < 2^20) (hod : od < 2^20) (b : Nat) (hb1 : 1 ≤ b) (hb2 : b ≤ bs) (t : Best) :
    mm_new_loop3 bs id od N obj i b (ga_ofBest t) = .ok (.next (ga_ofBest (mmPackStep N bs id od obj i t b))) := by
  have hbc : ceilDiv bs b < 2^20 := Nat.lt_of_le_of_lt (c20_ceilDiv_le hb1) hbs
  have hcd := ga_mm_ceil_div hb1 (show bs + b < 2^64 by omega)
  by_cases hbN : b > N
  · simp [mm_new_loop3, ga_ofBest, mmPackStep, hcd, hbN, bind, Except.bind, pure, Except.pure]
  · have hmin : (if N / b / i > od then od else N / b / i) = min (N / b / i) od := by
      simp only [Nat.min_def]; split <;> split <;> omega
    simp only [mm_new_loop3, ga_ofBest, mmPackStep, hcd, if_neg hbN, ga_ckDiv hb1, ga_ckDiv hi1, bind, Except.bind, hmin]
    by_cases ho : min (N / b / i) od < 1
    · simp [ho, pure, Except.pure]
    · simp only [if_neg ho]
      have ho1 : 1 ≤ min (N / b / i) od := by omega
      have hole : min (N / b / i) od ≤ od := Nat.min_le_right _ _
      rw [ga_mm_ceil_div hi1 (by omega)]; simp only []
      rw [ga_mm_ceil_div ho1 (by omega)]; simp only []
      have hic : ceilDiv id i < 2^20 := Nat.lt_of_le_of_lt (c20_ceilDiv_le hi1) hid
      have hoc : ceilDiv od (min (N / b / i) od) < 2^20 := Nat.lt_of_le_of_lt (c20_ceilDiv_le ho1) hod
      generalize ceilDiv bs b = bc at hbc ⊢
      generalize ceilDiv id i = ic at hic ⊢
      generalize ceilDiv od (min (N / b / i) od) = oc at hoc ⊢
      have h1 : bc * ic < 2^20 * 2^20 := ga_mul_lt hbc hic
      have h2 : ic * oc < 2^20 * 2^20 := ga_mul_lt hic hoc
      have h3 : bc * oc < 2^20 * 2^20 := ga_mul_lt hbc hoc
      have hcd3 := ga_mm_ceil_div (a := bc * oc) hi1 (by omega)
      have h5 : ceilDiv (bc * oc) i ≤ bc * oc := c20_ceilDiv_le hi1
      have key : ∀ c o, (if c ≥ t.c then pure (Ctl.next (t.b, t.i, t.o, t.c)) else pure (Ctl.next (b, i, o, c)) : R _)
          = .ok (.next (ga_ofBest (if c ≥ t.c then t else ⟨b, i, o, c⟩))) := by
        intro c o; by_cases hc : c ≥ t.c <;> simp [hc, ga_ofBest, pure, Except.pure]
      cases obj <;> simp only [mmPackCost]
      all_goals
        have f1 : bc * ic < B64 := by simp only [B64]; omega
        have f2 : bc * oc < B64 := by simp only [B64]; omega
        have f3 : ceilDiv (bc * oc) i * 2 < B64 := by simp only [B64]; omega
        have f4 : bc * ic + ceilDiv (bc * oc) i * 2 < B64 := by simp only [B64]; omega
        have f5 : ic * oc < B64 := by simp only [B64]; omega
        have f6 : ic * oc + ceilDiv (bc * oc) i * 2 < B64 := by simp only [B64]; omega
        have f7 : bc * ic + ic * oc < B64 := by simp only [B64]; omega
        have f8 : bc * ic + ic * oc + ceilDiv (bc * oc) i * 2 < B64 := by simp only [B64]; omega
        simp only [ckAdd, ckMul, hcd3, f1, f2, f3, f4, f5, f6, f7, f8, if_true]
        exact key _ _

theorem ga_mm_pack_search (N bs id od : Nat) (obj : Objective) (i : Nat) (hi1 : 1 ≤ i) (hi2 : i < 2^63)
    (hbs : bs < 2^20) (hid : id < 2^20) (hod : od < 2^20) :
    forDown 1 (bs + 1 - 1) (0, 0, 0, 18446744073709551615) (mm_new_loop3 bs id od N obj i)
      = .ok (ga_ofBest (downLoop (mmPackStep N bs id od obj i) bs Best.init)) := by
  have h := ga_forDown_eq ga_ofBest (mmPackStep N bs id od obj i) (mm_new_loop3 bs id od N obj i) 1 bs Best.init
    (fun j t h1 h2 => ga_mm_new_loop3 N bs id od obj i hi1 hi2 hbs hid hod j h1 (by omega) t)
  rw [ga_ofBest_init] at h
  rw [Nat.add_sub_cancel, h, ga_downLoop_eq]

/-- **`MatmulHelper::new` with LWE packing, generated = model**, at the exact values of the two float expressions
    (`pe` = ⌊log2 ⌊N^0.33⌋⌋ = `packExp N`, `2^cl` = least power of two ≥ `input_dims`) -/
theorem ga_mm_new_pack_eq (bs id od N : Nat) (obj : Objective) (pe cl : Nat) (hN : N < 2^63)
    (hbs : bs < 2^20) (hid : id < 2^20) (hod : od < 2^20) (hpe : pe = packExp N) (hcl : 2^cl = ceilTwoPower id) :
    (mm_new bs id od N obj true pe cl).map ga_toHelper = Helper.new bs id od N obj true := by
  unfold mm_new Helper.new
  by_cases h0 : bs > 0
  · by_cases h1 : id > 0
    · by_cases h2 : od > 0
      · by_cases h3 : N > 0
        · rw [if_pos h0, if_pos h1, if_pos h2, if_pos h3, if_neg (by omega)]
          obtain ⟨hi1, hiN⟩ := c20_packI_bounds (N := N) h3 id
          have hp1 : 2 ^ packExp N ≤ N := c20_packExp_le h3
          have hsearch := ga_mm_pack_search N bs id od obj (packI N id) hi1 (by omega) hbs hid hod
          subst hpe
          by_cases hgt : 2 ^ packExp N > id
          · have hI : packI N id = 2 ^ cl := by simp [packI, hgt, hcl]
            rw [hI] at hsearch hiN
            simp only [not_true_eq_false, if_false, bind, Except.bind, Except.map, ga_ckPow (show 2 ^ packExp N < 2^64 by omega),
              hgt, if_true, ga_ckPow (show 2 ^ cl < 2^64 by omega), pure, Except.pure, hsearch, mmPackSearch, hI]
            simp [ga_ofBest, ga_toHelper]
          · have hI : packI N id = 2 ^ packExp N := by simp [packI, hgt]
            rw [hI] at hsearch
            simp only [not_true_eq_false, if_false, bind, Except.bind, Except.map, ga_ckPow (show 2 ^ packExp N < 2^64 by omega),
              hgt, pure, Except.pure, hsearch, mmPackSearch, hI]
            simp [ga_ofBest, ga_toHelper]
        · rw [if_pos h0, if_pos h1, if_pos h2, if_neg h3, if_pos (by omega)]; rfl
      · rw [if_pos h0, if_pos h1, if_neg h2, if_pos (by omega)]; rfl
    · rw [if_pos h0, if_neg h1, if_pos (by omega)]; rfl
  · rw [if_neg h0, if_pos (by omega)]; rfl

end HC
