/-
  C14 helper lemmas: when a round trip returns the object itself (`Exact`), closed under the combinators;
  the byte-width lemma of the compact format; what the ciphertext readers return (`norm`) in plain terms.
  Core Lean only.
-/
import Heathcliff.Proofs.Codec
namespace HC.Codec

/-- on valid objects a round trip is the identity -/
def Codec.Exact {α} (c : Codec α) : Prop := ∀ x, c.valid x → c.norm x = x

theorem scalarC_exact (s : SK) (n : Nat) : (scalarC s n).Exact := fun _ _ => rfl

theorem pairC_exact {α β} (a : Codec α) (b : Codec β) (ha : a.Exact) (hb : b.Exact) : (pairC a b).Exact := by
  intro ⟨x, y⟩ hv
  show (a.norm x, b.norm y) = (x, y)
  rw [ha x hv.1, hb y hv.2]

theorem depC_exact {α β} (a : Codec α) (b : α → Codec β) (hb : ∀ x, (b x).Exact) : (depC a b).Exact := by
  intro ⟨x, y⟩ hv
  show (x, (b x).norm y) = (x, y)
  rw [hb x y hv.2.2]

theorem guardC_exact {α} (c : Codec α) (p : α → Bool) (hc : c.Exact) : (guardC c p).Exact :=
  fun x hv => hc x hv.1

/-- `mapC` is exact on the objects that `g ∘ f` leaves unchanged -/
theorem mapC_norm {α β} (c : Codec α) (f : β → α) (g : α → β) (hc : c.Exact) (y : β)
    (hv : (mapC c f g).valid y) : (mapC c f g).norm y = g (f y) := by
  show g (c.norm (f y)) = g (f y)
  rw [hc (f y) hv]

theorem seqC_exact {α} (cs : List (Codec α)) (h : ∀ c ∈ cs, c.Exact) : (seqC cs).Exact := by
  induction cs with
  | nil =>
    intro xs hv
    cases xs with
    | nil => rfl
    | cons x xs => exact absurd hv (by simp [seqC, seqValid])
  | cons c cs ih =>
    intro xs hv
    cases xs with
    | nil => exact absurd hv (by simp [seqC, seqValid])
    | cons x xs =>
      obtain ⟨hx, hxs⟩ : c.valid x ∧ seqValid cs xs := hv
      show c.norm x :: seqNorm cs xs = x :: xs
      rw [h c (by simp) x hx]
      have := ih (fun d hd => h d (by simp [hd])) xs hxs
      simp only [seqC] at this
      rw [this]

theorem repC_exact {α} (n : Nat) (c : Codec α) (hc : c.Exact) : (repC n c).Exact :=
  seqC_exact _ (fun d hd => by rw [List.eq_of_mem_replicate hd]; exact hc)

theorem vecC_exact {α} (c : Codec α) (hc : c.Exact) : (vecC c).Exact := by
  intro l hv
  have := mapC_norm (depC usizeC (fun n => repC n c)) (fun (l : List α) => (l.length, l)) (fun p => p.2)
    (depC_exact _ _ (fun n => repC_exact n c hc)) l hv
  exact this

theorem u64C_exact : u64C.Exact := scalarC_exact _ _
theorem usizeC_exact : usizeC.Exact := scalarC_exact _ _
theorem u8C_exact : u8C.Exact := scalarC_exact _ _
theorem pidC_exact : pidC.Exact := repC_exact _ _ u64C_exact
theorem schemeC_exact : schemeC.Exact := guardC_exact _ _ u8C_exact

theorem boolC_exact : boolC.Exact := by
  intro b _
  cases b <;> rfl

/-- `read_u64_limited ∘ write_u64_limited` is the identity below `256^limit` -/
theorem limC_exact (l : Nat) : (limC l).Exact := by
  intro v hv
  have h1 := mapC_norm (repC l u8C) (leBytes l) leVal (repC_exact _ _ u8C_exact) v hv.1
  show (mapC (repC l u8C) (leBytes l) leVal).norm v = v
  rw [h1]
  exact leVal_leBytes l v hv.2

/-- `get_u64_limit`: the compact format's byte width suffices for every residue below the modulus -/
theorem u64Limit_width (q v : Nat) (h : v < q) : v < 256 ^ u64Limit q := by
  have hq : q ≠ 0 := by omega
  have h1 : q < 2 ^ (Nat.log2 q + 1) := Nat.lt_log2_self
  have h2 : bitCount q = Nat.log2 q + 1 := by simp [bitCount, hq]
  have h3 : (256 : Nat) ^ u64Limit q = 2 ^ (8 * u64Limit q) := by
    rw [show (256 : Nat) = 2 ^ 8 by rfl, ← Nat.pow_mul]
  have h4 : Nat.log2 q + 1 ≤ 8 * u64Limit q := by
    unfold u64Limit; rw [h2]; omega
  have h5 : 2 ^ (Nat.log2 q + 1) ≤ 2 ^ (8 * u64Limit q) := Nat.pow_le_pow_right (by decide) h4
  rw [h3]; omega

theorem repC_valid_of {α} (c : Codec α) : ∀ (n : Nat) (l : List α), l.length = n → (∀ x ∈ l, c.valid x) →
    (repC n c).valid l := by
  intro n
  induction n with
  | zero =>
    intro l hl _
    cases l with
    | nil => trivial
    | cons _ _ => simp at hl
  | succ n ih =>
    intro l hl h
    cases l with
    | nil => simp at hl
    | cons x xs =>
      have h1 : c.valid x := h x (by simp)
      have h2 := ih xs (by simpa using hl) (fun y hy => h y (by simp [hy]))
      exact ⟨h1, h2⟩

theorem limC_valid_of_lt (l v : Nat) (h : v < 256 ^ l) : (limC l).valid v :=
  ⟨repC_valid_of u8C l (leBytes l v) (leBytes_length l v)
      (fun b hb => by show b < 256 ^ 1; simpa using leBytes_lt l v b hb), h⟩

theorem polyC_exact (lv : Level) : (polyC lv).Exact :=
  seqC_exact _ (fun c hc => by
    obtain ⟨q, _, rfl⟩ := List.mem_map.mp hc
    exact repC_exact _ _ (limC_exact _))

theorem termsPolyC_exact (t : Nat) (lv : Level) : (termsPolyC t lv).Exact :=
  seqC_exact _ (fun c hc => by
    obtain ⟨q, _, rfl⟩ := List.mem_map.mp hc
    exact repC_exact _ _ (limC_exact _))

theorem extraC_exact (s : Nat) : (extraC s).Exact := by
  unfold extraC
  split
  · exact repC_exact _ _ u64C_exact
  · split
    · exact repC_exact _ _ u64C_exact
    · exact repC_exact _ _ u64C_exact

theorem ctBodyC_exact (lv : Level) (size : Nat) (first : Codec Poly) (hf : first.Exact) :
    (ctBodyC lv size first).Exact :=
  depC_exact _ _ (fun seeded =>
    pairC_exact _ _
      (seqC_exact _ (fun c hc => by
        split at hc
        · rw [List.mem_singleton.mp hc]; exact hf
        · have hc := List.mem_of_mem_take hc
          rcases List.mem_cons.mp hc with rfl | hc
          · exact hf
          · rw [List.eq_of_mem_replicate hc]; exact polyC_exact lv))
      (repC_exact _ _ u64C_exact))

theorem ctWireC_exact (ctx : Ctx) (first : Level → Codec Poly) (hf : ∀ lv, (first lv).Exact) :
    (ctWireC ctx first).Exact :=
  depC_exact _ _ (fun _ => depC_exact _ _ (fun _ =>
    pairC_exact _ _ boolC_exact (pairC_exact _ _ (extraC_exact _) (ctBodyC_exact _ _ _ (hf _)))))

/-- what `Ciphertext::deserialize ∘ serialize` returns, in plain terms -/
theorem ctC_norm (ctx : Ctx) (expand : List Nat → Level → Poly) (c : Ct) (hv : (ctC ctx expand).valid c) :
    (ctC ctx expand).norm c
      = ctOfWire ctx expand (fun _ _ p => p) (ctToWire ctx (fun _ _ p => p) c) :=
  mapC_norm _ _ _ (ctWireC_exact ctx polyC polyC_exact) c hv

/-- object invariants of an API-built ciphertext relative to its level: default scale unless CKKS,
    correction factor 1 unless BGV -/
def CtDefaults (ctx : Ctx) (c : Ct) : Prop :=
  let lv := (ctx.find c.pid).getD noLevel
  (lv.scheme ≠ 2 → c.scale = oneF64) ∧ (lv.scheme ≠ 3 → c.cf = 1)

theorem ctOfWire_toWire_id (ctx : Ctx) (expand : List Nat → Level → Poly) (c : Ct)
    (hd : CtDefaults ctx c) (hs : c.seed = []) :
    ctOfWire ctx expand (fun _ _ p => p) (ctToWire ctx (fun _ _ p => p) c) = c := by
  obtain ⟨h2, h3⟩ := hd
  cases c with
  | mk pid size ntt scale cf polys seed =>
    simp only at hs h2 h3
    subst hs
    cases polys <;>
    · simp only [ctOfWire, ctToWire, Ct.seeded, List.isEmpty_nil, Bool.not_true]
      by_cases e2 : ((ctx.find pid).getD noLevel).scheme = 2
      · have : ¬ ((ctx.find pid).getD noLevel).scheme = 3 := by omega
        simp [e2, h3 this]
      · by_cases e3 : ((ctx.find pid).getD noLevel).scheme = 3
        · simp [e3, h2 e2]
        · simp [e2, e3, h2 e2, h3 e3]

theorem ctOfWire_toWire_seeded (ctx : Ctx) (expand : List Nat → Level → Poly) (c : Ct)
    (hd : CtDefaults ctx c) (hs : c.seed ≠ []) :
    ctOfWire ctx expand (fun _ _ p => p) (ctToWire ctx (fun _ _ p => p) c)
      = { c with polys := c.polys ++ [expand c.seed ((ctx.find c.pid).getD noLevel)], seed := [] } := by
  obtain ⟨h2, h3⟩ := hd
  cases c with
  | mk pid size ntt scale cf polys seed =>
    simp only at hs h2 h3
    have hse : seed.isEmpty = false := by cases seed with
      | nil => exact absurd rfl hs
      | cons _ _ => rfl
    cases polys <;>
    · simp only [ctOfWire, ctToWire, Ct.seeded, hse, Bool.not_false]
      by_cases e2 : ((ctx.find pid).getD noLevel).scheme = 2
      · have : ¬ ((ctx.find pid).getD noLevel).scheme = 3 := by omega
        simp [e2, h3 this]
      · by_cases e3 : ((ctx.find pid).getD noLevel).scheme = 3
        · simp [e3, h2 e2]
        · simp [e2, e3, h2 e2, h3 e3]

/-- selected-terms format: what the reader returns -/
theorem ctTermsC_norm (ctx : Ctx) (expand : List Nat → Level → Poly)
    (fwd inv : Level → Nat → List Nat → List Nat) (terms : List Nat) (c : Ct)
    (hv : (ctTermsC ctx expand fwd inv terms).valid c) :
    (ctTermsC ctx expand fwd inv terms).norm c
      = ctOfWire ctx expand (fun lv ntt p => mapIdx (fun j vals =>
            let comp := scatter lv.n terms vals
            if ntt then fwd lv j comp else comp) 0 p)
          (ctToWire ctx (fun lv ntt p => mapIdx (fun j comp => gather terms (if ntt then inv lv j comp else comp)) 0 p) c) :=
  mapC_norm _ _ _ (ctWireC_exact ctx _ (termsPolyC_exact _)) c hv

end HC.Codec
