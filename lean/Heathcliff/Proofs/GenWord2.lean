import Heathcliff.Gen.WordFns
import Heathcliff.Model.Word
import Heathcliff.Proofs.GenWord

/-!
  Phase 2 of the translator tie, word layer: `MultiplyU64ModOperand::new` / `set_quotient` (src/util/uintsmallmod.rs) with the native
  `u128` division `divide_u128_u64_inplace` (src/util/basic.rs), against `MulOperand.new` of `Heathcliff/Model/Word.lean`.
  Helper names start with `gx_`.
-/
namespace HC
open HC.GenW

theorem gx_B128_eq : GenW.B128 = B64 * B64 := by decide

/-- `divide_u128_u64_inplace` on a numerator `(n0, n1)` of two words and a non-zero denominator:
    remainder (low word, 0) and the two words of the quotient -/
theorem gx_divide_u128_u64_inplace_eq (n0 n1 d : Nat) (h0 : n0 < 2^64) (h1 : n1 < 2^64) :
    GenW.divide_u128_u64_inplace n0 n1 d =
      if d = 0 then .error .other
      else .ok (((n1 <<< 64 ||| n0) % d) % B64, 0, ((n1 <<< 64 ||| n0) / d) % B64, ((n1 <<< 64 ||| n0) / d) / B64) := by
  unfold GenW.divide_u128_u64_inplace GenW.ckDiv
  by_cases hd : d = 0
  · simp only [hd, if_true, bind, Except.bind]
  · simp only [hd, if_false, bind, Except.bind]
    have hB : B64 = 2^64 := by decide
    have hn : (n1 <<< 64 ||| n0) = n1 * 2^64 + n0 := by
      rw [Nat.shiftLeft_eq, Nat.mul_comm, ← Nat.two_pow_add_eq_or_of_lt h0, Nat.mul_comm]
    have hlt : (n1 <<< 64 ||| n0) < GenW.B128 := by
      rw [hn, gx_B128_eq, hB]
      calc n1 * 2^64 + n0 < n1 * 2^64 + 2^64 := by omega
        _ = (n1 + 1) * 2^64 := by rw [Nat.add_mul, Nat.one_mul]
        _ ≤ 2^64 * 2^64 := Nat.mul_le_mul_right _ (by omega)
    have hq : (n1 <<< 64 ||| n0) / d * d ≤ (n1 <<< 64 ||| n0) := Nat.div_mul_le_self _ _
    have hmul : GenW.ckMul128 ((n1 <<< 64 ||| n0) / d) d = .ok ((n1 <<< 64 ||| n0) / d * d) := by
      unfold GenW.ckMul128; rw [if_pos (Nat.lt_of_le_of_lt hq hlt)]
    have hsub : ckSub (n1 <<< 64 ||| n0) ((n1 <<< 64 ||| n0) / d * d) = .ok ((n1 <<< 64 ||| n0) % d) := by
      unfold ckSub; rw [if_pos hq]
      have := Nat.div_add_mod (n1 <<< 64 ||| n0) d
      have h2 : d * ((n1 <<< 64 ||| n0) / d) = (n1 <<< 64 ||| n0) / d * d := Nat.mul_comm _ _
      congr 1; omega
    simp only [hmul, hsub, gw_shr64]
    rfl

/-- `MultiplyU64ModOperand::new(operand, modulus)` (via `set_quotient`) is the hand model's `MulOperand.new`.
    `operand < 2^64` is the type of the Rust parameter (the model's `Nat` is unbounded: above 2^64 the checked u128 product fails). -/
theorem gx_mulop_new_eq (y : Nat) (m : Modulus) (hy : y < 2^64) : GenW.mulop_new y m = MulOperand.new y m := by
  unfold GenW.mulop_new GenW.mulop_set_quotient MulOperand.new
  simp only [gx_divide_u128_u64_inplace_eq 0 y m.value (by decide) hy]
  have hn : (y <<< 64 ||| 0) = y * B64 := by rw [Nat.or_zero, Nat.shiftLeft_eq]; rfl
  by_cases hd : m.value = 0
  · simp only [hd, if_true, bind, Except.bind]
  · simp only [hd, if_false, bind, Except.bind, hn]

/-- `set_quotient` alone: recomputes the quotient field from the operand field -/
theorem gx_mulop_set_quotient_eq (s : MulOperand) (m : Modulus) (hy : s.operand < 2^64) :
    GenW.mulop_set_quotient s m = MulOperand.new s.operand m := by
  unfold GenW.mulop_set_quotient MulOperand.new
  simp only [gx_divide_u128_u64_inplace_eq 0 s.operand m.value (by decide) hy]
  have hn : (s.operand <<< 64 ||| 0) = s.operand * B64 := by rw [Nat.or_zero, Nat.shiftLeft_eq]; rfl
  by_cases hd : m.value = 0
  · simp only [hd, if_true, bind, Except.bind]
  · simp only [hd, if_false, bind, Except.bind, hn]

end HC
