import Heathcliff.Proofs.GenRns11

/-!
  Phase 4k, END TO END for `RNSTool::fast_floor` (generated and tied in phase 4f, composition left open there): `gr_fast_floor_eq` composed with the C10
  theorems `fastFloor_spec`, `fastFloor_scalar` and the CRT theorem of the conversion: the generated function returns `(⌊Y/Q⌋ − α) mod b_i`, `0 ≤ α < |q|`.
-/
namespace HC
open HC.GenW HC.GenR

theorem gr_ff_shape {r : RNSTool} {p convA out : RnsPoly}
    (hconv : r.qToBsk.fastConvertArray (p.extract 0 r.baseQ.size) r.n = .ok convA)
    (hn : ∀ i, i < r.baseBsk.size → (p.getD (r.baseQ.size + i) #[]).size = r.n) (h : r.fastFloor p = .ok out) :
    out.size = r.baseBsk.size ∧ ∀ i, i < r.baseBsk.size → (out.getD i #[]).size = r.n := by
  rw [gr_ff_model r p convA hconv hn] at h
  refine gr_bind_ok_shape (fun i y hy => ?_) h
  unfold gr_ffComp at hy
  rw [gr_mapM_length _ _ _ hy, List.length_range']

/-- **END TO END (BEHZ fast floor)**: the input holds, for coefficient `j`, the residues of `Y j` in base `q` (as the canonical residues of `Y j mod Q`) and in
    base `Bsk`; the function generated from the Rust source of `RNSTool::fast_floor` writes at position `i·n + j` of ANY destination buffer
    `(⌊Y_j/Q⌋ − α_j) mod b_i` with ONE `α_j ∈ [0, |q|)` for all `b_i ∈ Bsk` (the overshoot of the fast conversion) -/
theorem gr_fast_floor_floor (r : RNSTool) (p d : RnsPoly) (Y : Nat → Int)
    (hQ : r.baseQ.WF) (hBsk : r.baseBsk.WF) (hc : BaseConverter.new r.baseQ r.baseBsk = .ok r.qToBsk)
    (hp1 : p.size = r.baseQ.size + r.baseBsk.size) (hp2 : ∀ i, i < r.baseQ.size + r.baseBsk.size → (p.getD i #[]).size = r.n)
    (hd1 : d.size = r.baseBsk.size) (hd2 : ∀ i, i < r.baseBsk.size → (d.getD i #[]).size = r.n)
    (hinvs : r.baseBsk.size ≤ r.invProdQModBsk.size) (hsn : (r.baseQ.size + r.baseBsk.size) * r.n < 2^64)
    (hinv : ∀ i, i < r.baseBsk.size → WFOp (r.baseBsk.q i) (r.invProdQModBsk.getD i default) ∧
      ((r.invProdQModBsk.getD i default).operand * r.baseQ.prod) % (r.baseBsk.q i).value = 1)
    (hq : ∀ i j, i < r.baseQ.size → j < r.n → (p.getD i #[]).getD j 0 < 2^64 ∧
      (((p.getD i #[]).getD j 0 : Nat) : Int) ≡ Y j [ZMOD (r.baseQ.q i).value])
    (hb : ∀ i j, i < r.baseBsk.size → j < r.n → (p.getD (r.baseQ.size + i) #[]).getD j 0 + (r.baseBsk.q i).value < 2^64 ∧
      (((p.getD (r.baseQ.size + i) #[]).getD j 0 : Nat) : Int) ≡ Y j [ZMOD (r.baseBsk.q i).value]) :
    ∃ out, GenR.fast_floor (flatP p) (flatP d) r.baseQ.size r.baseBsk.size r.n r.baseBsk.base.toList r.invProdQModBsk.toList (gr_convF r.qToBsk) = .ok out ∧
      ∀ j, j < r.n → ∃ alpha : Nat, alpha < r.baseQ.size ∧ ∀ i, i < r.baseBsk.size →
        ((out.getD (i * r.n + j) 0 : Nat) : Int) = (Y j / r.baseQ.prod - alpha) % (r.baseBsk.q i).value := by
  have hco := gr_convOK_new hQ hBsk hc
  obtain ⟨ei, eo, hM⟩ := gr_matOK_new hQ hBsk hc
  have hQpos := hQ.prod_pos
  have hexg : ∀ i, i < r.baseQ.size → (p.extract 0 r.baseQ.size).getD i #[] = p.getD i #[] := fun i hi' => gr_extract_getD p _ i (by omega) hi'
  have hex1 : (p.extract 0 r.baseQ.size).size = r.qToBsk.ibase.size := by rw [ei]; simp; omega
  have hexw : ∀ i j, i < r.qToBsk.ibase.size → j < r.n → ((p.extract 0 r.baseQ.size).getD i #[]).getD j 0 < 2^64 := by
    intro i j hi' hj; rw [ei] at hi'; rw [hexg i hi']; exact (hq i j hi' hj).1
  have hmodel := gr_fca_model r.qToBsk (ei ▸ hQ) (eo ▸ hBsk) hM (p.extract 0 r.baseQ.size) r.n hex1 hexw
  have hcv : ∀ i j, i < r.baseBsk.size → j < r.n →
      ((((List.range r.qToBsk.obase.size).map (fun o => ((List.range r.n).map (fun j => gr_fcaD r.qToBsk (p.extract 0 r.baseQ.size) o j)).toArray)).toArray : RnsPoly).getD i #[]).getD j 0
        = gr_fcaD r.qToBsk (p.extract 0 r.baseQ.size) i j := by
    intro i j hi' hj
    rw [getD_rangeMap' _ _ _ (by rw [eo]; exact hi'), getD_rangeMap _ _ hj]
  generalize hconvA : (((List.range r.qToBsk.obase.size).map (fun o => ((List.range r.n).map (fun j => gr_fcaD r.qToBsk (p.extract 0 r.baseQ.size) o j)).toArray)).toArray : RnsPoly) = convA at hmodel hcv
  -- the conversion delivers x + αQ with x = Y mod Q
  have hcrt : ∀ j, j < r.n → ∃ alpha : Nat, alpha < r.baseQ.size ∧ ∀ i, i < r.baseBsk.size →
      (convA.getD i #[]).getD j 0 = ((Y j % (r.baseQ.prod : Int)).toNat + alpha * r.baseQ.prod) % (r.baseBsk.q i).value := by
    intro j hj
    have hx0 : 0 ≤ Y j % (r.baseQ.prod : Int) := Int.emod_nonneg _ (by omega)
    have hxl : (Y j % (r.baseQ.prod : Int)).toNat < r.qToBsk.ibase.prod := by
      rw [ei]
      have := Int.emod_lt_of_pos (Y j) (show (0 : Int) < r.baseQ.prod by omega)
      omega
    obtain ⟨alpha, ha, h1⟩ := gr_fcaD_crt r.qToBsk (ei ▸ hQ) (p.extract 0 r.baseQ.size) j hxl (by
      intro i hi'
      rw [ei] at hi' ⊢
      rw [hexg i hi']
      have hdvd : ((r.baseQ.q i).value : Int) ∣ (r.baseQ.prod : Int) := by exact_mod_cast hQ.q_dvd_prod hi'
      have e1 : (((Y j % (r.baseQ.prod : Int)).toNat % (r.baseQ.q i).value : Nat) : Int) = (((p.getD i #[]).getD j 0 % (r.baseQ.q i).value : Nat) : Int) := by
        rw [Int.natCast_mod, Int.natCast_mod, Int.toNat_of_nonneg hx0, Int.emod_emod_of_dvd _ hdvd]
        exact ((hq i j hi' hj).2).symm
      exact_mod_cast e1)
    rw [ei] at ha h1
    exact ⟨alpha, ha, fun i hi' => by rw [hcv i j hi' hj, h1 i, eo]⟩
  obtain ⟨out, hok, hv⟩ := fastFloor_spec hmodel (fun i hi' => ⟨hBsk.mwf i hi', (hinv i hi').1⟩) (fun i hi' => hp2 _ (by omega))
    (fun i j hi' hj => (hb i j hi' hj).1)
    (fun i j hi' hj => by
      obtain ⟨a, _, h1⟩ := hcrt j hj
      rw [h1 i hi']
      exact Nat.le_of_lt (Nat.mod_lt _ (by have := (hBsk.mwf i hi').two_le; omega)))
  obtain ⟨ho1, ho2⟩ := gr_ff_shape hmodel (fun i hi' => hp2 _ (by omega)) hok
  obtain ⟨hos, hon⟩ := gr_shape_cs' ho1 ho2
  rw [gr_fast_floor_eq r p d hco hp1 hp2 (fun i j hi' hj => (hq i j hi' hj).1) hd1 hd2 hinvs hsn, hok]
  refine ⟨flatP out, rfl, fun j hj => ?_⟩
  obtain ⟨alpha, ha, h1⟩ := hcrt j hj
  refine ⟨alpha, ha, fun i hi' => ?_⟩
  have hget : (flatP out).getD (i * r.n + j) 0 = (out.getD i #[]).getD j 0 := by
    unfold flatP
    rw [gr_flat_getD r.n _ i j hon (by omega) hj, gr_cs_getD, ← gr_arr_getD]
  rw [hget, hv i j hi' hj]
  have hx0 : 0 ≤ Y j % (r.baseQ.prod : Int) := Int.emod_nonneg _ (by omega)
  have hxc : ((Y j % (r.baseQ.prod : Int)).toNat : Int) = Y j % r.baseQ.prod := Int.toNat_of_nonneg hx0
  have hdW : (((convA.getD i #[]).getD j 0 : Nat) : Int) ≡ Y j % (r.baseQ.prod : Int) + (alpha : Int) * r.baseQ.prod [ZMOD (r.baseBsk.q i).value] := by
    rw [h1 i hi']
    refine (cast_mod_modEq _ _).trans ?_
    push_cast
    rw [hxc]
  have key := fastFloor_scalar (Q := r.baseQ.prod) (Y := Y j) (x := Y j % (r.baseQ.prod : Int)) (α := (alpha : Int))
    (by rw [h1 i hi']; exact Nat.le_of_lt (Nat.mod_lt _ (by have := (hBsk.mwf i hi').two_le; omega)))
    (hinv i hi').2 (hb i j hi' hj).2 hdW (Int.mod_modEq _ _).symm
  exact (key.2.2 hx0 (Int.emod_lt_of_pos _ (by omega))).2

end HC
