import Heathcliff.Proofs.GenRns7
import Heathcliff.Proofs.C01P

/-!
  Phase 4k, END TO END: the function generated from the Rust source of `RNSTool::decrypt_scale_and_round` computes `round(t·x̃/Q) mod t`
  (composition of `gr_decrypt_scale_and_round_eq` with C01's model-side theorem `c01p_decrypt_of_crt`).  Helper names start with `gr_`.
-/
namespace HC
open HC.GenW HC.GenR

/-- `RNSTool.new` (t ≠ 0) builds the two operand vectors with the lengths the code indexes them with -/
theorem gr_dsr_sizes_of_new {n : Nat} {q : RNSBase} {t : Modulus} {aux : List Modulus} {r : RNSTool}
    (ht : t.WF) (haux : ∀ m ∈ aux, m.WF) (h : RNSTool.new n q t aux = .ok r) :
    r.prodTGammaModQ.size = r.baseQ.size ∧ r.negInvQModTGamma.size = 2 := by
  have ht2 := ht.two_le
  obtain ⟨btg, conv, bt, cT, g, ig, ptg, niq, hlen, hqs, hbtg, hconv, hbt, hcT, hg, hig, hptg, hniq,
    rn, rq, rt, rgam, rbtg, rconv, rqT, rig, rptg, rniq⟩ := c01p_new_inv h (by omega)
  have hgam : (aux.getD 1 default).WF := by
    apply haux
    have e : aux.getD 1 default = aux[1] := by
      simp [List.getD, List.getElem?_eq_getElem (by omega : 1 < aux.length)]
    rw [e]
    exact List.getElem_mem _
  obtain ⟨_, hbtgbase⟩ := RNSBase.new_wf (ms := [t, aux.getD 1 default])
    (by intro m hm; simp only [List.mem_cons, List.not_mem_nil, or_false] at hm; rcases hm with rfl | rfl; exact ht; exact hgam)
    (by simp) hbtg
  constructor
  · rw [rptg, rq, List.size_toArray, gr_mapM_length _ _ _ hptg, Array.length_toList]; rfl
  · rw [rniq, List.size_toArray, gr_mapM_length _ _ _ hniq, hbtgbase]; rfl

/-- **END TO END (BFV decryption, BEHZ scale-and-round)**: on a level whose tool is the BEHZ tool of the level (`DecOK`: what `RNSTool.new` establishes),
    for every canonical input polynomial whose coefficient `j` has CRT value `X j < Q`, the function GENERATED from the Rust source of
    `RNSTool::decrypt_scale_and_round`, run on the flat buffer and ANY destination of `n` words, returns `n` words with
    word `j` = `round(t·x̃_j/Q) mod t` (x̃ the centred representative), under the BEHZ γ-condition `2γ|e| + 2kQ ≤ Qγ`. -/
theorem gr_decrypt_scale_and_round_rounds {l : Level} (hd : DecOK l) {ph : RnsPoly} (hph : RnsCanon l ph) (dst : Poly) (hdst : dst.size = l.n)
    (hops : l.tool.baseQ.size ≤ l.tool.prodTGammaModQ.size) (hnops : 2 ≤ l.tool.negInvQModTGamma.size)
    (hsn : l.size * l.n < 2^64) (h2n : 2 * l.n < 2^64) (hs64 : l.size < 2^64)
    (X : Nat → Nat)
    (hX : ∀ j, j < l.n → X j < l.tool.baseQ.prod ∧ ∀ i, i < l.size → X j % (l.q i).value = (ph.getD i #[]).getD j 0)
    (hnoise : ∀ j, j < l.n →
      2 * (l.tool.gamma.value : Int) *
          |(l.t.value : Int) * Spec.centred (X j) l.tool.baseQ.prod
            - (l.tool.baseQ.prod : Int) * Spec.roundDiv ((l.t.value : Int) * Spec.centred (X j) l.tool.baseQ.prod) l.tool.baseQ.prod|
        + 2 * (l.size : Int) * (l.tool.baseQ.prod : Int)
      ≤ (l.tool.baseQ.prod : Int) * (l.tool.gamma.value : Int)) :
    ∃ btg conv ig, l.tool.baseTGamma = some btg ∧ l.tool.qToTGamma = some conv ∧ l.tool.invGammaModT = some ig ∧
    ∃ out, GenR.decrypt_scale_and_round (flatP ph) dst.toList l.tool.baseQ.size l.tool.baseQ.base.toList btg.size btg.base.toList l.tool.n
        l.tool.prodTGammaModQ.toList l.tool.negInvQModTGamma.toList l.tool.t l.tool.gamma ig (gr_convF conv) = .ok out ∧
      out.length = l.n ∧ ∀ j, j < l.n →
        out.getD j 0 = Spec.imod (Spec.roundDiv ((l.t.value : Int) * Spec.centred (X j) l.tool.baseQ.prod) l.tool.baseQ.prod) l.t.value := by
  obtain ⟨btg, conv, ig, h1, h2, h3, hbtg, hbsz, hq0, hq1, hnew, higw, hig⟩ := hd.tool.tg
  have hsz := c01p_base_size hd
  obtain ⟨dm, hdok, hdsz, hdv⟩ := c01p_decrypt_of_crt hd hph X hX hnoise
  have hc : gr_ConvOK conv l.tool.baseQ.size 2 := by
    have := gr_convOK_new hd.tool.qwf hbtg hnew
    rw [hbsz] at this; exact this
  refine ⟨btg, conv, ig, h1, h2, h3, dm.toList, ?_, by rw [Array.length_toList, hdsz], fun j hj => ?_⟩
  · rw [gr_decrypt_scale_and_round_eq l.tool ph dst h1 h2 h3 hbsz hq0 hq1 hc (by rw [hsz]; exact hph.1)
      (fun i hi => by rw [hd.n_eq]; exact (hph.2 i (by omega)).1) (by rw [hd.n_eq]; exact hdst) hops hnops
      (by rw [hsz, hd.n_eq]; exact hsn) (by rw [hd.n_eq]; exact h2n) (by rw [hsz]; exact hs64), hdok]
    rfl
  · rw [← gr_arr_getD]; exact hdv j hj

end HC
