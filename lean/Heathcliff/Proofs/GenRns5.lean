import Heathcliff.Proofs.GenRns4
import Heathcliff.Proofs.GenRns2
import Heathcliff.Proofs.C10H

/-!
  Phase 4f of the translator tie: `BaseConverter::fast_convert_array` generated from src/util/rns.rs EQUALS the hand model's
  `BaseConverter.fastConvertArray` (column by column + transpose) on the flat layout, for every converter built by `BaseConverter.new` from
  well-formed bases, word inputs and ANY destination buffer of the right shape; composition with the C10 theorem (`fastConvert_spec`:
  result = x + αQ with one α < k for all output moduli).  Helper names start with `gr_`.
-/
namespace HC
open HC.GenW HC.GenR

/-- scaled residue `x_i · (Q/q_i)⁻¹ mod q_i` of coefficient `j` of component `i` -/
def gr_fcaT (c : BaseConverter) (p : RnsPoly) (i j : Nat) : Nat :=
  ((p.getD i #[]).getD j 0 * (c.ibase.invPunct.getD i default).operand) % (c.ibase.q i).value

/-- output residue: `(Σ_i T_i · (Q/q_i)) mod p_o` -/
def gr_fcaD (c : BaseConverter) (p : RnsPoly) (o j : Nat) : Nat :=
  ((List.range c.ibase.size).map (fun i => gr_fcaT c p i j * c.ibase.punct.getD i 0)).sum % (c.obase.q o).value

/-- what `BaseConverter.new` establishes about the matrix -/
def gr_MatOK (c : BaseConverter) : Prop :=
  c.matrix.size = c.obase.size ∧ ∀ o, o < c.obase.size → (c.matrix.getD o #[]).toList =
    (List.range c.ibase.size).map (fun i => c.ibase.punct.getD i 0 % (c.obase.q o).value)

theorem gr_matOK_new {ib ob : RNSBase} {c : BaseConverter} (hi : ib.WF) (ho : ob.WF) (hc : BaseConverter.new ib ob = .ok c) :
    c.ibase = ib ∧ c.obase = ob ∧ gr_MatOK c := by
  rw [BaseConverter.new_eq hi ho] at hc
  injection hc with hc
  subst hc
  refine ⟨rfl, rfl, by simp, ?_⟩
  intro o ho'
  have ho'' : o < ob.size := ho'
  simp [Array.getD, ho'']

theorem gr_transpose_toList (p : RnsPoly) (n : Nat) :
    (transpose p n).toList = (List.range n).map (fun j => p.map (fun comp => comp.getD j 0)) := by
  apply List.ext_getElem
  · simp [transpose]
  · intro i h1 h2
    simp [transpose]

theorem gr_col_getD (p : RnsPoly) (i j : Nat) (hi : i < p.size) : (p.map (fun comp => comp.getD j 0)).getD i 0 = (p.getD i #[]).getD j 0 := by
  simp [Array.getD, hi]

/-- one column of the model: succeeds with the explicit residues -/
theorem gr_fastConvert_ok (c : BaseConverter) (hi : c.ibase.WF) (ho : c.obase.WF) (hM : gr_MatOK c) (p : RnsPoly) (j : Nat)
    (hp : p.size = c.ibase.size) (hw : ∀ i, i < c.ibase.size → (p.getD i #[]).getD j 0 < 2^64) :
    c.fastConvert (p.map (fun comp => comp.getD j 0)) = .ok ((List.range c.obase.size).map (fun o => gr_fcaD c p o j)).toArray := by
  unfold BaseConverter.fastConvert
  rw [RNSH.scaled_ok c hi (fun i hi' => by rw [gr_col_getD p i j (by omega)]; exact hw i hi')]
  have key : (List.range c.obase.size).mapM (fun o =>
      dotProductMod ((List.range c.ibase.size).map fun i =>
        ((p.map (fun comp => comp.getD j 0)).getD i 0 * (c.ibase.invPunct.getD i default).operand) % (c.ibase.q i).value)
        (c.matrix.getD o #[]).toList (c.obase.q o))
      = .ok ((List.range c.obase.size).map fun o => gr_fcaD c p o j) := by
    apply RNSH.mapM_ok_of_forall
    intro o ho'
    have ho'' := List.mem_range.mp ho'
    rw [hM.2 o ho'', RNSH.dot_ok hi (ho.mwf o ho'') _ (fun i hi' =>
      Nat.mod_lt _ (by have := (hi.mwf i hi').two_le; omega))]
    unfold gr_fcaD gr_fcaT
    congr 3
    apply List.map_congr_left
    intro i hi'
    rw [gr_col_getD p i j (by have := List.mem_range.mp hi'; omega)]
  simp only [bind, Except.bind]
  rw [key]
  rfl

theorem gr_mapM_map {α β γ : Type} (g : α → β) (f : β → R γ) (l : List α) : (l.map g).mapM f = l.mapM (fun x => f (g x)) := by
  induction l with
  | nil => rfl
  | cons a l ih => rw [List.map_cons, gr_mapM_cons, gr_mapM_cons, ih]

/-- the model on a polynomial: succeeds, component `o` coefficient `j` = `gr_fcaD c p o j` -/
theorem gr_fca_model (c : BaseConverter) (hi : c.ibase.WF) (ho : c.obase.WF) (hM : gr_MatOK c) (p : RnsPoly) (n : Nat)
    (hp : p.size = c.ibase.size) (hw : ∀ i j, i < c.ibase.size → j < n → (p.getD i #[]).getD j 0 < 2^64) :
    c.fastConvertArray p n = .ok (((List.range c.obase.size).map (fun o => ((List.range n).map (fun j => gr_fcaD c p o j)).toArray)).toArray) := by
  unfold BaseConverter.fastConvertArray
  rw [gr_transpose_toList, gr_mapM_map, RNSH.mapM_ok_of_forall _ (fun j => ((List.range c.obase.size).map (fun o => gr_fcaD c p o j)).toArray) _
    (fun j hj => gr_fastConvert_ok c hi ho hM p j hp (fun i hi' => hw i j hi' (List.mem_range.mp hj)))]
  simp only [bind, Except.bind, pure, Except.pure]
  congr 1
  unfold untranspose
  apply Array.ext
  · simp
  · intro o h1 h2
    simp only [Array.size_ofFn] at h1
    simp only [Array.getElem_ofFn, List.getElem_toArray, List.getElem_map, List.getElem_range, List.map_toArray, List.map_map]
    congr 1
    apply List.map_congr_left
    intro j _
    simp only [Function.comp]
    exact getD_rangeMap _ _ h1

theorem gr_flatP_mk (m n : Nat) (F : Nat → Nat → Nat) :
    flatP (((List.range m).map (fun o => ((List.range n).map (fun j => F o j)).toArray)).toArray)
      = ((List.range' 0 m).map (fun o => (List.range' 0 n).map (F o))).flatten := by
  unfold flatP
  rw [List.map_map, List.range_eq_range', List.range_eq_range']
  rfl

/-- the generated `fast_convert_array` = the model, for a converter with well-formed bases and the matrix of `BaseConverter.new` -/
theorem gr_fca_core (c : BaseConverter) (hi : c.ibase.WF) (ho : c.obase.WF) (hM : gr_MatOK c) (p d : RnsPoly) (n : Nat)
    (hp : p.size = c.ibase.size) (hpn : ∀ i, i < c.ibase.size → (p.getD i #[]).size = n)
    (hw : ∀ i j, i < c.ibase.size → j < n → (p.getD i #[]).getD j 0 < 2^64)
    (hd : d.size = c.obase.size) (hdn : ∀ i, i < c.obase.size → (d.getD i #[]).size = n)
    (hkn : c.ibase.size * n < 2^64) (hmn : c.obase.size * n < 2^64) :
    GenR.fast_convert_array (flatP p) (flatP d) c.ibase.size c.obase.size c.ibase.invPunct.toList c.ibase.base.toList c.obase.base.toList
        (c.matrix.toList.map Array.toList)
      = (c.fastConvertArray p n).map flatP := by
  rw [gr_fca_model c hi ho hM p n hp hw]
  show _ = Except.ok (flatP _)
  rw [gr_flatP_mk]
  obtain ⟨hp1, hp2⟩ := gr_shape_cs' hp hpn
  obtain ⟨hd1, hd2⟩ := gr_shape_cs' hd hdn
  have hel : ∀ i j, ((p.toList.map Array.toList).getD i []).getD j 0 = (p.getD i #[]).getD j 0 := by
    intro i j; rw [gr_cs_getD, ← gr_arr_getD]
  unfold flatP
  refine gr_fca_list _ _ c.ibase.size c.obase.size n _ _ _ _ (gr_fcaT c p) (gr_fcaD c p) hi.pos hkn hmn hp1 hp2 hd1 hd2
    (by simp [RNSBase.size]) (by rw [Array.length_toList, hi.inv_size]) (by rw [List.length_map, Array.length_toList, hM.1]) (by simp [RNSBase.size]) ?_ ?_ ?_
  · intro i j hi' hj hop
    rw [hel, gr_q_toList, gr_ops_toList] at *
    rw [barrett64_exact (hi.mwf i hi') (hw i j hi' hj)]
    unfold gr_fcaT
    rw [hop, Nat.mul_one]
  · intro i j hi' hj _
    rw [hel, gr_q_toList, gr_ops_toList]
    exact RNSH.mulOperandMod_wf (hi.mwf i hi') (hi.inv_wf i hi').1 (hw i j hi' hj)
  · intro o j ho' hj
    have hrow : (c.matrix.toList.map Array.toList).getD o [] = (c.matrix.getD o #[]).toList := gr_cs_getD c.matrix o
    rw [hrow, hM.2 o ho', gr_q_toList, ← List.range_eq_range',
      RNSH.dot_ok hi (ho.mwf o ho') (fun i' => gr_fcaT c p i' j) (fun i hi' => by
        unfold gr_fcaT; exact Nat.mod_lt _ (by have := (hi.mwf i hi').two_le; omega))]
    rfl

/-- **`BaseConverter::fast_convert_array` (generated from src/util/rns.rs) = the hand model `BaseConverter.fastConvertArray`** on the flat layout
    (component `i`, coefficient `j` at `i·n + j`), for every converter built by `BaseConverter.new` from well-formed bases; the destination is
    ANY buffer of `|obase|` components of `n` words (its old contents are irrelevant: every position is written).  `self.ibase.len()`,
    `self.obase.len()`, `inv_punctured_prod_mod_base()[i]`, `base_at(i)` of both bases and the rows of `base_change_matrix` are inputs of the
    generated function, instantiated with the model converter's fields. -/
theorem gr_fast_convert_array_eq {ib ob : RNSBase} {c : BaseConverter} (hi : ib.WF) (ho : ob.WF) (hc : BaseConverter.new ib ob = .ok c)
    (p d : RnsPoly) (n : Nat)
    (hp : p.size = ib.size) (hpn : ∀ i, i < ib.size → (p.getD i #[]).size = n)
    (hw : ∀ i j, i < ib.size → j < n → (p.getD i #[]).getD j 0 < 2^64)
    (hd : d.size = ob.size) (hdn : ∀ i, i < ob.size → (d.getD i #[]).size = n)
    (hkn : ib.size * n < 2^64) (hmn : ob.size * n < 2^64) :
    GenR.fast_convert_array (flatP p) (flatP d) ib.size ob.size ib.invPunct.toList ib.base.toList ob.base.toList (c.matrix.toList.map Array.toList)
      = (c.fastConvertArray p n).map flatP := by
  obtain ⟨e1, e2, hM⟩ := gr_matOK_new hi ho hc
  subst e1; subst e2
  exact gr_fca_core c hi ho hM p d n hp hpn hw hd hdn hkn hmn

theorem gr_fcaD_crt (c : BaseConverter) (hi : c.ibase.WF) (p : RnsPoly) (j : Nat) {x : Nat} (hxl : x < c.ibase.prod)
    (hxr : ∀ i, i < c.ibase.size → x % (c.ibase.q i).value = (p.getD i #[]).getD j 0 % (c.ibase.q i).value) :
    ∃ alpha, alpha < c.ibase.size ∧ ∀ o, gr_fcaD c p o j = (x + alpha * c.ibase.prod) % (c.obase.q o).value := by
  obtain ⟨alpha, ha, hS⟩ := RNSH.crt_sum hi (xs := ((List.range c.ibase.size).map (fun i => (p.getD i #[]).getD j 0)).toArray) hxl
    (fun i hi' => by rw [getD_rangeMap _ _ hi']; exact hxr i hi')
  refine ⟨alpha, ha, fun o => ?_⟩
  unfold gr_fcaD gr_fcaT
  rw [← hS]
  congr 2
  apply List.map_congr_left
  intro i hi'
  rw [getD_rangeMap _ _ (List.mem_range.mp hi')]

/-- END TO END (composition with the C10 theorem): for a polynomial holding residues of integers `X j < Q`, the function generated from the Rust
    source returns, at position `o·n + j`, `(X j + α_j·Q) mod p_o` with ONE `α_j < k` common to all output moduli -/
theorem gr_fast_convert_array_crt {ib ob : RNSBase} {c : BaseConverter} (hi : ib.WF) (ho : ob.WF) (hc : BaseConverter.new ib ob = .ok c)
    (p d : RnsPoly) (n : Nat) (X : Nat → Nat)
    (hp : p.size = ib.size) (hpn : ∀ i, i < ib.size → (p.getD i #[]).size = n)
    (hw : ∀ i j, i < ib.size → j < n → (p.getD i #[]).getD j 0 < 2^64)
    (hd : d.size = ob.size) (hdn : ∀ i, i < ob.size → (d.getD i #[]).size = n)
    (hkn : ib.size * n < 2^64) (hmn : ob.size * n < 2^64)
    (hX : ∀ j, j < n → X j < ib.prod ∧ ∀ i, i < ib.size → X j % (ib.q i).value = (p.getD i #[]).getD j 0 % (ib.q i).value) :
    ∃ out, GenR.fast_convert_array (flatP p) (flatP d) ib.size ob.size ib.invPunct.toList ib.base.toList ob.base.toList (c.matrix.toList.map Array.toList)
        = .ok out ∧ out.length = ob.size * n ∧
      ∀ j, j < n → ∃ alpha, alpha < ib.size ∧ ∀ o, o < ob.size → out.getD (o * n + j) 0 = (X j + alpha * ib.prod) % (ob.q o).value := by
  obtain ⟨e1, e2, hM⟩ := gr_matOK_new hi ho hc
  subst e1; subst e2
  rw [gr_fca_core c hi ho hM p d n hp hpn hw hd hdn hkn hmn, gr_fca_model c hi ho hM p n hp hw]
  refine ⟨_, rfl, ?_, ?_⟩
  · rw [gr_flatP_mk, gr_flat_length n _ (by
      intro l hl; obtain ⟨o, _, rfl⟩ := List.mem_map.mp hl; rw [List.length_map, List.length_range']), List.length_map, List.length_range']
  · intro j hj
    obtain ⟨alpha, ha, hal⟩ := gr_fcaD_crt c hi p j (hX j hj).1 (hX j hj).2
    refine ⟨alpha, ha, fun o ho' => ?_⟩
    rw [gr_flatP_mk, gr_flat_getD n _ o j (by
      intro l hl; obtain ⟨o', _, rfl⟩ := List.mem_map.mp hl; rw [List.length_map, List.length_range']) (by rw [List.length_map, List.length_range']; exact ho') hj,
      gr_getD_map_range' _ _ _ _ ho', gr_getD_map_range' _ _ _ _ hj]
    exact hal o

/-! ### the BEHZ routines that call `fast_convert_array`: the conversion is an abstract function input of the generated routine, instantiated
    with the GENERATED `fast_convert_array` on the model converter's fields -/

/-- the generated conversion of a model converter -/
def gr_convF (c : BaseConverter) : List Nat → List Nat → R (List Nat) := fun a b =>
  GenR.fast_convert_array a b c.ibase.size c.obase.size c.ibase.invPunct.toList c.ibase.base.toList c.obase.base.toList (c.matrix.toList.map Array.toList)

/-- a converter as `BaseConverter.new` builds it from well-formed bases of the given sizes -/
def gr_ConvOK (c : BaseConverter) (si so : Nat) : Prop := c.ibase.WF ∧ c.obase.WF ∧ gr_MatOK c ∧ c.ibase.size = si ∧ c.obase.size = so

theorem gr_convOK_new {ib ob : RNSBase} {c : BaseConverter} (hi : ib.WF) (ho : ob.WF) (hc : BaseConverter.new ib ob = .ok c) :
    gr_ConvOK c ib.size ob.size := by
  obtain ⟨e1, e2, hM⟩ := gr_matOK_new hi ho hc
  subst e1; subst e2
  exact ⟨hi, ho, hM, rfl, rfl⟩

theorem gr_extract_getD (p : RnsPoly) (s i : Nat) (hs : s ≤ p.size) (hi : i < s) : (p.extract 0 s).getD i #[] = p.getD i #[] := by
  have h1 : i < (p.extract 0 s).size := by simp; omega
  have h2 : i < p.size := by omega
  simp [Array.getD, h2, hi]

theorem gr_flatP_extract (p : RnsPoly) (s : Nat) : flatP (p.extract 0 s) = ((p.toList.map Array.toList).take s).flatten := by
  unfold flatP
  rw [Array.toList_extract, List.map_take]
  simp

/-- the explicit result of the model conversion, as a list of components -/
theorem gr_fca_model_shape (c : BaseConverter) (p : RnsPoly) (n : Nat) :
    let convA : RnsPoly := ((List.range c.obase.size).map (fun o => ((List.range n).map (fun j => gr_fcaD c p o j)).toArray)).toArray
    convA.size = c.obase.size ∧ ∀ i, i < c.obase.size → (convA.getD i #[]).size = n := by
  refine ⟨by simp, fun i hi => ?_⟩
  rw [getD_rangeMap' _ _ _ hi]
  simp

theorem gr_ff_model (r : RNSTool) (p convA : RnsPoly)
    (hconv : r.qToBsk.fastConvertArray (p.extract 0 r.baseQ.size) r.n = .ok convA)
    (hn : ∀ i, i < r.baseBsk.size → (p.getD (r.baseQ.size + i) #[]).size = r.n) :
    r.fastFloor p = ((List.range' 0 r.baseBsk.size).mapM (fun i => gr_ffComp (r.baseBsk.q i) (r.invProdQModBsk.getD i default) r.n
        (p.getD (r.baseQ.size + i) #[]).toList (convA.getD i #[]).toList) >>= fun outs => .ok (outs.map List.toArray).toArray) := by
  unfold RNSTool.fastFloor
  dsimp only
  rw [hconv, ok_bind]
  refine Eq.trans (congrArg (fun m => m >>= _) (gr_mapM_congr _ (fun i => gr_ffComp (r.baseBsk.q i) (r.invProdQModBsk.getD i default) r.n
        (p.getD (r.baseQ.size + i) #[]).toList (convA.getD i #[]).toList >>= fun c => .ok c.toArray) _ ?hb)) ?rest
  case hb =>
    intro i hi
    rw [List.mem_range] at hi
    rw [gr_zipM'_eq, hn i hi]
    rfl
  case rest =>
    rw [List.range_eq_range', gr_mapM_map_ok]
    cases (List.range' 0 r.baseBsk.size).mapM (fun i => gr_ffComp (r.baseBsk.q i) (r.invProdQModBsk.getD i default) r.n
        (p.getD (r.baseQ.size + i) #[]).toList (convA.getD i #[]).toList) with
    | error e => rfl
    | ok outs => rfl

/-- **`RNSTool::fast_floor` (generated from src/util/rns.rs) = the hand model `RNSTool.fastFloor`**; input = flat buffer of the `|q| + |Bsk|` components,
    destination = any flat buffer of `|Bsk|` components; the call `self.base_q_to_Bsk_conv.fast_convert_array(..)` is the generated `fast_convert_array`
    on the fields of the model's `qToBsk`.  The correction loop (`b − dest`, `input + …`) traps on both sides alike. -/
theorem gr_fast_floor_eq (r : RNSTool) (p d : RnsPoly)
    (hc : gr_ConvOK r.qToBsk r.baseQ.size r.baseBsk.size)
    (hp1 : p.size = r.baseQ.size + r.baseBsk.size) (hp2 : ∀ i, i < r.baseQ.size + r.baseBsk.size → (p.getD i #[]).size = r.n)
    (hw : ∀ i j, i < r.baseQ.size → j < r.n → (p.getD i #[]).getD j 0 < 2^64)
    (hd1 : d.size = r.baseBsk.size) (hd2 : ∀ i, i < r.baseBsk.size → (d.getD i #[]).size = r.n)
    (hinv : r.baseBsk.size ≤ r.invProdQModBsk.size) (hsn : (r.baseQ.size + r.baseBsk.size) * r.n < 2^64) :
    GenR.fast_floor (flatP p) (flatP d) r.baseQ.size r.baseBsk.size r.n r.baseBsk.base.toList r.invProdQModBsk.toList (gr_convF r.qToBsk)
      = (r.fastFloor p).map flatP := by
  obtain ⟨hi, ho, hM, hsi, hso⟩ := hc
  obtain ⟨hcs, hn⟩ := gr_shape_cs' hp1 hp2
  obtain ⟨hds, hdn⟩ := gr_shape_cs' hd1 hd2
  have hle1 : r.baseQ.size * r.n ≤ (r.baseQ.size + r.baseBsk.size) * r.n := Nat.mul_le_mul_right _ (by omega)
  have hle2 : r.baseBsk.size * r.n ≤ (r.baseQ.size + r.baseBsk.size) * r.n := Nat.mul_le_mul_right _ (by omega)
  -- the conversion
  have hex1 : (p.extract 0 r.baseQ.size).size = r.qToBsk.ibase.size := by simp; omega
  have hexg : ∀ i, i < r.baseQ.size → (p.extract 0 r.baseQ.size).getD i #[] = p.getD i #[] := fun i hi' => gr_extract_getD p _ i (by omega) hi'
  have hexw : ∀ i j, i < r.qToBsk.ibase.size → j < r.n → ((p.extract 0 r.baseQ.size).getD i #[]).getD j 0 < 2^64 := by
    intro i j hi' hj; rw [hexg i (by omega)]; exact hw i j (by omega) hj
  have hmodel := gr_fca_model r.qToBsk hi ho hM (p.extract 0 r.baseQ.size) r.n hex1 hexw
  obtain ⟨hA1, hA2⟩ := gr_fca_model_shape r.qToBsk (p.extract 0 r.baseQ.size) r.n
  generalize hconvA : (((List.range r.qToBsk.obase.size).map (fun o => ((List.range r.n).map (fun j => gr_fcaD r.qToBsk (p.extract 0 r.baseQ.size) o j)).toArray)).toArray : RnsPoly) = convA at hmodel hA1 hA2
  have hF : gr_convF r.qToBsk ((p.toList.map Array.toList).take r.baseQ.size).flatten (flatP d) = .ok (flatP convA) := by
    rw [← gr_flatP_extract]
    unfold gr_convF
    rw [gr_fca_core r.qToBsk hi ho hM (p.extract 0 r.baseQ.size) d r.n hex1
      (fun i hi' => by rw [hexg i (by omega)]; exact hp2 i (by omega)) hexw (by omega) (fun i hi' => hd2 i (by omega)) (by rw [hsi]; omega) (by rw [hso]; omega), hmodel]
    rfl
  obtain ⟨hvs, hvn⟩ := gr_shape_cs' (hso ▸ hA1) (fun i hi' => hA2 i (by omega))
  have hgen := (gr_ff_list (p.toList.map Array.toList) (d.toList.map Array.toList) r.baseQ.size r.baseBsk.size r.n r.baseBsk.base.toList r.invProdQModBsk.toList
    (gr_convF r.qToBsk) hcs hn (by simp [RNSBase.size]) (by simpa using hinv) hsn).2 (convA.toList.map Array.toList) hvs hvn hF
  unfold flatP at hgen ⊢
  rw [hgen, gr_ff_model r p convA hmodel (fun i hi' => hp2 _ (by omega))]
  simp only [gr_q_toList, gr_cs_getD, gr_ops_toList]
  cases (List.range' 0 r.baseBsk.size).mapM (fun i => gr_ffComp (r.baseBsk.q i) (r.invProdQModBsk.getD i default) r.n
        (p.getD (r.baseQ.size + i) #[]).toList (convA.getD i #[]).toList) with
  | error e => rfl
  | ok outs =>
    simp only [gr_ok_bind]
    show Except.ok _ = Except.ok _
    congr 1
    simp [List.map_map, Function.comp_def]

/-! ### END TO END: generated `sm_mrq` with `smMrq_spec` / `smMrq_scalar` (left open in phase 4c: needs the shape of the model's output) -/

theorem gr_bind_ok_shape {F : Nat → R (List Nat)} {sB n : Nat} {out : RnsPoly} (hF : ∀ i y, F i = .ok y → y.length = n)
    (h : ((List.range' 0 sB).mapM F >>= fun outs => .ok (outs.map List.toArray).toArray) = .ok out) :
    out.size = sB ∧ ∀ i, i < sB → (out.getD i #[]).size = n := by
  cases hm : (List.range' 0 sB).mapM F with
  | error e => rw [hm] at h; cases h
  | ok outs =>
    rw [hm, gr_ok_bind] at h
    cases h
    have hl : outs.length = sB := by rw [gr_mapM_length _ _ _ hm, List.length_range']
    have hall : ∀ y ∈ outs, y.length = n := by
      intro y hy
      obtain ⟨x, _, hx⟩ := gr_mapM_forall' F (fun _ y => y.length = n) _ (fun i _ y hy' => hF i y hy') outs hm y hy
      exact hx
    refine ⟨by simp [hl], fun i hi => ?_⟩
    have hi' : i < outs.length := by omega
    have := hall outs[i] (List.getElem_mem hi')
    simp [Array.getD, hi', this]

theorem gr_sm_shape {r : RNSTool} {p out : RnsPoly} (h : r.smMrq p = .ok out) (hn : (p.getD r.baseBsk.size #[]).size = r.n) :
    out.size = r.baseBsk.size ∧ ∀ i, i < r.baseBsk.size → (out.getD i #[]).size = r.n := by
  rw [gr_sm_model] at h
  refine gr_bind_ok_shape (fun i y hy => ?_) h
  unfold gr_smComp at hy
  cases hpq : MulOperand.new (r.prodQModBsk.getD i 0) (r.baseBsk.q i) with
  | error e => rw [hpq] at hy; cases hy
  | ok pq =>
    rw [hpq, gr_ok_bind] at hy
    rw [gr_mapM_length _ _ _ hy, List.length_range', List.length_map, Array.length_toList, hn]

/-- **END TO END (BEHZ small Montgomery reduction)**: the function generated from the Rust source of `RNSTool::sm_mrq`, run on the flat buffer of a polynomial
    whose coefficient `j` holds residues of an integer `Y j` modulo every `b_i ∈ Bsk` and modulo m̃, writes at position `i·n + j` of ANY destination buffer
    `((Y_j + q·r_j)/m̃) mod b_i`, where `r_j ∈ [−m̃/2, m̃/2)` is the centred representative of `−Y_j·q⁻¹ mod m̃` and `m̃ ∣ Y_j + q·r_j`
    (composition of `gr_sm_mrq_eq` with the C10 theorems `smMrq_spec` and `smMrq_scalar`) -/
theorem gr_sm_mrq_montgomery (r : RNSTool) (p d : RnsPoly) (Y : Nat → Int) (q : Nat)
    (hp1 : p.size = r.baseBsk.size + 1) (hp2 : ∀ i, i < r.baseBsk.size + 1 → (p.getD i #[]).size = r.n)
    (hd1 : d.size = r.baseBsk.size) (hd2 : ∀ i, i < r.baseBsk.size → (d.getD i #[]).size = r.n)
    (hpq : r.prodQModBsk.size = r.baseBsk.size) (hinvs : r.baseBsk.size ≤ r.invMtModBsk.size)
    (hsn : (r.baseBsk.size + 1) * r.n < 2^64) (hs64 : r.baseBsk.size + 1 < 2^64)
    (hmt : r.mTilde.WF) (hneg : WFOp r.mTilde r.negInvProdQModMt)
    (hb : ∀ i, i < r.baseBsk.size → (r.baseBsk.q i).WF ∧ r.mTilde.value ≤ (r.baseBsk.q i).value ∧
      r.prodQModBsk.getD i 0 < (r.baseBsk.q i).value ∧ WFOp (r.baseBsk.q i) (r.invMtModBsk.getD i default))
    (hc : ∀ i j, i ≤ r.baseBsk.size → j < r.n → (p.getD i #[]).getD j 0 < 2^64)
    (hq : ∀ i, i < r.baseBsk.size → ((r.prodQModBsk.getD i 0 : Nat) : Int) ≡ q [ZMOD (r.baseBsk.q i).value])
    (hinv : ∀ i, i < r.baseBsk.size → ((r.invMtModBsk.getD i default).operand * r.mTilde.value) % (r.baseBsk.q i).value = 1)
    (hnq : (r.negInvProdQModMt.operand * q + 1) % r.mTilde.value = 0)
    (hY : ∀ i j, i < r.baseBsk.size → j < r.n → (((p.getD i #[]).getD j 0 : Nat) : Int) ≡ Y j [ZMOD (r.baseBsk.q i).value])
    (hYm : ∀ j, j < r.n → (((p.getD r.baseBsk.size #[]).getD j 0 : Nat) : Int) ≡ Y j [ZMOD r.mTilde.value]) :
    ∃ out, GenR.sm_mrq (flatP p) (flatP d) r.baseBsk.size r.baseBsk.base.toList r.n r.mTilde r.negInvProdQModMt r.prodQModBsk.toList r.invMtModBsk.toList
        = .ok out ∧
      ∀ i j, i < r.baseBsk.size → j < r.n →
        let rm := ((p.getD r.baseBsk.size #[]).getD j 0 * r.negInvProdQModMt.operand) % r.mTilde.value
        let rmc : Int := if rm ≥ r.mTilde.value / 2 then (rm : Int) - r.mTilde.value else rm
        (r.mTilde.value : Int) ∣ Y j + q * rmc ∧
        ((out.getD (i * r.n + j) 0 : Nat) : Int) = ((Y j + q * rmc) / r.mTilde.value) % (r.baseBsk.q i).value := by
  have hpqw : ∀ x ∈ r.prodQModBsk, x < 2^64 := by
    apply mem_lt_of_getD
    intro i hi
    rw [hpq] at hi
    have := (hb i hi).2.2.1
    have := (hb i hi).1.lt
    omega
  obtain ⟨out, hok, hv⟩ := smMrq_spec hmt hneg hb (hp2 _ (by omega)) hc
  obtain ⟨ho1, ho2⟩ := gr_sm_shape hok (hp2 _ (by omega))
  obtain ⟨hos, hon⟩ := gr_shape_cs' ho1 ho2
  rw [gr_sm_mrq_eq r p d hp1 hp2 hd1 hd2 hpq hpqw hinvs hsn hs64, hok]
  refine ⟨flatP out, rfl, fun i j hi hj => ?_⟩
  have hget : (flatP out).getD (i * r.n + j) 0 = (out.getD i #[]).getD j 0 := by
    unfold flatP
    rw [gr_flat_getD r.n _ i j hon (by omega) hj, gr_cs_getD, ← gr_arr_getD]
  rw [hget, hv i j hi hj]
  obtain ⟨h1, h2, -⟩ := smMrq_scalar (hb i hi).2.1 (hq i hi) (hinv i hi) hnq (hY i j hi hj) (hYm j hj)
  exact ⟨h1, h2⟩

end HC
