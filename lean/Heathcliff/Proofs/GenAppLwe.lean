/-
  Translator phase 4h (app mode): index / loop arithmetic of src/app/lwe.rs regenerated into Gen/AppFns.lean (fragments of
  `extract_lwe`, `pack_lwe_ciphertexts`, `field_trace_inplace`) = the corresponding pieces of Model/Lwe.lean.  Helper prefix `ga_`.
-/
import Heathcliff.Proofs.GenAppBase
import Heathcliff.Gen.AppLweFns
import Heathcliff.Model.Lwe

namespace HC
open HC.GenApp

/-! ### `extract_lwe`: the shift `2N − term` -/

/-- the generated `let shift = if term == 0 {0} else {poly_modulus_degree * 2 - term}` is the model's shift computation (the model does
    not check `N * 2`; it cannot overflow for `N < 2^63`) -/
theorem ga_lwe_extract_shift_eq (term n : Nat) (hn : n * 2 < 2^64) :
    lwe_extract_shift term n = (if term = 0 then pure 0 else ckSub (n * 2) term) := by
  unfold lwe_extract_shift
  by_cases h : term = 0
  · simp [h, pure, Except.pure, bind, Except.bind]
  · simp only [if_neg h, ga_ckMul hn, ga_ok_bind]
    cases hc : ckSub (n * 2) term <;> simp [bind, Except.bind, pure, Except.pure]

/-! ### `pack_lwe_ciphertexts`: `l` minimal with `2^l ≥ count` -/

theorem ga_ckShl_one {l : Nat} (hl : l ≤ 63) : GenApp.ckShl 1 l = .ok (2^l) := by
  have h2 : 2^l ≤ 2^63 := Nat.pow_le_pow_right (by omega) hl
  unfold GenApp.ckShl
  rw [if_pos (by omega), Nat.shiftLeft_eq, Nat.one_mul, Nat.mod_eq_of_lt (by simp only [B64]; omega)]

theorem ga_lwe_pack_log_loop (c : Nat) (hc : c ≤ 2^63) : ∀ (f2 l f1 : Nat), c ≤ 2^(l + f2) → l ≤ 63 → 65 ≤ f1 + l →
    whileFuel f1 l (lwe_pack_log_loop1 c) = .ok (packLogGo f2 c l) := by
  intro f2
  induction f2 with
  | zero =>
    intro l f1 h hl hf
    obtain ⟨f, rfl⟩ : ∃ f, f1 = f + 1 := ⟨f1 - 1, by omega⟩
    have hb : lwe_pack_log_loop1 c l = .ok (.brk l) := by
      simp only [lwe_pack_log_loop1, ga_ckShl_one hl, ga_ok_bind]
      rw [if_neg (by simpa using h)]; rfl
    simp [whileFuel, hb, packLogGo, pure, Except.pure]
  | succ f2 ih =>
    intro l f1 h hl hf
    obtain ⟨f, rfl⟩ : ∃ f, f1 = f + 1 := ⟨f1 - 1, by omega⟩
    by_cases hlt : 2^l < c
    · have hl' : l < 63 := by
        rcases Nat.lt_or_ge l 63 with h1 | h1
        · exact h1
        · have : l = 63 := by omega
          subst this; omega
      have hb : lwe_pack_log_loop1 c l = .ok (.next (l + 1)) := by
        simp only [lwe_pack_log_loop1, ga_ckShl_one hl, ga_ok_bind, if_pos hlt, ga_ckAdd (show l + 1 < 2^64 by omega)]
        rfl
      simp only [whileFuel, hb, packLogGo, if_pos hlt]
      exact ih (l + 1) f (by rw [show l + 1 + f2 = l + (f2 + 1) by omega]; exact h) (by omega) (by omega)
    · have hb : lwe_pack_log_loop1 c l = .ok (.brk l) := by
        simp only [lwe_pack_log_loop1, ga_ckShl_one hl, ga_ok_bind, if_neg hlt]; rfl
      simp [whileFuel, hb, packLogGo, hlt, pure, Except.pure]

/-- **the level computation of `pack_lwe_ciphertexts`, generated = `packLog`** for at most 2^63 inputs (the code admits at most N) -/
theorem ga_lwe_pack_log_eq (c : Nat) (hc : c ≤ 2^63) : lwe_pack_log c = .ok (packLog c) := by
  have h := ga_lwe_pack_log_loop c hc c 0 65 (by rw [Nat.zero_add]; exact Nat.le_of_lt Nat.lt_two_pow_self) (by omega) (by omega)
  simp only [lwe_pack_log, h, ga_ok_bind, packLog]

/-! ### `field_trace_inplace`: the Galois elements of the trace loop -/

theorem ga_lwe_field_trace_loop (k logn : Nat) (hk : k ≤ 62) (hl : logn ≤ 63) : ∀ (d j : Nat) (plan : List Nat) (f1 : Nat),
    k - logn = j + d → d < f1 →
    ∃ p2, whileFuel f1 (plan, 2^(k - j)) (lwe_field_trace_plan_loop1 logn)
      = .ok (plan ++ (List.range' j d).map (fun i => 2^(k - i) + 1), p2) := by
  intro d
  induction d with
  | zero =>
    intro j plan f1 hd hf
    obtain ⟨f, rfl⟩ : ∃ f, f1 = f + 1 := ⟨f1 - 1, by omega⟩
    have hle : 2^(k - j) ≤ 2^logn := Nat.pow_le_pow_right (by omega) (by omega)
    have hb : lwe_field_trace_plan_loop1 logn (plan, 2^(k - j)) = .ok (.brk (plan, 2^(k - j))) := by
      simp only [lwe_field_trace_plan_loop1, ga_ckShl_one hl, ga_ok_bind]
      rw [if_neg (by omega)]; rfl
    exact ⟨2^(k - j), by simp [whileFuel, hb, pure, Except.pure]⟩
  | succ d ih =>
    intro j plan f1 hd hf
    obtain ⟨f, rfl⟩ : ∃ f, f1 = f + 1 := ⟨f1 - 1, by omega⟩
    have hgt : 2^(k - j) > 2^logn := Nat.pow_lt_pow_right (by omega) (by omega)
    have h62 : 2^(k - j) ≤ 2^62 := Nat.pow_le_pow_right (by omega) (by omega)
    have hhalf : 2^(k - j) >>> 1 = 2^(k - (j + 1)) := by
      rw [Nat.shiftRight_eq_div_pow, Nat.pow_one, show k - j = (k - (j + 1)) + 1 by omega, Nat.pow_succ, Nat.mul_div_cancel _ (by omega)]
    have hb : lwe_field_trace_plan_loop1 logn (plan, 2^(k - j)) = .ok (.next (plan ++ [2^(k - j) + 1], 2^(k - (j + 1)))) := by
      simp only [lwe_field_trace_plan_loop1, ga_ckShl_one hl, ga_ok_bind, if_pos hgt, ga_ckAdd (show 2^(k - j) + 1 < 2^64 by omega), hhalf]
      rfl
    obtain ⟨p2, h2⟩ := ih (j + 1) (plan ++ [2^(k - j) + 1]) f (by omega) (by omega)
    refine ⟨p2, ?_⟩
    simp only [whileFuel, hb, h2, List.range'_succ, List.map_cons, List.append_assoc, List.singleton_append]

/-- **the loop of `field_trace_inplace`, generated = the loop structure of `fieldTracePoly`**: with the key-level degree `2^k` the code
    applies `apply_galois(·, g)` + `add_inplace` exactly for `g = 2^(k−i) + 1`, `i = 0 … k − logn − 1`, in this order -/
theorem ga_lwe_field_trace_plan_eq (k logn : Nat) (hk : k ≤ 62) (hl : logn ≤ 63) :
    lwe_field_trace_plan logn (2^k) = .ok ((List.range (k - logn)).map fun i => 2^(k - i) + 1) := by
  obtain ⟨p2, h⟩ := ga_lwe_field_trace_loop k logn hk hl (k - logn) 0 [] 65 (by omega) (by omega)
  rw [Nat.sub_zero] at h
  simp only [lwe_field_trace_plan, h, ga_ok_bind, List.nil_append, List.range_eq_range']
  rfl

/-- the model's trace loop, written over the plan the generated code produces -/
theorem ga_fieldTracePoly_plan {α : Type} [Zero α] [Add α] [Sub α] [Neg α] [Mul α] (k logn : Nat) (a : Array α) :
    fieldTracePoly k logn a
      = ((List.range (k - logn)).map fun i => 2^(k - i) + 1).foldl (fun a g => addPoly (2^k) a (sigmaPoly (2^k) a g)) a := by
  simp [fieldTracePoly, List.foldl_map]

end HC
