/-
  Phase 4m, part 5: `dot_product_ct_sk_array` (src/encryptor.rs) as regenerated (skeleton `dec_dot_product_plan`): the index / stride
  arithmetic and the order of the kernel calls, for EVERY ciphertext size ≥ 2, both representations.
  Flat layouts: polynomial i of the ciphertext occupies the words i·(n·k) .. (i+1)·(n·k) of `ct` (k = prime count of the ciphertext's level);
  power i+1 of the secret key occupies the words i·(n·kk) .. (i+1)·(n·kk) of the cached array (kk = prime count of the KEY level), of which the
  level uses the first n·k (its moduli are a prefix of the key level's).
-/
import Heathcliff.Proofs.GenDec
namespace HC
open HC.GenDec

/-- the kernel calls of `dotProductCtSk` (Model/Scheme.lean) in its order, with the flat offsets: see the code table in tools/rs2lean_dec.py -/
def dotPlanModel (size : Nat) (ntt : Bool) (n k kk : Nat) : List Nat :=
  [100, size - 1] ++
  (if size = 2 then (if ntt then [10, 11] else [12, 13, 14, 15, 11])
   else (if ntt then [] else [21, size - 1]) ++
        ((List.range' 0 (size - 1)).map (fun i => [20, i * (n * k), (i + 1) * (n * k), i * (n * kk), i * (n * kk) + n * k])).flatten ++ [22] ++
        ((List.range' 0 (size - 1)).map (fun i => [23, i * (n * k), (i + 1) * (n * k)])).flatten ++
        (if ntt then [] else [15]) ++ [25])

theorem gdc_ckMul_ok {a b : Nat} (h : a * b < 2^64) : ckMul a b = .ok (a * b) := by unfold ckMul; rw [if_pos (by simpa [B64] using h)]
theorem gdc_ckAdd_ok {a b : Nat} (h : a + b < 2^64) : ckAdd a b = .ok (a + b) := by unfold ckAdd; rw [if_pos (by simpa [B64] using h)]
theorem gdc_ckSub_ok {a b : Nat} (h : b ≤ a) : ckSub a b = .ok (a - b) := by unfold ckSub; rw [if_pos h]

theorem gd_dot_loop1 (sz p kp : Nat) : ∀ (f i : Nat) (acc : List Nat), (i + f) * p < 2^64 → (i + f) * kp + p < 2^64 → i + f < 2^64 →
    dec_dot_product_plan_loop1 sz p kp f i acc =
      .ok (acc ++ ((List.range' i f).map (fun i => [20, i * p, (i + 1) * p, i * kp, i * kp + p])).flatten) := by
  intro f
  induction f with
  | zero => intro i acc _ _ _; simp [dec_dot_product_plan_loop1, pure, Except.pure]
  | succ f ih =>
    intro i acc h1 h2 h3
    have e1 : i * p ≤ (i + (f + 1)) * p := Nat.mul_le_mul_right p (by omega)
    have e2 : (i + 1) * p ≤ (i + (f + 1)) * p := Nat.mul_le_mul_right p (by omega)
    have e3 : i * kp ≤ (i + (f + 1)) * kp := Nat.mul_le_mul_right kp (by omega)
    rw [dec_dot_product_plan_loop1]
    simp only [gdc_ckMul_ok (show i * p < 2^64 by omega), gdc_ckAdd_ok (show i + 1 < 2^64 by omega), gdc_ckMul_ok (show (i + 1) * p < 2^64 by omega),
      gdc_ckMul_ok (show i * kp < 2^64 by omega), gdc_ckAdd_ok (show i * kp + p < 2^64 by omega), bind, Except.bind]
    rw [ih (i + 1) _ (by rw [show i + 1 + f = i + (f + 1) by omega]; exact h1) (by rw [show i + 1 + f = i + (f + 1) by omega]; exact h2) (by omega)]
    simp [List.range'_succ]

theorem gd_dot_loop2 (sz p : Nat) : ∀ (f i : Nat) (acc : List Nat), (i + f) * p < 2^64 → i + f < 2^64 →
    dec_dot_product_plan_loop2 sz p f i acc =
      .ok (acc ++ ((List.range' i f).map (fun i => [23, i * p, (i + 1) * p])).flatten) := by
  intro f
  induction f with
  | zero => intro i acc _ _; simp [dec_dot_product_plan_loop2, pure, Except.pure]
  | succ f ih =>
    intro i acc h1 h3
    have e1 : i * p ≤ (i + (f + 1)) * p := Nat.mul_le_mul_right p (by omega)
    have e2 : (i + 1) * p ≤ (i + (f + 1)) * p := Nat.mul_le_mul_right p (by omega)
    rw [dec_dot_product_plan_loop2]
    simp only [gdc_ckMul_ok (show i * p < 2^64 by omega), gdc_ckAdd_ok (show i + 1 < 2^64 by omega), gdc_ckMul_ok (show (i + 1) * p < 2^64 by omega),
      bind, Except.bind]
    rw [ih (i + 1) _ (by rw [show i + 1 + f = i + (f + 1) by omega]; exact h1) (by omega)]
    simp [List.range'_succ]

/-- GENERATED `dot_product_ct_sk_array` (skeleton) = the model's order of kernel calls with the flat offsets, for EVERY size ≥ 2 and both
    representations; the stride of the key-power array is `n · kk` with `kk` the KEY level's prime count.  Hypotheses: the ciphertext buffer has
    `size · n · k` words (`Ciphertext::is_valid_for`), the level has at least one prime, no `usize` overflow in the largest offset. -/
theorem gd_dot_product_plan_eq (ct : List Nat) (size : Nat) (ntt : Bool) (n k kk : Nat) (plan : List Nat)
    (hsize : 2 ≤ size) (hk : 1 ≤ k) (hct : ct.length = size * (n * k)) (hov1 : size * (n * k) < 2^64) (hov2 : size * (n * kk) + n * k < 2^64) (hsz : size < 2^64) :
    dec_dot_product_plan ct size ntt n k kk plan = .ok (plan ++ dotPlanModel size ntt n k kk) := by
  unfold dec_dot_product_plan dotPlanModel
  have hs1 : ckSub size 1 = .ok (size - 1) := gdc_ckSub_ok (by omega)
  simp only [hs1, bind, Except.bind, pure, Except.pure]
  by_cases h2 : size = 2
  · subst h2
    cases ntt <;> simp
  · simp only [h2, if_false]
    have hnk : n * k ≤ size * (n * k) := Nat.le_mul_of_pos_left _ (by omega)
    have hnkk : n * kk ≤ size * (n * kk) := Nat.le_mul_of_pos_left _ (by omega)
    have e1 : (size - 1) * (n * k) ≤ size * (n * k) := Nat.mul_le_mul_right _ (by omega)
    have e2 : (size - 1) * (n * kk) ≤ size * (n * kk) := Nat.mul_le_mul_right _ (by omega)
    have hm1 : ckMul n k = .ok (n * k) := gdc_ckMul_ok (by omega)
    have hm2 : ckMul n kk = .ok (n * kk) := gdc_ckMul_ok (by omega)
    have hsl : GenR.slice ct (n * k) ct.length = .ok ((ct.drop (n * k)).take (ct.length - n * k)) := by
      unfold GenR.slice; rw [if_pos ⟨by omega, le_refl _⟩]
    have hm3 : ckMul (size - 1) n = .ok ((size - 1) * n) := by
      apply gdc_ckMul_ok
      have : (size - 1) * n ≤ (size - 1) * (n * k) := Nat.mul_le_mul_left _ (Nat.le_mul_of_pos_right _ hk); omega
    have hm4 : ckMul ((size - 1) * n) k = .ok ((size - 1) * n * k) := gdc_ckMul_ok (by rw [Nat.mul_assoc]; omega)
    have hlen : ((ct.drop (n * k)).take (ct.length - n * k)).length = (size - 1) * n * k := by
      rw [List.length_take, List.length_drop, Nat.min_self, hct, Nat.mul_assoc, Nat.sub_mul, Nat.one_mul]
    simp only [hm1, hm2, hsl, hm3, hm4, hlen, if_true]
    have hl1 := gd_dot_loop1 size (n * k) (n * kk) (size - 1) 0
    have hl2 := gd_dot_loop2 size (n * k) (size - 1) 0
    simp only [Nat.zero_add] at hl1 hl2
    cases ntt
    · simp only [Bool.false_eq_true, decide_false, not_false_eq_true, if_true, if_false]
      rw [hl1 _ (by omega) (by omega) (by omega)]
      simp only []
      rw [hl2 _ (by omega) (by omega)]
      simp
    · simp only [decide_true, not_true_eq_false, if_true, if_false]
      rw [hl1 _ (by omega) (by omega) (by omega)]
      simp only []
      rw [hl2 _ (by omega) (by omega)]
      simp

end HC
