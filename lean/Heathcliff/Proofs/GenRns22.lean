import Heathcliff.Gen.Rns2Fns
import Heathcliff.Proofs.GenRns21
import Heathcliff.Proofs.GenRns4
import Heathcliff.Proofs.GenRns15
import Heathcliff.Proofs.GenWord5
import Heathcliff.Proofs.C08C

/-!
  Phase 4k: `RNSBase::compose` (src/util/rns.rs) generated into `Heathcliff/Gen/Rns2Fns.lean` (it calls `add_uint_mod_inplace` of `Gen/Word2Fns.lean` and the
  generated `multiply_uint_u64`) EQUALS the hand model's value-level `RNSBase.compose` on well-formed bases: the limbs returned are the limbs of the model's
  value.  Helper names start with `gr_`.
-/
namespace HC
open HC.GenW HC.GenR

/-- the rows of `punctured_prod` as the code stores them: `size` limbs each -/
def gr_punctRows (b : RNSBase) : List (List Nat) := (List.range b.size).map (fun i => limbsOf b.size (b.punct.getD i 0))

/-- one step of the model's fold -/
def gr_compStep (b : RNSBase) (res : List Nat) (acc i : Nat) : R Nat :=
  mulOperandMod (res.getD i 0) (b.invPunct.getD i default) (b.q i) >>= fun tp =>
    let term := (b.punct.getD i 0 * tp) % 2^(64 * b.size)
    let s := acc + term
    pure (if s ≥ 2^(64 * b.size) ∨ s ≥ b.prod then (s + 2^(64 * b.size) - b.prod) % 2^(64 * b.size) else s)

theorem gr_limbs_fromNat (n v : Nat) : Limbs (fromNat n v) := RNSH.fromNat_lt n v

theorem gr_comp_loop {b : RNSBase} (hb : b.WF) (res : List Nat) (hres : res.length = b.size) (hrw : ∀ x ∈ res, x < 2^64) :
    ∀ k i (a0 v3 : List Nat) (acc : Nat), i + k = b.size → a0.length = b.size → Limbs a0 → toNat a0 = acc → acc < b.prod → v3.length = b.size →
      ∃ a0' v3' acc', GenR2.rnsbase_compose_loop1 b.size res b.invPunct.toList b.base.toList (gr_punctRows b) (limbsOf b.size b.prod) k i a0 v3 = .ok (a0', v3') ∧
        (List.range' i k).foldlM (gr_compStep b res) acc = .ok acc' ∧ toNat a0' = acc' ∧ a0'.length = b.size ∧ Limbs a0' ∧ acc' < b.prod := by
  have hpos := hb.pos
  have hprod := hb.prod_lt
  have hP0 := hb.prod_pos
  have hprodL : toNat (limbsOf b.size b.prod) = b.prod := by
    unfold limbsOf; rw [RNSH.toNat_fromNat, Nat.mod_eq_of_lt hprod]
  have hprodLen : (limbsOf b.size b.prod).length = b.size := RNSH.fromNat_length _ _
  intro k
  induction k with
  | zero =>
    intro i a0 v3 acc _ hl hlim hv hacc _
    exact ⟨a0, v3, acc, rfl, rfl, hv, hl, hlim, hacc⟩
  | succ k ih =>
    intro i a0 v3 acc hik hl hlim hv hacc hv3
    have hi : i < b.size := by omega
    have hir : i < res.length := by omega
    have hq := hb.mwf i hi
    have hq2 := hq.two_le
    have hq61 := hq.lt
    have hxw : res.getD i 0 < 2^64 := gr_getD_mem_lt hrw (by norm_num) i
    have e1 : GenW.idx res i = .ok (res.getD i 0) := by rw [gw_idx_eq _ _ hir, gr_getD_of_lt _ _ hir]
    have e2 : GenR.idxOp b.invPunct.toList i = .ok (b.invPunct.getD i default) := by
      rw [gr_idxOp_ok _ i default (by rw [Array.length_toList, hb.inv_size]; exact hi), gr_ops_toList]
    have e3 : GenR.idxMod b.base.toList i = .ok (b.q i) := by
      rw [gr_idxMod_ok _ i gr_dflt (by rw [Array.length_toList]; exact hi), gr_q_toList]
    have etp := RNSH.mulOperandMod_wf hq (hb.inv_wf i hi).1 hxw
    generalize htp : (res.getD i 0 * (b.invPunct.getD i default).operand) % (b.q i).value = tp at etp
    have htpl : tp < (b.q i).value := by rw [← htp]; exact Nat.mod_lt _ (by omega)
    have e4 : GenR.idxRow (gr_punctRows b) i = .ok (limbsOf b.size (b.punct.getD i 0)) := by
      rw [gr_idxRow_ok _ i (by unfold gr_punctRows; rw [List.length_map, List.length_range]; exact hi)]
      unfold gr_punctRows
      rw [List.range_eq_range', gr_getD_map_range' _ _ _ _ hi]
    -- the product
    have hpe := hb.punct_eq i hi
    have hpunct_le : b.punct.getD i 0 ≤ b.prod := by rw [← hpe]; exact Nat.le_mul_of_pos_right _ (by omega)
    have hrowv : toNat (limbsOf b.size (b.punct.getD i 0)) = b.punct.getD i 0 := by
      unfold limbsOf; rw [RNSH.toNat_fromNat, Nat.mod_eq_of_lt (by omega)]
    obtain ⟨r, hr, hrl, hrlim, hrv⟩ := multiplyUintU64_spec (a := limbsOf b.size (b.punct.getD i 0)) (w := tp) (n := b.size) hpos
      (gr_limbs_fromNat _ _) (by omega)
    rw [hrowv] at hrv
    have hppos : 0 < b.punct.getD i 0 := by
      rcases Nat.eq_zero_or_pos (b.punct.getD i 0) with h | h
      · rw [h, Nat.zero_mul] at hpe; omega
      · exact h
    have hterm_lt : b.punct.getD i 0 * tp < b.prod := by rw [← hpe]; exact Nat.mul_lt_mul_of_pos_left htpl hppos
    have hterm : (b.punct.getD i 0 * tp) % 2^(64 * b.size) = b.punct.getD i 0 * tp := Nat.mod_eq_of_lt (by omega)
    rw [hterm] at hrv
    -- the modular addition
    obtain ⟨a1, ha1, ha1l, ha1lim, ha1v⟩ := addUintMod_spec (a := a0) (b := r) (md := limbsOf b.size b.prod) (by rw [hprodLen]; exact hpos) hlim hrlim
      (gr_limbs_fromNat _ _) (by rw [hprodLen]; exact hl) (by rw [hprodLen]; exact hrl) (by rw [hprodL, hv]; exact hacc) (by rw [hprodL, hrv]; exact hterm_lt)
    rw [hprodL, hv, hrv] at ha1v
    rw [hprodLen] at ha1l
    have hacc1 : (acc + b.punct.getD i 0 * tp) % b.prod < b.prod := Nat.mod_lt _ hP0
    obtain ⟨a0', v3', acc', hg, hm, h1, h2, h3, h4⟩ := ih (i + 1) a1 r ((acc + b.punct.getD i 0 * tp) % b.prod) (by omega) ha1l ha1lim ha1v hacc1 hrl
    refine ⟨a0', v3', acc', ?_, ?_, h1, h2, h3, h4⟩
    · rw [GenR2.rnsbase_compose_loop1]
      simp only [e1, e2, e3, e4, gr_ok_bind, gw_multiply_u64operand_mod_eq, etp, gr_multiply_uint_u64_eq, hv3, hr]
      rw [gq_add_uint_mod_inplace_eq a0 r (limbsOf b.size b.prod) (by rw [hprodLen]; exact hl), ha1, gr_ok_bind]
      exact hg
    · rw [List.range'_succ, List.foldlM_cons]
      have hstep : gr_compStep b res acc i = .ok ((acc + b.punct.getD i 0 * tp) % b.prod) := by
        unfold gr_compStep
        rw [etp, gr_ok_bind]
        simp only [hterm]
        show Except.ok _ = Except.ok _
        congr 1
        have hs2 : acc + b.punct.getD i 0 * tp < 2 * b.prod := by omega
        by_cases hge : acc + b.punct.getD i 0 * tp ≥ b.prod
        · rw [if_pos (Or.inr hge)]
          have e : acc + b.punct.getD i 0 * tp + 2^(64 * b.size) - b.prod = (acc + b.punct.getD i 0 * tp - b.prod) + 2^(64 * b.size) := by omega
          rw [e, Nat.add_mod_right, Nat.mod_eq_of_lt (by omega)]
          have : (acc + b.punct.getD i 0 * tp) % b.prod = acc + b.punct.getD i 0 * tp - b.prod := by
            rw [Nat.mod_eq_sub_mod hge, Nat.mod_eq_of_lt (by omega)]
          rw [this]
        · rw [if_neg (by intro h; rcases h with h | h <;> omega), Nat.mod_eq_of_lt (by omega)]
      rw [hstep]
      exact hm

theorem gr_toNat_zeros : ∀ n, toNat (List.replicate n 0) = 0 := by
  intro n
  induction n with
  | zero => rfl
  | succ n ih => rw [List.replicate_succ, toNat, ih]; simp

/-- **`RNSBase::compose` (generated from src/util/rns.rs) = the hand model `RNSBase.compose`** on a well-formed base: the limbs the code leaves in `value` are the
    `size` limbs of the model's value.  `self.punctured_prod[i]` / `self.base_prod` are inputs of the generated function, instantiated with the limbs of the
    model's `punct i` / `prod`.  Stated on the well-formed domain (residues as words): the code works on limbs (`multiply_uint_u64`, `add_uint_mod_inplace`), the
    model on values; off that domain the multi-word helpers and the value-level formula need not agree. -/
theorem gr_rnsbase_compose_eq {b : RNSBase} (hb : b.WF) (res : List Nat) (hl : res.length = b.size) (hw : ∀ x ∈ res, x < 2^64) :
    GenR2.rnsbase_compose res b.size b.base.toList b.invPunct.toList (gr_punctRows b) (limbsOf b.size b.prod)
      = (b.compose res.toArray).map (limbsOf b.size) := by
  have hpos := hb.pos
  unfold GenR2.rnsbase_compose RNSBase.compose
  rw [if_pos hl]
  by_cases hs : b.size > 1
  · rw [if_pos hs, if_pos hs]
    simp only [gr_set_zero_uint_eq, hl]
    obtain ⟨a0', v3', acc', hg, hm, h1, h2, h3, h4⟩ := gr_comp_loop hb res hl hw b.size 0 (List.replicate b.size 0) (List.replicate b.size 0) 0 (by omega)
      List.length_replicate (Limbs.replicate_zero _) (gr_toNat_zeros _) hb.prod_pos List.length_replicate
    rw [hg]
    have hmodel : (List.range b.size).foldlM (fun acc i => do
        let tp ← mulOperandMod (res.toArray.getD i 0) (b.invPunct.getD i default) (b.q i)
        let term := (b.punct.getD i 0 * tp) % 2^(64 * b.size)
        let s := acc + term
        pure (if s ≥ 2^(64 * b.size) ∨ s ≥ b.prod then (s + 2^(64 * b.size) - b.prod) % 2^(64 * b.size) else s)) 0 = .ok acc' := by
      rw [List.range_eq_range', ← hm]
      congr 1
      funext acc i
      unfold gr_compStep
      have : res.toArray.getD i 0 = res.getD i 0 := by rw [gr_arr_getD]
      rw [this]
    rw [hmodel]
    simp only [gr_ok_bind, gr_pure]
    show Except.ok a0' = Except.ok (limbsOf b.size acc')
    congr 1
    unfold limbsOf
    rw [← h1, ← h2, gr_fromNat_toNat a0' h3]
  · rw [if_neg hs, if_neg hs]
    have h1 : res.length = 1 := by omega
    have hb1 : b.size = 1 := by omega
    match res, h1, hw with
    | [x], _, hw =>
      have hx : x < B64 := by have := hw x (by simp); simpa [B64] using this
      simp [Except.map, pure, Except.pure, limbsOf, hb1, fromNat, Nat.mod_eq_of_lt hx, Array.getD]

/-- END TO END with the C10 theorem `compose_spec`: for canonical residues the generated `compose` returns `size` word limbs of THE integer below the base
    product with these residues -/
theorem gr_rnsbase_compose_crt {b : RNSBase} (hb : b.WF) (res : List Nat) (hl : res.length = b.size)
    (hr : ∀ i, i < b.size → res.getD i 0 < (b.q i).value) :
    ∃ out, GenR2.rnsbase_compose res b.size b.base.toList b.invPunct.toList (gr_punctRows b) (limbsOf b.size b.prod) = .ok out ∧
      out.length = b.size ∧ Limbs out ∧ toNat out < b.prod ∧ ∀ i, i < b.size → toNat out % (b.q i).value = res.getD i 0 := by
  have hw : ∀ x ∈ res, x < 2^64 := by
    intro x hx
    obtain ⟨i, hi, rfl⟩ := List.getElem_of_mem hx
    have := hr i (by omega)
    have h61 := (hb.mwf i (by omega)).lt
    rw [gr_getD_of_lt _ _ hi] at this
    omega
  obtain ⟨x, hok, hxl, hxr⟩ := compose_spec hb (rs := res.toArray) (by simpa using hl) (fun i hi => by rw [gr_arr_getD]; exact hr i hi)
  rw [gr_rnsbase_compose_eq hb res hl hw, hok]
  have hx64 : x < 2^(64 * b.size) := Nat.lt_trans hxl hb.prod_lt
  refine ⟨limbsOf b.size x, rfl, RNSH.fromNat_length _ _, gr_limbs_fromNat _ _, ?_, fun i hi => ?_⟩
  · unfold limbsOf; rw [RNSH.toNat_fromNat, Nat.mod_eq_of_lt hx64]; exact hxl
  · unfold limbsOf
    rw [RNSH.toNat_fromNat, Nat.mod_eq_of_lt hx64, hxr i hi, gr_arr_getD, List.toList_toArray, Nat.mod_eq_of_lt (hr i hi)]

/-- **decompose ∘ compose = id on the GENERATED code**: for canonical residues, the generated `compose` succeeds and the generated `decompose` of its result
    returns the residues again -/
theorem gr_decompose_compose_gen {b : RNSBase} (hb : b.WF) (res : List Nat) (hl : res.length = b.size)
    (hr : ∀ i, i < b.size → res.getD i 0 < (b.q i).value) :
    ∃ out, GenR2.rnsbase_compose res b.size b.base.toList b.invPunct.toList (gr_punctRows b) (limbsOf b.size b.prod) = .ok out ∧
      GenR.rnsbase_decompose out b.size b.base.toList = .ok res := by
  obtain ⟨out, hok, hlen, hlim, hlt, hres⟩ := gr_rnsbase_compose_crt hb res hl hr
  obtain ⟨out2, hok2, hlen2, hv2⟩ := gr_rnsbase_decompose_residues hb out hlen hlim (Or.inr hlt)
  refine ⟨out, hok, ?_⟩
  rw [hok2]
  congr 1
  apply gr_ext_getD 0 _ _ (by rw [hlen2, hl])
  intro i hi
  rw [hlen2] at hi
  rw [hv2 i hi, hres i hi]

end HC
