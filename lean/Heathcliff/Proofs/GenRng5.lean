/- Translator phase 4j: `from_seed`, and the CONVERSE direction of the sampler equalities (whenever the generated sampler returns, the model
   returns the same), giving `iff` statements: generated and model succeed on the same inputs with the same result.  Helper prefix `gs_`. -/
import Heathcliff.Proofs.GenRng4
namespace HC.GenRng
open HC HC.Rng

/-! ### `SeedableRng::from_seed` -/

theorem gn_from_seed_eq (seed : Seed) : from_seed seed = .ok (ofSt (fromSeed seed)) := by
  have hb : BUF = 4096 := gn_BUF
  unfold from_seed ofSt fromSeed
  simp only [hb, Array.toList_replicate, pure, Except.pure]

/-! ### inversion of successful runs -/

theorem gs_bind_ok {α β : Type} {x : R α} {f : α → R β} {b : β} (h : (x >>= f) = .ok b) : ∃ a, x = .ok a ∧ f a = .ok b := by
  cases x with
  | error e => simp [bind, Except.bind] at h
  | ok a => exact ⟨a, rfl, h⟩

theorem gs_refCol_inv (encJ : Nat → R Nat) (n i : Nat) : ∀ (c j : Nat) (d d' : List Nat), gs_refCol encJ n i c j d = .ok d' →
    ∀ j', j ≤ j' → j' < j + c → ∃ x, encJ j' = .ok x := by
  intro c
  induction c with
  | zero => intro j d d' _ j' h1 h2; omega
  | succ c ih =>
    intro j d d' h j' h1 h2
    simp only [gs_refCol] at h
    obtain ⟨val, e1, h⟩ := gs_bind_ok h
    obtain ⟨t, _, h⟩ := gs_bind_ok h
    obtain ⟨p, _, h⟩ := gs_bind_ok h
    obtain ⟨d1, _, h⟩ := gs_bind_ok h
    by_cases hj : j' = j
    · subst hj; exact ⟨val, e1⟩
    · exact ih (j + 1) d1 d' h j' (by omega) (by omega)

/-- `c` successive draws succeed and every drawn value can be encoded in every component -/
inductive gs_DrawsOk {σ : Type} (draw : σ → R (σ × Int)) (encJ : Int → Nat → R Nat) (k : Nat) : Nat → σ → σ → Prop
  | nil (g : σ) : gs_DrawsOk draw encJ k 0 g g
  | cons {c : Nat} {g g1 g' : σ} {v : Int} : draw g = .ok (g1, v) → (∀ j, j < k → ∃ x, encJ v j = .ok x) →
      gs_DrawsOk draw encJ k c g1 g' → gs_DrawsOk draw encJ k (c + 1) g g'

theorem gs_refOuter_inv {σ : Type} (draw : σ → R (σ × Int)) (encJ : Int → Nat → R Nat) (k n : Nat) :
    ∀ (c i : Nat) (g g' : σ) (d d' : List Nat), gs_refOuter draw encJ k n c i g d = .ok (g', d') → gs_DrawsOk draw encJ k c g g' := by
  intro c
  induction c with
  | zero =>
    intro i g g' d d' h
    simp only [gs_refOuter, pure, Except.pure, Except.ok.injEq, Prod.mk.injEq] at h
    rw [← h.1]; exact .nil g
  | succ c ih =>
    intro i g g' d d' h
    simp only [gs_refOuter] at h
    obtain ⟨⟨g1, v⟩, e1, h⟩ := gs_bind_ok h
    simp only [] at h
    obtain ⟨d1, e2, h⟩ := gs_bind_ok h
    exact .cons e1 (fun j hj => gs_refCol_inv _ _ _ _ _ _ _ e2 j (Nat.zero_le _) (by omega)) (ih _ _ _ _ _ h)

theorem gs_sampleMany_of_drawsOk (drawM : St → R (Int × St)) (drawG : BlakeRNG → R (BlakeRNG × Int)) (Inv : St → Prop)
    (hback : ∀ s g1 v, Inv s → drawG (ofSt s) = .ok (g1, v) → ∃ s1, drawM s = .ok (v, s1) ∧ g1 = ofSt s1 ∧ Inv s1)
    (encJ : Int → Nat → R Nat) (k : Nat) :
    ∀ (c : Nat) (s : St) (g g' : BlakeRNG), Inv s → g = ofSt s → gs_DrawsOk drawG encJ k c g g' →
      ∃ vs s', sampleMany drawM c s = .ok (vs, s') ∧ g' = ofSt s' ∧ ∀ v ∈ vs, ∀ j, j < k → ∃ x, encJ v j = .ok x := by
  intro c
  induction c with
  | zero =>
    intro s g g' _ hg hdr
    cases hdr
    exact ⟨[], s, rfl, hg, fun v hv => by simp at hv⟩
  | succ c ih =>
    intro s g g' hinv hg hdr
    cases hdr with
    | cons hdraw henc hrest =>
      rename_i g1 v
      subst hg
      obtain ⟨s1, m1, rfl, inv1⟩ := hback s g1 v hinv hdraw
      obtain ⟨vs, s', m2, hg', henc2⟩ := ih s1 (ofSt s1) g' inv1 rfl hrest
      refine ⟨v :: vs, s', by simp only [sampleMany, m1, m2], hg', ?_⟩
      intro v' hv'
      simp only [List.mem_cons] at hv'
      rcases hv' with rfl | hv'
      · exact henc
      · exact henc2 v' hv'

theorem gs_mapR_total {α β : Type} (f : α → R β) : ∀ l : List α, (∀ a ∈ l, ∃ b, f a = .ok b) → ∃ bs, mapR f l = .ok bs := by
  intro l
  induction l with
  | nil => intro _; exact ⟨[], rfl⟩
  | cons a l ih =>
    intro h
    obtain ⟨b, hb⟩ := h a (by simp)
    obtain ⟨bs, hbs⟩ := ih (fun x hx => h x (by simp [hx]))
    exact ⟨b :: bs, by simp only [mapR, hb, hbs]⟩

theorem gs_encodeAll_total (enc : Nat → Int → R Nat) (encJ : Int → Nat → R Nat) (moduli : List Nat) (vs : List Int)
    (hJ : ∀ v j, j < moduli.length → encJ v j = enc (moduli.getD j 0) v)
    (h : ∀ v ∈ vs, ∀ j, j < moduli.length → ∃ x, encJ v j = .ok x) : ∃ c, encodeAll enc moduli vs = .ok c := by
  unfold encodeAll
  apply gs_mapR_total
  intro q hq
  apply gs_mapR_total
  intro v hv
  obtain ⟨j, hj, rfl⟩ := List.mem_iff_getElem.1 hq
  obtain ⟨x, hx⟩ := h v hv j hj
  refine ⟨x, ?_⟩
  rw [← hx, hJ v j hj]
  simp [List.getD_eq_getElem?_getD, List.getElem?_eq_getElem hj]

theorem gs_ok_pair {α β : Type} {x : R (α × β)} {a : α} {b : β}
    (h : (do let (p, q) ← x; (pure (p, q) : R (α × β))) = .ok (a, b)) : x = .ok (a, b) := by
  cases x with
  | error e => simp [bind, Except.bind] at h
  | ok r => obtain ⟨p, q⟩ := r; simpa [bind, Except.bind, pure, Except.pure] using h

/-! ### `centered_binomial`, `ternary`: generated and model succeed on the same inputs, with the same result -/

theorem gs_centered_binomial_iff (U : Uniform) {xof : Xof} (hx : SizedXof xof) (hbx : ByteXof xof) (s : St) (hs : SizedSt s) (hbs : ByteSt s)
    (n : Nat) (moduli dest : List Nat) (hd : dest.length = moduli.length * n) (hB : moduli.length * n < B64) (g' : BlakeRNG) (d' : List Nat) :
    centered_binomial (blakeOps U xof) (ofSt s) moduli n dest = .ok (g', d') ↔
      ∃ c s', centeredBinomial xof s n moduli = .ok (c, s') ∧ g' = ofSt s' ∧ d' = flatCM moduli.length n c := by
  constructor
  · intro h
    have h0 := h
    unfold centered_binomial at h
    simp only [gs_cb_loop1, Nat.sub_zero] at h
    rw [if_neg (by decide), if_neg (by decide)] at h
    have hr := gs_ok_pair h
    have hdr := gs_refOuter_inv _ _ _ _ _ _ _ _ _ _ hr
    obtain ⟨vs, s', m, hg', henc⟩ := gs_sampleMany_of_drawsOk (cbdDraw xof) (centered_binomial_closure1 (blakeOps U xof))
      (fun s => SizedSt s ∧ ByteSt s)
      (fun s g1 v hi he => by
        rw [gs_cbd_closure U hx hbx s hi.1 hi.2] at he
        simp only [Except.ok.injEq, Prod.mk.injEq] at he
        obtain ⟨rfl, rfl⟩ := he
        exact ⟨(fillBytes xof s 6).2, rfl, rfl, sizedSt_fillBytes hx 6 s hi.1, (byte_fillBytes hbx hi.2 6).2⟩)
      (gs_encCB moduli) moduli.length n s (ofSt s) g' ⟨hs, hbs⟩ rfl hdr
    obtain ⟨c, hc⟩ := gs_encodeAll_total encError (gs_encCB moduli) moduli vs (fun v j hj => gs_encCB_eq hj v) henc
    have hm : centeredBinomial xof s n moduli = .ok (c, s') := by
      unfold centeredBinomial
      rw [if_neg (by decide), if_neg (by decide)]
      simp only [m, hc]
    have hf := gs_centered_binomial_fwd U hx hbx s hs hbs n moduli dest hd hB c s' hm
    rw [hf] at h0
    simp only [Except.ok.injEq, Prod.mk.injEq] at h0
    exact ⟨c, s', hm, hg', h0.2.symm⟩
  · rintro ⟨c, s', hm, rfl, rfl⟩
    exact gs_centered_binomial_fwd U hx hbx s hs hbs n moduli dest hd hB c s' hm

theorem gs_ternary_iff (U : Uniform) (xof : Xof) (s : St) (n : Nat) (moduli dest : List Nat)
    (hd : dest.length = moduli.length * n) (hB : moduli.length * n < B64) (g' : BlakeRNG) (d' : List Nat) :
    GenRng.ternary (blakeOps U xof) (ofSt s) moduli n dest = .ok (g', d') ↔
      ∃ c s', Rng.ternary U xof s n moduli = .ok (c, s') ∧ g' = ofSt s' ∧ d' = flatCM moduli.length n c := by
  constructor
  · intro h
    have h0 := h
    unfold GenRng.ternary at h
    have hu : uniformNewI32 (-1) 1 = .ok (-1, 1) := rfl
    simp only [hu, gs_ok_bind, gs_t_loop1, Nat.sub_zero] at h
    have hr := gs_ok_pair h
    have hdr := gs_refOuter_inv _ _ _ _ _ _ _ _ _ _ hr
    obtain ⟨vs, s', m, hg', henc⟩ := gs_sampleMany_of_drawsOk (U.i32 Gen.TERNARY_LOW Gen.TERNARY_HIGH xof)
      (fun g => (blakeOps U xof).sample_i32 (-1) 1 g) (fun _ => True)
      (fun s g1 v _ he => by
        simp only [blakeOps, toSt_ofSt] at he
        have e1 : Gen.TERNARY_LOW = -1 := rfl
        have e2 : Gen.TERNARY_HIGH = 1 := rfl
        rw [e1, e2]
        cases hu' : U.i32 (-1) 1 xof s with
        | error e => rw [hu'] at he; simp at he
        | ok r =>
          obtain ⟨v', s1⟩ := r
          rw [hu'] at he
          simp only [Except.ok.injEq, Prod.mk.injEq] at he
          obtain ⟨rfl, rfl⟩ := he
          exact ⟨s1, rfl, rfl, trivial⟩)
      (gs_encT moduli) moduli.length n s (ofSt s) g' trivial rfl hdr
    obtain ⟨c, hc⟩ := gs_encodeAll_total encTernary (gs_encT moduli) moduli vs (fun v j hj => gs_encT_eq hj v) henc
    have hm : Rng.ternary U xof s n moduli = .ok (c, s') := by
      unfold Rng.ternary
      simp only [m, hc]
    have hf := gs_ternary_fwd U xof s n moduli dest hd hB c s' hm
    rw [hf] at h0
    simp only [Except.ok.injEq, Prod.mk.injEq] at h0
    exact ⟨c, s', hm, hg', h0.2.symm⟩
  · rintro ⟨c, s', hm, rfl, rfl⟩
    exact gs_ternary_fwd U xof s n moduli dest hd hB c s' hm

/-! ### `uniform` -/

theorem gs_refRow_inv (drawM : St → R (Nat × St)) (drawG : BlakeRNG → R (BlakeRNG × Nat))
    (hback : ∀ s g1 v, drawG (ofSt s) = .ok (g1, v) → ∃ s1, drawM s = .ok (v, s1) ∧ g1 = ofSt s1) (n j : Nat) :
    ∀ (c i : Nat) (s : St) (g' : BlakeRNG) (d d' : List Nat), gs_refRow drawG n j c i (ofSt s) d = .ok (g', d') →
      ∃ vs s', sampleMany drawM c s = .ok (vs, s') ∧ g' = ofSt s' := by
  intro c
  induction c with
  | zero =>
    intro i s g' d d' h
    simp only [gs_refRow, pure, Except.pure, Except.ok.injEq, Prod.mk.injEq] at h
    exact ⟨[], s, rfl, h.1.symm⟩
  | succ c ih =>
    intro i s g' d d' h
    simp only [gs_refRow] at h
    obtain ⟨⟨g1, v⟩, e1, h⟩ := gs_bind_ok h
    simp only [] at h
    obtain ⟨t, _, h⟩ := gs_bind_ok h
    obtain ⟨p, _, h⟩ := gs_bind_ok h
    obtain ⟨d1, _, h⟩ := gs_bind_ok h
    obtain ⟨s1, m1, rfl⟩ := hback s g1 v e1
    obtain ⟨vs, s', m2, hg'⟩ := ih (i + 1) s1 g' d1 d' h
    exact ⟨v :: vs, s', by simp only [sampleMany, m1, m2], hg'⟩

theorem gs_uniform_loop1_inv (U : Uniform) (xof : Xof) (qs : List Nat) (n : Nat) :
    ∀ (c j : Nat) (s : St) (g' : BlakeRNG) (d d' : List Nat), j + c = qs.length →
      uniform_loop1 (blakeOps U xof) qs n c j (ofSt s) d = .ok (g', d') →
      ∃ C s', uniformPoly U xof s n (qs.drop j) = .ok (C, s') ∧ g' = ofSt s' := by
  intro c
  induction c with
  | zero =>
    intro j s g' d d' hj h
    have : qs.drop j = [] := List.drop_eq_nil_of_le (by omega)
    simp only [uniform_loop1, pure, Except.pure, Except.ok.injEq, Prod.mk.injEq] at h
    exact ⟨[], s, by rw [this]; rfl, h.1.symm⟩
  | succ c ih =>
    intro j s g' d d' hj h
    have hjl : j < qs.length := by omega
    have hdrop : qs.drop j = qs.getD j 0 :: qs.drop (j + 1) := by
      rw [List.drop_eq_getElem_cons hjl]; simp [List.getD_eq_getElem?_getD, List.getElem?_eq_getElem hjl]
    simp only [uniform_loop1, gs_idx hjl, gs_ok_bind] at h
    rw [hdrop]
    generalize qs.getD j 0 = q at h
    obtain ⟨hi, e2, h⟩ := gs_bind_ok h
    obtain ⟨dist, e3, h⟩ := gs_bind_ok h
    have hdist : dist = (0, hi) := by
      simp only [uniformNewU64, Nat.zero_le, if_true, Except.ok.injEq] at e3
      exact e3.symm
    subst hdist
    obtain ⟨⟨g1, d1⟩, e4, h⟩ := gs_bind_ok h
    simp only [] at h
    rw [gs_u_loop2, Nat.sub_zero] at e4
    obtain ⟨vs, s1, m1, rfl⟩ := gs_refRow_inv (U.u64 0 hi xof) (fun g => (blakeOps U xof).sample_u64 0 hi g)
      (fun s g1 v he => by
        simp only [blakeOps, toSt_ofSt] at he
        cases hu' : U.u64 0 hi xof s with
        | error e => rw [hu'] at he; simp at he
        | ok r =>
          obtain ⟨v', s1⟩ := r
          rw [hu'] at he
          simp only [Except.ok.injEq, Prod.mk.injEq] at he
          obtain ⟨rfl, rfl⟩ := he
          exact ⟨s1, rfl, rfl⟩) n j n 0 s g1 d d1 e4
    obtain ⟨rest, s', m2, hg'⟩ := ih (j + 1) s1 g' d1 d' (by omega) h
    exact ⟨vs :: rest, s', by simp only [uniformPoly, e2, m1, m2], hg'⟩

theorem gs_uniform_iff (U : Uniform) (xof : Xof) (s : St) (n : Nat) (moduli dest : List Nat)
    (hd : dest.length = moduli.length * n) (hB : moduli.length * n < B64) (g' : BlakeRNG) (d' : List Nat) :
    GenRng.uniform (blakeOps U xof) (ofSt s) moduli n dest = .ok (g', d') ↔
      ∃ c s', uniformPoly U xof s n moduli = .ok (c, s') ∧ g' = ofSt s' ∧ d' = flatCM moduli.length n c := by
  constructor
  · intro h
    have h0 := h
    unfold GenRng.uniform at h
    simp only [Nat.sub_zero] at h
    have hr := gs_ok_pair h
    obtain ⟨c, s', hm, hg'⟩ := gs_uniform_loop1_inv U xof moduli n moduli.length 0 s g' dest d' (by omega) hr
    rw [List.drop_zero] at hm
    have hf := gs_uniform_fwd U xof s n moduli dest hd hB c s' hm
    rw [hf] at h0
    simp only [Except.ok.injEq, Prod.mk.injEq] at h0
    exact ⟨c, s', hm, hg', h0.2.symm⟩
  · rintro ⟨c, s', hm, rfl, rfl⟩
    exact gs_uniform_fwd U xof s n moduli dest hd hB c s' hm

end HC.GenRng
