import Heathcliff.Proofs.C17
import Heathcliff.Gen.ConcFns

/-!
  Translator phase 4m (C17): the PHASE STRUCTURE of the lock-protected caches, generated from src/encryptor.rs, src/key.rs,
  src/util/galois.rs (Gen/ConcFns.lean: the program of one thread as a function of what it observes in each lock region) against the
  per-thread step functions `stepThr` / `gstepThr` of Model/Conc.lean.  Helper names start with `gq_`.

  `Act` decodes the action codes of tools/rs2lean_conc.py.  `stepActs` reads the actions of ONE model step off the step function's own
  decision (which branch `stepThr` took, the thread-local fields it wrote); `callActs` chains the steps of one call, the environment
  supplying the cache the thread sees in each lock region.  The equality theorems say: for ALL observations, the generated program is
  the model's.
-/
namespace HC.ConcProg
open HC HC.Conc HC.GenW

/-- one action of a thread (the codes of tools/rs2lean_conc.py) -/
inductive Act
  | acqR | relR | acqW | relW
  | alloc (words : Nat) | copy (words : Nat) | mul (a la b lb c lc : Nat) | store (words : Nat)
  | call (power : Nat) | read (lo hi : Nat) | readFirst | keys (off cnt : Nat)
  | gen (idx : Nat) | use (idx len : Nat)
  deriving DecidableEq, Repr

def Act.code : Act → List Nat
  | .acqR => [1] | .relR => [2] | .acqW => [3] | .relW => [4]
  | .alloc w => [10, w] | .copy w => [11, w] | .mul a la b lb c lc => [12, a, la, b, lb, c, lc] | .store w => [13, w]
  | .call p => [14, p] | .read lo hi => [15, lo, hi] | .readFirst => [16] | .keys o c => [17, o, c]
  | .gen i => [20, i] | .use i l => [21, i, l]

def encode (l : List Act) : List Nat := l.flatMap Act.code

variable {P : Type}

theorem gq_encode_append (a b : List Act) : encode (a ++ b) = encode a ++ encode b := by simp [encode]


/-! ### the secret-key power cache: `compute_secret_key_array` -/

/-- does the write phase of the model keep the shared cache (re-check succeeded)? -/
def wKeeps (rc : Bool) (cache : List P) (t : Thr P) : Bool := rc && decide (cache.length = max cache.length t.want)

/-- `wKeeps` IS the decision of `stepThr` in its W phase -/
theorem gq_stepThr_W (rc : Bool) (A : Alg P) (cache : List P) (t : Thr P) (h : t.pc = .W) :
    stepThr rc A cache t = (if wKeeps rc cache t then cache else t.newArr, { t with pc := .U }) := by
  cases t with
  | mk want pc oldR newArr result =>
    simp only at h; subst h
    cases rc <;> by_cases hc : want ≤ cache.length <;> simp [stepThr, wKeeps, hc] <;> split <;> rfl

/-- the compute loop on an array that holds `L` powers: iteration `i` multiplies the words of entry `L + i − 1` with those of entry 0 into
    entry `L + i` (word offsets and lengths, `d` words per polynomial) -/
def muls (d L cnt : Nat) : List Act := (List.range cnt).map fun i => .mul ((L + i - 1) * d) d 0 d ((L + i) * d) d

/-- the actions of ONE model step of a thread at `t.pc` that sees `cache` (`d` = words per polynomial), read off `stepThr`:
    R: acquire; unless the step went straight to U (early return): allocate `max oldR want` polynomials, copy the `newArr` it took; release.
    C: one MUL per iteration of the count `stepThr` passes to `extend`: entry `oldR + i` := entry `oldR + i − 1` · entry 0 (`muls`).
    W: acquire; publish the local array unless the step kept the cache; release. -/
def stepActs (d : Nat) (rc : Bool) (A : Alg P) (cache : List P) (t : Thr P) : List Act :=
  let r := stepThr rc A cache t
  match t.pc with
  | .R => if r.2.pc = .U then [.acqR, .relR]
          else [.acqR, .alloc (max r.2.oldR t.want * d), .copy (r.2.newArr.length * d), .relR]
  | .C => muls d t.oldR (max t.oldR t.want - t.oldR)
  | .W => if wKeeps rc cache t then [.acqW, .relW] else [.acqW, .store (t.newArr.length * d), .relW]
  | _ => []

/-- one call `compute_secret_key_array(want)` of the model: the thread's R, C, W steps; it sees `cR` in R and `cW` in W (whatever the
    other threads did in between) -/
def callActs (d : Nat) (rc : Bool) (A : Alg P) (want : Nat) (cR cW : List P) : List Act :=
  let t0 : Thr P := { want := want }
  let t1 := (stepThr rc A cR t0).2
  stepActs d rc A cR t0 ++
    (if t1.pc = .U then [] else
      let t2 := (stepThr rc A cR t1).2
      stepActs d rc A cR t1 ++ (if t2.pc = .W then stepActs d rc A cW t2 else []))

theorem gq_extend_length (A : Alg P) : ∀ (k : Nat) (arr a : List P), extend A k arr = some a → a.length = arr.length + k := by
  intro k
  induction k with
  | zero => intro arr a h; simp [extend] at h; subst h; rfl
  | succ k ih =>
    intro arr a h
    unfold extend at h
    cases he : extendOnce A arr with
    | none => simp [he] at h
    | some b =>
      simp only [he] at h
      have hb : b.length = arr.length + 1 := by
        unfold extendOnce at he
        split at he
        · simp at he; subst he; simp
        · simp at he
      rw [ih b a h, hb]; omega

theorem gq_extend_some (A : Alg P) : ∀ (k : Nat) (arr : List P), arr ≠ [] → ∃ a, extend A k arr = some a := by
  intro k
  induction k with
  | zero => intro arr _; exact ⟨arr, rfl⟩
  | succ k ih =>
    intro arr hne
    unfold extend
    obtain ⟨x, xs, rfl⟩ := List.exists_cons_of_ne_nil hne
    have : ∃ b, extendOnce A (x :: xs) = some b ∧ b ≠ [] := by
      cases hl : (x :: xs).getLast? with
      | none => simp at hl
      | some l => exact ⟨(x :: xs) ++ [A.mul l x], by simp [extendOnce, hl], by simp⟩
    obtain ⟨b, hb, hbne⟩ := this
    rw [hb]
    exact ih b hbne

/-- the model's call, in closed form (non-empty cache in the read phase) -/
theorem gq_callActs (d : Nat) (A : Alg P) (want : Nat) (cR cW : List P) (h1 : 1 ≤ cR.length) :
    callActs d true A want cR cW =
      if cR.length = max cR.length want then [.acqR, .relR]
      else [.acqR, .alloc (max cR.length want * d), .copy (cR.length * d), .relR] ++ muls d cR.length (max cR.length want - cR.length) ++
        [.acqW] ++ (if cW.length = max cW.length want then [.relW] else [.store (max cR.length want * d), .relW]) := by
  by_cases hr : cR.length = max cR.length want
  · simp [callActs, stepActs, stepThr, hr.symm]
  · have hne : cR ≠ [] := by intro h; simp [h] at h1
    obtain ⟨a, ha⟩ := gq_extend_some A (max cR.length want - cR.length) cR hne
    have hal := gq_extend_length A _ _ _ ha
    have hlen : a.length = max cR.length want := by rw [hal]; omega
    by_cases hw : cW.length = max cW.length want
    · simp [callActs, stepActs, stepThr, hr, ha, wKeeps, hw.symm]
    · simp [callActs, stepActs, stepThr, hr, ha, wKeeps, hw, hlen]

theorem gq_ok_bind {α β : Type} (x : α) (f : α → R β) : (Except.ok x >>= f) = f x := rfl
theorem gq_pure {α : Type} (x : α) : (pure x : R α) = .ok x := rfl

/-- the flat codes of `muls`, from iteration `i` on -/
def mulCodes (d L i cnt : Nat) : List Nat :=
  (List.range cnt).flatMap fun j => [12, (L + (i + j) - 1) * d, d, 0, d, (L + (i + j)) * d, d]

theorem gq_mulCodes_succ (d L i cnt : Nat) :
    mulCodes d L i (cnt + 1) = [12, (L + i - 1) * d, d, 0, d, (L + i) * d, d] ++ mulCodes d L (i + 1) cnt := by
  unfold mulCodes
  rw [List.range_succ_eq_map, List.flatMap_cons, List.flatMap_map]
  simp only [Nat.add_zero]
  congr 1
  have : (fun j => [12, (L + (i + (j + 1)) - 1) * d, d, 0, d, (L + (i + (j + 1))) * d, d]) =
      (fun j => [12, (L + (i + 1 + j) - 1) * d, d, 0, d, (L + (i + 1 + j)) * d, d]) := by
    funext j; rw [show i + (j + 1) = i + 1 + j by omega]
  simpa [Function.comp_def] using congrArg (fun f => List.flatMap f (List.range cnt)) this

theorem gq_encode_muls (d L cnt : Nat) : encode (muls d L cnt) = mulCodes d L 0 cnt := by
  simp [encode, muls, mulCodes, List.flatMap_map, Act.code, Function.comp_def]

/-- the compute loop of the generated `Decryptor::compute_secret_key_array` (array of `N` polynomials of `n·k` words holding `L ≥ 1`
    powers; iterations `i … i + fuel − 1` stay inside the array), followed by the write phase (`M` polynomials seen under the write lock) -/
theorem gq_dec_loop (w n k L N M : Nat) (hd : 0 < n * k) (hnk : n * k < B64) (hA : N * n * k < B64) (hL : 1 ≤ L) :
    ∀ (fuel i : Nat) (tr : List Nat), L + i + fuel ≤ N →
    GenConc.dec_compute_secret_key_array_loop1 w (M * (n * k)) tr k n L N (N * n * k) (n * k) fuel i =
      .ok (tr ++ mulCodes (n * k) L i fuel ++ [3] ++ (if M = max M w then [4] else [13, N * n * k, 4])) := by
  have hass : N * n * k = N * (n * k) := Nat.mul_assoc _ _ _
  intro fuel
  induction fuel with
  | zero =>
    intro i tr _
    have e1 : ckMul n k = .ok (n * k) := by unfold ckMul; rw [if_pos hnk]
    have e8 : ckMod (N * n * k) (n * k) = .ok 0 := by unfold ckMod; rw [if_neg (by omega), hass, Nat.mul_mod_left]
    have e9 : ckDiv (M * (n * k)) (n * k) = .ok M := by unfold ckDiv; rw [if_neg (by omega), Nat.mul_div_cancel _ hd]
    rw [GenConc.dec_compute_secret_key_array_loop1]
    simp only [e1, e8, e9, gq_ok_bind, if_true, gq_pure, mulCodes, List.range_zero, List.flatMap_nil, List.append_nil]
    by_cases hw : M = max M w
    · rw [if_pos hw, if_pos hw]
    · rw [if_neg hw, if_neg hw]; simp
  | succ f ih =>
    intro i tr hN
    have hle : ∀ x, x ≤ N → x * (n * k) ≤ N * n * k := fun x hx => by rw [hass]; exact Nat.mul_le_mul_right _ hx
    have hNle : N ≤ N * n * k := by rw [hass]; exact Nat.le_mul_of_pos_right _ hd
    have h0 := hle (L + i - 1) (by omega)
    have h1 := hle (L + i) (by omega)
    have h2 := hle (L + i + 1) (by omega)
    have hd1 : n * k ≤ N * n * k := by have := hle 1 (by omega); rwa [Nat.one_mul] at this
    have hs0 : (L + i - 1) * (n * k) + n * k = (L + i) * (n * k) := by
      rw [← Nat.succ_mul]; congr 1; omega
    have hs1 : (L + i) * (n * k) + n * k = (L + i + 1) * (n * k) := (Nat.succ_mul _ _).symm
    have a1 : ckAdd L i = .ok (L + i) := by unfold ckAdd; rw [if_pos (by omega)]
    have a2 : ckSub (L + i) 1 = .ok (L + i - 1) := by unfold ckSub; rw [if_pos (by omega)]
    have a3 : ckMul (L + i - 1) (n * k) = .ok ((L + i - 1) * (n * k)) := by unfold ckMul; rw [if_pos (by omega)]
    have a4 : ckMul (L + i) (n * k) = .ok ((L + i) * (n * k)) := by unfold ckMul; rw [if_pos (by omega)]
    have a5 : ckAdd (L + i) 1 = .ok (L + i + 1) := by unfold ckAdd; rw [if_pos (by omega)]
    have a6 : ckMul (L + i + 1) (n * k) = .ok ((L + i + 1) * (n * k)) := by unfold ckMul; rw [if_pos (by omega)]
    have a7 : ckAdd ((L + i - 1) * (n * k)) (n * k) = .ok ((L + i - 1) * (n * k) + n * k) := by unfold ckAdd; rw [if_pos (by omega)]
    have a8 : ckAdd 0 (n * k) = .ok (0 + n * k) := by unfold ckAdd; rw [if_pos (by omega)]
    have a9 : ckAdd ((L + i) * (n * k)) (n * k) = .ok ((L + i) * (n * k) + n * k) := by unfold ckAdd; rw [if_pos (by omega)]
    have c1 : (L + i - 1) * (n * k) ≤ (L + i) * (n * k) := Nat.mul_le_mul_right _ (by omega)
    have c2 : (L + i) * (n * k) ≤ (L + i + 1) * (n * k) := Nat.mul_le_mul_right _ (by omega)
    have c3 : (L + i - 1) * (n * k) + n * k ≤ N * n * k := by omega
    have c4 : 0 + n * k ≤ N * n * k := by omega
    have c5 : (L + i) * (n * k) + n * k ≤ N * n * k := by omega
    rw [GenConc.dec_compute_secret_key_array_loop1]
    simp only [a1, a2, a3, a4, a5, a6, a7, a8, a9, gq_ok_bind, if_pos c1, if_pos c2, if_pos c3, if_pos c4, if_pos c5, if_pos h1, if_pos h2, if_pos hd1]
    rw [ih (i + 1) _ (by omega), gq_mulCodes_succ]
    simp only [List.append_assoc, List.cons_append, List.nil_append]

/-- the generated `Decryptor::compute_secret_key_array`, in closed form: `L ≥ 1` / `M` = polynomials in the shared vector under the read /
    the write lock -/
theorem gq_dec_compute_flat (w n k L M : Nat) (hd : 0 < n * k) (hnk : n * k < B64) (hA : max L w * n * k < B64) (hL : 1 ≤ L) :
    GenConc.dec_compute_secret_key_array w n k (L * (n * k)) (M * (n * k)) =
      .ok (if L = max L w then [1, 2]
           else [1, 10, max L w * n * k, 11, L * (n * k), 2] ++ mulCodes (n * k) L 0 (max L w - L) ++ [3] ++
             (if M = max M w then [4] else [13, max L w * n * k, 4])) := by
  have hk : 0 < k := Nat.pos_of_mul_pos_left hd
  have hLm : L ≤ max L w := Nat.le_max_left _ _
  have hmn : max L w * n ≤ max L w * n * k := Nat.le_mul_of_pos_right _ hk
  have hass : max L w * n * k = max L w * (n * k) := Nat.mul_assoc _ _ _
  have hLle : L * (n * k) ≤ max L w * n * k := by rw [hass]; exact Nat.mul_le_mul_right _ hLm
  have e1 : ckMul n k = .ok (n * k) := by unfold ckMul; rw [if_pos hnk]
  have e2 : ckMod (L * (n * k)) (n * k) = .ok 0 := by unfold ckMod; rw [if_neg (by omega), Nat.mul_mod_left]
  have e3 : ckDiv (L * (n * k)) (n * k) = .ok L := by unfold ckDiv; rw [if_neg (by omega), Nat.mul_div_cancel _ hd]
  have e4 : ckMul (max L w) n = .ok (max L w * n) := by unfold ckMul; rw [if_pos (by omega)]
  have e5 : ckMul (max L w * n) k = .ok (max L w * n * k) := by unfold ckMul; rw [if_pos hA]
  have e6 : ckMul L (n * k) = .ok (L * (n * k)) := by unfold ckMul; rw [if_pos (by omega)]
  have e7 : ckSub (max L w) L = .ok (max L w - L) := by unfold ckSub; rw [if_pos hLm]
  unfold GenConc.dec_compute_secret_key_array
  simp only [e1, e2, e3, gq_ok_bind, if_true]
  by_cases hr : L = max L w
  · rw [if_pos hr, if_pos hr]; rfl
  · rw [if_neg hr, if_neg hr]
    simp only [e4, e5, e6, e7, gq_ok_bind, if_true, if_pos hLle, if_pos (Nat.le_refl _)]
    rw [gq_dec_loop w n k L (max L w) M hd hnk hA hL _ 0 _ (by omega)]
    simp only [List.append_assoc, List.cons_append, List.nil_append]

/-- the compute loop of the generated `KeyGenerator::compute_secret_key_array` (array of `N` polynomials of `n·k` words holding `L ≥ 1`
    powers; iterations `i … i + fuel − 1` stay inside the array), followed by the write phase (`M` polynomials seen under the write lock) -/
theorem gq_kg_loop (w n k L N M : Nat) (hd : 0 < n * k) (hnk : n * k < B64) (hA : N * n * k < B64) (hL : 1 ≤ L) :
    ∀ (fuel i : Nat) (tr : List Nat), L + i + fuel ≤ N →
    GenConc.kg_compute_secret_key_array_loop1 w (M * (n * k)) tr k n L N (N * n * k) (n * k) fuel i =
      .ok (tr ++ mulCodes (n * k) L i fuel ++ [3] ++ (if M = max M w then [4] else [13, N * n * k, 4])) := by
  have hass : N * n * k = N * (n * k) := Nat.mul_assoc _ _ _
  intro fuel
  induction fuel with
  | zero =>
    intro i tr _
    have e1 : ckMul n k = .ok (n * k) := by unfold ckMul; rw [if_pos hnk]
    have e8 : ckMod (N * n * k) (n * k) = .ok 0 := by unfold ckMod; rw [if_neg (by omega), hass, Nat.mul_mod_left]
    have e9 : ckDiv (M * (n * k)) (n * k) = .ok M := by unfold ckDiv; rw [if_neg (by omega), Nat.mul_div_cancel _ hd]
    rw [GenConc.kg_compute_secret_key_array_loop1]
    simp only [e1, e8, e9, gq_ok_bind, if_true, gq_pure, mulCodes, List.range_zero, List.flatMap_nil, List.append_nil]
    by_cases hw : M = max M w
    · rw [if_pos hw, if_pos hw]
    · rw [if_neg hw, if_neg hw]; simp
  | succ f ih =>
    intro i tr hN
    have hle : ∀ x, x ≤ N → x * (n * k) ≤ N * n * k := fun x hx => by rw [hass]; exact Nat.mul_le_mul_right _ hx
    have hNle : N ≤ N * n * k := by rw [hass]; exact Nat.le_mul_of_pos_right _ hd
    have h0 := hle (L + i - 1) (by omega)
    have h1 := hle (L + i) (by omega)
    have h2 := hle (L + i + 1) (by omega)
    have hd1 : n * k ≤ N * n * k := by have := hle 1 (by omega); rwa [Nat.one_mul] at this
    have hs0 : (L + i - 1) * (n * k) + n * k = (L + i) * (n * k) := by
      rw [← Nat.succ_mul]; congr 1; omega
    have hs1 : (L + i) * (n * k) + n * k = (L + i + 1) * (n * k) := (Nat.succ_mul _ _).symm
    have a1 : ckAdd L i = .ok (L + i) := by unfold ckAdd; rw [if_pos (by omega)]
    have a2 : ckSub (L + i) 1 = .ok (L + i - 1) := by unfold ckSub; rw [if_pos (by omega)]
    have a3 : ckMul (L + i - 1) (n * k) = .ok ((L + i - 1) * (n * k)) := by unfold ckMul; rw [if_pos (by omega)]
    have a4 : ckMul (L + i) (n * k) = .ok ((L + i) * (n * k)) := by unfold ckMul; rw [if_pos (by omega)]
    have a5 : ckAdd (L + i) 1 = .ok (L + i + 1) := by unfold ckAdd; rw [if_pos (by omega)]
    have a6 : ckMul (L + i + 1) (n * k) = .ok ((L + i + 1) * (n * k)) := by unfold ckMul; rw [if_pos (by omega)]
    have a7 : ckAdd ((L + i - 1) * (n * k)) (n * k) = .ok ((L + i - 1) * (n * k) + n * k) := by unfold ckAdd; rw [if_pos (by omega)]
    have a8 : ckAdd 0 (n * k) = .ok (0 + n * k) := by unfold ckAdd; rw [if_pos (by omega)]
    have a9 : ckAdd ((L + i) * (n * k)) (n * k) = .ok ((L + i) * (n * k) + n * k) := by unfold ckAdd; rw [if_pos (by omega)]
    have c1 : (L + i - 1) * (n * k) ≤ (L + i) * (n * k) := Nat.mul_le_mul_right _ (by omega)
    have c2 : (L + i) * (n * k) ≤ (L + i + 1) * (n * k) := Nat.mul_le_mul_right _ (by omega)
    have c3 : (L + i - 1) * (n * k) + n * k ≤ N * n * k := by omega
    have c4 : 0 + n * k ≤ N * n * k := by omega
    have c5 : (L + i) * (n * k) + n * k ≤ N * n * k := by omega
    rw [GenConc.kg_compute_secret_key_array_loop1]
    simp only [a1, a2, a3, a4, a5, a6, a7, a8, a9, gq_ok_bind, if_pos c1, if_pos c2, if_pos c3, if_pos c4, if_pos c5, if_pos h1, if_pos h2, if_pos hd1]
    rw [ih (i + 1) _ (by omega), gq_mulCodes_succ]
    simp only [List.append_assoc, List.cons_append, List.nil_append]

/-- the generated `KeyGenerator::compute_secret_key_array`, in closed form: `L ≥ 1` / `M` = polynomials in the shared vector under the read /
    the write lock -/
theorem gq_kg_compute_flat (w n k L M : Nat) (hd : 0 < n * k) (hnk : n * k < B64) (hA : max L w * n * k < B64) (hL : 1 ≤ L) :
    GenConc.kg_compute_secret_key_array w n k (L * (n * k)) (M * (n * k)) =
      .ok (if L = max L w then [1, 2]
           else [1, 10, max L w * n * k, 11, L * (n * k), 2] ++ mulCodes (n * k) L 0 (max L w - L) ++ [3] ++
             (if M = max M w then [4] else [13, max L w * n * k, 4])) := by
  have hk : 0 < k := Nat.pos_of_mul_pos_left hd
  have hLm : L ≤ max L w := Nat.le_max_left _ _
  have hmn : max L w * n ≤ max L w * n * k := Nat.le_mul_of_pos_right _ hk
  have hass : max L w * n * k = max L w * (n * k) := Nat.mul_assoc _ _ _
  have hLle : L * (n * k) ≤ max L w * n * k := by rw [hass]; exact Nat.mul_le_mul_right _ hLm
  have e1 : ckMul n k = .ok (n * k) := by unfold ckMul; rw [if_pos hnk]
  have e2 : ckMod (L * (n * k)) (n * k) = .ok 0 := by unfold ckMod; rw [if_neg (by omega), Nat.mul_mod_left]
  have e3 : ckDiv (L * (n * k)) (n * k) = .ok L := by unfold ckDiv; rw [if_neg (by omega), Nat.mul_div_cancel _ hd]
  have e4 : ckMul (max L w) n = .ok (max L w * n) := by unfold ckMul; rw [if_pos (by omega)]
  have e5 : ckMul (max L w * n) k = .ok (max L w * n * k) := by unfold ckMul; rw [if_pos hA]
  have e6 : ckMul L (n * k) = .ok (L * (n * k)) := by unfold ckMul; rw [if_pos (by omega)]
  have e7 : ckSub (max L w) L = .ok (max L w - L) := by unfold ckSub; rw [if_pos hLm]
  unfold GenConc.kg_compute_secret_key_array
  simp only [e1, e2, e3, gq_ok_bind, if_true]
  by_cases hr : L = max L w
  · rw [if_pos hr, if_pos hr]; rfl
  · rw [if_neg hr, if_neg hr]
    simp only [e4, e5, e6, e7, gq_ok_bind, if_true, if_pos hLle, if_pos (Nat.le_refl _)]
    rw [gq_kg_loop w n k L (max L w) M hd hnk hA hL _ 0 _ (by omega)]
    simp only [List.append_assoc, List.cons_append, List.nil_append]

/-! ### what the actions DO: an interpreter, and the model step is the execution of its own actions -/

/-- data semantics of one action on (shared cache, thread-local array); `d` = words per polynomial.
    ALLOC: a fresh zeroed array (nothing valid in it yet).  COPY w: the first `w` words of the shared vector, i.e. `w / d` polynomials.
    MUL a la b lb c lc (word offsets / lengths): the polynomial at `c` := the polynomial at `a` times the polynomial at `b`; all three must be
    whole polynomials, the operands inside the valid part of the array and the result its next entry.
    STORE: the local array replaces the shared one.  Lock operations and reads have no data effect. -/
def execAct (A : Alg P) (d : Nat) : Act → List P × List P → Option (List P × List P)
  | .alloc _, (c, _) => some (c, [])
  | .copy w, (c, _) => some (c, c.take (w / d))
  | .mul a la b lb c lc, (ch, arr) =>
    if la = d ∧ lb = d ∧ lc = d ∧ a % d = 0 ∧ b % d = 0 ∧ c = arr.length * d then
      match arr[a / d]?, arr[b / d]? with
      | some x, some y => some (ch, arr ++ [A.mul x y])
      | _, _ => none
    else none
  | .store _, (_, arr) => some (arr, arr)
  | _, σ => some σ

def execActs (A : Alg P) (d : Nat) : List Act → List P × List P → Option (List P × List P)
  | [], σ => some σ
  | a :: as, σ => (execAct A d a σ).bind (execActs A d as)

theorem gq_muls_succ (d L cnt : Nat) : muls d L (cnt + 1) = .mul ((L - 1) * d) d 0 d (L * d) d :: muls d (L + 1) cnt := by
  unfold muls
  rw [List.range_succ_eq_map, List.map_cons, List.map_map]
  simp only [Nat.add_zero, Function.comp_def]
  congr 1
  apply List.map_congr_left
  intro j _
  rw [show L + (j + 1) = L + 1 + j by omega]

/-- the derived compute loop IS the model's `extend`: executing the MULs on a local array of `L` polynomials -/
theorem gq_exec_muls (A : Alg P) (d : Nat) (hd : 0 < d) (ch : List P) : ∀ (cnt : Nat) (arr : List P),
    execActs A d (muls d arr.length cnt) (ch, arr) = (extend A cnt arr).map fun a => (ch, a) := by
  intro cnt
  induction cnt with
  | zero => intro arr; simp [muls, execActs, extend]
  | succ c ih =>
    intro arr
    rw [gq_muls_succ]
    simp only [execActs, execAct, Nat.mul_mod_left, Nat.zero_mod, Nat.mul_div_cancel _ hd, Nat.zero_div, and_self, if_true]
    unfold extend extendOnce
    rw [List.getLast?_eq_getElem?, List.head?_eq_getElem?]
    cases h1 : arr[arr.length - 1]? with
    | none => simp
    | some x =>
      cases h2 : arr[0]? with
      | none => simp
      | some y =>
        simp only [Option.bind]
        have := ih (arr ++ [A.mul x y])
        simp only [List.length_append, List.length_singleton] at this
        exact this

/-- SOUNDNESS of the reading `stepActs`: executing the actions of a model step on (the cache the thread sees, its local array) gives
    exactly the cache and the local array `stepThr` produces, and fails exactly when `stepThr` panics.  (`hC`: in the compute phase the
    local array is the copy taken in the read phase - an invariant of every run, `ThrOk`.) -/
theorem gq_stepActs_sound (A : Alg P) (d : Nat) (hd : 0 < d) (rc : Bool) (cache : List P) (t : Thr P)
    (hpc : t.pc = .R ∨ t.pc = .C ∨ t.pc = .W) (hC : t.pc = .C → t.newArr.length = t.oldR) :
    execActs A d (stepActs d rc A cache t) (cache, t.newArr) =
      if (stepThr rc A cache t).2.pc = .panicked then none
      else some ((stepThr rc A cache t).1, (stepThr rc A cache t).2.newArr) := by
  cases t with
  | mk want pc oldR newArr result =>
    rcases hpc with h | h | h <;> simp only at h <;> subst h
    · by_cases hr : want ≤ cache.length
      · simp [stepActs, stepThr, hr, execActs, execAct]
      · have hm : ¬ cache.length = max cache.length want := by omega
        simp [stepActs, stepThr, if_neg hm, execActs, execAct, Nat.mul_div_cancel _ hd]
    · have hl : newArr.length = oldR := hC rfl
      subst hl
      have hm := gq_exec_muls A d hd cache (max newArr.length want - newArr.length) newArr
      cases he : extend A (max newArr.length want - newArr.length) newArr with
      | none => simp [stepActs, stepThr, he, hm]
      | some a => simp [stepActs, stepThr, he, hm]
    · cases hk : wKeeps rc cache { want := want, pc := .W, oldR := oldR, newArr := newArr, result := result } with
      | true => simp [stepActs, gq_stepThr_W, hk, execActs, execAct]
      | false => simp [stepActs, gq_stepThr_W, hk, execActs, execAct]

/-! ### lock discipline of a program (the structural assumption of the lock-level model, Part 3 of Model/Conc.lean) -/

/-- where a thread stands with respect to the lock while its program runs -/
inductive Hold | out | r | w
  deriving DecidableEq, Repr

/-- one action under the lock discipline: a lock is acquired only while NONE is held (so a thread never waits for the write lock while it
    holds the read lock), released only by its holder; shared data is read (COPY, READ, READ_FIRST, KEYS, USE) only inside a region,
    written (STORE, GEN) only inside a write region; the computation (ALLOC is local, MUL) and nested calls happen outside any region
    (MUL, CALL) or anywhere (ALLOC) -/
def lockStep : Hold → Act → Option Hold
  | .out, .acqR => some .r
  | .out, .acqW => some .w
  | .r, .relR => some .out
  | .w, .relW => some .out
  | h, .alloc _ => some h
  | .r, .copy _ => some .r | .w, .copy _ => some .w
  | .r, .read _ _ => some .r | .w, .read _ _ => some .w
  | .r, .readFirst => some .r | .w, .readFirst => some .w
  | .r, .keys _ _ => some .r | .w, .keys _ _ => some .w
  | .r, .use _ _ => some .r | .w, .use _ _ => some .w
  | .w, .store _ => some .w
  | .w, .gen _ => some .w
  | .out, .mul _ _ _ _ _ _ => some .out
  | .out, .call _ => some .out
  | _, _ => none

def lockRun : Hold → List Act → Option Hold
  | h, [] => some h
  | h, a :: as => (lockStep h a).bind fun h' => lockRun h' as

/-- a program respects the lock discipline and ends holding nothing -/
def LockWF (acts : List Act) : Prop := lockRun .out acts = some .out

theorem gq_lockRun_append (a b : List Act) : ∀ h, lockRun h (a ++ b) = (lockRun h a).bind fun h' => lockRun h' b := by
  induction a with
  | nil => intro h; rfl
  | cons x xs ih =>
    intro h
    simp only [List.cons_append, lockRun]
    cases lockStep h x with
    | none => rfl
    | some h' => exact ih h'

theorem gq_lockRun_muls (d L cnt : Nat) : lockRun .out (muls d L cnt) = some .out := by
  unfold muls
  induction (List.range cnt) with
  | nil => rfl
  | cons x xs ih => simp only [List.map_cons, lockRun, lockStep, Option.bind]; exact ih

/-- every call of the model's `compute_secret_key_array` program respects the lock discipline -/
theorem gq_callActs_lockWF (d : Nat) (A : Alg P) (want : Nat) (cR cW : List P) (h1 : 1 ≤ cR.length) :
    LockWF (callActs d true A want cR cW) := by
  rw [gq_callActs d A want cR cW h1]
  unfold LockWF
  by_cases hr : cR.length = max cR.length want
  · rw [if_pos hr]; rfl
  · rw [if_neg hr]
    have hR : lockRun .out [Act.acqR, .alloc (max cR.length want * d), .copy (cR.length * d), .relR] = some .out := rfl
    simp only [gq_lockRun_append, hR, gq_lockRun_muls, Option.bind]
    by_cases hw : cW.length = max cW.length want
    · rw [if_pos hw]; rfl
    · rw [if_neg hw]; rfl

/-- EQUALITY (phase structure of the double-checked update): for every request, every cache `cR` the thread sees under the read lock and
    every cache `cW` it sees under the write lock, the generated program of `compute_secret_key_array` is the model's call -/
theorem gq_dec_compute_eq (A : Alg P) (want n k : Nat) (cR cW : List P) (hd : 0 < n * k) (hnk : n * k < B64)
    (hA : max cR.length want * n * k < B64) (h1 : 1 ≤ cR.length) :
    GenConc.dec_compute_secret_key_array want n k (cR.length * (n * k)) (cW.length * (n * k)) =
      .ok (encode (callActs (n * k) true A want cR cW)) := by
  rw [gq_dec_compute_flat want n k _ _ hd hnk hA h1, gq_callActs (n * k) A want cR cW h1]
  have hass : max cR.length want * n * k = max cR.length want * (n * k) := Nat.mul_assoc _ _ _
  by_cases hr : cR.length = max cR.length want
  · rw [if_pos hr, if_pos hr]; rfl
  · rw [if_neg hr, if_neg hr]
    simp only [gq_encode_append, gq_encode_muls]
    by_cases hw : cW.length = max cW.length want
    · rw [if_pos hw, if_pos hw, hass]; rfl
    · rw [if_neg hw, if_neg hw, hass]; rfl

/-- the same for the KeyGenerator: for every request, every cache `cR` the thread sees under the read lock and
    every cache `cW` it sees under the write lock, the generated program of `compute_secret_key_array` is the model's call -/
theorem gq_kg_compute_eq (A : Alg P) (want n k : Nat) (cR cW : List P) (hd : 0 < n * k) (hnk : n * k < B64)
    (hA : max cR.length want * n * k < B64) (h1 : 1 ≤ cR.length) :
    GenConc.kg_compute_secret_key_array want n k (cR.length * (n * k)) (cW.length * (n * k)) =
      .ok (encode (callActs (n * k) true A want cR cW)) := by
  rw [gq_kg_compute_flat want n k _ _ hd hnk hA h1, gq_callActs (n * k) A want cR cW h1]
  have hass : max cR.length want * n * k = max cR.length want * (n * k) := Nat.mul_assoc _ _ _
  by_cases hr : cR.length = max cR.length want
  · rw [if_pos hr, if_pos hr]; rfl
  · rw [if_neg hr, if_neg hr]
    simp only [gq_encode_append, gq_encode_muls]
    by_cases hw : cW.length = max cW.length want
    · rw [if_pos hw, if_pos hw, hass]; rfl
    · rw [if_neg hw, if_neg hw, hass]; rfl

/-- the EMPTY cache (excluded by `1 ≤ cR.length` above; unreachable: the constructors store `s^1`): the generated program traps in the
    index computation `old_size + i - 1` of the first loop iteration ... -/
theorem gq_dec_compute_empty (want n k M : Nat) (hw : 0 < want) (hd : 0 < n * k) (hnk : n * k < B64) (hA : want * n * k < B64) :
    GenConc.dec_compute_secret_key_array want n k 0 (M * (n * k)) = .error .overflow := by
  have hk : 0 < k := Nat.pos_of_mul_pos_left hd
  have hmn : want * n ≤ want * n * k := Nat.le_mul_of_pos_right _ hk
  have e1 : ckMul n k = .ok (n * k) := by unfold ckMul; rw [if_pos hnk]
  have e2 : ckMod 0 (n * k) = .ok 0 := by unfold ckMod; rw [if_neg (by omega), Nat.zero_mod]
  have e3 : ckDiv 0 (n * k) = .ok 0 := by unfold ckDiv; rw [if_neg (by omega), Nat.zero_div]
  have e4 : ckMul want n = .ok (want * n) := by unfold ckMul; rw [if_pos (by omega)]
  have e5 : ckMul (want * n) k = .ok (want * n * k) := by unfold ckMul; rw [if_pos hA]
  have e6 : ckMul 0 (n * k) = .ok 0 := by unfold ckMul; rw [Nat.zero_mul, if_pos (by simp [B64])]
  have e7 : ckSub want 0 = .ok want := by unfold ckSub; rw [if_pos (Nat.zero_le _)]; rfl
  have e8 : ckAdd 0 0 = .ok 0 := rfl
  have e9 : ckSub 0 1 = .error .overflow := rfl
  have hm : max 0 want = want := Nat.max_eq_right (Nat.zero_le _)
  obtain ⟨f, rfl⟩ : ∃ f, want = f + 1 := ⟨want - 1, by omega⟩
  unfold GenConc.dec_compute_secret_key_array
  simp only [e1, e2, e3, hm, gq_ok_bind, if_true, if_neg (show ¬ (0 = f + 1) by omega), e4, e5, e6, e7, if_pos (Nat.zero_le _)]
  rw [GenConc.dec_compute_secret_key_array_loop1]
  simp only [e8, e9, gq_ok_bind]
  rfl

/-- ... exactly where the model panics (`extendOnce` of an empty array) -/
theorem gq_model_empty_panics (A : Alg P) (want : Nat) (hw : 0 < want) :
    (stepThr true A [] (stepThr true A [] ({ want := want } : Thr P)).2).2.pc = .panicked := by
  obtain ⟨f, rfl⟩ : ∃ f, want = f + 1 := ⟨want - 1, by omega⟩
  simp [stepThr, extend, extendOnce]

/-! ### the use phases -/

/-- the use phase of `KeyGenerator::generate_rlk` (count ∈ [1, 14]): nested call for `count + 1` powers, then ONE read region in which
    `count` polynomials are read from word offset `n·k`; refused when the snapshot is shorter than one polynomial -/
theorem gq_generate_rlk_eq (count n k lenU : Nat) (hc : 1 ≤ count) (hc2 : count ≤ 14) (hnk : n * k < B64) :
    GenConc.kg_generate_rlk count true n k lenU =
      if n * k ≤ lenU then .ok (encode [.call (count + 1), .acqR, .keys (n * k) count, .relR]) else .error .refused := by
  have e1 : ckMul n k = .ok (n * k) := by unfold ckMul; rw [if_pos hnk]
  have e2 : ckSub 16 2 = .ok 14 := rfl
  have e3 : ckAdd count 1 = .ok (count + 1) := by unfold ckAdd; rw [if_pos (by simp only [B64]; omega)]
  unfold GenConc.kg_generate_rlk
  have h0 : ¬ count = 0 := by omega
  have h14 : ¬ count > 14 := by omega
  simp only [if_true, if_neg h0, e1, e2, e3, gq_ok_bind, gq_pure, decide_eq_true_eq, h14, decide_false, Bool.false_eq_true, if_false]
  by_cases h : n * k ≤ lenU
  · rw [if_pos h, if_pos h]; rfl
  · rw [if_neg h, if_neg h]

/-- the slice `KEYS off cnt` (cnt polynomials of `d` words from offset `d`) lies inside a cache of `L` polynomials iff the model's use
    phase does not panic (`want = cnt + 1 ≤ L`) -/
theorem gq_keys_in_range (d cnt L : Nat) (hd : 0 < d) : d + cnt * d ≤ L * d ↔ cnt + 1 ≤ L := by
  have : d + cnt * d = (cnt + 1) * d := by rw [Nat.add_mul, Nat.one_mul, Nat.add_comm]
  rw [this]
  exact ⟨fun h => Nat.le_of_mul_le_mul_right h hd, fun h => Nat.mul_le_mul_right _ h⟩

/-- second loop of `dot_product_ct_sk_array` (the additions: data only) -/
theorem gq_dot_loop2 (tr : List Nat) (v4 : Nat) (v6 : Bool) : ∀ (fuel i : Nat),
    GenConc.dec_dot_product_ct_sk_array_loop2 tr v4 v6 fuel i = .ok (tr ++ [2]) := by
  intro fuel
  induction fuel with
  | zero => intro i; rfl
  | succ f ih => intro i; rw [GenConc.dec_dot_product_ct_sk_array_loop2]; exact ih _

/-- first loop of `dot_product_ct_sk_array`: iteration `j` reads `[j·s, j·s + w)` of the snapshot of `L` words -/
theorem gq_dot_loop1 (L v4 : Nat) (v6 : Bool) (w s : Nat) (h4 : 1 ≤ v4) : ∀ (fuel i : Nat) (tr : List Nat),
    (i + fuel) * s + w < B64 → (∀ j, j < fuel → (i + j) * s + w ≤ L) →
    GenConc.dec_dot_product_ct_sk_array_loop1 L tr v4 v6 w s fuel i =
      .ok (tr ++ (List.range fuel).flatMap (fun j => [15, (i + j) * s, (i + j) * s + w]) ++ [2]) := by
  intro fuel
  induction fuel with
  | zero =>
    intro i tr _ _
    have e : ckSub v4 1 = .ok (v4 - 1) := by unfold ckSub; rw [if_pos h4]
    rw [GenConc.dec_dot_product_ct_sk_array_loop1]
    simp only [e, gq_ok_bind, gq_dot_loop2, List.range_zero, List.flatMap_nil, List.append_nil]
  | succ f ih =>
    intro i tr hB hin
    have hle : i * s ≤ (i + (f + 1)) * s := Nat.mul_le_mul_right _ (by omega)
    have e1 : ckMul i s = .ok (i * s) := by unfold ckMul; rw [if_pos (by omega)]
    have e2 : ckAdd (i * s) w = .ok (i * s + w) := by unfold ckAdd; rw [if_pos (by omega)]
    have h0 := hin 0 (by omega)
    rw [Nat.add_zero] at h0
    rw [GenConc.dec_dot_product_ct_sk_array_loop1]
    simp only [e1, e2, gq_ok_bind, if_pos (Nat.le_add_right _ _), if_pos h0]
    rw [ih (i + 1) _ (by rw [show i + 1 + f = i + (f + 1) by omega]; exact hB)
      (fun j hj => by rw [show i + 1 + j = i + (j + 1) by omega]; exact hin (j + 1) (by omega))]
    rw [List.range_succ_eq_map, List.flatMap_cons, List.flatMap_map]
    simp only [Nat.add_zero, List.append_assoc, List.cons_append, List.nil_append, Function.comp_def]
    have : (fun j => [15, (i + 1 + j) * s, (i + 1 + j) * s + w]) = (fun j => [15, (i + (j + 1)) * s, (i + (j + 1)) * s + w]) := by
      funext j; rw [show i + 1 + j = i + (j + 1) by omega]
    rw [this]

/-- the first loop refuses as soon as one slice leaves the snapshot -/
theorem gq_dot_loop1_refuses (L v4 : Nat) (v6 : Bool) (w s : Nat) : ∀ (fuel i : Nat) (tr : List Nat),
    (i + fuel) * s + w < B64 → (∃ j, j < fuel ∧ L < (i + j) * s + w) →
    GenConc.dec_dot_product_ct_sk_array_loop1 L tr v4 v6 w s fuel i = .error .refused := by
  intro fuel
  induction fuel with
  | zero => intro i tr _ ⟨j, hj, _⟩; omega
  | succ f ih =>
    intro i tr hB ⟨j, hj, hout⟩
    have hle : i * s ≤ (i + (f + 1)) * s := Nat.mul_le_mul_right _ (by omega)
    have e1 : ckMul i s = .ok (i * s) := by unfold ckMul; rw [if_pos (by omega)]
    have e2 : ckAdd (i * s) w = .ok (i * s + w) := by unfold ckAdd; rw [if_pos (by omega)]
    rw [GenConc.dec_dot_product_ct_sk_array_loop1]
    simp only [e1, e2, gq_ok_bind, if_pos (Nat.le_add_right _ _)]
    by_cases h0 : i * s + w ≤ L
    · rw [if_pos h0]
      have hj0 : j ≠ 0 := by
        intro h; subst h; rw [Nat.add_zero] at hout; omega
      exact ih (i + 1) _ (by rw [show i + 1 + f = i + (f + 1) by omega]; exact hB)
        ⟨j - 1, by omega, by rw [show i + 1 + (j - 1) = i + j by omega]; exact hout⟩
    · rw [if_neg h0]

/-- the use phase of `dot_product_ct_sk_array` (size ≥ 3) is REFUSED when the snapshot holds fewer than `size − 1` powers: exactly the
    model's use phase panicking (`want > cache.length`).  `C17.use_sees_enough` shows this never happens. -/
theorem gq_dot_product_refuses (size n k kkey : Nat) (ntt : Bool) (L : Nat) (h3 : 3 ≤ size) (hk : k ≤ kkey) (hd : 0 < n * k)
    (hB : size * (n * kkey) < B64) (hsee : L < size - 1) :
    GenConc.dec_dot_product_ct_sk_array size n k kkey ntt (L * (n * kkey)) = .error .refused := by
  have e0 : ckSub size 1 = .ok (size - 1) := by unfold ckSub; rw [if_pos (by omega)]
  have hnk : n * k ≤ n * kkey := Nat.mul_le_mul_left _ hk
  have hs1 : n * kkey ≤ size * (n * kkey) := Nat.le_mul_of_pos_left _ (by omega)
  have e1 : ckMul n k = .ok (n * k) := by unfold ckMul; rw [if_pos (by omega)]
  have e2 : ckMul n kkey = .ok (n * kkey) := by unfold ckMul; rw [if_pos (by omega)]
  have hsz : (size - 1) * (n * kkey) + n * kkey = size * (n * kkey) := by
    rw [← Nat.succ_mul]; congr 1; omega
  unfold GenConc.dec_dot_product_ct_sk_array
  simp only [e0, gq_ok_bind, if_neg (show ¬ size = 2 by omega), e1, e2]
  refine gq_dot_loop1_refuses _ size _ _ _ (size - 1) 0 _ (by rw [Nat.zero_add]; omega) ⟨L, hsee, ?_⟩
  rw [Nat.zero_add]; omega

/-- the use phase of `Decryptor::dot_product_ct_sk_array` for a ciphertext of `size ≥ 2` polynomials when the snapshot holds `L ≥ size − 1`
    key powers of `n·kkey` words (what `C17.use_sees_enough` provides): nested call for `size − 1` powers, then ONE read region; for
    `size ≥ 3` power `i` is read at word offset `i·(n·kkey)` - the stride is the KEY level's polynomial size, a constant of the context,
    not a value read in an earlier lock region - over the `n·k` words of the ciphertext's level -/
theorem gq_dot_product_eq (size n k kkey : Nat) (ntt : Bool) (L : Nat) (h2 : 2 ≤ size) (hk : k ≤ kkey)
    (hB : size * (n * kkey) < B64) (hsee : size - 1 ≤ L) :
    GenConc.dec_dot_product_ct_sk_array size n k kkey ntt (L * (n * kkey)) =
      .ok (encode ([.call (size - 1), .acqR] ++
        (if size = 2 then [.readFirst] else (List.range (size - 1)).map fun i => .read (i * (n * kkey)) (i * (n * kkey) + n * k)) ++ [.relR])) := by
  have e0 : ckSub size 1 = .ok (size - 1) := by unfold ckSub; rw [if_pos (by omega)]
  have hnk : n * k ≤ n * kkey := Nat.mul_le_mul_left _ hk
  have hs1 : n * kkey ≤ size * (n * kkey) := Nat.le_mul_of_pos_left _ (by omega)
  have e1 : ckMul n k = .ok (n * k) := by unfold ckMul; rw [if_pos (by omega)]
  have e2 : ckMul n kkey = .ok (n * kkey) := by unfold ckMul; rw [if_pos (by omega)]
  unfold GenConc.dec_dot_product_ct_sk_array
  simp only [e0, gq_ok_bind]
  by_cases hs : size = 2
  · subst hs; rfl
  · rw [if_neg hs, if_neg hs]
    simp only [e1, e2, gq_ok_bind]
    have hsz : (size - 1) * (n * kkey) + n * kkey = size * (n * kkey) := by
      rw [← Nat.succ_mul]; congr 1; omega
    rw [gq_dot_loop1 _ size _ _ _ (by omega) (size - 1) 0 _ (by rw [Nat.zero_add]; omega)
      (fun j hj => by
        rw [Nat.zero_add]
        calc j * (n * kkey) + n * k ≤ j * (n * kkey) + n * kkey := Nat.add_le_add_left hnk _
          _ = (j + 1) * (n * kkey) := (Nat.succ_mul _ _).symm
          _ ≤ L * (n * kkey) := Nat.mul_le_mul_right _ (by omega))]
    simp only [Nat.zero_add, gq_encode_append]
    simp [encode, Act.code, List.flatMap_map]

/-! ### the Galois permutation-table cache: `GaloisTool::apply_ntt` -/

variable {T : Type}

def olen (len : T → Nat) : Option T → Nat
  | none => 0
  | some x => len x

/-- what a thread observes of the table vector: the length of every table -/
def lens (len : T → Nat) (tb : List (Option T)) : List Nat := tb.map (olen len)

/-- the actions of ONE model step of `gstepThr` (the thread sees `tables`) -/
def gStepActs (len : T → Nat) (tables : List (Option T)) (t : GThr T) : List Act :=
  match t.calls[t.pos]?, t.pc with
  | some _, .chk => [.acqR, .relR]
  | some ix, .gen => [.acqW, .gen ix, .relW]
  | some ix, .use => (match tables[ix]? with | some e => [.acqR, .use ix (olen len e), .relR] | none => [])
  | _, _ => []

/-- one call `apply_ntt` for table index `ix` of the model: check step (sees `tK`), generate step if the check asked for it, use step
    (sees `tU`); `none` = the model panics -/
def gCallActs (len : T → Nat) (gen : Nat → T) (ix : Nat) (tK tU : List (Option T)) : Option (List Act) :=
  let t0 : GThr T := { calls := [ix] }
  let t1 := (gstepThr gen tK t0).2
  if t1.pc = .panicked then none else
    let a2 := if t1.pc = .gen then gStepActs len tK t1 else []
    let t2 := if t1.pc = .gen then (gstepThr gen tK t1).2 else t1
    if (gstepThr gen tU t2).2.pc = .panicked then none
    else some (gStepActs len tK t0 ++ a2 ++ gStepActs len tU t2)

/-- EQUALITY (phase structure of the table cache): for every index and every pair of observed table vectors, the generated program of
    `apply_ntt` is the model's call; it is refused (index out of range) exactly when the model panics.  `hpos`: a generated table is not
    empty (it has `coeff_count ≥ 2` entries), so "empty" means "not generated". -/
theorem gq_apply_ntt_eq (len : T → Nat) (hpos : ∀ x, 0 < len x) (gen : Nat → T) (ix cc : Nat) (tK tU : List (Option T)) :
    GenConc.galois_apply_ntt ix cc cc (lens len tK) (lens len tU) =
      match gCallActs len gen ix tK tU with
      | none => .error .oob
      | some a => .ok (encode a) := by
  have hk : (lens len tK)[ix]? = (tK[ix]?).map (olen len) := by simp [lens]
  have hu : (lens len tU)[ix]? = (tU[ix]?).map (olen len) := by simp [lens]
  unfold GenConc.galois_apply_ntt GenW.idx
  simp only [hk, hu]
  cases h1 : tK[ix]? with
  | none => simp [gCallActs, gstepThr, h1]; rfl
  | some e =>
    cases e with
    | none =>
      cases h2 : tU[ix]? with
      | none => simp [gCallActs, gstepThr, h1, h2, olen, gq_ok_bind, gq_pure]; rfl
      | some e2 => simp [gCallActs, gstepThr, gStepActs, h1, h2, olen, gq_ok_bind, gq_pure, encode, Act.code]
    | some x =>
      have hx : len x ≠ 0 := Nat.pos_iff_ne_zero.mp (hpos x)
      cases h2 : tU[ix]? with
      | none => simp [gCallActs, gstepThr, h1, h2, olen, hx, gq_ok_bind, gq_pure]; rfl
      | some e2 => simp [gCallActs, gstepThr, gStepActs, h1, h2, olen, hx, gq_ok_bind, gq_pure, encode, Act.code]

/-- every call of the model's `apply_ntt` program respects the lock discipline: in particular the check region is LEFT before the
    write lock is requested, and the write region before the use region is entered -/
theorem gq_gCallActs_lockWF (len : T → Nat) (gen : Nat → T) (ix : Nat) (tK tU : List (Option T)) (a : List Act)
    (h : gCallActs len gen ix tK tU = some a) : LockWF a := by
  unfold LockWF
  cases h1 : tK[ix]? with
  | none => simp [gCallActs, gstepThr, h1] at h
  | some e =>
    cases h2 : tU[ix]? with
    | none => cases e <;> simp [gCallActs, gstepThr, h1, h2] at h
    | some e2 =>
      cases e <;> simp [gCallActs, gstepThr, gStepActs, h1, h2] at h <;> subst h <;> rfl

theorem gq_lockRun_reads (f : Nat → Act) (hf : ∀ i, ∃ lo hi, f i = .read lo hi) : ∀ (l : List Nat) (rest : List Act),
    lockRun .r (l.map f ++ rest) = lockRun .r rest := by
  intro l
  induction l with
  | nil => intro rest; rfl
  | cons x xs ih =>
    intro rest
    obtain ⟨lo, hi, hx⟩ := hf x
    simp only [List.map_cons, List.cons_append, lockRun, hx, lockStep, Option.bind]
    exact ih rest

/-- the use phases respect the lock discipline (ONE read region; the nested call is made before it, holding nothing) -/
theorem gq_use_lockWF (size s w : Nat) :
    LockWF ([.call (size - 1), .acqR] ++
      (if size = 2 then [.readFirst] else (List.range (size - 1)).map fun i => .read (i * s) (i * s + w)) ++ [.relR]) := by
  unfold LockWF
  by_cases hs : size = 2
  · rw [if_pos hs]; rfl
  · rw [if_neg hs]
    show lockRun .r ((List.range (size - 1)).map (fun i => Act.read (i * s) (i * s + w)) ++ [.relR]) = some .out
    rw [gq_lockRun_reads _ (fun i => ⟨_, _, rfl⟩)]; rfl

theorem gq_rlk_lockWF (count d : Nat) : LockWF [.call (count + 1), .acqR, .keys d count, .relR] := rfl

end HC.ConcProg
