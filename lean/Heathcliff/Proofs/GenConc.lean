import Heathcliff.Proofs.C17
import Heathcliff.Gen.ConcFns

/-!
  Translator phase 4m (C17): the PHASE STRUCTURE of the lock-protected caches, generated from src/encryptor.rs, src/key.rs,
  src/util/galois.rs (Gen/ConcFns.lean: the program of one thread as a function of what it observes in each lock region) against the
  per-thread step functions `stepThr` / `gstepThr` of Model/Conc.lean.  Helper names start with `gq_`.

  `Act` decodes the action codes of tools/rs2lean_conc.py.  `stepActs` reads the actions of ONE model step off the step function's own
  decision (which branch `stepThr` took, the thread-local fields it wrote); `callActs` chains the steps of one call, the environment
  supplying the cache the thread sees in each lock region.  The equality theorems say: for ALL observations, the generated program is
  the model's.
-/
namespace HC.ConcProg
open HC HC.Conc HC.GenW

/-- one action of a thread (the codes of tools/rs2lean_conc.py) -/
inductive Act
  | acqR | relR | acqW | relW
  | alloc (words : Nat) | copy (words : Nat) | ext (old cnt : Nat) | store (words : Nat)
  | call (power : Nat) | read (lo hi : Nat) | readFirst | keys (off cnt : Nat)
  | gen (idx : Nat) | use (idx len : Nat)
  deriving DecidableEq, Repr

def Act.code : Act → List Nat
  | .acqR => [1] | .relR => [2] | .acqW => [3] | .relW => [4]
  | .alloc w => [10, w] | .copy w => [11, w] | .ext o c => [12, o, c] | .store w => [13, w]
  | .call p => [14, p] | .read lo hi => [15, lo, hi] | .readFirst => [16] | .keys o c => [17, o, c]
  | .gen i => [20, i] | .use i l => [21, i, l]

def encode (l : List Act) : List Nat := l.flatMap Act.code

variable {P : Type}

/-! ### the secret-key power cache: `compute_secret_key_array` -/

/-- does the write phase of the model keep the shared cache (re-check succeeded)? -/
def wKeeps (rc : Bool) (cache : List P) (t : Thr P) : Bool := rc && decide (cache.length = max cache.length t.want)

/-- `wKeeps` IS the decision of `stepThr` in its W phase -/
theorem gq_stepThr_W (rc : Bool) (A : Alg P) (cache : List P) (t : Thr P) (h : t.pc = .W) :
    stepThr rc A cache t = (if wKeeps rc cache t then cache else t.newArr, { t with pc := .U }) := by
  cases t with
  | mk want pc oldR newArr result =>
    simp only at h; subst h
    cases rc <;> by_cases hc : want ≤ cache.length <;> simp [stepThr, wKeeps, hc] <;> split <;> rfl

/-- the actions of ONE model step of a thread at `t.pc` that sees `cache` (`d` = words per polynomial), read off `stepThr`:
    R: acquire; unless the step went straight to U (early return): allocate `max oldR want` polynomials, copy the `newArr` it took; release.
    C: extend from `oldR` by the count `stepThr` passes to `extend`.
    W: acquire; publish the local array unless the step kept the cache; release. -/
def stepActs (d : Nat) (rc : Bool) (A : Alg P) (cache : List P) (t : Thr P) : List Act :=
  let r := stepThr rc A cache t
  match t.pc with
  | .R => if r.2.pc = .U then [.acqR, .relR]
          else [.acqR, .alloc (max r.2.oldR t.want * d), .copy (r.2.newArr.length * d), .relR]
  | .C => [.ext t.oldR (max t.oldR t.want - t.oldR)]
  | .W => if wKeeps rc cache t then [.acqW, .relW] else [.acqW, .store (t.newArr.length * d), .relW]
  | _ => []

/-- one call `compute_secret_key_array(want)` of the model: the thread's R, C, W steps; it sees `cR` in R and `cW` in W (whatever the
    other threads did in between) -/
def callActs (d : Nat) (rc : Bool) (A : Alg P) (want : Nat) (cR cW : List P) : List Act :=
  let t0 : Thr P := { want := want }
  let t1 := (stepThr rc A cR t0).2
  stepActs d rc A cR t0 ++
    (if t1.pc = .U then [] else
      let t2 := (stepThr rc A cR t1).2
      stepActs d rc A cR t1 ++ (if t2.pc = .W then stepActs d rc A cW t2 else []))

theorem gq_extend_length (A : Alg P) : ∀ (k : Nat) (arr a : List P), extend A k arr = some a → a.length = arr.length + k := by
  intro k
  induction k with
  | zero => intro arr a h; simp [extend] at h; subst h; rfl
  | succ k ih =>
    intro arr a h
    unfold extend at h
    cases he : extendOnce A arr with
    | none => simp [he] at h
    | some b =>
      simp only [he] at h
      have hb : b.length = arr.length + 1 := by
        unfold extendOnce at he
        split at he
        · simp at he; subst he; simp
        · simp at he
      rw [ih b a h, hb]; omega

theorem gq_extend_some (A : Alg P) : ∀ (k : Nat) (arr : List P), arr ≠ [] → ∃ a, extend A k arr = some a := by
  intro k
  induction k with
  | zero => intro arr _; exact ⟨arr, rfl⟩
  | succ k ih =>
    intro arr hne
    unfold extend
    obtain ⟨x, xs, rfl⟩ := List.exists_cons_of_ne_nil hne
    have : ∃ b, extendOnce A (x :: xs) = some b ∧ b ≠ [] := by
      cases hl : (x :: xs).getLast? with
      | none => simp at hl
      | some l => exact ⟨(x :: xs) ++ [A.mul l x], by simp [extendOnce, hl], by simp⟩
    obtain ⟨b, hb, hbne⟩ := this
    rw [hb]
    exact ih b hbne

/-- the model's call, in closed form (non-empty cache in the read phase) -/
theorem gq_callActs (d : Nat) (A : Alg P) (want : Nat) (cR cW : List P) (h1 : 1 ≤ cR.length) :
    callActs d true A want cR cW =
      if cR.length = max cR.length want then [.acqR, .relR]
      else [.acqR, .alloc (max cR.length want * d), .copy (cR.length * d), .relR, .ext cR.length (max cR.length want - cR.length), .acqW] ++
        (if cW.length = max cW.length want then [.relW] else [.store (max cR.length want * d), .relW]) := by
  by_cases hr : cR.length = max cR.length want
  · simp [callActs, stepActs, stepThr, hr.symm]
  · have hne : cR ≠ [] := by intro h; simp [h] at h1
    obtain ⟨a, ha⟩ := gq_extend_some A (max cR.length want - cR.length) cR hne
    have hal := gq_extend_length A _ _ _ ha
    have hlen : a.length = max cR.length want := by rw [hal]; omega
    by_cases hw : cW.length = max cW.length want
    · simp [callActs, stepActs, stepThr, hr, ha, wKeeps, hw.symm]
    · simp [callActs, stepActs, stepThr, hr, ha, wKeeps, hw, hlen]

end HC.ConcProg
