/-
  Translator phase 4i, second round: the READER `Ciphertext::deserialize_full` (Gen/SerFns.lean `ct_deserialize_full`: header, word
  count, indexed stores into a zeroed buffer, `from_members`, `contains_seed` / `expand_seed`) against the model's `ctFullC.dec`.
  Helper prefix `gf_`.
-/
import Heathcliff.Proofs.GenSerK
namespace HC.GS
open HC HC.Codec HC.GenS

theorem gf_seqDec_length {α} (c : Codec α) : ∀ (m : Nat) (bs : Bytes) (ws : List α) (r : Bytes),
    seqDec (List.replicate m c) bs = .ok (ws, r) → ws.length = m := by
  intro m
  induction m with
  | zero => intro bs ws r h; simp [seqDec] at h; simp [h.1.symm]
  | succ m ih =>
    intro bs ws r h
    simp only [List.replicate_succ, seqDec] at h
    cases h1 : c.dec bs with
    | error e => simp [h1] at h
    | ok p =>
      obtain ⟨x, r1⟩ := p
      simp only [h1] at h
      cases h2 : seqDec (List.replicate m c) r1 with
      | error e => simp [h2] at h
      | ok q =>
        obtain ⟨xs, r2⟩ := q
        simp only [h2] at h
        have := ih r1 xs r2 h2
        injection h with h; injection h with h3 h4
        rw [← h3]; simp [this]

theorem gf_set_splice (data ws : List Nat) (s m w : Nat) (hlt : s < data.length) :
    (data.set s w).take (s + 1) ++ ws ++ (data.set s w).drop (s + 1 + m) = data.take s ++ (w :: ws) ++ data.drop (s + (m + 1)) := by
  have hA : (data.take s).length = s := by simp; omega
  rw [List.set_eq_take_append_cons_drop, if_pos hlt]
  rw [List.take_append, List.drop_append, hA]
  have h1 : List.take (s + 1) (List.take s data) = List.take s data := List.take_of_length_le (by omega)
  have h2 : List.drop (s + 1 + m) (List.take s data) = [] := List.drop_of_length_le (by omega)
  have h3 : s + 1 - s = 1 := by omega
  have h4 : s + 1 + m - s = m + 1 := by omega
  rw [h1, h2, h3, h4]
  simp [List.drop_drop, Nat.add_comm, Nat.add_left_comm]

/-- the store loop, as long as it stays inside the buffer: the words read replace positions `s .. s+m` -/
theorem gf_loop (expand : List Nat → Level → List Nat) (m s : Nat) (data : List Nat) (hs : s + m ≤ data.length) (bs : Bytes) :
    ct_deserialize_full_loop1 expand (List.range' s m) data bs
      = match seqDec (List.replicate m u64C) bs with
        | .error e => .error e
        | .ok (ws, r) => .ok (data.take s ++ ws ++ data.drop (s + m), r) := by
  induction m generalizing s data bs with
  | zero => simp [ct_deserialize_full_loop1, seqDec, rpure]
  | succ m ih =>
    have hlt : s < data.length := by omega
    simp only [List.range'_succ, ct_deserialize_full_loop1, List.replicate_succ, seqDec, rbind, gr_u64_deserialize]
    cases h1 : u64C.dec bs with
    | error e => rfl
    | ok p =>
      obtain ⟨w, r1⟩ := p
      simp only [hlt, if_true]
      rw [ih (s + 1) (data.set s w) (by simp; omega) r1]
      cases h2 : seqDec (List.replicate m u64C) r1 with
      | error e => rfl
      | ok q =>
        obtain ⟨ws, r2⟩ := q
        simp only []
        congr 2
        exact gf_set_splice data ws s m w hlt

/-- the flat ciphertext `from_members` builds from the model's `CtFull` at level `lv` -/
def flatOfFull (lv : Level) (c : CtFull) : CtFlat := ⟨c.size, lv.moduli.length, lv.n, c.data, c.pid, c.scale, c.cf, c.ntt⟩

/-- everything after the scheme-dependent header field, as the generated code does it -/
def fullTail (expand : List Nat → Level → List Nat) (ctx : Ctx) (lv : Level) (pid : List Nat) (size : Nat) (ntt : Bool)
    (scale cf : Option Nat) : Rd CtFlat :=
  rbind usizeC.dec fun data_len =>
  rbind (ct_deserialize_full_loop1 expand (List.range' 0 (data_len - 0)) (List.replicate ((lv.moduli.length * size) * lv.n) 0)) fun data =>
  let ret := CtFlat.mk size lv.moduli.length lv.n data pid (scale.getD oneF64) (cf.getD 1) ntt
  (match ctfContainsSeed ret with
  | some b => (if b then (match ctfExpandSeed expand ctx ret with | some t => rpure t | none => rfail .bad) else rpure ret)
  | none => rfail .bad)

/-- the tail on a word count that fits the buffer = the model's word vector + `fullAssemble` -/
theorem gf_tail (expand : List Nat → Level → List Nat) (ctx : Ctx) (lv : Level) (pid : List Nat) (size : Nat) (ntt : Bool)
    (scale cf : Option Nat) (hfind : ctx.find pid = some lv) (hpos : 0 < lv.moduli.length * lv.n)
    (bs r r' : Bytes) (L : Nat) (ws : List Nat) (hL : usizeC.dec bs = .ok (L, r)) (hws : seqDec (List.replicate L u64C) r = .ok (ws, r'))
    (hcap : L ≤ lv.moduli.length * lv.n * size) :
    fullTail expand ctx lv pid size ntt scale cf bs
      = .ok (CtFlat.mk size lv.moduli.length lv.n (fullAssemble expand lv size ws) pid (scale.getD oneF64) (cf.getD 1) ntt, r') := by
  have hlen := gf_seqDec_length u64C L r ws r' hws
  have hcap' : lv.moduli.length * size * lv.n = lv.moduli.length * lv.n * size := Nat.mul_right_comm _ _ _
  have hloop := gf_loop expand L 0 (List.replicate ((lv.moduli.length * size) * lv.n) 0) (by simp; omega) r
  have hdata : List.take 0 (List.replicate ((lv.moduli.length * size) * lv.n) 0) ++ ws
      ++ List.drop (0 + L) (List.replicate ((lv.moduli.length * size) * lv.n) 0)
      = ws ++ List.replicate (lv.moduli.length * lv.n * size - ws.length) 0 := by
    simp [hlen, hcap']
  simp only [fullTail, rbind, hL, Nat.sub_zero, hloop, hws, hdata]
  have hdl : (ws ++ List.replicate (lv.moduli.length * lv.n * size - ws.length) 0).length = lv.moduli.length * lv.n * size := by
    simp [hlen]; omega
  unfold fullAssemble ctfContainsSeed ctfExpandSeed ctfContainsSeed
  simp only [hdl, hfind, HC.Gen.HE_CIPHERTEXT_SIZE_MIN]
  by_cases h2 : size = 2
  · subst h2
    have hle : 2 * (lv.moduli.length * lv.n) ≤ lv.moduli.length * lv.n * 2 := by omega
    simp only [bne_self_eq_false, Bool.false_eq_true, if_false, hle, hpos, and_self, if_true, beq_self_eq_true, Bool.true_and]
    cases hflag : (ws ++ List.replicate (lv.moduli.length * lv.n * 2 - ws.length) 0).getD (lv.moduli.length * lv.n) 0 == seedFlag
    · simp [rpure]
    · simp [rpure]
  · have hne : (size != 2) = true := by simp [h2]
    have hne' : (size == 2) = false := by simp [h2]
    simp [hne, hne', rpure]

/-- the generated reader, with its duplicated continuations folded into `fullTail` -/
theorem gf_unfold (expand : List Nat → Level → List Nat) (ctx : Ctx) (bs : Bytes) :
    ct_deserialize_full expand ctx bs =
      (rbind pidC.dec fun pid =>
        match ctx.find pid with
        | some lv =>
          rbind usizeC.dec fun size => rbind boolC.dec fun ntt =>
            if lv.scheme == 2 then rbind f64C.dec fun sc =>
              (if lv.scheme == 3 then rbind u64C.dec fun cf => fullTail expand ctx lv pid size ntt (some sc) (some cf)
               else fullTail expand ctx lv pid size ntt (some sc) none)
            else (if lv.scheme == 3 then rbind u64C.dec fun cf => fullTail expand ctx lv pid size ntt none (some cf)
               else fullTail expand ctx lv pid size ntt none none)
        | none => rfail .bad) bs := by
  simp only [ct_deserialize_full, gr_pid_deserialize, gr_usize_deserialize, gr_bool_deserialize, gr_f64_deserialize, gr_u64_deserialize]
  rfl

/-- AGREEMENT ON SUCCESS: whatever the model's `ctFullC.dec` accepts, the generated `deserialize_full` accepts, with the same
    ciphertext (as the flat record `from_members` builds) and the same remaining bytes.  `hpos`: every level has at least one
    coefficient (k·N > 0) — at k·N = 0 and size 2 the code's `poly(1)[0]` panics. -/
theorem gf_full_ok (ctx : Ctx) (expand : List Nat → Level → List Nat)
    (hpos : ∀ pid lv, ctx.find pid = some lv → 0 < lv.moduli.length * lv.n) (bs : Bytes) (c : CtFull) (r : Bytes)
    (h : (ctFullC ctx expand).dec bs = .ok (c, r)) :
    ct_deserialize_full expand ctx bs = .ok (flatOfFull ((ctx.find c.pid).getD noLevel) c, r) := by
  rw [gf_unfold]
  simp only [ctFullC, mapC, guardC, ctFullWireC, depC, pairC, vecC, repC, seqC] at h
  simp only [rbind]
  cases hp : pidC.dec bs with
  | error e => simp [hp] at h
  | ok p1 =>
    obtain ⟨pid, r1⟩ := p1
    simp only [hp] at h ⊢
    cases hf : ctx.find pid with
    | none => simp [hf] at h
    | some lv =>
      have hposlv := hpos pid lv hf
      have hgd : (ctx.find pid).getD noLevel = lv := by rw [hf]; rfl
      simp only [hf, Option.isSome_some, if_true, Option.getD_some] at h ⊢
      cases hs : usizeC.dec r1 with
      | error e => simp [hs] at h
      | ok p2 =>
        obtain ⟨size, r2⟩ := p2
        simp only [rbind, hs] at h ⊢
        cases hn : boolC.dec r2 with
        | error e => simp [hn] at h
        | ok p3 =>
          obtain ⟨ntt, r3⟩ := p3
          simp only [rbind, hn] at h ⊢
          by_cases h2 : (lv.scheme == 2) = true
          · have h3 : (lv.scheme == 3) = false := by
              have : lv.scheme = 2 := by simpa using h2
              rw [this]; rfl
            simp only [h2, h3, extraC, if_true, repC, seqC, List.replicate_succ, List.replicate_zero, seqDec, Bool.false_eq_true, if_false] at h ⊢
            cases hx : f64C.dec r3 with
            | error e => simp [hx] at h
            | ok p4 =>
              obtain ⟨sc, r4⟩ := p4
              simp only [rbind, hx] at h ⊢
              cases hL : usizeC.dec r4 with
              | error e => simp [hL] at h
              | ok p5 =>
                obtain ⟨L, r5⟩ := p5
                simp only [hL] at h
                cases hw : seqDec (List.replicate L u64C) r5 with
                | error e => simp [hw] at h
                | ok p6 =>
                  obtain ⟨ws, r6⟩ := p6
                  simp only [hw] at h
                  have hlen := gf_seqDec_length u64C L r5 ws r6 hw
                  simp only [hgd] at h
                  by_cases hg : ws.length ≤ lv.moduli.length * lv.n * size
                  · simp only [hg, if_true] at h
                    injection h with h; injection h with hc hr
                    rw [gf_tail expand ctx lv pid size ntt (some sc) none hf hposlv r4 r5 r6 L ws hL hw (by omega)]
                    subst hc hr
                    have hsch : lv.scheme = 2 := by simpa using h2
                    simp [flatOfFull, hf, hsch]
                  · simp [hg] at h
          · have h2' : (lv.scheme == 2) = false := by simpa using h2
            by_cases h3 : (lv.scheme == 3) = true
            · simp only [h2', h3, extraC, if_true, repC, seqC, List.replicate_succ, List.replicate_zero, seqDec, Bool.false_eq_true, if_false] at h ⊢
              cases hx : u64C.dec r3 with
              | error e => simp [hx] at h
              | ok p4 =>
                obtain ⟨cf, r4⟩ := p4
                simp only [rbind, hx] at h ⊢
                cases hL : usizeC.dec r4 with
                | error e => simp [hL] at h
                | ok p5 =>
                  obtain ⟨L, r5⟩ := p5
                  simp only [hL] at h
                  cases hw : seqDec (List.replicate L u64C) r5 with
                  | error e => simp [hw] at h
                  | ok p6 =>
                    obtain ⟨ws, r6⟩ := p6
                    simp only [hw] at h
                    have hlen := gf_seqDec_length u64C L r5 ws r6 hw
                    simp only [hgd] at h
                    by_cases hg : ws.length ≤ lv.moduli.length * lv.n * size
                    · simp only [hg, if_true] at h
                      injection h with h; injection h with hc hr
                      rw [gf_tail expand ctx lv pid size ntt none (some cf) hf hposlv r4 r5 r6 L ws hL hw (by omega)]
                      subst hc hr
                      have hsch : lv.scheme = 3 := by simpa using h3
                      simp [flatOfFull, hf, hsch]
                    · simp [hg] at h
            · have h3' : (lv.scheme == 3) = false := by simpa using h3
              simp only [h2', h3', extraC, repC, seqC, List.replicate_zero, seqDec, Bool.false_eq_true, if_false] at h ⊢
              cases hL : usizeC.dec r3 with
              | error e => simp [hL] at h
              | ok p5 =>
                obtain ⟨L, r5⟩ := p5
                simp only [hL] at h
                cases hw : seqDec (List.replicate L u64C) r5 with
                | error e => simp [hw] at h
                | ok p6 =>
                  obtain ⟨ws, r6⟩ := p6
                  simp only [hw] at h
                  have hlen := gf_seqDec_length u64C L r5 ws r6 hw
                  simp only [hgd] at h
                  by_cases hg : ws.length ≤ lv.moduli.length * lv.n * size
                  · simp only [hg, if_true] at h
                    injection h with h; injection h with hc hr
                    rw [gf_tail expand ctx lv pid size ntt none none hf hposlv r3 r5 r6 L ws hL hw (by omega)]
                    subst hc hr
                    have hn2 : lv.scheme ≠ 2 := by simpa using h2'
                    have hn3 : lv.scheme ≠ 3 := by simpa using h3'
                    simp [flatOfFull, hf, hn2, hn3]
                  · simp [hg] at h

end HC.GS
