/- C04 part R (with C11): rotations end to end at the model level.  Helper names carry the prefix `c04r_`; user-facing theorems are at the
   end under "Property theorems".

   R1  exact-integer decoding commutes with σ_g (`c04k_sigma`, index/sign rule `c04r_sigma_rule`): `c04r_bfvDecode_sigma`, `c04r_bgvDecode_sigma`.
   R2  plaintext level: the model's `galoisApply` moves the slots of the model's `batchDecode` (rows rotate for g ≡ 3^s, rows swap for 2N−1,
       signed steps through `eltFromStep`).
   R3  ciphertext level: `applyGalois` against `Spec.phase` (CRT-merged form of C04K's per-modulus statement), decryption of the result
       = σ_g(decryption of the input) coefficient-wise and slot-wise, BFV (coefficient form) and BGV (NTT form); composed version: chains of
       `applyGalois` steps (`c04r_applyChain`), `rotatePlan` multiplies up to 3^steps (`c04r_rotatePlan_ok`), noises add.
   R4  CKKS: integer-level statement (rotate_vector = σ_{3^s}, conjugation = σ_{2N−1}).
   Non-vacuity: in `C04RW.lean` (the NonVac world one level down, N = 4, q = 97, P = 113, t = 17, with a genuine Galois key for g = 3);
   this file does not import `NonVac`. -/
import Heathcliff.Proofs.C04K
import Heathcliff.Proofs.C04M
import Heathcliff.Proofs.C11N
import Heathcliff.Proofs.C01Q
import Heathcliff.Proofs.C07S
import Heathcliff.Proofs.C08B
namespace HC
open Finset

/-! ## R2: plaintext level — the model's `galoisApply` acts on the slots of the model's `batchDecode` -/

section plain
variable {t : NTTTables}

/-- psi^e depends only on e mod 2N -/
theorem c04r_root_pow_mod (hw : t.WF) (e : Nat) :
    ((t.root : ZMod t.modulus.value))^(e % (2 * 2^t.k)) = (t.root : ZMod t.modulus.value)^e := by
  have hz := hw.zfacts
  have h2 : (t.root : ZMod t.modulus.value)^(2 * 2^t.k) = 1 := by
    rw [mul_comm, pow_mul, hz.psi]; norm_num
  conv_rhs => rw [← Nat.mod_add_div e (2 * 2^t.k), pow_add, pow_mul, h2, one_pow, mul_one]

/-- slots of the Galois-permuted plaintext: slot i of σ_g(p) is the slot i' of p with slotExp(i)·g ≡ slotExp(i') (mod 2N) -/
theorem c04r_decode_galois (hw : t.WF) (hk : 1 ≤ t.k) {g : Nat} (hg : g % 2 = 1) (p : Array Nat) (hs : p.size = 2^t.k)
    (hp : ∀ j, j < 2^t.k → p.getD j 0 < t.modulus.value) :
    ∃ r, galoisApply t.k p g t.modulus = .ok r ∧ r.size = 2^t.k ∧ (∀ j, j < 2^t.k → r.getD j 0 < t.modulus.value) ∧
      ∀ i i', i < 2^t.k → i' < 2^t.k → (slotExp t.k i * g) % (2 * 2^t.k) = slotExp t.k i' →
        (batchDecode t r).getD i 0 = (batchDecode t p).getD i' 0 := by
  obtain ⟨r, hr, -, -⟩ := galoisApply_spec (k := t.k) (g := g) hw.mwf hg hs hp
  obtain ⟨r1, r2, -, r4⟩ := c04k_gal_facts hw.mwf hg hs hp hr
  refine ⟨r, hr, r1, r2, fun i i' hi hi' he => ?_⟩
  obtain ⟨a1, a2⟩ := c11n_decode_cast hw hk r r1 r2 hi
  obtain ⟨b1, b2⟩ := c11n_decode_cast hw hk p hs hp hi'
  apply cast_inj_lt a1 b1
  rw [a2, b2, subst_eval hg _ (c11n_slot_root hw i) (fun j => ((p.getD j 0 : Nat) : ZMod t.modulus.value))
    (fun j => ((r.getD j 0 : Nat) : ZMod t.modulus.value)) r4]
  apply Finset.sum_congr rfl
  intro j _
  congr 2
  rw [Nat.cast_pow, Nat.cast_pow, ← pow_mul, ← he, c04r_root_pow_mod hw]


/-- slot index after rotating both rows LEFT by s: result slot i holds input slot (same row, column + s mod N/2) -/
def c04r_rotIdx (k s i : Nat) : Nat := (i / (2^k / 2)) * (2^k / 2) + (i % (2^k / 2) + s) % (2^k / 2)

/-- slot index after exchanging the two rows -/
def c04r_swapIdx (k i : Nat) : Nat := (i + 2^k / 2) % 2^k

/-- slot index for a signed step (the argument of `rotate_rows`): column + step modulo N/2, same row -/
def c04r_stepIdx (k : Nat) (step : Int) (i : Nat) : Nat :=
  (i / (2^k / 2)) * (2^k / 2) + ((((i % (2^k / 2) : Nat) : Int) + step) % ((2^k / 2 : Nat) : Int)).toNat

theorem c04r_half_two {k : Nat} (hk : 1 ≤ k) : 2^k / 2 * 2 = 2^k := by
  obtain ⟨j, rfl⟩ : ∃ j, k = j + 1 := ⟨k - 1, by omega⟩
  rw [pow_succ]; omega

theorem c04r_rotIdx_lt {k s i : Nat} (hk : 2 ≤ k) (hi : i < 2^k) : c04r_rotIdx k s i < 2^k := by
  have h2 := c04r_half_two (show 1 ≤ k by omega)
  have hrow : 0 < 2^k / 2 := by
    have : 2^2 ≤ 2^k := Nat.pow_le_pow_right (by norm_num) hk
    omega
  unfold c04r_rotIdx
  have h1 : i / (2^k / 2) ≤ 1 := by
    have : i / (2^k / 2) < 2 := (Nat.div_lt_iff_lt_mul hrow).mpr (by omega)
    omega
  have h3 := Nat.mod_lt (i % (2^k / 2) + s) hrow
  have h4 : i / (2^k / 2) * (2^k / 2) ≤ 1 * (2^k / 2) := Nat.mul_le_mul_right _ h1
  omega

theorem c04r_odd_of_mod {M g e : Nat} (hM : M % 2 = 0) (he : e % 2 = 1) (h : g % M = e % M) : g % 2 = 1 := by
  have d : 2 ∣ M := Nat.dvd_of_mod_eq_zero hM
  rw [← Nat.mod_mod_of_dvd g d, h, Nat.mod_mod_of_dvd e d, he]

/-- R2, rows: any Galois element g ≡ 3^s (mod 2N) rotates both rows of the slot matrix left by s -/
theorem c04r_decode_rotate (hw : t.WF) (hk : 2 ≤ t.k) {g s : Nat} (hgs : g % (2 * 2^t.k) = 3^s % (2 * 2^t.k))
    (p : Array Nat) (hs : p.size = 2^t.k) (hp : ∀ j, j < 2^t.k → p.getD j 0 < t.modulus.value) :
    ∃ r, galoisApply t.k p g t.modulus = .ok r ∧ r.size = 2^t.k ∧ (∀ j, j < 2^t.k → r.getD j 0 < t.modulus.value) ∧
      ∀ i, i < 2^t.k → (batchDecode t r).getD i 0 = (batchDecode t p).getD (c04r_rotIdx t.k s i) 0 := by
  have hg : g % 2 = 1 := c04r_odd_of_mod (by omega) (c11n_three_pow_odd s) hgs
  obtain ⟨r, r1, r2, r3, r4⟩ := c04r_decode_galois hw (by omega) hg p hs hp
  refine ⟨r, r1, r2, r3, fun i hi => r4 i _ hi (c04r_rotIdx_lt hk hi) ?_⟩
  rw [← Nat.mul_mod_mod, hgs, Nat.mul_mod_mod]
  exact slotExp_rotate hk hi

/-- R2, columns: any g ≡ 2N − 1 (mod 2N) exchanges the two rows -/
theorem c04r_decode_swap (hw : t.WF) (hk : 1 ≤ t.k) {g : Nat} (hgs : g % (2 * 2^t.k) = 2 * 2^t.k - 1)
    (p : Array Nat) (hs : p.size = 2^t.k) (hp : ∀ j, j < 2^t.k → p.getD j 0 < t.modulus.value) :
    ∃ r, galoisApply t.k p g t.modulus = .ok r ∧ r.size = 2^t.k ∧ (∀ j, j < 2^t.k → r.getD j 0 < t.modulus.value) ∧
      ∀ i, i < 2^t.k → (batchDecode t r).getD i 0 = (batchDecode t p).getD (c04r_swapIdx t.k i) 0 := by
  have hpos := Nat.two_pow_pos t.k
  have hg : g % 2 = 1 := by
    have d : 2 ∣ 2 * 2^t.k := ⟨_, rfl⟩
    rw [← Nat.mod_mod_of_dvd g d, hgs]; omega
  obtain ⟨r, r1, r2, r3, r4⟩ := c04r_decode_galois hw hk hg p hs hp
  refine ⟨r, r1, r2, r3, fun i hi => r4 i _ hi (Nat.mod_lt _ hpos) ?_⟩
  rw [← Nat.mul_mod_mod, hgs]
  exact slotExp_swap hk hi

/-- the signed-step index is the left rotation by the exponent `eltFromStep` uses -/
theorem c04r_stepIdx_eq {k : Nat} {step : Int} (hs : step.natAbs < 2^k / 2) (i : Nat) :
    c04r_stepIdx k step i = c04r_rotIdx k (if step < 0 then 2^k / 2 - step.natAbs else step.natAbs) i := by
  unfold c04r_stepIdx c04r_rotIdx
  congr 1
  have hrow : 0 < 2^k / 2 := by omega
  generalize 2^k / 2 = row at *
  have ha := Nat.mod_lt i hrow
  generalize i % row = a at *
  split
  · rename_i hneg
    have e : ((a : Int) + step) = ((a + (row - step.natAbs) : Nat) : Int) + (-1) * (row : Int) := by
      omega
    rw [e, Int.add_mul_emod_self_right, ← Int.natCast_mod, Int.toNat_natCast]
  · rename_i hpos
    have e : ((a : Int) + step) = ((a + step.natAbs : Nat) : Int) := by omega
    rw [e, ← Int.natCast_mod, Int.toNat_natCast]

/-- R2 for the element `eltFromStep` returns: a non-zero step rotates the rows by `step` (negative = to the right),
    step 0 exchanges the rows (`rotate_columns`) -/
theorem c04r_decode_eltFromStep (hw : t.WF) (hk : 2 ≤ t.k) {step : Int} {g : Nat} (he : eltFromStep t.k step = .ok g)
    (p : Array Nat) (hs : p.size = 2^t.k) (hp : ∀ j, j < 2^t.k → p.getD j 0 < t.modulus.value) :
    ∃ r, galoisApply t.k p g t.modulus = .ok r ∧ r.size = 2^t.k ∧ (∀ j, j < 2^t.k → r.getD j 0 < t.modulus.value) ∧
      ∀ i, i < 2^t.k → (batchDecode t r).getD i 0 =
        (batchDecode t p).getD (if step = 0 then c04r_swapIdx t.k i else c04r_stepIdx t.k step i) 0 := by
  have hpos := Nat.two_pow_pos t.k
  by_cases h0 : step = 0
  · subst h0
    rw [eltFromStep_zero] at he
    injection he with he
    subst he
    simp only [if_true]
    exact c04r_decode_swap hw (by omega) (Nat.mod_eq_of_lt (by omega)) p hs hp
  · have hlt : step.natAbs < 2^t.k / 2 := by
      by_contra hc
      rw [eltFromStep_refuses' (Nat.le_of_not_lt hc) (Or.inl h0)] at he
      cases he
    rw [eltFromStep_spec hlt h0] at he
    injection he with he
    simp only [if_neg h0]
    obtain ⟨r, r1, r2, r3, r4⟩ := c04r_decode_rotate hw hk
      (g := g) (s := if step < 0 then 2^t.k / 2 - step.natAbs else step.natAbs) (by rw [← he, Nat.mod_mod]) p hs hp
    refine ⟨r, r1, r2, r3, fun i hi => ?_⟩
    rw [r4 i hi, c04r_stepIdx_eq hlt]

end plain

/-! ## R1: exact-integer decoding commutes with the automorphism -/

section sigmaFacts
variable {R : Type} [CommRing R]

/-- INDEX / SIGN RULE of σ_g (g odd, n = 2^k): coefficient i goes to index i·g mod n, negated when ⌊i·g/n⌋ is odd -/
theorem c04r_sigma_rule {k g : Nat} (hg : g % 2 = 1) (a : Nat → R) {i : Nat} (hi : i < 2^k) :
    c04k_sigma (2^k) g a ((i * g) % 2^k) = if ((i * g) / 2^k) % 2 = 1 then - a i else a i := by
  unfold c04k_sigma
  rw [Finset.sum_eq_single i]
  · unfold c04k_chi
    rw [if_pos rfl]
    by_cases h : ((i * g) / 2^k) % 2 = 1
    · rw [if_pos h, Odd.neg_one_pow (Nat.odd_iff.mpr h)]; ring
    · rw [if_neg h, Even.neg_one_pow (Nat.even_iff.mpr (by omega))]; ring
  · intro j hj hne
    unfold c04k_chi
    rw [if_neg (fun h => hne (odd_mul_injective hg (mem_range.mp hj) hi h)), zero_mul]
  · intro h; exact absurd (mem_range.mpr hi) h

/-- every output coefficient of σ_g is ± one input coefficient -/
theorem c04r_sigma_pm {k g : Nat} (hg : g % 2 = 1) (a : Nat → R) {c : Nat} (hc : c < 2^k) :
    ∃ i, i < 2^k ∧ (c04k_sigma (2^k) g a c = a i ∨ c04k_sigma (2^k) g a c = - a i) := by
  have hc' : c ∈ range (2^k) := mem_range.mpr hc
  rw [← c04m_image_eq (k := k) hg, Finset.mem_image] at hc'
  obtain ⟨i, hi, rfl⟩ := hc'
  refine ⟨i, mem_range.mp hi, ?_⟩
  rw [c04r_sigma_rule hg a (mem_range.mp hi)]
  split
  · exact Or.inr rfl
  · exact Or.inl rfl

theorem c04r_sigma_smul (n g : Nat) (x : R) (a : Nat → R) (c : Nat) :
    c04k_sigma n g (fun i => x * a i) c = x * c04k_sigma n g a c := by
  unfold c04k_sigma
  rw [Finset.mul_sum]
  apply Finset.sum_congr rfl; intro i _; ring

end sigmaFacts

theorem c04r_sigma_modEq (n g : Nat) (q : Int) {a b : Nat → Int} (h : ∀ i, i < n → a i ≡ b i [ZMOD q]) (c : Nat) :
    c04k_sigma n g a c ≡ c04k_sigma n g b c [ZMOD q] := by
  unfold c04k_sigma
  apply Int.ModEq.sum
  intro i hi
  exact (Int.ModEq.refl _).mul (h i (mem_range.mp hi))

/-- ‖σ_g(e)‖∞ = ‖e‖∞ : a bound on all coefficients is preserved -/
theorem c04r_sigma_natAbs_le {k g : Nat} (hg : g % 2 = 1) (e : Nat → Int) {B : Nat} (h : ∀ i, i < 2^k → (e i).natAbs ≤ B)
    {c : Nat} (hc : c < 2^k) : (c04k_sigma (2^k) g e c).natAbs ≤ B := by
  obtain ⟨i, hi, h1 | h1⟩ := c04r_sigma_pm hg e hc
  · rw [h1]; exact h i hi
  · rw [h1, Int.natAbs_neg]; exact h i hi

theorem c04r_imod_modEq {t : Nat} (ht : 0 < t) {a b : Int} (h : a ≡ b [ZMOD t]) : Spec.imod a t = Spec.imod b t := by
  unfold Spec.imod; rw [h]

theorem c04r_imod_cast_modEq {t : Nat} (ht : 0 < t) (a : Int) : ((Spec.imod a t : Nat) : Int) ≡ a [ZMOD t] := by
  rw [c07l_imod_cast ht]; exact Int.mod_modEq _ _

/-- the message/noise splitting of the transformed phase: if t·x = Q·m + e coefficient-wise and y ≡ σ_g(x) + ν (mod Q), then
    t·y = Q·(σ_g(m) + t·κ) + (σ_g(e) + t·ν) for some integer κ -/
theorem c04r_split_sigma {n g t Q : Nat} {x y ν m e : Nat → Int}
    (hsplit : ∀ i, i < n → (t : Int) * x i = Q * m i + e i) {c : Nat}
    (hyx : y c ≡ c04k_sigma n g x c + ν c [ZMOD (Q : Int)]) :
    ∃ κ : Int, (t : Int) * y c = Q * (c04k_sigma n g m c + t * κ) + (c04k_sigma n g e c + t * ν c) := by
  obtain ⟨κ, hκ⟩ := (Int.modEq_iff_dvd.mp hyx.symm)
  have e1 : c04k_sigma n g (fun i => (t : Int) * x i) c
      = (Q : Int) * c04k_sigma n g m c + c04k_sigma n g e c := by
    rw [c04k_sigma_congr n g _ (fun i => (Q : Int) * m i + e i) c hsplit, c04k_sigma_add, c04r_sigma_smul]
  rw [c04r_sigma_smul] at e1
  refine ⟨κ, ?_⟩
  have : y c = c04k_sigma n g x c + ν c + Q * κ := by linarith
  rw [this]
  linear_combination e1

/-- R1 (BFV): decode(σ_g(x) + ν) = σ_g(decode x) modulo t, for any splitting t·x = Q·m + e of the input phase with 2|e| < Q
    (the decode condition for x), whenever the transformed noise σ_g(e) + t·ν is still below Q/2 -/
theorem c04r_bfvDecode_sigma {k g t Q : Nat} (hg : g % 2 = 1) (hQ : 0 < Q) (ht : 0 < t)
    {x y : Array Int} (hx : x.size = 2^k) (hy : y.size = 2^k) {ν m e : Nat → Int}
    (hsplit : ∀ i, i < 2^k → (t : Int) * x.getD i 0 = Q * m i + e i) (he : ∀ i, i < 2^k → 2 * (e i).natAbs < Q)
    (hyx : ∀ c, c < 2^k → y.getD c 0 ≡ c04k_sigma (2^k) g (fun i => x.getD i 0) c + ν c [ZMOD (Q : Int)])
    (hnoise : ∀ c, c < 2^k → 2 * (c04k_sigma (2^k) g e c + t * ν c).natAbs < Q) :
    ∀ c, c < 2^k → (Spec.bfvDecode t Q y).getD c 0 =
      Spec.imod (c04k_sigma (2^k) g (fun i => (((Spec.bfvDecode t Q x).getD i 0 : Nat) : Int)) c) t := by
  intro c hc
  obtain ⟨κ, hκ⟩ := c04r_split_sigma (x := fun i => x.getD i 0) (y := fun i => y.getD i 0) hsplit (hyx c hc)
  rw [c01p_bfvDecode_getD t Q y (by rw [hy]; exact hc), exact_below_threshold hQ hκ (hnoise c hc)]
  apply c04r_imod_modEq ht
  have h1 : c04k_sigma (2^k) g (fun i => (((Spec.bfvDecode t Q x).getD i 0 : Nat) : Int)) c ≡ c04k_sigma (2^k) g m c [ZMOD t] := by
    apply c04r_sigma_modEq
    intro i hi
    rw [c01p_bfvDecode_getD t Q x (by rw [hx]; exact hi), exact_below_threshold hQ (hsplit i hi) (he i hi)]
    exact c04r_imod_cast_modEq ht _
  refine Int.ModEq.trans ?_ h1.symm
  exact Int.modEq_iff_dvd.mpr ⟨-κ, by ring⟩

/-- the measured noise of the transformed phase is exactly σ_g(e) + t·ν -/
theorem c04r_bfv_noise_sigma {k g t Q : Nat} (hQ : 0 < Q)
    {x y : Array Int} {ν m e : Nat → Int}
    (hsplit : ∀ i, i < 2^k → (t : Int) * x.getD i 0 = Q * m i + e i)
    {c : Nat} (hyx : y.getD c 0 ≡ c04k_sigma (2^k) g (fun i => x.getD i 0) c + ν c [ZMOD (Q : Int)])
    (hnoise : 2 * (c04k_sigma (2^k) g e c + t * ν c).natAbs < Q) :
    (t : Int) * y.getD c 0 - (Q : Int) * Spec.roundDiv ((t : Int) * y.getD c 0) Q = c04k_sigma (2^k) g e c + t * ν c := by
  obtain ⟨κ, hκ⟩ := c04r_split_sigma (x := fun i => x.getD i 0) (y := fun i => y.getD i 0) hsplit hyx
  rw [exact_below_threshold hQ hκ hnoise]
  linarith

theorem c04r_imod_natCast (N t : Nat) : Spec.imod (N : Int) t = N % t := by
  unfold Spec.imod
  rw [← Int.natCast_mod, Int.toNat_natCast]

/-- two integers congruent modulo Q, one in (−Q/2, Q/2], the other strictly inside (−Q/2, Q/2), are equal -/
theorem c04r_eq_of_modEq_centred {Q : Nat} {y s : Int} (h : y ≡ s [ZMOD (Q : Int)])
    (hy : -(Q : Int) < 2 * y ∧ 2 * y ≤ Q) (hs : 2 * s.natAbs < Q) : y = s := by
  have hd : (Q : Int) ∣ y - s := Int.modEq_iff_dvd.mp h.symm
  have : y - s = 0 := Int.eq_zero_of_abs_lt_dvd hd (by rw [abs_lt]; constructor <;> omega)
  omega

/-- R1 (BGV): decode(σ_g(x) + ν) = σ_g(decode x) modulo t when t ∣ ν (key-switching noise of BGV keys) and σ_g(x) + ν does not
    wrap around modulo Q (strictly inside (−Q/2, Q/2): the BGV decode condition; the output phase `y` is the centred lift) -/
theorem c04r_bgvDecode_sigma {k g t cf Q : Nat} (ht : 0 < t)
    {x y : Array Int} (hx : x.size = 2^k) (hy : y.size = 2^k) {ν : Nat → Int}
    (hyx : ∀ c, c < 2^k → y.getD c 0 ≡ c04k_sigma (2^k) g (fun i => x.getD i 0) c + ν c [ZMOD (Q : Int)])
    (hν : ∀ c, c < 2^k → (t : Int) ∣ ν c)
    (hyc : ∀ c, c < 2^k → -(Q : Int) < 2 * y.getD c 0 ∧ 2 * y.getD c 0 ≤ Q)
    (hnoise : ∀ c, c < 2^k → 2 * (c04k_sigma (2^k) g (fun i => x.getD i 0) c + ν c).natAbs < Q) :
    ∀ c, c < 2^k → (Spec.bgvDecode t cf y).getD c 0 =
      Spec.imod (c04k_sigma (2^k) g (fun i => (((Spec.bgvDecode t cf x).getD i 0 : Nat) : Int)) c) t := by
  intro c hc
  have hyeq := c04r_eq_of_modEq_centred (hyx c hc) (hyc c hc) (hnoise c hc)
  rw [c01p_bgvDecode_getD t cf y (by rw [hy]; exact hc), ← c04r_imod_natCast]
  apply c04r_imod_modEq ht
  have h1 : c04k_sigma (2^k) g (fun i => (((Spec.bgvDecode t cf x).getD i 0 : Nat) : Int)) c
      ≡ c04k_sigma (2^k) g (fun i => (Spec.invMod cf t : Int) * x.getD i 0) c [ZMOD t] := by
    apply c04r_sigma_modEq
    intro i hi
    rw [c01p_bgvDecode_getD t cf x (by rw [hx]; exact hi)]
    push_cast
    refine Int.ModEq.trans (Int.mod_modEq _ _) ?_
    rw [mul_comm]
    exact (Int.ModEq.refl _).mul (c04r_imod_cast_modEq ht _)
  refine Int.ModEq.trans ?_ h1.symm
  rw [c04r_sigma_smul]
  push_cast
  rw [mul_comm]
  refine (Int.ModEq.refl _).mul ?_
  refine Int.ModEq.trans (c04r_imod_cast_modEq ht _) ?_
  rw [hyeq]
  exact Int.modEq_iff_dvd.mpr (by
    obtain ⟨w, hw⟩ := hν c hc
    exact ⟨-w, by rw [hw]; ring⟩)

/-! ### trimming does not change `getD`; `batchDecode` only reads the first N coefficients (zero-padded) -/

theorem c04r_sigWords_zero (l : List Nat) : ∀ j, sigWords l ≤ j → l[j]?.getD 0 = 0 := by
  induction l using List.reverseRecOn with
  | nil => intro j _; simp
  | append_singleton l x ih =>
    intro j hj
    unfold sigWords at hj ih
    rw [List.reverse_append, List.reverse_singleton, List.singleton_append, List.dropWhile_cons] at hj
    by_cases hx : x = 0
    · simp only [hx, decide_true, if_true] at hj
      by_cases hjl : j < l.length
      · rw [List.getElem?_append_left hjl]; exact ih j hj
      · rw [List.getElem?_append_right (by omega)]
        subst hx
        cases h : j - l.length <;> simp
    · simp only [hx, decide_false] at hj
      simp at hj
      rw [List.getElem?_eq_none (by simp; omega)]
      rfl

theorem c04r_trim_getD (p : Array Nat) (j : Nat) : (trimPlain p).getD j 0 = p.getD j 0 := by
  unfold trimPlain
  simp only []
  by_cases hj : j < max (sigWords p.toList) 1
  · by_cases hp : j < p.size
    · simp [Array.getD, hp, hj]
    · simp [Array.getD, hp]
  · have h0 : p.getD j 0 = 0 := by
      have := c04r_sigWords_zero p.toList j (by omega)
      rw [Array.getD_eq_getD_getElem?]
      simpa using this
    rw [h0]
    simp [Array.getD]
    intro h1 h2
    omega


theorem c04r_batchDecode_congr (t : NTTTables) {a b : Array Nat} (h : ∀ i, i < 2^t.k → a.getD i 0 = b.getD i 0) :
    batchDecode t a = batchDecode t b := by
  unfold batchDecode
  have e : (Array.ofFn (n := 2^t.k) fun i => a.getD i.val 0) = Array.ofFn (n := 2^t.k) fun i => b.getD i.val 0 := by
    congr 1; funext i; exact h i.val i.isLt
  simp only [e]

theorem c04r_batchDecode_trim (t : NTTTables) (a : Array Nat) : batchDecode t (Spec.trim a) = batchDecode t a :=
  c04r_batchDecode_congr t (fun i _ => c04r_trim_getD a i)

/-- bridge R1 → R2: if m' = σ_g(m) mod t coefficient-wise (m' canonical by construction), the slots of m' are the slots of m moved
    along i ↦ i' with slotExp(i)·g ≡ slotExp(i') (mod 2N) -/
theorem c04r_slots_of_coeff {t : NTTTables} (hw : t.WF) (hk : 1 ≤ t.k) {g : Nat} (hg : g % 2 = 1) (m m' : Array Nat)
    (hm : ∀ i, i < 2^t.k → m.getD i 0 < t.modulus.value)
    (hm' : ∀ c, c < 2^t.k → m'.getD c 0 =
      Spec.imod (c04k_sigma (2^t.k) g (fun i => ((m.getD i 0 : Nat) : Int)) c) t.modulus.value) :
    ∀ i i', i < 2^t.k → i' < 2^t.k → (slotExp t.k i * g) % (2 * 2^t.k) = slotExp t.k i' →
      (batchDecode t m').getD i 0 = (batchDecode t m).getD i' 0 := by
  have hP : ∀ i, i < 2^t.k → (Array.ofFn (n := 2^t.k) fun i => m.getD i.val 0).getD i 0 = m.getD i 0 :=
    fun i hi => c11n_getD_ofFn _ hi
  have hPs : (Array.ofFn (n := 2^t.k) fun i => m.getD i.val 0).size = 2^t.k := by simp
  have hPc : ∀ i, i < 2^t.k → (Array.ofFn (n := 2^t.k) fun i => m.getD i.val 0).getD i 0 < t.modulus.value :=
    fun i hi => by rw [hP i hi]; exact hm i hi
  generalize (Array.ofFn (n := 2^t.k) fun i => m.getD i.val 0) = P at hP hPs hPc
  obtain ⟨r, r1, r2, r3, r4⟩ := c04r_decode_galois hw hk hg P hPs hPc
  have hint := c04k_gal_facts_int hw.mwf hg hPs hPc r1
  have hq0 : 0 < t.modulus.value := by have := hw.mwf.two_le; omega
  have e1 : batchDecode t m' = batchDecode t r := by
    apply c04r_batchDecode_congr
    intro c hc
    rw [hm' c hc, ← c04r_imod_modEq hq0 ((hint c hc).trans
      (by rw [c04k_sigma_congr _ _ _ _ c (fun i hi => by rw [hP i hi])])), c04r_imod_natCast,
      Nat.mod_eq_of_lt (r3 c hc)]
  have e2 : batchDecode t m = batchDecode t P := c04r_batchDecode_congr t (fun i hi => (hP i hi).symm)
  intro i i' hi hi' he
  rw [e1, e2]
  exact r4 i i' hi hi' he

/-! ## R3: ciphertext level — `applyGalois` against the exact specification `Spec.phase` -/

theorem c04r_levelQ_of_decOK {l : Level} (hd : DecOK l) : c07s_LevelQ l := ⟨hd.tool.qwf, hd.base_eq⟩

theorem c04r_toList2 {α : Type} [Inhabited α] (a : Array α) (h : a.size = 2) (d : α) : a.toList = [a.getD 0 d, a.getD 1 d] := by
  obtain ⟨l⟩ := a
  match l, h with
  | [x, y], _ => rfl

/-- merge of per-modulus statements "phase' ≡ σ_g(phase) + ν" into one statement about `Spec.phase` modulo Q -/
theorem c04r_merge_sigma {b : RNSBase} (hb : b.WF) {n g : Nat} {sk : Array Int} {C0 C1 C0' C1' : RnsPoly}
    (h0 : C0.size = b.size) (h1 : C1.size = b.size) (h0' : C0'.size = b.size) (h1' : C1'.size = b.size) {ν : Nat → Int}
    (h : ∀ j, j < b.size → ∀ c, c < n →
      c05u_phase2 n (fun p => (((C0'.getD j #[]).getD p 0 : Nat) : Int)) (fun p => (((C1'.getD j #[]).getD p 0 : Nat) : Int))
          (fun p => sk.getD p 0) c
        ≡ c04k_sigma n g (c05u_phase2 n (fun p => (((C0.getD j #[]).getD p 0 : Nat) : Int))
            (fun p => (((C1.getD j #[]).getD p 0 : Nat) : Int)) (fun p => sk.getD p 0)) c + ν c [ZMOD ((b.q j).value : Int)]) :
    ∀ c, c < n → (Spec.phase (c01p_bvals b) n sk [C0', C1']).getD c 0 ≡
      c04k_sigma n g (fun i => (Spec.phase (c01p_bvals b) n sk [C0, C1]).getD i 0) c + ν c [ZMOD (b.prod : Int)] := by
  intro c hc
  apply c04k_crt_merge hb
  intro j hj
  refine Int.ModEq.trans (c04k_spec_phase_modEq hb (sk := sk) h0' h1' hc hj) (Int.ModEq.trans (h j hj c hc) ?_)
  refine Int.ModEq.add ?_ (Int.ModEq.refl _)
  apply c04r_sigma_modEq
  intro i hi
  exact (c04k_spec_phase_modEq hb (sk := sk) h0 h1 hi hj).symm

theorem c04r_canon_of {kl : KeyLevel} {l : Level} (hlo : c04k_LevelOf kl l) {p : RnsPoly} (hs : p.size = l.size)
    (hc : c04t_Canon kl l.size p) : RnsCanon l p := by
  refine ⟨hs, fun i hi => ?_⟩
  obtain ⟨c1, c2⟩ := hc i hi
  rw [hlo.n, hlo.q i hi]
  exact ⟨c1, c2⟩

/-- BFV (coefficient form): `applyGalois` with a Galois key for g (key equation with s' = σ_g(s)) succeeds, returns a canonical
    size-2 coefficient-form ciphertext with the same correction factor, and its EXACT phase is σ_g of the exact input phase plus
    the key-switching noise ν = `c04k_nuStd` (bounded by `switchKey_noise_bound`), modulo Q -/
theorem c04r_applyGalois_spec_bfv {kl : KeyLevel} {l : Level} (hlo : c04k_LevelOf kl l) (hq : c07s_LevelQ l)
    {polys : Array RnsPoly} {cf : Nat} {key : KSKey} {g : Nat} (h2 : polys.size = 2)
    (hc : ∀ k, k < 2 → RnsCanon l (polys.getD k #[]))
    (h : c04t_KSInput kl l.size ⟨polys, false, cf⟩ (polys.getD 1 #[]) key)
    (hg : g % 2 = 1) (hg2 : g ≤ 2 * l.n) (hkcc : (key.getD 0 #[]).size = 2)
    {sk : Array Int} {s' : Nat → Int} {e : Nat → Nat → Int} {G : Nat → Int}
    (hke : c04k_KeyEq kl l.size key (fun p => sk.getD p 0) s' e G)
    (hs' : ∀ p, p < kl.n → s' p = c04k_sigma kl.n g (fun p => sk.getD p 0) p) :
    ∃ ct', applyGalois kl l .bfv ⟨polys, false, cf⟩ g key = .ok ct' ∧ ct'.ntt = false ∧ ct'.cf = cf ∧ ct'.polys.size = 2 ∧
      (∀ k, k < 2 → RnsCanon l (ct'.polys.getD k #[])) ∧
      ∀ c, c < l.n → (Spec.phase (c01p_qvals l) l.n sk ct'.polys.toList).getD c 0 ≡
        c04k_sigma l.n g (fun i => (Spec.phase (c01p_qvals l) l.n sk polys.toList).getD i 0) c
          + c04k_nuStd kl l.size false (c04k_galRns l false g (polys.getD 1 #[])) key e (fun p => sk.getD p 0) c
          [ZMOD (Spec.prodL (c01p_qvals l) : Int)] := by
  obtain ⟨ct', a1, a2, a3, a4, a5, a6⟩ :=
    applyGalois_phase_sigma hlo (scheme := .bfv) (ct := ⟨polys, false, cf⟩) h (Or.inl ⟨rfl, rfl⟩) h2 hg hg2 hkcc hke hs'
  have hcan : ∀ k, k < 2 → RnsCanon l (ct'.polys.getD k #[]) := fun k hk => c04r_canon_of hlo (a5 k hk).1 (a5 k hk).2
  refine ⟨ct', a1, a2, a3, a4, hcan, ?_⟩
  rw [c04r_toList2 ct'.polys a4 #[], c04r_toList2 polys h2 #[], c01q_qvals_eq hq, c01p_prodL_bvals hq.bwf, hlo.n]
  have hsz := hq.size_eq
  apply c04r_merge_sigma hq.bwf (by rw [hsz]; exact (hc 0 (by omega)).1) (by rw [hsz]; exact (hc 1 (by omega)).1)
    (by rw [hsz]; exact (hcan 0 (by omega)).1) (by rw [hsz]; exact (hcan 1 (by omega)).1)
  intro j hj c hc'
  rw [hsz] at hj
  rw [hq.q_eq hj, hlo.q j hj]
  exact a6 j hj c hc'

/-- the BFV noise of a phase coefficient: e = t·x − Q·round(t·x/Q) (the quantity bounded by `BehzDecryptOK`) -/
def c04r_bfvNoise (t Q : Nat) (x : Int) : Int := (t : Int) * x - (Q : Int) * Spec.roundDiv ((t : Int) * x) Q

theorem c04r_behz_of_bound {l : Level} {ph : Spec.ZPoly} {B : Nat}
    (hB : ∀ j, j < l.n → (c04r_bfvNoise l.t.value (Spec.prodL (c01p_qvals l)) (ph.getD j 0)).natAbs ≤ B)
    (hm : 2 * l.tool.gamma.value * B + 2 * l.size * Spec.prodL (c01p_qvals l) ≤ Spec.prodL (c01p_qvals l) * l.tool.gamma.value) :
    BehzDecryptOK l ph := by
  intro j hj
  have h1 := hB j hj
  unfold c04r_bfvNoise at h1
  generalize (l.t.value : Int) * ph.getD j 0 - (Spec.prodL (c01p_qvals l) : Int) *
    Spec.roundDiv ((l.t.value : Int) * ph.getD j 0) (Spec.prodL (c01p_qvals l)) = X at h1 ⊢
  have h2 : |X| ≤ (B : Int) := by rw [Int.abs_eq_natAbs]; exact_mod_cast h1
  have h3 : 2 * (l.tool.gamma.value : Int) * |X| ≤ 2 * (l.tool.gamma.value : Int) * B :=
    mul_le_mul_of_nonneg_left h2 (by positivity)
  have h4 : (2 * (l.tool.gamma.value : Int) * B + 2 * (l.size : Int) * (Spec.prodL (c01p_qvals l) : Int))
      ≤ (Spec.prodL (c01p_qvals l) : Int) * (l.tool.gamma.value : Int) := by exact_mod_cast hm
  linarith

theorem c04r_lt_of_margin {γ B k Q : Nat} (hγ : 0 < γ) (hk : 0 < k) (hQ : 0 < Q) (hm : 2 * γ * B + 2 * k * Q ≤ Q * γ) :
    2 * B < Q := by
  have h1 : 0 < 2 * k * Q := by positivity
  have h2 : γ * (2 * B) < γ * Q := by
    have : γ * (2 * B) = 2 * γ * B := by ring
    have : γ * Q = Q * γ := by ring
    omega
  exact Nat.lt_of_mul_lt_mul_left h2

/-- R3 (BFV, coefficient level): if `applyGalois` is applied with a Galois key for g to a size-2 ciphertext whose noise is at most E
    (so it decrypts, `bfvDecrypt_eq_spec`), the key-switching noise ν = `c04k_nuStd` is at most V (`switchKey_noise_bound`), and
    E + t·V still satisfies the BEHZ decode condition, then the model decrypts the result to m' = σ_g(m) mod t -/
theorem c04r_applyGalois_decrypt_bfv {kl : KeyLevel} {l : Level} (hl : l.WF) (hd : DecOK l) (hlo : c04k_LevelOf kl l)
    {polys : Array RnsPoly} {cf : Nat} {key : KSKey} {g : Nat} (h2 : polys.size = 2)
    (hc : ∀ k, k < 2 → RnsCanon l (polys.getD k #[]))
    (h : c04t_KSInput kl l.size ⟨polys, false, cf⟩ (polys.getD 1 #[]) key)
    (hg : g % 2 = 1) (hg2 : g ≤ 2 * l.n) (hkcc : (key.getD 0 #[]).size = 2)
    {sk : Array Int} (hsk : sk.size = l.n) {s' : Nat → Int} {e : Nat → Nat → Int} {G : Nat → Int}
    (hke : c04k_KeyEq kl l.size key (fun p => sk.getD p 0) s' e G)
    (hs' : ∀ p, p < kl.n → s' p = c04k_sigma kl.n g (fun p => sk.getD p 0) p) {E V : Nat}
    (hE : ∀ c, c < l.n → (c04r_bfvNoise l.t.value (Spec.prodL (c01p_qvals l))
      ((Spec.phase (c01p_qvals l) l.n sk polys.toList).getD c 0)).natAbs ≤ E)
    (hV : ∀ c, c < l.n →
      (c04k_nuStd kl l.size false (c04k_galRns l false g (polys.getD 1 #[])) key e (fun p => sk.getD p 0) c).natAbs ≤ V)
    (hm : 2 * l.tool.gamma.value * (E + l.t.value * V) + 2 * l.size * Spec.prodL (c01p_qvals l)
      ≤ Spec.prodL (c01p_qvals l) * l.tool.gamma.value) :
    ∃ ct' m m', applyGalois kl l .bfv ⟨polys, false, cf⟩ g key = .ok ct' ∧
      bfvDecrypt l sk ⟨polys, false, cf⟩ = .ok m ∧ bfvDecrypt l sk ct' = .ok m' ∧
      (∀ c, c < l.n → m.getD c 0 < l.t.value) ∧
      (∀ c, c < l.n → m'.getD c 0 = Spec.imod (c04k_sigma l.n g (fun i => ((m.getD i 0 : Nat) : Int)) c) l.t.value) ∧
      ct'.ntt = false ∧ ct'.polys.size = 2 ∧ (∀ k, k < 2 → RnsCanon l (ct'.polys.getD k #[])) ∧
      ∀ c, c < l.n → (c04r_bfvNoise l.t.value (Spec.prodL (c01p_qvals l))
        ((Spec.phase (c01p_qvals l) l.n sk ct'.polys.toList).getD c 0)).natAbs ≤ E + l.t.value * V := by
  have hq := c04r_levelQ_of_decOK hd
  obtain ⟨ct', a1, a2, a3, a4, a5, a6⟩ := c04r_applyGalois_spec_bfv hlo hq h2 hc h hg hg2 hkcc hke hs'
  obtain ⟨polys', ntt', cf'⟩ := ct'
  simp only at a2 a3 a4 a5 a6
  subst a2
  have hγ : 0 < l.tool.gamma.value := by have := hd.tool.gwf.two_le; omega
  have ht : 0 < l.t.value := by have := hd.tool.twf.two_le; rw [hd.t_eq] at this; omega
  have hQ : 0 < Spec.prodL (c01p_qvals l) := by rw [c01p_prodL_qvals hd]; exact hq.bwf.prod_pos
  have hk0 : 0 < l.size := by rw [← hq.size_eq]; exact hq.bwf.pos
  have hn0 := c01q_n_pos hl
  have hlt := c04r_lt_of_margin hγ hk0 hQ hm
  have hm0 : 2 * l.tool.gamma.value * E + 2 * l.size * Spec.prodL (c01p_qvals l)
      ≤ Spec.prodL (c01p_qvals l) * l.tool.gamma.value := by
    have : 2 * l.tool.gamma.value * E ≤ 2 * l.tool.gamma.value * (E + l.t.value * V) :=
      Nat.mul_le_mul_left _ (Nat.le_add_right _ _)
    omega
  have hne : polys.toList ≠ [] := by rw [c04r_toList2 polys h2 #[]]; simp
  have hne' : polys'.toList ≠ [] := by rw [c04r_toList2 polys' a4 #[]]; simp
  have hsz : ∀ p ∈ polys.toList, p.size = l.size := fun p hp =>
    (c01q_polys_mem (polys := polys) (fun k hk => hc k (by omega)) p hp).1
  have hsz' : ∀ p ∈ polys'.toList, p.size = l.size := fun p hp =>
    (c01q_polys_mem (polys := polys') (fun k hk => a5 k (by omega)) p hp).1
  have hps := (c01q_phase_general hq (sk := sk) hne hsz hn0).1
  have hps' := (c01q_phase_general hq (sk := sk) hne' hsz' hn0).1
  -- noise of the result
  have hsplit : ∀ i, i < l.n → (l.t.value : Int) * (Spec.phase (c01p_qvals l) l.n sk polys.toList).getD i 0 =
      (Spec.prodL (c01p_qvals l) : Int) *
        Spec.roundDiv ((l.t.value : Int) * (Spec.phase (c01p_qvals l) l.n sk polys.toList).getD i 0) (Spec.prodL (c01p_qvals l))
      + c04r_bfvNoise l.t.value (Spec.prodL (c01p_qvals l)) ((Spec.phase (c01p_qvals l) l.n sk polys.toList).getD i 0) :=
    fun i _ => by unfold c04r_bfvNoise; ring
  have hle : ∀ c, c < l.n → (c04k_sigma l.n g (fun i => c04r_bfvNoise l.t.value (Spec.prodL (c01p_qvals l))
        ((Spec.phase (c01p_qvals l) l.n sk polys.toList).getD i 0)) c + (l.t.value : Int) *
        c04k_nuStd kl l.size false (c04k_galRns l false g (polys.getD 1 #[])) key e (fun p => sk.getD p 0) c).natAbs
      ≤ E + l.t.value * V := by
    intro c hc'
    refine le_trans (Int.natAbs_add_le _ _) (Nat.add_le_add ?_ ?_)
    · have hn := hl.npow
      rw [hn] at hE hc' ⊢
      exact c04r_sigma_natAbs_le hg _ hE hc'
    · rw [Int.natAbs_mul, Int.natAbs_natCast]
      exact Nat.mul_le_mul_left _ (hV c hc')
  have hnoise : ∀ c, c < l.n → 2 * (c04k_sigma l.n g (fun i => c04r_bfvNoise l.t.value (Spec.prodL (c01p_qvals l))
        ((Spec.phase (c01p_qvals l) l.n sk polys.toList).getD i 0)) c + (l.t.value : Int) *
        c04k_nuStd kl l.size false (c04k_galRns l false g (polys.getD 1 #[])) key e (fun p => sk.getD p 0) c).natAbs
      < Spec.prodL (c01p_qvals l) := fun c hc' => by have := hle c hc'; omega
  have he0 : ∀ i, i < l.n → 2 * (c04r_bfvNoise l.t.value (Spec.prodL (c01p_qvals l))
      ((Spec.phase (c01p_qvals l) l.n sk polys.toList).getD i 0)).natAbs < Spec.prodL (c01p_qvals l) :=
    fun i hi => by have := hE i hi; omega
  have hb0 : BehzDecryptOK l (Spec.phase (c01p_qvals l) l.n sk polys.toList) := c04r_behz_of_bound hE hm0
  have hN1 : ∀ j, j < l.n → (c04r_bfvNoise l.t.value (Spec.prodL (c01p_qvals l))
      ((Spec.phase (c01p_qvals l) l.n sk polys'.toList).getD j 0)).natAbs ≤ E + l.t.value * V := by
    intro j hj
    have hn := hl.npow
    unfold c04r_bfvNoise
    rw [hn] at hsplit a6 hj hle hnoise ⊢
    rw [c04r_bfv_noise_sigma (k := l.k) (g := g) hQ hsplit (a6 j hj) (hnoise j hj)]
    exact hle j hj
  have hb1 : BehzDecryptOK l (Spec.phase (c01p_qvals l) l.n sk polys'.toList) := c04r_behz_of_bound hN1 hm
  refine ⟨⟨polys', false, cf'⟩, _, _, a1,
    bfvDecrypt_eq_spec hl hd hsk (by omega) (fun k hk => hc k (by omega)) cf hb0,
    bfvDecrypt_eq_spec hl hd hsk (by omega) (fun k hk => a5 k (by omega)) cf' hb1, ?_, ?_, rfl, a4, a5, hN1⟩
  · intro c hc'
    unfold Spec.trim
    rw [c04r_trim_getD, c01p_bfvDecode_getD _ _ _ (by rw [hps]; exact hc')]
    exact c07l_imod_lt ht _
  · intro c hc'
    have hn := hl.npow
    unfold Spec.trim
    rw [c04r_trim_getD]
    rw [hn] at hsplit a6 hc' he0 hps hps' hnoise ⊢
    rw [c04r_bfvDecode_sigma (k := l.k) hg hQ ht hps hps' hsplit he0 a6 hnoise c hc']
    congr 1
    apply c04k_sigma_congr
    intro i _
    rw [c04r_trim_getD]

/-- slot index map of `rotate_rows(step)` (step ≠ 0) resp. `rotate_columns` (step = 0, the element 2N − 1) -/
def c04r_slotIdx (k : Nat) (step : Int) (i : Nat) : Nat := if step = 0 then c04r_swapIdx k i else c04r_stepIdx k step i

/-- facts about the element `eltFromStep` returns: odd, below 2N, and it moves slot exponent i to `c04r_slotIdx` -/
theorem c04r_elt_slot {k : Nat} (hk : 2 ≤ k) {step : Int} {g : Nat} (he : eltFromStep k step = .ok g) :
    g % 2 = 1 ∧ g < 2 * 2^k ∧ ∀ i, i < 2^k → c04r_slotIdx k step i < 2^k ∧
      (slotExp k i * g) % (2 * 2^k) = slotExp k (c04r_slotIdx k step i) := by
  have hpos := Nat.two_pow_pos k
  unfold c04r_slotIdx
  by_cases h0 : step = 0
  · subst h0
    rw [eltFromStep_zero] at he
    injection he with he
    subst he
    refine ⟨by omega, by omega, fun i hi => ?_⟩
    simp only [if_true]
    exact ⟨Nat.mod_lt _ hpos, slotExp_swap (by omega) hi⟩
  · have hlt : step.natAbs < 2^k / 2 := by
      by_contra hc
      rw [eltFromStep_refuses' (Nat.le_of_not_lt hc) (Or.inl h0)] at he
      cases he
    rw [eltFromStep_spec hlt h0] at he
    injection he with he
    have hgs : g % (2 * 2^k) = 3^(if step < 0 then 2^k / 2 - step.natAbs else step.natAbs) % (2 * 2^k) := by
      rw [← he, Nat.mod_mod]
    refine ⟨c04r_odd_of_mod (by omega) (c11n_three_pow_odd _) hgs, by rw [← he]; exact Nat.mod_lt _ (by omega), fun i hi => ?_⟩
    simp only [if_neg h0]
    rw [c04r_stepIdx_eq hlt]
    refine ⟨c04r_rotIdx_lt hk hi, ?_⟩
    rw [← Nat.mul_mod_mod, hgs, Nat.mul_mod_mod]
    exact slotExp_rotate hk hi

/-- R3 (BFV, slot level): rotation of an encrypted batched plaintext.  `T` = the batching tables of the plain modulus
    (t prime, t ≡ 1 mod 2N: `T.WF`).  If g = `eltFromStep step`, the result of `applyGalois` decrypts to the plaintext whose slot
    matrix is the input's with both rows rotated by `step` (step ≠ 0) resp. with the two rows exchanged (step = 0) -/
theorem c04r_rotate_bfv {kl : KeyLevel} {l : Level} (hl : l.WF) (hd : DecOK l) (hlo : c04k_LevelOf kl l)
    {T : NTTTables} (hT : T.WF) (hTk : T.k = l.k) (hTm : T.modulus.value = l.t.value) (hk2 : 2 ≤ l.k)
    {step : Int} {g : Nat} (hstep : eltFromStep l.k step = .ok g)
    {polys : Array RnsPoly} {cf : Nat} {key : KSKey} (h2 : polys.size = 2)
    (hc : ∀ k, k < 2 → RnsCanon l (polys.getD k #[]))
    (h : c04t_KSInput kl l.size ⟨polys, false, cf⟩ (polys.getD 1 #[]) key) (hkcc : (key.getD 0 #[]).size = 2)
    {sk : Array Int} (hsk : sk.size = l.n) {s' : Nat → Int} {e : Nat → Nat → Int} {G : Nat → Int}
    (hke : c04k_KeyEq kl l.size key (fun p => sk.getD p 0) s' e G)
    (hs' : ∀ p, p < kl.n → s' p = c04k_sigma kl.n g (fun p => sk.getD p 0) p) {E V : Nat}
    (hE : ∀ c, c < l.n → (c04r_bfvNoise l.t.value (Spec.prodL (c01p_qvals l))
      ((Spec.phase (c01p_qvals l) l.n sk polys.toList).getD c 0)).natAbs ≤ E)
    (hV : ∀ c, c < l.n →
      (c04k_nuStd kl l.size false (c04k_galRns l false g (polys.getD 1 #[])) key e (fun p => sk.getD p 0) c).natAbs ≤ V)
    (hm : 2 * l.tool.gamma.value * (E + l.t.value * V) + 2 * l.size * Spec.prodL (c01p_qvals l)
      ≤ Spec.prodL (c01p_qvals l) * l.tool.gamma.value) :
    ∃ ct' m m', applyGalois kl l .bfv ⟨polys, false, cf⟩ g key = .ok ct' ∧
      bfvDecrypt l sk ⟨polys, false, cf⟩ = .ok m ∧ bfvDecrypt l sk ct' = .ok m' ∧
      ∀ i, i < l.n → (batchDecode T m').getD i 0 = (batchDecode T m).getD (c04r_slotIdx l.k step i) 0 := by
  obtain ⟨g1, g2, g3⟩ := c04r_elt_slot hk2 hstep
  have hn := hl.npow
  obtain ⟨ct', m, m', b1, b2, b3, b4, b5, -⟩ := c04r_applyGalois_decrypt_bfv hl hd hlo h2 hc h g1 (by rw [hn]; omega) hkcc hsk
    hke hs' hE hV hm
  refine ⟨ct', m, m', b1, b2, b3, fun i hi => ?_⟩
  rw [hn, ← hTk] at hi b4 b5
  rw [← hTm] at b4 b5
  rw [← hTk] at g3 ⊢
  exact c04r_slots_of_coeff hT (by omega) g1 m m' b4 b5 i _ hi (g3 i hi).1 (g3 i hi).2

/-! ### BGV (NTT form) -/

/-- the level's NTT tables are the key level's tables for the same moduli (needed in NTT form: `Level.WF` / `KeyLevel.WF` fix
    the modulus and the degree of a table, not its root) -/
def c04r_SameTables (kl : KeyLevel) (l : Level) : Prop := ∀ j, j < l.size → l.tbl j = kl.tb j

theorem c04r_rnsIntt_getD (l : Level) (p : RnsPoly) {j : Nat} (hj : j < l.size) :
    (rnsIntt l p).getD j #[] = intt (l.tbl j) (p.getD j #[]) := by
  unfold rnsIntt
  rw [c01o_ofFn_getD _ _ _ hj]

theorem c04r_polyI_true (t : NTTTables) (P : Poly) :
    c04k_polyI t true P = fun c => (((intt t P).getD c 0 : Nat) : Int) := rfl

/-- BGV (NTT form): the exact phase (of the coefficient forms) of the `applyGalois` result is σ_g of the exact input phase plus
    ν = `c04k_nuBgv`, modulo Q; the correction factor is unchanged -/
theorem c04r_applyGalois_spec_bgv {kl : KeyLevel} {l : Level} (hlo : c04k_LevelOf kl l) (htb : c04r_SameTables kl l)
    (hq : c07s_LevelQ l) (hb : c04t_BgvData kl)
    {polys : Array RnsPoly} {cf : Nat} {key : KSKey} {g : Nat} (h2 : polys.size = 2)
    (h : c04t_KSInput kl l.size ⟨polys, true, cf⟩ (polys.getD 1 #[]) key)
    (hg : g % 2 = 1) (hg2 : g ≤ 2 * l.n) (hkcc : (key.getD 0 #[]).size = 2)
    {sk : Array Int} {s' : Nat → Int} {e : Nat → Nat → Int} {G : Nat → Int}
    (hke : c04k_KeyEq kl l.size key (fun p => sk.getD p 0) s' e G)
    (hs' : ∀ p, p < kl.n → s' p = c04k_sigma kl.n g (fun p => sk.getD p 0) p) :
    ∃ ct', applyGalois kl l .bgv ⟨polys, true, cf⟩ g key = .ok ct' ∧ ct'.ntt = true ∧ ct'.cf = cf ∧ ct'.polys.size = 2 ∧
      (∀ k, k < 2 → RnsCanon l (ct'.polys.getD k #[])) ∧
      ∀ c, c < l.n → (Spec.phase (c01p_qvals l) l.n sk (ct'.polys.toList.map (rnsIntt l))).getD c 0 ≡
        c04k_sigma l.n g (fun i => (Spec.phase (c01p_qvals l) l.n sk (polys.toList.map (rnsIntt l))).getD i 0) c
          + c04k_nuBgv kl l.size true (c04k_galRns l true g (polys.getD 1 #[])) key e (fun p => sk.getD p 0) c
          [ZMOD (Spec.prodL (c01p_qvals l) : Int)] := by
  obtain ⟨ct', a1, a2, a3, a4, a5, a6⟩ :=
    applyGalois_phase_sigma_bgv hlo (ct := ⟨polys, true, cf⟩) h hb rfl h2 hg hg2 hkcc hke hs'
  have hcan : ∀ k, k < 2 → RnsCanon l (ct'.polys.getD k #[]) := fun k hk => c04r_canon_of hlo (a5 k hk).1 (a5 k hk).2
  refine ⟨ct', a1, a2, a3, a4, hcan, ?_⟩
  rw [c04r_toList2 ct'.polys a4 #[], c04r_toList2 polys h2 #[], c01q_qvals_eq hq, c01p_prodL_bvals hq.bwf, hlo.n]
  simp only [List.map_cons, List.map_nil]
  have hsz := hq.size_eq
  apply c04r_merge_sigma hq.bwf (by rw [hsz]; exact c01p_rnsIntt_size l _) (by rw [hsz]; exact c01p_rnsIntt_size l _)
    (by rw [hsz]; exact c01p_rnsIntt_size l _) (by rw [hsz]; exact c01p_rnsIntt_size l _)
  intro j hj c hc'
  rw [hsz] at hj
  rw [hq.q_eq hj, hlo.q j hj, c04r_rnsIntt_getD l _ hj, c04r_rnsIntt_getD l _ hj, c04r_rnsIntt_getD l _ hj,
    c04r_rnsIntt_getD l _ hj, htb j hj]
  exact a6 j hj c hc'

/-- R3 (BGV, coefficient level): with BGV keys (t ∣ e_i), a phase bounded by X, key-switching noise bounded by V and
    2(X + V) < Q (no wrap-around), the model decrypts the `applyGalois` result to m' = σ_g(m) mod t -/
theorem c04r_applyGalois_decrypt_bgv {kl : KeyLevel} {l : Level} (hl : l.WF) (hd : DecOK l) (hlo : c04k_LevelOf kl l)
    (htb : c04r_SameTables kl l) (hb : c04t_BgvData kl) (hkt : kl.t.value = l.t.value)
    {polys : Array RnsPoly} {cf : Nat} {key : KSKey} {g : Nat} (h2 : polys.size = 2)
    (hc : ∀ k, k < 2 → RnsCanon l (polys.getD k #[]))
    (hcf : cf < 2^63) (hcop : Nat.Coprime cf l.t.value)
    (h : c04t_KSInput kl l.size ⟨polys, true, cf⟩ (polys.getD 1 #[]) key)
    (hg : g % 2 = 1) (hg2 : g ≤ 2 * l.n) (hkcc : (key.getD 0 #[]).size = 2)
    {sk : Array Int} (hsk : sk.size = l.n) {s' : Nat → Int} {e : Nat → Nat → Int} {G : Nat → Int}
    (hke : c04k_KeyEq kl l.size key (fun p => sk.getD p 0) s' e G)
    (hs' : ∀ p, p < kl.n → s' p = c04k_sigma kl.n g (fun p => sk.getD p 0) p)
    (het : ∀ i, i < l.size → ∀ p, p < kl.n → (kl.t.value : Int) ∣ e i p) {X V : Nat}
    (hX : ∀ c, c < l.n → ((Spec.phase (c01p_qvals l) l.n sk (polys.toList.map (rnsIntt l))).getD c 0).natAbs ≤ X)
    (hV : ∀ c, c < l.n →
      (c04k_nuBgv kl l.size true (c04k_galRns l true g (polys.getD 1 #[])) key e (fun p => sk.getD p 0) c).natAbs ≤ V)
    (hm : 2 * (X + V) < Spec.prodL (c01p_qvals l)) :
    ∃ ct' m m', applyGalois kl l .bgv ⟨polys, true, cf⟩ g key = .ok ct' ∧ ct'.cf = cf ∧
      bgvDecrypt l sk ⟨polys, true, cf⟩ = .ok m ∧ bgvDecrypt l sk ct' = .ok m' ∧
      (∀ c, c < l.n → m.getD c 0 < l.t.value) ∧
      ∀ c, c < l.n → m'.getD c 0 = Spec.imod (c04k_sigma l.n g (fun i => ((m.getD i 0 : Nat) : Int)) c) l.t.value := by
  have hq := c04r_levelQ_of_decOK hd
  obtain ⟨ct', a1, a2, a3, a4, a5, a6⟩ := c04r_applyGalois_spec_bgv hlo htb hq hb h2 h hg hg2 hkcc hke hs'
  obtain ⟨polys', ntt', cf'⟩ := ct'
  simp only at a2 a3 a4 a5 a6
  subst a2 a3
  have ht : 0 < l.t.value := by have := hd.tool.twf.two_le; rw [hd.t_eq] at this; omega
  have hn0 := c01q_n_pos hl
  have hne : polys.toList.map (rnsIntt l) ≠ [] := by rw [c04r_toList2 polys h2 #[]]; simp
  have hne' : polys'.toList.map (rnsIntt l) ≠ [] := by rw [c04r_toList2 polys' a4 #[]]; simp
  have hsz : ∀ (ps : Array RnsPoly), ∀ p ∈ ps.toList.map (rnsIntt l), p.size = l.size := fun ps p hp => by
    obtain ⟨p', -, rfl⟩ := List.mem_map.mp hp; exact c01p_rnsIntt_size l p'
  have hps := (c01q_phase_general hq (sk := sk) hne (hsz polys) hn0).1
  have hps' := (c01q_phase_general hq (sk := sk) hne' (hsz polys') hn0).1
  have hν := switchKey_noise_bgv_mod_t (c04k_galois_input hlo h hkcc hg) hb hke het
  have hle : ∀ c, c < l.n → (c04k_sigma l.n g (fun i => (Spec.phase (c01p_qvals l) l.n sk (polys.toList.map (rnsIntt l))).getD i 0) c
      + c04k_nuBgv kl l.size true (c04k_galRns l true g (polys.getD 1 #[])) key e (fun p => sk.getD p 0) c).natAbs ≤ X + V := by
    intro c hc'
    refine le_trans (Int.natAbs_add_le _ _) (Nat.add_le_add ?_ (hV c hc'))
    have hn := hl.npow
    rw [hn] at hX hc' ⊢
    exact c04r_sigma_natAbs_le hg _ hX hc'
  have hyc : ∀ c, c < l.n → -(Spec.prodL (c01p_qvals l) : Int) <
        2 * (Spec.phase (c01p_qvals l) l.n sk (polys'.toList.map (rnsIntt l))).getD c 0 ∧
      2 * (Spec.phase (c01p_qvals l) l.n sk (polys'.toList.map (rnsIntt l))).getD c 0 ≤ (Spec.prodL (c01p_qvals l) : Int) := by
    intro c hc'
    rw [c01p_prodL_qvals hd]
    exact c01q_phase_centred hq hne' (hsz polys') hc'
  have hnoise : ∀ c, c < l.n → 2 * (c04k_sigma l.n g
      (fun i => (Spec.phase (c01p_qvals l) l.n sk (polys.toList.map (rnsIntt l))).getD i 0) c
      + c04k_nuBgv kl l.size true (c04k_galRns l true g (polys.getD 1 #[])) key e (fun p => sk.getD p 0) c).natAbs
      < Spec.prodL (c01p_qvals l) := fun c hc' => by have := hle c hc'; omega
  have ht0 : BgvNoTie l (Spec.phase (c01p_qvals l) l.n sk (polys.toList.map (rnsIntt l))) := by
    intro j hj
    have := hX j hj
    omega
  have ht1 : BgvNoTie l (Spec.phase (c01p_qvals l) l.n sk (polys'.toList.map (rnsIntt l))) := by
    intro j hj
    have e1 := c04r_eq_of_modEq_centred (a6 j hj) (hyc j hj) (hnoise j hj)
    have := hnoise j hj
    rw [e1]
    omega
  refine ⟨_, _, _, a1, rfl,
    bgvDecrypt_eq_spec hl hd hsk (by omega) (fun k hk => hc k (by omega)) hcf hcop ht0,
    bgvDecrypt_eq_spec hl hd hsk (by omega) (fun k hk => a5 k (by omega)) hcf hcop ht1, ?_, ?_⟩
  · intro c hc'
    unfold Spec.trim
    rw [c04r_trim_getD, c01p_bgvDecode_getD _ _ _ (by rw [hps]; exact hc')]
    exact Nat.mod_lt _ ht
  · intro c hc'
    have hn := hl.npow
    unfold Spec.trim
    rw [c04r_trim_getD]
    rw [hlo.n] at hn
    rw [← hlo.n] at hν
    have hn' := hl.npow
    rw [hn'] at a6 hc' hps hps' hnoise hyc hν ⊢
    rw [c04r_bgvDecode_sigma (k := l.k) (g := g) ht hps hps' a6 (fun c hc => by rw [← hkt]; exact hν c hc) hyc hnoise c hc']
    congr 1
    apply c04k_sigma_congr
    intro i _
    rw [c04r_trim_getD]

/-- R3 (BGV, slot level) -/
theorem c04r_rotate_bgv {kl : KeyLevel} {l : Level} (hl : l.WF) (hd : DecOK l) (hlo : c04k_LevelOf kl l)
    (htb : c04r_SameTables kl l) (hb : c04t_BgvData kl) (hkt : kl.t.value = l.t.value)
    {T : NTTTables} (hT : T.WF) (hTk : T.k = l.k) (hTm : T.modulus.value = l.t.value) (hk2 : 2 ≤ l.k)
    {step : Int} {g : Nat} (hstep : eltFromStep l.k step = .ok g)
    {polys : Array RnsPoly} {cf : Nat} {key : KSKey} (h2 : polys.size = 2)
    (hc : ∀ k, k < 2 → RnsCanon l (polys.getD k #[]))
    (hcf : cf < 2^63) (hcop : Nat.Coprime cf l.t.value)
    (h : c04t_KSInput kl l.size ⟨polys, true, cf⟩ (polys.getD 1 #[]) key) (hkcc : (key.getD 0 #[]).size = 2)
    {sk : Array Int} (hsk : sk.size = l.n) {s' : Nat → Int} {e : Nat → Nat → Int} {G : Nat → Int}
    (hke : c04k_KeyEq kl l.size key (fun p => sk.getD p 0) s' e G)
    (hs' : ∀ p, p < kl.n → s' p = c04k_sigma kl.n g (fun p => sk.getD p 0) p)
    (het : ∀ i, i < l.size → ∀ p, p < kl.n → (kl.t.value : Int) ∣ e i p) {X V : Nat}
    (hX : ∀ c, c < l.n → ((Spec.phase (c01p_qvals l) l.n sk (polys.toList.map (rnsIntt l))).getD c 0).natAbs ≤ X)
    (hV : ∀ c, c < l.n →
      (c04k_nuBgv kl l.size true (c04k_galRns l true g (polys.getD 1 #[])) key e (fun p => sk.getD p 0) c).natAbs ≤ V)
    (hm : 2 * (X + V) < Spec.prodL (c01p_qvals l)) :
    ∃ ct' m m', applyGalois kl l .bgv ⟨polys, true, cf⟩ g key = .ok ct' ∧ ct'.cf = cf ∧
      bgvDecrypt l sk ⟨polys, true, cf⟩ = .ok m ∧ bgvDecrypt l sk ct' = .ok m' ∧
      ∀ i, i < l.n → (batchDecode T m').getD i 0 = (batchDecode T m).getD (c04r_slotIdx l.k step i) 0 := by
  obtain ⟨g1, g2, g3⟩ := c04r_elt_slot hk2 hstep
  have hn := hl.npow
  obtain ⟨ct', m, m', b1, b0, b2, b3, b4, b5⟩ := c04r_applyGalois_decrypt_bgv hl hd hlo htb hb hkt h2 hc hcf hcop h g1
    (by rw [hn]; omega) hkcc hsk hke hs' het hX hV hm
  refine ⟨ct', m, m', b1, b0, b2, b3, fun i hi => ?_⟩
  rw [hn, ← hTk] at hi b4 b5
  rw [← hTm] at b4 b5
  rw [← hTk] at g3 ⊢
  exact c04r_slots_of_coeff hT (by omega) g1 m m' b4 b5 i _ hi (g3 i hi).1 (g3 i hi).2

/-! ## R4: CKKS — integer-level statement: `rotate_vector(step)` is σ_{3^s}, complex conjugation is σ_{2N−1} -/

/-- the elements: for step ≠ 0 (|step| < N/2) `eltFromStep` returns 3^s mod 2N with s ≡ step (mod N/2), s = step for
    positive steps and N/2 − |step| for negative ones; for step 0 (conjugation) it returns 2N − 1 -/
theorem c04r_ckks_elt {k : Nat} {step : Int} {g : Nat} (he : eltFromStep k step = .ok g) (hk : 1 ≤ k) :
    (step = 0 ∧ g = 2 * 2^k - 1) ∨
    (step ≠ 0 ∧ step.natAbs < 2^k / 2 ∧ g = 3 ^ (if step < 0 then 2^k / 2 - step.natAbs else step.natAbs) % (2 * 2^k)) := by
  by_cases h0 : step = 0
  · subst h0
    rw [eltFromStep_zero] at he
    injection he with he
    exact Or.inl ⟨rfl, he.symm⟩
  · have hlt : step.natAbs < 2^k / 2 := by
      by_contra hc
      rw [eltFromStep_refuses' (Nat.le_of_not_lt hc) (Or.inl h0)] at he
      cases he
    rw [eltFromStep_spec hlt h0] at he
    injection he with he
    exact Or.inr ⟨h0, hlt, he.symm⟩

/-- R4 (CKKS, NTT form): for g = `eltFromStep step` and a Galois key for g, `applyGalois` succeeds and the exact phase of the
    result is σ_g of the exact input phase plus ν, modulo every level modulus (so rotate_vector(step) acts on the encoded
    polynomial as X ↦ X^(3^s), conjugation as X ↦ X^(2N−1)); the slot-level statement over ℂ is out of scope -/
theorem c04r_ckks_rotate {kl : KeyLevel} {l : Level} (hl : l.WF) (hlo : c04k_LevelOf kl l) {ct : Ct} {key : KSKey}
    {step : Int} {g : Nat} (hstep : eltFromStep l.k step = .ok g) (hk1 : 1 ≤ l.k)
    (h : c04t_KSInput kl l.size ct (ct.polys.getD 1 #[]) key) (hntt : ct.ntt = true)
    (h2 : ct.polys.size = 2) (hkcc : (key.getD 0 #[]).size = 2)
    {s s' : Nat → Int} {e : Nat → Nat → Int} {G : Nat → Int} (hke : c04k_KeyEq kl l.size key s s' e G)
    (hs' : ∀ p, p < kl.n → s' p = c04k_sigma kl.n g s p) :
    ((step = 0 ∧ g = 2 * 2^l.k - 1) ∨
      (step ≠ 0 ∧ step.natAbs < 2^l.k / 2 ∧
        g = 3 ^ (if step < 0 then 2^l.k / 2 - step.natAbs else step.natAbs) % (2 * 2^l.k))) ∧
    ∃ ct', applyGalois kl l .ckks ct g key = .ok ct' ∧ ct'.ntt = true ∧ ct'.polys.size = 2 ∧
      (∀ k, k < 2 → (ct'.polys.getD k #[]).size = l.size ∧ c04t_Canon kl l.size (ct'.polys.getD k #[])) ∧
      ∀ j, j < l.size → ∀ c, c < kl.n →
        c05u_phase2 kl.n (c04k_polyI (kl.tb j) true ((ct'.polys.getD 0 #[]).getD j #[]))
            (c04k_polyI (kl.tb j) true ((ct'.polys.getD 1 #[]).getD j #[])) s c
          ≡ c04k_sigma kl.n g (c05u_phase2 kl.n (c04k_polyI (kl.tb j) true ((ct.polys.getD 0 #[]).getD j #[]))
              (c04k_polyI (kl.tb j) true ((ct.polys.getD 1 #[]).getD j #[])) s) c
            + c04k_nuStd kl l.size true (c04k_galRns l true g (ct.polys.getD 1 #[])) key e s c
              [ZMOD ((kl.m j).value : Int)] := by
  have helt := c04r_ckks_elt hstep hk1
  refine ⟨helt, ?_⟩
  have hpos := Nat.two_pow_pos l.k
  have hg : g % 2 = 1 ∧ g < 2 * 2^l.k := by
    rcases helt with ⟨_, rfl⟩ | ⟨_, _, rfl⟩
    · omega
    · exact ⟨c04r_odd_of_mod (M := 2 * 2^l.k) (by omega) (c11n_three_pow_odd _) (Nat.mod_mod _ _), Nat.mod_lt _ (by omega)⟩
  obtain ⟨ct', a1, a2, a3, a4, a5, a6⟩ := applyGalois_phase_sigma hlo (scheme := .ckks) h (Or.inr ⟨rfl, hntt⟩) h2 hg.1
    (by rw [hl.npow]; omega) hkcc hke hs'
  rw [hntt] at a2 a6
  exact ⟨ct', a1, a2, a4, a5, a6⟩

/-! ## composition: σ_h ∘ σ_g = σ_{gh}, and the NAF plan of `rotate_internal` -/

section comp
variable {R : Type} [CommRing R]

theorem c04r_chi_comp {n h : Nat} (hn : 0 < n) (hh : h % 2 = 1) (t c : Nat) :
    ∑ j ∈ range n, (c04k_chi n t j : R) * c04k_chi n (j * h) c = c04k_chi n (t * h) c := by
  have e1 : ∑ j ∈ range n, (c04k_chi n t j : R) * c04k_chi n (j * h) c
      = ∑ j ∈ range n, (fun j => (c04k_chi n (j * h) c : R)) j * c04k_chi n t j := by
    apply Finset.sum_congr rfl; intro j _; ring
  rw [e1, c04k_chi_single hn t]
  have e2 : t * h = (t % n) * h + n * ((t / n) * h) := by
    conv_lhs => rw [← Nat.mod_add_div t n]
    ring
  rw [e2, c04k_chi_add hn, pow_mul', Odd.neg_one_pow (Nat.odd_iff.mpr hh)]
  ring

/-- σ_h ∘ σ_g = σ_{g·h} -/
theorem c04r_sigma_comp {n g h : Nat} (hn : 0 < n) (hh : h % 2 = 1) (a : Nat → R) (c : Nat) :
    c04k_sigma n h (c04k_sigma n g a) c = c04k_sigma n (g * h) a c := by
  unfold c04k_sigma
  have e1 : ∀ j ∈ range n, (c04k_chi n (j * h) c : R) * ∑ i ∈ range n, c04k_chi n (i * g) j * a i
      = ∑ i ∈ range n, (c04k_chi n (i * g) j * c04k_chi n (j * h) c) * a i := by
    intro j _
    rw [Finset.mul_sum]
    apply Finset.sum_congr rfl; intro i _; ring
  rw [Finset.sum_congr rfl e1, Finset.sum_comm]
  apply Finset.sum_congr rfl
  intro i _
  rw [← Finset.sum_mul, c04r_chi_comp hn hh, Nat.mul_assoc]

/-- σ_g depends only on g modulo 2n -/
theorem c04r_sigma_mod {n : Nat} (hn : 0 < n) (g : Nat) (a : Nat → R) (c : Nat) :
    c04k_sigma n (g % (2 * n)) a c = c04k_sigma n g a c := by
  unfold c04k_sigma
  apply Finset.sum_congr rfl
  intro i _
  congr 1
  have e : i * g = i * (g % (2 * n)) + n * (2 * (i * (g / (2 * n)))) := by
    conv_lhs => rw [← Nat.mod_add_div g (2 * n)]
    ring
  rw [e, c04k_chi_add hn, pow_mul]
  norm_num

end comp

/-! ### `rotatePlan`: the NAF composition multiplies up to 3^steps -/

/-- the exponent of 3 for a signed step: steps mod N/2 -/
def c04r_stepExp (k : Nat) (d : Int) : Nat := (d % ((2^k / 2 : Nat) : Int)).toNat

theorem c04r_row_pos {k : Nat} (hk : 2 ≤ k) : 0 < 2^k / 2 := by
  have : 2^2 ≤ 2^k := Nat.pow_le_pow_right (by norm_num) hk
  omega

theorem c04r_three_pow_mod {k : Nat} (hk : 2 ≤ k) (x : Nat) :
    (3 : ZMod (2 * 2^k))^(x % (2^k / 2)) = 3^x := by
  conv_rhs => rw [← Nat.mod_add_div x (2^k / 2), pow_add, pow_mul, c11n_three_pow_row_z hk, one_pow, mul_one]

theorem c04r_stepExp_cast {k : Nat} (hk : 2 ≤ k) (d : Int) :
    ((c04r_stepExp k d : Nat) : Int) = d % ((2^k / 2 : Nat) : Int) := by
  unfold c04r_stepExp
  have := c04r_row_pos hk
  exact Int.toNat_of_nonneg (Int.emod_nonneg _ (by omega))

theorem c04r_stepExp_add {k : Nat} (hk : 2 ≤ k) (a b : Int) :
    c04r_stepExp k (a + b) = (c04r_stepExp k a + c04r_stepExp k b) % (2^k / 2) := by
  have h := c04r_row_pos hk
  apply Int.ofNat.inj
  show ((c04r_stepExp k (a + b) : Nat) : Int) = (((c04r_stepExp k a + c04r_stepExp k b) % (2^k / 2) : Nat) : Int)
  rw [Int.natCast_mod, Nat.cast_add, c04r_stepExp_cast hk, c04r_stepExp_cast hk, c04r_stepExp_cast hk, ← Int.add_emod]

theorem c04r_f_add {k : Nat} (hk : 2 ≤ k) (a b : Int) :
    (3 : ZMod (2 * 2^k))^(c04r_stepExp k (a + b)) = 3^(c04r_stepExp k a) * 3^(c04r_stepExp k b) := by
  rw [c04r_stepExp_add hk, c04r_three_pow_mod hk, pow_add]

theorem c04r_f_half {k : Nat} (hk : 2 ≤ k) {d : Int} (hd : d.natAbs = 2^k / 2) :
    (3 : ZMod (2 * 2^k))^(c04r_stepExp k d) = 1 := by
  have : c04r_stepExp k d = 0 := by
    unfold c04r_stepExp
    rw [← hd]
    rcases Int.natAbs_eq d with h | h
    · rw [← h, Int.emod_self]; rfl
    · have : d % ((d.natAbs : Nat) : Int) = 0 := by
        apply Int.emod_eq_zero_of_dvd
        exact ⟨-1, by omega⟩
      rw [this]; rfl
  rw [this, pow_zero]

theorem c04r_elt_cast {k : Nat} (hk : 2 ≤ k) {d : Int} {g : Nat} (he : eltFromStep k d = .ok g) (h0 : d ≠ 0) :
    ((g : Nat) : ZMod (2 * 2^k)) = 3^(c04r_stepExp k d) ∧ g % 2 = 1 ∧ g < 2 * 2^k := by
  have hrow := c04r_row_pos hk
  have hlt : d.natAbs < 2^k / 2 := by
    by_contra hc
    rw [eltFromStep_refuses' (Nat.le_of_not_lt hc) (Or.inl h0)] at he
    cases he
  rw [eltFromStep_spec hlt h0] at he
  injection he with he
  have hs : c04r_stepExp k d = if d < 0 then 2^k / 2 - d.natAbs else d.natAbs := by
    unfold c04r_stepExp
    split
    · have e : d = ((2^k / 2 - d.natAbs : Nat) : Int) + (-1) * ((2^k / 2 : Nat) : Int) := by omega
      rw [e, Int.add_mul_emod_self_right, ← Int.natCast_mod, Int.toNat_natCast, Nat.mod_eq_of_lt (by omega), ← e]
    · have e : d = ((d.natAbs : Nat) : Int) := by omega
      rw [e, ← Int.natCast_mod, Int.toNat_natCast, Nat.mod_eq_of_lt (by simpa using hlt), ← e]
  have hpos := Nat.two_pow_pos k
  refine ⟨by rw [← he, ZMod.natCast_mod, hs]; push_cast; rfl, ?_, by rw [← he]; exact Nat.mod_lt _ (by omega)⟩
  exact c04r_odd_of_mod (M := 2 * 2^k) (by omega) (c11n_three_pow_odd _) (by rw [← he, Nat.mod_mod])

/-- what is claimed of a plan for the signed step `d` -/
def c04r_PlanOK (k : Nat) (keys : List Nat) (d : Int) (plan : List Nat) : Prop :=
  (∀ g ∈ plan, g ∈ keys ∧ g % 2 = 1 ∧ g < 2 * 2^k) ∧ ((plan.prod : Nat) : ZMod (2 * 2^k)) = 3^(c04r_stepExp k d)

theorem c04r_rotatePlan_succ (k : Nat) (keys : List Nat) (fuel : Nat) (steps : Int) :
    rotatePlan k keys (fuel + 1) steps =
      (if steps = 0 then pure [] else do
        let e ← eltFromStep k steps
        if keys.contains e then pure [e] else do
        let ds ← naf steps
        if ds.length = 1 then .error .refused else
        ds.foldlM (fun acc d => do
          if d.natAbs = 2^k / 2 then pure acc else do
            let r ← rotatePlan k keys fuel d
            pure (acc ++ r)) []) := rfl

theorem c04r_plan_fold {k : Nat} (hk : 2 ≤ k) (keys : List Nat) (fuel : Nat)
    (ih : ∀ d plan, rotatePlan k keys fuel d = .ok plan → c04r_PlanOK k keys d plan) :
    ∀ (ds : List Int) (acc plan : List Nat),
      ds.foldlM (fun acc d => do
          if d.natAbs = 2^k / 2 then pure acc else do
            let r ← rotatePlan k keys fuel d
            pure (acc ++ r)) acc = .ok plan →
      ∃ rest, plan = acc ++ rest ∧ c04r_PlanOK k keys ds.sum rest := by
  intro ds
  induction ds with
  | nil =>
    intro acc plan h
    simp only [List.foldlM_nil, pure, Except.pure] at h
    injection h with h
    refine ⟨[], by rw [← h]; simp, by simp, ?_⟩
    have : c04r_stepExp k 0 = 0 := by unfold c04r_stepExp; simp
    simp [this]
  | cons d ds ihd =>
    intro acc plan h
    rw [List.foldlM_cons] at h
    by_cases hd : d.natAbs = 2^k / 2
    · rw [if_pos hd] at h
      simp only [pure, Except.pure, bind, Except.bind] at h
      obtain ⟨rest, r1, r2, r3⟩ := ihd acc plan h
      refine ⟨rest, r1, r2, ?_⟩
      rw [List.sum_cons, c04r_f_add hk, c04r_f_half hk hd, one_mul]
      exact r3
    · rw [if_neg hd] at h
      cases hr : rotatePlan k keys fuel d with
      | error e => rw [hr] at h; simp only [bind, Except.bind] at h; cases h
      | ok r =>
        rw [hr] at h
        simp only [pure, Except.pure, bind, Except.bind] at h
        obtain ⟨rest, r1, r2, r3⟩ := ihd (acc ++ r) plan h
        obtain ⟨q1, q2⟩ := ih d r hr
        refine ⟨r ++ rest, by rw [r1, List.append_assoc], ?_, ?_⟩
        · intro g hg
          rcases List.mem_append.mp hg with hg | hg
          · exact q1 g hg
          · exact r2 g hg
        · rw [List.prod_append, Nat.cast_mul, q2, r3, List.sum_cons, c04r_f_add hk]

/-- `rotatePlan`: every element of the plan has a key, is an odd Galois element below 2N, and the product of the plan is
    3^(steps mod N/2) modulo 2N — the composition of the plan's automorphisms is the rotation by `steps` -/
theorem c04r_rotatePlan_ok {k : Nat} (hk : 2 ≤ k) (keys : List Nat) :
    ∀ (fuel : Nat) (steps : Int) (plan : List Nat), rotatePlan k keys fuel steps = .ok plan → c04r_PlanOK k keys steps plan := by
  intro fuel
  induction fuel with
  | zero => intro steps plan h; cases h
  | succ fuel ih =>
    intro steps plan h
    rw [c04r_rotatePlan_succ] at h
    by_cases h0 : steps = 0
    · rw [if_pos h0] at h
      injection h with h
      subst h0
      have : c04r_stepExp k 0 = 0 := by unfold c04r_stepExp; simp
      refine ⟨by rw [← h]; simp, by rw [← h, this]; simp⟩
    · rw [if_neg h0] at h
      cases he : eltFromStep k steps with
      | error e => rw [he] at h; cases h
      | ok g =>
        rw [he] at h
        simp only [bind, Except.bind] at h
        obtain ⟨g1, g2, g3⟩ := c04r_elt_cast hk he h0
        by_cases hc : keys.contains g = true
        · rw [if_pos hc] at h
          injection h with h
          rw [← h]
          refine ⟨fun x hx => ?_, by simpa using g1⟩
          rw [List.mem_singleton] at hx
          subst hx
          exact ⟨by simpa using hc, g2, g3⟩
        · rw [if_neg hc] at h
          cases hn : naf steps with
          | error e => rw [hn] at h; cases h
          | ok ds =>
            rw [hn] at h
            simp only at h
            by_cases hl : ds.length = 1
            · rw [if_pos hl] at h; cases h
            · rw [if_neg hl] at h
              obtain ⟨rest, r1, r2⟩ := c04r_plan_fold hk keys fuel ih ds [] plan h
              have hv : -(2^31 : Int) < steps ∧ steps < 2^31 := by
                unfold naf at hn
                split at hn
                · cases hn
                · omega
              obtain ⟨ds', hds', hsum, _⟩ := naf_spec hv
              rw [hn] at hds'
              injection hds' with hds'
              rw [r1, List.nil_append, ← hsum, ← hds']
              exact r2


/-! ## R3, composed: a chain of `applyGalois` steps (the plan of `rotate_internal`) -/

/-- the successive key-backed rotations of a plan: every step is an `applyGalois` with the key of its element -/
def c04r_applyChain (kl : KeyLevel) (l : Level) (scheme : Scheme) (keyOf : Nat → KSKey) : List Nat → Ct → R Ct
  | [], ct => pure ct
  | g :: gs, ct => do
    let ct' ← applyGalois kl l scheme ct g (keyOf g)
    c04r_applyChain kl l scheme keyOf gs ct'

/-- the ciphertext-independent part of `c04t_KSInput` concerning the key level -/
structure c04r_KLOK (kl : KeyLevel) (l : Level) : Prop where
  hkl : kl.WF
  hsz : 2 ≤ kl.ms.size
  hd : l.size + 1 ≤ kl.ms.size
  hov : ∀ i, i ≤ l.size →
    l.size * (4 * (kl.m (c04t_keyIndex kl l.size i)).value * (kl.m (c04t_keyIndex kl l.size i)).value) < 2^128
  hinv : c04t_InvP kl l.size

/-- a Galois key for the element g under the secret `sk`: the key part of `c04t_KSInput` and the key equation with s' = σ_g(s) -/
structure c04r_GalKey (kl : KeyLevel) (l : Level) (sk : Array Int) (g : Nat) (key : KSKey) (e : Nat → Nat → Int)
    (G : Nat → Int) : Prop where
  hks : l.size ≤ key.size
  hkcc : (key.getD 0 #[]).size = 2
  hkey : ∀ i, i ≤ l.size → c04t_KeyCanonAt kl l.size (key.getD 0 #[]).size key (c04t_keyIndex kl l.size i)
  hke : c04k_KeyEq kl l.size key (fun p => sk.getD p 0) (c04k_sigma kl.n g (fun p => sk.getD p 0)) e G

theorem c04r_canon_to {kl : KeyLevel} {l : Level} (hlo : c04k_LevelOf kl l) {p : RnsPoly} (hc : RnsCanon l p) :
    c04t_Canon kl l.size p := by
  intro j hj
  obtain ⟨c1, c2⟩ := hc.2 j hj
  rw [hlo.n] at c1 c2
  rw [hlo.q j hj] at c2
  exact ⟨c1, c2⟩

theorem c04r_ksinput {kl : KeyLevel} {l : Level} (hlo : c04k_LevelOf kl l) (hK : c04r_KLOK kl l) {sk : Array Int} {g : Nat}
    {key : KSKey} {e : Nat → Nat → Int} {G : Nat → Int} (hG : c04r_GalKey kl l sk g key e G)
    {polys : Array RnsPoly} (isNtt : Bool) (cf : Nat) (hc : ∀ k, k < 2 → RnsCanon l (polys.getD k #[])) :
    c04t_KSInput kl l.size ⟨polys, isNtt, cf⟩ (polys.getD 1 #[]) key :=
  ⟨hK.hkl, hK.hsz, hK.hd, hG.hks, c04r_canon_to hlo (hc 1 (by omega)), hG.hkey, hK.hov,
    fun k hk => c04r_canon_to hlo (hc k (by rw [hG.hkcc] at hk; exact hk)), hK.hinv⟩

theorem c04r_sigma_one {R : Type} [CommRing R] {n : Nat} (a : Nat → R) {c : Nat} (hc : c < n) : c04k_sigma n 1 a c = a c := by
  unfold c04k_sigma
  rw [Finset.sum_eq_single c]
  · unfold c04k_chi
    rw [Nat.mul_one, Nat.mod_eq_of_lt hc, if_pos rfl, Nat.div_eq_of_lt hc, pow_zero, one_mul]
  · intro j hj hne
    have := mem_range.mp hj
    unfold c04k_chi
    rw [Nat.mul_one, Nat.mod_eq_of_lt this, if_neg hne, zero_mul]
  · intro h; exact absurd (mem_range.mpr hc) h

theorem c04r_prod_odd (gs : List Nat) (h : ∀ g ∈ gs, g % 2 = 1) : gs.prod % 2 = 1 := by
  induction gs with
  | nil => rfl
  | cons g gs ih =>
    rw [List.prod_cons, Nat.mul_mod, h g (List.mem_cons_self ..), ih (fun x hx => h x (List.mem_cons_of_mem _ hx))]

/-- per-step key-switching noise from the explicit bound of `switchKey_noise_bound`: ‖ν‖∞ ≤ ⌊W/P⌋,
    W = dsz·A·n·Be + ⌊P/2⌋·(1 + ‖s‖₁) -/
theorem c04r_step_noise {kl : KeyLevel} {l : Level} (hlo : c04k_LevelOf kl l) (hK : c04r_KLOK kl l) {sk : Array Int} {g : Nat}
    (hg : g % 2 = 1) {key : KSKey} {e : Nat → Nat → Int} {G : Nat → Int} (hG : c04r_GalKey kl l sk g key e G)
    {polys : Array RnsPoly} (cf : Nat) (hc : ∀ k, k < 2 → RnsCanon l (polys.getD k #[])) {A Be : Nat}
    (hA : ∀ i, i < l.size → (kl.m i).value ≤ A) (he : ∀ i, i < l.size → ∀ p, p < kl.n → (e i p).natAbs ≤ Be) :
    ∀ c, c < kl.n →
      (c04k_nuStd kl l.size false (c04k_galRns l false g (polys.getD 1 #[])) key e (fun p => sk.getD p 0) c).natAbs
        ≤ (l.size * (A * (kl.n * Be)) + kl.c04t_P / 2 * (1 + ∑ p ∈ range kl.n, (sk.getD p 0).natAbs)) / kl.c04t_P := by
  intro c hc'
  have hin := c04k_galois_input hlo (c04r_ksinput hlo hK hG false cf hc) hG.hkcc hg
  have hb := switchKey_noise_bound hin hG.hke hA he c hc'
  have hP : 0 < kl.c04t_P := by
    have hsz := hK.hsz
    obtain ⟨_, _, _, hmw⟩ := c04t_kl_comp hK.hkl (show kl.ms.size - 1 < kl.ms.size by omega)
    have := hmw.two_le
    unfold KeyLevel.c04t_P; omega
  exact (Nat.le_div_iff_mul_le hP).mpr hb

/-- R3 composed (BFV): a chain of `applyGalois` steps with Galois keys for the elements of `gs` decrypts to σ_{Π gs}(m) mod t,
    provided the accumulated noise E + |gs|·t·V keeps the decode condition (noises add) -/
theorem c04r_chain_bfv {kl : KeyLevel} {l : Level} (hl : l.WF) (hd : DecOK l) (hlo : c04k_LevelOf kl l) (hK : c04r_KLOK kl l)
    {sk : Array Int} (hsk : sk.size = l.n) (keyOf : Nat → KSKey) (eOf : Nat → Nat → Nat → Int) (GOf : Nat → Nat → Int)
    {A Be V : Nat} (hA : ∀ i, i < l.size → (kl.m i).value ≤ A)
    (hV : (l.size * (A * (kl.n * Be)) + kl.c04t_P / 2 * (1 + ∑ p ∈ range kl.n, (sk.getD p 0).natAbs)) / kl.c04t_P ≤ V) :
    ∀ (gs : List Nat) (polys : Array RnsPoly) (cf E : Nat), polys.size = 2 → (∀ k, k < 2 → RnsCanon l (polys.getD k #[])) →
      (∀ g ∈ gs, g % 2 = 1 ∧ g ≤ 2 * l.n ∧ c04r_GalKey kl l sk g (keyOf g) (eOf g) (GOf g) ∧
        ∀ i, i < l.size → ∀ p, p < kl.n → (eOf g i p).natAbs ≤ Be) →
      (∀ c, c < l.n → (c04r_bfvNoise l.t.value (Spec.prodL (c01p_qvals l))
        ((Spec.phase (c01p_qvals l) l.n sk polys.toList).getD c 0)).natAbs ≤ E) →
      2 * l.tool.gamma.value * (E + gs.length * (l.t.value * V)) + 2 * l.size * Spec.prodL (c01p_qvals l)
        ≤ Spec.prodL (c01p_qvals l) * l.tool.gamma.value →
      ∃ ct' m m', c04r_applyChain kl l .bfv keyOf gs ⟨polys, false, cf⟩ = .ok ct' ∧
        bfvDecrypt l sk ⟨polys, false, cf⟩ = .ok m ∧ bfvDecrypt l sk ct' = .ok m' ∧
        (∀ c, c < l.n → m.getD c 0 < l.t.value) ∧
        ∀ c, c < l.n → m'.getD c 0 = Spec.imod (c04k_sigma l.n gs.prod (fun i => ((m.getD i 0 : Nat) : Int)) c) l.t.value := by
  intro gs
  induction gs with
  | nil =>
    intro polys cf E h2 hc _ hE hm
    have hq := c04r_levelQ_of_decOK hd
    have hn0 := c01q_n_pos hl
    have ht : 0 < l.t.value := by have := hd.tool.twf.two_le; rw [hd.t_eq] at this; omega
    have hm0 : 2 * l.tool.gamma.value * E + 2 * l.size * Spec.prodL (c01p_qvals l)
        ≤ Spec.prodL (c01p_qvals l) * l.tool.gamma.value := by simpa using hm
    have hb0 : BehzDecryptOK l (Spec.phase (c01p_qvals l) l.n sk polys.toList) := c04r_behz_of_bound hE hm0
    have hne : polys.toList ≠ [] := by rw [c04r_toList2 polys h2 #[]]; simp
    have hsz : ∀ p ∈ polys.toList, p.size = l.size := fun p hp =>
      (c01q_polys_mem (polys := polys) (fun k hk => hc k (by omega)) p hp).1
    have hps := (c01q_phase_general hq (sk := sk) hne hsz hn0).1
    have hlt : ∀ c, c < l.n → (Spec.trim (Spec.bfvDecode l.t.value (Spec.prodL (c01p_qvals l))
        (Spec.phase (c01p_qvals l) l.n sk polys.toList))).getD c 0 < l.t.value := by
      intro c hc'
      unfold Spec.trim
      rw [c04r_trim_getD, c01p_bfvDecode_getD _ _ _ (by rw [hps]; exact hc')]
      exact c07l_imod_lt ht _
    refine ⟨_, _, _, rfl, bfvDecrypt_eq_spec hl hd hsk (by omega) (fun k hk => hc k (by omega)) cf hb0,
      bfvDecrypt_eq_spec hl hd hsk (by omega) (fun k hk => hc k (by omega)) cf hb0, hlt, fun c hc' => ?_⟩
    rw [List.prod_nil, c04r_sigma_one _ hc', c04r_imod_natCast, Nat.mod_eq_of_lt (hlt c hc')]
  | cons g gs ih =>
    intro polys cf E h2 hc hgs hE hm
    obtain ⟨g1, g2, g3, g4⟩ := hgs g (List.mem_cons_self ..)
    have hin := c04r_ksinput hlo hK g3 false cf hc
    have hVc : ∀ c, c < l.n →
        (c04k_nuStd kl l.size false (c04k_galRns l false g (polys.getD 1 #[])) (keyOf g) (eOf g) (fun p => sk.getD p 0) c).natAbs
          ≤ V := fun c hc' =>
      le_trans (c04r_step_noise hlo hK g1 g3 cf hc hA g4 c (by rw [← hlo.n]; exact hc')) hV
    have hm1 : 2 * l.tool.gamma.value * (E + l.t.value * V) + 2 * l.size * Spec.prodL (c01p_qvals l)
        ≤ Spec.prodL (c01p_qvals l) * l.tool.gamma.value := by
      have : 2 * l.tool.gamma.value * (E + l.t.value * V)
          ≤ 2 * l.tool.gamma.value * (E + (g :: gs).length * (l.t.value * V)) := by
        apply Nat.mul_le_mul_left
        rw [List.length_cons, Nat.succ_mul]
        omega
      omega
    obtain ⟨ct1, m, m1, b1, b2, b3, b4, b5, b6, b7, b8, b9⟩ := c04r_applyGalois_decrypt_bfv hl hd hlo h2 hc hin g1 g2 g3.hkcc
      hsk g3.hke (fun _ _ => rfl) hE hVc hm1
    obtain ⟨polys1, ntt1, cf1⟩ := ct1
    simp only at b6 b7 b8 b9
    subst b6
    have hm2 : 2 * l.tool.gamma.value * (E + l.t.value * V + gs.length * (l.t.value * V))
        + 2 * l.size * Spec.prodL (c01p_qvals l) ≤ Spec.prodL (c01p_qvals l) * l.tool.gamma.value := by
      have : E + l.t.value * V + gs.length * (l.t.value * V) = E + (g :: gs).length * (l.t.value * V) := by
        rw [List.length_cons, Nat.succ_mul]; omega
      rw [this]; exact hm
    obtain ⟨ct2, m1', m2, d1, d2, d3, d4, d5⟩ := ih polys1 cf1 (E + l.t.value * V) b7 b8
      (fun x hx => hgs x (List.mem_cons_of_mem _ hx)) b9 hm2
    rw [b3] at d2
    injection d2 with d2
    subst d2
    refine ⟨ct2, m, m2, ?_, b2, d3, b4, fun c hc' => ?_⟩
    · show (applyGalois kl l .bfv ⟨polys, false, cf⟩ g (keyOf g) >>= fun ct' => c04r_applyChain kl l .bfv keyOf gs ct') = _
      rw [b1]
      exact d1
    · have ht : 0 < l.t.value := by have := hd.tool.twf.two_le; rw [hd.t_eq] at this; omega
      have hodd : gs.prod % 2 = 1 := c04r_prod_odd gs (fun x hx => (hgs x (List.mem_cons_of_mem _ hx)).1)
      rw [d5 c hc', List.prod_cons, ← c04r_sigma_comp (c01q_n_pos hl) hodd]
      apply c04r_imod_modEq ht
      apply c04r_sigma_modEq
      intro i hi
      rw [b5 i hi]
      exact c04r_imod_cast_modEq ht _

/-- R3 composed with `rotatePlan` (BFV, slot level): if `rotate_internal`'s plan for `steps` exists given the available key
    elements `keys`, all of which carry genuine Galois keys, then executing the plan step by step (`c04r_applyChain`) yields a
    ciphertext decrypting to the plaintext whose slot rows are rotated by `steps` (mod N/2), under the accumulated-noise margin -/
theorem c04r_rotatePlan_bfv {kl : KeyLevel} {l : Level} (hl : l.WF) (hd : DecOK l) (hlo : c04k_LevelOf kl l) (hK : c04r_KLOK kl l)
    {T : NTTTables} (hT : T.WF) (hTk : T.k = l.k) (hTm : T.modulus.value = l.t.value) (hk2 : 2 ≤ l.k)
    {sk : Array Int} (hsk : sk.size = l.n) (keyOf : Nat → KSKey) (eOf : Nat → Nat → Nat → Int) (GOf : Nat → Nat → Int)
    {A Be V : Nat} (hA : ∀ i, i < l.size → (kl.m i).value ≤ A)
    (hV : (l.size * (A * (kl.n * Be)) + kl.c04t_P / 2 * (1 + ∑ p ∈ range kl.n, (sk.getD p 0).natAbs)) / kl.c04t_P ≤ V)
    {keys : List Nat} (hkeys : ∀ g ∈ keys, c04r_GalKey kl l sk g (keyOf g) (eOf g) (GOf g) ∧
      ∀ i, i < l.size → ∀ p, p < kl.n → (eOf g i p).natAbs ≤ Be)
    {fuel : Nat} {steps : Int} {plan : List Nat} (hplan : rotatePlan l.k keys fuel steps = .ok plan)
    {polys : Array RnsPoly} {cf E : Nat} (h2 : polys.size = 2) (hc : ∀ k, k < 2 → RnsCanon l (polys.getD k #[]))
    (hE : ∀ c, c < l.n → (c04r_bfvNoise l.t.value (Spec.prodL (c01p_qvals l))
      ((Spec.phase (c01p_qvals l) l.n sk polys.toList).getD c 0)).natAbs ≤ E)
    (hm : 2 * l.tool.gamma.value * (E + plan.length * (l.t.value * V)) + 2 * l.size * Spec.prodL (c01p_qvals l)
      ≤ Spec.prodL (c01p_qvals l) * l.tool.gamma.value) :
    (∀ g ∈ plan, g ∈ keys) ∧ plan.prod % (2 * 2^l.k) = 3 ^ c04r_stepExp l.k steps % (2 * 2^l.k) ∧
    ∃ ct' m m', c04r_applyChain kl l .bfv keyOf plan ⟨polys, false, cf⟩ = .ok ct' ∧
      bfvDecrypt l sk ⟨polys, false, cf⟩ = .ok m ∧ bfvDecrypt l sk ct' = .ok m' ∧
      ∀ i, i < l.n → (batchDecode T m').getD i 0 =
        (batchDecode T m).getD (c04r_rotIdx l.k (c04r_stepExp l.k steps) i) 0 := by
  obtain ⟨p1, p2⟩ := c04r_rotatePlan_ok hk2 keys fuel steps plan hplan
  have hn := hl.npow
  have hprod : plan.prod % (2 * 2^l.k) = 3 ^ c04r_stepExp l.k steps % (2 * 2^l.k) := by
    rw [← ZMod.natCast_eq_natCast_iff', p2]; push_cast; rfl
  refine ⟨fun g hg => (p1 g hg).1, hprod, ?_⟩
  obtain ⟨ct', m, m', b1, b2, b3, b4, b5⟩ := c04r_chain_bfv hl hd hlo hK hsk keyOf eOf GOf hA hV plan polys cf E h2 hc
    (fun g hg => ⟨(p1 g hg).2.1, by rw [hn]; exact (p1 g hg).2.2.le, (hkeys g (p1 g hg).1).1, (hkeys g (p1 g hg).1).2⟩) hE hm
  refine ⟨ct', m, m', b1, b2, b3, fun i hi => ?_⟩
  have hodd := c04r_prod_odd plan (fun g hg => (p1 g hg).2.1)
  rw [hn, ← hTk] at hi b4 b5
  rw [← hTm] at b4 b5
  rw [← hTk] at hprod hk2 ⊢
  refine c04r_slots_of_coeff hT (by omega) hodd m m' b4 b5 i _ hi (c04r_rotIdx_lt hk2 hi) ?_
  rw [← Nat.mul_mod_mod, hprod, Nat.mul_mod_mod]
  exact slotExp_rotate hk2 hi

/-! ### refusals along the composed rotation -/

theorem c04r_rotatePlan_fuel0 (k : Nat) (keys : List Nat) (steps : Int) : rotatePlan k keys 0 steps = .error .other := rfl

/-- a non-zero step with |step| ≥ N/2 is refused (the refusal of `eltFromStep` propagates) -/
theorem c04r_rotatePlan_refuses_range (k : Nat) (keys : List Nat) (fuel : Nat) {steps : Int} (h0 : steps ≠ 0)
    (hs : 2^k / 2 ≤ steps.natAbs) : rotatePlan k keys (fuel + 1) steps = .error .refused := by
  rw [c04r_rotatePlan_succ, if_neg h0, eltFromStep_refuses' hs (Or.inl h0)]
  rfl

/-- step 0 is the identity plan (no key needed) -/
theorem c04r_rotatePlan_zero (k : Nat) (keys : List Nat) (fuel : Nat) : rotatePlan k keys (fuel + 1) 0 = .ok [] := by
  rw [c04r_rotatePlan_succ, if_pos rfl]; rfl

/-- a failing step makes the chain fail with the same error -/
theorem c04r_applyChain_error {kl : KeyLevel} {l : Level} {scheme : Scheme} {keyOf : Nat → KSKey} {g : Nat} {gs : List Nat}
    {ct : Ct} {err : Err} (h : applyGalois kl l scheme ct g (keyOf g) = .error err) :
    c04r_applyChain kl l scheme keyOf (g :: gs) ct = .error err := by
  show (applyGalois kl l scheme ct g (keyOf g) >>= fun ct' => c04r_applyChain kl l scheme keyOf gs ct') = _
  rw [h]; rfl

/-! ## Property theorems -/

/-- R1, the INDEX / SIGN RULE of σ_g = `c04k_sigma (2^k) g` (g odd): coefficient i goes to index i·g mod N, negated iff ⌊i·g/N⌋ is odd -/
theorem sigma_index_sign_rule : type_of% @c04r_sigma_rule := @c04r_sigma_rule
/-- σ_h ∘ σ_g = σ_{g·h}; σ_g depends only on g mod 2N; ‖σ_g(e)‖∞ ≤ ‖e‖∞ -/
theorem sigma_comp : type_of% @c04r_sigma_comp := @c04r_sigma_comp
theorem sigma_mod : type_of% @c04r_sigma_mod := @c04r_sigma_mod
theorem sigma_natAbs_le : type_of% @c04r_sigma_natAbs_le := @c04r_sigma_natAbs_le

/-- R1 (BFV): for integer phases x, y (arrays of N = 2^k coefficients), any splitting t·x = Q·m + e with 2|e| < Q, and
    y ≡ σ_g(x) + ν (mod Q): if 2|σ_g(e) + t·ν| < Q coefficient-wise then `Spec.bfvDecode t Q y` = σ_g(`Spec.bfvDecode t Q x`) mod t,
    coefficient by coefficient -/
theorem bfvDecode_sigma : type_of% @c04r_bfvDecode_sigma := @c04r_bfvDecode_sigma
/-- … and the measured noise t·y − Q·round(t·y/Q) of the result is exactly σ_g(e) + t·ν -/
theorem bfv_noise_sigma : type_of% @c04r_bfv_noise_sigma := @c04r_bfv_noise_sigma
/-- R1 (BGV): y ≡ σ_g(x) + ν (mod Q), t ∣ ν, y centred, 2|σ_g(x) + ν| < Q ⇒ `Spec.bgvDecode t cf y` = σ_g(`Spec.bgvDecode t cf x`) mod t -/
theorem bgvDecode_sigma : type_of% @c04r_bgvDecode_sigma := @c04r_bgvDecode_sigma

/-- R2: for well-formed batching tables `t` (plain modulus prime, ≡ 1 mod 2N), a full-length canonical plaintext p and odd g, the model's
    `galoisApply` succeeds with a canonical result r and slot i of `batchDecode r` is slot i' of `batchDecode p` whenever
    slotExp(i)·g ≡ slotExp(i') (mod 2N) -/
theorem batchDecode_galois : type_of% @c04r_decode_galois := @c04r_decode_galois
/-- R2, rows: g ≡ 3^s (mod 2N), N ≥ 4 ⇒ both rows of the slot matrix rotate LEFT by s (`c04r_rotIdx`) -/
theorem batchDecode_rotate_rows : type_of% @c04r_decode_rotate := @c04r_decode_rotate
/-- R2, columns: g ≡ 2N − 1 (mod 2N), N ≥ 2 ⇒ the two rows are exchanged (`c04r_swapIdx`) -/
theorem batchDecode_swap_rows : type_of% @c04r_decode_swap := @c04r_decode_swap
/-- R2 for the element returned by the model's `eltFromStep` (signed steps; step 0 = columns) -/
theorem batchDecode_eltFromStep : type_of% @c04r_decode_eltFromStep := @c04r_decode_eltFromStep
theorem eltFromStep_slot : type_of% @c04r_elt_slot := @c04r_elt_slot

/-- R3: exact phase (`Spec.phase`) of the `applyGalois` result ≡ σ_g(exact input phase) + ν modulo Q (BFV coefficient form / BGV NTT form) -/
theorem applyGalois_spec_phase_bfv : type_of% @c04r_applyGalois_spec_bfv := @c04r_applyGalois_spec_bfv
theorem applyGalois_spec_phase_bgv : type_of% @c04r_applyGalois_spec_bgv := @c04r_applyGalois_spec_bgv
/-- R3, coefficient level: the model's decryption of the `applyGalois` result is σ_g(m) mod t, m the model's decryption of the input;
    hypotheses: `Level.WF`, `DecOK`, `c04k_LevelOf`, `c04t_KSInput`, key equation `c04k_KeyEq` with s' = σ_g(s), input noise ≤ E, key-switch noise
    ≤ V, and the BEHZ decode margin for E + t·V (BFV) resp. no wrap-around 2(X + V) < Q and t ∣ e_i (BGV).  Also returns the
    noise bound E + t·V of the result (noises add) -/
theorem applyGalois_decrypt_bfv : type_of% @c04r_applyGalois_decrypt_bfv := @c04r_applyGalois_decrypt_bfv
theorem applyGalois_decrypt_bgv : type_of% @c04r_applyGalois_decrypt_bgv := @c04r_applyGalois_decrypt_bgv
/-- R3, slot level: with g = `eltFromStep step`, the result decrypts to the plaintext whose slots are the input's rotated by `step`
    (rows) / swapped (step 0) -/
theorem rotate_rows_bfv : type_of% @c04r_rotate_bfv := @c04r_rotate_bfv
theorem rotate_rows_bgv : type_of% @c04r_rotate_bgv := @c04r_rotate_bgv
/-- the key-switching noise of one step from the explicit bound of `switchKey_noise_bound` -/
theorem rotate_step_noise : type_of% @c04r_step_noise := @c04r_step_noise

/-- R3 composed: `rotatePlan` — every element of the plan is in `keys`, odd, < 2N, and the product of the plan is 3^(steps mod N/2) mod 2N -/
theorem rotatePlan_ok : type_of% @c04r_rotatePlan_ok := @c04r_rotatePlan_ok
/-- a chain of `applyGalois` steps decrypts to σ_{Π gs}(m) mod t under the accumulated margin E + |gs|·t·V -/
theorem rotate_chain_bfv : type_of% @c04r_chain_bfv := @c04r_chain_bfv
/-- executing `rotatePlan`'s plan rotates the slot rows by `steps` -/
theorem rotatePlan_rotate_bfv : type_of% @c04r_rotatePlan_bfv := @c04r_rotatePlan_bfv
theorem rotatePlan_fuel0 : type_of% @c04r_rotatePlan_fuel0 := @c04r_rotatePlan_fuel0
theorem rotatePlan_refuses_range : type_of% @c04r_rotatePlan_refuses_range := @c04r_rotatePlan_refuses_range
theorem rotatePlan_zero : type_of% @c04r_rotatePlan_zero := @c04r_rotatePlan_zero
theorem applyChain_error : type_of% @c04r_applyChain_error := @c04r_applyChain_error

/-- R4 (CKKS): `rotate_vector(step)` = σ_{3^s}, conjugation = σ_{2N−1}, on the exact phase modulo every level modulus -/
theorem ckks_rotate_phase : type_of% @c04r_ckks_rotate := @c04r_ckks_rotate

end HC
