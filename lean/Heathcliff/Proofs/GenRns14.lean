import Heathcliff.Proofs.GenRns13
import Heathcliff.Proofs.GenRns11

/-!
  Phase 4k, END TO END for `RNSTool::fastbconv_m_tilde`: composition of `gr_fastbconv_m_tilde_eq` with the CRT theorem of the fast conversion
  (`RNSH.crt_sum` through `gr_fcaD_crt2`): all `|Bsk| + 1` output components are residues of ONE integer `[m̃·X]_Q + α·Q`, `α < |q|`.
-/
namespace HC
open HC.GenW HC.GenR

/-- **END TO END (BEHZ `FastBConv_m̃`)**: for a polynomial holding residues of integers `X j < Q`, the function generated from the Rust source of
    `RNSTool::fastbconv_m_tilde` writes, for every coefficient `j`, at position `o·n + j` (`o < |Bsk|`) the value `([m̃·X_j]_Q + α_j·Q) mod b_o` and at
    position `|Bsk|·n + j` the value `([m̃·X_j]_Q + α_j·Q) mod m̃`, with ONE `α_j < |q|` for all `|Bsk| + 1` output moduli -/
theorem gr_fastbconv_m_tilde_crt (r : RNSTool) (p d : RnsPoly) (X : Nat → Nat) {bMt : RNSBase}
    (hQ : r.baseQ.WF) (hBsk : r.baseBsk.WF) (hMt : bMt.WF) (hMt1 : bMt.size = 1) (hMt0 : bMt.q 0 = r.mTilde)
    (hc1 : BaseConverter.new r.baseQ r.baseBsk = .ok r.qToBsk) (hc2 : BaseConverter.new r.baseQ bMt = .ok r.qToMt)
    (hp1 : p.size = r.baseQ.size) (hp2 : ∀ i, i < r.baseQ.size → (p.getD i #[]).size = r.n)
    (hd1 : d.size = r.baseBsk.size + 1) (hd2 : ∀ i, i < r.baseBsk.size + 1 → (d.getD i #[]).size = r.n)
    (hsn : r.baseQ.size * r.n < 2^64) (hbn : (r.baseBsk.size + 1) * r.n < 2^64) (hmtw : r.mTilde.value < 2^64)
    (hX : ∀ j, j < r.n → X j < r.baseQ.prod ∧ ∀ i, i < r.baseQ.size → (p.getD i #[]).getD j 0 < 2^64 ∧
      X j % (r.baseQ.q i).value = (p.getD i #[]).getD j 0 % (r.baseQ.q i).value) :
    ∃ out, GenR.fastbconv_m_tilde (flatP p) (flatP d) r.baseQ.size r.baseBsk.size r.n r.mTilde r.baseQ.base.toList (gr_convF r.qToBsk) (gr_convF r.qToMt)
        = .ok out ∧
      ∀ j, j < r.n → ∃ alpha, alpha < r.baseQ.size ∧
        (∀ o, o < r.baseBsk.size → out.getD (o * r.n + j) 0 = ((r.mTilde.value * X j) % r.baseQ.prod + alpha * r.baseQ.prod) % (r.baseBsk.q o).value) ∧
        out.getD (r.baseBsk.size * r.n + j) 0 = ((r.mTilde.value * X j) % r.baseQ.prod + alpha * r.baseQ.prod) % r.mTilde.value := by
  have hco1 := gr_convOK_new hQ hBsk hc1
  have hco2 := gr_convOK_new hQ hMt hc2
  rw [hMt1] at hco2
  obtain ⟨ei1, eo1, hM1⟩ := gr_matOK_new hQ hBsk hc1
  obtain ⟨ei2, eo2, hM2⟩ := gr_matOK_new hQ hMt hc2
  have hs64 : r.baseBsk.size + 1 < 2^64 := by have := hBsk.le64; omega
  have hQpos := hQ.prod_pos
  rw [gr_fastbconv_m_tilde_eq r p d hco1 hco2 hp1 hp2 hd1 hd2 hsn hbn hs64, gr_mt_model]
  -- the scaled input
  have hT : (List.range' 0 r.baseQ.size).mapM (fun i => (p.getD i #[]).toList.mapM (fun x => mulMod x r.mTilde.value (r.baseQ.q i)))
      = .ok ((List.range' 0 r.baseQ.size).map (fun i => (p.getD i #[]).toList.map (fun x => (x * r.mTilde.value) % (r.baseQ.q i).value))) := by
    apply gr_mapM_ok
    intro i hi'
    rw [List.mem_range'_1] at hi'
    apply gr_mapM_ok
    intro x hx
    have hxw : x < 2^64 := by
      obtain ⟨j, hj, rfl⟩ := List.getElem_of_mem hx
      rw [Array.length_toList, hp2 i (by omega)] at hj
      have := ((hX j hj).2 i (by omega)).1
      rwa [gr_arr_getD, gr_getD_of_lt _ _ (by rw [Array.length_toList, hp2 i (by omega)]; exact hj)] at this
    exact mulMod_exact (hQ.mwf i (by omega)) hxw hmtw
  rw [hT, gr_ok_bind]
  generalize hTA : ((((List.range' 0 r.baseQ.size).map (fun i => (p.getD i #[]).toList.map (fun x => (x * r.mTilde.value) % (r.baseQ.q i).value))).map List.toArray).toArray : RnsPoly) = TA
  have hTAs : TA.size = r.baseQ.size := by rw [← hTA]; simp
  have hTAg : ∀ i, i < r.baseQ.size → TA.getD i #[] = ((p.getD i #[]).toList.map (fun x => (x * r.mTilde.value) % (r.baseQ.q i).value)).toArray := by
    intro i hi'
    rw [← hTA]
    simp [Array.getD, hi']
  have hTAv : ∀ i j, i < r.baseQ.size → j < r.n → (TA.getD i #[]).getD j 0 = ((p.getD i #[]).getD j 0 * r.mTilde.value) % (r.baseQ.q i).value := by
    intro i j hi' hj
    rw [hTAg i hi', gr_arr_getD, List.toList_toArray, gr_getD_map_lt _ _ _ (by rw [Array.length_toList, hp2 i hi']; exact hj), ← gr_arr_getD]
  have hTAw : ∀ i j, i < r.baseQ.size → j < r.n → (TA.getD i #[]).getD j 0 < 2^64 := by
    intro i j hi' hj
    rw [hTAv i j hi' hj]
    have := Nat.mod_lt ((p.getD i #[]).getD j 0 * r.mTilde.value) (show 0 < (r.baseQ.q i).value by have := (hQ.mwf i hi').two_le; omega)
    have := (hQ.mwf i hi').lt
    omega
  have hmodel1 := gr_fca_model r.qToBsk (ei1 ▸ hQ) (eo1 ▸ hBsk) hM1 TA r.n (by rw [hTAs, ei1]) (fun i j hi' hj => hTAw i j (by rw [ei1] at hi'; exact hi') hj)
  have hmodel2 := gr_fca_model r.qToMt (ei2 ▸ hQ) (eo2 ▸ hMt) hM2 TA r.n (by rw [hTAs, ei2]) (fun i j hi' hj => hTAw i j (by rw [ei2] at hi'; exact hi') hj)
  have hAv : ∀ o j, o < r.baseBsk.size → j < r.n →
      ((((List.range r.qToBsk.obase.size).map (fun o => ((List.range r.n).map (fun j => gr_fcaD r.qToBsk TA o j)).toArray)).toArray : RnsPoly).getD o #[]).getD j 0
        = gr_fcaD r.qToBsk TA o j := by
    intro o j ho hj
    rw [getD_rangeMap' _ _ _ (by rw [eo1]; exact ho), getD_rangeMap _ _ hj]
  have hBv : ∀ j, j < r.n →
      ((((List.range r.qToMt.obase.size).map (fun o => ((List.range r.n).map (fun j => gr_fcaD r.qToMt TA o j)).toArray)).toArray : RnsPoly).getD 0 #[]).getD j 0
        = gr_fcaD r.qToMt TA 0 j := by
    intro j hj
    rw [getD_rangeMap' _ _ _ (by rw [eo2, hMt1]; omega), getD_rangeMap _ _ hj]
  obtain ⟨hA1, hA2⟩ := gr_fca_model_shape r.qToBsk TA r.n
  obtain ⟨hB1, hB2⟩ := gr_fca_model_shape r.qToMt TA r.n
  generalize hAdef : (((List.range r.qToBsk.obase.size).map (fun o => ((List.range r.n).map (fun j => gr_fcaD r.qToBsk TA o j)).toArray)).toArray : RnsPoly) = A at hmodel1 hAv hA1 hA2
  generalize hBdef : (((List.range r.qToMt.obase.size).map (fun o => ((List.range r.n).map (fun j => gr_fcaD r.qToMt TA o j)).toArray)).toArray : RnsPoly) = B at hmodel2 hBv hB1 hB2
  have hBs : B.size = 1 := by rw [hB1, eo2, hMt1]
  have hBn : (B.getD 0 #[]).size = r.n := hB2 0 (by rw [eo2, hMt1]; omega)
  obtain ⟨hvs, hvn⟩ := gr_shape_cs' (show A.size = r.baseBsk.size by rw [hA1, eo1]) (fun i hi' => hA2 i (by rw [eo1]; exact hi'))
  rw [hmodel1, gr_ok_bind, hmodel2, gr_ok_bind]
  refine ⟨flatP (A ++ B), rfl, fun j hj => ?_⟩
  have hxl : (r.mTilde.value * X j) % r.baseQ.prod < r.qToBsk.ibase.prod := by rw [ei1]; exact Nat.mod_lt _ hQpos
  obtain ⟨alpha, ha, h1, h2⟩ := gr_fcaD_crt2 r.qToBsk r.qToMt (ei1 ▸ hQ) (by rw [ei1, ei2]) TA j hxl (by
    intro i hi'
    rw [ei1] at hi' ⊢
    rw [hTAv i j hi' hj, Nat.mod_mod, Nat.mod_mod_of_dvd _ (hQ.q_dvd_prod hi'), Nat.mul_comm, Nat.mul_mod, ((hX j hj).2 i hi').2, ← Nat.mul_mod])
  rw [ei1] at ha h1 h2
  have hflen : (flatP A).length = r.baseBsk.size * r.n := by unfold flatP; rw [gr_flat_length r.n _ hvn, hvs]
  refine ⟨alpha, ha, fun o ho => ?_, ?_⟩
  · have hlt : o * r.n + j < (flatP A).length := by rw [hflen]; exact gr_idx_lt ho hj
    rw [gr_flatP_append, gr_getD_append_left _ _ _ _ hlt]
    unfold flatP
    rw [gr_flat_getD r.n _ o j hvn (by omega) hj, gr_cs_getD, ← gr_arr_getD, hAv o j ho hj, h1 o, eo1]
  · rw [gr_flatP_append, gr_getD_append_right _ _ _ _ (by rw [hflen]; omega), hflen, Nat.add_sub_cancel_left, gr_flatP_single B hBs, ← gr_arr_getD,
      hBv j hj, h2 0, eo2, hMt0]

end HC
