import Heathcliff.Proofs.GenGalois2

/-!
  Translator tie (phase 4d) for src/util/galois.rs: `GaloisTool::generate_table_ntt` (generated into Gen/GaloisFns.lean since phase 3)
  equals `galoisTableNtt` of the hand model (Model/Galois.lean).  Helper names start with `gq_`.
-/
namespace HC
open HC.GenG

theorem gq_brev_lt (k i : Nat) : brev k i < 2^k := by
  induction k generalizing i with
  | zero => simp [brev]
  | succ k ih =>
    have h1 := ih (i/2)
    have h3 : (i % 2) * 2^k ≤ 1 * 2^k := Nat.mul_le_mul_right _ (by omega)
    rw [brev, Nat.pow_succ]
    omega

/-- entry `j` of the permutation table, as a function -/
def gq_entry (k g j : Nat) : Nat := brev k (((g * brev (k+1) (j + 2^k)) / 2) % 2^k)

/-- writing `f j` at the positions `j, j+1, …, j+cnt-1` in turn: position `p` holds `f p` inside the window, the old value outside -/
theorem gq_fold_set_getElem? (f : Nat → Nat) : ∀ (cnt j : Nat) (res : List Nat) (p : Nat),
    ((List.range' j cnt).foldl (fun r i => r.set i (f i)) res)[p]? =
      if j ≤ p ∧ p < j + cnt ∧ p < res.length then some (f p) else res[p]? := by
  intro cnt
  induction cnt with
  | zero => intro j res p; rw [if_neg (by omega)]; rfl
  | succ c ih =>
    intro j res p
    rw [List.range'_succ, List.foldl_cons, ih, List.length_set]
    by_cases hp : p = j
    · subst hp
      by_cases hl : p < res.length
      · simp [hl]
      · simp [hl]
    · have hne : j ≠ p := fun h => hp h.symm
      rw [List.getElem?_set_ne hne]
      by_cases h1 : j + 1 ≤ p ∧ p < j + 1 + c ∧ p < res.length
      · rw [if_pos h1, if_pos (by omega)]
      · rw [if_neg h1, if_neg (by omega)]

theorem gq_fold_set_length (f : Nat → Nat) : ∀ (l : List Nat) (res : List Nat),
    (l.foldl (fun r i => r.set i (f i)) res).length = res.length := by
  intro l
  induction l with
  | nil => intro res; rfl
  | cons a tl ih => intro res; rw [List.foldl_cons, ih, List.length_set]

/-- the `List.set` fold over all positions of a list of length `n` is `List.ofFn f` -/
theorem gq_fold_set_all (f : Nat → Nat) (n : Nat) (res : List Nat) (hres : res.length = n) :
    (List.range' 0 n).foldl (fun r i => r.set i (f i)) res = List.ofFn (n := n) (fun i => f i.val) := by
  apply List.ext_getElem?
  intro p
  rw [gq_fold_set_getElem?, hres]
  by_cases hp : p < n
  · rw [if_pos ⟨Nat.zero_le _, by omega, hp⟩, List.getElem?_ofFn, dif_pos hp]
  · rw [if_neg (by omega), List.getElem?_eq_none (by omega), List.getElem?_eq_none (by rw [List.length_ofFn]; omega)]

/-- the generated loop from position `2^k + j` = the `List.set` fold over the remaining positions -/
theorem gq_table_loop_eq (k g : Nat) (hk : k ≤ 31) (hg : g * (2^(k+1) - 1) < 2^64) :
    ∀ cnt j res, j + cnt = 2^k → res.length = 2^k →
    GenG.generate_table_ntt_loop1 g (2^k) (2^k - 1) k cnt (2^k + j) res =
      .ok ((List.range' j cnt).foldl (fun r i => r.set i (gq_entry k g i)) res) := by
  intro cnt
  induction cnt with
  | zero => intro j res _ _; rfl
  | succ c ih =>
    intro j res hj hlen
    have hpk : (2:Nat)^k ≤ 2^31 := Nat.pow_le_pow_right (by omega) hk
    have hpk1 : (2:Nat)^(k+1) = 2 * 2^k := by rw [Nat.pow_succ]; omega
    have hi : 2^k + j < 2^(k+1) := by omega
    have hadd : ckAdd k 1 = .ok (k + 1) := by
      unfold ckAdd; rw [if_pos (by rw [gx_B64]; omega)]
    have hmod : (2^k + j) % 4294967296 = 2^k + j := Nat.mod_eq_of_lt (by omega)
    have hr1 : GenW.reverse_bits_u32 (2^k + j) (k + 1) = .ok (brev (k+1) (j + 2^k)) := by
      rw [gy_reverse_bits_u32_eq _ _ (by omega) hi, Nat.add_comm (2^k) j]
    have hb1 : brev (k+1) (j + 2^k) ≤ 2^(k+1) - 1 := by have := gq_brev_lt (k+1) (j + 2^k); omega
    have hmul : ckMul g (brev (k+1) (j + 2^k)) = .ok (g * brev (k+1) (j + 2^k)) := by
      unfold ckMul
      have : g * brev (k+1) (j + 2^k) ≤ g * (2^(k+1) - 1) := Nat.mul_le_mul_left _ hb1
      rw [if_pos (by rw [gx_B64]; omega)]
    have hlt : (g * brev (k+1) (j + 2^k)) / 2 % 2^k < 2^k := Nat.mod_lt _ (Nat.two_pow_pos _)
    have hmod2 : ((g * brev (k+1) (j + 2^k)) / 2 % 2^k) % 4294967296 = (g * brev (k+1) (j + 2^k)) / 2 % 2^k :=
      Nat.mod_eq_of_lt (by omega)
    have hr2 : GenW.reverse_bits_u32 ((g * brev (k+1) (j + 2^k)) / 2 % 2^k) k = .ok (gq_entry k g j) :=
      gy_reverse_bits_u32_eq _ _ (by omega) hlt
    have hsub : ckSub (2^k + j) (2^k) = .ok j := by
      unfold ckSub; rw [if_pos (by omega), Nat.add_sub_cancel_left]
    have hset : GenW.setIdx res j (gq_entry k g j) = .ok (res.set j (gq_entry k g j)) := by
      unfold GenW.setIdx; rw [if_pos (by omega)]
    rw [GenG.generate_table_ntt_loop1, List.range'_succ, List.foldl_cons]
    simp only [hadd, gy_ok_bind, hmod, hr1, hmul, Nat.shiftRight_eq_div_pow, Nat.pow_one, gx_and_mask, hmod2, hr2, hsub, hset]
    rw [show 2^k + j + 1 = 2^k + (j + 1) by omega]
    exact ih (j + 1) _ (by omega) (by rw [List.length_set]; exact hlen)

/-- `GaloisTool::generate_table_ntt` (generated; tool fields `coeff_count = 2^k`, `coeff_count_power = k`) = `galoisTableNtt k g`.
    `k ≤ 31`: `reverse_bits_u32(_, k + 1)` computes `32 - (k + 1)` with overflow checks and `i as u32` must not truncate `i < 2^(k+1)`;
    `g·(2^(k+1) − 1) < 2^64`: `galois_elt as u64 * reversed as u64` is overflow-checked and `reversed` reaches `2^(k+1) − 1` at the
    last index. -/
theorem gq_generate_table_ntt_eq (k g : Nat) (hk : k ≤ 31) (hg : g * (2^(k+1) - 1) < 2^64) :
    GenG.generate_table_ntt g (2^k) k = .ok (galoisTableNtt k g).toList := by
  unfold GenG.generate_table_ntt
  have hs : ckSub (2^k) 1 = .ok (2^k - 1) := by unfold ckSub; rw [if_pos Nat.one_le_two_pow]
  have hpk : (2:Nat)^k ≤ 2^31 := Nat.pow_le_pow_right (by omega) hk
  have hfuel : ((2^k <<< 1) % B64) - 2^k = 2^k := by
    rw [Nat.shiftLeft_eq, Nat.pow_one, gx_B64, Nat.mod_eq_of_lt (by omega)]; omega
  simp only [hs, gy_ok_bind, hfuel]
  have h0 := gq_table_loop_eq k g hk hg (2^k) 0 (List.replicate (2^k) 0) (by omega) (by simp)
  rw [Nat.add_zero] at h0
  rw [h0, gq_fold_set_all _ _ _ (by simp)]
  unfold galoisTableNtt
  simp only [Array.toList_ofFn]
  rfl

/-- the hypothesis on `g` at the library's parameters: Galois elements are `< 2N = 2^(k+1)` and `k ≤ 17` -/
theorem gq_generate_table_ntt_eq_lib (k g : Nat) (hk : k ≤ 31) (hg : g < 2^(k+1)) :
    GenG.generate_table_ntt g (2^k) k = .ok (galoisTableNtt k g).toList := by
  apply gq_generate_table_ntt_eq k g hk
  have h1 : (2:Nat)^(k+1) ≤ 2^32 := Nat.pow_le_pow_right (by omega) (by omega)
  have h2 : g * (2^(k+1) - 1) < 2^(k+1) * 2^(k+1) := by
    have : 0 < (2:Nat)^(k+1) := Nat.two_pow_pos _
    calc g * (2^(k+1) - 1) ≤ g * 2^(k+1) := Nat.mul_le_mul_left _ (by omega)
      _ < 2^(k+1) * 2^(k+1) := Nat.mul_lt_mul_of_pos_right hg this
  have h3 : (2:Nat)^(k+1) * 2^(k+1) ≤ 2^32 * 2^32 := Nat.mul_le_mul h1 h1
  omega

/-- the hypotheses are satisfiable and the statement is not vacuous: N = 8, g = 3 -/
example : GenG.generate_table_ntt 3 (2^3) 3 = .ok (galoisTableNtt 3 3).toList :=
  gq_generate_table_ntt_eq 3 3 (by decide) (by decide)

end HC
