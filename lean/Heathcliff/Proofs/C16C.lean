/- C16 helper lemmas, part C: the exact distribution of the centred-binomial sample over all 2^48 inputs. -/
import Heathcliff.Proofs.C16B
namespace HC.Rng
open HC

/-! ### finite sums over lists -/

def sumL {α : Type} (l : List α) (f : α → Nat) : Nat := (l.map f).sum

theorem sumL_nil {α : Type} (f : α → Nat) : sumL [] f = 0 := rfl
theorem sumL_cons {α : Type} (a : α) (l : List α) (f : α → Nat) : sumL (a :: l) f = f a + sumL l f := by simp [sumL]

theorem sumL_append {α : Type} (l1 l2 : List α) (f : α → Nat) : sumL (l1 ++ l2) f = sumL l1 f + sumL l2 f := by
  simp [sumL]

theorem sumL_congr {α : Type} {l : List α} {f g : α → Nat} (h : ∀ a ∈ l, f a = g a) : sumL l f = sumL l g := by
  induction l with
  | nil => rfl
  | cons a l ih => rw [sumL_cons, sumL_cons, h a (by simp), ih (fun x hx => h x (by simp [hx]))]

theorem sumL_zero {α : Type} (l : List α) : sumL l (fun _ => 0) = 0 := by
  induction l with
  | nil => rfl
  | cons a l ih => rw [sumL_cons, ih]

theorem sumL_add {α : Type} (l : List α) (f g : α → Nat) : sumL l (fun a => f a + g a) = sumL l f + sumL l g := by
  induction l with
  | nil => rfl
  | cons a l ih => simp only [sumL_cons, ih]; omega

theorem sumL_mul_left {α : Type} (l : List α) (c : Nat) (f : α → Nat) : sumL l (fun a => c * f a) = c * sumL l f := by
  induction l with
  | nil => simp [sumL_nil]
  | cons a l ih => simp only [sumL_cons, ih, Nat.mul_add]

theorem sumL_flatMap {α β : Type} (l : List α) (f : α → List β) (G : β → Nat) :
    sumL (l.flatMap f) G = sumL l (fun a => sumL (f a) G) := by
  induction l with
  | nil => rfl
  | cons a l ih => rw [List.flatMap_cons, sumL_append, sumL_cons, ih]

theorem sumL_map {α β : Type} (l : List α) (f : α → β) (G : β → Nat) : sumL (l.map f) G = sumL l (fun a => G (f a)) := by
  simp [sumL, List.map_map, Function.comp_def]

theorem sumL_range_indicator (x : Nat) (F : Nat → Nat) :
    ∀ n, sumL (List.range n) (fun t => (if x = t then 1 else 0) * F t) = if x < n then F x else 0 := by
  intro n
  induction n with
  | zero => simp [sumL_nil]
  | succ n ih =>
    rw [List.range_succ, sumL_append, ih, sumL_cons, sumL_nil]
    by_cases h1 : x < n
    · have : ¬ x = n := by omega
      simp [h1, this, Nat.lt_succ_of_lt h1]
    · by_cases h2 : x = n
      · subst h2; simp
      · have : ¬ x < n + 1 := by omega
        simp [h1, h2, this]

/-- regrouping a weighted sum by the value of `g` (values bounded by `K`) -/
theorem sumL_regroup {α : Type} (g : α → Nat) (w : α → Nat) (K : Nat) (F : Nat → Nat) :
    ∀ l : List α, (∀ a ∈ l, g a ≤ K) →
      sumL l (fun a => w a * F (g a)) =
        sumL (List.range (K + 1)) (fun t => sumL l (fun a => w a * (if g a = t then 1 else 0)) * F t) := by
  intro l
  induction l with
  | nil =>
    intro _
    rw [sumL_nil]
    have : sumL (List.range (K + 1)) (fun t => sumL ([] : List α) (fun a => w a * (if g a = t then 1 else 0)) * F t) =
        sumL (List.range (K + 1)) (fun _ => 0) := sumL_congr (fun t _ => by simp [sumL_nil])
    rw [this, sumL_zero]
  | cons a l ih =>
    intro h
    have hl := ih (fun x hx => h x (by simp [hx]))
    have ha : g a ≤ K := h a (by simp)
    rw [sumL_cons, hl]
    have e : sumL (List.range (K + 1)) (fun t => sumL (a :: l) (fun a => w a * (if g a = t then 1 else 0)) * F t) =
        sumL (List.range (K + 1)) (fun t => w a * ((if g a = t then 1 else 0) * F t) +
          sumL l (fun a => w a * (if g a = t then 1 else 0)) * F t) :=
      sumL_congr (fun t _ => by rw [sumL_cons, Nat.add_mul, Nat.mul_assoc])
    rw [e, sumL_add, sumL_mul_left, sumL_range_indicator, if_pos (by omega)]

/-! ### per-byte weight distributions -/

def bytes256 : List Nat := List.range 256

/-- hamming weight of the byte after masking with 0x1f (bytes 2 and 5 of a draw) -/
def hwMasked (b : Nat) : Nat := hammingWeight (b &&& 31)

/-- number of bytes with hamming weight `t` -/
def d8 (t : Nat) : Nat := sumL bytes256 (fun b => 1 * (if hammingWeight b = t then 1 else 0))
/-- number of bytes whose masked hamming weight is `t` -/
def d5 (t : Nat) : Nat := sumL bytes256 (fun b => 1 * (if hwMasked b = t then 1 else 0))

def T8 : List Nat := [1, 8, 28, 56, 70, 56, 28, 8, 1]          -- C(8,t)
def T5 : List Nat := [8, 40, 80, 80, 40, 8]                    -- 8·C(5,t)

set_option maxRecDepth 1000000 in
theorem d8_table : ∀ t, t < 9 → d8 t = T8.getD t 0 := by decide

set_option maxRecDepth 1000000 in
theorem d5_table : ∀ t, t < 6 → d5 t = T5.getD t 0 := by decide

theorem hw_le8_mem : ∀ b ∈ bytes256, hammingWeight b ≤ 8 :=
  fun b hb => hammingWeight_le8 b (List.mem_range.mp hb)

theorem hwMasked_le5_mem : ∀ b ∈ bytes256, hwMasked b ≤ 5 :=
  fun b hb => hammingWeight_mask_le5 b (List.mem_range.mp hb)

/-- one byte: `Σ_b F(hw b) = Σ_t C(8,t)·F(t)` -/
theorem sum_byte_hw (F : Nat → Nat) :
    sumL bytes256 (fun b => F (hammingWeight b)) = sumL (List.range 9) (fun t => T8.getD t 0 * F t) := by
  have h := sumL_regroup hammingWeight (fun _ => 1) 8 F bytes256 hw_le8_mem
  have e1 : sumL bytes256 (fun b => F (hammingWeight b)) = sumL bytes256 (fun b => 1 * F (hammingWeight b)) :=
    sumL_congr (fun b _ => by rw [Nat.one_mul])
  rw [e1, h]
  exact sumL_congr (fun t ht => by
    have := d8_table t (List.mem_range.mp ht)
    simp only [d8] at this
    rw [this])

theorem sum_byte_hwMasked (F : Nat → Nat) :
    sumL bytes256 (fun b => F (hwMasked b)) = sumL (List.range 6) (fun t => T5.getD t 0 * F t) := by
  have h := sumL_regroup hwMasked (fun _ => 1) 5 F bytes256 hwMasked_le5_mem
  have e1 : sumL bytes256 (fun b => F (hwMasked b)) = sumL bytes256 (fun b => 1 * F (hwMasked b)) :=
    sumL_congr (fun b _ => by rw [Nat.one_mul])
  rw [e1, h]
  exact sumL_congr (fun t ht => by
    have := d5_table t (List.mem_range.mp ht)
    simp only [d5] at this
    rw [this])

/-! ### three bytes: the distribution of `hw b0 + hw b1 + hw (b2 & 0x1f)` -/

def trip : List (Nat × Nat × Nat) :=
  (List.range 9).flatMap fun a => (List.range 9).flatMap fun b => (List.range 6).map fun c => (a, b, c)
def tripW (k : Nat × Nat × Nat) : Nat := T8.getD k.1 0 * (T8.getD k.2.1 0 * T5.getD k.2.2 0)
def tripSum (k : Nat × Nat × Nat) : Nat := k.1 + k.2.1 + k.2.2
/-- number of byte triples with `hw b0 + hw b1 + hw (b2 & 0x1f) = t` -/
def P3 (t : Nat) : Nat := sumL trip (fun k => tripW k * (if tripSum k = t then 1 else 0))

theorem trip_bound : ∀ k ∈ trip, tripSum k ≤ 21 := by
  intro k hk
  simp only [trip, List.mem_flatMap, List.mem_map, List.mem_range] at hk
  obtain ⟨a, ha, b, hb, c, hc, rfl⟩ := hk
  simp only [tripSum]; omega

theorem sumL_trip (G : Nat × Nat × Nat → Nat) :
    sumL trip G = sumL (List.range 9) (fun a => sumL (List.range 9) (fun b => sumL (List.range 6) (fun c => G (a, b, c)))) := by
  unfold trip
  rw [sumL_flatMap]
  apply sumL_congr; intro a _
  rw [sumL_flatMap]
  apply sumL_congr; intro b _
  rw [sumL_map]

theorem sum_triple (F : Nat → Nat) :
    sumL bytes256 (fun a => sumL bytes256 (fun b => sumL bytes256 (fun c =>
      F (hammingWeight a + hammingWeight b + hwMasked c)))) = sumL (List.range 22) (fun t => P3 t * F t) := by
  -- innermost byte
  have s1 : sumL bytes256 (fun a => sumL bytes256 (fun b => sumL bytes256 (fun c =>
      F (hammingWeight a + hammingWeight b + hwMasked c)))) =
      sumL bytes256 (fun a => sumL bytes256 (fun b => sumL (List.range 6) (fun k5 =>
        T5.getD k5 0 * F (hammingWeight a + hammingWeight b + k5)))) :=
    sumL_congr (fun a _ => sumL_congr (fun b _ =>
      sum_byte_hwMasked (fun k => F (hammingWeight a + hammingWeight b + k))))
  -- middle byte
  have s2 : sumL bytes256 (fun a => sumL bytes256 (fun b => sumL (List.range 6) (fun k5 =>
        T5.getD k5 0 * F (hammingWeight a + hammingWeight b + k5)))) =
      sumL bytes256 (fun a => sumL (List.range 9) (fun k4 => T8.getD k4 0 * sumL (List.range 6) (fun k5 =>
        T5.getD k5 0 * F (hammingWeight a + k4 + k5)))) :=
    sumL_congr (fun a _ =>
      sum_byte_hw (fun k => sumL (List.range 6) (fun k5 => T5.getD k5 0 * F (hammingWeight a + k + k5))))
  -- first byte
  have s3 : sumL bytes256 (fun a => sumL (List.range 9) (fun k4 => T8.getD k4 0 * sumL (List.range 6) (fun k5 =>
        T5.getD k5 0 * F (hammingWeight a + k4 + k5)))) =
      sumL (List.range 9) (fun k3 => T8.getD k3 0 * sumL (List.range 9) (fun k4 => T8.getD k4 0 *
        sumL (List.range 6) (fun k5 => T5.getD k5 0 * F (k3 + k4 + k5)))) :=
    sum_byte_hw (fun k => sumL (List.range 9) (fun k4 => T8.getD k4 0 * sumL (List.range 6) (fun k5 =>
        T5.getD k5 0 * F (k + k4 + k5))))
  -- as one weighted sum over the 486 weight triples
  have s4 : sumL (List.range 9) (fun k3 => T8.getD k3 0 * sumL (List.range 9) (fun k4 => T8.getD k4 0 *
        sumL (List.range 6) (fun k5 => T5.getD k5 0 * F (k3 + k4 + k5)))) =
      sumL trip (fun k => tripW k * F (tripSum k)) := by
    rw [sumL_trip]
    apply sumL_congr; intro a _
    rw [← sumL_mul_left]
    apply sumL_congr; intro b _
    rw [← sumL_mul_left, ← sumL_mul_left]
    apply sumL_congr; intro c _
    simp only [tripW, tripSum, Nat.mul_assoc]
  rw [s1, s2, s3, s4]
  exact sumL_regroup tripSum tripW 21 F trip trip_bound

/-- 8·C(21,t) -/
def TP : List Nat := [8, 168, 1680, 10640, 47880, 162792, 434112, 930240, 1627920, 2351440, 2821728, 2821728, 2351440,
  1627920, 930240, 434112, 162792, 47880, 10640, 1680, 168, 8]

set_option maxRecDepth 1000000 in
theorem P3_table : ∀ t, t < 22 → P3 t = TP.getD t 0 := by decide

/-! ### all six bytes -/

/-- number of 6-byte inputs (out of 2^48) on which the `cbd` closure returns `v` -/
def cbdCount (v : Int) : Nat :=
  sumL bytes256 fun b0 => sumL bytes256 fun b1 => sumL bytes256 fun b2 =>
  sumL bytes256 fun b3 => sumL bytes256 fun b4 => sumL bytes256 fun b5 =>
    if cbdValue [b0, b1, b2, b3, b4, b5] = v then 1 else 0

def cbdFormula (v : Int) : Nat :=
  sumL (List.range 22) fun s => TP.getD s 0 * sumL (List.range 22) fun t =>
    TP.getD t 0 * (if (s : Int) - (t : Int) = v then 1 else 0)

theorem cbd_ind (b0 b1 b2 b3 b4 b5 : Nat) (v : Int) :
    (if cbdValue [b0, b1, b2, b3, b4, b5] = v then 1 else 0 : Nat) =
      (if ((hammingWeight b0 + hammingWeight b1 + hwMasked b2 : Nat) : Int) -
          ((hammingWeight b3 + hammingWeight b4 + hwMasked b5 : Nat) : Int) = v then 1 else 0) := by
  have h : cbdValue [b0, b1, b2, b3, b4, b5] = v ↔
      ((hammingWeight b0 + hammingWeight b1 + hwMasked b2 : Nat) : Int) -
          ((hammingWeight b3 + hammingWeight b4 + hwMasked b5 : Nat) : Int) = v := by
    rw [cbdValue_six]; simp only [hwMasked]; omega
  by_cases hv : cbdValue [b0, b1, b2, b3, b4, b5] = v
  · rw [if_pos hv, if_pos (h.mp hv)]
  · rw [if_neg hv, if_neg (fun h' => hv (h.mpr h'))]

theorem cbdCount_eq_formula (v : Int) : cbdCount v = cbdFormula v := by
  unfold cbdCount cbdFormula
  -- the three subtracted bytes, for fixed b0 b1 b2
  have inner : ∀ b0 b1 b2 : Nat,
      (sumL bytes256 fun b3 => sumL bytes256 fun b4 => sumL bytes256 fun b5 =>
        (if cbdValue [b0, b1, b2, b3, b4, b5] = v then 1 else 0 : Nat)) =
      sumL (List.range 22) (fun t => TP.getD t 0 *
        (if ((hammingWeight b0 + hammingWeight b1 + hwMasked b2 : Nat) : Int) - (t : Int) = v then 1 else 0)) := by
    intro b0 b1 b2
    have e : (sumL bytes256 fun b3 => sumL bytes256 fun b4 => sumL bytes256 fun b5 =>
        (if cbdValue [b0, b1, b2, b3, b4, b5] = v then 1 else 0 : Nat)) =
        (sumL bytes256 fun b3 => sumL bytes256 fun b4 => sumL bytes256 fun b5 =>
          (fun t : Nat => (if ((hammingWeight b0 + hammingWeight b1 + hwMasked b2 : Nat) : Int) - (t : Int) = v then 1 else 0 : Nat))
            (hammingWeight b3 + hammingWeight b4 + hwMasked b5)) :=
      sumL_congr (fun b3 _ => sumL_congr (fun b4 _ => sumL_congr (fun b5 _ => cbd_ind b0 b1 b2 b3 b4 b5 v)))
    rw [e]
    exact (sum_triple (fun t : Nat =>
      (if ((hammingWeight b0 + hammingWeight b1 + hwMasked b2 : Nat) : Int) - (t : Int) = v then 1 else 0 : Nat))).trans
      (sumL_congr (fun t ht => by rw [P3_table t (List.mem_range.mp ht)]))
  have outer : (sumL bytes256 fun b0 => sumL bytes256 fun b1 => sumL bytes256 fun b2 =>
      sumL bytes256 fun b3 => sumL bytes256 fun b4 => sumL bytes256 fun b5 =>
        (if cbdValue [b0, b1, b2, b3, b4, b5] = v then 1 else 0 : Nat)) =
      (sumL bytes256 fun b0 => sumL bytes256 fun b1 => sumL bytes256 fun b2 =>
        (fun s : Nat => sumL (List.range 22) (fun t => TP.getD t 0 * (if (s : Int) - (t : Int) = v then 1 else 0)))
          (hammingWeight b0 + hammingWeight b1 + hwMasked b2)) :=
    sumL_congr (fun b0 _ => sumL_congr (fun b1 _ => sumL_congr (fun b2 _ => inner b0 b1 b2)))
  rw [outer]
  exact (sum_triple (fun s : Nat =>
    sumL (List.range 22) (fun t => TP.getD t 0 * (if (s : Int) - (t : Int) = v then 1 else 0)))).trans
    (sumL_congr (fun s hs => by rw [P3_table s (List.mem_range.mp hs)]))

def fact : Nat → Nat
  | 0 => 1
  | n + 1 => (n + 1) * fact n

/-- binomial coefficient `n! / (k! (n-k)!)` -/
def binom (n k : Nat) : Nat := fact n / (fact k * fact (n - k))

set_option maxRecDepth 1000000 in
theorem cbdFormula_in : ∀ j : Nat, j < 43 → cbdFormula ((j : Int) - 21) = 64 * binom 42 j := by decide

theorem cbdFormula_inner_zero (v : Int) (h : v < -21 ∨ 21 < v) (s : Nat) (hs : s < 22) :
    (sumL (List.range 22) fun t => TP.getD t 0 * (if (s : Int) - (t : Int) = v then 1 else 0)) = 0 := by
  have e : (sumL (List.range 22) fun t => TP.getD t 0 * (if (s : Int) - (t : Int) = v then 1 else 0)) =
      sumL (List.range 22) (fun _ => 0) := by
    apply sumL_congr; intro t ht
    have ht' := List.mem_range.mp ht
    rw [if_neg (by omega), Nat.mul_zero]
  rw [e, sumL_zero]

theorem cbdFormula_out (v : Int) (h : v < -21 ∨ 21 < v) : cbdFormula v = 0 := by
  unfold cbdFormula
  have e : (sumL (List.range 22) fun s => TP.getD s 0 * sumL (List.range 22) fun t =>
      TP.getD t 0 * (if (s : Int) - (t : Int) = v then 1 else 0)) = sumL (List.range 22) (fun _ => 0) := by
    apply sumL_congr; intro s hs
    rw [cbdFormula_inner_zero v h s (List.mem_range.mp hs), Nat.mul_zero]
  rw [e, sumL_zero]

/-- the push-forward of the uniform distribution on the 2^48 inputs is Bin(21,½) − Bin(21,½) = Bin(42,½) − 21:
    exactly `64·C(42, v+21)` of the inputs give `v` -/
theorem cbdCount_eq (v : Int) :
    cbdCount v = if -21 ≤ v ∧ v ≤ 21 then 64 * binom 42 (v + 21).toNat else 0 := by
  rw [cbdCount_eq_formula]
  by_cases h : -21 ≤ v ∧ v ≤ 21
  · rw [if_pos h]
    have hj : (v + 21).toNat < 43 := by omega
    have hv : v = (((v + 21).toNat : Nat) : Int) - 21 := by omega
    have := cbdFormula_in (v + 21).toNat hj
    rw [← hv] at this
    exact this
  · rw [if_neg h]
    exact cbdFormula_out v (by omega)

theorem cbdCount_in (j : Nat) (hj : j < 43) : cbdCount ((j : Int) - 21) = 64 * binom 42 j := by
  rw [cbdCount_eq_formula]; exact cbdFormula_in j hj

/-- all 2^48 inputs are accounted for -/
theorem cbdCount_total : sumL (List.range 43) (fun j => cbdCount ((j : Int) - 21)) = 2 ^ 48 := by
  have e : sumL (List.range 43) (fun j => cbdCount ((j : Int) - 21)) = sumL (List.range 43) (fun j => 64 * binom 42 j) :=
    sumL_congr (fun j hj => cbdCount_in j (List.mem_range.mp hj))
  rw [e]; decide

/-- second moment: `Σ v²·count(v) = 10.5 · 2^48` (mean 0 by symmetry), i.e. variance 10.5 = 21/2 -/
theorem cbdCount_second_moment :
    2 * sumL (List.range 43) (fun j => ((j : Int) - 21).natAbs ^ 2 * cbdCount ((j : Int) - 21)) = 21 * 2 ^ 48 := by
  have e : sumL (List.range 43) (fun j => ((j : Int) - 21).natAbs ^ 2 * cbdCount ((j : Int) - 21)) =
      sumL (List.range 43) (fun j => ((j : Int) - 21).natAbs ^ 2 * (64 * binom 42 j)) :=
    sumL_congr (fun j hj => by rw [cbdCount_in j (List.mem_range.mp hj)])
  rw [e]; decide

/-- symmetry (mean 0) -/
theorem cbdCount_symm (v : Int) : cbdCount v = cbdCount (-v) := by
  rw [cbdCount_eq, cbdCount_eq]
  by_cases h : -21 ≤ v ∧ v ≤ 21
  · have h' : -21 ≤ -v ∧ -v ≤ 21 := by omega
    rw [if_pos h, if_pos h']
    have hj : (v + 21).toNat < 43 := by omega
    have e : (-v + 21).toNat = 42 - (v + 21).toNat := by omega
    rw [e]
    have : ∀ j : Nat, j < 43 → binom 42 j = binom 42 (42 - j) := by decide
    rw [this _ hj]
  · have h' : ¬ (-21 ≤ -v ∧ -v ≤ 21) := by omega
    rw [if_neg h, if_neg h']

end HC.Rng
