import Heathcliff.Proofs.GenRns15
import Heathcliff.Proofs.GenRns9

/-!
  Phase 4k of the translator tie: `RNSBase::decompose_array` (src/util/rns.rs; iterator chains `iter().enumerate()`, `chunks(size).enumerate()`,
  read as documented in tools/rs2lean_rns4k.py) generated into `Heathcliff/Gen/RnsFns.lean`: `count` multi-word values of `size` limbs each,
  stored one after the other, become `size` components of `count` residues (`out[i·count + j] = value_j mod q_i`).  Helper names start with `gr_`.
-/
namespace HC
open HC.GenW HC.GenR

/-- a flat buffer cut into `k` consecutive pieces of `n` words -/
def gr_regroup (n : Nat) : Nat → List Nat → List (List Nat)
  | 0, _ => []
  | k+1, l => l.take n :: gr_regroup n k (l.drop n)

theorem gr_regroup_spec (n : Nat) : ∀ k (l : List Nat), l.length = k * n →
    (gr_regroup n k l).flatten = l ∧ (gr_regroup n k l).length = k ∧ ∀ c ∈ gr_regroup n k l, c.length = n := by
  intro k
  induction k with
  | zero => intro l hl; rw [Nat.zero_mul] at hl; rw [List.eq_nil_of_length_eq_zero hl]; simp [gr_regroup]
  | succ k ih =>
    intro l hl
    rw [Nat.succ_mul] at hl
    obtain ⟨h1, h2, h3⟩ := ih (l.drop n) (by rw [List.length_drop]; omega)
    refine ⟨by rw [gr_regroup, List.flatten_cons, h1, List.take_append_drop], by rw [gr_regroup, List.length_cons, h2], ?_⟩
    intro c hc
    rw [gr_regroup, List.mem_cons] at hc
    rcases hc with rfl | hc
    · rw [List.length_take]; omega
    · exact h3 c hc

/-- the inner loop: for the modulus `q`, component `i` of the destination receives the residues of all `count` values -/
theorem gr_da_loop2 (vals cs : List (List Nat)) (size count i : Nat) (q : Modulus)
    (hv1 : vals.length = count) (hv2 : ∀ c ∈ vals, c.length = size) (hs : 0 < size) (hi : i < size)
    (hcs : cs.length = size) (hcn : ∀ c ∈ cs, c.length = count) (hsn : size * count < 2^64) :
    GenR.rnsbase_decompose_array_loop2 count vals.flatten i q size count count 0 cs.flatten
      = ((List.range' 0 count).mapM (fun j => moduloUint (vals.getD j []) q) >>= fun d => .ok (cs.set i d).flatten) := by
  have hfv := gr_flat_length size vals hv2
  rw [hv1] at hfv
  have hfd := gr_flat_length count cs hcn
  rw [hcs] at hfd
  have hin1 : i * count + count ≤ size * count := by
    have := Nat.mul_le_mul_right count (Nat.succ_le_of_lt hi); rw [Nat.succ_mul] at this; exact this
  rw [gr_offloop (GenR.rnsbase_decompose_array_loop2 count vals.flatten i q size count)
      (fun j _ => moduloUint (vals.getD j []) q) (i * count) count (fun _ _ => rfl) (by
      intro k j l hl hj
      have hjs : j * size + size ≤ count * size := by
        have := Nat.mul_le_mul_right size (Nat.succ_le_of_lt hj); rw [Nat.succ_mul] at this; exact this
      have hcm : count * size = size * count := Nat.mul_comm _ _
      have e1 : ckMul j size = .ok (j * size) := gr_ckMul_ok (by omega)
      have e2 : ckSub vals.flatten.length (j * size) = .ok (count * size - j * size) := by rw [hfv]; exact gr_ckSub_ok (by omega)
      have hnl : ¬ (count * size - j * size < size) := by omega
      have e3 : ckAdd (j * size) size = .ok (j * size + size) := gr_ckAdd_ok (by omega)
      have e4 : GenR.slice vals.flatten (j * size) (j * size + size) = .ok (vals.getD j []) := gr_slice_flat size vals j hv2 (by omega)
      have hne : vals.getD j [] ≠ [] := by
        intro h0
        have := hv2 _ (gr_getD_mem vals j (by omega))
        rw [h0] at this; simp at this; omega
      have e5 : ckMul i count = .ok (i * count) := gr_ckMul_ok (by omega)
      have e6 : ckAdd (i * count) j = .ok (i * count + j) := gr_ckAdd_ok (by omega)
      rw [GenR.rnsbase_decompose_array_loop2]
      simp only [e1, e2, if_neg hnl, e3, e4, e5, e6, gr_ok_bind, gw_modulo_uint_eq _ _ hne]
      cases moduloUint (vals.getD j []) q with
      | error e => rfl
      | ok y => simp only [gr_ok_bind, gx_setIdx_ok _ _ _ hl])
    count 0 cs.flatten (by omega) (by omega)]
  cases hm : (List.range' 0 count).mapM (fun j => moduloUint (vals.getD j []) q) with
  | error e => rfl
  | ok d =>
    have hdl : d.length = count := by rw [gr_mapM_length _ _ _ hm, List.length_range']
    rw [gr_ok_bind, gr_ok_bind, Nat.add_zero, ← gr_splice_flat count cs i d hcn (by omega) hdl]
    unfold GenR.splice
    rw [hdl]

/-- **`RNSBase::decompose_array` (generated from src/util/rns.rs)** on `count` values of `size > 1` limbs each (`vals`, stored one after the other):
    component `i` of the result holds `modulo_uint(value_j, q_i)` for `j = 0 .. count−1`; traps (of `modulo_uint` on malformed moduli) come in the
    order `i` outer, `j` inner, as in the code -/
theorem gr_rnsbase_decompose_array_eq (b : RNSBase) (vals : List (List Nat)) (count : Nat)
    (hs : 1 < b.size) (hv1 : vals.length = count) (hv2 : ∀ c ∈ vals, c.length = b.size) (hsn : b.size * count < 2^64) :
    GenR.rnsbase_decompose_array vals.flatten b.size b.base.toList
      = ((List.range' 0 b.size).mapM (fun i => (List.range' 0 count).mapM (fun j => moduloUint (vals.getD j []) (b.q i))) >>= fun outs => .ok outs.flatten) := by
  have hfv := gr_flat_length b.size vals hv2
  rw [hv1] at hfv
  have hs0 : b.size ≠ 0 := by omega
  have e1 : ckMod vals.flatten.length b.size = .ok 0 := by unfold ckMod; rw [if_neg hs0, hfv, Nat.mul_mod_left]
  have e2 : ckDiv vals.flatten.length b.size = .ok count := by unfold ckDiv; rw [if_neg hs0, hfv, Nat.mul_div_cancel _ (by omega)]
  obtain ⟨hr1, hr2, hr3⟩ := gr_regroup_spec count b.size vals.flatten (by rw [hfv, Nat.mul_comm])
  unfold GenR.rnsbase_decompose_array
  simp only [e1, e2, gr_ok_bind, if_true, if_pos hs]
  have key := gr_comploop (GenR.rnsbase_decompose_array_loop1 count b.size vals.flatten b.base.toList)
    (fun i _ => (List.range' 0 count).mapM (fun j => moduloUint (vals.getD j []) (b.q i))) (fun l => .ok l) b.size count (fun _ _ => rfl) (by
      intro k i cs hi hcs hcn
      have e3 : GenR.idxMod b.base.toList i = .ok (b.q i) := by
        rw [gr_idxMod_ok b.base.toList i gr_dflt (by rw [Array.length_toList]; exact hi), gr_q_toList]
      have e4 : ckDiv vals.flatten.length b.size = .ok count := e2
      have e5 : ckMod vals.flatten.length b.size = .ok 0 := e1
      rw [GenR.rnsbase_decompose_array_loop1]
      simp only [e3, e4, e5, gr_ok_bind, if_pos hs0, ne_eq, not_true_eq_false, if_false, gr_pure]
      rw [gr_da_loop2 vals cs b.size count i (b.q i) hv1 hv2 (by omega) hi hcs hcn hsn]
      cases (List.range' 0 count).mapM (fun j => moduloUint (vals.getD j []) (b.q i)) with
      | error e => rfl
      | ok d => rfl)
    (fun i c y _ _ hy => by rw [gr_mapM_length _ _ _ hy, List.length_range']) b.size 0 (gr_regroup count b.size vals.flatten) (by omega) hr2 hr3
  rw [hr1] at key
  rw [key, gr_foldM_self (fun i _ => (List.range' 0 count).mapM (fun j => moduloUint (vals.getD j []) (b.q i))) b.size 0 _ (by omega)]
  cases (List.range' 0 b.size).mapM (fun i => (List.range' 0 count).mapM (fun j => moduloUint (vals.getD j []) (b.q i))) with
  | error e => rfl
  | ok outs =>
    simp only [gr_ok_bind, gr_pure]
    rw [List.take_zero, List.nil_append, Nat.zero_add, List.drop_eq_nil_of_le (by omega), List.append_nil]

/-- END TO END: for a well-formed base with at least two moduli and word limbs, position `i·count + j` of the result = `value_j mod q_i`
    (the values are `toNat` of their limbs) -/
theorem gr_rnsbase_decompose_array_residues {b : RNSBase} (hb : b.WF) (vals : List (List Nat)) (count : Nat)
    (hs : 1 < b.size) (hv1 : vals.length = count) (hv2 : ∀ c ∈ vals, c.length = b.size) (hw : ∀ c ∈ vals, ∀ x ∈ c, x < 2^64)
    (hsn : b.size * count < 2^64) :
    ∃ out, GenR.rnsbase_decompose_array vals.flatten b.size b.base.toList = .ok out ∧ out.length = b.size * count ∧
      ∀ i j, i < b.size → j < count → out.getD (i * count + j) 0 = toNat (vals.getD j []) % (b.q i).value := by
  have hres : ∀ i, i < b.size → (List.range' 0 count).mapM (fun j => moduloUint (vals.getD j []) (b.q i))
      = .ok ((List.range' 0 count).map (fun j => toNat (vals.getD j []) % (b.q i).value)) := by
    intro i hi
    apply gr_mapM_ok
    intro j hj
    rw [List.mem_range'_1] at hj
    have hm := gr_getD_mem vals j (by omega)
    refine moduloUint_exact (hb.mwf i hi) ?_ (hw _ hm)
    intro h0
    have := hv2 _ hm
    rw [h0] at this; simp at this; omega
  rw [gr_rnsbase_decompose_array_eq b vals count hs hv1 hv2 hsn,
    gr_mapM_ok _ (fun i => (List.range' 0 count).map (fun j => toNat (vals.getD j []) % (b.q i).value)) _
      (fun i hi => hres i (by rw [List.mem_range'_1] at hi; omega))]
  have hall : ∀ c ∈ (List.range' 0 b.size).map (fun i => (List.range' 0 count).map (fun j => toNat (vals.getD j []) % (b.q i).value)), c.length = count := by
    intro c hc
    obtain ⟨i, _, rfl⟩ := List.mem_map.mp hc
    rw [List.length_map, List.length_range']
  refine ⟨_, rfl, by rw [gr_flat_length count _ hall, List.length_map, List.length_range'], fun i j hi hj => ?_⟩
  rw [gr_flat_getD count _ i j hall (by rw [List.length_map, List.length_range']; exact hi) hj, gr_getD_map_range' _ _ _ _ hi,
    gr_getD_map_range' _ _ _ _ hj]

end HC
