/- C02 (task P, part 5): steps of the induction in `c02p_Enc` form (with sizes), the modulus-switching step, and the LEVELLED program theorem
   `hom_program_bgv_levelled` (programs `LProg` over negate / add / sub / multiply / multiply_plain / mod_switch_to_next along a chain). -/
import Heathcliff.Proofs.C02PH
import Heathcliff.Proofs.C02PM
import Heathcliff.Proofs.C02PR
namespace HC
open Finset

theorem c02p_geoSum_eq (S : Nat) : ∀ m, geoSum S m = c02x_geo S m
  | 0 => rfl
  | m+1 => by simp [geoSum, c02x_geo, c02p_geoSum_eq S m]

/-! ## steps -/

theorem c02p_step_neg {l : Level} (h : c02p_LevelOK l) {sk : Array Int} (hsk : sk.size = l.n) {a r : Ct} {m : Nat → Int} {V : Nat}
    (ha : c02p_Enc l sk a m V) (hr : ctNegate l a = .ok r) :
    r.cf = a.cf ∧ r.polys.size = a.polys.size ∧ c02p_Enc l sk r (fun j => - m j) V := by
  obtain ⟨ga, va, a1, a2, a3⟩ := ha
  obtain ⟨gr, hcf, hsz, hph⟩ := c02p_negate_ph h hsk ga hr (sk := sk)
  refine ⟨hcf, hsz, gr, fun j => - va j, fun j hj => (hph j hj).trans (a1 j hj).neg, fun j hj => ?_,
    fun j hj => by rw [Int.natAbs_neg]; exact a3 j hj⟩
  rw [hcf, mul_neg]
  exact (a2 j hj).neg

theorem c02p_step_tr2 {l : Level} (h : c02p_LevelOK l) {sk : Array Int} (hsk : sk.size = l.n) {a b r : Ct} {ma mb : Nat → Int}
    {Va Vb : Nat} (ha : c02p_Enc l sk a ma Va) (hb : c02p_Enc l sk b mb Vb) (sub : Bool)
    (hr : ctTranslateBalanced l a b sub = .ok r) :
    ∃ e1 e2 : Nat, c02p_balance l.t a.cf b.cf = some (r.cf, e1, e2) ∧ r.polys.size = max a.polys.size b.polys.size ∧
      c02p_Enc l sk r (fun j => if sub then ma j - mb j else ma j + mb j) (e1 * Va + e2 * Vb) := by
  obtain ⟨e1, e2, hbal, hE⟩ := c02p_step_tr h hsk ha hb sub hr
  obtain ⟨_, _, _, _, hsz, _⟩ := c02p_translate_ph h hsk ha.1 hb.1 sub hr (sk := sk)
  exact ⟨e1, e2, hbal, hsz, hE⟩

theorem c02p_step_mul {l : Level} (h : c02p_LevelOK l) {sk : Array Int} (hsk : sk.size = l.n) {a b r : Ct} {ma mb : Nat → Int}
    {Va Vb : Nat} (ha : c02p_Enc l sk a ma Va) (hb : c02p_Enc l sk b mb Vb) (hr : bgvMultiply l a b = .ok r) :
    r.cf = (a.cf * b.cf) % l.t.value ∧ r.polys.size = a.polys.size + b.polys.size - 1 ∧
      c02p_Enc l sk r (negMulR l.n ma mb) (l.n * Va * Vb) := by
  obtain ⟨ga, va, a1, a2, a3⟩ := ha
  obtain ⟨gb, vb, b1, b2, b3⟩ := hb
  obtain ⟨gr, hcf, hsz, hph⟩ := c02p_mul_ph h hsk ga gb hr (sk := sk)
  refine ⟨hcf, hsz, gr, negMulR l.n va vb, fun j hj => ?_, fun j hj => ?_, fun j hj => ?_⟩
  · exact (hph j hj).trans (c02x_negMulR_modEq l.n _ a1 b1 hj)
  · refine (c02x_negMulR_modEq l.n _ a2 b2 hj).trans ?_
    rw [c05u_negMul_smul, c02p_negMul_smul_right, ← mul_assoc, hcf]
    refine Int.ModEq.mul_right _ ?_
    rw [Int.natCast_mod, Nat.cast_mul]
    exact (Int.mod_modEq _ _).symm
  · exact c02p_negMul_bound l.n va vb Va Vb j hj a3 b3

theorem c02p_step_pl {l : Level} (h : c02p_LevelOK l) {sk : Array Int} (hsk : sk.size = l.n) {a r : Ct} {ma : Nat → Int} {Va : Nat}
    (ha : c02p_Enc l sk a ma Va) {p : RnsPoly} (hp : RnsCanon l p) {P : Nat → Int} (hP : c02p_PlainLift l p P) {Bp : Nat}
    (hB : ∀ j, j < l.n → (P j).natAbs ≤ Bp) (hr : ctMultiplyPlainNtt l a p = .ok r) :
    r.cf = a.cf ∧ r.polys.size = a.polys.size ∧ c02p_Enc l sk r (negMulR l.n ma P) (l.n * Va * Bp) := by
  obtain ⟨ga, va, a1, a2, a3⟩ := ha
  obtain ⟨gr, hcf, hsz, hph⟩ := c02p_mulPlain_ph h hsk ga hp hP hr (sk := sk)
  refine ⟨hcf, hsz, gr, negMulR l.n va P, fun j hj => ?_, fun j hj => ?_, fun j hj => ?_⟩
  · exact (hph j hj).trans (c02x_negMulR_modEq l.n _ a1 (fun i _ => Int.ModEq.refl _) hj)
  · refine (c02x_negMulR_modEq l.n _ a2 (fun i _ => Int.ModEq.refl _) hj).trans ?_
    rw [c05u_negMul_smul, hcf]
  · exact c02p_negMul_bound l.n va P Va Bp j hj a3 hB

/-- the modulus-switching step: same message, factor `cf·q_L^{-1} mod t`, norm `≤ V / q_L + t·Σ_{k<size} S^k` -/
theorem c02p_step_ms {l l' : Level} (h : c02p_LevelOK l) (h' : c02p_LevelOK l') (hto : c05u_ToolOK l) (hto' : c05u_ToolOK l')
    (hg : c05u_BgvOK l) (hn : c02p_Next l l') {sk : Array Int} (hsk : sk.size = l.n) {S : Nat}
    (hS : ∑ k ∈ range l.n, (c02p_sk sk k).natAbs ≤ S) {a r : Ct} {m : Nat → Int} {V : Nat}
    (ha : c02p_Enc l sk a m V) (hr : modSwitchScaleNext l a = .ok r) :
    r.cf = (a.cf * l.tool.invQLastModT) % l.t.value ∧ r.polys.size = a.polys.size ∧
      c02p_Enc l' sk r m (V / (l.q (l.size - 1)).value + l.t.value * geoSum S a.polys.size) := by
  obtain ⟨ga, va, a1, a2, a3⟩ := ha
  obtain ⟨gr, hcf, hsz, v', Δ, p1, p2⟩ := c02p_modswitch_ph h h' hto hto' hg hn hsk hS ga hr a1
  have htw := h.twf
  have ht0 : 0 < l.t.value := by have := htw.two_le; omega
  have h2 : 2 ≤ l.size := by
    have : 1 ≤ l'.size := by have := h'.lq.bwf.pos; rw [h'.lq.size_eq] at this; exact this
    have := hn.size; omega
  have hqL0 : 0 < (l.q (l.size - 1)).value := by have := (c05u_qwf hto (show l.size - 1 < l.size by omega)).two_le; omega
  refine ⟨hcf, hsz, gr, v', fun j hj => p1 j (by rw [← hn.n]; exact hj), fun j hj => ?_, fun j hj => ?_⟩
  · have hj' : j < l.n := by rw [← hn.n]; exact hj
    obtain ⟨e1, e2, _⟩ := p2 j hj'
    rw [hn.t]
    -- invt·q_L ≡ 1 (mod t)
    have hinv : (l.tool.invQLastModT : Int) * ((l.q (l.size - 1)).value : Int) ≡ 1 [ZMOD l.t.value] := by
      have : Nat.ModEq l.t.value (l.tool.invQLastModT * (l.q (l.size - 1)).value) 1 := by
        unfold Nat.ModEq; rw [hg.invt, Nat.mod_eq_of_lt (by have := htw.two_le; omega)]
      have := Int.natCast_modEq_iff.mpr this
      push_cast at this
      exact this
    have hΔ : Δ j ≡ 0 [ZMOD l.t.value] := (Int.modEq_zero_iff_dvd).mpr e2
    have hcf' : (r.cf : Int) ≡ (a.cf : Int) * (l.tool.invQLastModT : Int) [ZMOD l.t.value] := by
      rw [hcf, Int.natCast_mod, Nat.cast_mul]
      exact Int.mod_modEq _ _
    calc v' j ≡ ((l.tool.invQLastModT : Int) * ((l.q (l.size - 1)).value : Int)) * v' j [ZMOD l.t.value] := by
            have := (hinv.mul_right (v' j)).symm
            rwa [one_mul] at this
      _ = (l.tool.invQLastModT : Int) * (va j + Δ j) := by rw [mul_assoc, e1]
      _ ≡ (l.tool.invQLastModT : Int) * ((a.cf : Int) * m j + 0) [ZMOD l.t.value] := ((a2 j hj').add hΔ).mul_left _
      _ = ((a.cf : Int) * (l.tool.invQLastModT : Int)) * m j := by ring
      _ ≡ (r.cf : Int) * m j [ZMOD l.t.value] := (hcf'.symm).mul_right _
  · have hj' : j < l.n := by rw [← hn.n]; exact hj
    obtain ⟨e1, _, e3⟩ := p2 j hj'
    rw [c02p_geoSum_eq]
    have hmul : (l.q (l.size - 1)).value * (v' j).natAbs ≤ V + (l.q (l.size - 1)).value * (l.t.value * c02x_geo S a.polys.size) := by
      have : ((l.q (l.size - 1)).value * (v' j).natAbs : Nat) = (va j + Δ j).natAbs := by
        rw [← e1, Int.natAbs_mul, Int.natAbs_natCast]
      rw [this]
      refine le_trans (Int.natAbs_add_le _ _) (Nat.add_le_add (a3 j hj') ?_)
      rw [← Nat.mul_assoc]; exact e3
    have h1 : (v' j).natAbs * (l.q (l.size - 1)).value ≤ V + (l.q (l.size - 1)).value * (l.t.value * c02x_geo S a.polys.size) := by
      rw [Nat.mul_comm]; exact hmul
    have h2 := (Nat.le_div_iff_mul_le hqL0).mpr h1
    rw [Nat.add_mul_div_left _ _ hqL0] at h2
    exact h2

/-! ## levelled programs -/

/-- the chain: every level built by the constructors (bundles of C01P / C05U), consecutive levels related by `c02p_Next` -/
structure c02p_ChainOK (chain : Nat → Level) (top : Nat) : Prop where
  level : ∀ c, c ≤ top → c02p_LevelOK (chain c)
  tool : ∀ c, c ≤ top → c05u_ToolOK (chain c)
  bgv : ∀ c, 0 < c → c ≤ top → c05u_BgvOK (chain c)
  next : ∀ c, c < top → c02p_Next (chain (c + 1)) (chain c)

theorem c02p_chain_n {chain : Nat → Level} {top : Nat} (hch : c02p_ChainOK chain top) :
    ∀ d c, c + d = top → (chain c).n = (chain top).n
  | 0, c, h => by have : c = top := by omega
                  rw [this]
  | d+1, c, h => by
    have h1 := c02p_chain_n hch d (c + 1) (by omega)
    have h2 := (hch.next c (by omega)).n
    rw [h2, h1]

theorem c02p_ChainOK.n {chain : Nat → Level} {top : Nat} (hch : c02p_ChainOK chain top) {c : Nat} (hc : c ≤ top) :
    (chain c).n = (chain top).n := c02p_chain_n hch (top - c) c (by omega)

/-- shadow of a levelled program: modulus switching does not change the message -/
def LProg.shadow (n : Nat) (M PL : Nat → Nat → Int) : LProg → Nat → Int
  | .inp i => M i
  | .neg p => fun j => - p.shadow n M PL j
  | .add p q => fun j => p.shadow n M PL j + q.shadow n M PL j
  | .sub p q => fun j => p.shadow n M PL j - q.shadow n M PL j
  | .mul p q => negMulR n (p.shadow n M PL) (q.shadow n M PL)
  | .mulPlain p k => negMulR n (p.shadow n M PL) (PL k)
  | .modSwitch p => p.shadow n M PL
  | .relin p => p.shadow n M PL

theorem c02p_err_ne_ok {α : Type} {e : Err} {x : α} (h : (Except.error e : R α) = .ok x) : False := by cases h

/-- THE INDUCTION for levelled programs -/
theorem c02p_lprog_inv {chain : Nat → Level} {top : Nat} (hch : c02p_ChainOK chain top) {sk : Array Int}
    (hsk : sk.size = (chain top).n) {S : Nat} (hS : ∑ k ∈ range (chain top).n, (c02p_sk sk k).natAbs ≤ S)
    (kl : KeyLevel) (rk : KSKey) (e : Nat → Nat → Int) (G : Nat → Int) (A Be : Nat)
    (cts : Nat → Nat × Ct) (pls : Nat → Nat × RnsPoly) (M PL : Nat → Nat → Int) (inB : Nat → Nat × Nat × Nat × Nat)
    (plB : Nat → Nat × Nat) :
    ∀ (prog : LProg) (x : Nat × Ct),
      (prog.usesRelin = true → ∀ c, c ≤ top → c02p_KeyLevelOf kl (chain c) ∧ c02p_RelinOK kl (chain c).size rk (c02p_sk sk) e G A Be) →
      (∀ i ∈ prog.ctInputs, (cts i).1 ≤ top ∧ c02p_Enc (chain (cts i).1) sk (cts i).2 (M i) (inB i).2.2.2 ∧
        inB i = ((cts i).1, (cts i).2.cf, (cts i).2.polys.size, (inB i).2.2.2)) →
      (∀ k ∈ prog.plInputs, RnsCanon (chain (pls k).1) (pls k).2 ∧ c02p_PlainLift (chain (pls k).1) (pls k).2 (PL k) ∧
        (∀ j, j < (chain top).n → (PL k j).natAbs ≤ (plB k).2) ∧ (plB k).1 = (pls k).1) →
      prog.eval chain kl rk cts pls = .ok x →
      x.1 ≤ top ∧ ∃ V, prog.noiseUB chain kl A Be S inB plB = some (x.1, x.2.cf, x.2.polys.size, V) ∧
        c02p_Enc (chain x.1) sk x.2 (prog.shadow (chain top).n M PL) V := by
  intro prog
  induction prog with
  | inp i =>
    intro x _ hin _ hev
    have hx : cts i = x := Except.ok.inj hev
    subst hx
    obtain ⟨hle, he, hb⟩ := hin i (by simp [LProg.ctInputs])
    exact ⟨hle, (inB i).2.2.2, by rw [LProg.noiseUB]; exact congrArg some hb, he⟩
  | neg p ih =>
    intro x hrk hin hpl hev
    rw [LProg.eval] at hev
    obtain ⟨⟨la, a⟩, hea, hev1⟩ := c01p_bind_ok hev
    obtain ⟨r, hr, hev2⟩ := c01p_bind_ok hev1
    have hx : (la, r) = x := Except.ok.inj hev2
    subst hx
    obtain ⟨hle, V, hub, ea⟩ := ih (la, a) (fun hu => hrk (by simpa [LProg.usesRelin] using hu)) hin hpl hea
    have hL := hch.level la hle
    obtain ⟨hcf, hsz, er⟩ := c02p_step_neg hL (by rw [hch.n hle]; exact hsk) ea hr
    exact ⟨hle, V, by rw [LProg.noiseUB, hub]; simp only [hcf, hsz], er⟩
  | add p q ihp ihq =>
    intro x hrk hin hpl hev
    rw [LProg.eval] at hev
    obtain ⟨⟨la, a⟩, hea, hev1⟩ := c01p_bind_ok hev
    obtain ⟨⟨lb, b⟩, heb, hev2⟩ := c01p_bind_ok hev1
    by_cases hl : la ≠ lb
    · simp only [hl, ne_eq, not_false_eq_true, if_true] at hev2
      exact (c02p_err_ne_ok hev2).elim
    · have hl' : la = lb := not_not.mp hl
      subst hl'
      simp only [ne_eq, not_true_eq_false, if_false] at hev2
      obtain ⟨r, hr, hev3⟩ := c01p_bind_ok hev2
      have hx : (la, r) = x := Except.ok.inj hev3
      subst hx
      obtain ⟨hle, Va, huba, ea⟩ := ihp (la, a) (fun hu => hrk (by simp [LProg.usesRelin, hu])) (fun i hi => hin i (by simp [LProg.ctInputs, hi]))
        (fun k hk => hpl k (by simp [LProg.plInputs, hk])) hea
      obtain ⟨_, Vb, hubb, eb⟩ := ihq (la, b) (fun hu => hrk (by simp [LProg.usesRelin, hu])) (fun i hi => hin i (by simp [LProg.ctInputs, hi]))
        (fun k hk => hpl k (by simp [LProg.plInputs, hk])) heb
      have hL := hch.level la hle
      obtain ⟨e1, e2, hbal, hsz, hE⟩ := c02p_step_tr2 hL (by rw [hch.n hle]; exact hsk) ea eb false hr
      refine ⟨hle, e1 * Va + e2 * Vb, ?_, ?_⟩
      · rw [LProg.noiseUB, huba, hubb]
        simp only [ne_eq, not_true_eq_false, if_false, hbal, hsz]
      · have hE' : c02p_Enc (chain la) sk r (fun j => p.shadow (chain top).n M PL j + q.shadow (chain top).n M PL j) (e1 * Va + e2 * Vb) := by
          simpa using hE
        exact hE'
  | sub p q ihp ihq =>
    intro x hrk hin hpl hev
    rw [LProg.eval] at hev
    obtain ⟨⟨la, a⟩, hea, hev1⟩ := c01p_bind_ok hev
    obtain ⟨⟨lb, b⟩, heb, hev2⟩ := c01p_bind_ok hev1
    by_cases hl : la ≠ lb
    · simp only [hl, ne_eq, not_false_eq_true, if_true] at hev2
      exact (c02p_err_ne_ok hev2).elim
    · have hl' : la = lb := not_not.mp hl
      subst hl'
      simp only [ne_eq, not_true_eq_false, if_false] at hev2
      obtain ⟨r, hr, hev3⟩ := c01p_bind_ok hev2
      have hx : (la, r) = x := Except.ok.inj hev3
      subst hx
      obtain ⟨hle, Va, huba, ea⟩ := ihp (la, a) (fun hu => hrk (by simp [LProg.usesRelin, hu])) (fun i hi => hin i (by simp [LProg.ctInputs, hi]))
        (fun k hk => hpl k (by simp [LProg.plInputs, hk])) hea
      obtain ⟨_, Vb, hubb, eb⟩ := ihq (la, b) (fun hu => hrk (by simp [LProg.usesRelin, hu])) (fun i hi => hin i (by simp [LProg.ctInputs, hi]))
        (fun k hk => hpl k (by simp [LProg.plInputs, hk])) heb
      have hL := hch.level la hle
      obtain ⟨e1, e2, hbal, hsz, hE⟩ := c02p_step_tr2 hL (by rw [hch.n hle]; exact hsk) ea eb true hr
      refine ⟨hle, e1 * Va + e2 * Vb, ?_, ?_⟩
      · rw [LProg.noiseUB, huba, hubb]
        simp only [ne_eq, not_true_eq_false, if_false, hbal, hsz]
      · have hE' : c02p_Enc (chain la) sk r (fun j => p.shadow (chain top).n M PL j - q.shadow (chain top).n M PL j) (e1 * Va + e2 * Vb) := by
          simpa using hE
        exact hE'
  | mul p q ihp ihq =>
    intro x hrk hin hpl hev
    rw [LProg.eval] at hev
    obtain ⟨⟨la, a⟩, hea, hev1⟩ := c01p_bind_ok hev
    obtain ⟨⟨lb, b⟩, heb, hev2⟩ := c01p_bind_ok hev1
    by_cases hl : la ≠ lb
    · simp only [hl, ne_eq, not_false_eq_true, if_true] at hev2
      exact (c02p_err_ne_ok hev2).elim
    · have hl' : la = lb := not_not.mp hl
      subst hl'
      simp only [ne_eq, not_true_eq_false, if_false] at hev2
      obtain ⟨r, hr, hev3⟩ := c01p_bind_ok hev2
      have hx : (la, r) = x := Except.ok.inj hev3
      subst hx
      obtain ⟨hle, Va, huba, ea⟩ := ihp (la, a) (fun hu => hrk (by simp [LProg.usesRelin, hu])) (fun i hi => hin i (by simp [LProg.ctInputs, hi]))
        (fun k hk => hpl k (by simp [LProg.plInputs, hk])) hea
      obtain ⟨_, Vb, hubb, eb⟩ := ihq (la, b) (fun hu => hrk (by simp [LProg.usesRelin, hu])) (fun i hi => hin i (by simp [LProg.ctInputs, hi]))
        (fun k hk => hpl k (by simp [LProg.plInputs, hk])) heb
      have hL := hch.level la hle
      obtain ⟨hcf, hsz, hE⟩ := c02p_step_mul hL (by rw [hch.n hle]; exact hsk) ea eb hr
      refine ⟨hle, (chain la).n * Va * Vb, ?_, ?_⟩
      · rw [LProg.noiseUB, huba, hubb]
        simp only [ne_eq, not_true_eq_false, if_false, hcf, hsz]
      · have e : negMulR (R := Int) (chain la).n = negMulR (chain top).n := by rw [hch.n hle]
        rw [e] at hE
        exact hE
  | mulPlain p k ih =>
    intro x hrk hin hpl hev
    rw [LProg.eval] at hev
    obtain ⟨⟨la, a⟩, hea, hev1⟩ := c01p_bind_ok hev
    obtain ⟨hpc, hpL, hpB, hpl1⟩ := hpl k (by simp [LProg.plInputs])
    by_cases hl : la ≠ (pls k).1
    · simp only [hl, ne_eq, not_false_eq_true, if_true] at hev1
      exact (c02p_err_ne_ok hev1).elim
    · have hl' : la = (pls k).1 := not_not.mp hl
      simp only [hl, ne_eq, if_false] at hev1
      obtain ⟨r, hr, hev3⟩ := c01p_bind_ok hev1
      have hx : (la, r) = x := Except.ok.inj hev3
      subst hx
      obtain ⟨hle, Va, huba, ea⟩ := ih (la, a) (fun hu => hrk (by simpa [LProg.usesRelin] using hu)) hin (fun k' hk => hpl k' (by simp [LProg.plInputs, hk])) hea
      have hL := hch.level la hle
      rw [← hl'] at hpc hpL
      obtain ⟨hcf, hsz, hE⟩ := c02p_step_pl hL (by rw [hch.n hle]; exact hsk) ea hpc hpL
        (fun j hj => hpB j (by rw [← hch.n hle]; exact hj)) hr
      refine ⟨hle, (chain la).n * Va * (plB k).2, ?_, ?_⟩
      · rw [LProg.noiseUB, huba]
        simp only [hpl1, hl, ne_eq, if_false, hcf, hsz]
      · have e : negMulR (R := Int) (chain la).n = negMulR (chain top).n := by rw [hch.n hle]
        rw [e] at hE
        exact hE
  | modSwitch p ih =>
    intro x hrk hin hpl hev
    rw [LProg.eval] at hev
    obtain ⟨⟨la, a⟩, hea, hev1⟩ := c01p_bind_ok hev
    by_cases hl : la = 0
    · simp only [hl, if_true] at hev1
      exact (c02p_err_ne_ok hev1).elim
    · simp only [hl, if_false] at hev1
      obtain ⟨r, hr, hev3⟩ := c01p_bind_ok hev1
      have hx : (la - 1, r) = x := Except.ok.inj hev3
      subst hx
      obtain ⟨hle, Va, huba, ea⟩ := ih (la, a) (fun hu => hrk (by simpa [LProg.usesRelin] using hu)) hin hpl hea
      have hle' : la - 1 ≤ top := by omega
      have hnx : c02p_Next (chain la) (chain (la - 1)) := by
        have := hch.next (la - 1) (by omega)
        rwa [show la - 1 + 1 = la by omega] at this
      obtain ⟨hcf, hsz, hE⟩ := c02p_step_ms (hch.level la hle) (hch.level (la - 1) hle') (hch.tool la hle) (hch.tool (la - 1) hle')
        (hch.bgv la (by omega) hle) hnx (by rw [hch.n hle]; exact hsk) (S := S) (by rw [hch.n hle]; exact hS) ea hr
      refine ⟨hle', _, ?_, hE⟩
      rw [LProg.noiseUB, huba]
      simp only [hl, if_false, hcf, hsz]
  | relin p ih =>
    intro x hrk hin hpl hev
    rw [LProg.eval] at hev
    obtain ⟨⟨la, a⟩, hea, hev1⟩ := c01p_bind_ok hev
    by_cases hl : a.polys.size > 3
    · simp only [hl, if_true] at hev1
      exact (c02p_err_ne_ok hev1).elim
    · simp only [hl, if_false] at hev1
      obtain ⟨r, hr, hev3⟩ := c01p_bind_ok hev1
      have hx : (la, r) = x := Except.ok.inj hev3
      subst hx
      obtain ⟨hle, Va, huba, ea⟩ := ih (la, a) (fun _ => hrk rfl) hin hpl hea
      have h2 : 2 ≤ a.polys.size := ea.1.canon.two_le
      by_cases h22 : a.polys.size = 2
      · -- nothing to do: `relinearize` returns the ciphertext unchanged
        have hr' : r = a := by
          have e2 : relinearize kl .bgv (chain la).size (fun i => if i = 2 then some rk else none) 3 a = pure a := by
            show (if a.polys.size < 2 then _ else if a.polys.size = 2 then pure a else _) = _
            rw [if_neg (by omega), if_pos h22]
          rw [e2] at hr
          exact (Except.ok.inj hr).symm
        subst hr'
        refine ⟨hle, Va, ?_, ea⟩
        rw [LProg.noiseUB, huba]
        simp only [h22, if_true]
      · have h3 : a.polys.size = 3 := by omega
        obtain ⟨hko, hro⟩ := hrk rfl la hle
        obtain ⟨hcf, hsz, hE⟩ := c02p_step_relin (hch.level la hle) hko (by rw [hch.n hle]; exact hsk) hro (S := S)
          (by rw [hch.n hle]; exact hS) ea h3 (fun i => if i = 2 then some rk else none) (by simp) 1 hr
        refine ⟨hle, _, ?_, hE⟩
        rw [LProg.noiseUB, huba]
        simp only [h3, hcf, hsz, ksNoise, KeyLevel.c04t_P]
        simp

/-! ## Property theorem -/

/-- THE PROGRAM-LEVEL HOMOMORPHISM THEOREM (BGV, levelled): programs over negate / add / sub / multiply / multiply_plain, `mod_switch_to_next` AND
    `relinearize` (size ≤ 3, key for s²), along any chain of constructor-built levels (`c02p_ChainOK`), for any secret with `‖s‖₁ ≤ S`.  If the model does
    not refuse the program and returns `(lv, r)`, and the a-priori bookkeeping returns the bound `V` with `2·V < Q_lv`, then decrypting `r`
    AT ITS LEVEL gives the shadow program's value modulo t. -/
theorem hom_program_bgv_levelled {chain : Nat → Level} {top : Nat} (hch : c02p_ChainOK chain top) {sk : Array Int}
    (hsk : sk.size = (chain top).n) {S : Nat} (hS : ∑ k ∈ range (chain top).n, (c02p_sk sk k).natAbs ≤ S)
    (kl : KeyLevel) (rk : KSKey) (e : Nat → Nat → Int) (G : Nat → Int) (A Be : Nat)
    (cts : Nat → Nat × Ct) (pls : Nat → Nat × RnsPoly) (M PL : Nat → Nat → Int) (inB : Nat → Nat × Nat × Nat × Nat)
    (plB : Nat → Nat × Nat) (prog : LProg) {lv : Nat} {r : Ct}
    (hrk : prog.usesRelin = true → ∀ c, c ≤ top → c02p_KeyLevelOf kl (chain c) ∧ c02p_RelinOK kl (chain c).size rk (c02p_sk sk) e G A Be)
    (hin : ∀ i ∈ prog.ctInputs, (cts i).1 ≤ top ∧ c02p_Enc (chain (cts i).1) sk (cts i).2 (M i) (inB i).2.2.2 ∧
        inB i = ((cts i).1, (cts i).2.cf, (cts i).2.polys.size, (inB i).2.2.2))
    (hpl : ∀ k ∈ prog.plInputs, RnsCanon (chain (pls k).1) (pls k).2 ∧ c02p_PlainLift (chain (pls k).1) (pls k).2 (PL k) ∧
        (∀ j, j < (chain top).n → (PL k j).natAbs ≤ (plB k).2) ∧ (plB k).1 = (pls k).1)
    (hev : prog.eval chain kl rk cts pls = .ok (lv, r)) {st : Nat × Nat × Nat} {V : Nat}
    (hub : prog.noiseUB chain kl A Be S inB plB = some (st.1, st.2.1, st.2.2, V)) (hV : 2 * V < (chain lv).tool.baseQ.prod) :
    bgvDecrypt (chain lv) sk r = .ok (Spec.trim (Array.ofFn (n := (chain lv).n) fun j =>
      Spec.imod (prog.shadow (chain top).n M PL j.val) (chain lv).t.value)) := by
  obtain ⟨hle, V', hub', he⟩ := c02p_lprog_inv hch hsk hS kl rk e G A Be cts pls M PL inB plB prog (lv, r) hrk hin hpl hev
  rw [hub] at hub'
  have hVV : V = V' := by
    injection hub' with h1
    injection h1 with _ h2
    injection h2 with _ h3
    injection h3
  subst hVV
  exact c02p_decrypt_of_enc (hch.level lv hle) (by rw [hch.n hle]; exact hsk) he hV

end HC
