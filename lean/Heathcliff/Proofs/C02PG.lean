/- C02 (task P, part 5): steps of the induction in `c02p_Enc` form (with sizes), the modulus-switching step, and the LEVELLED program theorem
   `hom_program_bgv_levelled` (programs `LProg` over negate / add / sub / multiply / multiply_plain / mod_switch_to_next along a chain). -/
import Heathcliff.Proofs.C02PH
import Heathcliff.Proofs.C02PM
namespace HC
open Finset

theorem c02p_geoSum_eq (S : Nat) : ∀ m, geoSum S m = c02x_geo S m
  | 0 => rfl
  | m+1 => by simp [geoSum, c02x_geo, c02p_geoSum_eq S m]

/-! ## steps -/

theorem c02p_step_neg {l : Level} (h : c02p_LevelOK l) {sk : Array Int} (hsk : sk.size = l.n) {a r : Ct} {m : Nat → Int} {V : Nat}
    (ha : c02p_Enc l sk a m V) (hr : ctNegate l a = .ok r) :
    r.cf = a.cf ∧ r.polys.size = a.polys.size ∧ c02p_Enc l sk r (fun j => - m j) V := by
  obtain ⟨ga, va, a1, a2, a3⟩ := ha
  obtain ⟨gr, hcf, hsz, hph⟩ := c02p_negate_ph h hsk ga hr (sk := sk)
  refine ⟨hcf, hsz, gr, fun j => - va j, fun j hj => (hph j hj).trans (a1 j hj).neg, fun j hj => ?_,
    fun j hj => by rw [Int.natAbs_neg]; exact a3 j hj⟩
  rw [hcf, mul_neg]
  exact (a2 j hj).neg

theorem c02p_step_tr2 {l : Level} (h : c02p_LevelOK l) {sk : Array Int} (hsk : sk.size = l.n) {a b r : Ct} {ma mb : Nat → Int}
    {Va Vb : Nat} (ha : c02p_Enc l sk a ma Va) (hb : c02p_Enc l sk b mb Vb) (sub : Bool)
    (hr : ctTranslateBalanced l a b sub = .ok r) :
    ∃ e1 e2 : Nat, c02p_balance l.t a.cf b.cf = some (r.cf, e1, e2) ∧ r.polys.size = max a.polys.size b.polys.size ∧
      c02p_Enc l sk r (fun j => if sub then ma j - mb j else ma j + mb j) (e1 * Va + e2 * Vb) := by
  obtain ⟨e1, e2, hbal, hE⟩ := c02p_step_tr h hsk ha hb sub hr
  obtain ⟨_, _, _, _, hsz, _⟩ := c02p_translate_ph h hsk ha.1 hb.1 sub hr (sk := sk)
  exact ⟨e1, e2, hbal, hsz, hE⟩

theorem c02p_step_mul {l : Level} (h : c02p_LevelOK l) {sk : Array Int} (hsk : sk.size = l.n) {a b r : Ct} {ma mb : Nat → Int}
    {Va Vb : Nat} (ha : c02p_Enc l sk a ma Va) (hb : c02p_Enc l sk b mb Vb) (hr : bgvMultiply l a b = .ok r) :
    r.cf = (a.cf * b.cf) % l.t.value ∧ r.polys.size = a.polys.size + b.polys.size - 1 ∧
      c02p_Enc l sk r (negMulR l.n ma mb) (l.n * Va * Vb) := by
  obtain ⟨ga, va, a1, a2, a3⟩ := ha
  obtain ⟨gb, vb, b1, b2, b3⟩ := hb
  obtain ⟨gr, hcf, hsz, hph⟩ := c02p_mul_ph h hsk ga gb hr (sk := sk)
  refine ⟨hcf, hsz, gr, negMulR l.n va vb, fun j hj => ?_, fun j hj => ?_, fun j hj => ?_⟩
  · exact (hph j hj).trans (c02x_negMulR_modEq l.n _ a1 b1 hj)
  · refine (c02x_negMulR_modEq l.n _ a2 b2 hj).trans ?_
    rw [c05u_negMul_smul, c02p_negMul_smul_right, ← mul_assoc, hcf]
    refine Int.ModEq.mul_right _ ?_
    rw [Int.natCast_mod, Nat.cast_mul]
    exact (Int.mod_modEq _ _).symm
  · exact c02p_negMul_bound l.n va vb Va Vb j hj a3 b3

theorem c02p_step_pl {l : Level} (h : c02p_LevelOK l) {sk : Array Int} (hsk : sk.size = l.n) {a r : Ct} {ma : Nat → Int} {Va : Nat}
    (ha : c02p_Enc l sk a ma Va) {p : RnsPoly} (hp : RnsCanon l p) {P : Nat → Int} (hP : c02p_PlainLift l p P) {Bp : Nat}
    (hB : ∀ j, j < l.n → (P j).natAbs ≤ Bp) (hr : ctMultiplyPlainNtt l a p = .ok r) :
    r.cf = a.cf ∧ r.polys.size = a.polys.size ∧ c02p_Enc l sk r (negMulR l.n ma P) (l.n * Va * Bp) := by
  obtain ⟨ga, va, a1, a2, a3⟩ := ha
  obtain ⟨gr, hcf, hsz, hph⟩ := c02p_mulPlain_ph h hsk ga hp hP hr (sk := sk)
  refine ⟨hcf, hsz, gr, negMulR l.n va P, fun j hj => ?_, fun j hj => ?_, fun j hj => ?_⟩
  · exact (hph j hj).trans (c02x_negMulR_modEq l.n _ a1 (fun i _ => Int.ModEq.refl _) hj)
  · refine (c02x_negMulR_modEq l.n _ a2 (fun i _ => Int.ModEq.refl _) hj).trans ?_
    rw [c05u_negMul_smul, hcf]
  · exact c02p_negMul_bound l.n va P Va Bp j hj a3 hB

/-- the modulus-switching step: same message, factor `cf·q_L^{-1} mod t`, norm `≤ V / q_L + t·Σ_{k<size} S^k` -/
theorem c02p_step_ms {l l' : Level} (h : c02p_LevelOK l) (h' : c02p_LevelOK l') (hto : c05u_ToolOK l) (hto' : c05u_ToolOK l')
    (hg : c05u_BgvOK l) (hn : c02p_Next l l') {sk : Array Int} (hsk : sk.size = l.n) {S : Nat}
    (hS : ∑ k ∈ range l.n, (c02p_sk sk k).natAbs ≤ S) {a r : Ct} {m : Nat → Int} {V : Nat}
    (ha : c02p_Enc l sk a m V) (hr : modSwitchScaleNext l a = .ok r) :
    r.cf = (a.cf * l.tool.invQLastModT) % l.t.value ∧ r.polys.size = a.polys.size ∧
      c02p_Enc l' sk r m (V / (l.q (l.size - 1)).value + l.t.value * geoSum S a.polys.size) := by
  obtain ⟨ga, va, a1, a2, a3⟩ := ha
  obtain ⟨gr, hcf, hsz, v', Δ, p1, p2⟩ := c02p_modswitch_ph h h' hto hto' hg hn hsk hS ga hr a1
  have htw := h.twf
  have ht0 : 0 < l.t.value := by have := htw.two_le; omega
  have h2 : 2 ≤ l.size := by
    have : 1 ≤ l'.size := by have := h'.lq.bwf.pos; rw [h'.lq.size_eq] at this; exact this
    have := hn.size; omega
  have hqL0 : 0 < (l.q (l.size - 1)).value := by have := (c05u_qwf hto (show l.size - 1 < l.size by omega)).two_le; omega
  refine ⟨hcf, hsz, gr, v', fun j hj => p1 j (by rw [← hn.n]; exact hj), fun j hj => ?_, fun j hj => ?_⟩
  · have hj' : j < l.n := by rw [← hn.n]; exact hj
    obtain ⟨e1, e2, _⟩ := p2 j hj'
    rw [hn.t]
    -- invt·q_L ≡ 1 (mod t)
    have hinv : (l.tool.invQLastModT : Int) * ((l.q (l.size - 1)).value : Int) ≡ 1 [ZMOD l.t.value] := by
      have : Nat.ModEq l.t.value (l.tool.invQLastModT * (l.q (l.size - 1)).value) 1 := by
        unfold Nat.ModEq; rw [hg.invt, Nat.mod_eq_of_lt (by have := htw.two_le; omega)]
      have := Int.natCast_modEq_iff.mpr this
      push_cast at this
      exact this
    have hΔ : Δ j ≡ 0 [ZMOD l.t.value] := (Int.modEq_zero_iff_dvd).mpr e2
    have hcf' : (r.cf : Int) ≡ (a.cf : Int) * (l.tool.invQLastModT : Int) [ZMOD l.t.value] := by
      rw [hcf, Int.natCast_mod, Nat.cast_mul]
      exact Int.mod_modEq _ _
    calc v' j ≡ ((l.tool.invQLastModT : Int) * ((l.q (l.size - 1)).value : Int)) * v' j [ZMOD l.t.value] := by
            have := (hinv.mul_right (v' j)).symm
            rwa [one_mul] at this
      _ = (l.tool.invQLastModT : Int) * (va j + Δ j) := by rw [mul_assoc, e1]
      _ ≡ (l.tool.invQLastModT : Int) * ((a.cf : Int) * m j + 0) [ZMOD l.t.value] := ((a2 j hj').add hΔ).mul_left _
      _ = ((a.cf : Int) * (l.tool.invQLastModT : Int)) * m j := by ring
      _ ≡ (r.cf : Int) * m j [ZMOD l.t.value] := (hcf'.symm).mul_right _
  · have hj' : j < l.n := by rw [← hn.n]; exact hj
    obtain ⟨e1, _, e3⟩ := p2 j hj'
    rw [c02p_geoSum_eq]
    have hmul : (l.q (l.size - 1)).value * (v' j).natAbs ≤ V + (l.q (l.size - 1)).value * (l.t.value * c02x_geo S a.polys.size) := by
      have : ((l.q (l.size - 1)).value * (v' j).natAbs : Nat) = (va j + Δ j).natAbs := by
        rw [← e1, Int.natAbs_mul, Int.natAbs_natCast]
      rw [this]
      refine le_trans (Int.natAbs_add_le _ _) (Nat.add_le_add (a3 j hj') ?_)
      rw [← Nat.mul_assoc]; exact e3
    have h1 : (v' j).natAbs * (l.q (l.size - 1)).value ≤ V + (l.q (l.size - 1)).value * (l.t.value * c02x_geo S a.polys.size) := by
      rw [Nat.mul_comm]; exact hmul
    have h2 := (Nat.le_div_iff_mul_le hqL0).mpr h1
    rw [Nat.add_mul_div_left _ _ hqL0] at h2
    exact h2

end HC
