/- C01 part H: public-key encryption THROUGH THE PREVIOUS LEVEL (`encDivideQLast`): the special-prime path of the first level (the
   default parameters!) and every lower level.  The encryption of zero is made at the previous level `pl` (noise ν) and divided by
   its last prime q_L; the result is a fresh encryption of zero at `l` with noise ν', q_L·ν' = ν + ρ, where the rounding term ρ satisfies
   2‖ρ‖∞ ≤ q_L(1 + ‖s‖₁) (BFV, CKKS) resp. ‖ρ‖∞ ≤ q_L(1 + ‖s‖₁) (BGV).  Helper names carry the prefix `c01h_`. -/
import Heathcliff.Proofs.C01G
namespace HC
open Finset Polynomial

/-- integer core: if q_L·Y_k = X_k + D_k coefficient-wise and phase(X) ≡ v modulo Q'·q_L then phase(Y) ≡ w modulo Q' with q_L·w = v + phase(D) -/
theorem c01h_switch_core (n : Nat) (qL Ql : Int) (X0 X1 Y0 Y1 s : Nat → Int) (c : Nat) (hc : c < n) (v : Int)
    (hv : c05u_phase2 n X0 X1 s c ≡ v [ZMOD (Ql * qL)]) :
    ∃ w : Int, c05u_phase2 n Y0 Y1 s c ≡ w [ZMOD Ql] ∧
      qL * w = v + c05u_phase2 n (fun j => qL * Y0 j - X0 j) (fun j => qL * Y1 j - X1 j) s c := by
  obtain ⟨k, hk⟩ := Int.modEq_iff_dvd.mp hv
  have hsw := c05u_phase2_switch n qL X0 X1 Y0 Y1 (fun j => qL * Y0 j - X0 j) (fun j => qL * Y1 j - X1 j) s
    (fun j _ => by ring) (fun j _ => by ring) c hc
  refine ⟨c05u_phase2 n Y0 Y1 s c + Ql * k, ?_, ?_⟩
  · apply Int.modEq_iff_dvd.mpr; exact ⟨k, by ring⟩
  · rw [mul_add, hsw]; linear_combination (-1 : Int) * hk

/-- `o` is, on coefficient views, the division `Y` of the CRT values of `p` (level `pl`, result on the first `pl.size − 1` components) -/
def c01h_DivLift (pl : Level) (ntt : Bool) (Y : Nat → Int) (p o : RnsPoly) : Prop :=
  o.size = pl.size - 1 ∧ ∀ i, i < pl.size - 1 → (o.getD i #[]).size = pl.n ∧
    (∀ j, j < pl.n → (o.getD i #[]).getD j 0 < (pl.q i).value) ∧
    ∀ j, j < pl.n → ∀ X, c05u_IsCrt pl (cview pl ntt p) j X →
      (((if ntt then intt (pl.tbl i) (o.getD i #[]) else o.getD i #[]).getD j 0 : Nat) : Int) ≡ Y X [ZMOD ((pl.q i).value : Int)]

/-- the rounding division of a CRT value -/
def c01h_roundY (qL X : Nat) : Int := (((X + qL / 2) / qL : Nat) : Int)

theorem c01h_divLift_bfv {pl : Level} (h : c05u_ToolOK pl) {p o : RnsPoly} (hp : RnsCanon pl p)
    (ho : c05u_RoundDivOf pl p o) : c01h_DivLift pl false (c01h_roundY (pl.q (pl.size - 1)).value) p o := by
  refine ⟨ho.1, fun i hi => ?_⟩
  obtain ⟨h1, h2⟩ := ho.2 i hi
  have hq0 : 0 < (pl.q i).value := by have := (c05u_qwf h (show i < pl.size by omega)).two_le; omega
  refine ⟨h1, fun j hj => ?_, fun j hj X hX => ?_⟩
  · obtain ⟨X, hX⟩ := c05u_crt_exists h hp hj
    rw [h2 j hj X hX]; exact Nat.mod_lt _ hq0
  · have hX' : c05u_IsCrt pl p j X := hX
    simp only [Bool.false_eq_true, ↓reduceIte]
    rw [h2 j hj X hX']
    exact cast_mod_modEq _ _

theorem c01h_divLift_ckks {pl : Level} {p o : RnsPoly}
    (ho : c05u_RoundDivOfNtt pl p o) : c01h_DivLift pl true (c01h_roundY (pl.q (pl.size - 1)).value) p o := by
  refine ⟨ho.1, fun i hi => ?_⟩
  obtain ⟨h1, h2, h3⟩ := ho.2 i hi
  refine ⟨h1, h2, fun j hj X hX => ?_⟩
  have hX' : c05u_IsCrt pl (rnsIntt pl p) j X := hX
  simp only [↓reduceIte]
  rw [h3 j hj X hX']
  exact cast_mod_modEq _ _

theorem c01h_divLift_bgv {pl : Level} {p o : RnsPoly}
    (ho : c05u_BgvDivOfNtt pl p o) :
    c01h_DivLift pl true (c05u_bgvY pl.t.value (pl.q (pl.size - 1)).value pl.tool.invQLastModT) p o := by
  refine ⟨ho.1, fun i hi => ?_⟩
  obtain ⟨h1, h2, h3⟩ := ho.2 i hi
  refine ⟨h1, h2, fun j hj X hX => ?_⟩
  have hX' : c05u_IsCrt pl (rnsIntt pl p) j X := hX
  simp only [↓reduceIte]
  rw [h3 j hj X hX']
  exact Int.mod_modEq _ _

theorem c01h_prodL {l : Level} (hq : c07s_LevelQ l) : Spec.prodL (c01p_qvals l) = c05u_Q l := by
  rw [c01q_qvals_eq hq, c01p_prodL_bvals hq.bwf]; rfl

/-- PHASE of the divided ciphertext: canonical at the next level, and for every coefficient the phase at `l` is ≡ w modulo Q_l with
    q_L·w = V + phase(D), D_k = q_L·Y(X_k) − X_k for the CRT values X_k of the source's coefficient views -/
theorem c01h_divide_phase {pl l : Level} (hpl : pl.WF) (hqp : c07s_LevelQ pl) (htool : c05u_ToolOK pl)
    (hql : c07s_LevelQ l) (htool' : c05u_ToolOK l) (hnext : c05u_IsNext pl l) (htbl : ∀ i, i < l.size → l.tbl i = pl.tbl i)
    {sk : Array Int} (ntt : Bool) (Y : Nat → Int) {T0 T1 O0 O1 : RnsPoly} (hT0 : RnsCanon pl T0) (hT1 : RnsCanon pl T1)
    (hO0 : c01h_DivLift pl ntt Y T0 O0) (hO1 : c01h_DivLift pl ntt Y T1 O1) {V : Nat → Int}
    (hV : ∀ c, c < pl.n → (encPhase pl sk ntt T0 T1).getD c 0 ≡ V c [ZMOD (Spec.prodL (c01p_qvals pl) : Int)]) :
    RnsCanon l O0 ∧ RnsCanon l O1 ∧ ∃ X0 X1 : Nat → Nat, ∀ c, c < l.n → ∃ w : Int,
      (encPhase l sk ntt O0 O1).getD c 0 ≡ w [ZMOD (Spec.prodL (c01p_qvals l) : Int)] ∧
      ((pl.q (pl.size - 1)).value : Int) * w = V c + c05u_phase2 l.n
        (fun j => ((pl.q (pl.size - 1)).value : Int) * Y (X0 j) - (X0 j : Int))
        (fun j => ((pl.q (pl.size - 1)).value : Int) * Y (X1 j) - (X1 j : Int)) (fun p => sk.getD p 0) c := by
  have hsz : l.size = pl.size - 1 := by have := hnext.size; omega
  have hn := hnext.n
  have hcan : ∀ {T O : RnsPoly}, c01h_DivLift pl ntt Y T O → RnsCanon l O := by
    intro T O hO
    refine ⟨by rw [hO.1, hsz], fun i hi => ?_⟩
    obtain ⟨h1, h2, -⟩ := hO.2 i (by omega)
    exact ⟨by rw [h1, hn], fun j hj => by rw [hnext.q i hi]; exact h2 j (by rw [← hn]; exact hj)⟩
  have hC0 := c01g_cview_canon hpl (ntt := ntt) hT0
  have hC1 := c01g_cview_canon hpl (ntt := ntt) hT1
  have ex0 : ∀ j, ∃ X, j < pl.n → c05u_IsCrt pl (cview pl ntt T0) j X := fun j => by
    by_cases hj : j < pl.n
    · obtain ⟨X, hX⟩ := c05u_crt_exists htool hC0 hj; exact ⟨X, fun _ => hX⟩
    · exact ⟨0, fun h => absurd h hj⟩
  have ex1 : ∀ j, ∃ X, j < pl.n → c05u_IsCrt pl (cview pl ntt T1) j X := fun j => by
    by_cases hj : j < pl.n
    · obtain ⟨X, hX⟩ := c05u_crt_exists htool hC1 hj; exact ⟨X, fun _ => hX⟩
    · exact ⟨0, fun h => absurd h hj⟩
  choose X0 hX0 using ex0
  choose X1 hX1 using ex1
  refine ⟨hcan hO0, hcan hO1, X0, X1, fun c hc => ?_⟩
  have hc' : c < pl.n := by rw [← hn]; exact hc
  -- the phase at `pl` in terms of the CRT values
  have hlift : ∀ {T : RnsPoly} {X : Nat → Nat}, (∀ j, j < pl.n → c05u_IsCrt pl (cview pl ntt T) j (X j)) →
      ∀ i, i < pl.size → ∀ c, c < pl.n → ((((cview pl ntt T).getD i #[]).getD c 0 : Nat) : Int) ≡ (X c : Int)
        [ZMOD ((pl.q i).value : Int)] := by
    intro T X hX i hi c hc
    rw [← (hX c hc).2 i hi]
    exact cast_mod_modEq _ _
  have hp := c01g_phase_of_lift hqp (sk := sk) (C0 := cview pl ntt T0) (C1 := cview pl ntt T1)
    (Z0 := fun j => (X0 j : Int)) (Z1 := fun j => (X1 j : Int)) hC0.1 hC1.1 (hlift hX0) (hlift hX1) c hc'
  have hv : c05u_phase2 pl.n (fun j => (X0 j : Int)) (fun j => (X1 j : Int)) (fun p => sk.getD p 0) c ≡ V c
      [ZMOD ((Spec.prodL (c01p_qvals l) : Int) * ((pl.q (pl.size - 1)).value : Int))] := by
    have hQ : (Spec.prodL (c01p_qvals pl) : Int) = (Spec.prodL (c01p_qvals l) : Int) * ((pl.q (pl.size - 1)).value : Int) := by
      rw [c01h_prodL hqp, c01h_prodL hql, c05u_Q_next htool htool' hnext]; push_cast; ring
    rw [← hQ]
    exact hp.symm.trans (hV c hc')
  obtain ⟨w, hw1, hw2⟩ := c01h_switch_core pl.n ((pl.q (pl.size - 1)).value : Int) (Spec.prodL (c01p_qvals l) : Int)
    (fun j => (X0 j : Int)) (fun j => (X1 j : Int)) (fun j => Y (X0 j)) (fun j => Y (X1 j)) (fun p => sk.getD p 0) c hc' (V c) hv
  refine ⟨w, ?_, by rw [hn]; exact hw2⟩
  -- the phase at `l` in terms of Y
  have hlift' : ∀ {T O : RnsPoly} {X : Nat → Nat}, c01h_DivLift pl ntt Y T O → (∀ j, j < pl.n → c05u_IsCrt pl (cview pl ntt T) j (X j)) →
      ∀ i, i < l.size → ∀ c, c < l.n → ((((cview l ntt O).getD i #[]).getD c 0 : Nat) : Int) ≡ Y (X c)
        [ZMOD ((l.q i).value : Int)] := by
    intro T O X hO hX i hi c hc
    rw [c01g_cview_getD l ntt O hi, htbl i hi, hnext.q i hi]
    exact (hO.2 i (by omega)).2.2 c (by rw [← hn]; exact hc) (X c) (hX c (by rw [← hn]; exact hc))
  have hp' := c01g_phase_of_lift hql (sk := sk) (C0 := cview l ntt O0) (C1 := cview l ntt O1)
    (Z0 := fun j => Y (X0 j)) (Z1 := fun j => Y (X1 j)) (c01g_cview_size (hcan hO0).1) (c01g_cview_size (hcan hO1).1)
    (hlift' hO0 hX0) (hlift' hO1 hX1) c hc
  rw [← hn] at hw1
  exact hp'.trans hw1

/-- the division the scheme applies to a CRT value: BGV `(X − [X]_{q_L})/q_L − [−X q_L^{-1}]_t`, otherwise rounding -/
def c01h_Y (pl : Level) : Nat → Int :=
  if pl.scheme = .bgv then c05u_bgvY pl.t.value (pl.q (pl.size - 1)).value pl.tool.invQLastModT
  else c01h_roundY (pl.q (pl.size - 1)).value

theorem c01h_divide_of_polys {pl : Level} (F : RnsPoly → R RnsPoly) (ntt : Bool) (Y : Nat → Int) {T0 T1 : RnsPoly}
    (h : ∀ T, (T = T0 ∨ T = T1) → ∃ o, F T = .ok o ∧ c01h_DivLift pl ntt Y T o) :
    ∃ O0 O1, (do let ps ← (#[T0, T1] : Array RnsPoly).toList.mapM F; pure (⟨ps.toArray, ntt, 1⟩ : Ct)) = .ok ⟨#[O0, O1], ntt, 1⟩ ∧
      c01h_DivLift pl ntt Y T0 O0 ∧ c01h_DivLift pl ntt Y T1 O1 := by
  obtain ⟨o0, e0, d0⟩ := h T0 (Or.inl rfl)
  obtain ⟨o1, e1, d1⟩ := h T1 (Or.inr rfl)
  refine ⟨o0, o1, ?_, d0, d1⟩
  show (do let ps ← [T0, T1].mapM F; pure (⟨ps.toArray, ntt, 1⟩ : Ct)) = _
  rw [List.mapM_cons, e0, ok_bind, List.mapM_cons, e1, ok_bind, List.mapM_nil]
  rfl

/-- the division step succeeds on a canonical size-2 ciphertext in the scheme's form and yields `c01h_DivLift` for both polynomials -/
theorem c01h_divide_ok {pl : Level} (hpl : pl.WF) (htool : c05u_ToolOK pl) (h2 : 2 ≤ pl.size)
    (hbg : pl.scheme = .bgv → c05u_BgvOK pl) {T0 T1 : RnsPoly} (hT0 : RnsCanon pl T0) (hT1 : RnsCanon pl T1) :
    ∃ O0 O1, encDivideQLast pl (pl.size - 1) ⟨#[T0, T1], pl.scheme.encNtt, 1⟩ = .ok ⟨#[O0, O1], pl.scheme.encNtt, 1⟩ ∧
      c01h_DivLift pl pl.scheme.encNtt (c01h_Y pl) T0 O0 ∧ c01h_DivLift pl pl.scheme.encNtt (c01h_Y pl) T1 O1 := by
  have hcases : pl.scheme = .bfv ∨ pl.scheme = .ckks ∨ pl.scheme = .bgv := by cases pl.scheme <;> simp
  have hcanon : ∀ T, (T = T0 ∨ T = T1) → RnsCanon pl T := fun T hT => by rcases hT with rfl | rfl <;> assumption
  rcases hcases with hsc | hsc | hsc
  · have hn : pl.scheme.encNtt = false := by rw [hsc]; rfl
    have hY : c01h_Y pl = c01h_roundY (pl.q (pl.size - 1)).value := by unfold c01h_Y; rw [if_neg (by rw [hsc]; decide)]
    rw [hn, hY]
    unfold encDivideQLast
    simp only [hsc]
    exact c01h_divide_of_polys _ false _ (fun T hT => by
      obtain ⟨o, ho, hd⟩ := c05u_bfv_poly htool h2 (hcanon T hT)
      exact ⟨o, ho, c01h_divLift_bfv htool (hcanon T hT) hd⟩)
  · have hn : pl.scheme.encNtt = true := by rw [hsc]; rfl
    have hY : c01h_Y pl = c01h_roundY (pl.q (pl.size - 1)).value := by unfold c01h_Y; rw [if_neg (by rw [hsc]; decide)]
    rw [hn, hY]
    unfold encDivideQLast
    simp only [hsc]
    exact c01h_divide_of_polys _ true _ (fun T hT => by
      obtain ⟨o, ho, hd⟩ := c05u_ckks_poly hpl htool h2 (hcanon T hT)
      exact ⟨o, ho, c01h_divLift_ckks hd⟩)
  · have hn : pl.scheme.encNtt = true := by rw [hsc]; rfl
    have hY : c01h_Y pl = c05u_bgvY pl.t.value (pl.q (pl.size - 1)).value pl.tool.invQLastModT := by
      unfold c01h_Y; rw [if_pos hsc]
    rw [hn, hY]
    unfold encDivideQLast
    simp only [hsc]
    exact c01h_divide_of_polys _ true _ (fun T hT => by
      obtain ⟨o, ho, hd⟩ := c05u_bgv_poly hpl htool (hbg hsc) h2 (hcanon T hT)
      exact ⟨o, ho, c01h_divLift_bgv hd⟩)

/-- ‖s‖₁ over the first n coefficients -/
def skNorm1 (n : Nat) (sk : Array Int) : Nat := ∑ k ∈ range n, (sk.getD k 0).natAbs

/-- the factor of the rounding term: BGV's division error is up to q_L·t per coefficient (factor 2 relative to rounding) -/
def encSlack (l : Level) : Nat := if l.scheme = .bgv then 2 else 1

/-- bookkeeping: from q_L·w = tt·ν + D with tt ∣ D, tt coprime to q_L: w = tt·ν', q_L·ν' = ν + ρ, D = tt·ρ -/
theorem c01h_split {tt : Nat} (htt : 0 < tt) {qL w ν D : Int} (hco : IsCoprime (tt : Int) qL) (hd : (tt : Int) ∣ D)
    (h : qL * w = tt * ν + D) : ∃ ν' ρ : Int, w = tt * ν' ∧ qL * ν' = ν + ρ ∧ D = tt * ρ := by
  obtain ⟨ρ, hρ⟩ := hd
  have h1 : (tt : Int) ∣ w * qL := ⟨ν + ρ, by rw [mul_comm w qL, h, hρ]; ring⟩
  obtain ⟨ν', hν'⟩ := hco.dvd_of_dvd_mul_right h1
  refine ⟨ν', ρ, hν', ?_, hρ⟩
  have htz : (tt : Int) ≠ 0 := by exact_mod_cast (Nat.pos_iff_ne_zero.mp htt)
  apply mul_left_cancel₀ htz
  rw [hν', hρ] at h
  linear_combination h

/-- THE DIVISION STEP ON A FRESH ENCRYPTION OF ZERO: if `r` is a fresh encryption of zero at `pl` with noise ν, then dividing by the
    last prime of `pl` (BFV / CKKS: rounding, BGV: the t-compatible division) gives a fresh encryption of zero at the next level `l` with
    noise ν', q_L·ν' = ν + ρ, 2‖ρ‖∞ ≤ slack·q_L·(1 + ‖s‖₁) -/
theorem encDivideQLast_fresh {pl l : Level} (hpl : pl.WF) (hqp : c07s_LevelQ pl) (htool : c05u_ToolOK pl) (h2 : 2 ≤ pl.size)
    (hbg : pl.scheme = .bgv → c05u_BgvOK pl)
    (hql : c07s_LevelQ l) (htool' : c05u_ToolOK l) (hnext : c05u_IsNext pl l) (htbl : ∀ i, i < l.size → l.tbl i = pl.tbl i)
    (hsch : l.scheme = pl.scheme) (htt : l.t = pl.t)
    {sk : Array Int} {r : R Ct} {ν : Nat → Int} (hf : FreshZero pl sk r ν) :
    ∃ ν' ρ : Nat → Int, FreshZero l sk (do let temp ← r; encDivideQLast pl l.size temp) ν' ∧
      ∀ c, c < l.n → ((pl.q (pl.size - 1)).value : Int) * ν' c = ν c + ρ c ∧
        2 * (ρ c).natAbs ≤ encSlack pl * ((pl.q (pl.size - 1)).value * (1 + skNorm1 l.n sk)) := by
  obtain ⟨T0, T1, hr, hT0, hT1, hph⟩ := hf
  obtain ⟨O0, O1, hdiv, hd0, hd1⟩ := c01h_divide_ok hpl htool h2 hbg hT0 hT1
  obtain ⟨hC0, hC1, X0, X1, hw⟩ := c01h_divide_phase hpl hqp htool hql htool' hnext htbl pl.scheme.encNtt (c01h_Y pl) hT0 hT1 hd0 hd1
    (V := fun c => (encTT pl : Int) * ν c) hph
  have hsz : l.size = pl.size - 1 := by have := hnext.size; omega
  have hencTT : encTT l = encTT pl := by unfold encTT; rw [hsch, htt]
  have hqL : 0 < (pl.q (pl.size - 1)).value := by have := (c05u_qwf htool (show pl.size - 1 < pl.size by omega)).two_le; omega
  generalize hqLd : (pl.q (pl.size - 1)).value = qL at *
  -- facts about the division error, by scheme
  have hK : 0 < encTT pl ∧ IsCoprime (encTT pl : Int) (qL : Int) ∧ ∀ X : Nat,
      ((encTT pl : Int) ∣ (qL : Int) * c01h_Y pl X - (X : Int)) ∧
      2 * ((qL : Int) * c01h_Y pl X - (X : Int)).natAbs ≤ encTT pl * (encSlack pl * qL) := by
    by_cases hsc : pl.scheme = .bgv
    · have hg := hbg hsc
      have ht0 : 0 < pl.t.value := by have := hg.twf.two_le; omega
      have hinv := hg.invt
      rw [hqLd] at hinv
      have hY : c01h_Y pl = c05u_bgvY pl.t.value qL pl.tool.invQLastModT := by unfold c01h_Y; rw [if_pos hsc, hqLd]
      have hs2 : encSlack pl = 2 := by unfold encSlack; rw [if_pos hsc]
      rw [c01f_encTT_bgv hsc, hY, hs2]
      refine ⟨ht0, ?_, fun X => ?_⟩
      · -- invt·qL = 1 + t·m
        have hdm := Nat.div_add_mod (pl.tool.invQLastModT * qL) pl.t.value
        rw [hinv] at hdm
        refine ⟨-((pl.tool.invQLastModT * qL / pl.t.value : Nat) : Int), (pl.tool.invQLastModT : Int), ?_⟩
        have : ((pl.t.value * (pl.tool.invQLastModT * qL / pl.t.value) + 1 : Nat) : Int) = ((pl.tool.invQLastModT * qL : Nat) : Int) := by
          rw [hdm]
        push_cast at this ⊢
        linarith
      · obtain ⟨δ, h1, h2, h3, h4⟩ := c05u_bgvY_facts ht0 hqL hinv X
        have e : (qL : Int) * c05u_bgvY pl.t.value qL pl.tool.invQLastModT X - X = δ := by rw [h1]; ring
        rw [e]
        refine ⟨h2, ?_⟩
        have : δ.natAbs ≤ qL * pl.t.value := by omega
        calc 2 * δ.natAbs ≤ 2 * (qL * pl.t.value) := Nat.mul_le_mul_left _ this
          _ = pl.t.value * (2 * qL) := by ring
    · have hY : c01h_Y pl = c01h_roundY qL := by unfold c01h_Y; rw [if_neg hsc, hqLd]
      have hs1 : encSlack pl = 1 := by unfold encSlack; rw [if_neg hsc]
      rw [c01f_encTT_other hsc, hY, hs1]
      refine ⟨Nat.one_pos, by simpa using isCoprime_one_left, fun X => ?_⟩
      obtain ⟨ρ, h1, h2⟩ := c05u_round_facts hqL X
      have e : (qL : Int) * c01h_roundY qL X - X = ρ := by unfold c01h_roundY; rw [h1]; ring
      rw [e]
      exact ⟨by simp, by omega⟩
  obtain ⟨htt0, hco, hX⟩ := hK
  have hper : ∀ c, ∃ ν'c ρc : Int, c < l.n →
      ((encPhase l sk pl.scheme.encNtt O0 O1).getD c 0 ≡ (encTT pl : Int) * ν'c [ZMOD (Spec.prodL (c01p_qvals l) : Int)]) ∧
      (qL : Int) * ν'c = ν c + ρc ∧ 2 * ρc.natAbs ≤ encSlack pl * (qL * (1 + skNorm1 l.n sk)) := by
    intro c
    by_cases hc : c < l.n
    · obtain ⟨w, hw1, hw2⟩ := hw c hc
      have hdv : (encTT pl : Int) ∣ c05u_phase2 l.n (fun j => (qL : Int) * c01h_Y pl (X0 j) - (X0 j : Int))
          (fun j => (qL : Int) * c01h_Y pl (X1 j) - (X1 j : Int)) (fun p => sk.getD p 0) c :=
        c05u_phase2_dvd l.n _ _ _ _ c hc (fun j _ => (hX (X0 j)).1) (fun j _ => (hX (X1 j)).1)
      obtain ⟨ν'c, ρc, e1, e2, e3⟩ := c01h_split htt0 hco hdv hw2
      refine ⟨ν'c, ρc, fun _ => ⟨by rw [← e1]; exact hw1, e2, ?_⟩⟩
      -- the bound
      have hb := c05u_phase2_bound l.n (fun j => (qL : Int) * c01h_Y pl (X0 j) - (X0 j : Int))
          (fun j => (qL : Int) * c01h_Y pl (X1 j) - (X1 j : Int)) (fun p => sk.getD p 0)
          (encTT pl * (encSlack pl * qL) / 2) c hc
          (fun j _ => by have := (hX (X0 j)).2; omega) (fun j _ => by have := (hX (X1 j)).2; omega)
      rw [e3, Int.natAbs_mul, Int.natAbs_natCast] at hb
      have hS : (1 + ∑ k ∈ range l.n, ((fun p => sk.getD p 0) k).natAbs) = 1 + skNorm1 l.n sk := rfl
      rw [hS] at hb
      have h2b : 2 * (encTT pl * ρc.natAbs) ≤ encTT pl * (encSlack pl * qL) * (1 + skNorm1 l.n sk) := by
        have : 2 * (encTT pl * (encSlack pl * qL) / 2 * (1 + skNorm1 l.n sk)) ≤ encTT pl * (encSlack pl * qL) * (1 + skNorm1 l.n sk) := by
          rw [← Nat.mul_assoc]
          exact Nat.mul_le_mul_right _ (by omega)
        omega
      have h3b : encTT pl * (2 * ρc.natAbs) ≤ encTT pl * (encSlack pl * (qL * (1 + skNorm1 l.n sk))) := by
        have e : encTT pl * (encSlack pl * (qL * (1 + skNorm1 l.n sk))) = encTT pl * (encSlack pl * qL) * (1 + skNorm1 l.n sk) := by ring
        have e' : encTT pl * (2 * ρc.natAbs) = 2 * (encTT pl * ρc.natAbs) := by ring
        rw [e, e']; exact h2b
      exact Nat.le_of_mul_le_mul_left h3b htt0
    · exact ⟨0, 0, fun h => absurd h hc⟩
  choose ν' ρ hνρ using hper
  refine ⟨ν', ρ, ?_, fun c hc => (hνρ c hc).2⟩
  refine ⟨O0, O1, ?_, hC0, hC1, fun c hc => ?_⟩
  · rw [hr, ok_bind, hsz, hdiv, hsch]
  · rw [hsch, hencTT]; exact (hνρ c hc).1

/-- DISPATCH, public key THROUGH THE PREVIOUS LEVEL (the special-prime path of the first level and every lower level; BFV, CKKS, BGV):
    the encryption of zero made at `pl` with the drawn (u, e0, e1) and divided by q_L is a fresh encryption of zero at `l` with noise ν',
    q_L·ν' = `pkNoise` + ρ, 2‖ρ‖∞ ≤ slack·q_L·(1 + ‖s‖₁) -/
theorem encryptZeroInternal_fresh_pk_prev {pl l : Level} (hpl : pl.WF) (hqp : c07s_LevelQ pl) (htool : c05u_ToolOK pl) (h2 : 2 ≤ pl.size)
    (hbg : pl.scheme = .bgv → c05u_BgvOK pl) (ht : pl.t.value < 2^64)
    (hql : c07s_LevelQ l) (htool' : c05u_ToolOK l) (hnext : c05u_IsNext pl l) (htbl : ∀ i, i < l.size → l.tbl i = pl.tbl i)
    (hsch : l.scheme = pl.scheme) (htt : l.t = pl.t)
    {sk : Array Int} {pk0 pk1 : RnsPoly} {epk : Nat → Int} (hpk : PkRel pl sk (fun c => (encTT pl : Int) * epk c) pk0 pk1)
    {u e0 e1 : Array Int} (hus : u.size = pl.n) (he0s : e0.size = pl.n) (he1s : e1.size = pl.n) :
    ∃ ν' ρ : Nat → Int,
      FreshZero l sk (encryptZeroInternal l (.asym (some pl) #[pk0, pk1] (rnsOfInt pl u) #[rnsOfInt pl e0, rnsOfInt pl e1])) ν' ∧
      ∀ c, c < l.n → ((pl.q (pl.size - 1)).value : Int) * ν' c =
          pkNoise pl.n epk (fun p => u.getD p 0) (fun p => e0.getD p 0) (fun p => e1.getD p 0) (fun p => sk.getD p 0) c + ρ c ∧
        2 * (ρ c).natAbs ≤ encSlack pl * ((pl.q (pl.size - 1)).value * (1 + skNorm1 l.n sk)) := by
  have hf := encryptZeroAsym_fresh hpl hqp ht hpk hus he0s he1s
  have := encDivideQLast_fresh hpl hqp htool h2 hbg hql htool' hnext htbl hsch htt hf
  unfold encryptZeroInternal
  rw [hsch]
  exact this

theorem skNorm1_le (n : Nat) (sk : Array Int) (h : ∀ p, p < n → (sk.getD p 0).natAbs ≤ 1) : skNorm1 n sk ≤ n := by
  unfold skNorm1
  calc ∑ k ∈ range n, (sk.getD k 0).natAbs ≤ ∑ _k ∈ range n, 1 := Finset.sum_le_sum (fun k hk => h k (mem_range.mp hk))
    _ = n := by simp

/-- the noise bound after the division: ⌊(2B + slack·q_L·(1+N)) / (2·q_L)⌋ -/
def spBound (qL B slack N : Nat) : Nat := (2 * B + slack * (qL * (1 + N))) / (2 * qL)

theorem spBound_le {qL B slack N S : Nat} (hq : 0 < qL) (hS : S ≤ N) {ν' ν ρ : Int} (h : (qL : Int) * ν' = ν + ρ)
    (hν : ν.natAbs ≤ B) (hρ : 2 * ρ.natAbs ≤ slack * (qL * (1 + S))) : ν'.natAbs ≤ spBound qL B slack N := by
  unfold spBound
  rw [Nat.le_div_iff_mul_le (by omega)]
  have h1 : ((qL : Int) * ν').natAbs = qL * ν'.natAbs := by rw [Int.natAbs_mul, Int.natAbs_natCast]
  have h2 : ((qL : Int) * ν').natAbs ≤ ν.natAbs + ρ.natAbs := by rw [h]; exact Int.natAbs_add_le _ _
  have h3 : slack * (qL * (1 + S)) ≤ slack * (qL * (1 + N)) :=
    Nat.mul_le_mul_left _ (Nat.mul_le_mul_left _ (by omega))
  have e : ν'.natAbs * (2 * qL) = 2 * (qL * ν'.natAbs) := by ring
  rw [e]
  omega

end HC
