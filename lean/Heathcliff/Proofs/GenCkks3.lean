import Heathcliff.Proofs.GenCkks2

/- Translator phase 4k, third part (worker Y): the generated `encode_internal_i64_single` (Gen/CkksFns.lean): the `chunks_mut(..).enumerate()` /
   `fill` loops and the whole function for every i64. -/
namespace HC
open Ckks GenK

/-! ### `for (j, chunk) in data.chunks_mut(cc).enumerate() { chunk.fill(f j) }` -/

theorem gk_nChunks_exact {l : List Nat} {cc k : Nat} (hc : 0 < cc) (hl : l.length = cc * k) : nChunks l cc = .ok k := by
  unfold nChunks
  rw [if_neg (by omega), hl]
  congr 1
  rw [Nat.add_sub_assoc (by omega), Nat.mul_add_div hc, Nat.div_eq_of_lt (by omega)]; rfl

theorem gk_fillChunk_spec {d : List Nat} {cc k j : Nat} (v : Nat) (hd : d.length = cc * k) (hj : j < k) :
    (fillChunk d cc j v).length = cc * k ∧
      (∀ p, p < j * cc → (fillChunk d cc j v)[p]? = d[p]?) ∧
      (∀ p, j * cc ≤ p → p < (j + 1) * cc → (fillChunk d cc j v)[p]? = some v) := by
  have h1 : (j + 1) * cc ≤ k * cc := Nat.mul_le_mul_right cc hj
  have h2 : (j + 1) * cc = j * cc + cc := by ring
  have h3 : cc * k = k * cc := Nat.mul_comm _ _
  have hmin : min cc (d.length - j * cc) = cc := by omega
  unfold fillChunk
  rw [hmin]
  refine ⟨by simp; omega, ?_, ?_⟩
  · intro p hp
    rw [List.append_assoc, List.getElem?_append_left (by simp; omega)]
    simp [List.getElem?_take, hp]
  · intro p hp1 hp2
    rw [List.getElem?_append_left (by simp; omega), List.getElem?_append_right (by simp; omega)]
    simp only [List.length_take]
    rw [List.getElem?_replicate, if_pos (by omega)]

/-- the chunk loop: chunk j of the buffer is filled with `f j` -/
theorem gk_chunks_spec {cc k : Nat} (f : Nat → Nat) (body : Nat → List Nat → R (List Nat)) (d : List Nat)
    (hbody : ∀ j d, j < k → d.length = cc * k → body j d = .ok (fillChunk d cc j (f j)))
    (hd : d.length = cc * k) :
    ∃ d', forRange 0 k d body = .ok d' ∧ d'.length = cc * k ∧ ∀ p, p < cc * k → d'[p]? = some (f (p / cc)) := by
  obtain ⟨d', e, hl, h1⟩ := gk_forRange_inv
    (fun j d' => d'.length = cc * k ∧ ∀ p, p < j * cc → d'[p]? = some (f (p / cc))) body k d ⟨hd, by intro p hp; omega⟩
    (by
      intro j d1 hj ⟨hl, h1⟩
      obtain ⟨s1, s2, s3⟩ := gk_fillChunk_spec (f j) hl hj
      refine ⟨_, hbody j d1 hj hl, s1, ?_⟩
      intro p hp
      by_cases hlt : p < j * cc
      · rw [s2 p hlt]; exact h1 p hlt
      · have hc : 0 < cc := by
          rcases Nat.eq_zero_or_pos cc with h | h
          · subst h; simp at hp
          · exact h
        rw [s3 p (by omega) hp]
        have : p / cc = j := by
          apply Nat.div_eq_of_lt_le
          · omega
          · exact hp
        rw [this])
  exact ⟨d', e, hl, fun p hp => h1 p (by rw [Nat.mul_comm]; exact hp)⟩

/-! ### `encode_internal_i64_single` -/

/-- the two chunk-loop bodies EXACTLY as generated -/
def gkI64Neg (moduli : List Modulus) (v2 : Nat) (value : Int) (v4 : Nat) (dest : List Nat) : R (List Nat) := do
  let t5 ← idxT moduli v4
  let t6 ← GenP.mod_reduce t5 (Int.natAbs value)
  let v5 : Nat := t6
  let t7 ← idxT moduli v4
  let t8 ← GenW.negate_u64_mod v5 t7
  let v6 : Nat := t8
  let dest : List Nat := (fillChunk dest v2 v4 v6)
  pure dest
def gkI64Pos (moduli : List Modulus) (v2 : Nat) (value : Int) (v7 : Nat) (dest : List Nat) : R (List Nat) := do
  let t10 ← idxT moduli v7
  let t11 ← GenP.mod_reduce t10 (GenW.asU64 value)
  let v8 : Nat := t11
  let dest : List Nat := (fillChunk dest v2 v7 v8)
  pure dest

/-- the generated function, with the loop bodies named (definitional) -/
theorem gk_i64_single_unfold (valid is_ckks : Bool) (value : Int) (total_bits : Nat) (moduli : List Modulus) (degree : Nat) (dest : List Nat) :
    encode_internal_i64_single valid is_ckks value total_bits moduli degree dest =
      (if ¬ (valid = true) then .error .refused else
       if ¬ (is_ckks = true) then .error .refused else do
       let bc ← GenW.get_significant_bit_count (Int.natAbs value)
       let bits ← ckAdd bc 2
       if bits ≥ total_bits then .error .refused else do
       let sz ← ckMul degree moduli.length
       let d ← (if value < 0 then (do
           let nc ← nChunks (resizeL dest sz) degree
           let d ← forRange 0 nc (resizeL dest sz) (gkI64Neg moduli degree value)
           pure d)
         else (do
           let nc ← nChunks (resizeL dest sz) degree
           let d ← forRange 0 nc (resizeL dest sz) (gkI64Pos moduli degree value)
           pure d) : R (List Nat))
       pure d) := rfl

theorem gk_reduce_u64 {m : Modulus} (h : m.WF) {x : Nat} (hx : x < 2^64) : GenP.mod_reduce m x = .ok (x % m.value) := by
  unfold GenP.mod_reduce; rw [gw_barrett_reduce_u64_eq]; exact barrett64_exact h hx

/-- `encode_internal_i64_single`, as generated, for EVERY i64 (i64::MIN, negative multiples of a prime included): refusal exactly when
    bits(|v|) + 2 ≥ total bits (the condition of the model's `encodeI64Single`); otherwise component j of the destination is filled with the
    model's `i64Residues` entry j = v mod q_j -/
theorem gk_i64_single_spec {qs : Array Modulus} (hq : ∀ i, i < qs.size → (qs.getD i ⟨0,0,0,0,0⟩).WF) {v : Int}
    (hv : -2^63 ≤ v ∧ v < 2^63) {degree total_bits : Nat} (hdeg : 0 < degree) (hsz : degree * qs.toList.length < 2^64) (dest : List Nat) :
    (bitCount v.natAbs + 2 ≥ total_bits →
      encode_internal_i64_single true true v total_bits qs.toList degree dest = .error .refused) ∧
    (bitCount v.natAbs + 2 < total_bits →
      ∃ d' rs, encode_internal_i64_single true true v total_bits qs.toList degree dest = .ok d' ∧ i64Residues qs v = .ok rs ∧
        d'.length = degree * qs.size ∧ ∀ p, p < degree * qs.size →
          d'[p]? = some (rs.getD (p / degree) 0) ∧ rs.getD (p / degree) 0 = c12_res v (qs.getD (p / degree) ⟨0,0,0,0,0⟩).value) := by
  have hk : qs.toList.length = qs.size := by simp
  have habs : v.natAbs < 2^64 := by omega
  have hbc : GenW.get_significant_bit_count v.natAbs = .ok (bitCount v.natAbs) := gw_get_significant_bit_count_eq _ habs
  have hle : bitCount v.natAbs ≤ 64 := c12a_bitCount_le habs
  have hadd : ckAdd (bitCount v.natAbs) 2 = .ok (bitCount v.natAbs + 2) := gk_ckAdd_ok (by omega)
  have hwf : ∀ j (h : j < qs.toList.length), qs.toList[j].WF := by
    intro j h
    have hj : j < qs.size := by omega
    have := hq j hj
    simpa [Array.getD, hj] using this
  have hgd : ∀ j (h : j < qs.toList.length), (qs.getD j ⟨0,0,0,0,0⟩) = qs.toList[j] := by
    intro j h
    have hj : j < qs.size := by omega
    simp [Array.getD, hj]
  constructor
  · intro h
    rw [gk_i64_single_unfold]
    simp only [not_true_eq_false, if_false, hbc, hadd, bind, Except.bind, if_pos h]
  · intro h
    obtain ⟨rs, e1, e2, e3⟩ := i64Residues_spec hq hv
    have hd0 : (resizeL dest (degree * qs.toList.length)).length = degree * qs.toList.length := gk_resizeL_length _ _
    have hnc := gk_nChunks_exact hdeg hd0
    have key : ∃ d', (if v < 0 then (do
           let nc ← nChunks (resizeL dest (degree * qs.toList.length)) degree
           let d ← forRange 0 nc (resizeL dest (degree * qs.toList.length)) (gkI64Neg qs.toList degree v)
           pure d)
         else (do
           let nc ← nChunks (resizeL dest (degree * qs.toList.length)) degree
           let d ← forRange 0 nc (resizeL dest (degree * qs.toList.length)) (gkI64Pos qs.toList degree v)
           pure d) : R (List Nat)) = .ok d' ∧ d'.length = degree * qs.toList.length ∧
        ∀ p, p < degree * qs.toList.length → d'[p]? = some (c12_res v (qs.getD (p / degree) ⟨0,0,0,0,0⟩).value) := by
      by_cases hneg : v < 0
      · obtain ⟨d', e, hl, hc⟩ := gk_chunks_spec (cc := degree) (k := qs.toList.length)
          (fun j => c12_res v (qs.getD j ⟨0,0,0,0,0⟩).value) (gkI64Neg qs.toList degree v) _
          (by
            intro j d1 hj _
            rw [hgd j hj]
            simp only [gkI64Neg, gk_idxT_ok hj, gk_reduce_u64 (hwf j hj) habs, gk_negate_res (hwf j hj) hneg, bind, Except.bind, pure, Except.pure])
          hd0
        exact ⟨d', by simp only [if_pos hneg, hnc, e, bind, Except.bind, pure, Except.pure], hl, hc⟩
      · obtain ⟨d', e, hl, hc⟩ := gk_chunks_spec (cc := degree) (k := qs.toList.length)
          (fun j => c12_res v (qs.getD j ⟨0,0,0,0,0⟩).value) (gkI64Pos qs.toList degree v) _
          (by
            intro j d1 hj _
            have hu : GenW.asU64 v = v.natAbs := by unfold GenW.asU64; omega
            rw [hgd j hj, ← gk_pos_res hneg]
            simp only [gkI64Pos, hu, gk_idxT_ok hj, gk_reduce_u64 (hwf j hj) habs, bind, Except.bind, pure, Except.pure])
          hd0
        exact ⟨d', by simp only [if_neg hneg, hnc, e, bind, Except.bind, pure, Except.pure], hl, hc⟩
    obtain ⟨d', ek, hl, hc⟩ := key
    refine ⟨d', rs, ?_, e1, by rw [hl, hk], ?_⟩
    · rw [gk_i64_single_unfold]
      have h' : ¬ bitCount v.natAbs + 2 ≥ total_bits := by omega
      simp only [bind, Except.bind] at ek
      simp only [not_true_eq_false, if_false, hbc, hadd, bind, Except.bind, h', gk_ckMul_ok hsz, ek]
    · intro p hp
      have hpk : p / degree < qs.size := by
        apply Nat.div_lt_of_lt_mul; rw [Nat.mul_comm] at hp; rw [Nat.mul_comm]; exact hp
      rw [hc p (by rw [hk]; exact hp), e3 _ hpk]
      exact ⟨rfl, rfl⟩

end HC
