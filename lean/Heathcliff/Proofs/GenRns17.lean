import Heathcliff.Proofs.GenRns9

/-!
  Phase 4k of the translator tie, list level: `BaseConverter::exact_convey_array` (src/util/rns.rs) as generated into `Heathcliff/Gen/RnsFns.lean`
  after the table-declared FLOAT ERASURE (tools/rs2lean_rns4k.py): the f64 pipeline `v[j·k+i] = temp[j·k+i] as f64 / q_i as f64`,
  `aggregated_v = Σ v[i·k..(i+1)·k]`, `aggregated_v.round() as u64` is the abstract function input `roundQ : List Nat → Nat` applied to the scaled
  residues `temp[i·k..(i+1)·k]` of one coefficient.  First phase = the strided scratch buffer of `fast_convert_array`; then the rounding pass, then
  one output word per coefficient.  Helper names start with `gr_`.
-/
namespace HC
open HC.GenW HC.GenR

theorem gr_eca_loop2 (inp : List (List Nat)) (k n i : Nat) (q : Modulus) (T : Nat → Nat)
    (hi : i < k) (hkn : k * n < 2^64) (hnk : n * k < 2^64) (hinp : inp.length = k) (hin : ∀ c ∈ inp, c.length = n)
    (hT : ∀ j, j < n → barrett64 ((inp.getD i []).getD j 0) q = .ok (T j)) :
    ∀ (temp : List Nat), temp.length = n * k →
      ∃ t', GenR.exact_convey_array_loop2 inp.flatten k n i q n 0 temp = .ok t' ∧ t'.length = n * k ∧
        ∀ pos, t'.getD pos 0 = if pos % k = i ∧ pos / k < n then T (pos / k) else temp.getD pos 0 := by
  intro temp htl
  have hfl := gr_flat_length n inp hin
  rw [hinp] at hfl
  obtain ⟨t', e, hlen, hp⟩ := gr_strideloop (GenR.exact_convey_array_loop2 inp.flatten k n i q) T k i n hi (fun _ _ => rfl) (by
    intro f j l hl hj
    have h1 : i * n + j < k * n := gr_idx_lt hi hj
    have h2 : j * k + i < n * k := gr_idx_lt hj hi
    have e1 : ckMul i n = .ok (i * n) := gr_ckMul_ok (by omega)
    have e2 : ckAdd (i * n) j = .ok (i * n + j) := gr_ckAdd_ok (by omega)
    have hlt : i * n + j < inp.flatten.length := by omega
    have e3 : GenW.idx inp.flatten (i * n + j) = .ok ((inp.getD i []).getD j 0) := by
      rw [gw_idx_eq _ _ hlt, ← gr_getD_of_lt _ _ hlt, gr_flat_getD n inp i j hin (by omega) hj]
    have e4 : ckMul j k = .ok (j * k) := gr_ckMul_ok (by omega)
    have e5 : ckAdd (j * k) i = .ok (j * k + i) := gr_ckAdd_ok (by omega)
    rw [GenR.exact_convey_array_loop2]
    simp only [e1, e2, e3, e4, e5, gw_barrett_reduce_u64_eq, hT j hj, gx_setIdx_ok _ _ _ hl, gr_ok_bind]) n 0 temp (by rw [htl, Nat.zero_add]) (by omega)
  refine ⟨t', e, by rw [hlen, htl], fun pos => ?_⟩
  rw [hp pos]
  by_cases c : pos % k = i ∧ pos / k < n
  · rw [if_pos c, if_pos ⟨c.1, Nat.zero_le _, by rw [Nat.zero_add]; exact c.2⟩]
  · rw [if_neg c, if_neg]
    intro c2
    exact c ⟨c2.1, by have := c2.2.2; omega⟩

theorem gr_eca_loop3 (inp : List (List Nat)) (k n i : Nat) (op : MulOperand) (q : Modulus) (T : Nat → Nat)
    (hi : i < k) (hkn : k * n < 2^64) (hnk : n * k < 2^64) (hinp : inp.length = k) (hin : ∀ c ∈ inp, c.length = n)
    (hT : ∀ j, j < n → mulOperandMod ((inp.getD i []).getD j 0) op q = .ok (T j)) :
    ∀ (temp : List Nat), temp.length = n * k →
      ∃ t', GenR.exact_convey_array_loop3 inp.flatten k n i q op n 0 temp = .ok t' ∧ t'.length = n * k ∧
        ∀ pos, t'.getD pos 0 = if pos % k = i ∧ pos / k < n then T (pos / k) else temp.getD pos 0 := by
  intro temp htl
  have hfl := gr_flat_length n inp hin
  rw [hinp] at hfl
  obtain ⟨t', e, hlen, hp⟩ := gr_strideloop (GenR.exact_convey_array_loop3 inp.flatten k n i q op) T k i n hi (fun _ _ => rfl) (by
    intro f j l hl hj
    have h1 : i * n + j < k * n := gr_idx_lt hi hj
    have h2 : j * k + i < n * k := gr_idx_lt hj hi
    have e1 : ckMul i n = .ok (i * n) := gr_ckMul_ok (by omega)
    have e2 : ckAdd (i * n) j = .ok (i * n + j) := gr_ckAdd_ok (by omega)
    have hlt : i * n + j < inp.flatten.length := by omega
    have e3 : GenW.idx inp.flatten (i * n + j) = .ok ((inp.getD i []).getD j 0) := by
      rw [gw_idx_eq _ _ hlt, ← gr_getD_of_lt _ _ hlt, gr_flat_getD n inp i j hin (by omega) hj]
    have e4 : ckMul j k = .ok (j * k) := gr_ckMul_ok (by omega)
    have e5 : ckAdd (j * k) i = .ok (j * k + i) := gr_ckAdd_ok (by omega)
    rw [GenR.exact_convey_array_loop3]
    simp only [e1, e2, e3, e4, e5, gw_multiply_u64operand_mod_eq, hT j hj, gx_setIdx_ok _ _ _ hl, gr_ok_bind]) n 0 temp (by rw [htl, Nat.zero_add]) (by omega)
  refine ⟨t', e, by rw [hlen, htl], fun pos => ?_⟩
  rw [hp pos]
  by_cases c : pos % k = i ∧ pos / k < n
  · rw [if_pos c, if_pos ⟨c.1, Nat.zero_le _, by rw [Nat.zero_add]; exact c.2⟩]
  · rw [if_neg c, if_neg]
    intro c2
    exact c ⟨c2.1, by have := c2.2.2; omega⟩

/-- the outer loop of the first phase ends in the rounding pass (`loop4`) run on the completed scratch buffer -/
theorem gr_eca_loop1 (inp : List (List Nat)) (out agg : List Nat) (k n : Nat) (qs : List Modulus) (ops : List MulOperand)
    (roundQ : List Nat → Nat) (ps : List Modulus) (prodL : List Nat) (rows : List (List Nat)) (T : Nat → Nat → Nat)
    (hkn : k * n < 2^64) (hnk : n * k < 2^64) (hinp : inp.length = k) (hin : ∀ c ∈ inp, c.length = n)
    (hqs : qs.length = k) (hops : ops.length = k)
    (hT1 : ∀ i j, i < k → j < n → (ops.getD i default).operand = 1 → barrett64 ((inp.getD i []).getD j 0) (qs.getD i gr_dflt) = .ok (T i j))
    (hT2 : ∀ i j, i < k → j < n → (ops.getD i default).operand ≠ 1 →
      mulOperandMod ((inp.getD i []).getD j 0) (ops.getD i default) (qs.getD i gr_dflt) = .ok (T i j)) :
    ∀ f i (temp : List Nat), i + f = k → temp.length = n * k →
      (∀ pos, pos < n * k → pos % k < i → temp.getD pos 0 = T (pos % k) (pos / k)) →
      GenR.exact_convey_array_loop1 inp.flatten out k n agg qs ops roundQ ps prodL rows f i temp
        = GenR.exact_convey_array_loop4 out k n (gr_fcaTemp T k n) roundQ ps prodL rows n 0 agg := by
  intro f
  induction f with
  | zero =>
    intro i temp hif htl hinv
    have : temp = gr_fcaTemp T k n := by
      apply gr_ext_getD 0
      · rw [htl]; unfold gr_fcaTemp; rw [List.length_map, List.length_range']
      · intro pos hpos
        rw [htl] at hpos
        have hk : 0 < k := by
          rcases Nat.eq_zero_or_pos k with h | h
          · rw [h, Nat.mul_zero] at hpos; omega
          · exact h
        unfold gr_fcaTemp
        rw [gr_getD_map_range' _ _ _ _ hpos]
        exact hinv pos hpos (by have := Nat.mod_lt pos hk; omega)
    rw [GenR.exact_convey_array_loop1, this]
  | succ f ih =>
    intro i temp hif htl hinv
    have hi : i < k := by omega
    have e1 : GenR.idxOp ops i = .ok (ops.getD i default) := gr_idxOp_ok ops i _ (by omega)
    have e2 : GenR.idxMod qs i = .ok (qs.getD i gr_dflt) := gr_idxMod_ok qs i _ (by omega)
    rw [GenR.exact_convey_array_loop1]
    simp only [e1, e2, gr_ok_bind]
    have step : ∀ t' : List Nat, t'.length = n * k →
        (∀ pos, t'.getD pos 0 = if pos % k = i ∧ pos / k < n then T i (pos / k) else temp.getD pos 0) →
        ∀ pos, pos < n * k → pos % k < i + 1 → t'.getD pos 0 = T (pos % k) (pos / k) := by
      intro t' _ hp pos hpos hlt
      rw [hp pos]
      have hdiv : pos / k < n := by
        apply Nat.div_lt_of_lt_mul; rw [Nat.mul_comm]; exact hpos
      by_cases c : pos % k = i
      · rw [if_pos ⟨c, hdiv⟩, c]
      · rw [if_neg (fun h => c h.1)]
        exact hinv pos hpos (by omega)
    by_cases hop : (ops.getD i default).operand = 1
    · rw [if_pos hop]
      obtain ⟨t', e, hlen, hp⟩ := gr_eca_loop2 inp k n i (qs.getD i gr_dflt) (T i) hi hkn hnk hinp hin (fun j hj => hT1 i j hi hj hop) temp htl
      rw [e]
      simp only [gr_ok_bind]
      exact ih (i + 1) t' (by omega) hlen (step t' hlen hp)
    · rw [if_neg hop]
      obtain ⟨t', e, hlen, hp⟩ := gr_eca_loop3 inp k n i (ops.getD i default) (qs.getD i gr_dflt) (T i) hi hkn hnk hinp hin (fun j hj => hT2 i j hi hj hop) temp htl
      rw [e]
      simp only [gr_ok_bind]
      exact ih (i + 1) t' (by omega) hlen (step t' hlen hp)

/-- the scaled residues of coefficient `j` (row `j` of the scratch buffer) -/
def gr_ecaCol (T : Nat → Nat → Nat) (k j : Nat) : List Nat := (List.range' 0 k).map (fun i => T i j)

/-- one output word: `(Σ temp_i·(Q/q_i) mod p) − roundQ(temp)·(Q mod p) mod p` -/
def gr_ecaElt (p : Modulus) (row : List Nat) (qmp : Nat) (roundQ : List Nat → Nat) (col : List Nat) : R Nat :=
  dotProductMod col row p >>= fun s => mulMod (roundQ col) qmp p >>= fun vq => subMod s vq p

/-- the rounding pass, the set-up of `p`, `Q mod p`, the first matrix row, and the output loop -/
theorem gr_eca_loop4 (out : List Nat) (k n : Nat) (roundQ : List Nat → Nat) (ps : List Modulus) (prodL : List Nat) (rows : List (List Nat))
    (T : Nat → Nat → Nat) (hnk : n * k < 2^64) (hn64 : n < 2^64) (hout : out.length = n) (hps : 1 ≤ ps.length) (hrows : 1 ≤ rows.length)
    (hpl : prodL ≠ []) :
    GenR.exact_convey_array_loop4 out k n (gr_fcaTemp T k n) roundQ ps prodL rows n 0 (List.replicate n 0)
      = (moduloUint prodL (ps.getD 0 gr_dflt) >>= fun qmp =>
          (List.range' 0 n).mapM (fun j => gr_ecaElt (ps.getD 0 gr_dflt) (rows.getD 0 []) qmp roundQ (gr_ecaCol T k j))) := by
  have hslice : ∀ j, j < n → ckMul j k = .ok (j * k) ∧ ckAdd j 1 = .ok (j + 1) ∧ ckMul (j + 1) k = .ok (j * k + k) ∧
      GenR.slice (gr_fcaTemp T k n) (j * k) (j * k + k) = .ok (gr_ecaCol T k j) := by
    intro j hj
    have h2 : j * k + k ≤ n * k := by
      have := Nat.mul_le_mul_right k (Nat.succ_le_of_lt hj); rw [Nat.succ_mul] at this; exact this
    exact ⟨gr_ckMul_ok (by omega), gr_ckAdd_ok (by omega), by rw [gr_ckMul_ok (by rw [Nat.succ_mul]; omega), Nat.succ_mul], gr_fcaTemp_slice T k n j hj⟩
  rw [gr_idxloopK (GenR.exact_convey_array_loop4 out k n (gr_fcaTemp T k n) roundQ ps prodL rows) (fun j _ => .ok (roundQ (gr_ecaCol T k j))) n
      (fun l => GenR.exact_convey_array_loop4 out k n (gr_fcaTemp T k n) roundQ ps prodL rows 0 0 l) (fun _ _ => rfl) (by
      intro f j l hl hj
      obtain ⟨e1, e2, e3, e4⟩ := hslice j hj
      rw [GenR.exact_convey_array_loop4]
      simp only [e1, e2, e3, e4, gx_setIdx_ok _ _ _ hl, gr_ok_bind])
    n 0 (List.replicate n 0) (by simp) (by simp)]
  rw [gr_mapM_ok _ (fun j => roundQ (gr_ecaCol T k j)) _ (fun _ _ => rfl), gr_ok_bind, List.take_zero, List.nil_append]
  rw [GenR.exact_convey_array_loop4]
  have e1 : GenR.idxMod ps 0 = .ok (ps.getD 0 gr_dflt) := gr_idxMod_ok ps 0 _ (by omega)
  have e2 : GenR.idxRow rows 0 = .ok (rows.getD 0 []) := gr_idxRow_ok rows 0 (by omega)
  simp only [e1, gr_ok_bind, gw_modulo_uint_eq _ _ hpl]
  cases moduloUint prodL (ps.getD 0 gr_dflt) with
  | error e => rfl
  | ok qmp =>
    simp only [gr_ok_bind, e2]
    have hagg : ((List.range' 0 n).map (fun j => roundQ (gr_ecaCol T k j))).length = n := by rw [List.length_map, List.length_range']
    rw [gr_idxloop (GenR.exact_convey_array_loop5 k n (gr_fcaTemp T k n) ((List.range' 0 n).map (fun j => roundQ (gr_ecaCol T k j)))
        (ps.getD 0 gr_dflt) qmp (rows.getD 0 [])) (fun j _ => gr_ecaElt (ps.getD 0 gr_dflt) (rows.getD 0 []) qmp roundQ (gr_ecaCol T k j)) n
        (fun _ _ => rfl) (by
        intro f j l hl hj
        obtain ⟨e3, e4, e5, e6⟩ := hslice j hj
        have hja : j < ((List.range' 0 n).map (fun j => roundQ (gr_ecaCol T k j))).length := by rw [hagg]; exact hj
        have e7 : GenW.idx ((List.range' 0 n).map (fun j => roundQ (gr_ecaCol T k j))) j = .ok (roundQ (gr_ecaCol T k j)) := by
          rw [gw_idx_eq _ _ hja, ← gr_getD_of_lt _ _ hja, gr_getD_map_range' _ _ _ _ hj]
        rw [GenR.exact_convey_array_loop5]
        simp only [e3, e4, e5, e6, e7, gr_ok_bind, gw_dot_product_mod_eq, gw_multiply_u64_mod_eq, gw_sub_u64_mod_eq]
        unfold gr_ecaElt
        cases dotProductMod (gr_ecaCol T k j) (rows.getD 0 []) (ps.getD 0 gr_dflt) with
        | error e => rfl
        | ok s =>
          simp only [gr_ok_bind]
          cases mulMod (roundQ (gr_ecaCol T k j)) qmp (ps.getD 0 gr_dflt) with
          | error e => rfl
          | ok vq => simp only [gr_ok_bind, gr_subMod, gx_setIdx_ok _ _ _ hl])
      n 0 out (by omega) (by omega)]
    cases (List.range' 0 n).mapM (fun j => gr_ecaElt (ps.getD 0 gr_dflt) (rows.getD 0 []) qmp roundQ (gr_ecaCol T k j)) with
    | error e => rfl
    | ok ys => rw [gr_ok_bind, List.take_zero, List.nil_append]

/-- the generated `exact_convey_array` on flat buffers: `k` input components of `n` words, ANY output buffer of `n` words; `T i j` = scaled residue
    of coefficient `j` of component `i`; `roundQ` = the erased f64 pipeline -/
theorem gr_eca_list (inp : List (List Nat)) (out : List Nat) (k n : Nat) (qs : List Modulus) (ops : List MulOperand) (ps : List Modulus)
    (prodL : List Nat) (rows : List (List Nat)) (roundQ : List Nat → Nat) (T : Nat → Nat → Nat)
    (hk : 1 ≤ k) (hkn : k * n < 2^64)
    (hinp : inp.length = k) (hin : ∀ c ∈ inp, c.length = n) (hout : out.length = n)
    (hqs : qs.length = k) (hops : ops.length = k) (hps : ps.length = 1) (hrows : 1 ≤ rows.length) (hpl : prodL ≠ [])
    (hT1 : ∀ i j, i < k → j < n → (ops.getD i default).operand = 1 → barrett64 ((inp.getD i []).getD j 0) (qs.getD i gr_dflt) = .ok (T i j))
    (hT2 : ∀ i j, i < k → j < n → (ops.getD i default).operand ≠ 1 →
      mulOperandMod ((inp.getD i []).getD j 0) (ops.getD i default) (qs.getD i gr_dflt) = .ok (T i j)) :
    GenR.exact_convey_array inp.flatten out k 1 ops qs ps prodL rows roundQ
      = (moduloUint prodL (ps.getD 0 gr_dflt) >>= fun qmp =>
          (List.range' 0 n).mapM (fun j => gr_ecaElt (ps.getD 0 gr_dflt) (rows.getD 0 []) qmp roundQ (gr_ecaCol T k j))) := by
  have hfi := gr_flat_length n inp hin
  rw [hinp] at hfi
  have hnk : n * k < 2^64 := by rw [Nat.mul_comm]; exact hkn
  have hn64 : n < 2^64 := Nat.lt_of_le_of_lt (Nat.le_mul_of_pos_left n hk) hkn
  have e1 : GenW.ckDiv inp.flatten.length k = .ok n := by
    unfold GenW.ckDiv; rw [if_neg (by omega), hfi, Nat.mul_div_cancel_left n hk]
  have e2 : ckMul n k = .ok (n * k) := gr_ckMul_ok hnk
  unfold GenR.exact_convey_array
  simp only [e1, e2, gr_ok_bind, if_true]
  rw [gr_eca_loop1 inp out (List.replicate n 0) k n qs ops roundQ ps prodL rows T hkn hnk hinp hin hqs hops hT1 hT2 k 0 (List.replicate (n * k) 0)
      (by omega) (List.length_replicate) (fun pos _ h => by omega),
    gr_eca_loop4 out k n roundQ ps prodL rows T hnk hn64 hout (by omega) hrows hpl]

end HC
