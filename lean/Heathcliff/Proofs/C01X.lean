/- C01 part X: the SEED-COMPRESSED path end to end.  With `save_seed` in force the stored object is (c0, seed); what the library hands
   out later is `expand_seed` of it.  X1: in the symmetric encryption with a saved seed, polynomial 1 of the (expanded-view) result IS the
   mask `a` the seed expands to — for the encryption of zero and for all three plaintext layers; X2: hence
   `expandSeed (toSeeded ct seed) = ct` whenever the generator seeded with the stored seed expands to `a` (Rng model, C16), and the
   driver's pipeline for `mode = seed` (encrypt, store (c0, seed), expand, decrypt) returns the plaintext.
   Helper names carry the prefix `c01x_`. -/
import Heathcliff.Proofs.C01V
namespace HC
open Finset

/-- X1: shape of `encrypt_zero::symmetric` with a saved seed (either form): polynomial 1 is the sample `a` itself -/
theorem encryptZeroSym_seeded_shape {l : Level} {sk : Array Int} {a e : RnsPoly} {isNtt : Bool} {z : Ct}
    (hs : seedSaved l true = true) (h : encryptZeroSym l sk a e isNtt true = .ok z) : ∃ c0, z = ⟨#[c0, a], isNtt, 1⟩ := by
  unfold encryptZeroSym at h
  simp only [hs] at h
  obtain ⟨c0a, _, h⟩ := c01p_bind_ok h
  split at h <;>
  · obtain ⟨noise, _, h⟩ := c01p_bind_ok h
    obtain ⟨c0b, _, h⟩ := c01p_bind_ok h
    obtain ⟨c0c, _, h⟩ := c01p_bind_ok h
    refine ⟨c0c, ?_⟩
    have h' : (Except.ok _ : R Ct) = .ok z := h
    injection h' with h'
    rw [← h']
    simp

theorem encryptZeroInternal_seeded_shape {l : Level} {sk : Array Int} {a e : RnsPoly} {z : Ct}
    (hs : seedSaved l true = true) (h : encryptZeroInternal l (.sym sk a e true) = .ok z) :
    ∃ c0, z = ⟨#[c0, a], l.scheme.encNtt, 1⟩ := by
  unfold encryptZeroInternal at h
  exact encryptZeroSym_seeded_shape hs h

/-- X1 for the three plaintext layers: only polynomial 0 is touched -/
theorem bfvEncrypt_seeded_shape {l : Level} {cdp : Array MulOperand} {qm uh : Nat} {sk : Array Int} {a e : RnsPoly} {plain : Poly} {ct : Ct}
    (hs : seedSaved l true = true) (h : bfvEncrypt l cdp qm uh (.sym sk a e true) plain = .ok ct) :
    ∃ c0, ct = ⟨#[c0, a], l.scheme.encNtt, 1⟩ := by
  unfold bfvEncrypt at h
  obtain ⟨z, hz, h⟩ := c01p_bind_ok h
  obtain ⟨c0', _, h⟩ := c01p_bind_ok h
  obtain ⟨c0, rfl⟩ := encryptZeroInternal_seeded_shape hs hz
  injection h with h
  exact ⟨c0', by rw [← h]; rfl⟩

theorem bgvEncrypt_seeded_shape {l : Level} {fast : Bool} {thr : Nat} {incr : Array Nat} {sk : Array Int} {a e : RnsPoly} {plain : Poly}
    {ct : Ct} (hs : seedSaved l true = true) (h : bgvEncrypt l fast thr incr (.sym sk a e true) plain = .ok ct) :
    ∃ c0, ct = ⟨#[c0, a], l.scheme.encNtt, 1⟩ := by
  unfold bgvEncrypt at h
  obtain ⟨z, hz, h⟩ := c01p_bind_ok h
  obtain ⟨lifted, _, h⟩ := c01p_bind_ok h
  obtain ⟨c0', _, h⟩ := c01p_bind_ok h
  obtain ⟨c0, rfl⟩ := encryptZeroInternal_seeded_shape hs hz
  injection h with h
  exact ⟨c0', by rw [← h]; rfl⟩

theorem ckksEncrypt_seeded_shape {l : Level} {sk : Array Int} {a e : RnsPoly} {plain : RnsPoly} {ct : Ct}
    (hs : seedSaved l true = true) (h : ckksEncrypt l (.sym sk a e true) plain = .ok ct) :
    ∃ c0, ct = ⟨#[c0, a], l.scheme.encNtt, 1⟩ := by
  unfold ckksEncrypt at h
  obtain ⟨z, hz, h⟩ := c01p_bind_ok h
  obtain ⟨c0', _, h⟩ := c01p_bind_ok h
  obtain ⟨c0, rfl⟩ := encryptZeroInternal_seeded_shape hs hz
  injection h with h
  exact ⟨c0', by rw [← h]; rfl⟩

/-- the seed expands to the mask `a` at level `l` (Rng model of `sample::uniform` on `BlakeRNG::from_seed`, C16) -/
def SeedExpands (U : Rng.Uniform) (xof : Rng.Xof) (l : Level) (seed : Rng.Seed) (a : RnsPoly) : Prop :=
  ∃ st, Rng.uniformPoly U xof (Rng.fromSeed seed) l.n (l.qs.toList.map (·.value)) = .ok (ofRns a, st)

/-- X2: storing (c0, seed) and expanding it again restores a ciphertext whose polynomial 1 is the mask the seed expands to -/
theorem expandSeed_of_shape {U : Rng.Uniform} {xof : Rng.Xof} {l : Level} {seed : Rng.Seed} {a : RnsPoly} (hx : SeedExpands U xof l seed a)
    {ct : Ct} (hshape : ∃ c0 ntt cf, ct = ⟨#[c0, a], ntt, cf⟩) : expandSeed U xof l (ct.toSeeded seed) = .ok ct := by
  obtain ⟨c0, ntt, cf, rfl⟩ := hshape
  obtain ⟨st, hst⟩ := hx
  exact expandSeed_toSeeded U xof l c0 a ntt cf seed st hst

/-! ### the driver's pipeline for `mode = seed`: encrypt (expanded view), store (c0, seed), expand, decrypt -/

/-- X2, END TO END, BFV, SEED-COMPRESSED: on the driver's objects, with the seed saved (`seedSaved l true`) and the stored seed expanding
    to the mask, `bfvDecrypt (expandSeed (toSeeded (bfvEncrypt m) seed)) = m` -/
theorem drv_bfv_encrypt_decrypt_seeded {n t : Nat} {kqs : List Nat} {kl : Level} {sk : Array Int} {pk0 pk1 : RnsPoly}
    {lqs : List Nat} {l : Level} (hc : DrvCtx .bfv n t kqs kl sk pk0 pk1) (hl : Drv.Sch.mkLevel .bfv n lqs t = .ok l) (ht : t ≠ 0)
    {a : RnsPoly} {e : Array Int} (ha : RnsCanon l a) (hes : e.size = n) (he : ∀ p, p < n → (e.getD p 0).natAbs ≤ 21)
    (hs : seedSaved l true = true) {U : Rng.Uniform} {xof : Rng.Xof} {seed : Rng.Seed} (hx : SeedExpands U xof l seed a)
    {plain : Poly} (hp : plain.size ≤ n) (hpm : ∀ i, i < plain.size → plain.getD i 0 < t) (hok : FreshEncOK l 21) :
    ∃ cdp ct, Drv.C01E.bfvConsts l lqs t = .ok cdp ∧
      bfvEncrypt l cdp (Spec.prodL lqs % t) ((t + 1) / 2) (.sym sk a (rnsOfInt l e) true) plain = .ok ct ∧
      expandSeed U xof l (ct.toSeeded seed) = .ok ct ∧
      bfvDecrypt l sk ct = .ok (trimPlain (padPlain n plain)) := by
  obtain ⟨cdp, ct, h1, h2, h3⟩ := drv_bfv_encrypt_decrypt hc hl ht (DrvMode.sk (e := e) ha hes he true) hp hpm hok
  obtain ⟨c0, hsh⟩ := bfvEncrypt_seeded_shape hs h2
  exact ⟨cdp, ct, h1, h2, expandSeed_of_shape hx ⟨c0, _, _, hsh⟩, h3⟩

/-- X2, END TO END, BGV, SEED-COMPRESSED -/
theorem drv_bgv_encrypt_decrypt_seeded {n t : Nat} {kqs : List Nat} {kl : Level} {sk : Array Int} {pk0 pk1 : RnsPoly}
    {lqs : List Nat} {l : Level} (hc : DrvCtx .bgv n t kqs kl sk pk0 pk1) (hl : Drv.Sch.mkLevel .bgv n lqs t = .ok l)
    {a : RnsPoly} {e : Array Int} (ha : RnsCanon l a) (hes : e.size = n) (he : ∀ p, p < n → (e.getD p 0).natAbs ≤ 21)
    (hs : seedSaved l true = true) {U : Rng.Uniform} {xof : Rng.Xof} {seed : Rng.Seed} (hx : SeedExpands U xof l seed a)
    {plain : Poly} (hp : plain.size ≤ n) (hpm : ∀ i, i < plain.size → plain.getD i 0 < t)
    (hok : 2 * (t * (21 + 1)) < Spec.prodL lqs) :
    ∃ ct, bgvEncrypt l (Drv.C01E.bgvIncr lqs t).1 ((t + 1) / 2) (Drv.C01E.bgvIncr lqs t).2 (.sym sk a (rnsOfInt l e) true) plain = .ok ct ∧
      ct.cf = 1 ∧ expandSeed U xof l (ct.toSeeded seed) = .ok ct ∧
      bgvDecrypt l sk ct = .ok (trimPlain (padPlain n plain)) := by
  obtain ⟨ct, h1, h2, h3⟩ := drv_bgv_encrypt_decrypt hc hl (DrvMode.sk (e := e) ha hes he true) hp hpm hok
  obtain ⟨c0, hsh⟩ := bgvEncrypt_seeded_shape hs h1
  exact ⟨ct, h1, h2, expandSeed_of_shape hx ⟨c0, _, _, hsh⟩, h3⟩

/-- X2, END TO END, CKKS, SEED-COMPRESSED, over the integers -/
theorem drv_ckks_encrypt_decrypt_seeded {n t : Nat} {kqs : List Nat} {kl : Level} {sk : Array Int} {pk0 pk1 : RnsPoly}
    {lqs : List Nat} {l : Level} (hc : DrvCtx .ckks n t kqs kl sk pk0 pk1) (hl : Drv.Sch.mkLevel .ckks n lqs t = .ok l)
    {a : RnsPoly} {e : Array Int} (ha : RnsCanon l a) (hes : e.size = n) (he : ∀ p, p < n → (e.getD p 0).natAbs ≤ 21)
    (hs : seedSaved l true = true) {U : Rng.Uniform} {xof : Rng.Xof} {seed : Rng.Seed} (hx : SeedExpands U xof l seed a)
    {M : Array Int} (hMs : M.size = n) (hsmall : ∀ c, c < n → 2 * ((M.getD c 0).natAbs + 21) < Spec.prodL lqs) :
    ∃ (ν : Nat → Int) (ct : Ct) (dec : RnsPoly), (∀ c, c < n → (ν c).natAbs ≤ 21) ∧
      ckksEncrypt l (.sym sk a (rnsOfInt l e) true) (ckksPlainOfInt l M) = .ok ct ∧
      expandSeed U xof l (ct.toSeeded seed) = .ok ct ∧ ckksDecrypt l sk ct = .ok dec ∧ RnsCanon l dec ∧
      (∀ c, c < n → (Drv.Sch.exactPhase l lqs sk ct).getD c 0 = M.getD c 0 + ν c) ∧
      ∀ i, i < l.size → ∀ c, c < n → (intt (l.tbl i) (dec.getD i #[])).getD c 0 = Spec.imod (M.getD c 0 + ν c) (l.q i).value := by
  obtain ⟨ν, ct, dec, h0, h1, h2, h3, h4, h5⟩ := drv_ckks_encrypt_decrypt hc hl (DrvMode.sk (e := e) ha hes he true) hMs hsmall
  obtain ⟨c0, hsh⟩ := ckksEncrypt_seeded_shape hs h1
  exact ⟨ν, ct, dec, h0, h1, expandSeed_of_shape hx ⟨c0, _, _, hsh⟩, h2, h3, h4, h5⟩

/-- when the seed does NOT fit (`seedSaved l true = false`: N·k < 9 words) the code silently falls back to the unseeded path; the model's
    value is then that of `save_seed = false` -/
theorem encryptZeroSym_seed_fallback {l : Level} (sk : Array Int) (a e : RnsPoly) (isNtt : Bool) (hs : seedSaved l true = false) :
    encryptZeroSym l sk a e isNtt true = encryptZeroSym l sk a e isNtt false := by
  unfold encryptZeroSym
  have hf : seedSaved l false = false := by unfold seedSaved; rfl
  simp only [hs, hf]

end HC
