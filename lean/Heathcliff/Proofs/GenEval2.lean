import Heathcliff.Gen.EvalCtFns
import Heathcliff.Proofs.GenEval
import Heathcliff.Proofs.GenValid

/-!
  Translator phase 4g: evaluator-level DECISION skeletons generated from src/evaluator.rs (Gen/EvalFns.lean, Gen/EvalCtFns.lean) against
  the decision functions of Model/Evaluator.lean.  Helper names start with `gl_`.

  * C05: `mod_switch_to_next`, `rescale_to_next`, `rescale_to` (level walk) and the refusals of `mod_switch_drop_to_next_internal`
    (the scale must fit the TARGET level);
  * C03: the CKKS scale bookkeeping of `ckks_multiply` / `ckks_square` (product scale, checked against the operands' level);
  * C06: the dispatch of `multiply_plain_inplace` over the four representation combinations.
-/
namespace HC
open HC.GenW

/-! ### C05: level walk -/

/-- `Evaluator::mod_switch_to_next` (skeleton over chain indices; trace = [routine code, chain index reached]) = `modSwitchToNextPlan` -/
theorem gl_mod_switch_to_next_eq (valid : Bool) (cur : Nat) (s : Scheme) :
    GenE.mod_switch_to_next valid cur s = Except.map (fun p => [p.1.code, p.2]) (modSwitchToNextPlan valid cur s) := by
  unfold GenE.mod_switch_to_next modSwitchToNextPlan
  cases valid
  · simp [Except.map]
  · by_cases hc : cur = 0
    · simp [hc, Except.map]
    · have hs : ckSub cur 1 = .ok (cur - 1) := by unfold ckSub; rw [if_pos (by omega)]
      cases s <;>
        simp [hc, hs, Except.map, modSwitchNextKind, SwitchKind.code, bind, Except.bind, pure, Except.pure]

/-- `Evaluator::rescale_to_next` = `rescaleToNextPlan` -/
theorem gl_rescale_to_next_eq (valid : Bool) (cur : Nat) (s : Scheme) :
    GenE.rescale_to_next valid cur s = Except.map (fun p => [p.1.code, p.2]) (rescaleToNextPlan valid cur s) := by
  unfold GenE.rescale_to_next rescaleToNextPlan
  cases valid
  · simp [Except.map]
  · by_cases hc : cur = 0
    · simp [hc, Except.map]
    · have hs : ckSub cur 1 = .ok (cur - 1) := by unfold ckSub; rw [if_pos (by omega)]
      cases s <;>
        simp [hc, hs, Except.map, SwitchKind.code, bind, Except.bind, pure, Except.pure]

theorem gl_rescale_walk_loop_eq (tgt : Nat) : ∀ (fuel cur : Nat) (trace : List Nat), tgt ≤ cur → cur - tgt < fuel →
    GenE.rescale_to_loop1 tgt trace fuel cur = .ok (trace ++ (List.range (cur - tgt)).map (fun i => cur - 1 - i)) := by
  intro fuel
  induction fuel with
  | zero => intro cur trace _ h; omega
  | succ n ih =>
    intro cur trace hle hf
    rw [GenE.rescale_to_loop1]
    by_cases hc : cur = tgt
    · subst hc; simp [gy_pure_eq]
    · have h1 : 1 ≤ cur := by omega
      have hs : ckSub cur 1 = .ok (cur - 1) := by unfold ckSub; rw [if_pos h1]
      simp only [ne_eq, hc, not_false_eq_true, if_true, hs, gy_ok_bind]
      rw [ih (cur - 1) _ (by omega) (by omega)]
      have : cur - tgt = (cur - 1 - tgt) + 1 := by omega
      rw [this, List.range_succ_eq_map, List.map_cons, List.map_map, List.append_assoc]
      rw [List.singleton_append, Nat.sub_zero]
      refine congrArg (fun l => (Except.ok (trace ++ (cur - 1) :: l) : R (List Nat))) ?_
      apply List.map_congr_left
      intro i _
      simp only [Function.comp]; omega

/-- `Evaluator::rescale_to` (decision skeleton: validity, direction guard, scheme dispatch, loop condition, one level down per step)
    = `rescaleToPlan`: for CKKS the walk `switchSteps`, every other scheme refused WHATEVER the target is -/
theorem gl_rescale_to_eq (valid : Bool) (cur tgt : Nat) (s : Scheme) (hc : cur < 2^64) :
    GenE.rescale_to valid cur tgt s = rescaleToPlan valid cur tgt s := by
  unfold GenE.rescale_to rescaleToPlan switchSteps
  cases valid
  · simp
  · by_cases h : cur < tgt
    · cases s <;> simp [h]
    · cases s
      · simp [h]
      · simp only [h, if_false, if_true, Bool.true_eq_false, ne_eq, not_true_eq_false, reduceCtorEq, or_self, gy_pure_eq]
        rw [gl_rescale_walk_loop_eq tgt _ cur _ (by omega) (by omega)]
        simp
      · simp [h]

/-! ### C05 / C03: the refusals of `mod_switch_drop_to_next_internal` -/

/-- `Evaluator::mod_switch_drop_to_next_internal` (decision skeleton; `okCur` / `okNext` = `is_scale_within_bounds` of the ciphertext's
    scale at the current / the next level) = `modSwitchDropDecision` with the NEXT level's verdict; the current level's is not consulted -/
theorem gl_mod_switch_drop_decision_eq (s : Scheme) (ntt hasNext okCur okNext : Bool) :
    GenE.mod_switch_drop_to_next_internal s ntt hasNext okCur okNext = Except.map (fun _ => 1) (modSwitchDropDecision s ntt hasNext okNext) := by
  unfold GenE.mod_switch_drop_to_next_internal modSwitchDropDecision
  cases s <;> cases ntt <;> cases hasNext <;> cases okNext <;> simp [Except.map, pure, Except.pure]

/-- the same with the two Booleans instantiated by the GENERATED `is_scale_within_bounds` at the two levels' bit counts: the decision is
    `gx_scaleOk` (positive scale, `⌊log2 scale⌋ < bound`) at the bound of the level the ciphertext ARRIVES at -/
theorem gl_mod_switch_drop_decision_bits (s : Scheme) (ntt hasNext : Bool) (plainBits curBits nextBits : Nat) (nonPos : Bool) (l2 : Int)
    (hp : plainBits < 2^63) (hn : nextBits < 2^63) :
    GenE.mod_switch_drop_to_next_internal s ntt hasNext
        (GenV.is_scale_within_bounds s plainBits curBits nonPos l2) (GenV.is_scale_within_bounds s plainBits nextBits nonPos l2) =
      Except.map (fun _ => 1) (modSwitchDropDecision s ntt hasNext
        (gx_scaleOk nonPos l2 (match s with | .bfv | .bgv => (plainBits : Int) | .ckks => (nextBits : Int)))) := by
  rw [gl_mod_switch_drop_decision_eq, gx_is_scale_within_bounds_eq _ _ _ _ _ hp hn]
  cases s <;> rfl

/-- the non-scale refusals are those of the model's `modSwitchDropNext` (last level: fewer than two moduli; CKKS in coefficient form) -/
theorem gl_modSwitchDropDecision_model (l : Level) (ct : Ct) :
    modSwitchDropDecision l.scheme ct.ntt (decide (2 ≤ l.size)) true = Except.map (fun _ => ()) (modSwitchDropNext l ct) := by
  unfold modSwitchDropDecision modSwitchDropNext
  by_cases h2 : l.size < 2
  · have : ¬ 2 ≤ l.size := by omega
    simp [h2, this, Except.map]
  · have : 2 ≤ l.size := by omega
    cases hs : l.scheme <;> cases hn : ct.ntt <;> simp [h2, this, Except.map, pure, Except.pure]

/-- a scale that fits the current level but not the next one is refused (the seeded changes C03-r5 / C05-r4 test the wrong level) -/
theorem gl_mod_switch_drop_refuses_unfit (s : Scheme) (ntt hasNext okCur : Bool) :
    GenE.mod_switch_drop_to_next_internal s ntt hasNext okCur false = .error .refused := by
  rw [gl_mod_switch_drop_decision_eq]; unfold modSwitchDropDecision; simp [Except.map]

/-! ### C03: CKKS scale bookkeeping of products -/

theorem gl_resize_guard (v : Nat) : (¬ ((v < 2 ∧ v ≠ 0) ∨ v > 16)) ↔ ctResizeRefuses v = false := by
  unfold ctResizeRefuses Gen.HE_CIPHERTEXT_SIZE_MIN Gen.HE_CIPHERTEXT_SIZE_MAX
  by_cases h1 : v < 2 <;> by_cases h2 : v = 0 <;> by_cases h3 : v > 16 <;> simp [h1, h2, h3] <;> try omega

/-- `Evaluator::ckks_multiply` (bookkeeping skeleton: NTT-form checks, destination size, `resize` refusal, scale := product, bounds check)
    = `ckksProductBookkeeping`: the verdict used is the one about the PRODUCT scale at the OPERANDS' level (`okProd`); the verdict about
    the own scale and the verdicts at the first level are not consulted.  Hypotheses: at least one polynomial in total (`0 + 0 - 1`
    traps), the buffer length `(n1 + n2 - 1) * n * k` fits a usize (the code computes it with checked multiplications). -/
theorem gl_ckks_multiply_eq (ntt1 ntt2 : Bool) (n1 n2 n k : Nat) (okOwn okProd okOwnF okProdF : Bool)
    (h1 : 1 ≤ n1 + n2) (hB1 : (n1 + n2 - 1) * n < 2^64) (hB : (n1 + n2 - 1) * n * k < 2^64) (hs : n1 + n2 < 2^64) :
    GenC.ckks_multiply_sk ntt1 ntt2 n1 n2 n k okOwn okProd okOwnF okProdF = ckksProductBookkeeping ntt1 ntt2 n1 n2 okProd := by
  unfold GenC.ckks_multiply_sk ckksProductBookkeeping
  cases ntt1
  · simp
  cases ntt2
  · simp
  have ha : ckAdd n1 n2 = .ok (n1 + n2) := by unfold ckAdd; rw [if_pos (by simpa [B64] using hs)]
  have hsb : ckSub (n1 + n2) 1 = .ok (n1 + n2 - 1) := by unfold ckSub; rw [if_pos h1]
  have hm1 : ckMul (n1 + n2 - 1) n = .ok ((n1 + n2 - 1) * n) := by unfold ckMul; rw [if_pos (by simpa [B64] using hB1)]
  have hm2 : ckMul ((n1 + n2 - 1) * n) k = .ok ((n1 + n2 - 1) * n * k) := by unfold ckMul; rw [if_pos (by simpa [B64] using hB)]
  have hadd : ckAdd 0 1 = .ok 1 := by unfold ckAdd; rw [if_pos (by simp [B64])]
  simp only [not_true_eq_false, or_self, if_false, ha, hsb, gy_ok_bind, Bool.true_eq_false]
  by_cases hr : ctResizeRefuses (n1 + n2 - 1) = true
  · have : ¬ ¬ ((n1 + n2 - 1 < 2 ∧ n1 + n2 - 1 ≠ 0) ∨ n1 + n2 - 1 > 16) := by
      rw [gl_resize_guard]; simp [hr]
    simp only [hr, if_true, this, if_false]
  · have hr' : ctResizeRefuses (n1 + n2 - 1) = false := by simpa using hr
    have hg := (gl_resize_guard (n1 + n2 - 1)).mpr hr'
    simp only [hg, hr', hm1, hm2, hadd, gy_ok_bind, Bool.false_eq_true, if_false]
    cases okProd <;> simp [pure, Except.pure]

/-- `Evaluator::ckks_square` = the same bookkeeping with both operands the ciphertext itself (size 2: the in-place branch; any other
    size: `ckks_multiply` with a clone) -/
theorem gl_ckks_square_eq (ntt : Bool) (n1 n k : Nat) (okOwn okProd okOwnF okProdF : Bool)
    (h1 : 1 ≤ n1) (hB1 : (n1 + n1 - 1) * n < 2^64) (hB : (n1 + n1 - 1) * n * k < 2^64) (hk : n * k < 2^64) (hs : n1 + n1 < 2^64) :
    GenC.ckks_square_sk ntt n1 n k okOwn okProd okOwnF okProdF = ckksProductBookkeeping ntt ntt n1 n1 okProd := by
  unfold GenC.ckks_square_sk
  cases ntt
  · simp [ckksProductBookkeeping]
  by_cases h2 : n1 = 2
  · subst h2
    have ha : ckAdd 2 2 = .ok 4 := by unfold ckAdd; rw [if_pos (by simp [B64])]
    have hsb : ckSub 4 1 = .ok 3 := by unfold ckSub; rw [if_pos (by omega)]
    have hm : ckMul n k = .ok (n * k) := by unfold ckMul; rw [if_pos (by simpa [B64] using hk)]
    have hadd : ckAdd 0 1 = .ok 1 := by unfold ckAdd; rw [if_pos (by simp [B64])]
    have hr : ctResizeRefuses 3 = false := by decide
    unfold ckksProductBookkeeping
    simp only [not_true_eq_false, if_false, ne_eq, ha, hsb, hm, hadd, gy_ok_bind, Bool.true_eq_false, or_self, hr]
    cases okProd <;> simp [pure, Except.pure]
  · simp only [not_true_eq_false, if_false, ne_eq, h2, not_false_eq_true, if_true, decide_true, Bool.decide_eq_true]
    rw [gl_ckks_multiply_eq true true n1 n1 n k _ _ _ _ (by omega) hB1 hB hs]
    cases ckksProductBookkeeping true true n1 n1 okProd with
    | error e => rfl
    | ok r => rfl

/-- an out-of-bounds product scale is refused; an in-bounds one is recorded as THE PRODUCT (the seeded change C03-r4 checks the first level) -/
theorem gl_ckks_multiply_refuses (n1 n2 : Nat) : ckksProductBookkeeping true true n1 n2 false = .error .refused := by
  unfold ckksProductBookkeeping; cases ctResizeRefuses (n1 + n2 - 1) <;> simp

/-! ### C06: the dispatch of `multiply_plain_inplace` -/

/-- `Evaluator::multiply_plain_inplace` (plan skeleton) = `multiplyPlainPlan` for the four representation combinations; invalid operands
    are refused -/
theorem gl_multiply_plain_plan_eq (ctNtt ptNtt : Bool) :
    GenC.ct_multiply_plain_plan true true ctNtt ptNtt = .ok ((multiplyPlainPlan ctNtt ptNtt).map PlainStep.code) := by
  cases ctNtt <;> cases ptNtt <;> rfl

theorem gl_multiply_plain_plan_refuses (v1 v2 a b : Bool) (h : v1 = false ∨ v2 = false) :
    GenC.ct_multiply_plain_plan v1 v2 a b = .error .refused := by
  unfold GenC.ct_multiply_plain_plan
  rcases h with h | h
  · subst h; simp
  · subst h; cases v1 <;> simp

/-- the plan for an NTT-form plaintext, run with the model's operations, IS `ctMultiplyPlain` (for a coefficient-form ciphertext: full
    forward transform, dyadic product, FULL inverse transform - reduced residues) -/
theorem gl_runPlainPlan (l : Level) (a : Ct) (p : RnsPoly) :
    runPlainPlan l p (multiplyPlainPlan a.ntt true) a = ctMultiplyPlain l a p := by
  unfold ctMultiplyPlain
  cases h : a.ntt
  · simp only [multiplyPlainPlan, runPlainPlan, Bool.false_eq_true, if_false]
    cases ctToNtt l a with
    | error e => rfl
    | ok a' =>
      simp only [bind, Except.bind]
      cases ctMultiplyPlainNtt l a' p with
      | error e => rfl
      | ok r =>
        simp only []
        cases ctFromNtt l r with
        | error e => rfl
        | ok r' => rfl
  · simp only [multiplyPlainPlan, runPlainPlan, if_true]
    cases ctMultiplyPlainNtt l a p with
    | error e => rfl
    | ok r => rfl

/-- `Evaluator::multiply_plain_normal` (route + bookkeeping skeleton) = `multiplyPlainNormalPlan`: which data steps run for a monomial /
    general plaintext with / without the fast plain lift, and the CKKS scale rule after the data at BOTH exits (verdict about the PRODUCT
    scale; the verdict about the own scale is not consulted).  `n * k < 2^64`: the temporary RNS polynomial is allocated with a checked product. -/
theorem gl_multiply_plain_normal_plan_eq (nonzero : Nat) (monoUpper fastLift : Bool) (n k : Nat) (s : Scheme) (okOwn okProd : Bool)
    (hnk : n * k < 2^64) :
    GenC.ct_multiply_plain_normal_plan nonzero monoUpper fastLift n k s okOwn okProd = multiplyPlainNormalPlan nonzero monoUpper fastLift s okProd := by
  have hadd : ckAdd 0 1 = .ok 1 := by unfold ckAdd; rw [if_pos (by simp [B64])]
  have h100 : ckAdd 100 0 = .ok 100 := by unfold ckAdd; rw [if_pos (by simp [B64])]
  have h101 : ckAdd 100 1 = .ok 101 := by unfold ckAdd; rw [if_pos (by simp [B64])]
  have hm : ckMul n k = .ok (n * k) := by unfold ckMul; rw [if_pos (by simpa [B64] using hnk)]
  unfold GenC.ct_multiply_plain_normal_plan multiplyPlainNormalPlan multiplyPlainNormalRoute mulPlainScaleRule
  by_cases h1 : nonzero = 1
  · cases monoUpper <;> cases fastLift <;> cases s <;> cases okProd <;>
      simp [h1, hadd, h100, h101, bind, Except.bind, pure, Except.pure]
  · cases fastLift <;> cases s <;> cases okProd <;>
      simp [h1, hadd, h100, h101, hm, bind, Except.bind, pure, Except.pure]

end HC
