/- C01 part Y, non-vacuity: the generator-level end-to-end theorems in the concrete world of C01LW / C01XW — the driver's rejection sampler
   `Rng.randUniform` (which satisfies the range contract: `randUniform_contract`), the byte stream `c01xw_xof`, two generators seeded with
   concrete seeds.  The ternary draw is evaluated; the error draws exist by `noiseMany_total2`. -/
import Heathcliff.Proofs.C01Y
import Heathcliff.Proofs.C01XW
namespace HC
open Finset

theorem c01yw_byteXof : Rng.ByteXof c01xw_xof := by
  intro seed c i
  unfold c01xw_xof
  by_cases hi : i < Rng.BUF
  · simp [Array.getD, hi]
    omega
  · simp [Array.getD, hi]

def c01yw_uprng : Rng.St := Rng.fromSeed (List.replicate 64 2)
def c01yw_noisePrng : Rng.St := Rng.fromSeed (List.replicate 64 3)

def c01yw_P : Rng.Parms := ⟨4, [97, 113, 193], 2⟩

theorem c01yw_mask : ∃ um, (Rng.asymCore Rng.randUniform c01xw_xof c01yw_P c01yw_uprng c01yw_noisePrng []).1.mask = .ok um := by
  have h : (Rng.asymCore Rng.randUniform c01xw_xof c01yw_P c01yw_uprng c01yw_noisePrng []).1.mask.toOption.isSome = true := by
    decide +kernel
  cases hd : (Rng.asymCore Rng.randUniform c01xw_xof c01yw_P c01yw_uprng c01yw_noisePrng []).1.mask with
  | error e => rw [hd] at h; cases h
  | ok r => exact ⟨r, rfl⟩

theorem c01yw_noise : ∃ e0 e1, (Rng.asymCore Rng.randUniform c01xw_xof c01yw_P c01yw_uprng c01yw_noisePrng []).1.noise = [.ok e0, .ok e1] :=
  noiseMany_total2 c01xw_xof c01yw_P c01yw_noisePrng (by decide)

/-- NON-VACUITY of `drv_bfv_encrypt_decrypt_prng_sp` (and of `drvMode_pkPrev_of_prng`, `ternary_tape`, `cbd_tape`): BFV through the special
    prime with the tape drawn by the generator model from concrete generator states -/
theorem c01yw_bfv_prng_sp :
    ∃ um e0m e1m cdp ct, Drv.C01E.bfvConsts (c01w_l .bfv 17) [97, 113] 17 = .ok cdp ∧
      bfvEncrypt (c01w_l .bfv 17) cdp (Spec.prodL [97, 113] % 17) ((17 + 1) / 2)
        (.asym (some (c01w_pl .bfv 17)) #[c01w_pk0 (c01w_pl .bfv 17), c01w_a.extract 0 (c01w_pl .bfv 17).size]
          (toRns um) #[toRns e0m, toRns e1m]) c01w_plain = .ok ct ∧
      bfvDecrypt (c01w_l .bfv 17) c01w_sk ct = .ok (trimPlain (padPlain 4 c01w_plain)) := by
  obtain ⟨um, hm⟩ := c01yw_mask
  obtain ⟨e0, e1, hn⟩ := c01yw_noise
  obtain ⟨cdp, ct, h⟩ := drv_bfv_encrypt_decrypt_prng_sp Rng.randUniform_contract c01yw_byteXof c01vw_ctx_bfv c01w_l_ok_bfv (by decide)
    (qL := 193) (r := []) rfl c01w_pl_ok_bfv (Rng.byteSt_fromSeed _) (Rng.byteSt_fromSeed _) hm hn (plain := c01w_plain)
    (by decide) (by decide) (by unfold FreshEncOK; decide +kernel)
  exact ⟨um, e0, e1, cdp, ct, h⟩

/-- NON-VACUITY of `drv_ckks_encrypt_decrypt_prng_pk` (head of the chain) -/
theorem c01yw_ckks_prng_pk :
    ∃ um e0m e1m, ∃ (ν : Nat → Int) (ct : Ct) (dec : RnsPoly), (∀ c, c < 4 → (ν c).natAbs ≤ 21 * (2 * 4 + 1)) ∧
      ckksEncrypt (c01w_pl .ckks 0) (.asym none #[c01w_pk0 (c01w_pl .ckks 0), c01w_a.extract 0 (c01w_pl .ckks 0).size]
          (toRns um) #[toRns e0m, toRns e1m]) (ckksPlainOfInt (c01w_pl .ckks 0) c01vw_M) = .ok ct ∧
      ckksDecrypt (c01w_pl .ckks 0) c01w_sk ct = .ok dec ∧ RnsCanon (c01w_pl .ckks 0) dec ∧
      (∀ c, c < 4 → (Drv.Sch.exactPhase (c01w_pl .ckks 0) [97, 113, 193] c01w_sk ct).getD c 0 = c01vw_M.getD c 0 + ν c) ∧
      ∀ i, i < (c01w_pl .ckks 0).size → ∀ c, c < 4 →
        (intt ((c01w_pl .ckks 0).tbl i) (dec.getD i #[])).getD c 0 = Spec.imod (c01vw_M.getD c 0 + ν c) ((c01w_pl .ckks 0).q i).value := by
  obtain ⟨um, hm⟩ := c01yw_mask
  obtain ⟨e0, e1, hn⟩ := c01yw_noise
  exact ⟨um, e0, e1, drv_ckks_encrypt_decrypt_prng_pk Rng.randUniform_contract c01yw_byteXof c01vw_ctx_ckks c01w_pl_ok_ckks (r := []) rfl
    (Rng.byteSt_fromSeed _) (Rng.byteSt_fromSeed _) hm hn rfl (by decide)⟩

/-- NON-VACUITY of `drvMode_sk_of_prng` / `drv_bgv_encrypt_decrypt_prng_sk` at the key level (the mask is expanded from the public seed the
    c1 generator delivers) -/
theorem c01yw_bgv_prng_sk (saveSeed : Bool) :
    ∃ am em ct, bgvEncrypt (c01w_pl .bgv 17) (Drv.C01E.bgvIncr [97, 113, 193] 17).1 ((17 + 1) / 2) (Drv.C01E.bgvIncr [97, 113, 193] 17).2
        (.sym c01w_sk (toRns am) (toRns em) saveSeed) c01w_plain = .ok ct ∧ ct.cf = 1 ∧
      bgvDecrypt (c01w_pl .bgv 17) c01w_sk ct = .ok (trimPlain (padPlain 4 c01w_plain)) := by
  have hmk : (Rng.symCore Rng.randUniform c01xw_xof c01yw_P c01yw_uprng c01yw_noisePrng []).1.mask.toOption.isSome = true := by
    decide +kernel
  cases hd : (Rng.symCore Rng.randUniform c01xw_xof c01yw_P c01yw_uprng c01yw_noisePrng []).1.mask with
  | error e => rw [hd] at hmk; cases hmk
  | ok am =>
    obtain ⟨c, s', hc⟩ := centeredBinomial_total c01xw_xof c01yw_noisePrng 4 (moduli := [97, 113, 193]) (by decide)
    have hn : (Rng.symCore Rng.randUniform c01xw_xof c01yw_P c01yw_uprng c01yw_noisePrng []).1.noise = [.ok c] := by
      show [(Rng.centeredBinomial c01xw_xof c01yw_noisePrng 4 [97, 113, 193]).map (·.1)] = _
      rw [hc]; rfl
    obtain ⟨ct, h⟩ := drv_bgv_encrypt_decrypt_prng_sk Rng.randUniform_contract c01yw_byteXof c01vw_ctx_bgv c01w_pl_ok_bgv
      (Rng.byteSt_fromSeed _) hd hn saveSeed (plain := c01w_plain) (by decide) (by decide) (by decide)
    exact ⟨am, c, ct, h⟩

end HC
