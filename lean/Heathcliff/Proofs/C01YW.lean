/- C01 part Y, non-vacuity: the generator-level end-to-end theorems in the concrete world of C01LW / C01XW — the driver's rejection sampler
   `Rng.randUniform` (which satisfies the range contract: `randUniform_contract`), the byte stream `c01xw_xof`, two generators seeded with
   concrete seeds.  The ternary draw is evaluated; the error draws exist by `noiseMany_total2`. -/
import Heathcliff.Proofs.C01Y
import Heathcliff.Proofs.C01XW
namespace HC
open Finset

theorem c01yw_byteXof : Rng.ByteXof c01xw_xof := by
  intro seed c i
  unfold c01xw_xof
  by_cases hi : i < Rng.BUF
  · simp [Array.getD, hi]
    omega
  · simp [Array.getD, hi]

def c01yw_uprng : Rng.St := Rng.fromSeed (List.replicate 64 2)
def c01yw_noisePrng : Rng.St := Rng.fromSeed (List.replicate 64 3)

def c01yw_P : Rng.Parms := ⟨4, [97, 113, 193], 2⟩

theorem c01yw_mask : ∃ um, (Rng.asymCore Rng.randUniform c01xw_xof c01yw_P c01yw_uprng c01yw_noisePrng []).1.mask = .ok um := by
  have h : (Rng.asymCore Rng.randUniform c01xw_xof c01yw_P c01yw_uprng c01yw_noisePrng []).1.mask.toOption.isSome = true := by
    decide +kernel
  cases hd : (Rng.asymCore Rng.randUniform c01xw_xof c01yw_P c01yw_uprng c01yw_noisePrng []).1.mask with
  | error e => rw [hd] at h; cases h
  | ok r => exact ⟨r, rfl⟩

theorem c01yw_noise : ∃ e0 e1, (Rng.asymCore Rng.randUniform c01xw_xof c01yw_P c01yw_uprng c01yw_noisePrng []).1.noise = [.ok e0, .ok e1] :=
  noiseMany_total2 c01xw_xof c01yw_P c01yw_noisePrng (by decide)

/-- NON-VACUITY of `drv_bfv_encrypt_decrypt_prng_sp` (and of `drvMode_pkPrev_of_prng`, `ternary_tape`, `cbd_tape`): BFV through the special
    prime with the tape drawn by the generator model from concrete generator states -/
theorem c01yw_bfv_prng_sp :
    ∃ um e0m e1m cdp ct, Drv.C01E.bfvConsts (c01w_l .bfv 17) [97, 113] 17 = .ok cdp ∧
      bfvEncrypt (c01w_l .bfv 17) cdp (Spec.prodL [97, 113] % 17) ((17 + 1) / 2)
        (.asym (some (c01w_pl .bfv 17)) #[c01w_pk0 (c01w_pl .bfv 17), c01w_a.extract 0 (c01w_pl .bfv 17).size]
          (toRns um) #[toRns e0m, toRns e1m]) c01w_plain = .ok ct ∧
      bfvDecrypt (c01w_l .bfv 17) c01w_sk ct = .ok (trimPlain (padPlain 4 c01w_plain)) := by
  obtain ⟨um, hm⟩ := c01yw_mask
  obtain ⟨e0, e1, hn⟩ := c01yw_noise
  obtain ⟨cdp, ct, h⟩ := drv_bfv_encrypt_decrypt_prng_sp Rng.randUniform_contract c01yw_byteXof c01vw_ctx_bfv c01w_l_ok_bfv (by decide)
    (qL := 193) (r := []) rfl c01w_pl_ok_bfv (Rng.byteSt_fromSeed _) (Rng.byteSt_fromSeed _) hm hn (plain := c01w_plain)
    (by decide) (by decide) (by unfold FreshEncOK; decide +kernel)
  exact ⟨um, e0, e1, cdp, ct, h⟩

/-- NON-VACUITY of `drv_ckks_encrypt_decrypt_prng_pk` (head of the chain) -/
theorem c01yw_ckks_prng_pk :
    ∃ um e0m e1m, ∃ (ν : Nat → Int) (ct : Ct) (dec : RnsPoly), (∀ c, c < 4 → (ν c).natAbs ≤ 21 * (2 * 4 + 1)) ∧
      ckksEncrypt (c01w_pl .ckks 0) (.asym none #[c01w_pk0 (c01w_pl .ckks 0), c01w_a.extract 0 (c01w_pl .ckks 0).size]
          (toRns um) #[toRns e0m, toRns e1m]) (ckksPlainOfInt (c01w_pl .ckks 0) c01vw_M) = .ok ct ∧
      ckksDecrypt (c01w_pl .ckks 0) c01w_sk ct = .ok dec ∧ RnsCanon (c01w_pl .ckks 0) dec ∧
      (∀ c, c < 4 → (Drv.Sch.exactPhase (c01w_pl .ckks 0) [97, 113, 193] c01w_sk ct).getD c 0 = c01vw_M.getD c 0 + ν c) ∧
      ∀ i, i < (c01w_pl .ckks 0).size → ∀ c, c < 4 →
        (intt ((c01w_pl .ckks 0).tbl i) (dec.getD i #[])).getD c 0 = Spec.imod (c01vw_M.getD c 0 + ν c) ((c01w_pl .ckks 0).q i).value := by
  obtain ⟨um, hm⟩ := c01yw_mask
  obtain ⟨e0, e1, hn⟩ := c01yw_noise
  exact ⟨um, e0, e1, drv_ckks_encrypt_decrypt_prng_pk Rng.randUniform_contract c01yw_byteXof c01vw_ctx_ckks c01w_pl_ok_ckks (r := []) rfl
    (Rng.byteSt_fromSeed _) (Rng.byteSt_fromSeed _) hm hn rfl (by decide)⟩

/-- NON-VACUITY of `drvMode_sk_of_prng` / `drv_bgv_encrypt_decrypt_prng_sk` at the key level (the mask is expanded from the public seed the
    c1 generator delivers) -/
theorem c01yw_bgv_prng_sk (saveSeed : Bool) :
    ∃ am em ct, bgvEncrypt (c01w_pl .bgv 17) (Drv.C01E.bgvIncr [97, 113, 193] 17).1 ((17 + 1) / 2) (Drv.C01E.bgvIncr [97, 113, 193] 17).2
        (.sym c01w_sk (toRns am) (toRns em) saveSeed) c01w_plain = .ok ct ∧ ct.cf = 1 ∧
      bgvDecrypt (c01w_pl .bgv 17) c01w_sk ct = .ok (trimPlain (padPlain 4 c01w_plain)) := by
  have hmk : (Rng.symCore Rng.randUniform c01xw_xof c01yw_P c01yw_uprng c01yw_noisePrng []).1.mask.toOption.isSome = true := by
    decide +kernel
  cases hd : (Rng.symCore Rng.randUniform c01xw_xof c01yw_P c01yw_uprng c01yw_noisePrng []).1.mask with
  | error e => rw [hd] at hmk; cases hmk
  | ok am =>
    obtain ⟨c, s', hc⟩ := centeredBinomial_total c01xw_xof c01yw_noisePrng 4 (moduli := [97, 113, 193]) (by decide)
    have hn : (Rng.symCore Rng.randUniform c01xw_xof c01yw_P c01yw_uprng c01yw_noisePrng []).1.noise = [.ok c] := by
      show [(Rng.centeredBinomial c01xw_xof c01yw_noisePrng 4 [97, 113, 193]).map (·.1)] = _
      rw [hc]; rfl
    obtain ⟨ct, h⟩ := drv_bgv_encrypt_decrypt_prng_sk Rng.randUniform_contract c01yw_byteXof c01vw_ctx_bgv c01w_pl_ok_bgv
      (Rng.byteSt_fromSeed _) hd hn saveSeed (plain := c01w_plain) (by decide) (by decide) (by decide)
    exact ⟨am, c, ct, h⟩

/-! ### the key material and the generator-level functions -/

def c01yw_skprng : Rng.St := Rng.fromSeed (List.replicate 64 4)

/-- NON-VACUITY of `drvCtx_of_prng`: secret key and public key from concrete generator states at the key level {97, 113, 193} -/
theorem c01yw_ctx_of_prng (saveSeed : Bool) :
    ∃ (tern am em : List (List Nat)) (sk : Array Int) (pk0 : RnsPoly),
      genSecretKey (c01w_pl .bfv 17) (toRns tern) = skNtt (c01w_pl .bfv 17) sk ∧
      genPublicKey (c01w_pl .bfv 17) sk (toRns am) (toRns em) saveSeed = .ok ⟨#[pk0, toRns am], true, 1⟩ ∧
      DrvCtx .bfv 4 17 [97, 113, 193] (c01w_pl .bfv 17) sk pk0 (toRns am) := by
  have ht : (Rng.ternary Rng.randUniform c01xw_xof c01yw_skprng 4 [97, 113, 193]).toOption.isSome = true := by decide +kernel
  have hmk : (Rng.symCore Rng.randUniform c01xw_xof c01yw_P c01yw_uprng c01yw_noisePrng []).1.mask.toOption.isSome = true := by
    decide +kernel
  cases htern : Rng.ternary Rng.randUniform c01xw_xof c01yw_skprng 4 [97, 113, 193] with
  | error e => rw [htern] at ht; cases ht
  | ok tr =>
    cases hd : (Rng.symCore Rng.randUniform c01xw_xof c01yw_P c01yw_uprng c01yw_noisePrng []).1.mask with
    | error e => rw [hd] at hmk; cases hmk
    | ok am =>
      obtain ⟨c, s', hc⟩ := centeredBinomial_total c01xw_xof c01yw_noisePrng 4 (moduli := [97, 113, 193]) (by decide)
      have hn : (Rng.symCore Rng.randUniform c01xw_xof c01yw_P c01yw_uprng c01yw_noisePrng []).1.noise = [.ok c] := by
        show [(Rng.centeredBinomial c01xw_xof c01yw_noisePrng 4 [97, 113, 193]).map (·.1)] = _
        rw [hc]; rfl
      obtain ⟨sk, pk0, h⟩ := drvCtx_of_prng Rng.randUniform_contract c01yw_byteXof c01w_pl_ok_bfv (by decide)
        (Rng.byteSt_fromSeed _) (tern := tr.1) (skprng' := tr.2) htern (Rng.byteSt_fromSeed _) hd hn saveSeed
      exact ⟨tr.1, am, c, sk, pk0, h⟩

/-- NON-VACUITY of `encryptZeroAsymPrng_fresh` (and `encryptZeroAsymPrng_eq_tape`): the model's generator-level public-key encryption of
    zero at the head of the chain succeeds on the concrete generator states and is fresh within 21(2N+1) -/
theorem c01yw_asymPrng_fresh :
    ∃ (ct : Ct) (st : Rng.St) (ν : Nat → Int),
      encryptZeroAsymPrng Rng.randUniform c01xw_xof (c01w_pl .ckks 0) #[c01w_pk0 (c01w_pl .ckks 0), c01w_a.extract 0 (c01w_pl .ckks 0).size]
        c01yw_uprng c01yw_noisePrng (c01w_pl .ckks 0).scheme.encNtt = .ok (ct, st) ∧
      FreshZero (c01w_pl .ckks 0) c01w_sk (.ok ct) ν ∧ ∀ c, c < (c01w_pl .ckks 0).n → (ν c).natAbs ≤ 21 * (2 * 4 + 1) := by
  obtain ⟨a1, a2, a3, a4, a5, a6, a7, a8, a9⟩ := mkLevel_ok c01w_pl_ok_ckks
  obtain ⟨um, hm⟩ := c01yw_mask
  obtain ⟨e0, e1, hn⟩ := c01yw_noise
  have hmode := drvMode_pk_of_prng (sk := c01w_sk) (pk0 := c01w_pk0 (c01w_pl .ckks 0)) (pk1 := c01w_a.extract 0 (c01w_pl .ckks 0).size)
    (t := 0) (kqs := [97, 113, 193]) (r := []) Rng.randUniform_contract c01yw_byteXof rfl c01w_pl_ok_ckks
    (Rng.byteSt_fromSeed _) (Rng.byteSt_fromSeed _) hm hn
  obtain ⟨ν, ⟨c0, c1, hz, _⟩, _⟩ := drvMode_fresh c01vw_ctx_ckks c01w_pl_ok_ckks hmode
  have hP : (⟨(c01w_pl .ckks 0).n, (c01w_pl .ckks 0).qs.toList.map (·.value), 2⟩ : Rng.Parms) = c01yw_P := by
    have e : (c01w_pl .ckks 0).qs.toList.map (·.value) = [97, 113, 193] := a8
    rw [a6, e]; rfl
  have heq := encryptZeroAsymPrng_eq_tape (U := Rng.randUniform) (xof := c01xw_xof) (l := c01w_pl .ckks 0)
    (pk := #[c01w_pk0 (c01w_pl .ckks 0), c01w_a.extract 0 (c01w_pl .ckks 0).size]) rfl (uprng := c01yw_uprng) (noisePrng := c01yw_noisePrng)
    (c01w_pl .ckks 0).scheme.encNtt (um := um) (e0m := e0) (e1m := e1) (by rw [hP]; exact hm) (by rw [hP]; exact hn)
  have hz' : encryptZeroAsym (c01w_pl .ckks 0) #[c01w_pk0 (c01w_pl .ckks 0), c01w_a.extract 0 (c01w_pl .ckks 0).size] (toRns um)
      #[toRns e0, toRns e1] (c01w_pl .ckks 0).scheme.encNtt = .ok ⟨#[c0, c1], (c01w_pl .ckks 0).scheme.encNtt, 1⟩ := by
    unfold encryptZeroInternal at hz
    exact hz
  rw [hz'] at heq
  obtain ⟨ν', hf, hb⟩ := encryptZeroAsymPrng_fresh Rng.randUniform_contract c01yw_byteXof c01vw_ctx_ckks (r := []) rfl c01w_pl_ok_ckks
    (Rng.byteSt_fromSeed _) (Rng.byteSt_fromSeed _) heq
  exact ⟨_, _, ν', heq, hf, hb⟩

end HC
