/-
  C20, coefficient packing (cheetah.rs): the encoded input / weight blocks as functions of the position, and the
  read-back coefficient of their negacyclic product.
-/
import Heathcliff.Proofs.C20A

namespace HC
open Finset HC.MM

theorem c20_succ_mul_le {k ob ib : Nat} (hk : k < ob) : k * ib + ib ≤ ob * ib := by
  have := Nat.mul_le_mul_right ib (Nat.succ_le_of_lt hk)
  rwa [Nat.succ_mul] at this

/-- no other pair of positions sums to the read position -/
theorem c20_ch_low {M ib ob b' j k i' db dk : Nat} (hM : M = ob * ib) (hj : j < ib) (hi' : i' < ib) (hk : k < ob) (hdk : dk < ob)
    (h : b' * M + j + (k * ib + (ib - 1 - i')) = db * M + (dk * ib + (ib - 1))) : b' = db ∧ k = dk ∧ i' = j := by
  have hkib := c20_succ_mul_le (ib := ib) hk
  have hdkib := c20_succ_mul_le (ib := ib) hdk
  rw [← hM] at hkib hdkib
  rcases c20_carry (W := M) (X := b') (u := k * ib + ((ib - 1 - i') + j)) (Y := db) (v := dk * ib + (ib - 1))
      (by omega) (by omega) (by omega) with ⟨hu, hX⟩ | ⟨hu, _⟩
  · rcases c20_carry (W := ib) (X := k) (u := (ib - 1 - i') + j) (Y := dk) (v := ib - 1) (by omega) (by omega) hu with ⟨h1, h2⟩ | ⟨h1, _⟩
    · exact ⟨hX, h2, by omega⟩
    · omega
  · omega

/-- wrap-around pairs do not reach the read position -/
theorem c20_ch_high {n M ib ob bb b' j k i' db dk : Nat} (hM : M = ob * ib) (hfit : bb * M ≤ n) (hb' : b' < bb)
    (hj : j < ib) (hk : k < ob)
    (h : b' * M + j + (k * ib + (ib - 1 - i')) = n + (db * M + (dk * ib + (ib - 1)))) : False := by
  have hkib := c20_succ_mul_le (ib := ib) hk
  have hb := c20_succ_mul_le (ib := M) hb'
  rw [← hM] at hkib
  omega

theorem c20_inPos_eq (h : Helper) (db dj : Nat) : inPos h db dj = db * (h.ob * h.ib) + dj := by
  unfold inPos; rw [Nat.mul_assoc, Nat.mul_comm h.ib h.ob]

theorem c20_outPos_eq (h : Helper) (db dk : Nat) (hib : 0 < h.ib) : outPos h db dk = db * (h.ob * h.ib) + (dk * h.ib + (h.ib - 1)) := by
  unfold outPos; rw [Nat.mul_assoc, Nat.mul_comm h.ib h.ob]; omega

theorem c20_wPos_eq (h : Helper) (dk di : Nat) (hdi : di < h.ib) : wPos h dk di = dk * h.ib + (h.ib - 1 - di) := by
  unfold wPos; omega

/-- the encoded input block as a function of the position (`encode_inputs_*`, one block) -/
theorem c20_encInput_spec {R : Type} (zero : R) (h : Helper) (x : Nat → R) (hfit : h.bb * h.ib * h.ob ≤ h.n) (hob : 0 < h.ob)
    (li ui lj uj : Nat) (hb : ui - li ≤ h.bb) (hi : uj - lj ≤ h.ib) :
    ∃ px, encInputBlock h zero x li ui lj uj = .ok px ∧ px.size = h.n ∧
      (∀ q, (∀ db dj, db < ui - li → dj < uj - lj → inPos h db dj ≠ q) → px.getD q zero = zero) ∧
      (∀ db dj, db < ui - li → dj < uj - lj → px.getD (inPos h db dj) zero = x ((li + db) * h.id + (lj + dj))) := by
  have hM : h.bb * (h.ob * h.ib) ≤ h.n := by rw [Nat.mul_comm h.ob h.ib, ← Nat.mul_assoc]; exact hfit
  have hibM : h.ib ≤ h.ob * h.ib := Nat.le_mul_of_pos_left _ hob
  obtain ⟨a, hf, hs, hz, hv⟩ := c20_scatter_map zero h.n h.n (pairs (ui - li) (uj - lj))
    (fun p => inPos h p.1 p.2) (fun p => x ((li + p.1) * h.id + (lj + p.2)))
    (by
      intro p hp
      obtain ⟨h1, h2⟩ := c20_mem_pairs.mp hp
      have := c20_succ_mul_le (ib := h.ob * h.ib) (lt_of_lt_of_le h1 hb)
      rw [c20_inPos_eq]; constructor <;> omega)
    (by
      intro p hp p' hp' he
      obtain ⟨h1, h2⟩ := c20_mem_pairs.mp hp
      obtain ⟨h1', h2'⟩ := c20_mem_pairs.mp hp'
      simp only [c20_inPos_eq] at he
      obtain ⟨e2, e1⟩ := c20_digit_unique (W := h.ob * h.ib) (by omega) (by omega) he
      rw [e1, e2])
  refine ⟨a, hf, hs, ?_, ?_⟩
  · intro q hq
    exact hz q (fun p hp => by obtain ⟨h1, h2⟩ := c20_mem_pairs.mp hp; exact hq p.1 p.2 h1 h2)
  · intro db dj h1 h2
    exact hv (db, dj) (c20_mem_pairs.mpr ⟨h1, h2⟩)

/-- the encoded weight block as a function of the position (`encode_weight_small_*`): rows reversed -/
theorem c20_encWeight_spec {R : Type} (zero : R) (h : Helper) (w : Nat → R) (hfit : h.ib * h.ob ≤ h.n)
    (li ui lk uk : Nat) (hi : ui - li ≤ h.ib) (ho : uk - lk ≤ h.ob) :
    ∃ pw, encWeightSmall h zero w li ui lk uk = .ok pw ∧ pw.size = h.ib * h.ob ∧
      (∀ q, (∀ dk di, dk < uk - lk → di < ui - li → wPos h dk di ≠ q) → pw.getD q zero = zero) ∧
      (∀ dk di, dk < uk - lk → di < ui - li → pw.getD (wPos h dk di) zero = w ((li + di) * h.od + (lk + dk))) := by
  have hM : h.ob * h.ib ≤ h.n := by rw [Nat.mul_comm]; exact hfit
  obtain ⟨a, hf, hs, hz, hv⟩ := c20_scatter_map zero (h.ib * h.ob) h.n (pairs (uk - lk) (ui - li))
    (fun p => wPos h p.1 p.2) (fun p => w ((li + p.2) * h.od + (lk + p.1)))
    (by
      intro p hp
      obtain ⟨h1, h2⟩ := c20_mem_pairs.mp hp
      have := c20_succ_mul_le (ib := h.ib) (lt_of_lt_of_le h1 ho)
      rw [c20_wPos_eq h _ _ (by omega), Nat.mul_comm h.ib h.ob]; constructor <;> omega)
    (by
      intro p hp p' hp' he
      obtain ⟨h1, h2⟩ := c20_mem_pairs.mp hp
      obtain ⟨h1', h2'⟩ := c20_mem_pairs.mp hp'
      rw [c20_wPos_eq h _ _ (by omega), c20_wPos_eq h _ _ (by omega)] at he
      obtain ⟨e2, e1⟩ := c20_digit_unique (W := h.ib) (by omega) (by omega) he
      have : p.2 = p'.2 := by omega
      rw [e1, this])
  refine ⟨a, hf, hs, ?_, ?_⟩
  · intro q hq
    exact hz q (fun p hp => by obtain ⟨h1, h2⟩ := c20_mem_pairs.mp hp; exact hq p.1 p.2 h1 h2)
  · intro dk di h1 h2
    exact hv (dk, di) (c20_mem_pairs.mpr ⟨h1, h2⟩)

/-- **coefficient packing, one block pair**: the coefficient of the negacyclic product of an encoded input block (batch rows
    `li..ui`, input columns `lj..uj`) and the encoded weight block (input rows `lj..uj`, output columns `lk..uk`) at the
    output position of (row `db`, column `dk`) is the partial dot product over the block's input columns. -/
theorem c20_cheetah_coeff {R : Type} [CommRing R] (h : Helper) (x w : Nat → R) (hfit : h.bb * h.ib * h.ob ≤ h.n)
    (li ui lj uj lk uk : Nat) (hb : ui - li ≤ h.bb) (hi : uj - lj ≤ h.ib) (ho : uk - lk ≤ h.ob)
    (db dk : Nat) (hdb : db < ui - li) (hdk : dk < uk - lk) :
    ∃ px pw, encInputBlock h 0 x li ui lj uj = .ok px ∧ encWeightSmall h 0 w lj uj lk uk = .ok pw ∧
      negMulR h.n (fun p => px.getD p 0) (fun p => pw.getD p 0) (outPos h db dk)
        = ∑ j ∈ range (uj - lj), x ((li + db) * h.id + (lj + j)) * w ((lj + j) * h.od + (lk + dk)) := by
  have hob : 0 < h.ob := by omega
  have hbb : 0 < h.bb := by omega
  have hfitM : h.bb * (h.ob * h.ib) ≤ h.n := by rw [Nat.mul_comm h.ob h.ib, ← Nat.mul_assoc]; exact hfit
  have hfitW : h.ib * h.ob ≤ h.n := by
    have := Nat.le_mul_of_pos_left (h.ib * h.ob) hbb
    rw [← Nat.mul_assoc] at this; omega
  obtain ⟨px, hpx, _, hxz, hxv⟩ := c20_encInput_spec (0 : R) h x hfit hob li ui lj uj hb hi
  obtain ⟨pw, hpw, _, hwz, hwv⟩ := c20_encWeight_spec (0 : R) h w hfitW lj uj lk uk hi ho
  refine ⟨px, pw, hpx, hpw, ?_⟩
  by_cases hib : 0 < h.ib
  swap
  · -- an empty input block: both sides vanish
    have : uj - lj = 0 := by omega
    rw [this, Finset.sum_range_zero]
    unfold negMulR
    apply Finset.sum_eq_zero
    intro p _
    have hz : px.getD p 0 = 0 := hxz p (fun db' dj _ hdj => by omega)
    split <;> simp [hz]
  have hdkM := c20_succ_mul_le (ib := h.ib) (lt_of_lt_of_le hdk ho)
  have hdbM := c20_succ_mul_le (ib := h.ob * h.ib) (lt_of_lt_of_le hdb hb)
  rw [c20_negMul_sparse h.n _ _ (outPos h db dk) (range (uj - lj)) (fun j => inPos h db j)]
  · apply Finset.sum_congr rfl
    intro j hj
    have hj' : j < uj - lj := Finset.mem_range.mp hj
    have hpos : outPos h db dk - inPos h db j = wPos h dk j := by
      rw [c20_outPos_eq h _ _ hib, c20_inPos_eq, c20_wPos_eq h _ _ (by omega)]; omega
    show px.getD (inPos h db j) 0 * pw.getD (outPos h db dk - inPos h db j) 0 = _
    rw [hpos, hxv db j hdb hj', hwv dk j hdk hj']
  · intro j _ j' _ he
    simp only [c20_inPos_eq] at he; omega
  · intro j hj
    have hj' : j < uj - lj := Finset.mem_range.mp hj
    rw [c20_outPos_eq h _ _ hib, c20_inPos_eq]; omega
  · rw [c20_outPos_eq h _ _ hib]; omega
  · -- below the read position only the expected pairs are non-zero
    intro p hp hnot
    by_cases hA : ∀ db' dj, db' < ui - li → dj < uj - lj → inPos h db' dj ≠ p
    · show px.getD p 0 * _ = 0
      rw [hxz p hA, zero_mul]
    by_cases hB : ∀ dk' di, dk' < uk - lk → di < uj - lj → wPos h dk' di ≠ outPos h db dk - p
    · show _ * pw.getD (outPos h db dk - p) 0 = 0
      rw [hwz _ hB, mul_zero]
    exfalso
    push Not at hA hB
    obtain ⟨b', j, hb', hj, hpa⟩ := hA
    obtain ⟨k, i', hk, hi', hpb⟩ := hB
    rw [c20_inPos_eq] at hpa
    rw [c20_wPos_eq h _ _ (by omega), c20_outPos_eq h _ _ hib] at hpb
    rw [c20_outPos_eq h _ _ hib] at hp
    have := c20_ch_low (M := h.ob * h.ib) (ib := h.ib) (ob := h.ob) (b' := b') (j := j) (k := k) (i' := i') (db := db) (dk := dk)
      rfl (by omega) (by omega) (by omega) (by omega) (by omega)
    apply hnot j (Finset.mem_range.mpr hj)
    rw [c20_inPos_eq, ← hpa, this.1]
  · -- wrap-around terms
    intro p hp hpn
    by_cases hA : ∀ db' dj, db' < ui - li → dj < uj - lj → inPos h db' dj ≠ p
    · show px.getD p 0 * _ = 0
      rw [hxz p hA, zero_mul]
    by_cases hB : ∀ dk' di, dk' < uk - lk → di < uj - lj → wPos h dk' di ≠ h.n + outPos h db dk - p
    · show _ * pw.getD (h.n + outPos h db dk - p) 0 = 0
      rw [hwz _ hB, mul_zero]
    exfalso
    push Not at hA hB
    obtain ⟨b', j, hb', hj, hpa⟩ := hA
    obtain ⟨k, i', hk, hi', hpb⟩ := hB
    rw [c20_inPos_eq] at hpa
    rw [c20_wPos_eq h _ _ (by omega), c20_outPos_eq h _ _ hib] at hpb
    exact c20_ch_high (n := h.n) (M := h.ob * h.ib) (ib := h.ib) (ob := h.ob) (bb := h.bb) (b' := b') (j := j) (k := k) (i' := i')
      (db := db) (dk := dk) rfl hfitM (by omega) (by omega) (by omega) (by omega)

/-- summing the per-block partial sums over the blocks `[ii·blk, min total (ii·blk + blk))` gives the full sum -/
theorem c20_sum_blocks {R : Type} [AddCommMonoid R] (f : Nat → R) (blk total : Nat) (hblk : 0 < blk) :
    ∑ ii ∈ range (ceilDiv total blk), ∑ j ∈ range (min total (ii * blk + blk) - ii * blk), f (ii * blk + j)
      = ∑ j ∈ range total, f j := by
  have key : ∀ c, ∑ ii ∈ range c, ∑ j ∈ range (min total (ii * blk + blk) - ii * blk), f (ii * blk + j)
      = ∑ j ∈ range (min total (c * blk)), f j := by
    intro c
    induction c with
    | zero => simp
    | succ c ih =>
      rw [Finset.sum_range_succ, ih]
      rcases Nat.lt_or_ge (c * blk) total with hlt | hge
      · have e : min total ((c + 1) * blk) = min total (c * blk) + (min total (c * blk + blk) - c * blk) := by
          rw [Nat.succ_mul]; omega
        rw [e, Finset.sum_range_add]
        congr 1
        apply Finset.sum_congr rfl
        intro j _
        congr 1; omega
      · have e1 : min total (c * blk + blk) - c * blk = 0 := by omega
        have e2 : min total ((c + 1) * blk) = min total (c * blk) := by rw [Nat.succ_mul]; omega
        rw [e1, e2]; simp
  rw [key]
  congr 2
  unfold ceilDiv
  have : total ≤ (total + blk - 1) / blk * blk := by
    have h1 := Nat.div_add_mod (total + blk - 1) blk
    have h2 := Nat.mod_lt (total + blk - 1) hblk
    rw [Nat.mul_comm] at h1
    omega
  omega

end HC
